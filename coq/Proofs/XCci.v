(* CommodityChannelIndex over the exact carrier: after any history of bars the output is
   (TP - mean w) / (0.015 * MAD w) over the last min(t, n) typical prices w, and exactly 0 when MAD w = 0. *)
From Coq Require Import Reals Lra Lia.
From TA Require Import Base Model XR Proofs.Prims Proofs.WF Proofs.Ring Proofs.XBase Proofs.XSma Proofs.XMad Proofs.XCor
  Proofs.XBands.
Open Scope R_scope.
Local Notation O := XROps.

Definition tp3 (b : rbar) : R := let '(h, l, c) := b in (c + h + l) / 3.

Definition cci_val (w : list R) (tp : R) : XR :=
  if Req_EM_T (madev w) 0 then Fin 0 else Fin ((tp - mean w) / (madev w * (15 / 1000))).
Definition cci_spec (p : nat) (h : list R) (tp : R) : XR := cci_val (lastn p (h ++ [tp])) tp.

Definition cci_inv (s : @Cci XR) (h : list R) : Prop :=
  sma_inv (cci_sma s) h /\ mad_inv (cci_mad s) h /\ sma_period (cci_sma s) = mad_period (cci_mad s).

Lemma cci_inv_new p s : cci_new O p = Ok s -> cci_inv s [].
Proof.
  unfold cci_new. intros H.
  destruct (sma_new O p) as [sm| |] eqn:Es; cbn in H; try discriminate.
  destruct (mad_new O p) as [md| |] eqn:Em; cbn in H; try discriminate. injection H as <-.
  pose proof (sma_new_inv O p sm Es) as (_ & _ & _ & P1). pose proof (mad_new_inv O p md Em) as (_ & _ & _ & P2).
  repeat split; try apply (sma_inv_new p sm Es); try apply (mad_inv_new p md Em). cbn. congruence.
Qed.

Lemma tp_bar (b : rbar) :
  div O (add O (add O (b_close (mkb b)) (b_high (mkb b))) (b_low (mkb b))) (three O) = Fin (tp3 b).
Proof. destruct b as [[h l] c]. cbn [mkb b_close b_high b_low tp3]. xfin. rewrite xr_div_fin by lra. reflexivity. Qed.

Lemma cci_step s h b : cci_inv s h ->
  exists s', cci_next_bar O s (mkb b) = Ok (s', cci_spec (N.to_nat (sma_period (cci_sma s))) h (tp3 b)) /\
             cci_inv s' (h ++ [tp3 b]) /\ sma_period (cci_sma s') = sma_period (cci_sma s).
Proof.
  intros (Hs & Hm & Hp). unfold cci_next_bar. rewrite tp_bar.
  destruct (sma_step _ h (tp3 b) Hs) as (sm' & Es & Is & Ps). rewrite Es. cbn [bind].
  destruct (mad_step _ h (tp3 b) Hm) as (md' & Em & Im & Pm). rewrite Em. cbn [bind].
  exists (mkCci sm' md'). split; [|split; [|exact Ps]].
  2:{ split; [exact Is|]. split; [exact Im|]. cbn [cci_sma cci_mad]. rewrite Ps, Pm. exact Hp. }
  f_equal. f_equal. unfold cci_spec, cci_val. rewrite <- Hp.
  set (w := lastn _ _). xfin.
  destruct (Req_EM_T (madev w) 0) as [E|E].
  - rewrite E. replace (eqb O (Fin 0) (Fin 0)) with true; [reflexivity|]. symmetry. apply xr_eqb_fin. reflexivity.
  - destruct (eqb O (Fin (madev w)) (Fin 0)) eqn:Eq; [apply xr_eqb_fin in Eq; contradiction|].
    rewrite xr_div_fin; [reflexivity|]. intros Z. apply E. nra.
Qed.

Fixpoint cci_bar_outs (s : @Cci XR) (bs : list (Bar XR)) : list XR :=
  match bs with
  | [] => []
  | b :: bs => match cci_next_bar O s b with Ok (s', o) => o :: cci_bar_outs s' bs | _ => [] end
  end.

Fixpoint cci_spec_stream (p : nat) (h : list R) (tps : list R) : list XR :=
  match tps with [] => [] | x :: xs => cci_spec p h x :: cci_spec_stream p (h ++ [x]) xs end.

Lemma cci_outs_spec : forall bs s h, cci_inv s h ->
  cci_bar_outs s (map mkb bs) = cci_spec_stream (N.to_nat (sma_period (cci_sma s))) h (map tp3 bs).
Proof.
  induction bs as [|b bs IH]; intros s h Hinv; cbn [cci_bar_outs map cci_spec_stream]; [reflexivity|].
  destruct (cci_step s h b Hinv) as (s' & E & Hinv' & Hp). rewrite E. f_equal.
  rewrite (IH s' (h ++ [tp3 b]) Hinv'), Hp. reflexivity.
Qed.

Theorem cci_refines : forall p s bs, cci_new O p = Ok s ->
  cci_bar_outs s (map mkb bs) = cci_spec_stream (N.to_nat p) [] (map tp3 bs).
Proof.
  intros p s bs H. rewrite (cci_outs_spec bs s [] (cci_inv_new p s H)).
  unfold cci_new in H. destruct (sma_new O p) as [sm| |] eqn:Es; cbn in H; try discriminate.
  destruct (mad_new O p) as [md| |] eqn:Em; cbn in H; try discriminate. injection H as <-.
  pose proof (sma_new_inv O p sm Es) as (_ & _ & _ & P1). cbn. rewrite P1. reflexivity.
Qed.

(* flat window: exactly 0 *)
Theorem cci_flat : forall p h tp v, flat v (lastn p (h ++ [tp])) -> lastn p (h ++ [tp]) <> [] -> cci_spec p h tp = Fin 0.
Proof.
  intros p h tp v Hf Hn. unfold cci_spec, cci_val. rewrite (madev_flat v _ Hn Hf).
  destruct (Req_EM_T 0 0); [reflexivity|contradiction].
Qed.

(* documented value wherever the deviation is non-zero *)
Theorem cci_value : forall p h tp, let w := lastn p (h ++ [tp]) in madev w <> 0 ->
  cci_spec p h tp = Fin ((tp - mean w) / (0.015 * madev w)).
Proof.
  intros p h tp w Hm. unfold cci_spec, cci_val. fold w. destruct (Req_EM_T (madev w) 0); [contradiction|].
  f_equal. f_equal. lra.
Qed.
