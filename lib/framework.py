# The check driver: proof audit + correspondence (T1) + property predicates on the implementation,
# known-finding classification, evidence and VIOLATION reporting.
import json
import os
import random
import re
import sys
import traceback

from common import *  # noqa
from common import Case
import common

TRUSTED_BASE = [
    "Coq 8.16.1 kernel (coqc full .vo build via coq_makefile; no -vos/-vok); vm_compute (bytecode VM) for "
    "model evaluation and witness lemmas; no native_compute; no extraction (no Extract directives)",
    "axioms: only those reported by Print Assumptions and allow-listed by name in lib/framework.py:ALLOWED_AXIOMS "
    "(Reals: ClassicalDedekindReals.sig_forall_dec, sig_not_dec, FunctionalExtensionality.functional_extensionality_dep; "
    "primitive floats/ints: PrimFloat.*, Uint63.* primitives and FloatAxioms/Uint63 specification axioms; Classical_Prop.classic via Flocq)",
    "hand-written Gallina model coq/Model.v + coq/Generic.v of /repo/src (modelled, not verified), tied to the code on every "
    "run by the correspondence check T1: harness crate (harness/src/*.rs, path dependency on /repo, rebuilt from the working tree) "
    "vs vm_compute of the float instance, bit-exact outputs, errors, panics and bincode state images",
    "Python driver (lib/*.py): case generators, hex-float printing, NaN canonicalisation, Rust f64 Display emulation, property predicates used for the search",
    "platform: rustc compiles f64 + - * / sqrt to correctly rounded IEEE-754 binary64 (x86-64 SSE2, no FMA contraction); usize is 64-bit; "
    "Coq's primitive floats use the host's binary64 hardware",
    "modelled but not verified: serde derive expansion and bincode 1.3 byte layout; not modelled: f64 Display, allocator, threads, Debug text",
]

ALLOWED_AXIOMS = {
    "ClassicalDedekindReals.sig_forall_dec", "ClassicalDedekindReals.sig_not_dec",
    "FunctionalExtensionality.functional_extensionality_dep", "Classical_Prop.classic",
    "Eqdep.Eq_rect_eq.eq_rect_eq", "JMeq.JMeq_eq", "ProofIrrelevance.proof_irrelevance",
    "PropExtensionality.propositional_extensionality", "ClassicalEpsilon.constructive_indefinite_description",
}
ALLOWED_PREFIXES = ("PrimFloat.", "Uint63.", "FloatAxioms.", "PrimInt63.", "Sint63.", "Float64", "Int63")

FORBIDDEN_RE = re.compile(
    r"\b(Admitted|admit|Axiom|Axioms|Parameter|Parameters|Conjecture|Conjectures|Abort All|bypass_check|"
    r"Unset\s+Guard\s+Checking|Unset\s+Positivity\s+Checking|Unset\s+Universe\s+Checking|Admit\s+Obligations|"
    r"type-in-type|impredicative-set)\b")


class Violation:
    def __init__(self, what, case=None, detail=None, finding_key=None, kind="property"):
        self.what = what          # one line
        self.case = case
        self.detail = detail or {}
        self.finding_key = finding_key   # dict describing the class, matched against known findings
        self.kind = kind          # property | correspondence | proof | build


def strip_comments(src):
    out = []
    depth = 0
    i = 0
    while i < len(src):
        if src.startswith("(*", i):
            depth += 1
            i += 2
        elif src.startswith("*)", i) and depth > 0:
            depth -= 1
            i += 2
        else:
            if depth == 0:
                out.append(src[i])
            i += 1
    return "".join(out)


def proof_audit(pid):
    """Build Properties/<pid>.vo (and what it needs), list its theorems, Print Assumptions for each,
    compare with the allow-list, grep the development for forbidden vernacular."""
    res = {"obligations": 0, "discharged": 0, "failures": [], "theorems": [], "axioms": {}, "log": ""}
    prop_file = os.path.join(COQ, "Properties", "%s.v" % pid)
    if not os.path.exists(prop_file):
        res["failures"].append("no Properties/%s.v" % pid)
        return res
    src = strip_comments(open(prop_file).read())
    thms = re.findall(r"^\s*(?:Theorem|Corollary)\s+([A-Za-z0-9_']+)", src, re.M)
    res["theorems"] = thms
    res["obligations"] = len(thms)
    # forbidden vernacular anywhere in the development
    for root, _, files in os.walk(COQ):
        for fn in files:
            if fn.endswith(".v"):
                text = strip_comments(open(os.path.join(root, fn)).read())
                m = FORBIDDEN_RE.search(text)
                if m:
                    res["failures"].append("forbidden vernacular %r in %s" % (m.group(0), os.path.relpath(os.path.join(root, fn), COQ)))
    proj = open(os.path.join(COQ, "_CoqProject")).read()
    if re.search(r"-(type-in-type|impredicative-set|bypass)", proj):
        res["failures"].append("forbidden flag in _CoqProject")
    ok, log = build_coq(["Properties/%s.vo" % pid, "Run.vo", "Run2.vo", "Gen.vo"])
    res["log"] = log[-4000:]
    if not ok:
        res["failures"].append("make Properties/%s.vo failed" % pid)
        m = re.search(r'File "([^"]+)", line (\d+)', log)
        if m:
            res["failures"].append("first error at %s:%s" % (m.group(1), m.group(2)))
        return res
    if not thms:
        res["failures"].append("no theorem in Properties/%s.v" % pid)
        return res
    q = ["From TA Require Import Properties.%s." % pid]
    for t in thms:
        q.append('Print Assumptions %s.' % t)
    try:
        out = coq_eval("\n".join(q) + "\n", "audit_%s" % pid, timeout=600)
    except BuildError as e:
        res["failures"].append("Print Assumptions failed: " + str(e)[-500:])
        return res
    # split the output per theorem: each Print Assumptions prints either "Closed under the global context"
    # or "Axioms:" + entries "name : type" (type may span lines, indented)
    chunks = re.split(r"(?m)^(?=Closed under the global context|Axioms:)", out)
    chunks = [c for c in chunks if c.startswith("Closed") or c.startswith("Axioms:")]
    if len(chunks) != len(thms):
        res["failures"].append("cannot parse Print Assumptions output (%d chunks for %d theorems)" % (len(chunks), len(thms)))
        return res
    for t, c in zip(thms, chunks):
        axs = []
        if c.startswith("Axioms:"):
            for line in c.splitlines()[1:]:
                m = re.match(r"^([A-Za-z_][A-Za-z0-9_.']*)\s*(:|$)", line)
                if m:
                    axs.append(m.group(1))
        bad = [a for a in axs if a not in ALLOWED_AXIOMS and not a.startswith(ALLOWED_PREFIXES)]
        res["axioms"][t] = axs
        if bad:
            res["failures"].append("theorem %s depends on non-allow-listed axioms: %s" % (t, ", ".join(bad)))
        else:
            res["discharged"] += 1
    return res


def load_known():
    p = os.path.join(VERIF, "known_findings.json")
    if not os.path.exists(p):
        return []
    return json.load(open(p)).get("findings", [])


def finding_matches(entry, pid, key):
    if entry.get("status") != "open" or pid not in entry.get("properties", []):
        return False
    if key is None:
        return False
    for k, v in entry.get("match", {}).items():
        kv = key.get(k)
        if isinstance(v, list):
            if kv not in v:
                return False
        elif kv != v:
            return False
    return True


class Ctx:
    def __init__(self, pid, tier, seed):
        self.pid = pid
        self.tier = tier
        self.seed = seed
        self.rng = random.Random((seed << 8) ^ hash(pid) % 251 if False else seed * 1000003 + int(pid[1:]))
        self.thorough = tier == "thorough"
        self.binary = None
        self.binary_release = None
        self.notes = []
        self.stats = {}


def write_replay(pid, v, extra=None):
    payload = {"property": pid, "kind": v.kind, "what": v.what, "detail": v.detail}
    if v.case is not None:
        payload["case"] = v.case.to_json()
        if getattr(v.case, "obs", None) is not None:
            payload["implementation_observed"] = [str(o) for o in v.case.obs]
    if extra:
        payload.update(extra)
    path = replay_path(pid, payload)
    write_json(path, payload)
    return path


def shrink_t1(ctx, case, first_bad):
    """Cut the op list after the first differing op; try to drop leading feed ops."""
    from common import Case
    ops = list(case.ops[:first_bad]) if 0 < first_bad <= len(case.ops) else list(case.ops)
    best = Case(case.cid + "_min", ops, case.dump if first_bad > len(case.ops) else (), case.meta)

    def fails(c):
        try:
            run_harness(ctx.binary, [c], "shrink")
            r = coq_check_cases([c], "shrink")
            return r[0] != 0
        except Exception:
            return False
    if not fails(best):
        return case
    tries = 0
    i = 1
    while i < len(best.ops) - 1 and tries < 10:
        if best.ops[i][0] in ("n", "b", "i", "j"):
            cand = Case(best.cid, best.ops[:i] + best.ops[i + 1:], best.dump, best.meta)
            tries += 1
            if fails(cand):
                best = cand
                continue
        i += 1
    fails(best)
    return best


def shrink_t2(ctx, prop, case, budget=14):
    """A case whose last op violates the property's tolerance against the exact instance: drop blocks of feed ops (from the front, by
    halves) while the violation persists. Returns (case, result) with the implementation's observations of the kept case."""
    from common import Case

    def fails(c):
        try:
            run_harness(ctx.binary, [c], "shrink2")
            r = coq_check_cases([c], "shrink2", checker=prop.t2_checker, extra_header="From TA Require Import XQ Run2.\n", timeout=600)
            return r[0]
        except Exception:  # noqa
            return 0
    best, best_r = case, None
    head = [o for o in case.ops if o[0] in ("new", "def")]
    feeds = [o for o in case.ops if o[0] not in ("new", "def")]
    if len(head) + len(feeds) != len(case.ops) or case.ops[:len(head)] != head or len(feeds) < 4:
        return case, None
    tries = 0
    chunk = len(feeds) // 2
    while chunk >= 1 and tries < budget:
        cand_feeds = feeds[chunk:]
        if len(cand_feeds) < 1:
            chunk //= 2
            continue
        cand = Case(case.cid.replace("_cut", "") + "_min", head + cand_feeds, (), dict(case.meta))
        tries += 1
        r = fails(cand)
        if r:
            # keep only up to the (possibly earlier) first failing op
            k = r if 0 < r <= len(cand.ops) else len(cand.ops)
            feeds = cand_feeds[:max(1, k - len(head))]
            best = Case(cand.cid, head + feeds, (), dict(case.meta))
            best.obs = cand.obs[:len(best.ops)]
            best_r = len(best.ops)
            chunk = min(chunk, len(feeds) // 2)
        else:
            chunk //= 2
    return best, best_r


def run_check(prop, pid, tier, seed):
    timer = Timer()
    ctx = Ctx(pid, tier, seed)
    violations = []
    evidence_cov = {}
    known_lines = []
    cases = []
    t1_bad = []
    audit = {"obligations": 0, "discharged": 0, "failures": ["not run"], "theorems": [], "axioms": {}}
    with Lock():
        try:
            audit = proof_audit(pid)
            for f in audit["failures"]:
                violations.append(Violation("proof obligation not discharged: " + f, kind="proof",
                                            detail={"theorems": audit["theorems"], "log_tail": audit.get("log", "")[-1500:]}))
            # --- build the harness against the current tree
            try:
                ctx.binary = build_harness(False)
                if getattr(prop, "needs_release", False) or ctx.thorough:
                    ctx.binary_release = build_harness(True)
            except BuildError as e:
                violations.append(Violation("correspondence harness no longer builds against /repo", kind="build",
                                            detail={"diagnostics": str(e)[-4000:]}))
                ctx.binary = None
            if ctx.binary and not any(v.kind == "proof" and "make" in v.what for v in violations) and hasattr(prop, "run"):
                # properties with their own driver (long generated streams): returns (cases, violations, #T1 mismatches)
                cases, pv, t1_bad = prop.run(ctx)
                violations.extend(pv)
            elif ctx.binary and not any(v.kind == "proof" and "make" in v.what for v in violations):
                cases = prop.gen_cases(ctx)
                # MoneyFlowIndex branches on the sign bit of values popped from its window; the sign of a NaN is not modelled
                # (Coq has one NaN; x86 produces negative default NaNs), so after non-finite / overflowing inputs the internal
                # split between the two running totals can differ while every output agrees: compare outputs only
                for c_ in cases:
                    if c_.meta.get("ind") == "MFI" and c_.dump and any(
                            isinstance(v, float) and (v != v or abs(v) > 1e300) for o in c_.ops for v in o[2:] if o[0] in ("n", "b", "i", "j")):
                        c_.dump = ()
                from props.util import aux_clone_cases, aux_bigperiod_cases
                aux = aux_clone_cases() if not (getattr(prop, "no_aux", False) or getattr(prop, "no_aux_clone", False)) else []
                if getattr(prop, "aux_big", False):      # the properties about windowed values (costly: O(period) per model step)
                    aux += aux_bigperiod_cases()
                ctx.stats["aux_t1_only_cases"] = len(aux)
                run_harness(ctx.binary, cases + aux, pid)
                # --- T1: bit-exact agreement with the float instance of the model
                # cases marked harness_only are too expensive for the list-based model (O(period) per ring update at periods
                # beyond 2^16); they are run on the implementation only and judged by the property's predicate
                t1cases = [c for c in cases + aux if not (isinstance(c.meta, dict) and c.meta.get("harness_only"))]
                ctx.stats["harness_only_cases"] = len(cases) - len(t1cases)
                t1 = coq_check_cases(t1cases, pid)
                for c in cases + aux:
                    c.t1 = 0
                for c, r in zip(t1cases, t1):
                    c.t1 = r
                    if r != 0:
                        t1_bad.append(c)
                # --- T2: implementation outputs vs the exact (rational) instance of the model, property tolerance
                pv = []
                if hasattr(prop, "t2_checker"):
                    t2cases = [c for c in cases if prop.t2_select(c)]
                    t2 = coq_check_cases(t2cases, pid + "t2", checker=prop.t2_checker,
                                         extra_header="From TA Require Import XQ Run2.\n", timeout=2400)
                    ctx.stats["t2_cases"] = len(t2cases)
                    shrunk = False
                    for c, r in zip(t2cases, t2):
                        c.t2 = r
                        if r != 0:
                            v_ = prop.t2_violation(ctx, c, r)
                            if not shrunk and v_.finding_key is None and 0 < r <= len(c.ops) and r > 12:
                                # the first concrete violation is reduced to a short replay
                                shrunk = True
                                try:
                                    cut = Case(c.cid + "_cut", c.ops[:r], (), dict(c.meta))
                                    small, r_small = shrink_t2(ctx, prop, cut)
                                    if r_small:
                                        v2 = prop.t2_violation(ctx, small, r_small)
                                        v2.detail = dict(v2.detail or {}, shrunk_from=len(cut.ops), original_case=c.cid)
                                        v_ = v2
                                except Exception:  # noqa
                                    pass
                            pv.append(v_)
                # --- property predicates evaluated on the implementation's own outputs
                pv += prop.check_impl(ctx, cases)
                violations.extend(pv)
                # auxiliary (T1-only) cases are not shaped like the property's own: they take no part in the escalated searches
                t1_esc = [c_ for c_ in t1_bad if not (isinstance(c_.meta, dict) and c_.meta.get("aux"))]
                if t1_esc and not any(v.kind == "property" for v in pv):
                    # correspondence broken, no property failure among the generated cases: escalate the search
                    if hasattr(prop, "search"):
                        violations.extend(prop.search(ctx, t1_esc))
                if t1_esc and hasattr(prop, "t2_checker") and not any(v.kind == "property" for v in violations):
                    # the correspondence broke: evaluate the property's tolerance predicate on every mismatching case
                    # (truncated shortly after the first differing op), whether or not it was selected for T2 before
                    cand = []
                    for c_ in t1_esc[:24]:
                        k_ = min(len(c_.ops), (c_.t1 + 6) if c_.t1 < 1000000 else min(len(c_.ops), 80))
                        cc = Case(c_.cid + "_t", c_.ops[:k_], dump=(), meta=dict(c_.meta))
                        cc.obs = c_.obs[:k_]
                        cc.images = {}
                        cand.append(cc)
                    try:
                        r2 = coq_check_cases(cand, pid + "t2b", checker=prop.t2_checker,
                                             extra_header="From TA Require Import XQ Run2.\n", timeout=900)
                        for cc, x_ in zip(cand, r2):
                            if x_ != 0:
                                violations.append(prop.t2_violation(ctx, cc, x_))
                                break
                    except Exception:  # noqa
                        pass
                if t1_bad:
                    t1_bad.sort(key=lambda x_: (1 if (isinstance(x_.meta, dict) and x_.meta.get("aux")) else 0, 0 if x_.t1 < 1000000 else 1))
                    c = t1_bad[0]
                    small = shrink_t1(ctx, c, c.t1) if c.t1 < 1000000 else c
                    try:
                        model = coq_dump_case(small)
                    except Exception as e:  # noqa
                        model = str(e)[-300:]
                    # the shrunk mismatching case is a candidate failing input: evaluate the property's tolerance predicate (T2) on it
                    if hasattr(prop, "t2_checker") and not (isinstance(c.meta, dict) and c.meta.get("aux")) and not any(v.kind == "property" for v in violations) and small.obs is not None:
                        try:
                            r2 = coq_check_cases([small], pid + "t2s", checker=prop.t2_checker,
                                                 extra_header="From TA Require Import XQ Run2.\n", timeout=600)
                            if r2 and r2[0] != 0:
                                small.meta = dict(c.meta)
                                violations.append(prop.t2_violation(ctx, small, r2[0]))
                        except Exception:  # noqa
                            pass
                    violations.append(Violation(
                        "correspondence T1 (implementation vs Coq float model, bit-exact) fails on %d of %d cases; first: %s at op %d"
                        % (len(t1_bad), len(cases), c.cid, c.t1), case=small, kind="correspondence",
                        detail={"model_observations(tag,bits...)": model,
                                "meaning": "the theorems of Properties/%s.v are about a model the code no longer matches" % pid,
                                "all_mismatching_cases": [x.cid for x in t1_bad[:50]]}))
            # --- static tie: the model's state records mirror the structs of the implementation field by field, nothing is hidden
            # from the serialized form, no state lives outside the structs (lib/structtie.py)
            import structtie
            from common import REPO as _REPO, COQ as _COQ
            tie = structtie.check(_REPO, _COQ)
            ctx.stats["struct_tie_mismatches"] = len(tie)
            if tie:
                violations.append(Violation(
                    "correspondence (static): the state records of the model no longer mirror the structs of the implementation: " + "; ".join(tie[:6]),
                    kind="correspondence",
                    detail={"mismatches": tie, "meaning": "the theorems of Properties/%s.v are about a model whose state space is not that of the code "
                                                          "(state outside the modelled / serialized fields is invisible to the dynamic tie)" % pid}))
        except BuildError as e:
            violations.append(Violation("check infrastructure failure: " + str(e)[-1500:], kind="build"))
        except Exception as e:  # noqa
            violations.append(Violation("check crashed: %s" % traceback.format_exc()[-2000:], kind="build"))

    # --- classify against known findings
    known = load_known()
    real = []
    for v in violations:
        hit = None
        for e in known:
            if finding_matches(e, pid, v.finding_key):
                hit = e
                break
        if hit is not None:
            line = "KNOWN-FINDING: property=%s %s [%s]" % (pid, hit["what"], hit["id"])
            if line not in known_lines:
                known_lines.append(line)
        else:
            real.append(v)
    for line in known_lines:
        print(line)

    # --- evidence
    nontriv = set()
    for c in cases:
        if prop.nontrivial(c):
            nontriv.add(json.dumps(c.to_json()["ops"]))
    samples = [{"id": c.cid, "ops": c.to_json()["ops_readable"][:12], "n_ops": len(getattr(c, "ops", [])) or getattr(c, "length", 0)} for c in cases[:3]]
    cov = {
        "obligations": max(audit["obligations"], 1) if audit["theorems"] else audit["obligations"],
        "discharged": audit["discharged"],
        "checker_cmd": "make -C coq Properties/%s.vo && coqc Print Assumptions (lib/framework.py:proof_audit)" % pid,
        "trusted_base": TRUSTED_BASE,
        "theorems": audit["theorems"],
        "axioms_per_theorem": audit["axioms"],
        "evaluations": len(cases),
        "distinct_nontrivial": len(nontriv),
        "rule": prop.rule,
        "samples": samples if samples else [{"note": "no correspondence cases were run"}],
        "bit_exact_model_agreement": len(t1_bad) == 0 and len(cases) > 0,
        "t1_mismatching_cases": len(t1_bad),
        "known_findings_reproduced": known_lines,
        "notes": ctx.notes,
        "stats": ctx.stats,
        "exhaustive": False,
    }
    ev = {"property_id": pid, "tier": tier, "seed": seed, "level": "proof", "coverage": cov,
          "assumptions": getattr(prop, "assumptions", []), "wall_s": timer.s(), "violations": len(real)}
    ev_dir = os.path.join(VERIF, "evidence") if common.REPO == "/repo" else os.path.join(BUILD, "evidence_alt")
    write_json(os.path.join(ev_dir, "%s.json" % pid), ev)

    if not real:
        print("OK property=%s tier=%s cases=%d theorems=%d/%d wall=%.1fs" %
              (pid, tier, len(cases), audit["discharged"], audit["obligations"], timer.s()))
        return 0
    # prefer a concrete property failure as the reported replay
    real.sort(key=lambda v: {"property": 0, "correspondence": 1, "proof": 2, "build": 3}[v.kind])
    first = real[0]
    has_input = first.kind == "property"
    path = write_replay(pid, first, {"other_findings": [v.what for v in real[1:6]]})
    for v in real[:8]:
        print("DETAIL property=%s kind=%s %s" % (pid, v.kind, v.what[:400]))
    print("VIOLATION property=%s replay=%s%s" % (pid, path, "" if has_input else " no-failing-input-found"))
    return 1
