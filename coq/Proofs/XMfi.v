(* MoneyFlowIndex over the exact carrier: 100 * PMF / (PMF + NMF) over the last n typical-price moves (first output 50),
   for bars with non-negative raw money flow (positive prices, volume >= 0). *)
From Coq Require Import Reals Lra Lia.
From TA Require Import Base Model XR Proofs.Prims Proofs.WF Proofs.Ring Proofs.XBase Proofs.XSma Proofs.XWma Proofs.XEma.
Open Scope N_scope.

Local Notation O := XROps.

(* a bar as (typical-price ingredients, volume): high, low, close, volume *)
Definition mbar := (R * R * R * R)%type.
Definition mkm (b : mbar) : Bar XR := let '(h, l, c, v) := b in mkBar (Fin 0) (Fin h) (Fin l) (Fin c) (Fin v).
Definition tpr (b : mbar) : R := let '(h, l, c, _) := b in ((c + h + l) / 3)%R.
Definition volr (b : mbar) : R := let '(_, _, _, v) := b in v.
Definition rawr (b : mbar) : R := (tpr b * volr b)%R.

(* signed money flow of a bar against the previous typical price *)
Definition sflow (prev : R) (b : mbar) : R :=
  if Rlt_dec prev (tpr b) then rawr b else if Rlt_dec (tpr b) prev then (- rawr b)%R else 0%R.
Fixpoint flows (prev : R) (bs : list mbar) : list R :=
  match bs with [] => [] | b :: bs => sflow prev b :: flows (tpr b) bs end.

Definition possum (l : list R) : R := Rsum (map (fun s => Rmax s 0) l).
Definition negsum (l : list R) : R := Rsum (map (fun s => Rmax (- s) 0) l).

Lemma last_default' {A} (l : list A) d1 d2 : l <> [] -> last l d1 = last l d2.
Proof. induction l as [|a l IH]; intros H; [congruence|]. destruct l; [reflexivity|]. apply IH. discriminate. Qed.

Lemma flows_snoc prev bs b : flows prev (bs ++ [b]) = flows prev bs ++ [sflow (last (map tpr bs) prev) b].
Proof.
  revert prev; induction bs as [|a bs IH]; intros prev; [reflexivity|].
  cbn [app flows map]. rewrite IH. f_equal. f_equal. f_equal. destruct bs as [|m bs]; [reflexivity|].
  change (last (tpr a :: map tpr (m :: bs)) prev) with (last (map tpr (m :: bs)) prev). f_equal. apply last_default'. discriminate.
Qed.
Lemma flows_length prev bs : length (flows prev bs) = length bs.
Proof. revert prev; induction bs as [|a bs IH]; intros prev; [reflexivity|]. cbn. f_equal. apply IH. Qed.

Lemma possum_app a b : possum (a ++ b) = (possum a + possum b)%R.
Proof. unfold possum. rewrite map_app, Rsum_app. reflexivity. Qed.
Lemma negsum_app a b : negsum (a ++ b) = (negsum a + negsum b)%R.
Proof. unfold negsum. rewrite map_app, Rsum_app. reflexivity. Qed.
Lemma possum_snoc l x : possum (l ++ [x]) = (possum l + Rmax x 0)%R.
Proof. rewrite possum_app. unfold possum at 2. cbn [map Rsum]. lra. Qed.
Lemma negsum_snoc l x : negsum (l ++ [x]) = (negsum l + Rmax (- x) 0)%R.
Proof. rewrite negsum_app. unfold negsum at 2. cbn [map Rsum]. lra. Qed.
Lemma possum_hd_tl l : l <> [] -> possum l = (Rmax (hd 0%R l) 0 + possum (tl l))%R.
Proof. destruct l; [congruence|reflexivity]. Qed.
Lemma negsum_hd_tl l : l <> [] -> negsum l = (Rmax (- hd 0%R l) 0 + negsum (tl l))%R.
Proof. destruct l; [congruence|reflexivity]. Qed.
Lemma possum_nonneg l : (0 <= possum l)%R.
Proof. unfold possum. induction l as [|a l IH]; cbn; [lra|]. pose proof (Rmax_r a 0). lra. Qed.
Lemma negsum_nonneg l : (0 <= negsum l)%R.
Proof. unfold negsum. induction l as [|a l IH]; cbn; [lra|]. pose proof (Rmax_r (- a) 0). lra. Qed.

(* the state after the first bar b0 and further bars bs (history = b0 :: bs) *)
Definition mfi_inv (s : @Mfi XR) (b0 : mbar) (bs : list mbar) : Prop :=
  let p := N.to_nat (mfi_period s) in
  let fl := flows (tpr b0) bs in
  let c := if mfi_index s + 1 <? mfi_period s then mfi_index s + 1 else 0 in
  wf_mfi s /\
  rot (N.to_nat c) (mfi_deque s) = map Fin (lastn p (padded 0%R p fl)) /\
  mfi_count s = N.of_nat (Nat.min (S (length bs)) p) /\
  mfi_prev_tp s = Fin (last (map tpr bs) (tpr b0)) /\
  mfi_pos s = Fin (possum (lastn p fl)) /\ mfi_neg s = Fin (negsum (lastn p fl)).

Definition mfi_spec (p : nat) (b0 : mbar) (bs : list mbar) : XR :=
  let w := lastn p (flows (tpr b0) bs) in
  mul O (div O (Fin (possum w)) (Fin (possum w + negsum w))) (Fin 100).

Lemma tp_fin (b : mbar) : div O (add O (add O (b_close (mkm b)) (b_high (mkm b))) (b_low (mkm b))) (three O) = Fin (tpr b).
Proof. destruct b as [[[h l] c] v]. cbn [mkm b_close b_high b_low tpr]. xfin. rewrite xr_div_fin by lra. reflexivity. Qed.

Lemma mfi_first p s b0 : mfi_new O p = Ok s ->
  exists s', mfi_next_bar O s (mkm b0) = Ok (s', Fin 50) /\ mfi_inv s' b0 [] /\ mfi_period s' = p.
Proof.
  intros H. pose proof (mfi_new_inv O p s H) as (A & B & W & Pe).
  rewrite mfi_new_ok in H by assumption. injection H as <-.
  unfold mfi_next_bar. rewrite tp_fin. cbn [mfi_period mfi_index mfi_count mfi_prev_tp mfi_pos mfi_neg mfi_deque].
  rewrite advance_ok by (unfold ALLOC_MAX, USIZE_MAX in *; lia). cbn [bind].
  assert (E0 : 0 <? p = true) by (apply N.ltb_lt; lia). rewrite E0.
  rewrite uadd_ok by (unfold ALLOC_MAX, USIZE_MAX in *; lia). cbn [bind N.add N.eqb Pos.eqb].
  eexists. split; [reflexivity|]. split; [|reflexivity].
  unfold mfi_inv. cbn [mfi_period mfi_index mfi_count mfi_prev_tp mfi_pos mfi_neg mfi_deque flows length map last].
  assert (Ha : (if 1 <? p then 1 else 0) < p) by (destruct (N.ltb_spec 1 p); lia).
  split; [unfold wf_mfi, ring_wf; cbn [mfi_period mfi_index mfi_count mfi_deque]; rewrite repeat_length; repeat split; lia|].
  split.
  - rewrite lastn_padded_nil. cbn [zero O]. rewrite <- map_repeat'.
    match goal with |- context [rot (N.to_nat ?cc) _] => set (c := cc) end.
    assert (Hc : c < p) by (unfold c; destruct (N.ltb_spec ((if 1 <? p then 1 else 0) + 1) p); lia).
    unfold rot. rewrite <- (firstn_skipn (N.to_nat c) (map Fin (repeat 0%R (N.to_nat p)))) at 3.
    rewrite map_repeat'.
    replace (N.to_nat p) with (N.to_nat c + (N.to_nat p - N.to_nat c))%nat by lia.
    rewrite repeat_app, skipn_app, firstn_app, repeat_length.
    rewrite skipn_all2, firstn_all2 by (rewrite repeat_length; lia).
    replace (N.to_nat c - N.to_nat c)%nat with 0%nat by lia. cbn [skipn firstn app]. rewrite app_nil_r.
    rewrite <- !repeat_app. f_equal. apply Nat.add_comm.
  - repeat split; try reflexivity. cbn [length Nat.min]. destruct (N.to_nat p) eqn:Ep; [lia|]. cbn. lia.
Qed.

Lemma mfi_step s b0 bs b : mfi_inv s b0 bs -> (0 <= rawr b)%R -> (forall y, In y (flows (tpr b0) bs) -> True) ->
  exists s', mfi_next_bar O s (mkm b) = Ok (s', mfi_spec (N.to_nat (mfi_period s)) b0 (bs ++ [b])) /\
             mfi_inv s' b0 (bs ++ [b]) /\ mfi_period s' = mfi_period s.
Proof.
  intros (W & Hrot & Hcnt & Hprev & Hpos & Hneg) Hraw _. pose proof W as (H1 & H2 & H3 & H4 & H5).
  set (p := N.to_nat (mfi_period s)) in *.
  assert (Hp : (1 <= p)%nat) by (unfold p; lia).
  set (fl := flows (tpr b0) bs) in *.
  set (c := if mfi_index s + 1 <? mfi_period s then mfi_index s + 1 else 0) in *.
  assert (Hc : c < mfi_period s) by (apply advance_lt; exact H3).
  unfold mfi_next_bar. rewrite tp_fin. rewrite advance_ok by (try exact H3; unfold ALLOC_MAX, USIZE_MAX in *; lia). cbn [bind]. fold c.
  set (prev := last (map tpr bs) (tpr b0)) in *.
  set (sf := sflow prev b).
  set (w := lastn p fl) in *.
  assert (Lfl : length fl = length bs) by (unfold fl; apply flows_length).
  (* one ring step at cursor c *)
  set (v := if Rlt_dec prev (tpr b) then Fin (rawr b) else if Rlt_dec (tpr b) prev then neg O (Fin (rawr b)) else Fin 0%R).
  assert (Ev : v = Fin sf).
  { unfold v, sf, sflow. destruct (Rlt_dec prev (tpr b)); [reflexivity|]. destruct (Rlt_dec (tpr b) prev); [xfin; reflexivity|reflexivity]. }
  destruct (ring_step (mfi_deque s) (mfi_period s) c (Fin sf) (Fin 0) H1 Hc H2 H5) as (E1 & E2 & E3 & E4 & E5).
  (* the flow branch, common to both cases *)
  assert (Flow : forall (cnt : N) (P0 N0 : R),
     (let flow := fun (count : N) (pos ng : XR) =>
        '(pos0, ng0, v0) <-
           (if ltb O (mfi_prev_tp s) (Fin (tpr b))
            then let raw := mul O (Fin (tpr b)) (b_volume (mkm b)) in Ok (add O pos raw, ng, raw)
            else if ltb O (Fin (tpr b)) (mfi_prev_tp s)
                 then let raw := mul O (Fin (tpr b)) (b_volume (mkm b)) in Ok (pos, add O ng raw, neg O raw)
                 else Ok (pos, ng, zero O)) ;;
         dq <- upd (mfi_deque s) c v0 ;;
         Ok (mkMfi (mfi_period s) c count (Fin (tpr b)) pos0 ng0 dq, mul O (div O pos0 (add O pos0 ng0)) (c100 O)) in
      flow cnt (Fin P0) (Fin N0)) =
     Ok (mkMfi (mfi_period s) c cnt (Fin (tpr b)) (Fin (P0 + Rmax sf 0)) (Fin (N0 + Rmax (- sf) 0))
               (set_nth (mfi_deque s) (N.to_nat c) (Fin sf)),
         mul O (div O (Fin (P0 + Rmax sf 0)) (Fin ((P0 + Rmax sf 0) + (N0 + Rmax (- sf) 0)))) (Fin 100))).
  { intros cnt P0 N0. cbv zeta. rewrite Hprev. fold prev.
    assert (Evol : b_volume (mkm b) = Fin (volr b)) by (destruct b as [[[hh ll] cc] vv]; reflexivity).
    rewrite Evol. unfold sf, sflow.
    destruct (Rlt_dec prev (tpr b)) as [L1|L1].
    - assert (E : ltb O (Fin prev) (Fin (tpr b)) = true) by (apply xr_ltb_fin; exact L1). rewrite E. cbn [bind]. xfin.
      fold (rawr b). rewrite upd_ok by lia. cbn [bind]. rewrite Rmax_left by exact Hraw.
      rewrite (Rmax_right (- rawr b) 0) by lra. xfin. rewrite ?Rplus_0_r. reflexivity.
    - assert (E : ltb O (Fin prev) (Fin (tpr b)) = false) by (apply xr_ltb_fin_false; lra). rewrite E.
      destruct (Rlt_dec (tpr b) prev) as [L2|L2].
      + assert (E' : ltb O (Fin (tpr b)) (Fin prev) = true) by (apply xr_ltb_fin; exact L2). rewrite E'. cbn [bind]. xfin.
        fold (rawr b). rewrite upd_ok by lia. cbn [bind]. rewrite (Rmax_right (- rawr b) 0) by lra.
        replace (- - rawr b)%R with (rawr b) by lra. rewrite (Rmax_left (rawr b) 0) by exact Hraw. xfin. rewrite ?Rplus_0_r. reflexivity.
      + assert (E' : ltb O (Fin (tpr b)) (Fin prev) = false) by (apply xr_ltb_fin_false; lra). rewrite E'. cbn [bind].
        change (zero O) with (Fin 0%R). rewrite upd_ok by lia. cbn [bind]. replace (- 0)%R with 0%R by lra. rewrite Rmax_left by lra. xfin.
        rewrite ?Rplus_0_r. reflexivity. }
  (* window bookkeeping *)
  assert (Efl' : flows (tpr b0) (bs ++ [b]) = fl ++ [sf]) by (unfold fl, sf, prev; apply flows_snoc).
  pose proof (lastn_snoc_cases p fl sf Hp) as Ew'. fold w in Ew'.
  assert (Hrot' : rot (N.to_nat (if c + 1 <? mfi_period s then c + 1 else 0)) (set_nth (mfi_deque s) (N.to_nat c) (Fin sf)) =
                  map Fin (lastn p (padded 0%R p (fl ++ [sf])))).
  { rewrite E5, Hrot, lastn_padded_snoc by exact Hp. rewrite map_app, tl_map. reflexivity. }
  destruct (N.ltb_spec (mfi_count s) (mfi_period s)) as [Hwarm|Hfull].
  - (* still counting bars: nothing is popped *)
    assert (Hl : (S (length bs) < p)%nat) by (rewrite Hcnt in Hwarm; unfold p in *; lia).
    rewrite uadd_ok by (unfold ALLOC_MAX, USIZE_MAX in *; lia). cbn [bind].
    destruct (N.eqb_spec (mfi_count s + 1) 1) as [Z|Z]; [rewrite Hcnt in Z; lia|].
    rewrite Hpos, Hneg. pose proof (Flow (mfi_count s + 1) (possum w) (negsum w)) as FF; cbv beta zeta in FF; cbv beta zeta; rewrite FF; clear FF.
    assert (Ew : w = fl) by (unfold w; apply lastn_all; lia).
    destruct (Nat.ltb_spec (length fl) p) as [_|?]; [|lia].
    eexists. split.
    + unfold mfi_spec. rewrite Efl', Ew', possum_snoc, negsum_snoc. reflexivity.
    + split; [|reflexivity]. unfold mfi_inv. cbn [mfi_period mfi_index mfi_count mfi_prev_tp mfi_pos mfi_neg mfi_deque]. fold p.
      rewrite Efl'. split; [unfold wf_mfi, ring_wf; cbn; rewrite set_nth_length by lia; repeat split; unfold p in *; lia|].
      split; [exact Hrot'|]. rewrite app_length. cbn [length].
      split; [rewrite Hcnt; unfold p in *; lia|]. split; [rewrite map_app; cbn [map]; rewrite last_last; reflexivity|].
      rewrite Ew', possum_snoc, negsum_snoc. split; reflexivity.
  - (* the window of bars is full: the oldest slot is popped first *)
    assert (Hl : (p <= S (length bs))%nat) by (rewrite Hcnt in Hfull; unfold p in *; lia).
    rewrite E1. cbn [bind]. rewrite Hrot. change (Fin 0) with (Fin 0%R). rewrite (hd_map Fin _ 0%R).
    rewrite hd_lastn_padded by exact Hp. fold w.
    set (o := if (length fl <? p)%nat then 0%R else hd 0%R w).
    assert (Esign : is_sign_positive O (Fin o) = if Rlt_dec o 0 then false else true) by reflexivity.
    rewrite Esign, Hpos, Hneg. rewrite ?xr_sub_fin, ?xr_add_fin.
    assert (Epop : (possum w - Rmax o 0 = possum (if (length fl <? p)%nat then w else tl w))%R /\
                   (negsum w - Rmax (- o) 0 = negsum (if (length fl <? p)%nat then w else tl w))%R).
    { unfold o. destruct (Nat.ltb_spec (length fl) p) as [Hs|Hs].
      - replace (- 0)%R with 0%R by lra. rewrite Rmax_left by lra. split; lra.
      - assert (Hw : w <> []) by (unfold w; intros E; apply (f_equal (@length R)) in E; rewrite lastn_length in E; cbn in E; lia).
        rewrite (possum_hd_tl w Hw), (negsum_hd_tl w Hw). split; lra. }
    destruct Epop as [Ep En].
    destruct (Rlt_dec o 0) as [Lo|Lo].
    + (* a negative flow leaves: neg + o *)
      pose proof (Flow (mfi_count s) (possum w) (negsum w + o)%R) as FF; cbv beta zeta in FF; cbv beta zeta; rewrite FF; clear FF.
      assert (Ep' : possum w = possum (if (length fl <? p)%nat then w else tl w)) by (rewrite <- Ep; rewrite Rmax_right by lra; lra).
      assert (En' : (negsum w + o)%R = negsum (if (length fl <? p)%nat then w else tl w)) by (rewrite <- En; rewrite Rmax_left by lra; lra).
      rewrite Ep', En'.
      destruct (length fl <? p)%nat;
      (eexists; split; [unfold mfi_spec; rewrite Efl', Ew', possum_snoc, negsum_snoc; reflexivity|];
       split; [|reflexivity]; unfold mfi_inv; cbn [mfi_period mfi_index mfi_count mfi_prev_tp mfi_pos mfi_neg mfi_deque]; fold p;
       rewrite Efl'; (split; [unfold wf_mfi, ring_wf; cbn [mfi_period mfi_index mfi_count mfi_deque]; rewrite set_nth_length by lia; repeat split; unfold p in *; lia|]);
       (split; [exact Hrot'|]); rewrite app_length; cbn [length];
       (split; [rewrite Hcnt; unfold p in *; lia|]); (split; [rewrite map_app; cbn [map]; rewrite last_last; reflexivity|]);
       rewrite Ew', possum_snoc, negsum_snoc; split; reflexivity).
    + pose proof (Flow (mfi_count s) (possum w - o)%R (negsum w)) as FF; cbv beta zeta in FF; cbv beta zeta; rewrite FF; clear FF.
      assert (Ep' : (possum w - o)%R = possum (if (length fl <? p)%nat then w else tl w)) by (rewrite <- Ep; rewrite Rmax_left by lra; lra).
      assert (En' : negsum w = negsum (if (length fl <? p)%nat then w else tl w)) by (rewrite <- En; rewrite Rmax_right by lra; lra).
      rewrite Ep', En'.
      destruct (length fl <? p)%nat;
      (eexists; split; [unfold mfi_spec; rewrite Efl', Ew', possum_snoc, negsum_snoc; reflexivity|];
       split; [|reflexivity]; unfold mfi_inv; cbn [mfi_period mfi_index mfi_count mfi_prev_tp mfi_pos mfi_neg mfi_deque]; fold p;
       rewrite Efl'; (split; [unfold wf_mfi, ring_wf; cbn [mfi_period mfi_index mfi_count mfi_deque]; rewrite set_nth_length by lia; repeat split; unfold p in *; lia|]);
       (split; [exact Hrot'|]); rewrite app_length; cbn [length];
       (split; [rewrite Hcnt; unfold p in *; lia|]); (split; [rewrite map_app; cbn [map]; rewrite last_last; reflexivity|]);
       rewrite Ew', possum_snoc, negsum_snoc; split; reflexivity).
Qed.

Fixpoint mfi_outs (s : @Mfi XR) (bs : list (Bar XR)) : list XR :=
  match bs with
  | [] => []
  | b :: bs => match mfi_next_bar O s b with Ok (s', o) => o :: mfi_outs s' bs | _ => [] end
  end.

Fixpoint mfi_spec_stream (p : nat) (b0 : mbar) (done todo : list mbar) : list XR :=
  match todo with [] => [] | b :: todo => mfi_spec p b0 (done ++ [b]) :: mfi_spec_stream p b0 (done ++ [b]) todo end.

Lemma mfi_outs_spec : forall todo s b0 done, mfi_inv s b0 done -> Forall (fun b => (0 <= rawr b)%R) todo ->
  mfi_outs s (map mkm todo) = mfi_spec_stream (N.to_nat (mfi_period s)) b0 done todo.
Proof.
  induction todo as [|b todo IH]; intros s b0 done Hinv Hraw; cbn [mfi_outs map mfi_spec_stream]; [reflexivity|].
  inversion Hraw as [|? ? Hb Hbs]; subst.
  destruct (mfi_step s b0 done b Hinv Hb (fun _ _ => I)) as (s' & E & Hinv' & Hp). rewrite E. f_equal.
  rewrite (IH s' b0 (done ++ [b]) Hinv' Hbs), Hp. reflexivity.
Qed.

(* Main theorem: first output 50, thereafter 100*PMF/(PMF+NMF) over the signed flows of the last min(t-1, p) typical-price moves *)
Theorem mfi_refines : forall p s b0 bs, mfi_new O p = Ok s -> Forall (fun b => (0 <= rawr b)%R) bs ->
  mfi_outs s (map mkm (b0 :: bs)) = Fin 50 :: mfi_spec_stream (N.to_nat p) b0 [] bs.
Proof.
  intros p s b0 bs H Hraw. cbn [map mfi_outs].
  destruct (mfi_first p s b0 H) as (s' & E & Hinv & Hp). rewrite E. f_equal.
  rewrite (mfi_outs_spec bs s' b0 [] Hinv Hraw), Hp. reflexivity.
Qed.

(* range: whenever the window carries some money flow the index is a finite value in [0,100]; with no flow it is 0/0 = NaN *)
Theorem mfi_range : forall p b0 bs, let w := lastn p (flows (tpr b0) bs) in
  (possum w + negsum w <> 0)%R -> exists r, mfi_spec p b0 bs = Fin r /\ (0 <= r <= 100)%R.
Proof.
  intros p b0 bs w Hd. unfold mfi_spec. fold w. rewrite xr_div_fin by exact Hd. xfin. eexists. split; [reflexivity|].
  pose proof (possum_nonneg w) as Hp. pose proof (negsum_nonneg w) as Hn.
  pose proof (ratio100_range (possum w) (negsum w) Hp Hn Hd) as R'.
  unfold Rdiv in *. lra.
Qed.

Theorem mfi_zero_flow_nan : forall p b0 bs, let w := lastn p (flows (tpr b0) bs) in
  (possum w + negsum w = 0)%R -> mfi_spec p b0 bs = XNaN.
Proof.
  intros p b0 bs w Hd. unfold mfi_spec. fold w.
  pose proof (possum_nonneg w) as Hp. pose proof (negsum_nonneg w) as Hn.
  assert (E : possum w = 0%R) by lra. rewrite Hd, E.
  cbn. unfold xr_div. destruct (Req_EM_T 0 0); [|congruence]. unfold rsgn. destruct (Rlt_dec 0 0); [lra|]. reflexivity.
Qed.
