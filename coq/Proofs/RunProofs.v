(* Store-level facts about the operation language of Generic.v (any number type):
   no op sequence reaches a panic, WF is an invariant, parameters are stable,
   non-interference between slots (frame), clones agree. *)
From Coq Require Import Lia.
From TA Require Import Base Model Generic Proofs.Prims Proofs.WF Proofs.GenericProofs Proofs.SerdeProofs Proofs.BuilderProofs.
Open Scope N_scope.

Section RP.
Context {F : Type} (O : Ops F).
Notation St := (@St F).
Notation store := (@store F).
Notation op := (@op F).

Definition slot_WF (o : option St) : Prop := match o with Some s => WF O s | None => True end.
Definition store_WF (st : store) : Prop := forall i, slot_WF (sget st i).

Lemma sget_sset_eq (st : store) i v : sget (sset st i v) i = v.
Proof.
  revert st; induction i as [|i IH]; intros st; destruct st as [|x st]; cbn; try reflexivity.
  - apply IH.
  - apply IH.
Qed.

Lemma sget_nil i : @sget F [] i = None.
Proof. destruct i; reflexivity. Qed.

Lemma sget_sset_neq (st : store) i j v : i <> j -> sget (sset st i v) j = sget st j.
Proof.
  revert st j; induction i as [|i IH]; intros st j Hn; destruct st as [|x st]; destruct j as [|j]; cbn; try reflexivity; try congruence.
  - destruct j; reflexivity.
  - unfold sget in IH. rewrite IH by congruence. destruct j; reflexivity.
  - apply IH. congruence.
Qed.

Lemma store_WF_sset st i v : store_WF st -> slot_WF v -> store_WF (sset st i v).
Proof.
  intros H Hv j. destruct (Nat.eq_dec i j) as [->|Hn].
  - rewrite sget_sset_eq. exact Hv.
  - rewrite sget_sset_neq by exact Hn. apply H.
Qed.

Lemma store_WF_nil : store_WF [].
Proof. intros i. rewrite sget_nil. exact I. Qed.

(* constructor arguments that can be allocated *)
Definition periods (k : Kind) (p : @Params F) : list N := firstn (n_periods k) [p1 p; p2 p; p3 p].
Definition alloc_ok_params (k : Kind) (p : @Params F) : Prop :=
  allocates k = true -> Forall (fun x => x <= ALLOC_MAX) (periods k p).

Definition op_ok (o : op) : Prop :=
  match o with
  | ONew _ k p => alloc_ok_params k p
  | _ => True end.

(* ---- constructors: Err(InvalidParameter) iff some period argument is 0, otherwise Ok ---- *)
Ltac newcase p :=
  repeat match goal with
  | |- context [N.eqb ?x 0] => destruct (N.eqb_spec x 0)
  | |- context [N.eqb 0 ?x] => destruct (N.eqb_spec 0 x)
  end; cbn [orb bind]; try lia.

Theorem new_spec : forall k p, alloc_ok_params k p ->
  if existsb (N.eqb 0) (periods k p) then new O k p = Err InvalidParameter
  else exists s, new O k p = Ok s.
Proof.
  intros k p Ha. unfold alloc_ok_params, periods in Ha.
  destruct k; cbn [allocates n_periods firstn] in Ha;
    try (specialize (Ha eq_refl));
    repeat match goal with H : Forall _ (_ :: _) |- _ => inversion H; subst; clear H end;
    unfold periods; cbn [n_periods firstn existsb new];
    unfold rmap, sma_new, ema_new, wma_new, sd_new, mad_new, min_new, max_new, bb_new, atr_new, rsi_new,
           fast_new, slow_new, roc_new, er_new, macd_new, ppo_new, kc_new, ce_new, cci_new, mfi_new,
           sd_new, ema_new, min_new, max_new, sma_new, mad_new, fast_new, atr_new, ema_new, min_new, max_new;
    rewrite ?(N.eqb_sym 0);
    repeat match goal with
    | |- context [N.eqb ?x 0] => destruct (N.eqb_spec x 0); cbn [orb bind andb]
    end; try reflexivity; rewrite ?alloc_ok by assumption; cbn [bind]; try reflexivity; eauto.
Qed.

Lemma build_not_panic : forall b : @Builder F, build O b <> Panic.
Proof.
  intros b. unfold build. destruct (bo b), (bh b), (bl b), (bc b), (bv b); try discriminate.
  destruct (six_checks _ _ _ _ _ _); discriminate.
Qed.

(* ---- single steps from a WF store ---- *)
Lemma step_WF : forall st o, store_WF st -> op_ok o ->
  store_WF (fst (step O st o)) /\ snd (step O st o) <> BPanic.
Proof.
  intros st o W Hok. destruct o as [s k p|s k|s x|s b|s b|s|s d|s|s|s|calls]; cbn [step].
  - pose proof (new_spec k p Hok) as Hn. destruct (existsb _ _).
    + rewrite Hn. cbn. split; [apply store_WF_sset; [exact W|exact I]|discriminate].
    + destruct Hn as [v Hv]. rewrite Hv. cbn. split; [|discriminate].
      apply store_WF_sset; [exact W|]. apply new_WF in Hv. apply Hv.
  - destruct (new O k (default_params O k)) eqn:E; cbn.
    + split; [|discriminate]. apply store_WF_sset; [exact W|]. apply new_WF in E. apply E.
    + split; [exact W|discriminate].
    + exfalso. clear -E. destruct k; cbn in E; unfold rmap in E; cbv in E; discriminate.
  - pose proof (W s) as Ws. destruct (sget st s) as [v|]; cbn; [|split; [exact W|discriminate]].
    destruct (has_scalar (kind_of v)) eqn:Hs.
    + destruct (next_total O v x Ws Hs) as (v' & o & E & W' & _). rewrite E. cbn.
      split; [apply store_WF_sset; assumption|discriminate].
    + destruct v; cbn in Hs; try discriminate; cbn; (split; [exact W|discriminate]).
  - pose proof (W s) as Ws. destruct (sget st s) as [v|]; cbn; [|split; [exact W|discriminate]].
    destruct (next_bar_total O v b Ws) as (v' & o & E & W' & _). rewrite E. cbn.
    split; [apply store_WF_sset; assumption|discriminate].
  - pose proof (W s) as Ws. destruct (sget st s) as [v|]; cbn; [|split; [exact W|discriminate]].
    match goal with |- context [six_checks O ?a1 ?a2 ?a3 ?a4 ?a5] => destruct (six_checks O a1 a2 a3 a4 a5) end.
    + match goal with |- context [next_bar O v ?it] => destruct (next_bar_total O v it Ws) as (v' & o & E & W' & _) end.
      rewrite E. cbn. split; [apply store_WF_sset; assumption|discriminate].
    + cbn. split; [exact W|discriminate].
  - pose proof (W s) as Ws. destruct (sget st s) as [v|]; cbn; [|split; [exact W|discriminate]].
    destruct (reset_total O v Ws) as (v' & E & W' & _). rewrite E. cbn.
    split; [apply store_WF_sset; assumption|discriminate].
  - pose proof (W s) as Ws. destruct (sget st s) as [v|]; cbn; [|split; [exact W|discriminate]].
    split; [apply store_WF_sset; assumption|discriminate].
  - pose proof (W s) as Ws. destruct (sget st s) as [v|]; cbn; [|split; [exact W|discriminate]].
    rewrite serde_id. cbn. split; [apply store_WF_sset; assumption|discriminate].
  - destruct (sget st s) as [v|]; cbn; split; try exact W; discriminate.
  - cbn. split; [apply store_WF_sset; [exact W|exact I]|discriminate].
  - cbn. split; [exact W|]. match goal with |- context [build O ?bb] => pose proof (build_not_panic bb); destruct (build O bb) end; congruence.
Qed.

Theorem run_no_panic : forall ops st, store_WF st -> Forall op_ok ops ->
  store_WF (fst (run O st ops)) /\ ~ In BPanic (snd (run O st ops)).
Proof.
  induction ops as [|o ops IH]; intros st W Hok; cbn [run].
  - split; [exact W|intros []].
  - inversion Hok as [|? ? Ho Hops]; subst.
    destruct (step_WF st o W Ho) as [W1 Np].
    destruct (step O st o) as [st1 b] eqn:E1. cbn [fst snd] in *.
    destruct (IH st1 W1 Hops) as [W2 Np2].
    destruct (run O st1 ops) as [st2 bs]. cbn [fst snd] in *.
    split; [exact W2|]. intros [H|H]; [congruence|exact (Np2 H)].
Qed.

(* ---- serde at any point is the identity on states, hence on all future behaviour ---- *)
Theorem serde_transparent : forall st s, snd (step O st (OSerde s)) = (match sget st s with Some _ => BOk | None => BDead end)
  /\ forall i, sget (fst (step O st (OSerde s))) i = sget st i.
Proof.
  intros st s. cbn [step]. destruct (sget st s) as [v|] eqn:E; cbn [fst snd].
  - rewrite serde_id. cbn [fst snd]. split; [reflexivity|]. intros i.
    destruct (Nat.eq_dec s i) as [->|Hn]; [rewrite sget_sset_eq; congruence | apply sget_sset_neq; exact Hn].
  - split; reflexivity.
Qed.

(* ---- frame: an op never changes a slot it does not write ---- *)
Definition writes (o : op) : option nat :=
  match o with
  | ONew s _ _ | ODef s _ | ONext s _ | OBar s _ | OItem s _ | OReset s | OSerde s | ODrop s => Some s
  | OClone _ d => Some d
  | OProbe _ | OBuild _ => None end.
Definition reads (o : op) : option nat :=
  match o with
  | ONext s _ | OBar s _ | OItem s _ | OReset s | OSerde s | OProbe s | OClone s _ => Some s
  | _ => None end.

Lemma step_frame : forall st o i, writes o <> Some i -> sget (fst (step O st o)) i = sget st i.
Proof.
  intros st o i Hw. destruct o as [s k p|s k|s x|s b|s b|s|s d|s|s|s|calls]; cbn [step writes] in *;
    repeat match goal with
    | |- context [match ?x with _ => _ end] => destruct x; cbn [fst]
    end; try reflexivity; apply sget_sset_neq; congruence.
Qed.

Theorem frame : forall ops st i, Forall (fun o => writes o <> Some i) ops ->
  sget (fst (run O st ops)) i = sget st i.
Proof.
  induction ops as [|o ops IH]; intros st i H; cbn [run]; [reflexivity|].
  inversion H as [|? ? Ho Hops]; subst.
  pose proof (step_frame st o i Ho) as E1.
  destruct (step O st o) as [st1 b]. cbn [fst] in E1.
  specialize (IH st1 i Hops). destruct (run O st1 ops) as [st2 bs]. cbn [fst] in *. congruence.
Qed.

(* locality: what an op returns, and what it leaves in the slot it writes, depend only on the
   slots it reads *)
Lemma step_local : forall st st' o,
  (forall s, reads o = Some s \/ writes o = Some s -> sget st s = sget st' s) ->
  snd (step O st o) = snd (step O st' o) /\
  (forall d, writes o = Some d -> sget (fst (step O st o)) d = sget (fst (step O st' o)) d).
Proof.
  intros st st' o Hr.
  destruct o as [s k p|s k|s x|s b|s b|s|s d|s|s|s|calls]; cbn [step reads writes] in *;
    try (rewrite <- (Hr s (or_introl eq_refl)));
    repeat match goal with
    | |- context [match ?x with _ => _ end] => destruct x eqn:?; cbn [fst snd]
    end; (split; [reflexivity|]); intros d' Hd; (first [discriminate Hd | injection Hd as <-]);
    cbn [fst snd]; rewrite ?sget_sset_eq; try reflexivity;
    try (apply Hr; right; reflexivity); try (apply Hr; left; reflexivity).
Qed.

(* a clone starts from the source's state: identical continuations give identical results *)
Theorem clone_agrees : forall st s d, sget st s <> None ->
  sget (fst (step O st (OClone s d))) d = sget st s /\
  (s <> d -> sget (fst (step O st (OClone s d))) s = sget st s).
Proof.
  intros st s d Hs. cbn [step]. destruct (sget st s) as [v|] eqn:E; [|congruence]. cbn [fst].
  split; [apply sget_sset_eq|]. intros Hn. rewrite sget_sset_neq by congruence. exact E.
Qed.

(* observations made through slot i, in order *)
Definition targets (i : nat) (o : op) : bool :=
  match writes o, reads o with
  | Some w, _ => Nat.eqb w i
  | None, Some r => Nat.eqb r i
  | None, None => false end.

Definition is_clone (o : op) : bool := match o with OClone _ _ => true | _ => false end.

Fixpoint obs_of (i : nat) (ops : list op) (bs : list (@obs F)) : list (@obs F) :=
  match ops, bs with
  | o :: ops, b :: bs => if targets i o then b :: obs_of i ops bs else obs_of i ops bs
  | _, _ => [] end.

(* any interleaving with operations on other instances is invisible to instance i *)
Theorem interleaving_invisible : forall ops st st' i,
  sget st i = sget st' i ->
  Forall (fun o => is_clone o = false) ops ->
  obs_of i ops (snd (run O st ops)) = snd (run O st' (filter (targets i) ops)) /\
  sget (fst (run O st ops)) i = sget (fst (run O st' (filter (targets i) ops))) i.
Proof.
  induction ops as [|o ops IH]; intros st st' i E Hc; cbn [run filter obs_of]; [split; [reflexivity|exact E]|].
  inversion Hc as [|? ? Hco Hcs]; subst.
  destruct (targets i o) eqn:T.
  - (* addressed to i *)
    cbn [run].
    assert (Hr : forall s, reads o = Some s \/ writes o = Some s -> sget st s = sget st' s).
    { intros s Hs. unfold targets in T. destruct o; cbn in *; try discriminate;
        destruct Hs as [Hs|Hs]; try discriminate; injection Hs as <-;
        apply Nat.eqb_eq in T; subst; exact E. }
    destruct (step_local st st' o Hr) as [Eo Ew].
    assert (E1 : sget (fst (step O st o)) i = sget (fst (step O st' o)) i).
    { destruct (writes o) as [w|] eqn:Ew'.
      - unfold targets in T. rewrite Ew' in T. apply Nat.eqb_eq in T. subst w. apply Ew. reflexivity.
      - rewrite !step_frame by (rewrite Ew'; discriminate). exact E. }
    destruct (step O st o) as [st1 b]. destruct (step O st' o) as [st1' b']. cbn [fst snd] in *. subst b'.
    specialize (IH st1 st1' i E1 Hcs).
    cbn [run]. destruct (run O st1 ops) as [st2 bs]. destruct (run O st1' (filter (targets i) ops)) as [st2' bs'].
    cbn [fst snd obs_of] in *. rewrite ?T. destruct IH as [IH1 IH2]. split; [f_equal; exact IH1|exact IH2].
  - (* addressed elsewhere *)
    assert (Hw : writes o <> Some i).
    { unfold targets in T. destruct (writes o) as [w|]; [|discriminate].
      intros H; injection H as ->. rewrite Nat.eqb_refl in T. discriminate. }
    pose proof (step_frame st o i Hw) as E1.
    destruct (step O st o) as [st1 b]. cbn [fst snd] in *.
    specialize (IH st1 st' i (eq_trans E1 E) Hcs).
    destruct (run O st1 ops) as [st2 bs]. cbn [fst snd obs_of] in *. rewrite ?T. exact IH.
Qed.

(* two instances with the same state fed the same continuation observe the same *)
Theorem determinism : forall ops st st' i,
  sget st i = sget st' i -> Forall (fun o => is_clone o = false) ops ->
  obs_of i ops (snd (run O st ops)) = obs_of i ops (snd (run O st' ops)).
Proof.
  intros ops st st' i E Hc.
  destruct (interleaving_invisible ops st st' i E Hc) as [A _].
  destruct (interleaving_invisible ops st' st' i eq_refl Hc) as [B _].
  congruence.
Qed.

End RP.
