(* C14 on binary64, whole streams: RateOfChange is UNCHANGED (as values) when every price is multiplied by 2^k: the ring buffer stores
   inputs, and ((x - r) / r) * 100 on the reference r is the same value in both runs (roc_pow2_invariant). *)
From Coq Require Import Reals Lra Lia ZArith List Floats.
From Flocq Require Import Core.
From TA Require Import Base Model FloatInst Proofs.Wiring Proofs.FloatErr Proofs.GRoc Proofs.FloatScale Proofs.FloatScaleSma Proofs.FloatScaleWma Proofs.FloatScalePpo.
Import ListNotations.
Local Notation O := FOps.
Local Notation float := PrimFloat.float.
Open Scope R_scope.

Definition roc_prev (s : @Roc float) (x : float) : res (N * float) :=
  if (roc_period s <? roc_count s)%N
  then p <- idx (roc_deque s) (roc_index s) ;; Ok (roc_count s, p)
  else c <- uadd (roc_count s) 1 ;;
       if (c =? 1)%N then Ok (c, x) else p <- idx (roc_deque s) 0 ;; Ok (c, p).

Definition rel_roc (k : Z) (s s' : @Roc float) : Prop :=
  roc_period s = roc_period s' /\ roc_index s = roc_index s' /\ roc_count s = roc_count s' /\ Forall2 (scaled k) (roc_deque s) (roc_deque s').

Lemma roc_prev_rel k s s' x x' c p : rel_roc k s s' -> scaled k x x' -> roc_prev s x = Ok (c, p) ->
  exists p', roc_prev s' x' = Ok (c, p') /\ scaled k p p'.
Proof.
  intros (Ep & Ei & Ec & Sd) Sx E. unfold roc_prev in *. rewrite <- Ep, <- Ei, <- Ec.
  destruct (roc_period s <? roc_count s)%N.
  - destruct (idx (roc_deque s) (roc_index s)) as [q| |] eqn:Eq; cbn [bind] in E; try discriminate. injection E as <- <-.
    destruct (idx_rel _ _ _ _ _ Sd Eq) as (q' & Eq' & Sq). rewrite Eq'. cbn [bind]. exists q'. split; [reflexivity|exact Sq].
  - destruct (uadd (roc_count s) 1) as [c0| |]; cbn [bind] in E |- *; try discriminate.
    destruct (c0 =? 1)%N.
    + injection E as <- <-. exists x'. split; [reflexivity|exact Sx].
    + destruct (idx (roc_deque s) 0) as [q| |] eqn:Eq; cbn [bind] in E; try discriminate. injection E as <- <-.
      destruct (idx_rel _ _ _ _ _ Sd Eq) as (q' & Eq' & Sq). rewrite Eq'. cbn [bind]. exists q'. split; [reflexivity|exact Sq].
Qed.

Definition roc_step_ok (k : Z) (s : @Roc float) (x : float) : Prop :=
  forall c r, roc_prev s x = Ok (c, r) ->
    FR r <> 0 /\ okr k (FR x - FR r) /\ Rabs (FR (x - r)%float / FR r) <= BIG / 256.

Lemma roc_step_pow2 k s s' x x' s1 o : rel_roc k s s' -> scaled k x x' -> roc_step_ok k s x -> roc_next O s x = Ok (s1, o) ->
  exists s1' o', roc_next O s' x' = Ok (s1', o') /\ rel_roc k s1 s1' /\ scaled 0 o o'.
Proof.
  intros Hr Sx Hok E. pose proof Hr as (Ep & Ei & Ec & Sd). unfold roc_next in *. fold (roc_prev s x) in E. fold (roc_prev s' x').
  destruct (roc_prev s x) as [[c r]| |] eqn:Epv; cbn [bind] in E; try discriminate.
  destruct (roc_prev_rel k s s' x x' c r Hr Sx Epv) as (r' & Epv' & Sr). rewrite Epv'. cbn [bind].
  rewrite <- Ep, <- Ei.
  destruct (upd (roc_deque s) (roc_index s) x) as [dq| |] eqn:Eu; cbn [bind] in E; try discriminate.
  destruct (upd_rel _ _ _ _ _ _ _ Sd Sx Eu) as (dq' & Eu' & Sdq). rewrite Eu'. cbn [bind].
  destruct (advance (roc_period s) (roc_index s)) as [ix| |] eqn:Ea; cbn [bind] in E; try discriminate. cbn [bind].
  injection E as <- <-.
  destruct (Hok c r Epv) as (Nz & (A1 & A2 & A3) & Hq).
  destruct (roc_pow2_invariant k x r x' r' Sx Sr Nz A1 A2 A3 Hq) as (F1 & F2 & Eo). unfold groc_val in F1, F2, Eo.
  eexists _, _. split; [reflexivity|]. split; [repeat split; cbn [roc_period roc_index roc_count roc_deque]; try assumption; reflexivity|].
  apply scaled0; assumption.
Qed.

Fixpoint roc_run_ok (k : Z) (s : @Roc float) (xs : list float) : Prop :=
  match xs with
  | [] => True
  | x :: xs => roc_step_ok k s x /\ exists s1 o, roc_next O s x = Ok (s1, o) /\ roc_run_ok k s1 xs
  end.

Theorem roc_stream_pow2 k : forall xs xs' s s', rel_roc k s s' -> Forall2 (scaled k) xs xs' -> roc_run_ok k s xs ->
  Forall2 (scaled 0) (res_outs (roc_next O) s xs) (res_outs (roc_next O) s' xs').
Proof.
  induction xs as [|x xs IH]; intros xs' s s' Hr Hx Hok; inversion Hx as [|? x' ? xs2 Sx Hx']; subst; cbn [res_outs]; [constructor|].
  destruct Hok as (Hs & s1 & o & E & Hn). rewrite E.
  destruct (roc_step_pow2 k s s' x x' s1 o Hr Sx Hs E) as (s1' & o' & E' & Hr' & So). rewrite E'.
  constructor; [exact So|]. apply IH; [exact Hr'|exact Hx'|exact Hn].
Qed.

Theorem roc_pow2_invariant_stream k p s xs xs' : roc_new O p = Ok s -> Forall2 (scaled k) xs xs' -> roc_run_ok k s xs ->
  Forall2 (scaled 0) (res_outs (roc_next O) s xs) (res_outs (roc_next O) s xs').
Proof.
  intros H Hx Hok. apply (roc_stream_pow2 k xs xs' s s); [|exact Hx|exact Hok].
  unfold roc_new in H. destruct (p =? 0)%N; [discriminate|].
  destruct (alloc p (zero O)) as [dq| |] eqn:Ea; cbn [bind] in H; try discriminate. injection H as <-.
  repeat split; cbn [roc_period roc_index roc_count roc_deque]; try reflexivity.
  unfold alloc in Ea. destruct (_ <=? _)%N in Ea; [|discriminate]. injection Ea as <-.
  clear. induction (N.to_nat p) as [|n IHn]; cbn; [constructor|constructor; [apply scaled_zero|exact IHn]].
Qed.
