(* Run2.v — T2: the implementation's outputs against the exact instance (XQ) of the same model, under
   the tolerance each property states, evaluated in exact rational arithmetic inside coqc. *)
From Coq Require Import QArith Qabs Floats String.
From TA Require Import Base Model Generic FloatInst XQ Run.
Open Scope Q_scope.

Definition qbar (b : Bar float) : Bar XQ :=
  mkBar (f2xq (b_open b)) (f2xq (b_high b)) (f2xq (b_low b)) (f2xq (b_close b)) (f2xq (b_volume b)).

Definition qop (o : @op float) : @op XQ :=
  match o with
  | ONew s k p => ONew s k (mkParams (p1 p) (p2 p) (p3 p) (f2xq (pm p)))
  | ODef s k => ODef s k
  | ONext s x => ONext s (f2xq x)
  | OBar s b => OBar s (qbar b)
  | OItem s b => OItem s (qbar b)
  | OReset s => OReset s
  | OClone s d => OClone s d
  | OSerde s => OSerde s
  | OProbe s => OProbe s
  | ODrop s => ODrop s
  | OBuild calls => OBuild (map (fun c => (fst c, f2xq (snd c))) calls)
  end.

Definition qabs_of (x : XQ) : Q := match x with QFin q => Qabs q | _ => 0 end.
Definition qmax (a b : Q) : Q := if Qle_bool a b then b else a.

(* upper bound of t^1.5 in integers: t * (isqrt t + 1) *)
Definition t15 (t : N) : Q := (Z.of_N t * (Z.sqrt (Z.of_N t) + 1))%Z # 1.
(* tau+(t) = 1e-12 + 1e-15 * t15 t  >=  1e-12 + 1e-15 * t^1.5 *)
Definition tau (t : N) : Q := (1 # 1000000000000) + (1 # 1000000000000000) * t15 t.

Definition is_fin (x : XQ) : bool := match x with QFin _ => true | _ => false end.
Definition qv (x : XQ) : Q := match x with QFin q => q | _ => 0 end.

(* |a - b| <= bound, both finite; non-finite exact values must be matched exactly *)
Definition within (impl exact : XQ) (bound : Q) : bool :=
  match impl, exact with
  | QFin a, QFin b => Qle_bool (Qabs (a - b)) bound
  | QPInf, QPInf | QNInf, QNInf | QNaN, QNaN => true
  | _, _ => false end.

(* per-slot bookkeeping: inputs since construction/reset, largest magnitude fed since construction *)
Record meter := mkMeter { m_t : N; m_mag : Q; m_vol : Q }.
Definition meter0 := mkMeter 0 0 0.

Definition mag_of_op (o : @op XQ) : Q :=
  match o with
  | ONext _ x => qabs_of x
  | OBar _ b | OItem _ b => qmax (qabs_of (b_high b)) (qmax (qabs_of (b_low b)) (qabs_of (b_close b)))
  | _ => 0 end.

(* tolerance predicate of C01 / C13 / C15(BB) / C09: absolute error against tau * magnitude; variances for SD and
   squared half-widths for BB *)
Definition tol_window (k : Kind) (mult : XQ) (t : N) (M : Q) (impl exact : list XQ) : bool :=
  match k, impl, exact with
  | KSd, [i], [e] =>
      (* e is the exact variance (sqrt = id in XQ); compare i^2 with it *)
      within (xq_mul i i) e (tau t * M * M)
  | KBb, [ia; iu; il], [ea; eu; el] =>
      let m2 := qv (xq_mul mult mult) in
      let sc := tau t * M * M * qmax 1 m2 in
      within ia ea (tau t * M) &&
      (* exact: eu - ea = var * m ; (var*m)*m = m^2 var ; implementation half-widths squared *)
      within (xq_mul (xq_sub iu ia) (xq_sub iu ia)) (xq_mul (xq_sub eu ea) mult) sc &&
      within (xq_mul (xq_sub ia il) (xq_sub ia il)) (xq_mul (xq_sub ea el) mult) sc
  | KMin, [i], [e] | KMax, [i], [e] => within i e 0
  | _, _, _ => (fix go (a b : list XQ) : bool :=
                  match a, b with
                  | [], [] => true
                  | x :: a, y :: b => within x y (tau t * M) && go a b
                  | _, _ => false end) impl exact
  end.

Section T2.
Variable tol : Kind -> XQ -> N -> Q -> list XQ -> list XQ -> bool.

(* single-slot cases: walk the ops, exact store alongside *)
Fixpoint t2_go (k : N) (st : @store XQ) (mt : meter) (ops : list (@op float)) (exp : list fobs) : N :=
  match ops, exp with
  | o :: ops, e :: exp =>
      let qo := qop o in
      let '(st', ob) := step XQOps st qo in
      let mt' := match qo with
                 | ONext _ _ | OBar _ _ | OItem _ _ => mkMeter (m_t mt + 1) (qmax (m_mag mt) (mag_of_op qo)) 0
                 | OReset _ | ONew _ _ _ | ODef _ _ => mkMeter 0 (m_mag mt) 0
                 | _ => mt end in
      let ok := match ob, e with
                | BOut exact, BOut impl =>
                    match sget st' 0 with
                    | Some s => tol (kind_of s) (match multiplier_of s with Some m => m | None => QFin 0 end)
                                    (m_t mt') (m_mag mt') (map f2xq impl) exact
                    | None => true end
                | _, _ => true end in
      if ok then t2_go (k + 1) st' mt' ops exp else k
  | _, _ => 0%N
  end.

Definition check_t2 (c : case) : N := t2_go 1 [] meter0 (c_ops c) (c_exp c).
End T2.

Definition check_t2_window := check_t2 tol_window.

(* ---- C03: oscillators against their exact formulas, tolerance tau * c * natural scale, c = condition number ---- *)
Definition xfin (x : XQ) : option Q := match x with QFin q => Some q | _ => None end.
Definition qle (a b : Q) : bool := Qle_bool a b.
Definition cnum (M den : Q) : option Q :=        (* max(1, M/|den|), None when den = 0 *)
  if Qeq_bool den 0 then None else Some (qmax 1 (M / Qabs den)).

(* condition number of the last output of the exact instance, from its state after the step and the op's input;
   None = not claimed here (degenerate window, or an oscillator whose conditioning needs the whole history) *)
Definition osc_cond (s : @St XQ) (M flowmax cumvol : Q) (inp : @op XQ) (exact : list XQ) : option (Q * Q) :=  (* (c, scale) *)
  match s, exact with
  | SRsi r, [QFin _] =>
      match xfin (ema_current (rsi_up r)), xfin (ema_current (rsi_down r)) with
      | Some u, Some d => match cnum M (u + d) with Some c => Some (c, 100) | None => None end
      | _, _ => None end
  | SFast f, [QFin _] =>
      let mn := nth (N.to_nat (min_min_index (fast_minimum f))) (min_deque (fast_minimum f)) QNaN in
      let mx := nth (N.to_nat (max_max_index (fast_maximum f))) (max_deque (fast_maximum f)) QNaN in
      match xfin mn, xfin mx with
      | Some a, Some b => match cnum M (b - a) with Some c => Some (c, 100) | None => Some (1, 0) end   (* flat: exactly 50 *)
      | _, _ => None end
  | SRoc _, [QFin e] =>
      match inp with
      | ONext _ (QFin x) | OBar _ {| b_close := QFin x |} | OItem _ {| b_close := QFin x |} =>
          if Qeq_bool (100 + e) 0 then None
          else match cnum M (x * 100 / (100 + e)) with Some c => Some (c, 100) | None => None end
      | _ => None end
  | SPpo p, QFin _ :: _ =>
      match xfin (ema_current (ppo_slow p)) with
      | Some sl => match cnum M sl with Some c => Some (c, 100) | None => None end
      | None => None end
  | SMfi m, [QFin _] =>
      match xfin (mfi_pos m), xfin (mfi_neg m) with
      | Some a, Some b =>
          if qle (a + b) 0 then None else
          let c := qmax 1 (flowmax / (a + b)) in if qle c 1000 then Some (c, 100) else None
      | _, _ => None end
  | SObv _, [QFin _] => Some (1, qmax cumvol 1)
  | SCci c, [QFin e] =>
      if Qeq_bool e 0 then None else
      match inp, xfin (sma_sum (cci_sma c)) with
      | OBar _ b, Some sm | OItem _ b, Some sm =>
          match xfin (xq_div (xq_add (xq_add (b_close b) (b_high b)) (b_low b)) (QFin 3)) with
          | Some tp =>
              let sma := sm / (Z.of_N (sma_count (cci_sma c)) # 1) in
              let den := (tp - sma) / e in        (* = 0.015 * MAD *)
              match cnum M den with Some c => if qle c 1000000 then Some (c, 200 # 3) else None | None => None end
          | None => None end
      | _, _ => None end
  | _, _ => None
  end.

Record meter3 := mkM3 { q_t : N; q_mag : Q; q_flow : Q; q_cum : Q }.

Fixpoint t3_go (k : N) (st : @store XQ) (mt : meter3) (ops : list (@op float)) (exp : list fobs) : N :=
  match ops, exp with
  | o :: ops, e :: exp =>
      let qo := qop o in
      let '(st', ob) := step XQOps st qo in
      let mt' := match qo with
                 | ONext _ _ => mkM3 (q_t mt + 1) (qmax (q_mag mt) (mag_of_op qo)) (q_flow mt) (q_cum mt)
                 | OBar _ b | OItem _ b =>
                     let tp := qabs_of (xq_div (xq_add (xq_add (b_close b) (b_high b)) (b_low b)) (QFin 3)) in
                     let v := qabs_of (b_volume b) in
                     mkM3 (q_t mt + 1) (qmax (q_mag mt) (mag_of_op qo)) (qmax (q_flow mt) (tp * v)) (q_cum mt + v)
                 | OReset _ | ONew _ _ _ | ODef _ _ => mkM3 0 (q_mag mt) 0 0
                 | _ => mt end in
      let ok := match ob, e with
                | BOut exact, BOut impl =>
                    match sget st' 0 with
                    | Some s =>
                        match osc_cond s (q_mag mt') (q_flow mt') (q_cum mt') qo exact, exact, map f2xq impl with
                        | Some (c, sc), ex :: _, im :: _ =>
                            if Qeq_bool sc 0 then within im ex 0          (* flat FastStochastic: the literal 50 *)
                            else within im ex (tau (q_t mt') * c * sc)
                        | _, _, _ => true end
                    | None => true end
                | _, _ => true end in
      if ok then t3_go (k + 1) st' mt' ops exp else k
  | _, _ => 0%N
  end.

Definition check_t2_osc (c : case) : N := t3_go 1 [] (mkM3 0 0 0 0) (c_ops c) (c_exp c).
