# C02 — EMA recursion and everything wired from it follow the documented definition
from props.util import *

KINDS = ["EMA", "TR", "ATR", "MACD", "KC", "CE"]
t2_checker = "check_t2_window"
rule = ("EMA, TR, ATR, MACD, KC, CE: (A) short sequences over scalar and bar alphabets (negative values; bars covering the three TrueRange "
        "branches in all orders) for all period tuples over 1..4; (B) seeded streams (walk / signed / ties / gapping bars) with periods up to "
        "1024 incl. period 1, equal fast/slow, fast > slow, multipliers {-1,2,0,0.5,1e3,-2.5} each used for every kind with a multiplier (deterministic rotation). Every prefix is compared bit-exactly with the float "
        "model (T1) and within tau+(t)*maxmag with the exact rational model (T2; streams up to a few hundred inputs because the exact EMA's "
        "denominators grow like (n+1)^t). Non-trivial: distinct case with at least 3 inputs not all equal")
assumptions = ["tau+(t) >= tau(t); T2 validates the rounding component (float recursion within tau of the exact recursion)"]


def tr_bars(r, n):
    """bars whose TrueRange is decided by each of the three branches, in random order"""
    out = []
    c = 10.0
    for _ in range(n):
        br = r.randrange(3)
        if br == 0:      # high-low dominates
            l = c - r.uniform(1, 3); h = c + r.uniform(1, 3)
        elif br == 1:    # gap up: |high - prev close|
            l = c + r.uniform(2, 4); h = l + r.uniform(0, 1)
        else:            # gap down: |low - prev close|
            h = c - r.uniform(2, 4); l = h - r.uniform(0, 1)
        cl = l + (h - l) * r.random()
        out.append((cl, h, l, cl, r.uniform(0, 100)))
        c = cl
    return out


def gen_cases(ctx):
    r = ctx.rng
    rot = Rot(r)
    cases = []
    for ind in KINDS:
        grid = params_grid(ind, [1, 2, 3, 4])
        if ind == "MACD":
            # every order type of (fast, slow, signal): equal pairs in each position, fast > slow, ...
            grid = [(a, b, c, 0.0) for a in (1, 2, 3) for b in (1, 2, 3) for c in (1, 2, 3)] + [(9, 26, 9, 0.0), (12, 26, 12, 0.0), (26, 12, 26, 0.0)]
        else:
            grid = r.sample(grid, min(len(grid), 6 if not ctx.thorough else 18))
        big = [(r.choice([5, 14, 26, 100, 1024]), r.choice([1, 12, 26]), r.choice([1, 9]), 0.0) for _ in range(2 if not ctx.thorough else 8)]
        for gi, pr in enumerate(grid + big):
            k = nper(ind)
            pr = tuple(pr[i] if i < k else 0 for i in range(3)) + (([-1.0, 2.0, 0.0, 0.5, 1e3, -2.5][gi % 6]) if ind in HAS_MULT else 0.0,)   # every multiplier class for every kind, seed-independent
            for rep in range((2 if not ctx.thorough else 4) if ind != "MACD" else 1):
                n = r.choice([6, 12, 40]) if gi < len(grid) else r.choice([60, 150] if not ctx.thorough else [150, 400])
                if ind == "CE" or (ind in ("TR", "ATR", "KC") and rep % 2 == 1):
                    bars = tr_bars(r, n) if r.random() < 0.6 else bar_stream(r, n, r.choice(["walk", "grid", "free"]))
                    feeds = [("b", 0) + b for b in bars]
                else:
                    feeds = [("n", 0, x) for x in scalar_stream(r, n, rot.pick((ind, "n"), ["walk", "signed", "ties", "grid", "mixed"]))]
                cases.append(Case("%s_g%d_%d" % (ind, gi, rep), [new_op(0, ind, pr)] + feeds, dump=(0,),
                                  meta={"ind": ind, "params": pr, "n": n}))
    # Default::default() instances are instances too: the documented defaults, wired as documented (seed-independent)
    from props.C11 import DEFAULTS
    for ind in KINDS:
        dflt = DEFAULTS[ind]
        per = [x for x in dflt if isinstance(x, int)]
        m = [x for x in dflt if isinstance(x, float)]
        pr = tuple(per + [0] * (3 - len(per))) + ((m[0] if m else 0.0),)
        ops = [("def", 0, ind), new_op(1, ind, pr)]
        src = long_feed(ind, 40) if ind != "CE" else [("b", 0) + b for b in tr_bars(r, 40)]
        for o in src:
            ops += [o, (o[0], 1) + tuple(o[2:])]
        cases.append(Case("%s_default" % ind, ops, dump=(0, 1), meta={"ind": ind, "params": pr, "n": 40, "default": True}))
    return with_scaled(cases, r)


def nontrivial(c):
    vals = [tuple(o[2:]) for o in c.ops[1:] if o[0] in 'nb']
    return len(vals) >= 3 and len(set(vals)) > 1


def t2_select(c):
    return c.meta["n"] <= 60


def t2_violation(ctx, c, r):
    cut = Case(c.cid + "_cut", c.ops[:r], dump=(), meta=c.meta)
    cut.obs = c.obs[:r]
    return Violation("%s%s: output after %d inputs leaves tau(t)*maxmag of the from-scratch exact evaluation of the documented formula: impl %s"
                     % (c.meta["ind"], c.meta["params"], r - 1, c.obs[r - 1]), case=cut, detail={"first_failing_op": r})


def check_impl(ctx, cases):
    out = []
    # EMA returns its first input unchanged
    for c in cases:
        if c.meta["ind"] == "EMA" and len(c.ops) > 1 and c.ops[1][0] == "n":
            x = c.ops[1][2]
            if c.obs[1] != ("o", [bits(x) if x == x else 0x7ff8000000000000]):
                out.append(Violation("EMA%s does not return its first input unchanged: %r -> %s" % (c.meta["params"][:1], x, c.obs[1]), case=c))
    for c in cases:
        if c.meta.get("default"):
            a, b = outs_of(c, 0), outs_of(c, 1)
            if [x[1] for x in a] != [x[1] for x in b]:
                out.append(Violation("%s::default() is not wired as %s%s: outputs differ from new(...) on the same inputs" % (c.meta["ind"], c.meta["ind"], c.meta["params"]), case=c))
    ctx.stats["period_tuples"] = sorted({c.meta["params"][:3] for c in cases})[:40]
    return out
