(* C02 on binary64, bar paths, streams of ANY length: TrueRange on bars within 3 u M of max(high - low, |high - prev close|, |low - prev close|)
   (each difference is rounded once, |.| and max are exact and 1-Lipschitz), AverageTrueRange on bars within 17 (n+1) u (3M) + 3 u M of
   the real EMA of the real true ranges, the typical price within 8 u M of (close + high + low) / 3, and every KeltnerChannel band on bars
   within Ea' + K Et + 24 (1+K) u M of the real band (Ea' = 17 (n+1) u (2M) + 8 u M). No hypothesis low <= high is needed. *)
From Coq Require Import Reals Lra Lia ZArith List Floats.
From Flocq Require Import Core.
From TA Require Import Base Model FloatInst Proofs.Prims Proofs.WF Proofs.XBase Proofs.Wiring Proofs.XEma Proofs.XCov Proofs.XBands Proofs.XCe
  Proofs.FloatErr Proofs.FloatSma Proofs.FloatEma Proofs.FloatSd Proofs.FloatFast Proofs.FloatMad Proofs.FloatAtr Proofs.FloatMacd Proofs.FloatKc
  Proofs.FloatBars Proofs.FloatKcErr.
Import ListNotations.
Open Scope R_scope.
Local Notation O := FOps.
Local Notation float := PrimFloat.float.

Definition okbar3 (M : R) (b : Bar float) : Prop := okin M (b_high b) /\ okin M (b_low b) /\ okin M (b_close b).
Definition rb (b : Bar float) : rbar := (FR (b_high b), FR (b_low b), FR (b_close b)).

Lemma Rmax_lip a b a' b' d : Rabs (a - a') <= d -> Rabs (b - b') <= d -> Rabs (Rmax a b - Rmax a' b') <= d.
Proof.
  intros Ha Hb. apply abs_bounds_R in Ha. apply abs_bounds_R in Hb. apply Rabs_le.
  unfold Rmax. destruct (Rle_dec a b), (Rle_dec a' b'); lra.
Qed.
Lemma Rabs_lip a a' d : Rabs (a - a') <= d -> Rabs (Rabs a - Rabs a') <= d.
Proof. intros H. eapply Rle_trans; [apply Rabs_triang_inv2|exact H]. Qed.

Lemma ftr_bar_err M (t : @Tr float) b : 1 <= M -> M <= bpow radix2 990 -> tr_ok M t -> okbar3 M b ->
  let '(t', o) := tr_next_bar O t b in
  tr_ok M t' /\ tr_prev_close t' = Some (b_close b) /\ finF o /\ Rabs (FR o) <= 3 * M /\
  Rabs (FR o - trb (option_map FR (tr_prev_close t)) (rb b)) <= 3 * u * M.
Proof.
  intros HM1 HM2 Ht ([Fh Hh] & [Fl Hl] & [Fc Hc]). pose proof u_pos as Hu0. pose proof u_le as Hu1. pose proof eta_pos as He0. pose proof eta_le_u as Heu.
  assert (HMB : 4 * M <= BIG).
  { unfold BIG. apply Rle_trans with (4 * bpow radix2 990); [lra|]. change 4 with (bpow radix2 2). rewrite <- bpow_plus. apply bpow_le. lia. }
  assert (HuM : u * M <= / 1000 * M) by (apply Rmult_le_compat_r; lra).
  assert (HeM : eta <= u * M) by (apply Rle_trans with (u * 1); [lra|apply Rmult_le_compat_l; lra]).
  assert (Hsub : forall x y : float, finF x -> finF y -> Rabs (FR x) <= M -> Rabs (FR y) <= M ->
            finF (x - y)%float /\ Rabs (FR (x - y)%float) <= 3 * M /\ Rabs (FR (x - y)%float - (FR x - FR y)) <= 3 * u * M).
  { intros x y Fx Fy Hx Hy. assert (Hd : Rabs (FR x - FR y) <= 2 * M) by (eapply Rle_trans; [apply Rabs_triang|]; rewrite Rabs_Ropp; lra).
    destruct (fsub_err x y Fx Fy) as (F1 & e & n & He & Hn & R1); [lra|].
    destruct (fsub_mag x y (2 * M) Fx Fy Hd) as [_ M1]; [lra|].
    split; [exact F1|]. split; [eapply Rle_trans; [exact M1|]; assert (2 * M * u <= 2 * (/ 1000 * M)) by lra; lra|].
    rewrite R1. replace ((FR x - FR y) * (1 + e) + n - (FR x - FR y)) with ((FR x - FR y) * e + n) by ring.
    apply abs_bounds_R in Hd. apply abs_bounds_R in He. apply abs_bounds_R in Hn. apply Rabs_le.
    assert (- (2 * M * u) <= (FR x - FR y) * e <= 2 * M * u) by (split; nra). lra. }
  unfold tr_next_bar, rb. unfold tr_ok in *. cbn [tr_prev_close].
  destruct (Hsub _ _ Fh Fl Hh Hl) as (F1 & M1 & E1).
  split; [split; assumption|]. split; [reflexivity|]. cbn [sub abs O].
  destruct (tr_prev_close t) as [pc|]; cbn [option_map trb].
  - destruct Ht as [Fp Hp].
    destruct (Hsub _ _ Fh Fp Hh Hp) as (F2 & M2 & E2). destruct (Hsub _ _ Fl Fp Hl Hp) as (F3 & M3 & E3).
    destruct (fabs_exact _ F2) as [Fa2 Ea2]. destruct (fabs_exact _ F3) as [Fa3 Ea3].
    unfold max3.
    destruct (fmax_fin _ _ F1 Fa2) as [Hc1 Em1].
    assert (Fm1 : finF (fmax O (b_high b - b_low b)%float (PrimFloat.abs (b_high b - pc)))) by (destruct Hc1 as [E|E]; rewrite E; assumption).
    destruct (fmax_fin _ _ Fm1 Fa3) as [Hc2 Em2].
    split; [destruct Hc2 as [E|E]; rewrite E; assumption|].
    rewrite Em2, Em1, Ea2, Ea3.
    split.
    + apply Rmax_case; [apply Rmax_case|]; [rewrite <- (Rabs_pos_eq _ (Rabs_pos _)) at 1; rewrite Rabs_Rabsolu; exact M1 | rewrite Rabs_Rabsolu; exact M2 | rewrite Rabs_Rabsolu; exact M3].
    + apply Rmax_lip; [apply Rmax_lip|]; [exact E1|apply Rabs_lip; exact E2|apply Rabs_lip; exact E3].
  - split; [exact F1|]. split; [exact M1|exact E1].
Qed.

Lemma ftr_bar_err_run M : 1 <= M -> M <= bpow radix2 990 -> forall bars (t : @Tr float), tr_ok M t -> Forall (okbar3 M) bars ->
  let outs := tr_bar_outs O t bars in
  let reals := trb_stream (option_map FR (tr_prev_close t)) (map rb bars) in
  length outs = length bars /\ length reals = length bars /\
  forall j, (j < length bars)%nat ->
    finF (nth j outs 0%float) /\ Rabs (FR (nth j outs 0%float)) <= 3 * M /\ Rabs (FR (nth j outs 0%float) - nth j reals 0) <= 3 * u * M.
Proof.
  intros HM1 HM2. induction bars as [|b bars IH]; intros t Ht Hb; [split; [reflexivity|split; [reflexivity|intros j Hj; cbn in Hj; lia]]|].
  pose proof (ftr_bar_err M t b HM1 HM2 Ht (Forall_inv Hb)) as Hs. cbn [tr_bar_outs map trb_stream].
  destruct (tr_next_bar O t b) as [t' o]. destruct Hs as (Ht' & Epc & Fo & Mo & Eo).
  destruct (IH t' Ht' (Forall_inv_tail Hb)) as (L1 & L2 & Hn). rewrite Epc in L2, Hn. cbn [option_map] in L2, Hn.
  replace (snd (rb b)) with (FR (b_close b)) by reflexivity.
  split; [cbn [length]; now rewrite L1|]. split; [cbn [length]; now rewrite L2|].
  intros [|j] Hj; cbn [nth]; [split; [exact Fo|split; [exact Mo|exact Eo]]|]. apply Hn. cbn [length] in Hj. lia.
Qed.

Theorem atr_bar_float_uniform : forall p a bars M, atr_new O p = Ok a -> (p < 35184372088832)%N ->
  1 <= M -> 3 * M <= bpow radix2 990 -> Forall (okbar3 M) bars ->
  let outs := atr_bar_outs O a bars in
  let reals := ema_stream (kreal p) (trb_stream None (map rb bars)) in
  length outs = length bars /\
  forall j, (j < length bars)%nat ->
    finF (nth j outs 0%float) /\ Rabs (FR (nth j outs 0%float) - nth j reals 0) <= atr_ebound p M /\ Rabs (nth j reals 0) <= 4 * M.
Proof.
  intros p a bars M H Hp HM1 HM3 Hb outs reals. pose proof u_pos as Hu0. pose proof u_le as Hu1.
  unfold atr_new in H. destruct (ema_new O p) as [e| |] eqn:Ee; cbn in H; try discriminate. injection H as <-.
  assert (Hp0 : p <> 0%N) by (unfold ema_new in Ee; destruct (N.eqb_spec p 0); [discriminate|assumption]).
  assert (Hal : 0 < kreal p <= 1) by (apply kreal_range; exact Hp0).
  unfold outs, reals. rewrite atr_bar_wiring.
  destruct (ftr_bar_err_run M HM1 ltac:(lra) bars tr_new I Hb) as (L1 & L2 & HT). cbn [tr_new tr_prev_close option_map] in L2, HT.
  set (T := tr_bar_outs O tr_new bars) in *.
  assert (FT : Forall (okin (3 * M)) T) by (apply (Forall_of_nth _ T 0%float); intros j Hj; rewrite L1 in Hj; destruct (HT j Hj) as (A & B & _); split; assumption).
  assert (HM960 : bpow radix2 (-960) <= 3 * M) by (apply Rle_trans with 1; [change 1 with (bpow radix2 0); apply bpow_le; lia|lra]).
  destruct (ema_float_uniform p e T (3 * M) Ee ltac:(lia) HM960 HM3 FT) as [Lo Ho].
  cbv zeta in Lo, Ho. split; [rewrite Lo; exact L1|].
  intros j Hj. destruct (Ho j ltac:(rewrite L1; exact Hj)) as [Fo Eo]. split; [exact Fo|].
  assert (Hlip : Rabs (nth j (ema_stream (kreal p) (map FR T)) 0 - nth j (ema_stream (kreal p) (trb_stream None (map rb bars))) 0) <= 3 * u * M).
  { apply ema_stream_lip; [exact Hal|apply Rmult_le_pos; [lra|lra]| | |rewrite map_length, L1; exact Hj].
    - rewrite map_length, L1, L2. reflexivity.
    - intros i Hi. rewrite map_length, L1 in Hi. replace 0 with (FR 0%float) at 1 by apply FR_zero. rewrite map_nth. apply (HT i Hi). }
  assert (HrT : Rabs (nth j (ema_stream (kreal p) (map FR T)) 0) <= 3 * M).
  { apply ema_stream_abs; [exact Hal| |rewrite map_length, L1; exact Hj]. intros i Hi. rewrite map_length, L1 in Hi.
    replace 0 with (FR 0%float) by apply FR_zero. rewrite map_nth. apply (HT i Hi). }
  fold (ebound p (3 * M)) in Eo. unfold atr_ebound.
  apply abs_bounds_R in Eo. apply abs_bounds_R in Hlip. apply abs_bounds_R in HrT.
  assert (3 * u * M <= M) by nra.
  split; apply Rabs_le; lra.
Qed.

Lemma prod_bd a e A U : - A <= a <= A -> - U <= e <= U -> - (A * U) <= a * e <= A * U.
Proof. intros Ha He. assert (0 <= A) by lra. assert (0 <= U) by lra. split; nra. Qed.

(* the typical price of any bounded bar *)
Lemma typical_err M b : 1 <= M -> 4 * M <= bpow radix2 900 -> okbar3 M b ->
  okin (2 * M) (typical O b) /\ Rabs (FR (typical O b) - tpb (rb b)) <= 8 * u * M.
Proof.
  intros HM1 HM2 ([Fh Hh] & [Fl Hl] & [Fc Hc]). pose proof u_pos as Hu0. pose proof u_le as Hu1. pose proof eta_pos as He0. pose proof eta_le_u as Heu. pose proof BIG_ge as HBg.
  assert (HMB : 8 * M <= BIG).
  { unfold BIG. apply Rle_trans with (2 * bpow radix2 900); [lra|]. change 2 with (bpow radix2 1) at 1. rewrite <- bpow_plus. apply bpow_le. lia. }
  assert (HeM : eta <= u * M) by (apply Rle_trans with (u * 1); [lra|apply Rmult_le_compat_l; lra]).
  assert (HuM : u * M <= / 1000 * M) by (apply Rmult_le_compat_r; lra).
  assert (HuuM : u * (u * M) <= / 1000 * (u * M)) by (apply Rmult_le_compat_r; [apply Rmult_le_pos; lra|lra]).
  unfold typical, rb, tpb. cbn [add div three O].
  set (H := FR (b_high b)) in *. set (L := FR (b_low b)) in *. set (C := FR (b_close b)) in *.
  apply abs_bounds_R in Hh. apply abs_bounds_R in Hl. apply abs_bounds_R in Hc.
  destruct (fadd_err (b_close b) (b_high b) Fc Fh) as (F1 & e1 & t1 & He1 & Ht1 & R1); [fold C H; apply Rabs_le; lra|]. fold C H in R1.
  apply abs_bounds_R in He1. apply abs_bounds_R in Ht1.
  set (S1 := FR (b_close b + b_high b)%float) in *.
  assert (D1 : - (3 * (u * M)) <= S1 - (C + H) <= 3 * (u * M)).
  { rewrite R1. replace ((C + H) * (1 + e1) + t1 - (C + H)) with ((C + H) * e1 + t1) by ring.
    assert (- (2 * M * u) <= (C + H) * e1 <= 2 * M * u) by (apply prod_bd; lra). lra. }
  destruct (fadd_err (b_close b + b_high b)%float (b_low b) F1 Fl) as (F2 & e2 & t2 & He2 & Ht2 & R2); [fold S1 L; apply Rabs_le; lra|]. fold S1 L in R2.
  apply abs_bounds_R in He2. apply abs_bounds_R in Ht2.
  set (S2 := FR (b_close b + b_high b + b_low b)%float) in *.
  assert (D2 : - (8 * (u * M)) <= S2 - (C + H + L) <= 8 * (u * M)).
  { rewrite R2. replace ((S1 + L) * (1 + e2) + t2 - (C + H + L)) with ((S1 - (C + H)) + (S1 + L) * e2 + t2) by ring.
    assert (- ((3 * M + 3 * (u * M)) * u) <= (S1 + L) * e2 <= (3 * M + 3 * (u * M)) * u) by (apply prod_bd; lra).
    replace ((3 * M + 3 * (u * M)) * u) with (3 * (u * M) + 3 * (u * (u * M))) in H0 by ring. lra. }
  change 3%float with (f_ofN 3).
  destruct (fdiv_count (b_close b + b_high b + b_low b)%float 3 F2 ltac:(lia)) as (F3 & e3 & t3 & He3 & Ht3 & R3); [fold S2; apply Rabs_le; lra|]. fold S2 in R3.
  change (IZR (Z.of_N 3)) with 3 in R3. apply abs_bounds_R in He3. apply abs_bounds_R in Ht3.
  assert (D3 : - (8 * u * M) <= FR ((b_close b + b_high b + b_low b) / f_ofN 3)%float - (C + H + L) / 3 <= 8 * u * M).
  { rewrite R3. replace (S2 / 3 * (1 + e3) + t3 - (C + H + L) / 3) with ((S2 - (C + H + L)) / 3 + S2 / 3 * e3 + t3) by field.
    assert (- ((M + 3 * (u * M)) * u) <= S2 / 3 * e3 <= (M + 3 * (u * M)) * u) by (apply prod_bd; lra).
    replace ((M + 3 * (u * M)) * u) with (u * M + 3 * (u * (u * M))) in H0 by ring. lra. }
  split; [split; [exact F3|]|apply Rabs_le; exact D3].
  apply Rabs_le. assert (8 * u * M <= M) by lra. lra.
Qed.

Theorem kc_bar_float_error : forall p mu k bars M K, kc_new O p mu = Ok k -> (p < 35184372088832)%N ->
  finF mu -> Rabs (FR mu) <= K -> 1 <= M -> 4 * (1 + K) * M <= bpow radix2 900 -> Forall (okbar3 M) bars ->
  let Ea := ebound p (2 * M) + 8 * u * M in let Et := atr_ebound p M in
  let D := Ea + K * Et + 24 * (1 + K) * u * M in
  let outs := kc_bar_outs O k bars in
  let reals := kc_bar_real (kreal p) (FR mu) (map rb bars) in
  length outs = length bars /\
  forall j, (j < length bars)%nat -> exists av up lo AV UP LO,
    nth j outs [] = [av; up; lo] /\ nth j reals [] = [AV; UP; LO] /\ finF av /\ finF up /\ finF lo /\
    Rabs (FR av - AV) <= Ea /\ Rabs (FR up - UP) <= D /\ Rabs (FR lo - LO) <= D.
Proof.
  intros p mu k bars M K H Hp Fmu Hmu HM1 HKM Hb Ea Et D outs reals.
  pose proof u_pos as Hu0. pose proof u_le as Hu1.
  assert (HK : 0 <= K) by (eapply Rle_trans; [apply Rabs_pos|exact Hmu]).
  assert (HM900 : 4 * M <= bpow radix2 900) by nra.
  assert (HKM' : (1 + K) * M <= bpow radix2 900) by nra.
  unfold kc_new in H.
  destruct (atr_new O p) as [a| |] eqn:Eat; cbn [bind] in H; try discriminate.
  destruct (ema_new O p) as [e| |] eqn:Ee; cbn [bind] in H; try discriminate. injection H as <-.
  subst outs reals. rewrite kc_bar_wiring. unfold kc_bar_real.
  assert (H3M : 3 * M <= bpow radix2 990) by (apply Rle_trans with (bpow radix2 900); [lra|apply bpow_le; lia]).
  destruct (atr_bar_float_uniform p a bars M Eat Hp HM1 H3M Hb) as [La Ha].
  set (tps := map (typical O) bars).
  assert (Ltp : length tps = length bars) by (unfold tps; rewrite map_length; reflexivity).
  assert (Htp : forall j, (j < length bars)%nat -> okin (2 * M) (nth j tps 0%float) /\ Rabs (FR (nth j tps 0%float) - nth j (map tpb (map rb bars)) 0) <= 8 * u * M).
  { intros j Hj. unfold tps. rewrite map_map.
    set (b0 := mkBar 0%float 0%float 0%float 0%float 0%float).
    rewrite (nth_indep _ 0%float (typical O b0)) by (rewrite map_length; exact Hj).
    rewrite (nth_indep _ 0 (tpb (rb b0))) by (rewrite map_length; exact Hj).
    rewrite (map_nth (typical O)), (map_nth (fun x => tpb (rb x))).
    apply typical_err; [exact HM1|exact HM900|]. apply (Forall_nth_all _ _ b0 Hb). exact Hj. }
  assert (Ftp : Forall (okin (2 * M)) tps) by (apply (Forall_of_nth _ _ 0%float); intros j Hj; apply Htp; lia).
  assert (HMl : bpow radix2 (-960) <= 2 * M) by (apply Rle_trans with 1; [change 1 with (bpow radix2 0); apply bpow_le; lia|lra]).
  assert (HMu : 2 * M <= bpow radix2 990) by (apply Rle_trans with (bpow radix2 900); [lra|apply bpow_le; lia]).
  destruct (ema_float_uniform p e tps (2 * M) Ee ltac:(lia) HMl HMu Ftp) as [Le He].
  assert (Hp0 : p <> 0%N) by (unfold ema_new in Ee; destruct (N.eqb_spec p 0); [discriminate|assumption]).
  pose proof (kreal_range p Hp0) as Hal.
  assert (Lre : length (ema_stream (kreal p) (map tpb (map rb bars))) = length bars) by (rewrite ema_stream_length, !map_length; reflexivity).
  assert (Lrt : length (ema_stream (kreal p) (trb_stream None (map rb bars))) = length bars).
  { rewrite ema_stream_length. destruct (ftr_bar_err_run M HM1 ltac:(lra) bars tr_new I Hb) as (_ & L2 & _). exact L2. }
  split; [rewrite map2_length'; [rewrite Le; exact Ltp|rewrite La, Le, Ltp; reflexivity]|].
  intros j Hj.
  destruct (He j ltac:(rewrite Ltp; exact Hj)) as [Fav Eav]. destruct (Ha j Hj) as (Fat & Eat' & Rat).
  fold (ebound p (2 * M)) in Eav. fold Et in Eat'.
  set (av := nth j (ema_outs O e tps) 0%float) in *. set (at_ := nth j (atr_bar_outs O a bars) 0%float) in *.
  set (AV := nth j (ema_stream (kreal p) (map tpb (map rb bars))) 0) in *. set (AT := nth j (ema_stream (kreal p) (trb_stream None (map rb bars))) 0) in *.
  assert (Lip : Rabs (nth j (ema_stream (kreal p) (map FR tps)) 0 - AV) <= 8 * u * M).
  { apply ema_stream_lip; [exact Hal|nra|rewrite !map_length; exact Ltp| |rewrite map_length, Ltp; exact Hj].
    intros i Hi. rewrite map_length, Ltp in Hi. replace 0 with (FR 0%float) at 1 by apply FR_zero. rewrite map_nth. apply Htp. exact Hi. }
  assert (HAV : Rabs AV <= M).
  { apply ema_stream_abs; [exact Hal| |rewrite !map_length; exact Hj]. intros i Hi. rewrite !map_length in Hi.
    set (b0 := mkBar 0%float 0%float 0%float 0%float 0%float).
    rewrite (nth_indep _ 0 (tpb (rb b0))) by (rewrite !map_length; exact Hi). rewrite map_map, (map_nth (fun x => tpb (rb x))).
    destruct (Forall_nth_all _ _ b0 Hb i Hi) as ([_ Hh] & [_ Hl] & [_ Hc]). unfold tpb, rb.
    apply abs_bounds_R in Hh. apply abs_bounds_R in Hl. apply abs_bounds_R in Hc. apply Rabs_le. lra. }
  assert (Eav' : Rabs (FR av - AV) <= Ea).
  { unfold Ea. apply abs_bounds_R in Eav. apply abs_bounds_R in Lip. apply Rabs_le. lra. }
  destruct (ebound_small p (2 * M) Hp ltac:(lra)) as [HE0 HE1].
  destruct (ebound_small p (3 * M) Hp ltac:(lra)) as [HEt0 HEt].
  assert (HuM : u * M <= / 1000 * M) by (apply Rmult_le_compat_r; lra).
  assert (HuM0 : 0 <= u * M) by (apply Rmult_le_pos; lra).
  assert (HEtM : 0 <= Et <= M) by (unfold Et, atr_ebound; split; lra).
  assert (HEaM : 0 <= Ea <= M) by (unfold Ea; split; lra).
  destruct (band_err true av at_ mu AV AT M K Ea Et HM1 HK HKM' HEaM HEtM Fav Fat Fmu Hmu HAV Rat Eav' Eat') as [Fup Eup].
  destruct (band_err false av at_ mu AV AT M K Ea Et HM1 HK HKM' HEaM HEtM Fav Fat Fmu Hmu HAV Rat Eav' Eat') as [Flo Elo].
  exists av, (av + at_ * mu)%float, (av - at_ * mu)%float, AV, (AV + AT * FR mu), (AV - AT * FR mu).
  split; [unfold av, at_; rewrite (map2_nth' (bands O mu) _ _ j 0%float 0%float []); [reflexivity|rewrite La, Le, Ltp; reflexivity|rewrite Le, Ltp; exact Hj]|].
  split; [unfold AV, AT; rewrite (map2_nth' _ _ _ j 0 0 []); [reflexivity|rewrite Lrt, Lre; reflexivity|rewrite Lre; exact Hj]|].
  repeat split; assumption.
Qed.

(* ChandelierExit on binary64, any stream length: long = RN(mx - RN(ATR * m)) and short = RN(mn + RN(ATR * m)) where mx / mn are the greatest
   high / least low of the window (elements of the window, hence exact: binary64 order instance), within K Et + 24 (1+K) u M of
   mx - ATR_real * m and mn + ATR_real * m, for every finite multiplier |m| <= K, negative included *)
From TA Require Import Proofs.Ring Proofs.MinMaxProofs Proofs.FloatOrder Proofs.Osc Proofs.ResetLift.
Open Scope R_scope.

Theorem ce_float_error : forall p mu c bars M K, ce_new O p mu = Ok c -> (p < 35184372088832)%N ->
  finF mu -> Rabs (FR mu) <= K -> 1 <= M -> 4 * (1 + K) * M <= bpow radix2 900 -> Forall (okbar3 M) bars ->
  Forall okF (map b_high bars) -> Forall okF (map b_low bars) ->
  let highs := map b_high bars in let lows := map b_low bars in
  let Et := atr_ebound p M in let D := K * Et + 24 * (1 + K) * u * M in
  let atrs := ema_stream (kreal p) (trb_stream None (map rb bars)) in
  forall k, (k < length bars)%nat ->
    exists lg sh mx mn, nth k (ce_outs O c bars) [] = [lg; sh] /\ finF lg /\ finF sh /\
      greatest_in O (lastn (N.to_nat p) (firstn (S k) highs)) mx /\ least_in O (lastn (N.to_nat p) (firstn (S k) lows)) mn /\
      Rabs (FR lg - (FR mx - nth k atrs 0 * FR mu)) <= D /\ Rabs (FR sh - (FR mn + nth k atrs 0 * FR mu)) <= D.
Proof.
  intros p mu c bars M K H Hp Fmu Hmu HM1 HKM Hb Hhi Hlo highs lows Et D atrs k Hk. unfold ce_new in H.
  pose proof u_pos as Hu0. pose proof u_le as Hu1.
  assert (HK : 0 <= K) by (eapply Rle_trans; [apply Rabs_pos|exact Hmu]).
  assert (HKM' : (1 + K) * M <= bpow radix2 900) by nra.
  destruct (atr_new O p) as [a| |] eqn:Ea; cbn in H; try discriminate.
  destruct (min_new O p) as [mn0| |] eqn:Emn; cbn in H; try discriminate.
  destruct (max_new O p) as [mx0| |] eqn:Emx; cbn in H; try discriminate. injection H as <-.
  pose proof (min_new_inv O p mn0 Emn) as (Hp0 & Hpa & _ & _).
  rewrite min_new_ok in Emn by assumption. injection Emn as <-.
  rewrite max_new_ok in Emx by assumption. injection Emx as <-.
  assert (Hpp : (0 < p)%N) by lia.
  assert (H3M : 3 * M <= bpow radix2 990) by (apply Rle_trans with (bpow radix2 900); [nra|apply bpow_le; lia]).
  destruct (atr_bar_float_uniform p a bars M Ea Hp HM1 H3M Hb) as [La Ha].
  rewrite ce_wiring, min_outs_res, max_outs_res. fold highs lows.
  destruct (min_least O okF float_order_min p 0 0 lows Hpp Hpa Hpp Hpp Hlo) as [Lmin Cmin].
  destruct (max_greatest O okF p 0 0 highs float_order_max Hpp Hpa Hpp Hpp Hhi) as [Lmax Cmax].
  assert (Ll : length lows = length bars) by (unfold lows; apply map_length).
  assert (Lh : length highs = length bars) by (unfold highs; apply map_length).
  specialize (Cmin k ltac:(lia)). specialize (Cmax k ltac:(lia)).
  set (mins := min_outs O _ lows) in *. set (maxs := max_outs O _ highs) in *.
  rewrite (XFast.map3_nth _ _ _ _ k 0%float (inf O) (ninf O) []) by (rewrite ?Lmin, ?Lmax, ?La; lia).
  set (atr := nth k (atr_bar_outs O a bars) 0%float). set (mn := nth k mins (inf O)) in *. set (mx := nth k maxs (ninf O)) in *.
  destruct (Ha k Hk) as (Fat & Eat & Rat). fold atr in Fat, Eat. fold atrs in Eat, Rat. fold Et in Eat.
  assert (Hin : forall (f : Bar float -> float) y, In y (lastn (N.to_nat p) (firstn (S k) (map f bars))) -> exists b, In b bars /\ y = f b).
  { intros f y Hy. apply in_window_in in Hy. apply in_map_iff in Hy as (b & <- & Ib). exists b. split; [exact Ib|reflexivity]. }
  rewrite Forall_forall in Hb.
  destruct Cmin as [Imn Lmn]. destruct Cmax as [Imx Lmx].
  destruct (Hin b_low mn Imn) as (b1 & Ib1 & E1). destruct (Hin b_high mx Imx) as (b2 & Ib2 & E2).
  destruct (Hb b1 Ib1) as (_ & [Fmn Bmn] & _). destruct (Hb b2 Ib2) as ([Fmx Bmx] & _). rewrite <- E1 in Fmn, Bmn. rewrite <- E2 in Fmx, Bmx.
  cbn [add sub mul O].
  destruct (ebound_small p (3 * M) Hp ltac:(lra)) as [HEt0 HEt].
  assert (HuM : u * M <= / 1000 * M) by (apply Rmult_le_compat_r; lra).
  assert (HuM0 : 0 <= u * M) by (apply Rmult_le_pos; lra).
  assert (HEtM : 0 <= Et <= M) by (unfold Et, atr_ebound; split; lra).
  assert (HE0 : 0 <= 0 <= M) by lra.
  assert (Z1 : Rabs (FR mx - FR mx) <= 0) by (rewrite Rminus_diag_eq, Rabs_R0 by reflexivity; lra).
  assert (Z2 : Rabs (FR mn - FR mn) <= 0) by (rewrite Rminus_diag_eq, Rabs_R0 by reflexivity; lra).
  destruct (band_err false mx atr mu (FR mx) (nth k atrs 0) M K 0 Et HM1 HK HKM' HE0 HEtM Fmx Fat Fmu Hmu Bmx Rat Z1 Eat) as [Flg Elg].
  destruct (band_err true mn atr mu (FR mn) (nth k atrs 0) M K 0 Et HM1 HK HKM' HE0 HEtM Fmn Fat Fmu Hmu Bmn Rat Z2 Eat) as [Fsh Esh].
  exists (mx - atr * mu)%float, (mn + atr * mu)%float, mx, mn.
  split; [reflexivity|]. split; [exact Flg|]. split; [exact Fsh|]. split; [split; assumption|]. split; [split; assumption|].
  unfold D. split; [eapply Rle_trans; [exact Elg|lra]|eapply Rle_trans; [exact Esh|lra]].
Qed.

(* non-vacuity: ordinary bars and the multipliers 2 and -2.5 meet every hypothesis of the KeltnerChannel / ChandelierExit error theorems *)
Definition ex_bars : list (Bar float) :=
  [mkBar 10.5%float 12%float 9.25%float 11%float 1000%float; mkBar 11%float 11.5%float 10%float 10.75%float 500%float].
Lemma FR_lit_bound (x : float) B : finF x -> Rabs (FR x) <= B -> okin B x. Proof. intros; split; assumption. Qed.
Example kc_ce_hypotheses_example :
  (exists k, kc_new O 10 2%float = Ok k) /\ (exists c, ce_new O 22 3%float = Ok c) /\
  Forall (okbar3 100) ex_bars /\ Forall okF (map b_high ex_bars) /\ Forall okF (map b_low ex_bars) /\
  finF 2%float /\ Rabs (FR 2%float) <= 3 /\ finF (-2.5)%float /\ Rabs (FR (-2.5)%float) <= 3 /\
  1 <= 100 /\ 4 * (1 + 3) * 100 <= bpow radix2 900.
Proof.
  assert (L : forall x : float, finF x -> Rabs (FR x) <= 100 -> okin 100 x) by (intros; split; assumption).
  split; [eexists; reflexivity|]. split; [eexists; reflexivity|].
  split.
  { unfold ex_bars. repeat constructor; cbn [b_high b_low b_close]; try reflexivity;
      unfold FR; cbn; unfold F2R; cbn; rewrite Rabs_pos_eq; lra. }
  split; [unfold ex_bars; cbn [map b_high]; repeat constructor; vm_compute; reflexivity|].
  split; [unfold ex_bars; cbn [map b_low]; repeat constructor; vm_compute; reflexivity|].
  split; [reflexivity|]. split; [unfold FR; cbn; unfold F2R; cbn; rewrite Rabs_pos_eq; lra|].
  split; [reflexivity|]. split; [unfold FR; cbn; unfold F2R; cbn; rewrite Rabs_left; lra|].
  split; [lra|]. apply Rle_trans with (bpow radix2 11); [cbn; lra|apply bpow_le; lia].
Qed.
