(* C14 on binary64, whole streams: MACD fed 2^k x returns line, signal and histogram scaled by 2^k (as values): three EMA updates
   (FloatScaleEma) and two correctly rounded subtractions. *)
From Coq Require Import Reals Lra Lia ZArith List Floats.
From Flocq Require Import Core.
From TA Require Import Base Model FloatInst Proofs.Wiring Proofs.FloatErr Proofs.FloatScale Proofs.FloatScaleWma Proofs.FloatScaleEma.
Import ListNotations.
Local Notation O := FOps.
Local Notation float := PrimFloat.float.
Open Scope R_scope.

Definition rel_macd (k : Z) (s s' : @Macd float) : Prop :=
  rel_ema k (macd_fast s) (macd_fast s') /\ rel_ema k (macd_slow s) (macd_slow s') /\ rel_ema k (macd_signal s) (macd_signal s').

Definition macd_step_ok (k : Z) (s : @Macd float) (x : float) : Prop :=
  let fv := snd (ema_next O (macd_fast s) x) in let sv := snd (ema_next O (macd_slow s) x) in
  let line := (fv - sv)%float in let sg := snd (ema_next O (macd_signal s) line) in
  ema_step_ok k (macd_fast s) x /\ ema_step_ok k (macd_slow s) x /\ okr k (FR fv - FR sv) /\
  ema_step_ok k (macd_signal s) line /\ okr k (FR line - FR sg).

Lemma macd_step_pow2 k s s' x x' : rel_macd k s s' -> scaled k x x' -> macd_step_ok k s x ->
  rel_macd k (fst (macd_next O s x)) (fst (macd_next O s' x')) /\ Forall2 (scaled k) (snd (macd_next O s x)) (snd (macd_next O s' x')).
Proof.
  intros (Rf & Rs & Rg) Sx (Hf & Hs & (A1 & A2 & A3) & Hg & (B1 & B2 & B3)). unfold macd_next.
  destruct (ema_step_pow2 k _ _ x x' Rf Sx Hf) as [Rf' Sf]. destruct (ema_step_pow2 k _ _ x x' Rs Sx Hs) as [Rs' Ss].
  destruct (ema_next O (macd_fast s) x) as [f fv]. destruct (ema_next O (macd_fast s') x') as [f' fv'].
  destruct (ema_next O (macd_slow s) x) as [sl sv]. destruct (ema_next O (macd_slow s') x') as [sl' sv'].
  cbn [fst snd sub O] in *.
  pose proof (fsub_scale k _ _ _ _ Sf Ss A1 A2 A3) as Sline.
  destruct (ema_step_pow2 k _ _ _ _ Rg Sline Hg) as [Rg' Ssg].
  destruct (ema_next O (macd_signal s) (fv - sv)%float) as [g sg]. destruct (ema_next O (macd_signal s') (fv' - sv')%float) as [g' sg'].
  cbn [fst snd] in *.
  pose proof (fsub_scale k _ _ _ _ Sline Ssg B1 B2 B3) as Sh.
  split; [repeat split; cbn [macd_fast macd_slow macd_signal]; first [apply Rf'|apply Rs'|apply Rg']|].
  constructor; [exact Sline|]. constructor; [exact Ssg|]. constructor; [exact Sh|constructor].
Qed.

Fixpoint macd_run_ok (k : Z) (s : @Macd float) (xs : list float) : Prop :=
  match xs with [] => True | x :: xs => macd_step_ok k s x /\ macd_run_ok k (fst (macd_next O s x)) xs end.

Theorem macd_stream_pow2 k : forall xs xs' s s', rel_macd k s s' -> Forall2 (scaled k) xs xs' -> macd_run_ok k s xs ->
  Forall2 (Forall2 (scaled k)) (macd_outs O s xs) (macd_outs O s' xs').
Proof.
  induction xs as [|x xs IH]; intros xs' s s' Hr Hx Hok; inversion Hx as [|? x' ? xs2 Sx Hx']; subst; cbn [macd_outs]; [constructor|].
  destruct Hok as [Hs Hn]. destruct (macd_step_pow2 k s s' x x' Hr Sx Hs) as [Hr' So].
  destruct (macd_next O s x) as [s1 o]. destruct (macd_next O s' x') as [s1' o']. cbn [fst snd] in *.
  constructor; [exact So|]. apply IH; assumption.
Qed.

Theorem macd_pow2_covariant k pf ps pg s xs xs' : macd_new O pf ps pg = Ok s -> Forall2 (scaled k) xs xs' -> macd_run_ok k s xs ->
  Forall2 (Forall2 (scaled k)) (macd_outs O s xs) (macd_outs O s xs').
Proof.
  intros H Hx Hok. apply (macd_stream_pow2 k xs xs' s s); [|exact Hx|exact Hok].
  unfold macd_new in H.
  destruct (ema_new O pf) as [f| |] eqn:Ef; cbn [bind] in H; try discriminate.
  destruct (ema_new O ps) as [sl| |] eqn:Es; cbn [bind] in H; try discriminate.
  destruct (ema_new O pg) as [g| |] eqn:Eg; cbn [bind] in H; try discriminate. injection H as <-.
  split; [apply (rel_ema_refl_new k pf f Ef)|]. split; [apply (rel_ema_refl_new k ps sl Es)|apply (rel_ema_refl_new k pg g Eg)].
Qed.
