# Shared plumbing for the checks: builds, harness runs, Coq case files, evidence, reporting.
import fcntl
import hashlib
import json
import os
import re
import struct
import subprocess
import sys
import time
from concurrent.futures import ThreadPoolExecutor

VERIF = os.path.dirname(os.path.dirname(os.path.abspath(__file__)))
REPO = os.environ.get("VERIF_REPO", "/repo")
BUILD = os.path.join(VERIF, ".build")
import hashlib as _hl
RUNDIR = os.path.join(BUILD, "run" if REPO == "/repo" else "run_" + _hl.sha1(REPO.encode()).hexdigest()[:8])   # scratch files of a trial on another copy never mix with ours
COQ = os.path.join(VERIF, "coq")
HARNESS = os.path.join(VERIF, "harness")
CARGO_TARGET = os.path.join(BUILD, "cargo")
NCPU = min(16, os.cpu_count() or 4)

INDS = ["SMA", "EMA", "WMA", "SD", "MAD", "MIN", "MAX", "BB", "TR", "ATR", "RSI", "FAST", "SLOW",
        "ROC", "ER", "MACD", "PPO", "KC", "CE", "CCI", "MFI", "OBV"]
KIND = {"SMA": "KSma", "EMA": "KEma", "WMA": "KWma", "SD": "KSd", "MAD": "KMad", "MIN": "KMin",
        "MAX": "KMax", "BB": "KBb", "TR": "KTr", "ATR": "KAtr", "RSI": "KRsi", "FAST": "KFast",
        "SLOW": "KSlow", "ROC": "KRoc", "ER": "KEr", "MACD": "KMacd", "PPO": "KPpo", "KC": "KKc",
        "CE": "KCe", "CCI": "KCci", "MFI": "KMfi", "OBV": "KObv"}
NO_SCALAR = {"CE", "CCI", "MFI", "OBV"}
NPER = {"TR": 0, "OBV": 0, "SLOW": 2, "MACD": 3, "PPO": 3}
HAS_MULT = {"BB", "KC", "CE"}
NOUT = {"BB": 3, "KC": 3, "MACD": 3, "PPO": 3, "CE": 2}
WINDOWED = {"SMA", "WMA", "SD", "MAD", "MIN", "MAX", "BB", "FAST", "SLOW", "ROC", "ER", "CE", "CCI", "MFI"}
DISPLAY_NAME = None  # filled from the Coq model by display_names()


def nper(ind):
    return NPER.get(ind, 1)


# ----------------------------------------------------------------------------- floats
def bits(x):
    return struct.unpack("<Q", struct.pack("<d", x))[0]


def fbits(b):
    return struct.unpack("<d", struct.pack("<Q", b))[0]


def hx(x):
    b = bits(x)
    if x != x:
        b = 0x7FF8000000000000
    return "%016x" % b


def coqf(x):
    """Coq primitive-float literal denoting exactly x."""
    if x != x:
        return "nan"
    if x == float("inf"):
        return "infinity"
    if x == float("-inf"):
        return "neg_infinity"
    h = abs(x).hex()  # 0x1.8000000000000p+1
    m = re.match(r"0x([01])\.([0-9a-f]*)p([+-]\d+)$", h)
    if m:
        frac = m.group(2).rstrip("0")
        h = "0x%s%sp%s" % (m.group(1), ("." + frac) if frac else "", m.group(3))
    if struct.pack("<d", x)[7] & 0x80:
        return "(-%s)%%float" % h
    return h + "%float"


def rust_fmt(x):
    """Rust's `{}` for f64 (shortest round-trip digits, never scientific)."""
    if x != x:
        return "NaN"
    if x == float("inf"):
        return "inf"
    if x == float("-inf"):
        return "-inf"
    sign = "-" if struct.pack("<d", x)[7] & 0x80 else ""
    x = abs(x)
    if x == 0:
        return sign + "0"
    r = repr(x)
    if "e" in r:
        mant, ex = r.split("e")
        ex = int(ex)
    else:
        mant, ex = r, 0
    if "." in mant:
        ip, fp = mant.split(".")
    else:
        ip, fp = mant, ""
    digits = (ip + fp)
    point = len(ip) + ex
    nz = len(digits) - len(digits.lstrip("0"))
    digits = digits.lstrip("0")
    point -= nz
    digits = digits.rstrip("0") or "0"
    if point <= 0:
        s = "0." + "0" * (-point) + digits
    elif point >= len(digits):
        s = digits + "0" * (point - len(digits))
    else:
        s = digits[:point] + "." + digits[point:]
    return sign + s


# ----------------------------------------------------------------------------- locking / builds
class Lock:
    def __enter__(self):
        os.makedirs(BUILD, exist_ok=True)
        self.f = open(os.path.join(BUILD, "lock"), "w")
        fcntl.flock(self.f, fcntl.LOCK_EX)
        return self

    def __exit__(self, *a):
        fcntl.flock(self.f, fcntl.LOCK_UN)
        self.f.close()


def sh(cmd, timeout=3600, cwd=None, env=None):
    e = dict(os.environ)
    e.update({"CARGO_NET_OFFLINE": "true", "CARGO_TARGET_DIR": CARGO_TARGET})
    if env:
        e.update(env)
    p = subprocess.run(cmd, shell=isinstance(cmd, str), cwd=cwd, env=e, timeout=timeout,
                       stdout=subprocess.PIPE, stderr=subprocess.STDOUT, text=True)
    return p.returncode, p.stdout


class BuildError(Exception):
    pass


def build_harness(release=False):
    """Rebuild the harness against the repository's current working tree. Returns path to the binary.
    With VERIF_REPO set (mutation trials on a scratch copy) a copy of the harness crate pointing there is used."""
    import shutil
    hdir, target = HARNESS, CARGO_TARGET
    if REPO != "/repo":
        import hashlib
        tag = hashlib.sha1(REPO.encode()).hexdigest()[:8]      # one build directory per scratch copy: concurrent trials must not share one
        hdir = os.path.join(BUILD, "harness_alt_" + tag)
        target = os.path.join(BUILD, "cargo_alt_" + tag)
        os.makedirs(os.path.join(hdir, "src"), exist_ok=True)
        for fn in ("main.rs", "gen.rs"):
            shutil.copy(os.path.join(HARNESS, "src", fn), os.path.join(hdir, "src", fn))
        toml = open(os.path.join(HARNESS, "Cargo.toml")).read().replace('path = "/repo"', 'path = "%s"' % REPO)
        open(os.path.join(hdir, "Cargo.toml"), "w").write(toml)
        shutil.copy(os.path.join(HARNESS, "Cargo.lock"), os.path.join(hdir, "Cargo.lock"))
    lock_src = os.path.join(REPO, "Cargo.lock")
    lock_dst = os.path.join(hdir, "Cargo.lock")
    if os.path.exists(lock_src) and not os.path.exists(lock_dst):
        shutil.copy(lock_src, lock_dst)
    cmd = "cargo build --offline" + (" --release" if release else "")
    rc, out = sh(cmd, cwd=hdir, timeout=1800, env={"CARGO_TARGET_DIR": target})
    if rc != 0:
        raise BuildError(out)
    return os.path.join(target, "release" if release else "debug", "ta-verif-harness")


def build_coq(targets=None):
    """make the Coq development (full .vo). Returns (ok, log)."""
    if not os.path.exists(os.path.join(COQ, "Makefile")):
        rc, out = sh("coq_makefile -f _CoqProject -o Makefile", cwd=COQ)
        if rc != 0:
            return False, out
    t = " ".join(targets) if targets else ""
    rc, out = sh("timeout 3000 make -j%d %s" % (NCPU, t), cwd=COQ, timeout=3100)
    return rc == 0, out


# ----------------------------------------------------------------------------- cases
class Case:
    """ops: list of tuples
       ('new',slot,ind,p1,p2,p3,mult) ('def',slot,ind) ('n',slot,x) ('b',slot,o,h,l,c,v)
       ('i',slot,o,h,l,c,v) ('r',slot) ('c',src,dst) ('s',slot) ('d',slot) ('x',slot)
       the harness additionally gets a trailing ('z',slot) per slot listed in `dump`."""

    def __init__(self, cid, ops, dump=(0,), meta=None):
        self.cid = cid
        self.ops = ops
        self.dump = tuple(dump)
        self.meta = meta or {}
        self.obs = None      # parsed harness observations, aligned with ops
        self.images = None   # {slot: hex}

    def harness_text(self):
        L = ["CASE %s" % self.cid]
        for o in self.ops:
            t = o[0]
            if t == "new":
                L.append("new %d %s %d %d %d %s" % (o[1], o[2], o[3], o[4], o[5], hx(o[6])))
            elif t == "def":
                L.append("def %d %s" % (o[1], o[2]))
            elif t == "n":
                L.append("n %d %s" % (o[1], hx(o[2])))
            elif t in ("b", "i", "j"):
                L.append("%s %d %s" % (t, o[1], " ".join(hx(v) for v in o[2:7])))
            elif t in ("r", "s", "d", "x"):
                L.append("%s %d" % (t, o[1]))
            elif t == "c":
                L.append("c %d %d" % (o[1], o[2]))
            elif t == "build":
                L.append("build 0 " + " ".join("%s %s" % (f, hx(v)) for f, v in o[1]))
            else:
                raise ValueError(o)
        for s in self.dump:
            L.append("z %d" % s)
        L.append("END")
        return "\n".join(L)

    def coq_ops(self):
        L = []
        for o in self.ops:
            t = o[0]
            if t == "new":
                L.append("oN %d %s (Pm %d %d %d %s)" % (o[1], KIND[o[2]], o[3], o[4], o[5], coqf(o[6])))
            elif t == "def":
                L.append("oD %d %s" % (o[1], KIND[o[2]]))
            elif t == "n":
                L.append("oX %d %s" % (o[1], coqf(o[2])))
            elif t in ("b", "j"):
                # "j": a DataItem deserialised from the five numbers is, for the model, a bar with those numbers
                L.append("oB %d %s" % (o[1], " ".join(coqf(v) for v in o[2:7])))
            elif t == "i":
                L.append("oI %d %s" % (o[1], " ".join(coqf(v) for v in o[2:7])))
            elif t == "r":
                L.append("oR %d" % o[1])
            elif t == "s":
                L.append("oS %d" % o[1])
            elif t == "d":
                L.append("oP %d" % o[1])
            elif t == "x":
                L.append("oK %d" % o[1])
            elif t == "c":
                L.append("oC %d %d" % (o[1], o[2]))
            elif t == "build":
                nm = {"o": "SetOpen", "h": "SetHigh", "l": "SetLow", "c": "SetClose", "v": "SetVolume"}
                L.append("oU [%s]" % "; ".join("(%s, %s)" % (nm[f], coqf(v)) for f, v in o[1]))
        return "[" + "; ".join(L) + "]"

    def coq_exp(self):
        L = []
        for ob in self.obs:
            L.append(obs_to_coq(ob))
        return "[" + "; ".join(L) + "]"

    def coq_img(self):
        L = []
        for s in self.dump:
            h = self.images.get(s)
            if h is None:
                continue
            raw = bytes.fromhex(h)
            ch = []
            for i in range(0, len(raw), 4):
                ch.append("0x%xp+0%%float" % int.from_bytes(raw[i:i + 4], "little"))
            L.append("(%d%%nat, [%s], %d)" % (s, "; ".join(ch), len(raw)))
        return "[" + "; ".join(L) + "]"

    def to_json(self):
        def enc(v):
            if isinstance(v, float):
                return hx(v)
            if isinstance(v, (list, tuple)):
                return [enc(x) for x in v]
            return v
        return {"id": self.cid, "ops": [[enc(v) for v in o] for o in self.ops],
                "ops_readable": [" ".join(str(v) for v in o) for o in self.ops], "meta": self.meta}


def canon_image(raw):
    """canonicalise NaN payloads in 8-byte aligned-by-layout words is not possible without the
    layout; the model side prints canonical NaNs, so we canonicalise every 8-byte window that
    starts at an offset where the model would place a word. Offsets differ only through 1-byte
    bools/tags; NaN payloads other than the canonical one never arise from the crate's arithmetic
    on x86-64 except sign-flipped NaNs (0xfff8...). We therefore rewrite the byte pattern
    00 00 00 00 00 00 f8 ff -> 00 00 00 00 00 00 f8 7f wherever it occurs."""
    return raw.replace(b"\x00\x00\x00\x00\x00\x00\xf8\xff", b"\x00\x00\x00\x00\x00\x00\xf8\x7f")


def parse_display(s):
    """'BB(3, 2.5)' -> ('BB', ['3','2.5'], True); 'OBV' -> ('OBV', [], False)"""
    m = re.match(r"^([A-Z_]+)\((.*)\)$", s)
    if m:
        args = [a.strip() for a in m.group(2).split(",")] if m.group(2).strip() else []
        return m.group(1), args, True
    return s, [], False


def obs_to_coq(ob):
    if ob == "ok":
        return "BOk"
    if ob == "panic":
        return "BPanic"
    if ob == "dead":
        return "BDead"
    if ob == "noscalar":
        return "BNoScalar"
    if ob == "deerr":
        return "BPanic"     # the model's serde never fails: any failure to deserialize is a mismatch
    if ob[0] == "err":
        return "BErr " + ob[1]
    if ob[0] == "o":
        v = ob[1]
        return "b%d %s" % (len(v), " ".join(coqf(fbits(b)) for b in v))
    if ob[0] == "built":
        return "bB %s" % " ".join(coqf(fbits(b)) for b in ob[1])
    if ob[0] == "badprobe":
        return "BDead"   # never equal to what the model observes for a live slot
    if ob[0] == "d":
        _, kind, args, mult, period = ob
        return "bP %s [%s] %s %s" % (
            kind, "; ".join(str(a) for a in args),
            "None" if mult is None else "(Some %s)" % coqf(fbits(mult)),
            "None" if period is None else "(Some %d)" % period)
    raise ValueError(ob)


class HarnessFormatError(Exception):
    pass


def parse_obs(line, names):
    t = line.split()
    if not t:
        raise HarnessFormatError(line)
    if t[0] in ("dead", "noscalar", "deerr") or line.strip() == "ok":
        return t[0]
    if t[0] == "panic":
        return "panic"
    if t[0] in ("err", "builderr"):
        return ("err", t[1])
    if t[0] == "ok" and len(t) > 1:   # builder probe: ok o h l c v clone_eq= serde_eq= ser=
        kv = dict(x.split("=") for x in t[6:])
        return ("built", [int(b, 16) for b in t[1:6]], kv)
    if t[0] == "o":
        return ("o", [int(b, 16) for b in t[1:]])
    if t[0] == "d":
        body = line[2:]
        disp, period, mult, dbg = [p.strip() for p in body.split(" | ")]
        name, args, parens = parse_display(disp)
        kind = names.get((name, parens))
        if kind is None:
            return ("badprobe", "unknown display name %r" % disp)
        ints = []
        mult_b = None if mult == "-" else int(mult, 16)
        for i, a in enumerate(args):
            if mult_b is not None and i == len(args) - 1:
                if a != rust_fmt(fbits(mult_b)):
                    return ("badprobe", "display %r renders multiplier %r but multiplier() is %r"
                            % (disp, a, rust_fmt(fbits(mult_b))))
            else:
                if not re.match(r"^\d+$", a):
                    return ("badprobe", "display %r has non-integer argument" % disp)
                ints.append(int(a))
        if int(dbg) <= 0:
            return ("badprobe", "empty Debug output")
        return ("d", kind, ints, mult_b, None if period == "-" else int(period))
    if t[0] == "z":
        return ("z", t[1])
    raise HarnessFormatError(line)


def run_harness(binary, cases, tag, threads=1, timeout=1800):
    """Run cases through the harness; fills case.obs / case.images."""
    os.makedirs(RUNDIR, exist_ok=True)
    path = os.path.join(RUNDIR, "%s.cases" % tag)
    with open(path, "w") as f:
        for c in cases:
            f.write(c.harness_text())
            f.write("\n")
    cmd = [binary, "run", path] + ([str(threads)] if threads > 1 else [])
    p = subprocess.run(cmd, stdout=subprocess.PIPE, stderr=subprocess.PIPE, text=True, timeout=timeout)
    if p.returncode != 0:
        raise BuildError("harness exited %d: %s" % (p.returncode, p.stderr[-2000:]))
    names = display_names()
    cur = None
    by_id = {c.cid: c for c in cases}
    if len(by_id) != len(cases):
        raise BuildError("duplicate case ids")
    thread_diff = []
    for line in p.stdout.splitlines():
        if line.startswith("CASE "):
            cur = by_id[line[5:]]
            cur.obs = []
            cur.images = {}
            cur._zi = 0
        elif line.startswith("threads "):
            if line.endswith("DIFF"):
                thread_diff.append(cur.cid)
        else:
            ob = parse_obs(line, names)
            if isinstance(ob, tuple) and ob[0] == "z":
                if ob[1] not in ("-", "panic"):
                    cur.images[cur.dump[cur._zi]] = ob[1]
                elif ob[1] == "panic":
                    cur.images[cur.dump[cur._zi]] = "ff"
                cur._zi += 1
            else:
                cur.obs.append(ob)
    for c in cases:
        if c.obs is None or len(c.obs) != len(c.ops):
            raise BuildError("harness output misaligned for case %s" % c.cid)
    return thread_diff


_names_cache = None


def display_names():
    """(display name, has parens) -> Kind constructor, dumped from the Coq model."""
    global _names_cache
    if _names_cache is not None:
        return _names_cache
    src = """From Coq Require Import String List.
From TA Require Import Base Model Generic.
Eval vm_compute in map (fun k => (display_name k, display_parens k)) all_kinds.
"""
    out = coq_eval(src, "names")
    pairs = re.findall(r'\(\s*"([A-Z_]+)"%?[a-z]*,\s*(true|false)\)', out)
    if len(pairs) != 22:
        raise BuildError("cannot read display names from the model: " + out[-500:])
    _names_cache = {}
    for ind, (n, p) in zip(INDS, pairs):
        _names_cache[(n, p == "true")] = KIND[ind]
    return _names_cache


def workers_for_memory(per_worker_gb=1.5):
    """number of evaluator processes to run side by side: one per core, but no more than the memory available right now carries (a
    shard of long big-period cases needs about 1 GB; an evaluator killed for lack of memory would look like a broken check)"""
    try:
        with open("/proc/meminfo") as f:
            kb = [int(l.split()[1]) for l in f if l.startswith("MemAvailable:")][0]
        return max(2, min(NCPU, int(kb / 1048576.0 / per_worker_gb)))
    except Exception:  # noqa
        return NCPU


def coq_eval(src, tag, timeout=1200):
    d = RUNDIR
    os.makedirs(d, exist_ok=True)
    path = os.path.join(d, "q_%s.v" % tag)
    with open(path, "w") as f:
        f.write(src)
    rc, out = sh(["timeout", str(timeout), "coqc", "-noglob", "-Q", COQ, "TA", path], cwd=d, timeout=timeout + 30)
    if rc != 0 and rc != 124:
        # a transient failure of the evaluator process itself (killed under memory pressure, a full scratch disk) must not be
        # reported as a finding about the code: evaluate once more before giving up (a deterministic failure fails again)
        time.sleep(2.0)
        rc, out = sh(["timeout", str(timeout), "coqc", "-noglob", "-Q", COQ, "TA", path], cwd=d, timeout=timeout + 30)
    for ext in (".vo", ".vok", ".vos", ".glob"):
        try:
            os.remove(path[:-2] + ext)
        except OSError:
            pass
    try:
        os.remove(os.path.join(d, ".q_%s.aux" % tag))
    except OSError:
        pass
    if rc != 0:
        raise BuildError("coqc failed (exit status %s) on %s:\n%s" % (rc, path, out[-3000:]))
    return out


HEADER = """From Coq Require Import Floats List NArith.
From TA Require Import Base Model Generic FloatInst Run.
Import ListNotations.
Open Scope N_scope.
"""


def coq_check_cases(cases, tag, checker="check_case", per_shard=None, timeout=1500, extra_header=""):
    """Evaluate `checker` on every case inside coqc (sharded); returns list of ints per case."""
    n = len(cases)
    if n == 0:
        return []
    if per_shard is None:
        per_shard = max(1, min(400, (n + NCPU - 1) // NCPU))
    # balance the shards by estimated cost (longest-processing-time first): the cost of a case grows with its number of
    # operations and, for the exact instance, with the period (window scans / big rationals)
    nsh = max(1, (n + per_shard - 1) // per_shard)
    def cost(c):
        p = c.meta.get("p", 1) if isinstance(c.meta, dict) else 1
        try:
            p = max(1, int(p))
        except (TypeError, ValueError):
            p = 1
        # the list-based float model costs O(period) per ring update too (it only matters for windows of hundreds of slots)
        return len(c.ops) * (1 + (p / 16.0 if checker != "check_case" else p / 100.0))
    order = sorted(range(n), key=lambda i: -cost(cases[i]))
    bins = [[] for _ in range(nsh)]
    load = [0.0] * nsh
    for i in order:
        k = min(range(nsh), key=lambda q: (load[q], q))
        bins[k].append(i)
        load[k] += cost(cases[i])
    bins = [sorted(b) for b in bins if b]
    shards = [[cases[i] for i in b] for b in bins]

    def run(k_sh):
        k, sh_cases = k_sh
        L = [HEADER, extra_header]
        for j, c in enumerate(sh_cases):
            L.append("Definition c%d := mkCase %s %s %s." % (j, c.coq_ops(), c.coq_exp(), c.coq_img()))
        L.append("Eval vm_compute in map %s [%s]." % (checker, "; ".join("c%d" % j for j in range(len(sh_cases)))))
        out = coq_eval("\n".join(L), "%s_%d" % (tag, k), timeout=timeout)
        body = out[out.rindex("= ["):] if "= [" in out else out
        body = body.split(": list")[0]
        nums = [int(x) for x in re.findall(r"\d+", body)]
        return nums

    with ThreadPoolExecutor(max_workers=workers_for_memory()) as ex:
        res = list(ex.map(run, enumerate(shards)))
    flat = [None] * n
    for b, nums in zip(bins, res):
        if len(nums) != len(b):
            raise BuildError("coq result count mismatch (%d vs %d)" % (len(nums), len(b)))
        for i, v in zip(b, nums):
            flat[i] = v
    return flat


def coq_dump_case(case, tag="dump"):
    src = HEADER + "Definition c0 := mkCase %s [] [].\nEval vm_compute in dump_case c0.\n" % case.coq_ops()
    out = coq_eval(src, tag)
    body = out[out.index("="):]
    rows = re.findall(r"\[([0-9;\s]*)\]", body)
    return [[int(x) for x in re.findall(r"\d+", r)] for r in rows]


# ----------------------------------------------------------------------------- reporting
def write_json(path, obj):
    os.makedirs(os.path.dirname(path), exist_ok=True)
    tmp = path + ".tmp"
    with open(tmp, "w") as f:
        json.dump(obj, f, indent=1, sort_keys=False)
    os.replace(tmp, path)


def replay_path(pid, payload):
    h = hashlib.sha1(json.dumps(payload, sort_keys=True, default=str).encode()).hexdigest()[:10]
    return os.path.join(VERIF, "replays", "%s-%s.json" % (pid, h))


class Timer:
    def __init__(self):
        self.t0 = time.time()

    def s(self):
        return round(time.time() - self.t0, 2)
