(* EfficiencyRatio over the exact carrier: |x_t - x_{t-n}| / sum of |consecutive differences| over those n steps;
   while fewer than n earlier prices exist the path starts at the first price; the very first output is 1 (path 0 -> x). *)
From Coq Require Import Reals Lra Lia.
From TA Require Import Base Model XR Proofs.Prims Proofs.WF Proofs.Ring Proofs.XBase Proofs.XSma Proofs.XWma Proofs.XMad Proofs.XRoc.
Open Scope N_scope.

Local Notation O := XROps.

(* length of the path through a list of prices *)
Fixpoint plen (l : list R) : R :=
  match l with a :: (b :: _) as r => (Rabs (a - b) + plen r)%R | _ => 0%R end.

(* the prices entering the ratio for input x after history h: the last n+1 prices; [0; x] for the very first input
   (the code reads the zero padding of its buffer) *)
Definition er_path (p : nat) (h : list R) (x : R) : list R :=
  match h with [] => [0%R; x] | _ => lastn (S p) (h ++ [x]) end.
Definition er_spec (p : nat) (h : list R) (x : R) : XR :=
  let path := er_path p h x in
  div O (Fin (Rabs (hd 0%R path - x))) (Fin (plen path)).

Lemma last_default {A} (l : list A) d1 d2 : l <> [] -> last l d1 = last l d2.
Proof. induction l as [|a l IH]; intros H; [congruence|]. destruct l; [reflexivity|]. apply IH. discriminate. Qed.

Lemma er_loop_fin : forall (l : list R) (acc prev : R),
  er_vol_loop O (Fin acc, Fin prev) (map Fin l) = (Fin (acc + plen (prev :: l)), Fin (last l prev)).
Proof.
  induction l as [|a l IH]; intros acc prev.
  - cbn. f_equal. f_equal. lra.
  - unfold er_vol_loop in *. cbn [map fold_left]. xfin. rewrite IH. cbn [plen]. f_equal; [f_equal; lra|].
    destruct l as [|r l]; [reflexivity|]. f_equal. change (last (a :: r :: l) prev) with (last (r :: l) prev).
    apply last_default. discriminate.
Qed.

Lemma er_loop_app (acc : XR * XR) (a b : list XR) :
  er_vol_loop O (er_vol_loop O acc a) b = er_vol_loop O acc (a ++ b).
Proof. unfold er_vol_loop. rewrite fold_left_app. reflexivity. Qed.

Definition er_inv (s : @Er XR) (h : list R) : Prop :=
  let p := N.to_nat (er_period s) in
  wf_er s /\
  rot (N.to_nat (er_index s)) (er_deque s) = map Fin (lastn p (padded 0%R p h)) /\
  er_count s = N.of_nat (Nat.min (length h) p) /\
  ((length h < p)%nat -> er_index s = N.of_nat (length h)).

Lemma er_inv_new p s : er_new O p = Ok s -> er_inv s [].
Proof.
  intros H. pose proof (er_new_inv O p s H) as (A & B & W & Pe).
  rewrite er_new_ok in H by assumption. injection H as <-.
  unfold er_inv. cbn [er_period er_index er_count er_deque].
  split; [exact W|]. split; [rewrite rot_0, lastn_padded_nil; cbn [zero O]; rewrite map_repeat'; reflexivity|].
  split; [cbn; lia|]. intros _. reflexivity.
Qed.

Lemma skipn_firstn_all {A} (l : list A) i : (i <= length l)%nat ->
  firstn (length l - i) (skipn i l) = skipn i l.
Proof. intros H. apply firstn_all2. rewrite skipn_length. lia. Qed.

Lemma er_step s h x : er_inv s h ->
  exists s', er_next O s (Fin x) = Ok (s', er_spec (N.to_nat (er_period s)) h x) /\
             er_inv s' (h ++ [x]) /\ er_period s' = er_period s.
Proof.
  intros (W & Hrot & Hcnt & Hidx). pose proof W as (H1 & H2 & H3 & H4 & H5 & H6).
  set (p := N.to_nat (er_period s)) in *.
  assert (Hp : (1 <= p)%nat) by (unfold p; lia).
  destruct (ring_step (er_deque s) (er_period s) (er_index s) (Fin x) (Fin 0) H1 H3 H2 H5) as (E1 & E2 & E3 & E4 & E5).
  unfold er_next.
  set (dq' := set_nth (er_deque s) (N.to_nat (er_index s)) (Fin x)) in *.
  set (i' := if er_index s + 1 <? er_period s then er_index s + 1 else 0) in *.
  assert (Hrot' : rot (N.to_nat i') dq' = map Fin (lastn p (padded 0%R p (h ++ [x])))).
  { rewrite E5, Hrot, lastn_padded_snoc by exact Hp. rewrite map_app, tl_map. reflexivity. }
  pose proof (advance_lt _ _ H3) as Hi'. fold i' in Hi'.
  destruct (Nat.le_gt_cases p (length h)) as [Hfull|Hwarm].
  - (* the window is full: the oldest price is read at the cursor *)
    assert (Ec : er_period s <=? er_count s = true) by (apply N.leb_le; rewrite Hcnt; unfold p in *; lia).
    rewrite Ec, E1. cbn [bind]. rewrite Hrot. change (Fin 0) with (Fin 0%R). rewrite (hd_map Fin _ 0%R).
    rewrite hd_lastn_padded by exact Hp. destruct (Nat.ltb_spec (length h) p); [lia|].
    rewrite E2, E3. cbn [bind]. fold dq' i'.
    assert (Ecnt : er_count s = er_period s) by (rewrite Hcnt; unfold p in *; lia).
    rewrite Ecnt.
    rewrite (slice_ok dq' i' (er_period s)) by (unfold p in *; lia).
    rewrite (slice_ok dq' 0 i') by (unfold p in *; lia). cbn [bind N.to_nat]. rewrite Nat.sub_0_r. cbn [skipn].
    replace (N.to_nat (er_period s)) with (length dq') by (rewrite E4; reflexivity).
    rewrite skipn_firstn_all by (rewrite E4; unfold p in *; lia).
    rewrite er_loop_app. change (skipn (N.to_nat i') dq' ++ firstn (N.to_nat i') dq') with (rot (N.to_nat i') dq').
    rewrite Hrot', lastn_padded_full by (rewrite app_length; cbn; lia).
    change (zero O) with (Fin 0%R). rewrite er_loop_fin. cbn [fst].
    set (w := lastn p h) in *. set (w' := lastn p (h ++ [x])).
    assert (Hw : w <> []) by (unfold w; intros E; apply (f_equal (@length R)) in E; rewrite lastn_length in E; cbn in E; lia).
    assert (Epath : er_path p h x = hd 0%R w :: w').
    { unfold er_path. destruct h as [|a h0]; [cbn in Hfull; lia|]. set (hh := a :: h0) in *.
      unfold w, w', lastn. rewrite !app_length. cbn [length].
      replace (length hh + 1 - S p)%nat with (length hh - p)%nat by lia.
      replace (length hh + 1 - p)%nat with (S (length hh - p)) by lia.
      rewrite !skipn_app. replace (length hh - p - length hh)%nat with 0%nat by lia.
      replace (S (length hh - p) - length hh)%nat with 0%nat by lia. cbn [skipn].
      rewrite (skipn_nth_cons hh (length hh - p) 0%R) by lia. cbn [hd app]. reflexivity. }
    eexists. split.
    + unfold er_spec. rewrite Epath. cbn [hd]. xfin. rewrite Rplus_0_l. reflexivity.
    + split; [|reflexivity]. unfold er_inv. cbn [er_period er_index er_count er_deque]. fold p.
      split; [unfold wf_er; cbn; fold dq' i'; repeat split; unfold p in *; try lia; intros; lia|].
      split; [exact Hrot'|]. rewrite app_length. cbn [length]. split; [unfold p in *; lia|]. intros; lia.
  - (* warming up: the path starts at slot 0 *)
    assert (Ec : er_period s <=? er_count s = false) by (apply N.leb_gt; rewrite Hcnt; unfold p in *; lia).
    rewrite Ec. rewrite uadd_ok by (unfold ALLOC_MAX, USIZE_MAX in *; lia). cbn [bind].
    rewrite (idx_ok _ 0 (Fin 0%R)) by (cbn; lia). cbn [bind N.to_nat].
    rewrite E2, E3. cbn [bind]. fold dq' i'.
    assert (Ei : er_index s = N.of_nat (length h)) by (apply Hidx; exact Hwarm).
    assert (Ecount' : er_count s + 1 = N.of_nat (length h + 1)) by (rewrite Hcnt; lia).
    rewrite Ecount'.
    (* the scanned slots, in order, are h ++ [x] *)
    assert (Escan : exists s1 s2, slice dq' i' (N.of_nat (length h + 1)) = Ok s1 /\ slice dq' 0 i' = Ok s2 /\ s1 ++ s2 = map Fin (h ++ [x])).
    { destruct (Nat.eq_dec (length h + 1) p) as [Eq|Neq].
      - (* this input fills the window: cursor wraps to 0 *)
        assert (Ei0 : i' = 0) by (unfold i'; rewrite Ei; destruct (N.ltb_spec (N.of_nat (length h) + 1) (er_period s)); unfold p in *; lia).
        rewrite Ei0 in *. rewrite slice_ok by (unfold p in *; lia). rewrite slice_ok by lia.
        do 2 eexists. split; [reflexivity|]. split; [reflexivity|]. cbn [N.to_nat skipn firstn Nat.sub]. rewrite app_nil_r.
        rewrite Nat.sub_0_r. replace (N.to_nat (N.of_nat (length h + 1))) with (length dq') by (rewrite E4; unfold p in *; lia).
        rewrite firstn_all. rewrite rot_0 in Hrot'. rewrite Hrot'.
        rewrite lastn_padded_full by (rewrite app_length; cbn; lia). rewrite lastn_all by (rewrite app_length; cbn; lia). reflexivity.
      - assert (Ei1 : i' = N.of_nat (length h + 1)) by (unfold i'; rewrite Ei; destruct (N.ltb_spec (N.of_nat (length h) + 1) (er_period s)); unfold p in *; lia).
        rewrite Ei1 in *. rewrite slice_ok by (unfold p in *; lia). rewrite slice_ok by (unfold p in *; lia).
        do 2 eexists. split; [reflexivity|]. split; [reflexivity|]. rewrite Nat.sub_diag. cbn [firstn app N.to_nat skipn]. rewrite Nat.sub_0_r.
        rewrite lastn_padded_warm in Hrot' by (rewrite app_length; cbn; lia). rewrite map_app in Hrot'.
        rewrite Nnat.Nat2N.id in *.
        assert (Hle : (length h + 1 <= length dq')%nat) by (rewrite E4; fold p; lia).
        apply (firstn_of_rot_warm dq' _ _ _ Hle Hrot'). rewrite map_length, app_length. cbn. lia. }
    destruct Escan as (s1 & s2 & Es1 & Es2 & Eapp). rewrite Es1, Es2. cbn [bind]. rewrite er_loop_app, Eapp.
    change (zero O) with (Fin 0%R).
    destruct h as [|a h0].
    + (* very first input: slot 0 still holds the zero padding *)
      assert (E0 : nth 0 (er_deque s) (Fin 0%R) = Fin 0%R).
      { rewrite Ei in Hrot. cbn [length N.of_nat N.to_nat] in Hrot. rewrite rot_0 in Hrot. rewrite Hrot.
        rewrite lastn_padded_nil, map_repeat'. destruct p; [lia|reflexivity]. }
      rewrite E0. rewrite er_loop_fin. cbn [fst app map].
      eexists. split; [unfold er_spec, er_path; cbn [hd]; xfin; rewrite Rplus_0_l; reflexivity|].
      split; [|reflexivity]. unfold er_inv. cbn [er_period er_index er_count er_deque]. fold p.
      split; [unfold wf_er; cbn; fold dq' i'; repeat split; unfold p in *; try lia;
              intros Hlt; unfold i'; rewrite Ei; cbn [length N.of_nat] in *; destruct (N.ltb_spec (0 + 1) (er_period s)); lia|].
      split; [exact Hrot'|]. cbn [app length Nat.add]. split; [unfold p in *; lia|].
      intros Hlt. unfold i'. rewrite Ei. cbn [length N.of_nat]. destruct (N.ltb_spec (0 + 1) (er_period s)); unfold p in *; lia.
    + remember (a :: h0) as hh eqn:Ehh.
      assert (Hne : hh <> []) by (rewrite Ehh; discriminate).
      rewrite (nth0_first (er_deque s) p (N.to_nat (er_index s)) hh Hp H5 Hne ltac:(lia)
                 ltac:(intros _; rewrite Ei; lia) ltac:(intros; lia) Hrot).
      rewrite er_loop_fin. cbn [fst].
      assert (Epath : er_path p hh x = hh ++ [x]).
      { unfold er_path. rewrite Ehh at 1. apply lastn_all. rewrite app_length. cbn [length]. lia. }
      assert (Eh : hd 0%R (hh ++ [x]) = hd 0%R hh) by (rewrite Ehh; reflexivity).
      assert (Ep : plen (hd 0%R hh :: hh ++ [x]) = plen (hh ++ [x])).
      { rewrite Ehh. cbn [hd app plen]. replace (a - a)%R with 0%R by lra. rewrite Rabs_R0. lra. }
      eexists. split.
      * unfold er_spec. rewrite Epath, Eh. xfin. rewrite Rplus_0_l, Ep. reflexivity.
      * split; [|reflexivity]. unfold er_inv. cbn [er_period er_index er_count er_deque]. fold p.
        split; [unfold wf_er; cbn [er_period er_index er_count er_deque]; fold dq' i'; repeat split; unfold p in *; try lia;
                intros Hlt; unfold i'; rewrite Ei; destruct (N.ltb_spec (N.of_nat (length hh) + 1) (er_period s)); lia|].
        split; [exact Hrot'|]. rewrite app_length. cbn [length]. split; [unfold p in *; lia|].
        intros Hlt. unfold i'. rewrite Ei. destruct (N.ltb_spec (N.of_nat (length hh) + 1) (er_period s)); unfold p in *; lia.
Qed.

Fixpoint er_outs (s : @Er XR) (xs : list XR) : list XR :=
  match xs with
  | [] => []
  | x :: xs => match er_next O s x with Ok (s', o) => o :: er_outs s' xs | _ => [] end
  end.

Fixpoint er_spec_stream (p : nat) (h : list R) (xs : list R) : list XR :=
  match xs with [] => [] | x :: xs => er_spec p h x :: er_spec_stream p (h ++ [x]) xs end.

Lemma er_outs_spec : forall xs s h, er_inv s h ->
  er_outs s (map Fin xs) = er_spec_stream (N.to_nat (er_period s)) h xs.
Proof.
  induction xs as [|x xs IH]; intros s h Hinv; cbn [er_outs map er_spec_stream]; [reflexivity|].
  destruct (er_step s h x Hinv) as (s' & E & Hinv' & Hp). rewrite E. f_equal.
  rewrite (IH s' (h ++ [x]) Hinv'), Hp. reflexivity.
Qed.

Theorem er_refines : forall p s xs, er_new O p = Ok s ->
  er_outs s (map Fin xs) = er_spec_stream (N.to_nat p) [] xs.
Proof.
  intros p s xs H. pose proof (er_new_inv O p s H) as (_ & _ & _ & Pe).
  rewrite (er_outs_spec xs s [] (er_inv_new p s H)), Pe. reflexivity.
Qed.

(* triangle inequality along the path: the net move never exceeds the path length *)
Lemma plen_triangle : forall l d, l <> [] -> (Rabs (hd d l - last l d) <= plen l)%R.
Proof.
  induction l as [|a l IH]; intros d H; [congruence|].
  destruct l as [|b l].
  - cbn. replace (a - a)%R with 0%R by lra. rewrite Rabs_R0. lra.
  - change (last (a :: b :: l) d) with (last (b :: l) d). cbn [hd].
    change (plen (a :: b :: l)) with (Rabs (a - b) + plen (b :: l))%R.
    specialize (IH d ltac:(discriminate)). cbn [hd] in IH.
    replace (a - last (b :: l) d)%R with ((a - b) + (b - last (b :: l) d))%R by lra.
    eapply Rle_trans; [apply Rabs_triang|]. lra.
Qed.

Lemma plen_nonneg l : (0 <= plen l)%R.
Proof. induction l as [|a [|b l] IH]; cbn; try lra. pose proof (Rabs_pos (a - b)). cbn in IH. lra. Qed.

Lemma er_path_last p h x : last (er_path p h x) 0%R = x.
Proof.
  unfold er_path. destruct h as [|a h0]; [reflexivity|].
  unfold lastn. set (l := (a :: h0) ++ [x]).
  assert (G : forall k (l0 : list R) , (k <= length l0)%nat -> last (skipn k (l0 ++ [x])) 0%R = x).
  { intros k l0. revert k. induction l0 as [|c l0 IHl]; intros k Hk.
    - cbn in Hk. replace k with 0%nat by lia. reflexivity.
    - destruct k as [|k]; [cbn [skipn]; rewrite last_last; reflexivity|]. cbn [app skipn]. apply IHl. cbn in Hk; lia. }
  unfold l. apply G. rewrite app_length. cbn [length]. lia.
Qed.

(* whenever the path length (the reference denominator) is non-zero, the ratio is a finite value in [0,1] *)
Theorem er_range : forall p h x, plen (er_path p h x) <> 0%R ->
  exists r, er_spec p h x = Fin r /\ (0 <= r <= 1)%R.
Proof.
  intros p h x Hd. unfold er_spec. rewrite xr_div_fin by exact Hd. eexists. split; [reflexivity|].
  set (path := er_path p h x) in *.
  assert (Hne : path <> []) by (unfold path, er_path; destruct h; [discriminate|];
                                 intros E; apply (f_equal (@length R)) in E; rewrite lastn_length, app_length in E; cbn in E; lia).
  pose proof (plen_triangle path 0%R Hne) as T. unfold path in T at 2. rewrite (er_path_last p h x) in T. fold path in T.
  pose proof (plen_nonneg path) as Pn. assert (Pp : (0 < plen path)%R) by lra.
  split.
  - apply Rmult_le_pos; [apply Rabs_pos|left; apply Rinv_0_lt_compat; exact Pp].
  - apply Rmult_le_reg_r with (plen path); [exact Pp|]. unfold Rdiv. rewrite Rmult_assoc, Rinv_l by lra. lra.
Qed.

(* on a flat path the ratio is 0/0: NaN, for every period and every flat level (the exact counterpart of finding K3) *)
Theorem er_flat_nan : forall p h x, (forall y, In y (er_path p h x) -> y = x) -> er_spec p h x = XNaN.
Proof.
  intros p h x Hf. unfold er_spec.
  set (path := er_path p h x) in *.
  assert (Hne : path <> []) by (unfold path, er_path; destruct h; [discriminate|];
                                 intros E; apply (f_equal (@length R)) in E; rewrite lastn_length, app_length in E; cbn in E; lia).
  assert (Ehd : hd 0%R path = x) by (destruct path as [|a r]; [congruence|]; apply Hf; left; reflexivity).
  assert (Epl : plen path = 0%R).
  { clear Hne Ehd. induction path as [|a [|b r] IH]; try reflexivity.
    change (plen (a :: b :: r)) with (Rabs (a - b) + plen (b :: r))%R.
    rewrite IH by (intros y Hy; apply Hf; right; exact Hy).
    rewrite (Hf a (or_introl eq_refl)), (Hf b (or_intror (or_introl eq_refl))).
    replace (x - x)%R with 0%R by lra. rewrite Rabs_R0. lra. }
  rewrite Ehd, Epl. replace (x - x)%R with 0%R by lra. rewrite Rabs_R0.
  cbn. unfold xr_div. destruct (Req_EM_T 0 0); [|congruence]. unfold rsgn.
  destruct (Rlt_dec 0 0); [lra|]. reflexivity.
Qed.
