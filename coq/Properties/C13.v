(* C13 — Incremental accumulators do not drift from recomputation over long streams. Statements only.
   In exact arithmetic there is no drift at all, for streams of ANY length: the refinement theorems of C01 carry no
   bound on the number of inputs, so after 2*10^6 (or any number of) inputs without reset the running state still
   equals the from-scratch statistic of the current window. Minimum/Maximum stay exact under any total order.
   The floating-point part (within tau(t)) is validated by the twin-generator long-stream correspondence. *)
From Coq Require Import Reals.
From TA Require Import Base Model XR Proofs.Ring Proofs.XBase Proofs.XSma Proofs.XWma Proofs.XMad Proofs.XSd Proofs.WF Proofs.MinMaxProofs.
Open Scope N_scope.

(* after ANY history h (no bound on its length) the accumulators equal the recomputed window statistics *)
Theorem C13_sma_no_drift : forall (s : @Sma XR) (h : list R) (x : R), sma_inv s h ->
  exists s', sma_next XROps s (Fin x) = Ok (s', Fin (mean (lastn (N.to_nat (sma_period s)) (h ++ [x])))) /\ sma_inv s' (h ++ [x]).
Proof. intros s h x H. destruct (sma_step s h x H) as (s' & A & B & _). eauto. Qed.

Theorem C13_wma_no_drift : forall (s : @Wma XR) (h : list R) (x : R), wma_inv s h ->
  exists s', wma_next XROps s (Fin x) = Ok (s', Fin (wmean (lastn (N.to_nat (wma_period s)) (h ++ [x])))) /\ wma_inv s' (h ++ [x]).
Proof. intros s h x H. destruct (wma_step s h x H) as (s' & A & B & _). eauto. Qed.

Theorem C13_mad_no_drift : forall (s : @Mad XR) (h : list R) (x : R), mad_inv s h ->
  exists s', mad_next XROps s (Fin x) = Ok (s', Fin (madev (lastn (N.to_nat (mad_period s)) (h ++ [x])))) /\ mad_inv s' (h ++ [x]).
Proof. intros s h x H. destruct (mad_step s h x H) as (s' & A & B & _). eauto. Qed.

(* variance: equals the population variance of the window, is never negative, and its square root is defined *)
Theorem C13_sd_no_drift : forall (s : @Sd XR) (h : list R) (x : R), sd_inv s h ->
  let w' := lastn (N.to_nat (sd_period s)) (h ++ [x]) in
  exists s', sd_next XROps s (Fin x) = Ok (s', Fin (R_sqrt.sqrt (pvar w'))) /\ sd_inv s' (h ++ [x]) /\ (0 <= pvar w')%R.
Proof. intros s h x H w'. destruct (sd_step s h x H) as (s' & A & B & _). exists s'. split; [exact A|]. split; [exact B|apply pvar_nonneg]. Qed.

(* the invariants hold initially *)
Theorem C13_invariants_init : forall p,
  (forall s, sma_new XROps p = Ok s -> sma_inv s []) /\ (forall s, wma_new XROps p = Ok s -> wma_inv s []) /\
  (forall s, mad_new XROps p = Ok s -> mad_inv s []) /\ (forall s, sd_new XROps p = Ok s -> sd_inv s []).
Proof.
  intros p. split; [|split; [|split]]; intros s0 H0.
  - exact (sma_inv_new p s0 H0). - exact (wma_inv_new p s0 H0). - exact (mad_inv_new p s0 H0). - exact (sd_inv_new p s0 H0).
Qed.

(* Minimum stays exact forever: after any number of inputs the output is a least element of the current window *)
Theorem C13_min_exact : forall (F : Type) (O : Ops F) (P : F -> Prop) (p mi ci : N) (xs : list F),
  order_on (ltb O) (inf O) P -> 0 < p -> p <= ALLOC_MAX -> mi < p -> ci < p -> Forall P xs ->
  forall k, (k < length xs)%nat ->
    least_in O (lastn (N.to_nat p) (firstn (S k) xs)) (nth k (min_outs O (mkMin p mi ci (repeat (inf O) (N.to_nat p))) xs) (inf O)).
Proof. intros F O P p mi ci xs OR H1 H2 H3 H4 HP. exact (proj2 (min_least O P OR p mi ci xs H1 H2 H3 H4 HP)). Qed.

(* binary64 SimpleMovingAverage does not drift: the forward-error theorem of C01 holds for streams of up to 2^49 inputs *)
From Coq Require Import List Floats.
From Flocq Require Import Core.
From TA Require Import FloatInst Proofs.Wiring Proofs.FloatErr Proofs.FloatSma.
Theorem C13_sma_binary64_no_drift : forall p s xs M, sma_new FOps p = Ok s -> (p < 9007199254740992)%N ->
  (bpow radix2 (-960) <= M)%R -> Forall (okin M) xs -> (3 * ((INR (N.to_nat p) + 2) * M + 1) <= BIG)%R ->
  (INR (length xs) * u <= / 16)%R ->
  Forall2 (fun o hh => finF o /\
             (Rabs (FR o - mean (map FR (lastn (N.to_nat p) hh))) <=
              (1 / 10 ^ 12 + 1 / 10 ^ 15 * (INR (length hh) * R_sqrt.sqrt (INR (length hh)))) * M)%R)
          (sma_outs' FOps s xs) (prefixes_from [] xs).
Proof. exact sma_float_within_tau. Qed.

(* ... and neither does MeanAbsoluteDeviation (up to 2^47 inputs): same statement as C01_mad_binary64_within_tau *)
From TA Require Import Proofs.XMad Proofs.FloatMadErr.
Theorem C13_mad_binary64_no_drift : forall p s xs M, mad_new FOps p = Ok s -> (p <= 140737488355328)%N ->
  (1 <= M)%R -> (M <= bpow radix2 400)%R -> Forall (okin M) xs -> (INR (length xs) * u <= / 64)%R ->
  Forall2 (fun o hh => let t := INR (length hh) in finF o /\ (0 <= FR o)%R /\
            (Rabs (FR o - madev (map FR (lastn (N.to_nat p) hh))) <= (1 / 10 ^ 12 + 1 / 10 ^ 15 * (t * R_sqrt.sqrt t)) * M)%R)
          (Wiring.mad_outs FOps s xs) (prefixes_from [] xs).
Proof. exact mad_float_within_tau. Qed.
(* ... nor the running mean of StandardDeviation, which is BollingerBands.average (up to 2^40 - 2 inputs) *)
From TA Require Import Proofs.Ring Proofs.FloatSdMean Proofs.FloatAtr.
Theorem C13_bb_average_binary64_no_drift : forall p s xs M, sd_new FOps p = Ok s -> (p < 9007199254740992)%N ->
  (1 <= M)%R -> (M <= bpow radix2 400)%R -> Forall (okin M) xs -> (INR (length xs) + 2 <= bpow radix2 40)%R ->
  Forall2 (fun md hh => finF (fst md) /\
            (Rabs (FR (fst md) - mean (map FR (lastn (N.to_nat p) hh))) <= 14 * INR (length hh) * u * M)%R)
          (Wiring.sd_mean_outs FOps s xs) (prefixes_from [] xs).
Proof. exact sd_mean_float_error. Qed.

(* Known finding K7 (b): REFUTED for WeightedMovingAverage on an ordinary long stream — the saw-tooth of the twin generators in the band
   [1e6, 1e9]: the model's WMA(2) leaves tau(t) * maxmag of the exact weighted mean of its window at checkpoint 27 (t = 94 500), while
   SMA(2) on the same stream stays inside at all 40 checkpoints. vm_compute over 140 000 model steps; the implementation's bit-exact
   agreement with the model on this stream is case k7b of the check. *)
From Coq Require Import Uint63.
From TA Require Import Generic Run Gen Proofs.K7b.
Theorem C13_K7_wma_sawtooth_refuted : model_t2_first_fail KWma (Pm 2 0 0 0) k7b_gen 3 1e9 = 27%N.
Proof. exact k7b_wma_leaves_tau. Qed.
Theorem C13_K7_sma_same_stream_within : model_t2_first_fail KSma (Pm 2 0 0 0) k7b_gen 3 1e9 = 0%N.
Proof. exact k7b_sma_within_tau. Qed.
Theorem C13_K7_stream_def : k7b_gen = mkGen 5%uint63 12345%uint63 140000%N 1e6%float 1e9%float 3500%N 0%uint63.
Proof. reflexivity. Qed.
From Coq Require Import List Floats.
From TA Require Import Generic FloatInst XQ Run2 Par.Hom Par.Var Par.Oracle.
(* the T2 oracle (exact rational run, evaluated by the checks) is the image of the exact real run these
   theorems are about; SD/BB through the variance model (sqrt := identity, Par/Var.v) *)
Theorem C13_t2_oracle_variance : forall fops : list (@op float),
  snd (run XRvOps [] (map (map_op f2xr) fops)) = map (map_obs q2x) (snd (run XQOps [] (map qop fops))).
Proof. exact t2_oracle_variance. Qed.
Theorem C13_t2_oracle : forall fops : list (@op float), forallb no_sqrt_kind fops = true ->
  snd (run XROps [] (map (map_op f2xr) fops)) = map (map_obs q2x) (snd (run XQOps [] (map qop fops))).
Proof. exact t2_oracle. Qed.
