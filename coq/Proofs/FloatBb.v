(* BollingerBands on binary64: lower <= average <= upper holds exactly on the floats, with every band finite, for every period
   below 2^53, every finite non-negative multiplier up to 2^400 and every stream of at most 2^40 - 2 finite inputs of magnitude
   at most M <= 2^400.  Reason: the deviation is a finite non-negative float (FloatSd), its product with the multiplier is the
   rounding of a non-negative real (so non-negative), and rounding to nearest is monotone and fixes the representable average. *)
From Coq Require Import Reals Lra Lia ZArith List Floats.
From Flocq Require Import Core BinarySingleNaN PrimFloat.
From TA Require Import Base Model FloatInst Proofs.Prims Proofs.WF Proofs.FloatErr Proofs.FloatSma Proofs.FloatEma Proofs.FloatSd Proofs.FloatFast Proofs.FloatMad Proofs.Wiring.
Import ListNotations.
Open Scope R_scope.
Local Notation O := FOps.
Local Notation float := PrimFloat.float.
Local Notation fexp := (SpecFloat.fexp prec emax).
Local Notation RN := (round radix2 fexp (round_mode mode_NE)).

Lemma RN_FR x : RN (FR x) = FR x.
Proof. apply round_generic; [apply valid_rnd_round_mode|apply FR_fmt]. Qed.

(* the square root of any finite non-negative binary64 number is at most 2^512 *)
Lemma fsqrt_le y : finF y -> 0 <= FR y -> FR (PrimFloat.sqrt y) <= bpow radix2 512.
Proof.
  intros Fy Hy. unfold finF, FR in *. rewrite sqrt_equiv.
  destruct (Bsqrt_correct prec emax Hprec Hmax mode_NE (Prim2B y)) as (E & _). rewrite E.
  apply RN_le_fmt; [apply generic_format_bpow; unfold SpecFloat.fexp, SpecFloat.emin; cbn; lia|].
  pose proof (abs_B2R_lt_emax prec emax (Prim2B y)) as Hlt. rewrite Rabs_pos_eq in Hlt by exact Hy.
  replace (bpow radix2 512) with (R_sqrt.sqrt (bpow radix2 512 * bpow radix2 512)) by (apply sqrt_square, bpow_ge_0).
  apply sqrt_le_1_alt. rewrite <- bpow_plus. change (512 + 512)%Z with emax. lra.
Qed.

Lemma fsqrt_fin_inv y : finF (PrimFloat.sqrt y) -> finF y /\ 0 <= FR y.
Proof.
  unfold finF, FR. rewrite sqrt_equiv.
  destruct (Bsqrt_correct prec emax Hprec Hmax mode_NE (Prim2B y)) as (_ & Fin & _). rewrite Fin.
  destruct (Prim2B y) as [sg|sg| |sg m e Hb]; try discriminate; intros H.
  - split; [reflexivity|cbn; lra].
  - destruct sg; [discriminate|]. split; [reflexivity|]. cbn. apply F2R_ge_0. cbn. lia.
Qed.

Lemma sd_next_out s x s' o : sd_next O s x = Ok (s', o) -> o = PrimFloat.sqrt (sd_m2 s' / f_ofN (sd_count s'))%float.
Proof.
  unfold sd_next. intros H.
  destruct (idx (sd_deque s) (sd_index s)) as [old| |]; cbn [bind] in H; try discriminate.
  destruct (upd (sd_deque s) (sd_index s) x) as [dq| |]; cbn [bind] in H; try discriminate.
  destruct (advance (sd_period s) (sd_index s)) as [ix| |]; cbn [bind] in H; try discriminate.
  destruct (sd_count s <? sd_period s)%N.
  - destruct (uadd (sd_count s) 1) as [c| |]; cbn [bind] in H; try discriminate. injection H as <- <-. reflexivity.
  - cbn [bind] in H. injection H as <- <-. reflexivity.
Qed.

Definition bb_ok (o : list float) : Prop :=
  exists a up lo, o = [a; up; lo] /\ finF a /\ finF up /\ finF lo /\ FR lo <= FR a <= FR up.

Lemma bands_ok (a d mu : float) : finF a -> finF d -> finF mu -> Rabs (FR a) <= bpow radix2 450 ->
  0 <= FR d <= bpow radix2 512 -> 0 <= FR mu <= bpow radix2 400 ->
  bb_ok [a; (a + d * mu)%float; (a - d * mu)%float].
Proof.
  intros Fa Fd Fmu Ha [Hd0 Hd] [Hm0 Hm].
  assert (Hp : 0 <= FR d * FR mu <= bpow radix2 912).
  { split; [apply Rmult_le_pos; assumption|]. change 912%Z with (512 + 400)%Z. rewrite bpow_plus. apply Rmult_le_compat; assumption. }
  assert (H912 : bpow radix2 912 <= bpow radix2 913) by (apply bpow_le; lia).
  assert (H450 : bpow radix2 450 <= bpow radix2 913) by (apply bpow_le; lia).
  assert (H914 : 2 * bpow radix2 913 <= BIG).
  { unfold BIG. change 2 with (bpow radix2 1) at 1. rewrite <- bpow_plus. apply bpow_le. lia. }
  destruct (fmul_exact d mu Fd Fmu) as [Ft Et]; [rewrite Rabs_pos_eq by apply Hp; lra|].
  assert (Ht0 : 0 <= FR (d * mu)%float) by (rewrite Et; apply RN_nonneg, Hp).
  assert (Ht1 : FR (d * mu)%float <= bpow radix2 913).
  { rewrite Et. apply RN_le_fmt; [apply generic_format_bpow; unfold SpecFloat.fexp, SpecFloat.emin; cbn; lia|lra]. }
  assert (Hs : Rabs (FR a + FR (d * mu)%float) <= BIG).
  { eapply Rle_trans; [apply Rabs_triang|]. rewrite (Rabs_pos_eq (FR (d * mu)%float)) by exact Ht0. lra. }
  assert (Hs' : Rabs (FR a - FR (d * mu)%float) <= BIG).
  { eapply Rle_trans; [apply Rabs_triang|]. rewrite Rabs_Ropp, (Rabs_pos_eq (FR (d * mu)%float)) by exact Ht0. lra. }
  destruct (fadd_exact a (d * mu)%float Fa Ft Hs) as [Fu Eu]. destruct (fsub_exact a (d * mu)%float Fa Ft Hs') as [Fl El].
  exists a, (a + d * mu)%float, (a - d * mu)%float. split; [reflexivity|]. repeat split; try assumption.
  - rewrite El, <- (RN_FR a) at 1. rewrite (RN_FR a) at 1. rewrite <- (RN_FR a) at 2. apply RN_le. lra.
  - rewrite Eu, <- (RN_FR a) at 1. apply RN_le. lra.
Qed.

Lemma fsd_mean_run M : 1 <= M -> M <= bpow radix2 400 ->
  forall xs (s : @Sd float) t, (sd_period s < 9007199254740992)%N -> fsd_inv M s t -> Forall (okin M) xs ->
  INR (t + length xs) + 2 <= bpow radix2 40 ->
  Forall (fun md => finF (fst md) /\ Rabs (FR (fst md)) <= bpow radix2 450 /\ finF (snd md) /\ 0 <= FR (snd md) <= bpow radix2 512)
         (sd_mean_outs O s xs).
Proof.
  intros HM1 HM2. induction xs as [|x xs IH]; intros s t Hp Hinv Hxs Ht; [constructor|].
  pose proof (Forall_inv Hxs) as Hx. pose proof (Forall_inv_tail Hxs) as Hxs'.
  assert (Ht1 : INR t + 2 <= bpow radix2 40).
  { eapply Rle_trans; [|exact Ht]. apply Rplus_le_compat_r. apply le_INR. lia. }
  destruct (fsd_step M s t x HM1 HM2 Ht1 Hp Hinv Hx) as (s' & o & E & Hinv' & Hp' & Fo & Ho).
  cbn [sd_mean_outs]. rewrite E. constructor.
  - cbn [fst snd]. destruct Hinv' as (Wf' & _ & Fm' & Hm' & Fm2' & Hm2'). unfold sd_mean.
    split; [exact Fm'|]. split.
    + eapply Rle_trans; [exact Hm'|]. rewrite S_INR.
      assert (3 * (INR t + 1 + 1) <= 3 * bpow radix2 40) by lra.
      assert (3 * bpow radix2 40 <= bpow radix2 50) by (change 50%Z with (10 + 40)%Z; rewrite bpow_plus; assert (0 < bpow radix2 40) by apply bpow_gt_0; cbn [bpow radix2 Z.pow_pos Pos.iter radix_val Z.mul Pos.mul]; cbn; lra).
      change 450%Z with (50 + 400)%Z. rewrite bpow_plus. apply Rmult_le_compat; try lra. pose proof (pos_INR t). lra.
    + split; [exact Fo|]. split; [exact Ho|].
      rewrite (sd_next_out _ _ _ _ E) in Fo |- *. destruct (fsqrt_fin_inv _ Fo) as [Fy Hy]. apply fsqrt_le; assumption.
  - apply (IH s' (S t)); [rewrite Hp'; exact Hp|exact Hinv'|exact Hxs'|].
    replace (S t + length xs)%nat with (t + length (x :: xs))%nat by (cbn [length]; lia). exact Ht.
Qed.

Theorem bb_float_ordered : forall p mu b xs M, bb_new O p mu = Ok b -> (p < 9007199254740992)%N ->
  finF mu -> 0 <= FR mu <= bpow radix2 400 ->
  1 <= M -> M <= bpow radix2 400 -> Forall (okin M) xs -> INR (length xs) + 2 <= bpow radix2 40 ->
  Forall bb_ok (bb_outs O b xs).
Proof.
  intros p mu b xs M H Hp Fmu Hmu HM1 HM2 Hxs Ht. unfold bb_new in H.
  destruct (sd_new O p) as [sd| |] eqn:Esd; cbn [bind] in H; try discriminate. injection H as <-.
  rewrite bb_wiring. pose proof (sd_new_inv O p sd Esd) as (_ & _ & _ & Pe).
  pose proof (fsd_mean_run M HM1 HM2 xs sd 0%nat ltac:(rewrite Pe; exact Hp) (fsd_inv_new M p sd HM1 Esd) Hxs Ht) as HF.
  induction HF as [|[mean dev] l (Fa & Ha & Fd & Hd) _ IH]; [constructor|]. cbn [map]. constructor; [|exact IH].
  cbn [fst snd] in *. cbn [add sub mul O]. apply bands_ok; assumption.
Qed.
