(* C12 — next() is total: no panic or out-of-bounds for any input and valid configuration.
   Statements only; proofs in Proofs/{WF,GenericProofs,RunProofs}.v.  [F] is an arbitrary
   number type with arbitrary operations: NaN, infinities, -0.0, subnormals, f64::MAX and
   inconsistent bars are particular values of it, so nothing is assumed about them. *)
From TA Require Import Base Model Generic Proofs.GenericProofs Proofs.RunProofs.

(* every constructor result is well-formed (cursors inside the window, counters bounded,
   buffer length = period <= allocation limit) *)
Theorem C12_new_WF : forall (F : Type) (O : Ops F) k p s, new O k p = Ok s -> WF O s.
Proof. intros F O k p s H. exact (proj1 (new_WF O k p s H)). Qed.

(* from a well-formed state, Next<f64> returns normally (checked usize arithmetic, checked
   indexing and slicing in the model) and the new state is well-formed *)
Theorem C12_next_total : forall (F : Type) (O : Ops F) (s : @St F) (x : F),
  WF O s -> has_scalar (kind_of s) = true ->
  exists s' o, next O s x = Some (Ok (s', o)) /\ WF O s'.
Proof. intros F O s x W H. destruct (next_total O s x W H) as (s' & o & A & B & _). eauto. Qed.

Theorem C12_next_bar_total : forall (F : Type) (O : Ops F) (s : @St F) (b : Bar F),
  WF O s -> exists s' o, next_bar O s b = Ok (s', o) /\ WF O s'.
Proof. intros F O s b W. destruct (next_bar_total O s b W) as (s' & o & A & B & _). eauto. Qed.

Theorem C12_reset_total : forall (F : Type) (O : Ops F) (s : @St F),
  WF O s -> exists s', reset O s = Ok s' /\ WF O s'.
Proof. intros F O s W. destruct (reset_total O s W) as (s' & A & B & _). eauto. Qed.

(* any sequence of constructor / next / next_bar / DataItem / reset / clone / serde / Display-probe /
   drop / builder operations on any number of instances, of any length: no observation is a panic *)
Theorem C12_run_no_panic : forall (F : Type) (O : Ops F) (ops : list (@op F)),
  Forall (op_ok (F := F)) ops -> ~ In BPanic (snd (run O [] ops)).
Proof. intros F O ops H. exact (proj2 (run_no_panic O ops [] (store_WF_nil O) H)). Qed.

(* non-vacuity: a reachable wrapped window state satisfies WF and steps *)
From TA Require Import FloatInst.
From Coq Require Import Floats.
Example C12_example : exists s, fst (run FOps [] [ONew 0 KEr (mkParams 2 0 0 0%float);
     ONext 0 1%float; ONext 0 nan; ONext 0 infinity; OReset 0; ONext 0 (-0)%float]) = [Some s] /\ WF FOps s.
Proof. eexists. split. vm_compute. reflexivity. cbn. unfold Proofs.WF.wf_er. cbn. repeat split; try reflexivity; discriminate. Qed.
