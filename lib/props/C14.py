# C14 — Outputs are covariant with the price unit: rescaling/shifting act as in the math
from props.util import *

rule = ("for every indicator except RSI: a base stream of positive prices / valid bars (walk, ties, periodic, grid, gaps; periods 1..5 and "
        "sampled larger) in slot 0 and the same stream with every price multiplied by c in slot 1: c = 2^k for k in {-40,-1,1,40} (quick) / all "
        "k in -40..40 (thorough; 2^-70, 2^-40 and 2^40 always) compared within 1e-12 relative (bit-for-bit expected), c in {3, 0.1, 1e-5, 12345.678} within 1e-9; multipliers {0.5, 2, 25}; price-valued "
        "outputs must scale by c, dimensionless ones stay; slot 2 gets the stream shifted by d (of the order of the level, and 2^20..2^30 levels; SD/BB variances under the 2^30 shift at 1e-12*t*level*shifted level): SMA/EMA/WMA/MIN/MAX and "
        "band levels shift by d, SD/MAD/TR/ATR/MACD/FAST stay (FAST within 100*16u*shifted level/window range when that is < 1, shift 2^30 levels always included); plus one long run per indicator (4300 steps for the running-sum ones, 1100 for the others) with c = 1/4 and d = 64; slot 3 runs Minimum on the negated stream against Maximum. Comparisons are made "
        "where the outputs are finite and well-conditioned. Non-trivial: distinct (case, factor) longer than the period")
assumptions = ["well-conditioning of ratio outputs is approximated by skipping steps whose outputs are non-finite or whose reference window is flat"]

PRICE = {"SMA", "EMA", "WMA", "MIN", "MAX", "SD", "MAD", "TR", "ATR", "MACD", "BB", "KC", "CE"}
DIMLESS = {"FAST", "SLOW", "ROC", "ER", "PPO", "CCI", "MFI", "OBV"}
SHIFT_LEVEL = {"SMA", "EMA", "WMA", "MIN", "MAX", "BB", "KC", "CE"}
SHIFT_INV = {"SD", "MAD", "TR", "ATR", "MACD", "FAST"}


def gen_cases(ctx):
    r = ctx.rng
    rot = Rot(r)
    cases = []
    ks = [-40, -1, 1, 40] if not ctx.thorough else list(range(-40, 41))
    for ind in ALL:
        if ind == "RSI":
            continue
        grid = params_grid(ind, [1, 2, 3, 5])
        grid = r.sample(grid, min(len(grid), 3 if not ctx.thorough else 8))
        for gi, pr in enumerate(grid):
            k_ = nper(ind)
            # multipliers: the usual 2, a small one, and one large enough for band / exit levels to cross zero
            pr = tuple(pr[i] if i < k_ else 0 for i in range(3)) + ([2.0, 25.0, 0.5][gi % 3] if ind in HAS_MULT else 0.0,)
            p = max(pr[:3] + (1,))
            n = 3 * p + 12
            bars = ind in NO_SCALAR or (ind in ("TR", "ATR", "KC", "FAST", "SLOW") and gi % 2 == 1)
            if bars:
                base = bar_stream(r, n, rot.pick((ind, "b"), ["walk", "segments", "gaps", "grid"]), p=p)
                mk = lambda s_, b, f, d: ("b", s_) + tuple(v * f + d for v in b[:4]) + (b[4],)
            else:
                base = scalar_stream(r, n, rot.pick((ind, "n"), ["walk", "ties", "periodic", "pgrid", "uniform", "segments"]), p=p, positive=True)
                mk = lambda s_, x, f, d: ("n", s_, x * f + d)
            # both extreme units always (absolute thresholds hide there), one mild power of two, one non-power of two
            factors = [2.0 ** k for k in ([-70, -40, 40, r.choice([-1, 1])] if not ctx.thorough else [-70, -40, 40, 70] + r.sample(ks, 10))] + [r.choice([3.0, 0.1, 1e-5, 12345.678])]
            for fi, f in enumerate(factors):
                # shifts: of the order of the price level, and (last factor) 2^20 or 2^30 times it, where a shift-invariant
                # statistic must still be unchanged within the rounding of its (now large) inputs
                d = (r.choice([1.0, 100.0, 0.5]) if fi < len(factors) - 1 else (2.0 ** 30 if ind in ("SD", "BB") or (ind in ("FAST", "SLOW") and gi != 1) else r.choice([2.0 ** 20, 2.0 ** 30]))) * (max(b if not bars else max(b[:4]) for b in base))
                ops = [new_op(s_, ind, pr) for s_ in range(3)]
                for v in base:
                    ops += [mk(0, v, 1.0, 0.0), mk(1, v, f, 0.0), mk(2, v, 1.0, d)]
                cases.append(Case("%s_g%d_f%d" % (ind, gi, fi), ops, dump=(), meta={"ind": ind, "params": pr, "factor": f, "shift": d, "n": n, "pow2": fi < len(factors) - 1}))
    # seed-independent long runs (4300 steps): the scaled (x 0.25) and the shifted (+ 64) copies next to the base stream — code that
    # only executes every 2^10 / 2^12 updates must be covariant too
    for ind in ALL:
        if ind == "RSI":
            continue
        pr = long_params(ind, 5)
        nlong = 4300 if ind in ("SMA", "WMA", "SD", "MAD", "BB", "CCI", "MFI", "OBV") else 1100    # running sums / the others
        fd = long_feed(ind, nlong)
        ops = [new_op(s_, ind, pr) for s_ in range(3)]
        for o in fd:
            if o[0] == "b":
                ops += [o, ("b", 1) + tuple(v * 0.25 for v in o[2:6]) + (o[6],), ("b", 2) + tuple(v + 64.0 for v in o[2:6]) + (o[6],)]
            else:
                ops += [o, ("n", 1, o[2] * 0.25), ("n", 2, o[2] + 64.0)]
        cases.append(Case("%s_long" % ind, ops, dump=(), meta={"ind": ind, "params": pr, "factor": 0.25, "shift": 64.0, "n": nlong, "pow2": True}))
    # FastStochastic / SlowStochastic at a tiny price level (1.5e-300) with moves of a few units in the last place: the window range is a
    # subnormal number, the ratio is still exact — against the copy scaled by 2^300 (seed-independent; a flatness test written as
    # `range < f64::MIN_POSITIVE` or with an absolute epsilon makes %K depend on the price unit)
    import math
    for ind in ("FAST", "SLOW"):
        for p in (2, 5):
            x = 1.5e-300
            xs = []
            for k_ in range(4 * p + 14):
                for _ in range((k_ * 7) % 3):
                    x = math.nextafter(x, math.inf if (k_ * 5) % 4 < 2 else 0.0)
                xs.append(x)
            pr = (p, 3 if ind == "SLOW" else 0, 0, 0.0)
            f = 2.0 ** 300
            ops = [new_op(s_, ind, pr) for s_ in range(3)]
            for x in xs:
                ops += [("n", 0, x), ("n", 1, x * f), ("n", 2, x)]
            cases.append(Case("%s_tinyulps_p%d" % (ind, p), ops, dump=(), meta={"ind": ind, "params": pr, "factor": f, "shift": 0.0, "n": len(xs), "pow2": True}))
    # Maximum(x) = -Minimum(-x)
    for p in [1, 2, 3, 5, 9]:
        for rep in range(3):
            xs = scalar_stream(r, 3 * p + 10, None, p=p)
            ops = [new_op(0, "MAX", (p, 0, 0, 0.0)), new_op(1, "MIN", (p, 0, 0, 0.0))]
            for x in xs:
                ops += [("n", 0, x), ("n", 1, -x)]
            cases.append(Case("NEG_p%d_%d" % (p, rep), ops, dump=(), meta={"ind": "NEG", "params": (p, 0, 0, 0.0), "factor": -1.0, "shift": 0.0, "n": len(xs), "pow2": True}))
    return cases


def nontrivial(c):
    return c.meta["n"] > max(c.meta["params"][:3])


def check_impl(ctx, cases):
    out = []
    ncmp = 0
    for c in cases:
        ind, f, d = c.meta["ind"], c.meta["factor"], c.meta["shift"]
        a, b = outs_of(c, 0), outs_of(c, 1)
        if ind == "NEG":
            for (i, oa), (j, ob) in zip(a, b):
                x, y = f_of(oa)[0], f_of(ob)[0]
                if not (x == -y or (x != x and y != y)):
                    out.append(Violation("Maximum(x) = %r but -Minimum(-x) = %r" % (x, -y), case=c))
                    break
            continue
        rel = 1e-12 if c.meta["pow2"] else 1e-9
        sh = outs_of(c, 2)
        base_bars = [c.ops[i] for i, _ in a]
        base_level = max([abs(v) for o in base_bars for v in (o[2:3] if o[0] == "n" else o[3:6])] + [1e-300])
        flowmax = 0.0
        for step, ((i, oa), (j, ob), (k, oc)) in enumerate(zip(a, b, sh)):
            va, vb, vc = f_of(oa), f_of(ob), f_of(oc)
            if ind == "MFI":
                # the property's conditioning rule for MFI (C07): claimed only when the largest single-bar flow is at most
                # 1000 x the window's total flow
                p_ = c.meta["params"][0]
                w = base_bars[max(0, step - p_):step + 1]
                tps = [(x_[5] + x_[3] + x_[4]) / 3.0 for x_ in w]
                flowmax = max(flowmax, abs(tps[-1] * w[-1][6]))
                tot = sum(abs(tps[q] * w[q][6]) for q in range(1, len(w)) if tps[q] != tps[q - 1])
                if tot == 0.0 or flowmax / tot > 1000:
                    continue
                # the direction of a flow is a discontinuous function of the prices where two consecutive typical prices
                # tie: rescaling by a non-power of two legitimately breaks the tie either way (ill-conditioned step)
                if not c.meta["pow2"] and any(abs(tps[q] - tps[q - 1]) <= 1e-12 * abs(tps[q]) and w[q][6] != 0.0 for q in range(1, len(w))):
                    continue
            if ind == "CCI":
                # the property's conditioning rule for CCI (C03): c = maxmag / (0.015 * MAD) <= 1e6; flat windows are C08's
                p_ = c.meta["params"][0]
                w = base_bars[max(0, step + 1 - p_):step + 1]
                tps = [(x_[5] + x_[3] + x_[4]) / 3.0 for x_ in w]
                mean_ = sum(tps) / len(tps)
                mad_ = sum(abs(t_ - mean_) for t_ in tps) / len(tps)
                mm_ = max(abs(t_) for t_ in tps)
                if mad_ <= 1e-9 * mm_:
                    continue
            if va is None or vb is None or any(x != x or abs(x) == float("inf") for x in va + vb):
                continue
            ncmp += 1
            exp = [x * f for x in va] if ind in PRICE else va
            if ind == "OBV":
                exp = va
            scale = max([abs(x) for x in exp] + [1e-300])
            if ind in ("MACD", "ROC", "PPO", "CCI", "ER", "MFI", "SLOW", "FAST", "KC", "CE", "BB", "ATR", "TR", "SD", "MAD"):
                # differences of nearly equal quantities: compare relative to the price level of the outputs' inputs
                lvl = max(abs(v) for o in c.ops[3:] if o[1] == 1 for v in (o[2:3] if o[0] == "n" else o[3:6]))
                ref = lvl if ind in PRICE else max(scale, 1.0)
                if ind in DIMLESS and ind not in ("OBV",):
                    # well-conditioned only: skip near-degenerate ratios
                    if any(abs(x) > 1e6 for x in va):
                        continue
                    # ROC and PPO are well-conditioned in their inputs; the window ratios get three more digits
                    ref = max(scale, 100.0 if ind != "ER" else 1.0) * (1.0 if ind in ("ROC", "PPO") else 1e3)
            elif ind in ("SMA", "WMA", "EMA"):
                # running sums / recursions keep the rounding residue of everything they have seen: after a 10^6 x spike the
                # output is well-conditioned only relative to the largest magnitude seen so far, not to its own current value
                seen = max(abs(v) for o in base_bars[:step + 1] for v in (o[2:3] if o[0] == "n" else o[3:6]))
                ref = max(scale, seen * abs(f))
            else:
                ref = scale
            def differs(got, want, level, r_, sharp=False):
                """SD and band half-widths are compared on variances (sqrt amplifies rounding near flat windows).
                sharp (shift comparison): the rounding a shift legitimately causes in a variance is that of inputs of
                magnitude `level` perturbed by their own rounding: 2*sd*(u*level) + (u*level)^2, not (u*level^2)"""
                if ind == "SD":
                    if sharp:
                        return abs(got[0] ** 2 - want[0] ** 2) > 2.0 * r_ * level * abs(want[0]) + (r_ * level) ** 2
                    return abs(got[0] ** 2 - want[0] ** 2) > r_ * level * level
                if ind in ("BB",):
                    if sharp:
                        return (abs(got[0] - want[0]) > r_ * level or
                                any(abs((got[q] - got[0]) ** 2 - (want[q] - want[0]) ** 2) >
                                    2.0 * r_ * level * abs(want[q] - want[0]) * max(1.0, abs(c.meta["params"][3])) + (r_ * level * max(1.0, abs(c.meta["params"][3]))) ** 2 for q in (1, 2)))
                    return (abs(got[0] - want[0]) > r_ * level or
                            any(abs((got[q] - got[0]) ** 2 - (want[q] - want[0]) ** 2) > r_ * level * level * 4.0 for q in (1, 2)))
                return any(abs(x - y) > r_ * level for x, y in zip(got, want))
            if differs(vb, exp, ref, rel):
                out.append(Violation("%s%s: multiplying every price by %r gives %s at step %d; covariance requires %s" % (ind, c.meta["params"][:3], f, vb, step + 1, exp), case=c))
                break
            # shift
            if vc is not None and not any(x != x or abs(x) == float("inf") for x in vc):
                lvl2 = max(abs(v) for o in c.ops[3:] if o[1] == 2 for v in (o[2:3] if o[0] == "n" else o[3:6]))
                if ind in SHIFT_LEVEL:
                    expc = [x + d for x in va]
                elif ind in SHIFT_INV:
                    expc = va
                else:
                    expc = None
                if ind == "FAST":
                    # FastStochastic under a shift: (x - lo) / (hi - lo) of the shifted prices; the shifted prices carry a rounding of
                    # u * L' each, so the output is determined within 100 * (a few u * L') / (hi - lo): compared at that tolerance
                    # whenever it is below 1 (well-conditioned); flat windows are C08's
                    p_ = c.meta["params"][0]
                    w = base_bars[max(0, step + 1 - p_):step + 1]
                    hi_ = max(o_[2] if o_[0] == "n" else o_[3] for o_ in w)
                    lo_ = min(o_[2] if o_[0] == "n" else o_[4] for o_ in w)
                    expc = None
                    if hi_ > lo_:
                        tolf = 1e-9 + 100.0 * 16.0 * 2.3e-16 * lvl2 / (hi_ - lo_)
                        if tolf < 1.0 and abs(vc[0] - va[0]) > tolf:
                            out.append(Violation("FAST%s: adding %r to every price gives %s at step %d; expected %s within %.3g (window range %r at level %r)"
                                                 % (c.meta["params"][:1], d, vc, step + 1, va, tolf, hi_ - lo_, lvl2), case=c))
                            break
                # a constant shift of 2^30 price levels: every move of the shifted stream is still of the order of the ORIGINAL level l0,
                # so an update that works on differences (Welford) errs by about u * l0 * L' per step in the variance, while one that
                # squares the inputs errs by u * L'^2 — 2^30 times more. There the variances are compared at 1e-12 * t * l0 * L'
                big_shift = ind in ("SD", "BB") and d >= 2.0 ** 29 * base_level
                if expc is not None and big_shift:
                    tolv = 1e-12 * (step + 1) * base_level * lvl2 * max(1.0, c.meta["params"][3] ** 2 if ind == "BB" else 1.0)
                    if ind == "SD":
                        bad_ = abs(vc[0] ** 2 - expc[0] ** 2) > tolv
                    else:
                        bad_ = any(abs((vc[q] - vc[0]) ** 2 - (expc[q] - expc[0]) ** 2) > tolv for q in (1, 2))
                    if bad_:
                        out.append(Violation("%s%s: adding %r (2^30 price levels) to every price gives %s at step %d; expected %s (variances compared at 1e-12*t*level*shifted level)"
                                             % (ind, c.meta["params"][:3], d, vc, step + 1, expc), case=c))
                        break
                if expc is not None and differs(vc, expc, max(lvl2, 1.0) * (1e3 if ind == "FAST" else 1.0), 1e-9):
                    out.append(Violation("%s%s: adding %r to every price gives %s at step %d; expected %s" % (ind, c.meta["params"][:3], d, vc, step + 1, expc), case=c))
                    break
        if len(out) > 10:
            break
    ctx.stats["covariance_comparisons"] = ncmp
    return out
