(* C10 — Feeding a bar equals feeding its documented price field; other fields ignored. Statements only. *)
From TA Require Import Base Model Generic Proofs.BarProofs.

(* Next<&T> of the eleven close-only indicators is Next<f64> on close, Minimum on low, Maximum on high —
   as an equation of (new state, output), for every state, every bar and every number type (bit-exact) *)
Theorem C10_bar_is_field : forall (F : Type) (O : Ops F) (s : @St F) (b : Bar F) (f : Field),
  scalar_field (kind_of s) = Some f -> next O s (get_field f b) = Some (next_bar O s b).
Proof. exact (@bar_is_field). Qed.

(* two bars that agree on the fields an indicator is documented to read are indistinguishable to it *)
Theorem C10_bar_unread : forall (F : Type) (O : Ops F) (s : @St F) (b b' : Bar F),
  agree (kind_of s) b b' -> next_bar O s b = next_bar O s b'.
Proof. exact (@bar_unread). Qed.

Theorem C10_open_never_read : forall (F : Type) (O : Ops F) (s : @St F) (o o' h l c v : F),
  next_bar O s (mkBar o h l c v) = next_bar O s (mkBar o' h l c v).
Proof. exact (@open_never_read). Qed.

(* DataItem (built through its builder) behaves exactly like any other implementor carrying the same numbers *)
Theorem C10_item_is_bar : forall (F : Type) (O : Ops F) (st : @store F) (slot : nat) (b : Bar F),
  six_checks O (b_open b) (b_high b) (b_low b) (b_close b) (b_volume b) = true ->
  step O st (OItem slot b) = step O st (OBar slot b).
Proof. exact (@item_is_bar). Qed.

(* the documented read-sets, pinned literally: (open, high, low, close, volume) *)
Theorem C10_read_sets :
  map reads_of all_kinds =
  [(false,false,false,true,false); (false,false,false,true,false); (false,false,false,true,false); (false,false,false,true,false);
   (false,false,false,true,false); (false,false,true,false,false); (false,true,false,false,false); (false,false,false,true,false);
   (false,true,true,true,false); (false,true,true,true,false); (false,false,false,true,false); (false,true,true,true,false);
   (false,true,true,true,false); (false,false,false,true,false); (false,false,false,true,false); (false,false,false,true,false);
   (false,false,false,true,false); (false,true,true,true,false); (false,true,true,true,false); (false,true,true,true,false);
   (false,true,true,true,true); (false,false,false,true,true)].
Proof. reflexivity. Qed.

(* ---- one-price bars (open = high = low = close = x; here open and volume are even arbitrary) ---- *)
From Coq Require Import Reals.
From TA Require Import XR FloatInst Proofs.GenericProofs Proofs.Wiring Proofs.OnePrice.

(* FastStochastic and SlowStochastic: same step — state and output — as the scalar path, for every number type whose ==
   is symmetric; binary64's is, so this is bit-exact for every float input including NaN, infinities and signed zeros *)
Theorem C10_fast_one_price : forall (F : Type) (O : Ops F), (forall a b : F, eqb O a b = eqb O b a) ->
  forall (f : @Fast F) o v x, wf_fast f -> fast_next_bar O f (one_bar o v x) = fast_next O f x.
Proof. exact @fast_one_price. Qed.
Theorem C10_slow_one_price : forall (F : Type) (O : Ops F), (forall a b : F, eqb O a b = eqb O b a) ->
  forall (s : @Slow F) o v x, wf_slow O s -> slow_next_bar O s (one_bar o v x) = slow_next O s x.
Proof. exact @slow_one_price. Qed.
Theorem C10_fast_one_price_binary64 : forall (f : @Fast PrimFloat.float) o v x, wf_fast f ->
  fast_next_bar FOps f (one_bar o v x) = fast_next FOps f x.
Proof. exact fast_one_price_binary64. Qed.
Theorem C10_slow_one_price_binary64 : forall (s : @Slow PrimFloat.float) o v x, wf_slow FOps s ->
  slow_next_bar FOps s (one_bar o v x) = slow_next FOps s x.
Proof. exact slow_one_price_binary64. Qed.

(* TrueRange, ATR, KeltnerChannel: exact arithmetic, finite prices; KC's typical price (x+x+x)/3 is x *)
Theorem C10_tr_one_price : forall (t : @Tr XR) o v x, fin_tr t ->
  tr_next_bar XROps t (one_bar o v (Fin x)) = tr_next XROps t (Fin x).
Proof. exact tr_one_price. Qed.
Theorem C10_atr_one_price : forall (a : @Atr XR) o v x, fin_tr (atr_true_range a) ->
  atr_next_bar XROps a (one_bar o v (Fin x)) = atr_next XROps a (Fin x).
Proof. exact atr_one_price. Qed.
Theorem C10_kc_one_price : forall (k : @Kc XR) o v x, fin_tr (atr_true_range (kc_atr k)) ->
  kc_next_bar XROps k (one_bar o v (Fin x)) = kc_next XROps k (Fin x).
Proof. exact kc_one_price. Qed.
Theorem C10_atr_one_price_stream : forall p a xs o v, atr_new XROps p = Ok a ->
  atr_bar_outs XROps a (map (fun x => one_bar o v (Fin x)) xs) = atr_outs XROps a (map Fin xs).
Proof. exact atr_one_stream. Qed.

(* ... and bit-exactly on binary64 for every finite price (x - x = +0.0, |.| never -0.0, max(max(+0.0, a), a) = a) *)
From Coq Require Import Floats.
From TA Require Import Proofs.FloatErr Proofs.FloatOnePrice.
Theorem C10_tr_one_price_binary64 : forall (t : @Tr PrimFloat.float) o v x, fin_trF t -> finF x ->
  tr_next_bar FOps t (one_bar o v x) = tr_next FOps t x.
Proof. exact tr_one_price_binary64. Qed.
Theorem C10_atr_one_price_binary64 : forall (a : @Atr PrimFloat.float) o v x, fin_trF (atr_true_range a) -> finF x ->
  atr_next_bar FOps a (one_bar o v x) = atr_next FOps a x.
Proof. exact atr_one_price_binary64. Qed.
Theorem C10_atr_one_price_stream_binary64 : forall p a xs o v, atr_new FOps p = Ok a -> Forall finF xs ->
  atr_bar_outs FOps a (map (fun x => one_bar o v x) xs) = atr_outs FOps a xs.
Proof. exact atr_one_stream_binary64. Qed.

(* KeltnerChannel on binary64, one-price bars vs the scalar path, streams of ANY length: the ATR term is the same float bit for bit, the
   bands are formed from it by the same two operations, and the middle lines — float EMAs of (x + x + x) / 3 and of x — stay within
   17 (n+1) u M + 17 (n+1) u (2M) + 8 u M of each other ("within rounding of (x+x+x)/3"; u = 2^-53, M bounds the prices) *)
From Coq Require Import Reals.
From Flocq Require Import Core.
From TA Require Import Proofs.Wiring Proofs.FloatSma Proofs.FloatMacd Proofs.FloatKcOne.
Theorem C10_kc_one_price_binary64 : forall p mu k xs (o v : PrimFloat.float) M, kc_new FOps p mu = Ok k -> (p < 35184372088832)%N ->
  (1 <= M)%R -> (4 * M <= bpow radix2 900)%R -> Forall (okin M) xs ->
  let bar := kc_bar_outs FOps k (map (fun x => one_bar o v x) xs) in
  let sca := kc_outs FOps k xs in
  length bar = length xs /\ length sca = length xs /\
  forall j, (j < length xs)%nat -> exists ab a w,
    nth j bar [] = bands FOps mu ab w /\ nth j sca [] = bands FOps mu a w /\ finF ab /\ finF a /\
    (Rabs (FR ab - FR a) <= ebound p M + ebound p (2 * M) + 8 * u * M)%R.
Proof. exact kc_one_price_float. Qed.
Theorem C10_typical_one_price_binary64 : forall M (o v x : PrimFloat.float), (1 <= M)%R -> (4 * M <= bpow radix2 900)%R -> okin M x ->
  okin (2 * M) (typical FOps (one_bar o v x)) /\ (Rabs (FR (typical FOps (one_bar o v x)) - FR x) <= 8 * u * M)%R.
Proof. exact typical_one_close. Qed.
