(* C02 on binary64, scalar path, streams of ANY length: AverageTrueRange within a fixed multiple of (n+1) u M of the real EMA of the real
   true ranges (saturating EMA bound on the float true-range stream + rounding of TrueRange + the real EMA is 1-Lipschitz), and all three
   KeltnerChannel bands within Ea + K Et + 24 (1+K) u M of the real bands average +- ATR * m (|m| <= K). *)
From Coq Require Import Reals Lra Lia ZArith List Floats.
From Flocq Require Import Core.
From TA Require Import Base Model FloatInst Proofs.Prims Proofs.WF Proofs.XBase Proofs.Wiring Proofs.XEma Proofs.XCov
  Proofs.FloatErr Proofs.FloatSma Proofs.FloatEma Proofs.FloatSd Proofs.FloatFast Proofs.FloatMad Proofs.FloatAtr Proofs.FloatMacd Proofs.FloatKc.
Import ListNotations.
Open Scope R_scope.
Local Notation O := FOps.
Local Notation float := PrimFloat.float.

Definition atr_ebound (p : N) (M : R) : R := ebound p (3 * M) + 3 * u * M.

Theorem atr_float_uniform : forall p a xs M, atr_new O p = Ok a -> (p < 35184372088832)%N ->
  1 <= M -> 3 * M <= bpow radix2 990 -> Forall (okin M) xs ->
  let outs := atr_outs O a xs in
  let reals := ema_stream (kreal p) (tr_stream (map FR xs)) in
  length outs = length xs /\
  forall j, (j < length xs)%nat ->
    finF (nth j outs 0%float) /\ Rabs (FR (nth j outs 0%float) - nth j reals 0) <= atr_ebound p M /\
    Rabs (nth j reals 0) <= 4 * M.
Proof.
  intros p a xs M H Hp HM1 HM3 Hxs outs reals. pose proof u_pos as Hu0. pose proof u_le as Hu1.
  unfold atr_new in H. destruct (ema_new O p) as [e| |] eqn:Ee; cbn in H; try discriminate. injection H as <-.
  assert (Hp0 : p <> 0%N) by (unfold ema_new in Ee; destruct (N.eqb_spec p 0); [discriminate|assumption]).
  assert (Hal : 0 < kreal p <= 1) by (apply kreal_range; exact Hp0).
  unfold outs, reals. rewrite atr_wiring.
  destruct xs as [|x xs]; [split; [reflexivity|intros j Hj; cbn in Hj; lia]|].
  pose proof (Forall_inv Hxs) as Hx. pose proof (Forall_inv_tail Hxs) as Hxs'.
  assert (HM990 : M <= bpow radix2 990) by lra.
  destruct (ftr_running M HM1 HM990 xs x Hx Hxs') as (L1 & L2 & Hn).
  set (T := 0%float :: tr_outs O (mkTr (Some x)) xs).
  assert (ET : tr_outs O tr_new (x :: xs) = T) by reflexivity. rewrite ET.
  assert (LT : length T = length (x :: xs)) by (unfold T; cbn [length]; now rewrite L1).
  assert (HT : forall j, (j < length T)%nat -> finF (nth j T 0%float) /\ Rabs (FR (nth j T 0%float)) <= 3 * M /\
                  Rabs (FR (nth j T 0%float) - nth j (tr_stream (map FR (x :: xs))) 0) <= 3 * u * M).
  { intros [|j] Hj; unfold T; cbn [nth map tr_stream].
    - rewrite FR_zero, Rminus_diag_eq, Rabs_R0 by reflexivity. assert (0 <= u * M) by (apply Rmult_le_pos; lra).
      split; [exact finF_zero|]. split; lra.
    - apply Hn. unfold T in Hj. cbn [length] in Hj. lia. }
  assert (FT : Forall (okin (3 * M)) T) by (apply (Forall_of_nth _ T 0%float); intros j Hj; destruct (HT j Hj) as (A & B & _); split; assumption).
  assert (HM960 : bpow radix2 (-960) <= 3 * M) by (apply Rle_trans with 1; [change 1 with (bpow radix2 0); apply bpow_le; lia|lra]).
  destruct (ema_float_uniform p e T (3 * M) Ee ltac:(lia) HM960 HM3 FT) as [Lo Ho].
  cbv zeta in Lo, Ho. split; [rewrite Lo; exact LT|].
  intros j Hj. rewrite <- LT in Hj. destruct (Ho j Hj) as [Fo Eo]. split; [exact Fo|].
  assert (Hlip : Rabs (nth j (ema_stream (kreal p) (map FR T)) 0 - nth j (ema_stream (kreal p) (tr_stream (map FR (x :: xs)))) 0) <= 3 * u * M).
  { apply ema_stream_lip; [exact Hal|apply Rmult_le_pos; [lra|lra]| | |rewrite map_length; exact Hj].
    - rewrite map_length, LT. cbn [map tr_stream length]. rewrite L2. reflexivity.
    - intros i Hi. rewrite map_length in Hi. replace 0 with (FR 0%float) at 1 by apply FR_zero. rewrite map_nth. apply (HT i Hi). }
  assert (HrT : Rabs (nth j (ema_stream (kreal p) (map FR T)) 0) <= 3 * M).
  { apply ema_stream_abs; [exact Hal| |rewrite map_length; exact Hj]. intros i Hi. rewrite map_length in Hi.
    replace 0 with (FR 0%float) by apply FR_zero. rewrite map_nth. apply (HT i Hi). }
  fold (ebound p (3 * M)) in Eo. unfold atr_ebound.
  apply abs_bounds_R in Eo. apply abs_bounds_R in Hlip. apply abs_bounds_R in HrT.
  assert (3 * u * M <= M) by nra.
  split; apply Rabs_le; lra.
Qed.

(* one band: RN(avg +- RN(atr * mu)) against AV +- AT * m *)
Lemma band_err (sgn : bool) (avg atr mu : float) (AV AT M K Ea Et : R) :
  1 <= M -> 0 <= K -> (1 + K) * M <= bpow radix2 900 -> 0 <= Ea <= M -> 0 <= Et <= M ->
  finF avg -> finF atr -> finF mu -> Rabs (FR mu) <= K ->
  Rabs AV <= M -> Rabs AT <= 4 * M -> Rabs (FR avg - AV) <= Ea -> Rabs (FR atr - AT) <= Et ->
  let w := (atr * mu)%float in
  let b := if sgn then (avg + w)%float else (avg - w)%float in
  let Bd := if sgn then AV + AT * FR mu else AV - AT * FR mu in
  finF b /\ Rabs (FR b - Bd) <= Ea + K * Et + 24 * (1 + K) * u * M.
Proof.
  intros HM1 HK HKM [HEa0 HEa] [HEt0 HEt] Favg Fatr Fmu Hmu HAV HAT Havg Hatr w b Bd.
  pose proof u_pos as Hu0. pose proof u_le as Hu1. pose proof eta_pos as He0. pose proof eta_le_u as Heu. pose proof BIG_ge as HBg.
  assert (HB : 64 * ((1 + K) * M) <= BIG).
  { unfold BIG. apply Rle_trans with (bpow radix2 6 * bpow radix2 900); [change (bpow radix2 6) with 64; lra|]. rewrite <- bpow_plus. apply bpow_le. lia. }
  set (m := FR mu) in *. set (a := FR atr) in *. set (v := FR avg) in *.
  apply abs_bounds_R in Hmu. apply abs_bounds_R in HAV. apply abs_bounds_R in HAT. apply abs_bounds_R in Havg. apply abs_bounds_R in Hatr.
  assert (Ha : - (5 * M) <= a <= 5 * M) by lra.
  assert (Hv : - (2 * M) <= v <= 2 * M) by lra.
  assert (KM0 : 0 <= K * M) by (apply Rmult_le_pos; lra).
  assert (Ham : - (5 * (K * M)) <= a * m <= 5 * (K * M)) by (split; nra).
  assert (HuKM : u * (K * M) <= / 1000 * (K * M)) by (apply Rmult_le_compat_r; lra).
  assert (HuM : u * M <= / 1000 * M) by (apply Rmult_le_compat_r; lra).
  assert (HeM : eta <= u * M) by (apply Rle_trans with (u * 1); [lra|apply Rmult_le_compat_l; lra]).
  destruct (fmul_err atr mu Fatr Fmu) as (Fw & e1 & t1 & He1 & Ht1 & Rw); [fold a m; apply Rabs_le; lra|]. fold a m in Rw. fold w in Fw, Rw.
  apply abs_bounds_R in He1. apply abs_bounds_R in Ht1.
  (* |FR w - AT * m| <= K Et + 5 u K M + eta *)
  assert (Hwd : - (K * Et + 5 * (u * (K * M)) + eta) <= FR w - AT * m <= K * Et + 5 * (u * (K * M)) + eta).
  { rewrite Rw. replace (a * m * (1 + e1) + t1 - AT * m) with ((a - AT) * m + a * m * e1 + t1) by ring.
    assert (- (K * Et) <= (a - AT) * m <= K * Et) by (split; nra).
    assert (- (5 * (K * M) * u) <= a * m * e1 <= 5 * (K * M) * u) by (split; nra). lra. }
  assert (KEt : 0 <= K * Et <= K * M) by (split; [apply Rmult_le_pos; lra|apply Rmult_le_compat_l; lra]).
  assert (Hw : - (6 * (K * M) + M) <= FR w <= 6 * (K * M) + M).
  { assert (- (4 * (K * M)) <= AT * m <= 4 * (K * M)) by (split; nra). lra. }
  destruct sgn; cbn [b Bd] in *; subst b Bd.
  - destruct (fadd_err avg w Favg Fw) as (Fb & e2 & t2 & He2 & Ht2 & Rb); [fold v; apply Rabs_le; lra|]. fold v in Rb.
    apply abs_bounds_R in He2. apply abs_bounds_R in Ht2. split; [exact Fb|]. rewrite Rb.
    replace ((v + FR w) * (1 + e2) + t2 - (AV + AT * m)) with ((v - AV) + (FR w - AT * m) + (v + FR w) * e2 + t2) by ring.
    assert (- ((3 * M + 6 * (K * M)) * u) <= (v + FR w) * e2 <= (3 * M + 6 * (K * M)) * u) by (split; nra).
    replace ((3 * M + 6 * (K * M)) * u) with (3 * (u * M) + 6 * (u * (K * M))) in H by ring.
    replace (24 * (1 + K) * u * M) with (24 * (u * M) + 24 * (u * (K * M))) by ring.
    assert (0 <= u * (K * M)) by (apply Rmult_le_pos; lra). apply Rabs_le. lra.
  - destruct (fsub_err avg w Favg Fw) as (Fb & e2 & t2 & He2 & Ht2 & Rb); [fold v; apply Rabs_le; lra|]. fold v in Rb.
    apply abs_bounds_R in He2. apply abs_bounds_R in Ht2. split; [exact Fb|]. rewrite Rb.
    replace ((v - FR w) * (1 + e2) + t2 - (AV - AT * m)) with ((v - AV) - (FR w - AT * m) + (v - FR w) * e2 + t2) by ring.
    assert (- ((3 * M + 6 * (K * M)) * u) <= (v - FR w) * e2 <= (3 * M + 6 * (K * M)) * u) by (split; nra).
    replace ((3 * M + 6 * (K * M)) * u) with (3 * (u * M) + 6 * (u * (K * M))) in H by ring.
    replace (24 * (1 + K) * u * M) with (24 * (u * M) + 24 * (u * (K * M))) by ring.
    assert (0 <= u * (K * M)) by (apply Rmult_le_pos; lra). apply Rabs_le. lra.
Qed.

Theorem kc_float_error : forall p mu k xs M K, kc_new O p mu = Ok k -> (p < 35184372088832)%N ->
  finF mu -> Rabs (FR mu) <= K -> 1 <= M -> (1 + K) * M <= bpow radix2 900 -> Forall (okin M) xs ->
  let Ea := ebound p M in let Et := atr_ebound p M in
  let D := Ea + K * Et + 24 * (1 + K) * u * M in
  let outs := kc_outs O k xs in
  let reals := kc_real (kreal p) (FR mu) (map FR xs) in
  length outs = length xs /\
  forall j, (j < length xs)%nat -> exists av up lo AV UP LO,
    nth j outs [] = [av; up; lo] /\ nth j reals [] = [AV; UP; LO] /\ finF av /\ finF up /\ finF lo /\
    Rabs (FR av - AV) <= Ea /\ Rabs (FR up - UP) <= D /\ Rabs (FR lo - LO) <= D.
Proof.
  intros p mu k xs M K H Hp Fmu Hmu HM1 HKM Hxs Ea Et D outs reals.
  pose proof u_pos as Hu0. pose proof u_le as Hu1.
  assert (HK : 0 <= K) by (eapply Rle_trans; [apply Rabs_pos|exact Hmu]).
  assert (HM900 : M <= bpow radix2 900) by nra.
  unfold kc_new in H.
  destruct (atr_new O p) as [a| |] eqn:Eat; cbn [bind] in H; try discriminate.
  destruct (ema_new O p) as [e| |] eqn:Ee; cbn [bind] in H; try discriminate. injection H as <-.
  subst outs reals. rewrite kc_wiring. unfold kc_real.
  assert (H3M : 3 * M <= bpow radix2 990).
  { apply Rle_trans with (bpow radix2 2 * bpow radix2 900); [change (bpow radix2 2) with 4; lra|]. rewrite <- bpow_plus. apply bpow_le. lia. }
  assert (HMl : bpow radix2 (-960) <= M) by (apply Rle_trans with 1; [change 1 with (bpow radix2 0); apply bpow_le; lia|exact HM1]).
  destruct (atr_float_uniform p a xs M Eat Hp HM1 H3M Hxs) as [La Ha].
  destruct (ema_float_uniform p e xs M Ee ltac:(lia) HMl ltac:(lra) Hxs) as [Le He].
  assert (Hp0 : p <> 0%N) by (unfold ema_new in Ee; destruct (N.eqb_spec p 0); [discriminate|assumption]).
  pose proof (kreal_range p Hp0) as Hal.
  assert (Lre : length (ema_stream (kreal p) (map FR xs)) = length xs) by (rewrite ema_stream_length, map_length; reflexivity).
  assert (Lrt : length (ema_stream (kreal p) (tr_stream (map FR xs))) = length xs).
  { rewrite ema_stream_length. destruct xs as [|x xs]; [reflexivity|]. cbn [map tr_stream length]. f_equal.
    destruct (ftr_running M HM1 ltac:(lra) xs x (Forall_inv Hxs) (Forall_inv_tail Hxs)) as (_ & L2 & _). exact L2. }
  split; [rewrite map2_length'; [exact Le|rewrite La, Le; reflexivity]|].
  intros j Hj.
  destruct (He j Hj) as [Fav Eav]. destruct (Ha j Hj) as (Fat & Eat' & Rat).
  fold (ebound p M) in Eav. fold Ea in Eav. fold Et in Eat'.
  set (av := nth j (ema_outs O e xs) 0%float) in *. set (at_ := nth j (atr_outs O a xs) 0%float) in *.
  set (AV := nth j (ema_stream (kreal p) (map FR xs)) 0) in *. set (AT := nth j (ema_stream (kreal p) (tr_stream (map FR xs))) 0) in *.
  assert (HAV : Rabs AV <= M).
  { apply ema_stream_abs; [exact Hal| |rewrite map_length; exact Hj]. intros i Hi. rewrite map_length in Hi.
    replace 0 with (FR 0%float) by apply FR_zero. rewrite map_nth. apply (Forall_nth_all _ _ 0%float Hxs i Hi). }
  destruct (ebound_small p M Hp ltac:(lra)) as [HEa0 HEa].
  destruct (ebound_small p (3 * M) Hp ltac:(lra)) as [HEt0 HEt].
  assert (HEtM : 0 <= Et <= M).
  { unfold Et, atr_ebound. assert (0 <= u * M) by (apply Rmult_le_pos; lra). assert (u * M <= / 1000 * M) by (apply Rmult_le_compat_r; lra). split; lra. }
  assert (HEaM : 0 <= Ea <= M) by (unfold Ea; split; lra).
  destruct (band_err true av at_ mu AV AT M K Ea Et HM1 HK HKM HEaM HEtM Fav Fat Fmu Hmu HAV Rat Eav Eat') as [Fup Eup].
  destruct (band_err false av at_ mu AV AT M K Ea Et HM1 HK HKM HEaM HEtM Fav Fat Fmu Hmu HAV Rat Eav Eat') as [Flo Elo].
  exists av, (av + at_ * mu)%float, (av - at_ * mu)%float, AV, (AV + AT * FR mu), (AV - AT * FR mu).
  split; [unfold av, at_; rewrite (map2_nth' (bands O mu) _ _ j 0%float 0%float []); [reflexivity|rewrite La, Le; reflexivity|rewrite Le; exact Hj]|].
  split; [unfold AV, AT; rewrite (map2_nth' _ _ _ j 0 0 []); [reflexivity|rewrite Lrt, Lre; reflexivity|rewrite Lre; exact Hj]|].
  repeat split; assumption.
Qed.
