(* reset is idempotent and does nothing to a fresh indicator (indicators without Min/Max inside). *)
From Coq Require Import Lia.
From TA Require Import Base Model Generic Proofs.Prims Proofs.WF Proofs.GenericProofs Proofs.RunProofs Proofs.SizeProofs.
Open Scope N_scope.

Section RS.
Context {F : Type} (O : Ops F).

Theorem reset_idempotent : forall (s s1 : @St F),
  WF O s -> has_minmax (kind_of s) = false -> reset O s = Ok s1 -> reset O s1 = Ok s1.
Proof.
  intros s s1 W Hk E.
  destruct (reset_total O s W) as (s' & E' & W' & P & K). rewrite E in E'. injection E' as <-.
  rewrite (reset_is_new O s1 W') by (rewrite K; exact Hk).
  rewrite P, K. rewrite <- (reset_is_new O s W Hk). exact E.
Qed.

(* the constructor only reads the arguments it documents *)
Lemma new_norm : forall k p, new O k (norm_params O k p) = new O k p.
Proof. intros k p. destruct k; reflexivity. Qed.

Theorem reset_fresh : forall k p (s : @St F),
  has_minmax k = false -> new O k p = Ok s -> reset O s = Ok s.
Proof.
  intros k p s Hk E. pose proof (new_WF O k p s E) as (W & K & _).
  rewrite (reset_is_new O s W) by (rewrite K; exact Hk).
  rewrite (new_params O k p s E), K, new_norm. exact E.
Qed.

End RS.
