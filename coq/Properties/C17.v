(* C17 — Windowed indicators forget: only the last n inputs matter. Statements only.
   Corollaries of the refinement theorems: the output after a history is a function of its last n inputs, so two
   histories sharing that suffix — in particular an arbitrary history and the bare suffix — give the same output;
   exactly in exact arithmetic for the accumulating indicators, and for Minimum/Maximum under any total order. *)
From Coq Require Import Reals.
From TA Require Import Base Model XR Proofs.Ring Proofs.XBase Proofs.XSma Proofs.XWma Proofs.XMad Proofs.XSd Proofs.WF
  Proofs.MinMaxProofs Proofs.ForgetProofs.
Open Scope N_scope.

Theorem C17_sma_forgets : forall p s (h1 h2 : list R), sma_new XROps p = Ok s -> h1 <> [] -> h2 <> [] ->
  lastn (N.to_nat p) h1 = lastn (N.to_nat p) h2 ->
  last (sma_outs s (map Fin h1)) XNaN = last (sma_outs s (map Fin h2)) XNaN.
Proof. exact sma_forgets. Qed.

Theorem C17_wma_forgets : forall p s (h1 h2 : list R), wma_new XROps p = Ok s -> h1 <> [] -> h2 <> [] ->
  lastn (N.to_nat p) h1 = lastn (N.to_nat p) h2 ->
  last (wma_outs s (map Fin h1)) XNaN = last (wma_outs s (map Fin h2)) XNaN.
Proof. exact wma_forgets. Qed.

Theorem C17_sd_forgets : forall p s (h1 h2 : list R), sd_new XROps p = Ok s -> h1 <> [] -> h2 <> [] ->
  lastn (N.to_nat p) h1 = lastn (N.to_nat p) h2 ->
  last (sd_outs s (map Fin h1)) XNaN = last (sd_outs s (map Fin h2)) XNaN.
Proof. exact sd_forgets. Qed.

Theorem C17_mad_forgets : forall p s (h1 h2 : list R), mad_new XROps p = Ok s -> h1 <> [] -> h2 <> [] ->
  lastn (N.to_nat p) h1 = lastn (N.to_nat p) h2 ->
  last (mad_outs s (map Fin h1)) XNaN = last (mad_outs s (map Fin h2)) XNaN.
Proof. exact mad_forgets. Qed.

Theorem C17_bb_forgets : forall p mu s (h1 h2 : list R), bb_new XROps p (Fin mu) = Ok s -> h1 <> [] -> h2 <> [] ->
  lastn (N.to_nat p) h1 = lastn (N.to_nat p) h2 ->
  last (bb_outs s (map Fin h1)) [] = last (bb_outs s (map Fin h2)) [].
Proof. exact bb_forgets. Qed.

(* Minimum (and dually Maximum): exactly, for any strict total order with top; in particular the output after a history
   equals the output of a fresh instance fed only the last n inputs *)
Theorem C17_min_forgets : forall (F : Type) (O : Ops F) (P : F -> Prop) (p : N) (h1 h2 : list F),
  order_on (ltb O) (inf O) P -> 0 < p -> p <= ALLOC_MAX -> Forall P h1 -> Forall P h2 -> h1 <> [] -> h2 <> [] ->
  lastn (N.to_nat p) h1 = lastn (N.to_nat p) h2 ->
  last (min_outs O (mkMin p 0 0 (repeat (inf O) (N.to_nat p))) h1) (inf O) =
  last (min_outs O (mkMin p 0 0 (repeat (inf O) (N.to_nat p))) h2) (inf O).
Proof. exact (@min_forgets). Qed.

(* binary64, inputs free of NaN and -0.0: bit-identical *)
From TA Require Import FloatInst Proofs.FloatOrder.
Theorem C17_min_forgets_binary64 : forall (p : N) (h1 h2 : list PrimFloat.float),
  0 < p -> p <= ALLOC_MAX -> Forall okF h1 -> Forall okF h2 -> h1 <> [] -> h2 <> [] ->
  lastn (N.to_nat p) h1 = lastn (N.to_nat p) h2 ->
  last (min_outs FOps (mkMin p 0 0 (repeat (inf FOps) (N.to_nat p))) h1) (inf FOps) =
  last (min_outs FOps (mkMin p 0 0 (repeat (inf FOps) (N.to_nat p))) h2) (inf FOps).
Proof. intros p h1 h2. exact (min_forgets PrimFloat.float FOps okF p h1 h2 float_order_min). Qed.

(* ---- the remaining windowed indicators (corollaries of their exact refinements, Proofs/Forget2.v) ---- *)
From Coq Require Import List.
From TA Require Import Proofs.Wiring Proofs.XRoc Proofs.XEr Proofs.XMfi Proofs.XBands Proofs.XCci Proofs.Forget2.
Open Scope N_scope.

Theorem C17_max_forgets : forall (F : Type) (O : Ops F) (P : F -> Prop) (p : N) (h1 h2 : list F),
  order_on (fun a b => ltb O b a) (ninf O) P -> 0 < p -> p <= ALLOC_MAX -> Forall P h1 -> Forall P h2 -> h1 <> [] -> h2 <> [] ->
  lastn (N.to_nat p) h1 = lastn (N.to_nat p) h2 ->
  last (max_outs O (mkMax p 0 0 (repeat (ninf O) (N.to_nat p))) h1) (ninf O) =
  last (max_outs O (mkMax p 0 0 (repeat (ninf O) (N.to_nat p))) h2) (ninf O).
Proof. exact max_forgets. Qed.

Theorem C17_max_forgets_binary64 : forall (p : N) (h1 h2 : list PrimFloat.float),
  0 < p -> p <= ALLOC_MAX -> Forall okF h1 -> Forall okF h2 -> h1 <> [] -> h2 <> [] ->
  lastn (N.to_nat p) h1 = lastn (N.to_nat p) h2 ->
  last (max_outs FOps (mkMax p 0 0 (repeat (ninf FOps) (N.to_nat p))) h1) (ninf FOps) =
  last (max_outs FOps (mkMax p 0 0 (repeat (ninf FOps) (N.to_nat p))) h2) (ninf FOps).
Proof. intros p h1 h2. exact (max_forgets PrimFloat.float FOps okF p h1 h2 float_order_max). Qed.

(* FastStochastic (scalar path), exact arithmetic: a function of the last n prices *)
Theorem C17_fast_forgets : forall p s (h1 h2 : list R), fast_new XROps p = Ok s -> h1 <> [] -> h2 <> [] ->
  lastn (N.to_nat p) h1 = lastn (N.to_nat p) h2 ->
  last (fast_outs XROps s (map Fin h1)) XNaN = last (fast_outs XROps s (map Fin h2)) XNaN.
Proof. exact fast_forgets. Qed.

(* CCI: a function of the last n typical prices *)
Theorem C17_cci_forgets : forall p s (b1 b2 : list rbar), cci_new XROps p = Ok s -> b1 <> [] -> b2 <> [] ->
  lastn (N.to_nat p) (map tp3 b1) = lastn (N.to_nat p) (map tp3 b2) ->
  last (cci_bar_outs s (map mkb b1)) XNaN = last (cci_bar_outs s (map mkb b2)) XNaN.
Proof. exact cci_forgets. Qed.

(* RateOfChange, EfficiencyRatio, MoneyFlowIndex: functions of the last n+1 inputs *)
Theorem C17_roc_forgets : forall p s (h1 h2 : list R), roc_new XROps p = Ok s -> h1 <> [] -> h2 <> [] ->
  lastn (S (N.to_nat p)) h1 = lastn (S (N.to_nat p)) h2 ->
  last (roc_outs s (map Fin h1)) XNaN = last (roc_outs s (map Fin h2)) XNaN.
Proof. exact roc_forgets. Qed.

Theorem C17_er_forgets : forall p s (h1 h2 : list R), er_new XROps p = Ok s -> h1 <> [] -> h2 <> [] ->
  lastn (S (N.to_nat p)) h1 = lastn (S (N.to_nat p)) h2 ->
  last (er_outs s (map Fin h1)) XNaN = last (er_outs s (map Fin h2)) XNaN.
Proof. exact er_forgets. Qed.

Theorem C17_mfi_forgets : forall p s (B1 B2 : list mbar) c1 c2, mfi_new XROps p = Ok s ->
  Forall (fun b => (0 <= rawr b)%R) (B1 ++ [c1]) -> Forall (fun b => (0 <= rawr b)%R) (B2 ++ [c2]) ->
  B1 <> [] -> B2 <> [] ->
  lastn (S (N.to_nat p)) (B1 ++ [c1]) = lastn (S (N.to_nat p)) (B2 ++ [c2]) ->
  last (mfi_outs s (map mkm (B1 ++ [c1]))) XNaN = last (mfi_outs s (map mkm (B2 ++ [c2]))) XNaN.
Proof. exact mfi_forgets. Qed.

(* ---- binary64, within the property's tolerance (Flocq): the output of SimpleMovingAverage after a full history and the output of
        a fresh instance fed only a suffix containing the last n inputs differ by at most tau(t) * M ---- *)
From Coq Require Import Reals Floats.
From Flocq Require Import Core.
From TA Require Import Proofs.Wiring Proofs.FloatErr Proofs.FloatSma.
Theorem C17_sma_binary64_forgets : forall p s xs1 xs2 M, sma_new FOps p = Ok s -> (p < 9007199254740992)%N ->
  (bpow radix2 (-960) <= M)%R -> Forall (okin M) xs1 -> Forall (okin M) xs2 ->
  (3 * ((INR (N.to_nat p) + 2) * M + 1) <= BIG)%R -> (INR (length xs1) * u <= / 16)%R -> xs2 <> [] ->
  (length xs2 <= length xs1)%nat -> lastn (N.to_nat p) xs1 = lastn (N.to_nat p) xs2 ->
  (Rabs (FR (last (sma_outs' FOps s xs1) 0%float) - FR (last (sma_outs' FOps s xs2) 0%float)) <=
   (1 / 10 ^ 12 + 1 / 10 ^ 15 * (INR (length xs1) * R_sqrt.sqrt (INR (length xs1)))) * M)%R.
Proof. exact sma_float_forgets_tau. Qed.

(* ... and the same for MeanAbsoluteDeviation *)
From TA Require Import Proofs.FloatMadErr.
Theorem C17_mad_binary64_forgets : forall p s xs1 xs2 M, mad_new FOps p = Ok s -> (p <= 140737488355328)%N ->
  (1 <= M)%R -> (M <= bpow radix2 400)%R -> Forall (okin M) xs1 -> Forall (okin M) xs2 ->
  (INR (length xs1) * u <= / 64)%R -> xs2 <> [] -> (length xs2 <= length xs1)%nat ->
  lastn (N.to_nat p) xs1 = lastn (N.to_nat p) xs2 ->
  (Rabs (FR (last (Wiring.mad_outs FOps s xs1) 0%float) - FR (last (Wiring.mad_outs FOps s xs2) 0%float)) <=
   (1 / 10 ^ 12 + 1 / 10 ^ 15 * (INR (length xs1) * R_sqrt.sqrt (INR (length xs1)))) * M)%R.
Proof. exact mad_float_forgets_tau. Qed.

(* RateOfChange and EfficiencyRatio forget EXACTLY, in every number type — in particular bit for bit on binary64, NaN and infinities
   included: two histories of at least n+1 inputs sharing their last n+1 inputs give identical last outputs *)
From TA Require Import Proofs.GRoc Proofs.GEr.
Theorem C17_er_forgets_any_carrier : forall (F : Type) (O : Ops F) p s (h1 h2 : list F) x1 x2 d, er_new O p = Ok s ->
  (N.to_nat p <= length h1)%nat -> (N.to_nat p <= length h2)%nat ->
  lastn (S (N.to_nat p)) (h1 ++ [x1]) = lastn (S (N.to_nat p)) (h2 ++ [x2]) ->
  last (res_outs (er_next O) s (h1 ++ [x1])) d = last (res_outs (er_next O) s (h2 ++ [x2])) d.
Proof. exact @ger_forgets. Qed.
Theorem C17_roc_forgets_any_carrier : forall (F : Type) (O : Ops F) p s (h1 h2 : list F) x1 x2 d, roc_new O p = Ok s ->
  (N.to_nat p <= length h1)%nat -> (N.to_nat p <= length h2)%nat ->
  lastn (S (N.to_nat p)) (h1 ++ [x1]) = lastn (S (N.to_nat p)) (h2 ++ [x2]) ->
  last (res_outs (roc_next O) s (h1 ++ [x1])) d = last (res_outs (roc_next O) s (h2 ++ [x2])) d.
Proof. exact @groc_forgets. Qed.
Theorem C17_er_roc_forget_binary64 : forall p (h1 h2 : list PrimFloat.float) x1 x2,
  (N.to_nat p <= length h1)%nat -> (N.to_nat p <= length h2)%nat ->
  lastn (S (N.to_nat p)) (h1 ++ [x1]) = lastn (S (N.to_nat p)) (h2 ++ [x2]) ->
  (forall s, er_new FOps p = Ok s ->
     last (res_outs (er_next FOps) s (h1 ++ [x1])) 0%float = last (res_outs (er_next FOps) s (h2 ++ [x2])) 0%float) /\
  (forall s, roc_new FOps p = Ok s ->
     last (res_outs (roc_next FOps) s (h1 ++ [x1])) 0%float = last (res_outs (roc_next FOps) s (h2 ++ [x2])) 0%float).
Proof. intros p h1 h2 x1 x2 L1 L2 E. split; intros s H; [apply (ger_forgets FOps p s h1 h2 x1 x2 _ H L1 L2 E)|apply (groc_forgets FOps p s h1 h2 x1 x2 _ H L1 L2 E)]. Qed.

(* FastStochastic (scalar path) forgets exactly in every number type whose comparison totally orders the inputs; on binary64 (inputs free
   of NaN and -0.0) the outputs are bit-identical *)
From TA Require Import Proofs.GFast.
Theorem C17_fast_forgets_any_carrier : forall (F : Type) (O : Ops F) (P : F -> Prop) p s (h1 h2 : list F) d,
  order_on (Base.ltb O) (Base.inf O) P -> order_on (fun a b => Base.ltb O b a) (Base.ninf O) P ->
  fast_new O p = Ok s -> Forall P h1 -> Forall P h2 -> h1 <> [] -> h2 <> [] ->
  lastn (N.to_nat p) h1 = lastn (N.to_nat p) h2 ->
  last (fast_outs O s h1) d = last (fast_outs O s h2) d.
Proof. exact @gfast_forgets. Qed.
Theorem C17_fast_forgets_binary64 : forall p s (h1 h2 : list PrimFloat.float) d, fast_new FOps p = Ok s ->
  Forall okF h1 -> Forall okF h2 -> h1 <> [] -> h2 <> [] -> lastn (N.to_nat p) h1 = lastn (N.to_nat p) h2 ->
  last (fast_outs FOps s h1) d = last (fast_outs FOps s h2) d.
Proof. exact fast_forgets_binary64. Qed.
