(* SMA over the exact carrier: every output is the arithmetic mean of exactly the last min(t,p) inputs. *)
From Coq Require Import Reals Lra Lia.
From TA Require Import Base Model XR Proofs.Prims Proofs.WF Proofs.Ring Proofs.XBase.
Open Scope N_scope.

Local Notation O := XROps.

Definition sma_inv (s : @Sma XR) (h : list R) : Prop :=
  wf_sma s /\
  rot (N.to_nat (sma_index s)) (sma_deque s) = map Fin (lastn (N.to_nat (sma_period s)) (padded 0%R (N.to_nat (sma_period s)) h)) /\
  sma_sum s = Fin (Rsum (lastn (N.to_nat (sma_period s)) h)) /\
  sma_count s = N.of_nat (Nat.min (length h) (N.to_nat (sma_period s))).

Lemma sma_inv_new p s : sma_new O p = Ok s -> sma_inv s [].
Proof.
  intros H. pose proof (sma_new_inv O p s H) as (A & B & W & Pe).
  rewrite sma_new_ok in H by assumption. injection H as <-.
  unfold sma_inv. cbn [sma_period sma_index sma_count sma_sum sma_deque].
  split; [exact W|]. split; [|split; [reflexivity|cbn; lia]].
  rewrite rot_0, lastn_padded_nil. cbn [zero O]. rewrite map_repeat'. reflexivity.
Qed.

Lemma sma_step s h x : sma_inv s h ->
  exists s', sma_next O s (Fin x) = Ok (s', Fin (mean (lastn (N.to_nat (sma_period s)) (h ++ [x])))) /\
             sma_inv s' (h ++ [x]) /\ sma_period s' = sma_period s.
Proof.
  intros (W & Hrot & Hsum & Hcnt). pose proof W as (H1 & H2 & H3 & H4 & H5).
  set (p := N.to_nat (sma_period s)) in *.
  assert (Hp : (1 <= p)%nat) by (unfold p; lia).
  destruct (ring_step (sma_deque s) (sma_period s) (sma_index s) (Fin x) (Fin 0) H1 H3 H2 H5) as (E1 & E2 & E3 & E4 & E5).
  unfold sma_next. rewrite E1, E2, E3. cbn [bind].
  set (w := lastn p (padded 0%R p h)) in *.
  assert (Hw : w <> []) by (apply lastn_padded_ne; exact Hp).
  rewrite Hrot in *. change (Fin 0) with (Fin 0%R) in *. rewrite (hd_map Fin w 0%R).
  (* count *)
  set (c' := if sma_count s <? sma_period s then sma_count s + 1 else sma_count s).
  assert (Hc' : c' = N.of_nat (Nat.min (length (h ++ [x])) p)).
  { unfold c'. rewrite Hcnt, app_length. cbn [length]. fold p.
    destruct (N.ltb_spec (N.of_nat (Nat.min (length h) p)) (sma_period s)); unfold p in *; lia. }
  assert (Ecount : (if sma_count s <? sma_period s then uadd (sma_count s) 1 else Ok (sma_count s)) = Ok c').
  { unfold c'. destruct (N.ltb_spec (sma_count s) (sma_period s)); [|reflexivity].
    apply uadd_ok. unfold ALLOC_MAX, USIZE_MAX in *. lia. }
  rewrite Ecount. cbn [bind]. clearbody c'. subst c'.
  (* sum *)
  rewrite Hsum. rewrite <- (Rsum_lastn_padded p h). fold w.
  rewrite xr_sub_fin, xr_add_fin.
  assert (Esum : (Rsum w - hd 0 w + x)%R = Rsum (lastn p (h ++ [x]))).
  { rewrite <- (Rsum_lastn_padded p (h ++ [x])). rewrite lastn_padded_snoc by exact Hp. fold w.
    rewrite Rsum_app. cbn [Rsum]. rewrite (Rsum_hd_tl w Hw). lra. }
  rewrite Esum.
  assert (Hlen : length (lastn p (h ++ [x])) = Nat.min (length (h ++ [x])) p) by (rewrite lastn_length; lia).
  assert (Hpos : (1 <= Nat.min (length (h ++ [x])) p)%nat) by (rewrite app_length; cbn; lia).
  rewrite xr_ofN, INR_IZR_N.
  rewrite xr_div_fin by (apply not_0_INR; lia).
  eexists. split; [unfold mean; rewrite Hlen; reflexivity|].
  split; [|reflexivity].
  unfold sma_inv. cbn [sma_period sma_index sma_count sma_sum sma_deque]. fold p.
  split; [unfold wf_sma, ring_wf; cbn; pose proof (advance_lt _ _ H3); repeat split; unfold p in *; lia|].
  split; [rewrite E5, lastn_padded_snoc by exact Hp; fold w; rewrite map_app, tl_map; reflexivity|].
  split; reflexivity.
Qed.

Fixpoint sma_outs (s : @Sma XR) (xs : list XR) : list XR :=
  match xs with
  | [] => []
  | x :: xs => match sma_next O s x with Ok (s', o) => o :: sma_outs s' xs | _ => [] end
  end.

(* prefixes [x1], [x1;x2], ... of a stream, following a history h *)
Fixpoint prefixes_from {A} (h : list A) (xs : list A) : list (list A) :=
  match xs with [] => [] | x :: xs => (h ++ [x]) :: prefixes_from (h ++ [x]) xs end.

Lemma sma_outs_spec : forall xs s h, sma_inv s h ->
  sma_outs s (map Fin xs) = map (fun hh => Fin (mean (lastn (N.to_nat (sma_period s)) hh))) (prefixes_from h xs).
Proof.
  induction xs as [|x xs IH]; intros s h Hinv; cbn [sma_outs map prefixes_from]; [reflexivity|].
  destruct (sma_step s h x Hinv) as (s' & E & Hinv' & Hp). rewrite E. f_equal.
  rewrite (IH s' (h ++ [x]) Hinv'), Hp. reflexivity.
Qed.

(* Main theorem: for every period and every finite stream, the t-th output is the mean of the last
   min(t,p) inputs *)
Theorem sma_refines : forall p s xs, sma_new O p = Ok s ->
  sma_outs s (map Fin xs) = map (fun hh => Fin (mean (lastn (N.to_nat p) hh))) (prefixes_from [] xs).
Proof.
  intros p s xs H. pose proof (sma_new_inv O p s H) as (_ & _ & _ & Pe).
  rewrite (sma_outs_spec xs s [] (sma_inv_new p s H)), Pe. reflexivity.
Qed.
