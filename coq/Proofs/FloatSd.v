(* StandardDeviation on binary64 never returns NaN or a negative number on streams of finite inputs of magnitude at most
   2^400 (up to 2^40 - 2 inputs): every intermediate value of the sliding Welford update stays finite, the clamp makes the
   running sum of squares non-negative, and sqrt of a non-negative finite float is a non-negative finite float.
   (At magnitude 1.7e308 the statement is false: known finding K8.) *)
From Coq Require Import Reals Lra Lia ZArith List Floats.
From Flocq Require Import Core BinarySingleNaN PrimFloat.
From TA Require Import Base Model FloatInst Proofs.Prims Proofs.WF Proofs.Ring Proofs.XBase Proofs.FloatErr Proofs.FloatSma Proofs.FloatEma.
Import ListNotations.
Open Scope R_scope.
Local Notation O := FOps.
Local Notation float := PrimFloat.float.

Lemma mag_of_err r eps et v : v = r * (1 + eps) + et -> Rabs eps <= u -> Rabs et <= eta -> Rabs v <= Rabs r * (1 + u) + eta.
Proof.
  intros -> He Ht. eapply Rle_trans; [apply Rabs_triang|]. rewrite Rabs_mult.
  assert (Rabs (1 + eps) <= 1 + u) by (eapply Rle_trans; [apply Rabs_triang|]; rewrite Rabs_R1; lra).
  assert (Rabs r * Rabs (1 + eps) <= Rabs r * (1 + u)) by (apply Rmult_le_compat_l; [apply Rabs_pos|assumption]). lra.
Qed.

Lemma fsub_mag a b B : finF a -> finF b -> Rabs (FR a - FR b) <= B -> B <= BIG ->
  finF (a - b)%float /\ Rabs (FR (a - b)%float) <= B * (1 + u) + eta.
Proof.
  intros Fa Fb H HB. destruct (fsub_err a b Fa Fb) as (F & e & n & He & Hn & R); [lra|]. split; [exact F|].
  eapply Rle_trans; [apply (mag_of_err _ _ _ _ R He Hn)|]. pose proof u_pos.
  assert (Rabs (FR a - FR b) * (1 + u) <= B * (1 + u)) by (apply Rmult_le_compat_r; lra). lra.
Qed.
Lemma fadd_mag a b B : finF a -> finF b -> Rabs (FR a + FR b) <= B -> B <= BIG ->
  finF (a + b)%float /\ Rabs (FR (a + b)%float) <= B * (1 + u) + eta.
Proof.
  intros Fa Fb H HB. destruct (fadd_err a b Fa Fb) as (F & e & n & He & Hn & R); [lra|]. split; [exact F|].
  eapply Rle_trans; [apply (mag_of_err _ _ _ _ R He Hn)|]. pose proof u_pos.
  assert (Rabs (FR a + FR b) * (1 + u) <= B * (1 + u)) by (apply Rmult_le_compat_r; lra). lra.
Qed.
Lemma fmul_mag a b B : finF a -> finF b -> Rabs (FR a * FR b) <= B -> B <= BIG ->
  finF (a * b)%float /\ Rabs (FR (a * b)%float) <= B * (1 + u) + eta.
Proof.
  intros Fa Fb H HB. destruct (fmul_err a b Fa Fb) as (F & e & n & He & Hn & R); [lra|]. split; [exact F|].
  eapply Rle_trans; [apply (mag_of_err _ _ _ _ R He Hn)|]. pose proof u_pos.
  assert (Rabs (FR a * FR b) * (1 + u) <= B * (1 + u)) by (apply Rmult_le_compat_r; lra). lra.
Qed.
(* division by an exactly represented count c >= 1 *)
Lemma fdiv_count a (c : N) : finF a -> (0 < c < 9007199254740992)%N -> Rabs (FR a) <= BIG ->
  let q := (a / f_ofN c)%float in
  finF q /\ exists eps et, Rabs eps <= u /\ Rabs et <= eta /\ FR q = FR a / IZR (Z.of_N c) * (1 + eps) + et.
Proof.
  intros Fa [Hc0 Hc] HB q. destruct (f_ofN_exact c Hc) as [Fc Rc].
  assert (H1 : 1 <= IZR (Z.of_N c)) by (apply IZR_le; lia).
  destruct (fdiv_err a (f_ofN c) Fa) as (F & e & n & He & Hn & R); [rewrite Rc; lra| |].
  - rewrite Rc. apply Rle_trans with (Rabs (FR a)); [|exact HB]. apply div_le_bound; [lra|].
    rewrite <- (Rmult_1_r (Rabs (FR a))) at 1. apply Rmult_le_compat_l; [apply Rabs_pos|exact H1].
  - split; [exact F|]. exists e, n. rewrite Rc in R. repeat split; assumption.
Qed.

(* ---- magnitude bookkeeping ---- *)
Definition Wof (M : R) : R := bpow radix2 44 * M.

Record sdctx (M W C Tn : R) : Prop := {
  cM1 : 1 <= M; cW : W = Wof M; cC : C = W * W; cW16 : 16 <= W; cMW : M <= W / 1024;
  cuW : u * W <= M / 512; cCB : 4 * (Tn + 2) * C <= BIG; cT0 : 0 <= Tn; cuT : u * (2 * Tn + 2) <= / 1024;
  cWB : W <= BIG; cC1 : 1 <= C }.

Lemma sdctx_intro M t : 1 <= M -> M <= bpow radix2 400 -> INR t + 2 <= bpow radix2 40 ->
  sdctx M (Wof M) (Wof M * Wof M) (INR t).
Proof.
  intros H1 H2 Ht. pose proof (pos_INR t) as Ht0. unfold Wof.
  assert (B44 : bpow radix2 44 = 17592186044416) by (cbn; lra).
  assert (HW16 : 16 <= bpow radix2 44 * M) by (rewrite B44; lra).
  assert (Hu44 : u * bpow radix2 44 = / 512).
  { unfold u. change (- prec + 1)%Z with (-52)%Z. rewrite Rmult_assoc, <- bpow_plus. cbn. lra. }
  assert (HWle : bpow radix2 44 * M <= bpow radix2 444).
  { change 444%Z with (44 + 400)%Z. rewrite bpow_plus. apply Rmult_le_compat_l; [apply bpow_ge_0|exact H2]. }
  assert (HCle : bpow radix2 44 * M * (bpow radix2 44 * M) <= bpow radix2 888).
  { change 888%Z with (444 + 444)%Z. rewrite bpow_plus. apply Rmult_le_compat; try lra. }
  constructor; try reflexivity; try assumption.
  - rewrite B44. lra.
  - rewrite <- Rmult_assoc, Hu44. lra.
  - apply Rle_trans with (4 * bpow radix2 40 * bpow radix2 888).
    + apply Rmult_le_compat; try lra. apply Rmult_le_pos; [lra|]. apply Rmult_le_pos; lra.
    + unfold BIG. change 4 with (bpow radix2 2). rewrite <- !bpow_plus. apply bpow_le. lia.
  - unfold u. change (- prec + 1)%Z with (-52)%Z.
    apply Rle_trans with (/ 2 * bpow radix2 (-52) * (2 * bpow radix2 40)); [apply Rmult_le_compat_l; [pose proof (bpow_gt_0 radix2 (-52)); lra|lra]|].
    replace (/ 2 * bpow radix2 (-52) * (2 * bpow radix2 40)) with (bpow radix2 (-52) * bpow radix2 40) by field.
    rewrite <- bpow_plus. cbn. lra.
  - apply Rle_trans with (bpow radix2 444); [exact HWle|]. unfold BIG. apply bpow_le. lia.
  - assert (1 <= bpow radix2 44 * M) by lra. replace 1 with (1 * 1) by ring. apply Rmult_le_compat; lra.
Qed.

Section Core.
Variables M W C Tn : R.
Hypothesis ctx : sdctx M W C Tn.

Lemma ctx_facts : 0 < u /\ u <= / 1000 /\ 0 < eta /\ eta <= / 1000 /\ 1 <= M /\ 16 <= W /\ M <= W / 1024 /\ u * W <= M / 512 /\ W <= BIG.
Proof. destruct ctx. pose proof u_pos. pose proof u_le. pose proof eta_pos. pose proof eta_le. repeat split; assumption. Qed.

(* bound B on |m| with B + 3M <= W/4 and 3M <= B *)
Lemma finish_m2 (m2 prod : float) (D : R) : finF m2 -> finF prod -> Rabs (FR m2) <= 2 * Tn * C -> Rabs (FR prod) <= C ->
  finF (m2 + prod)%float /\ Rabs (FR (m2 + prod)%float) <= 2 * (Tn + 1) * C.
Proof.
  intros F2 Fp H2 Hp. destruct ctx. pose proof u_pos as Hu0. pose proof eta_le as He1. pose proof eta_pos.
  assert (HC0 : 0 <= C) by lra.
  assert (HTC : 0 <= Tn * C) by (apply Rmult_le_pos; lra).
  destruct (fadd_mag m2 prod (2 * Tn * C + C) F2 Fp) as [F Hm]; [eapply Rle_trans; [apply Rabs_triang|]; lra|nra|].
  split; [exact F|]. eapply Rle_trans; [exact Hm|].
  assert (Hx : u * (2 * Tn * C + C) <= / 1024 * C).
  { replace (u * (2 * Tn * C + C)) with (u * (2 * Tn + 1) * C) by ring. apply Rmult_le_compat_r; [exact HC0|]. 
    assert (u * (2 * Tn + 1) <= u * (2 * Tn + 2)) by (apply Rmult_le_compat_l; lra). lra. }
  assert (eta <= / 1000 * C) by nra. lra.
Qed.

Lemma prod_bound (d1 d2 : float) : finF d1 -> finF d2 -> Rabs (FR d1) <= W / 2 -> Rabs (FR d2) <= W ->
  finF (d1 * d2)%float /\ Rabs (FR (d1 * d2)%float) <= C.
Proof.
  intros F1 F2 H1 H2. destruct ctx. pose proof u_pos as Hu0. pose proof u_le. pose proof eta_le as He1. pose proof eta_pos.
  assert (HP : Rabs (FR d1 * FR d2) <= W / 2 * W) by (rewrite Rabs_mult; apply Rmult_le_compat; try apply Rabs_pos; assumption).
  assert (HWW : W / 2 * W = C / 2) by (rewrite cC0; field).
  destruct (fmul_mag d1 d2 (C / 2) F1 F2) as [F Hm]; [lra|nra|]. split; [exact F|].
  eapply Rle_trans; [exact Hm|]. assert (C / 2 * u <= C / 2 * / 1000) by (apply Rmult_le_compat_l; lra). lra.
Qed.

(* sliding branch: delta = x - old; m' = m + delta / p; delta2 = ((x - m') + old) - m; m2' = m2 + delta * delta2 *)
Lemma core_B (m m2 x old : float) (p : N) (B : R) : (0 < p < 9007199254740992)%N ->
  finF m -> finF m2 -> okin M x -> okin M old -> Rabs (FR m) <= B -> 3 * M <= B -> B + 3 * M <= W / 4 ->
  Rabs (FR m2) <= 2 * Tn * C ->
  let delta := (x - old)%float in
  let m' := (m + delta / f_ofN p)%float in
  let delta2 := (x - m' + old - m)%float in
  let m2' := (m2 + delta * delta2)%float in
  finF m' /\ Rabs (FR m') <= B + 3 * M /\ finF m2' /\ Rabs (FR m2') <= 2 * (Tn + 1) * C.
Proof.
  intros Hp Fm Fm2 [Fx Hx] [Fo Ho] Hm HB3 HBW Hm2 delta m' delta2 m2'.
  destruct ctx_facts as (Hu0 & Hu1 & He0 & He1 & HM1 & HW16 & HMW & HuW & HWB).
  assert (HuM : u * M <= M / 1000) by (rewrite (Rmult_comm u M); apply Rmult_le_compat_l; lra).
  assert (HuB : u * B <= M / 512) by (apply Rle_trans with (u * W); [apply Rmult_le_compat_l; lra|exact HuW]).
  (* delta *)
  destruct (fsub_mag x old (2 * M) Fx Fo) as [Fd Hd]; [eapply Rle_trans; [apply Rabs_triang|]; rewrite Rabs_Ropp; lra|lra|].
  fold delta in Fd, Hd.
  assert (Hd' : Rabs (FR delta) <= 2 * M + M / 100) by (replace (2 * M * (1 + u) + eta) with (2 * M + 2 * (u * M) + eta) in Hd by ring; lra).
  (* q = delta / p *)
  destruct (fdiv_count delta p Fd Hp) as (Fq & e2 & n2 & He2 & Hn2 & Rq); [lra|].
  set (q := (delta / f_ofN p)%float) in *.
  assert (H1p : 1 <= IZR (Z.of_N p)) by (apply IZR_le; lia).
  assert (Hq : Rabs (FR q) <= 3 * M).
  { eapply Rle_trans; [apply (mag_of_err _ _ _ _ Rq He2 Hn2)|].
    assert (Rabs (FR delta / IZR (Z.of_N p)) <= Rabs (FR delta)).
    { apply div_le_bound; [lra|]. rewrite <- (Rmult_1_r (Rabs (FR delta))) at 1. apply Rmult_le_compat_l; [apply Rabs_pos|exact H1p]. }
    assert (Rabs (FR delta / IZR (Z.of_N p)) * (1 + u) <= (2 * M + M / 100) * (1 + u)) by (apply Rmult_le_compat_r; lra).
    assert (u * M <= M / 1000) by exact HuM. nra. }
  (* m' *)
  destruct (fadd_mag m q (B + 3 * M) Fm Fq) as [Fm' Hm']; [eapply Rle_trans; [apply Rabs_triang|]; lra|lra|].
  fold m' in Fm', Hm'.
  assert (Hm'' : Rabs (FR m') <= B + 3 * M + M / 100).
  { replace ((B + 3 * M) * (1 + u) + eta) with (B + 3 * M + u * B + 3 * (u * M) + eta) in Hm' by ring. lra. }
  (* a weaker but sufficient statement for |m'|: we need B + 3M exactly; tighten using |q| <= 2.02M *)
  assert (Hq2 : Rabs (FR q) <= 2 * M + M / 10).
  { eapply Rle_trans; [apply (mag_of_err _ _ _ _ Rq He2 Hn2)|].
    assert (Rabs (FR delta / IZR (Z.of_N p)) <= Rabs (FR delta)).
    { apply div_le_bound; [lra|]. rewrite <- (Rmult_1_r (Rabs (FR delta))) at 1. apply Rmult_le_compat_l; [apply Rabs_pos|exact H1p]. }
    assert (Rabs (FR delta / IZR (Z.of_N p)) * (1 + u) <= (2 * M + M / 100) * (1 + u)) by (apply Rmult_le_compat_r; lra).
    nra. }
  destruct (fadd_mag m q (B + 2 * M + M / 10) Fm Fq) as [_ Hm3]; [eapply Rle_trans; [apply Rabs_triang|]; lra|lra|].
  fold m' in Hm3.
  assert (Hm4 : Rabs (FR m') <= B + 3 * M).
  { lra. }
  (* delta2 = ((x - m') + old) - m *)
  destruct (fsub_mag x m' (W / 2) Fx Fm') as [F1 H1]; [eapply Rle_trans; [apply Rabs_triang|]; rewrite Rabs_Ropp; lra|lra|].
  set (d1 := (x - m')%float) in *.
  assert (HuW2 : W / 2 * u <= M / 1000) by lra.
  assert (H1' : Rabs (FR d1) <= W / 2 + M / 100) by lra.
  destruct (fadd_mag d1 old (W / 2 + 2 * M) F1 Fo) as [F2 H2]; [eapply Rle_trans; [apply Rabs_triang|]; lra|lra|].
  set (d2 := (d1 + old)%float) in *.
  assert (H2' : Rabs (FR d2) <= W / 2 + 3 * M).
  { replace ((W / 2 + 2 * M) * (1 + u) + eta) with (W / 2 + 2 * M + W / 2 * u + 2 * (u * M) + eta) in H2 by ring. lra. }
  destruct (fsub_mag d2 m (W / 2 + W / 4 + 3 * M) F2 Fm) as [F3 H3]; [eapply Rle_trans; [apply Rabs_triang|]; rewrite Rabs_Ropp; lra|lra|].
  fold delta2 in F3, H3.
  assert (H3' : Rabs (FR delta2) <= W).
  { replace ((W / 2 + W / 4 + 3 * M) * (1 + u) + eta) with (W / 2 + W / 4 + 3 * M + 3 / 4 * (u * W) + 3 * (u * M) + eta) in H3 by field. lra. }
  assert (Hdl : Rabs (FR delta) <= W / 2) by lra.
  destruct (prod_bound delta delta2 Fd F3 Hdl H3') as [Fp Hp'].
  destruct (finish_m2 m2 (delta * delta2)%float 0 Fm2 Fp Hm2 Hp') as [F4 H4].
  repeat split; assumption.
Qed.

(* warm-up branch: delta = x - m; m' = m + delta / c; delta2 = x - m'; m2' = m2 + delta * delta2 *)
Lemma core_A (m m2 x : float) (c : N) (B : R) : (0 < c < 9007199254740992)%N ->
  finF m -> finF m2 -> okin M x -> Rabs (FR m) <= B -> 3 * M <= B -> B + 3 * M <= W / 4 ->
  Rabs (FR m2) <= 2 * Tn * C ->
  let delta := (x - m)%float in
  let m' := (m + delta / f_ofN c)%float in
  let delta2 := (x - m')%float in
  let m2' := (m2 + delta * delta2)%float in
  finF m' /\ Rabs (FR m') <= B + 3 * M /\ finF m2' /\ Rabs (FR m2') <= 2 * (Tn + 1) * C.
Proof.
  intros Hc Fm Fm2 [Fx Hx] Hm HB3 HBW Hm2 delta m' delta2 m2'.
  destruct ctx_facts as (Hu0 & Hu1 & He0 & He1 & HM1 & HW16 & HMW & HuW & HWB).
  assert (HuM : u * M <= M / 1000) by (rewrite (Rmult_comm u M); apply Rmult_le_compat_l; lra).
  assert (HuB : u * B <= M / 512) by (apply Rle_trans with (u * W); [apply Rmult_le_compat_l; lra|exact HuW]).
  set (a := FR x - FR m).
  assert (Ha : Rabs a <= W / 4) by (unfold a; eapply Rle_trans; [apply Rabs_triang|]; rewrite Rabs_Ropp; lra).
  destruct (fsub_err x m Fx Fm) as (Fd & e1 & n1 & He1' & Hn1 & Rd); [fold a; lra|]. fold a in Rd. fold delta in Fd, Rd.
  assert (Hda : Rabs (FR delta - a) <= u * Rabs a + eta).
  { rewrite Rd. replace (a * (1 + e1) + n1 - a) with (a * e1 + n1) by ring. eapply Rle_trans; [apply Rabs_triang|].
    rewrite Rabs_mult, (Rmult_comm u). assert (Rabs a * Rabs e1 <= Rabs a * u) by (apply Rmult_le_compat_l; [apply Rabs_pos|lra]). lra. }
  assert (HuA : u * Rabs a <= M / 512) by (apply Rle_trans with (u * W); [apply Rmult_le_compat_l; lra|exact HuW]).
  assert (Hdl : Rabs (FR delta) <= W / 2).
  { replace (FR delta) with ((FR delta - a) + a) by ring. eapply Rle_trans; [apply Rabs_triang|]. lra. }
  destruct (fdiv_count delta c Fd Hc) as (Fq & e2 & n2 & He2 & Hn2 & Rq); [lra|].
  set (q := (delta / f_ofN c)%float) in *.
  assert (H1c : 1 <= IZR (Z.of_N c)) by (apply IZR_le; lia).
  set (ic := / IZR (Z.of_N c)).
  assert (Hic : 0 < ic <= 1) by (unfold ic; split; [apply Rinv_0_lt_compat; lra|rewrite <- Rinv_1; apply Rinv_le_contravar; lra]).
  unfold Rdiv in Rq. fold ic in Rq.
  (* q is close to a * ic *)
  assert (Hqa : Rabs (FR q - a * ic) <= M / 64).
  { rewrite Rq. replace (FR delta * ic * (1 + e2) + n2 - a * ic) with ((FR delta - a) * (ic * (1 + e2)) + (a * ic) * e2 + n2) by ring.
    eapply Rle_trans; [apply Rabs_triang|]. eapply Rle_trans; [apply Rplus_le_compat_r, Rabs_triang|].
    rewrite !Rabs_mult, (Rabs_pos_eq ic) by lra.
    assert (Rabs (1 + e2) <= 2) by (eapply Rle_trans; [apply Rabs_triang|]; rewrite Rabs_R1; lra).
    assert (P1 : Rabs (FR delta - a) * (ic * Rabs (1 + e2)) <= (u * Rabs a + eta) * (1 * 2)).
    { apply Rmult_le_compat; [apply Rabs_pos|apply Rmult_le_pos; [lra|apply Rabs_pos]|exact Hda|apply Rmult_le_compat; try lra; apply Rabs_pos]. }
    assert (P2 : Rabs a * ic * Rabs e2 <= Rabs a * 1 * u).
    { apply Rmult_le_compat; [apply Rmult_le_pos; [apply Rabs_pos|lra]|apply Rabs_pos|apply Rmult_le_compat_l; [apply Rabs_pos|lra]|exact He2]. }
    lra. }
  (* the exact update is a convex combination *)
  assert (Hconv : Rabs (FR m + a * ic) <= B).
  { unfold a. replace (FR m + (FR x - FR m) * ic) with ((1 - ic) * FR m + ic * FR x) by ring.
    eapply Rle_trans; [apply Rabs_triang|]. rewrite !Rabs_mult, (Rabs_pos_eq (1 - ic)), (Rabs_pos_eq ic) by lra.
    assert ((1 - ic) * Rabs (FR m) <= (1 - ic) * B) by (apply Rmult_le_compat_l; lra).
    assert (ic * Rabs (FR x) <= ic * B) by (apply Rmult_le_compat_l; lra). lra. }
  destruct (fadd_mag m q (B + M) Fm Fq) as [Fm' Hm'].
  { replace (FR m + FR q) with ((FR m + a * ic) + (FR q - a * ic)) by ring. eapply Rle_trans; [apply Rabs_triang|]. lra. }
  { lra. }
  fold m' in Fm', Hm'.
  assert (Hm4 : Rabs (FR m') <= B + 3 * M) by lra.
  destruct (fsub_mag x m' (W / 2) Fx Fm') as [F3 H3]; [eapply Rle_trans; [apply Rabs_triang|]; rewrite Rabs_Ropp; lra|lra|].
  fold delta2 in F3, H3.
  assert (H3' : Rabs (FR delta2) <= W) by lra.
  destruct (prod_bound delta delta2 Fd F3 Hdl H3') as [Fp Hp'].
  destruct (finish_m2 m2 (delta * delta2)%float 0 Fm2 Fp Hm2 Hp') as [F4 H4].
  repeat split; assumption.
Qed.
End Core.

(* ---- the output expression: clamp, divide by the count, square root ---- *)
Local Notation fexp := (SpecFloat.fexp prec emax).
Local Notation RN := (round radix2 fexp (round_mode mode_NE)).

Lemma RN_nonneg r : 0 <= r -> 0 <= RN r.
Proof.
  intros H. apply round_ge_generic; [apply (fexp_correct prec emax Hprec)|apply valid_rnd_round_mode|apply generic_format_0|exact H].
Qed.

Lemma fdiv_nonneg a (c : N) : finF a -> 0 <= FR a -> Rabs (FR a) <= BIG -> (0 < c < 9007199254740992)%N ->
  finF (a / f_ofN c)%float /\ 0 <= FR (a / f_ofN c)%float.
Proof.
  intros Fa Ha HB [Hc0 Hc]. destruct (f_ofN_exact c Hc) as [Fc Rc].
  assert (H1 : 1 <= IZR (Z.of_N c)) by (apply IZR_le; lia).
  unfold finF, FR in *. rewrite div_equiv.
  pose proof (Bdiv_correct prec emax Hprec Hmax mode_NE (Prim2B a) (Prim2B (f_ofN c))) as H.
  rewrite Rc in H. specialize (H ltac:(lra)).
  assert (Hq : Rabs (B2R (Prim2B a) / IZR (Z.of_N c)) <= BIG).
  { apply Rle_trans with (Rabs (B2R (Prim2B a))); [|exact HB]. apply div_le_bound; [lra|].
    rewrite <- (Rmult_1_r (Rabs _)) at 1. apply Rmult_le_compat_l; [apply Rabs_pos|exact H1]. }
  rewrite (RN_lt_emax _ Hq) in H. destruct H as (E & Fin & _). split; [rewrite Fin; exact Fa|].
  rewrite E. apply RN_nonneg. apply Rmult_le_pos; [exact Ha|apply Rlt_le, Rinv_0_lt_compat; lra].
Qed.

Lemma fsqrt_nonneg y : finF y -> 0 <= FR y -> finF (PrimFloat.sqrt y) /\ 0 <= FR (PrimFloat.sqrt y).
Proof.
  intros Fy Hy. unfold finF, FR in *. rewrite sqrt_equiv.
  destruct (Bsqrt_correct prec emax Hprec Hmax mode_NE (Prim2B y)) as (E & Fin & _). split.
  - rewrite Fin. destruct (Prim2B y) as [s|s| |s m e Hb]; try discriminate; try reflexivity.
    destruct s; [|reflexivity]. exfalso. cbn in Hy. unfold F2R in Hy. cbn in Hy.
    assert (0 < bpow radix2 e) by apply bpow_gt_0. assert (IZR (Z.neg m) < 0) by (apply IZR_lt; lia). nra.
  - rewrite E. apply RN_nonneg. apply sqrt_pos.
Qed.

Lemma clamp_nonneg (m2 : float) : finF m2 ->
  let m2c := if (m2 <? 0)%float then 0%float else m2 in finF m2c /\ 0 <= FR m2c /\ Rabs (FR m2c) <= Rabs (FR m2).
Proof.
  intros F. cbv zeta. rewrite ltb_equiv. unfold finF in F. rewrite Bltb_correct by (try exact F; reflexivity).
  change (B2R (Prim2B 0)) with 0. fold (FR m2). destruct (Rlt_bool_spec (FR m2) 0) as [Hlt|Hge].
  - split; [exact finF_zero|]. rewrite FR_zero, Rabs_R0. split; [lra|apply Rabs_pos].
  - split; [exact F|]. split; [exact Hge|lra].
Qed.

(* ---- the model: one step and the whole stream ---- *)
Open Scope R_scope.

Definition fsd_inv (M : R) (s : @Sd float) (t : nat) : Prop :=
  let W := Wof M in
  wf_sd s /\ Forall (okin M) (sd_deque s) /\
  finF (sd_m s) /\ Rabs (FR (sd_m s)) <= 3 * (INR t + 1) * M /\
  finF (sd_m2 s) /\ Rabs (FR (sd_m2 s)) <= 2 * INR t * (W * W).

Lemma Forall_firstn {A} (P : A -> Prop) n (l : list A) : Forall P l -> Forall P (firstn n l).
Proof. revert l; induction n as [|n IH]; intros l H; [constructor|]. destruct l; [constructor|]. inversion H; subst. cbn. constructor; auto. Qed.
Lemma Forall_skipn {A} (P : A -> Prop) n (l : list A) : Forall P l -> Forall P (skipn n l).
Proof. revert l; induction n as [|n IH]; intros l H; [exact H|]. destruct l; [constructor|]. inversion H; subst. cbn. auto. Qed.
Lemma Forall_set_nth {A} (P : A -> Prop) (l : list A) i x : Forall P l -> P x -> Forall P (set_nth l i x).
Proof.
  intros Hl Hx. unfold set_nth. apply Forall_app. split; [apply Forall_firstn; exact Hl|].
  constructor; [exact Hx|apply Forall_skipn; exact Hl].
Qed.

Lemma fsd_step M s t x : 1 <= M -> M <= bpow radix2 400 -> INR t + 2 <= bpow radix2 40 ->
  (sd_period s < 9007199254740992)%N -> fsd_inv M s t -> okin M x ->
  exists s' o, sd_next O s x = Ok (s', o) /\ fsd_inv M s' (S t) /\ sd_period s' = sd_period s /\ finF o /\ 0 <= FR o.
Proof.
  intros HM1 HM2 Ht Hp53 (Wf & Hdq & Fm & Hm & Fm2 & Hm2) Hx. pose proof Wf as (H1 & H2 & H3 & H4 & H5).
  pose proof (sdctx_intro M t HM1 HM2 Ht) as ctx. set (W := Wof M) in *. set (C := W * W) in *.
  assert (Hi : (N.to_nat (sd_index s) < length (sd_deque s))%nat) by lia.
  unfold sd_next. rewrite (idx_ok _ _ 0%float Hi), (upd_ok _ _ x Hi). cbn [bind].
  rewrite advance_ok by (try exact H3; unfold ALLOC_MAX, USIZE_MAX in *; lia). cbn [bind].
  set (old := nth (N.to_nat (sd_index s)) (sd_deque s) 0%float).
  assert (Hold : okin M old) by (unfold old; rewrite Forall_forall in Hdq; apply Hdq, nth_In; exact Hi).
  set (B := 3 * (INR t + 1) * M) in *.
  assert (Ht0 : 0 <= INR t) by apply pos_INR.
  assert (HB3 : 3 * M <= B) by (unfold B; nra).
  assert (HBW : B + 3 * M <= W / 4).
  { unfold B, W, Wof. replace (3 * (INR t + 1) * M + 3 * M) with (3 * (INR t + 2) * M) by ring.
    assert (3 * (INR t + 2) <= 3 * bpow radix2 40) by lra.
    assert (E : bpow radix2 44 = 16 * bpow radix2 40) by (change 44%Z with (4 + 40)%Z; rewrite bpow_plus; cbn; lra).
    rewrite E. assert (3 * (INR t + 2) * M <= 3 * bpow radix2 40 * M) by (apply Rmult_le_compat_r; lra).
    assert (0 <= bpow radix2 40 * M) by (apply Rmult_le_pos; [apply bpow_ge_0|lra]). lra. }
  assert (HB' : B + 3 * M = 3 * (INR (S t) + 1) * M) by (unfold B; rewrite S_INR; ring).
  assert (HT' : 2 * (INR t + 1) * C = 2 * INR (S t) * C) by (rewrite S_INR; ring).
  set (dq := set_nth (sd_deque s) (N.to_nat (sd_index s)) x).
  assert (Hdq' : Forall (okin M) dq) by (apply Forall_set_nth; assumption).
  assert (Ldq : length dq = N.to_nat (sd_period s)) by (unfold dq; rewrite set_nth_length; lia).
  destruct (N.ltb_spec (sd_count s) (sd_period s)) as [Hlt|Hge].
  - (* warm-up *)
    rewrite uadd_ok by (unfold ALLOC_MAX, USIZE_MAX in *; lia). cbn [bind].
    destruct (core_A M W C (INR t) ctx (sd_m s) (sd_m2 s) x (sd_count s + 1)%N B ltac:(lia) Fm Fm2 Hx Hm HB3 HBW Hm2)
      as (Fm' & Hm' & Fm2' & Hm2').
    cbn [sub add div mul ofN ltb zero sqrt O] in *.
    set (m' := (sd_m s + (x - sd_m s) / f_ofN (sd_count s + 1))%float) in *.
    set (m2' := (sd_m2 s + (x - sd_m s) * (x - m'))%float) in *.
    destruct (clamp_nonneg m2' Fm2') as (Fc & Hc0 & Hcle). cbv zeta in Fc, Hc0, Hcle.
    set (m2c := if (m2' <? 0)%float then 0%float else m2') in *.
    destruct (fdiv_nonneg m2c (sd_count s + 1)%N Fc Hc0) as [Fy Hy]; [|lia|].
    { destruct ctx. eapply Rle_trans; [exact Hcle|]. eapply Rle_trans; [exact Hm2'|]. fold C. nra. }
    destruct (fsqrt_nonneg _ Fy Hy) as [Fo Ho].
    eexists. eexists. split; [reflexivity|]. split; [|split; [reflexivity|split; assumption]].
    unfold fsd_inv. cbn [sd_period sd_index sd_count sd_m sd_m2 sd_deque]. fold W. fold C.
    split; [unfold wf_sd, ring_wf; cbn; pose proof (advance_lt _ _ H3); repeat split; lia|].
    split; [exact Hdq'|]. split; [exact Fm'|]. split; [rewrite <- HB'; exact Hm'|]. split; [exact Fc|].
    eapply Rle_trans; [exact Hcle|]. rewrite <- HT'. exact Hm2'.
  - (* sliding *)
    cbn [bind].
    assert (Hcp : sd_count s = sd_period s) by lia.
    destruct (core_B M W C (INR t) ctx (sd_m s) (sd_m2 s) x old (sd_period s) B ltac:(lia) Fm Fm2 Hx Hold Hm HB3 HBW Hm2)
      as (Fm' & Hm' & Fm2' & Hm2').
    cbn [sub add div mul ofN ltb zero sqrt O] in *.
    set (m' := (sd_m s + (x - old) / f_ofN (sd_period s))%float) in *.
    set (m2' := (sd_m2 s + (x - old) * (x - m' + old - sd_m s))%float) in *.
    destruct (clamp_nonneg m2' Fm2') as (Fc & Hc0 & Hcle). cbv zeta in Fc, Hc0, Hcle.
    set (m2c := if (m2' <? 0)%float then 0%float else m2') in *.
    destruct (fdiv_nonneg m2c (sd_count s) Fc Hc0) as [Fy Hy]; [|lia|].
    { destruct ctx. eapply Rle_trans; [exact Hcle|]. eapply Rle_trans; [exact Hm2'|]. fold C. nra. }
    destruct (fsqrt_nonneg _ Fy Hy) as [Fo Ho].
    eexists. eexists. split; [reflexivity|]. split; [|split; [reflexivity|split; assumption]].
    unfold fsd_inv. cbn [sd_period sd_index sd_count sd_m sd_m2 sd_deque]. fold W. fold C.
    split; [unfold wf_sd, ring_wf; cbn; pose proof (advance_lt _ _ H3); repeat split; lia|].
    split; [exact Hdq'|]. split; [exact Fm'|]. split; [rewrite <- HB'; exact Hm'|]. split; [exact Fc|].
    eapply Rle_trans; [exact Hcle|]. rewrite <- HT'. exact Hm2'.
Qed.

From TA Require Import Proofs.Wiring.
Open Scope R_scope.

Lemma fsd_inv_new M p s : 1 <= M -> sd_new O p = Ok s -> fsd_inv M s 0.
Proof.
  intros HM H. pose proof (sd_new_inv O p s H) as (A & B & W0 & Pe).
  rewrite sd_new_ok in H by assumption. injection H as <-. unfold fsd_inv. cbn [sd_period sd_index sd_count sd_m sd_m2 sd_deque].
  split; [exact W0|]. split; [apply Forall_forall; intros y Hy; apply repeat_spec in Hy; subst; apply okin_zero; lra|].
  change (zero O) with 0%float. rewrite FR_zero, Rabs_R0. cbn [INR].
  split; [exact finF_zero|]. split; [lra|]. split; [exact finF_zero|]. lra.
Qed.

Lemma fsd_run M : 1 <= M -> M <= bpow radix2 400 ->
  forall xs (s : @Sd float) t, (sd_period s < 9007199254740992)%N -> fsd_inv M s t -> Forall (okin M) xs ->
  INR (t + length xs) + 2 <= bpow radix2 40 ->
  Forall (fun o => finF o /\ 0 <= FR o) (res_outs (sd_next O) s xs).
Proof.
  intros HM1 HM2. induction xs as [|x xs IH]; intros s t Hp Hinv Hxs Ht; [constructor|].
  pose proof (Forall_inv Hxs) as Hx. pose proof (Forall_inv_tail Hxs) as Hxs'.
  assert (Ht1 : INR t + 2 <= bpow radix2 40).
  { eapply Rle_trans; [|exact Ht]. apply Rplus_le_compat_r. apply le_INR. lia. }
  destruct (fsd_step M s t x HM1 HM2 Ht1 Hp Hinv Hx) as (s' & o & E & Hinv' & Hp' & Fo & Ho).
  cbn [res_outs]. rewrite E. constructor; [split; assumption|].
  apply (IH s' (S t)); [rewrite Hp'; exact Hp|exact Hinv'|exact Hxs'|].
  replace (S t + length xs)%nat with (t + length (x :: xs))%nat by (cbn [length]; lia). exact Ht.
Qed.

(* binary64 StandardDeviation: every output is a finite non-negative number — never NaN — for every period below 2^53 and
   every stream of at most 2^40 - 2 finite inputs of magnitude at most M, 1 <= M <= 2^400 *)
Theorem sd_float_never_nan : forall p s xs M, sd_new O p = Ok s -> (p < 9007199254740992)%N ->
  1 <= M -> M <= bpow radix2 400 -> Forall (okin M) xs -> INR (length xs) + 2 <= bpow radix2 40 ->
  Forall (fun o => finF o /\ 0 <= FR o) (Wiring.sd_outs O s xs).
Proof.
  intros p s xs M H Hp HM1 HM2 Hxs Ht. pose proof (sd_new_inv O p s H) as (_ & _ & _ & Pe).
  apply (fsd_run M HM1 HM2 xs s 0%nat); [rewrite Pe; exact Hp|apply (fsd_inv_new M p s HM1 H)|exact Hxs|exact Ht].
Qed.
