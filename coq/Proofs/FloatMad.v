(* MeanAbsoluteDeviation on binary64 never returns NaN or a negative number on streams of finite inputs of magnitude at most
   2^400 (up to 2^40 - 2 inputs, periods below 2^50): crude magnitude invariants keep every intermediate value finite; sums of
   absolute values and their rounded quotient are non-negative because rounding to nearest is monotone. *)
From Coq Require Import Reals Lra Lia ZArith List Floats.
From Flocq Require Import Core BinarySingleNaN PrimFloat.
From TA Require Import Base Model FloatInst Proofs.Prims Proofs.WF Proofs.FloatErr Proofs.FloatSma Proofs.FloatEma Proofs.FloatSd Proofs.FloatFast.
Import ListNotations.
Open Scope R_scope.
Local Notation O := FOps.
Local Notation float := PrimFloat.float.
Local Notation fexp := (SpecFloat.fexp prec emax).
Local Notation RN := (round radix2 fexp (round_mode mode_NE)).

Lemma fabs_exact a : finF a -> finF (PrimFloat.abs a) /\ FR (PrimFloat.abs a) = Rabs (FR a).
Proof. intros Fa. unfold finF, FR in *. rewrite abs_equiv, is_finite_Babs, B2R_Babs. split; [exact Fa|reflexivity]. Qed.

Lemma fadd_exact a b : finF a -> finF b -> Rabs (FR a + FR b) <= BIG ->
  finF (a + b)%float /\ FR (a + b)%float = RN (FR a + FR b).
Proof.
  intros Fa Fb Hb. unfold finF, FR in *. rewrite add_equiv.
  pose proof (Bplus_correct prec emax Hprec Hmax mode_NE (Prim2B a) (Prim2B b) Fa Fb) as H.
  rewrite (RN_lt_emax _ Hb) in H. destruct H as (E & Fin & _). split; assumption.
Qed.

(* the inner loop: acc <- acc + |v - mean| over the window *)
Lemma mad_fold (mean : float) (V : R) : finF mean -> 1 <= V -> V <= bpow radix2 500 ->
  forall (vals : list float) (acc : float) (j : nat),
  Forall (fun v => finF v /\ Rabs (FR v - FR mean) <= V / 2) vals ->
  finF acc -> 0 <= FR acc <= 2 * INR j * V -> (INR (j + length vals) * u <= / 8) -> INR (j + length vals) <= bpow radix2 52 ->
  let r := fold_left (fun a v => (a + PrimFloat.abs (v - mean))%float) vals acc in
  finF r /\ 0 <= FR r <= 2 * INR (j + length vals) * V.
Proof.
  intros Fm HV1 HV2. pose proof u_pos as Hu0. pose proof u_le as Hu1. pose proof eta_pos as He0. pose proof eta_le as He1.
  assert (HVB : bpow radix2 54 * V <= BIG / 4).
  { unfold BIG. apply Rle_trans with (bpow radix2 54 * bpow radix2 500); [apply Rmult_le_compat_l; [apply bpow_ge_0|exact HV2]|].
    rewrite <- bpow_plus. apply Rle_trans with (bpow radix2 998); [apply bpow_le; lia|]. change 1000%Z with (2 + 998)%Z. rewrite bpow_plus. cbn. pose proof (bpow_gt_0 radix2 998). lra. }
  induction vals as [|v vals IH]; intros acc j Hv Fa Ha Hju Hj52 r.
  - cbn in r. unfold r. rewrite Nat.add_0_r in *. split; [exact Fa|exact Ha].
  - pose proof (Forall_inv Hv) as [Fv Hvm]. pose proof (Forall_inv_tail Hv) as Hv'.
    cbn [fold_left] in r. cbn [length] in *.
    assert (HjS : INR (S j) <= INR (j + S (length vals))) by (apply le_INR; lia).
    assert (Hj0 : 0 <= INR j) by apply pos_INR.
    destruct (fsub_mag v mean (V / 2) Fv Fm Hvm) as [Fd Hd].
    { assert (V <= bpow radix2 54 * V) by (rewrite <- (Rmult_1_l V) at 1; apply Rmult_le_compat_r; [lra|]; change 1 with (bpow radix2 0); apply bpow_le; lia). lra. }
    destruct (fabs_exact _ Fd) as [Fab Eab].
    set (a := PrimFloat.abs (v - mean)) in *.
    assert (Hab : 0 <= FR a <= V).
    { rewrite Eab. split; [apply Rabs_pos|]. eapply Rle_trans; [exact Hd|]. assert (V / 2 * u <= V / 2 * / 1000) by (apply Rmult_le_compat_l; lra). lra. }
    assert (HjV : 2 * INR j * V <= bpow radix2 53 * V).
    { apply Rmult_le_compat_r; [lra|]. apply Rle_trans with (2 * bpow radix2 52); [apply Rmult_le_compat_l; [lra|]; eapply Rle_trans; [|exact Hj52]; apply le_INR; lia|].
      change 53%Z with (1 + 52)%Z. rewrite bpow_plus. cbn. lra. }
    assert (Hb54 : bpow radix2 53 * V + V <= bpow radix2 54 * V).
    { change 54%Z with (1 + 53)%Z. rewrite bpow_plus. cbn [bpow Z.pow_pos Pos.iter Z.mul Pos.mul radix_val radix2].
      assert (1 <= bpow radix2 53) by (change 1 with (bpow radix2 0); apply bpow_le; lia).
      assert (V <= bpow radix2 53 * V) by (rewrite <- (Rmult_1_l V) at 1; apply Rmult_le_compat_r; lra). lra. }
    destruct (fadd_exact acc a Fa Fab) as [Fs Es]; [rewrite Rabs_pos_eq; lra|].
    set (acc' := (acc + a)%float) in *.
    assert (Hs0 : 0 <= FR acc') by (rewrite Es; apply RN_nonneg; lra).
    assert (Hs1 : FR acc' <= 2 * INR (S j) * V).
    { destruct (fadd_mag acc a (2 * INR j * V + V) Fa Fab) as [_ Hm]; [rewrite Rabs_pos_eq; lra|lra|].
      rewrite Rabs_pos_eq in Hm by exact Hs0. eapply Rle_trans; [exact Hm|]. rewrite S_INR.
      assert (Hx : INR j * u <= / 8) by (eapply Rle_trans; [|exact Hju]; apply Rmult_le_compat_r; [lra|]; apply le_INR; lia).
      assert (Hy : (2 * INR j * V + V) * u = 2 * (INR j * u) * V + u * V) by ring.
      assert (2 * (INR j * u) * V <= 2 * / 8 * V) by (apply Rmult_le_compat_r; lra).
      assert (u * V <= / 1000 * V) by (apply Rmult_le_compat_r; lra).
      replace ((2 * INR j * V + V) * (1 + u) + eta) with (2 * INR j * V + V + (2 * INR j * V + V) * u + eta) by ring. rewrite Hy. lra. }
    destruct (IH acc' (S j) Hv' Fs (conj Hs0 Hs1)) as [Fr Hr].
    { replace (S j + length vals)%nat with (j + S (length vals))%nat by lia. exact Hju. }
    { replace (S j + length vals)%nat with (j + S (length vals))%nat by lia. exact Hj52. }
    replace (j + S (length vals))%nat with (S j + length vals)%nat by lia. split; assumption.
Qed.

(* ---- the model ---- *)
Definition fmad_inv (M : R) (s : @Mad float) (t : nat) : Prop :=
  wf_mad s /\ Forall (okin M) (mad_deque s) /\ finF (mad_sum s) /\ Rabs (FR (mad_sum s)) <= 3 * INR t * M.

Lemma fmad_step M s t x : 1 <= M -> M <= bpow radix2 400 -> INR t + 2 <= bpow radix2 40 ->
  (mad_period s < 1125899906842624)%N -> fmad_inv M s t -> okin M x ->
  exists s' o, mad_next O s x = Ok (s', o) /\ fmad_inv M s' (S t) /\ mad_period s' = mad_period s /\ finF o /\ 0 <= FR o.
Proof.
  intros HM1 HM2 Ht Hp50 (Wf & Hdq & Fs & Hs) [Fx Hx]. pose proof Wf as (H1 & H2 & H3 & H4 & H5).
  pose proof u_pos as Hu0. pose proof u_le as Hu1. pose proof eta_pos as He0. pose proof eta_le as He1. pose proof BIG_ge as HB.
  assert (Ht0 : 0 <= INR t) by apply pos_INR.
  assert (B40 : bpow radix2 40 = 1099511627776) by (cbn; lra).
  assert (HtM : 0 <= INR t * M) by (apply Rmult_le_pos; lra).
  assert (Htu : INR t * u <= / 1000).
  { apply Rle_trans with (bpow radix2 40 * u); [apply Rmult_le_compat_r; lra|].
    unfold u. change (- prec + 1)%Z with (-52)%Z. rewrite (Rmult_comm (/ 2)), <- Rmult_assoc, <- bpow_plus. cbn. lra. }
  assert (HtuM : INR t * u * M <= / 1000 * M) by (apply Rmult_le_compat_r; lra).
  assert (HuM : u * M <= / 1000 * M) by (apply Rmult_le_compat_r; lra).
  assert (HMB : bpow radix2 43 * M <= BIG / 4).
  { unfold BIG. apply Rle_trans with (bpow radix2 43 * bpow radix2 400); [apply Rmult_le_compat_l; [apply bpow_ge_0|exact HM2]|].
    rewrite <- bpow_plus. apply Rle_trans with (bpow radix2 998); [apply bpow_le; lia|]. change 1000%Z with (2 + 998)%Z. rewrite bpow_plus. cbn. pose proof (bpow_gt_0 radix2 998). lra. }
  assert (HtM43 : 4 * (INR t + 2) * M <= bpow radix2 43 * M).
  { apply Rmult_le_compat_r; [lra|]. change 43%Z with (3 + 40)%Z. rewrite bpow_plus. cbn [bpow Z.pow_pos Pos.iter Z.mul Pos.mul radix_val radix2]. lra. }
  assert (Hi : (N.to_nat (mad_index s) < length (mad_deque s))%nat) by lia.
  set (old := nth (N.to_nat (mad_index s)) (mad_deque s) 0%float).
  assert (Hold : okin M old) by (unfold old; rewrite Forall_forall in Hdq; apply Hdq, nth_In; exact Hi).
  destruct Hold as [Fo Ho].
  set (dq := set_nth (mad_deque s) (N.to_nat (mad_index s)) x).
  assert (Hdq' : Forall (okin M) dq) by (apply Forall_set_nth; [exact Hdq|split; assumption]).
  assert (Ldq : length dq = N.to_nat (mad_period s)) by (unfold dq; rewrite set_nth_length; lia).
  (* common continuation after (count', sum') is known *)
  assert (Kont : forall (c' : N) (sum' : float), (0 < c' <= mad_period s)%N -> finF sum' -> Rabs (FR sum') <= 3 * INR (S t) * M ->
    exists s' o,
      (dq0 <- upd (mad_deque s) (mad_index s) x ;; index <- advance (mad_period s) (mad_index s) ;;
       let mean := div O sum' (ofN O c') in
       vals <- slice dq0 0 c' ;;
       let mad := fold_left (fun acc value => add O acc (abs O (sub O value mean))) vals (zero O) in
       Ok (mkMad (mad_period s) index c' sum' dq0, div O mad (ofN O c'))) = Ok (s', o) /\
      fmad_inv M s' (S t) /\ mad_period s' = mad_period s /\ finF o /\ 0 <= FR o).
  { intros c' sum' Hc' Fs' Hs'. rewrite (upd_ok _ _ x Hi). cbn [bind].
    rewrite advance_ok by (try exact H3; unfold ALLOC_MAX, USIZE_MAX in *; lia). cbn [bind].
    fold dq. rewrite slice_ok by (rewrite ?Ldq; lia). cbn [bind]. rewrite Nat.sub_0_r. cbn [skipn].
    rewrite S_INR in Hs'.
    destruct (fdiv_count sum' c' Fs') as (Fmean & e & n & He & Hn & Rm); [lia|lra|].
    cbn [div ofN O]. set (mean := (sum' / f_ofN c')%float) in *.
    assert (H1c : 1 <= IZR (Z.of_N c')) by (apply IZR_le; lia).
    assert (Hmean : Rabs (FR mean) <= 4 * (INR t + 1) * M).
    { eapply Rle_trans; [apply (mag_of_err _ _ _ _ Rm He Hn)|].
      assert (Rabs (FR sum' / IZR (Z.of_N c')) <= Rabs (FR sum')).
      { apply div_le_bound; [lra|]. rewrite <- (Rmult_1_r (Rabs (FR sum'))) at 1. apply Rmult_le_compat_l; [apply Rabs_pos|exact H1c]. }
      assert (Rabs (FR sum' / IZR (Z.of_N c')) * (1 + u) <= 3 * (INR t + 1) * M * (1 + u)) by (apply Rmult_le_compat_r; lra).
      replace (3 * (INR t + 1) * M * (1 + u)) with (3 * (INR t + 1) * M + 3 * (INR t * u * M) + 3 * (u * M)) in H0 by ring. lra. }
    set (V := 2 * ((4 * INR t + 5) * M)).
    assert (HV1 : 1 <= V) by (unfold V; nra).
    assert (HV2 : V <= bpow radix2 500).
    { unfold V. apply Rle_trans with (2 * (bpow radix2 43 * M)); [lra|].
      apply Rle_trans with (bpow radix2 1 * (bpow radix2 43 * bpow radix2 400)); [change (bpow radix2 1) with 2; apply Rmult_le_compat_l; [lra|]; apply Rmult_le_compat_l; [apply bpow_ge_0|exact HM2]|].
      rewrite <- !bpow_plus. apply bpow_le. lia. }
    set (vals := firstn (N.to_nat c') dq).
    assert (Hvals : Forall (fun v => finF v /\ Rabs (FR v - FR mean) <= V / 2) vals).
    { unfold vals. apply Forall_firstn. eapply Forall_impl; [|exact Hdq']. intros v [Fv Hv]. split; [exact Fv|].
      eapply Rle_trans; [apply Rabs_triang|]. rewrite Rabs_Ropp. unfold V. lra. }
    assert (Lv : length vals = N.to_nat c') by (unfold vals; rewrite firstn_length; lia).
    assert (Hpu : INR (0 + length vals) * u <= / 8).
    { cbn [Nat.add]. rewrite Lv. apply Rle_trans with (bpow radix2 50 * u).
      - apply Rmult_le_compat_r; [lra|]. rewrite INR_IZR_INZ, N_nat_Z. change (bpow radix2 50) with (IZR (2 ^ 50)). apply IZR_le. lia.
      - unfold u. change (- prec + 1)%Z with (-52)%Z. rewrite (Rmult_comm (/ 2)), <- Rmult_assoc, <- bpow_plus. cbn. lra. }
    assert (Hp52 : INR (0 + length vals) <= bpow radix2 52).
    { cbn [Nat.add]. rewrite Lv, INR_IZR_INZ, N_nat_Z. change (bpow radix2 52) with (IZR (2 ^ 52)). apply IZR_le. lia. }
    destruct (mad_fold mean V Fmean HV1 HV2 vals 0%float 0%nat Hvals finF_zero) as [Fr Hr]; [rewrite FR_zero; cbn; lra|exact Hpu|exact Hp52|].
    cbn [Nat.add] in Hr, Hp52, Hpu. cbn [add abs sub zero O].
    set (r := fold_left (fun a v => (a + PrimFloat.abs (v - mean))%float) vals 0%float) in *.
    assert (HrB : Rabs (FR r) <= BIG).
    { rewrite Rabs_pos_eq by lra. eapply Rle_trans; [apply Hr|].
      assert (Q1 : 0 <= 2 * INR (length vals)) by (apply Rmult_le_pos; [lra|apply pos_INR]).
      assert (Q2 : 2 * INR (length vals) <= 2 * bpow radix2 52) by (apply Rmult_le_compat_l; lra).
      apply Rle_trans with (2 * bpow radix2 52 * bpow radix2 500); [apply Rmult_le_compat; lra|].
      unfold BIG. change 2 with (bpow radix2 1). rewrite <- !bpow_plus. apply bpow_le. lia. }
    destruct (fdiv_nonneg r c' Fr (proj1 Hr) HrB) as [Fo' Ho']; [lia|].
    eexists. eexists. split; [reflexivity|]. split; [|split; [reflexivity|split; assumption]].
    unfold fmad_inv. cbn [mad_period mad_index mad_count mad_sum mad_deque].
    split; [unfold wf_mad, ring_wf; cbn; pose proof (advance_lt _ _ H3); repeat split; lia|].
    split; [exact Hdq'|]. split; [exact Fs'|]. rewrite S_INR. exact Hs'. }
  unfold mad_next.
  destruct (N.ltb_spec (mad_count s) (mad_period s)) as [Hlt|Hge].
  - rewrite uadd_ok by (unfold ALLOC_MAX, USIZE_MAX in *; lia). cbn [bind].
    destruct (fadd_mag (mad_sum s) x (3 * INR t * M + M) Fs Fx) as [Fs' Hs']; [eapply Rle_trans; [apply Rabs_triang|]; lra|lra|].
    cbn [add O]. apply (Kont (mad_count s + 1)%N _ ltac:(lia) Fs').
    rewrite S_INR. eapply Rle_trans; [exact Hs'|].
    replace ((3 * INR t * M + M) * (1 + u) + eta) with (3 * INR t * M + M + 3 * (INR t * u * M) + u * M + eta) by ring. lra.
  - rewrite (idx_ok _ _ 0%float Hi). cbn [bind]. fold old.
    destruct (fadd_mag (mad_sum s) x (3 * INR t * M + M) Fs Fx) as [Fs1 Hs1]; [eapply Rle_trans; [apply Rabs_triang|]; lra|lra|].
    assert (Hs1' : Rabs (FR (mad_sum s + x)%float) <= 3 * INR t * M + M + M / 100).
    { eapply Rle_trans; [exact Hs1|]. replace ((3 * INR t * M + M) * (1 + u) + eta) with (3 * INR t * M + M + 3 * (INR t * u * M) + u * M + eta) by ring. lra. }
    destruct (fsub_mag (mad_sum s + x)%float old (3 * INR t * M + 2 * M + M / 100) Fs1 Fo) as [Fs' Hs'];
      [eapply Rle_trans; [apply Rabs_triang|]; rewrite Rabs_Ropp; lra|lra|].
    cbn [add sub O]. apply (Kont (mad_count s) _ ltac:(lia) Fs').
    rewrite S_INR. eapply Rle_trans; [exact Hs'|].
    replace ((3 * INR t * M + 2 * M + M / 100) * (1 + u) + eta) with (3 * INR t * M + 2 * M + M / 100 + 3 * (INR t * u * M) + 2 * (u * M) + u * M / 100 + eta) by field. lra.
Qed.

From TA Require Import Proofs.Wiring.
Open Scope R_scope.

Lemma fmad_inv_new M p s : 1 <= M -> mad_new O p = Ok s -> fmad_inv M s 0.
Proof.
  intros HM H. pose proof (mad_new_inv O p s H) as (A & B & W0 & Pe).
  rewrite mad_new_ok in H by assumption. injection H as <-. unfold fmad_inv. cbn [mad_period mad_index mad_count mad_sum mad_deque].
  split; [exact W0|]. split; [apply Forall_forall; intros y Hy; apply repeat_spec in Hy; subst; apply okin_zero; lra|].
  change (zero O) with 0%float. rewrite FR_zero, Rabs_R0. cbn [INR]. split; [exact finF_zero|lra].
Qed.

Lemma fmad_run M : 1 <= M -> M <= bpow radix2 400 ->
  forall xs (s : @Mad float) t, (mad_period s < 1125899906842624)%N -> fmad_inv M s t -> Forall (okin M) xs ->
  INR (t + length xs) + 2 <= bpow radix2 40 ->
  Forall (fun o => finF o /\ 0 <= FR o) (res_outs (mad_next O) s xs).
Proof.
  intros HM1 HM2. induction xs as [|x xs IH]; intros s t Hp Hinv Hxs Ht; [constructor|].
  pose proof (Forall_inv Hxs) as Hx. pose proof (Forall_inv_tail Hxs) as Hxs'.
  assert (Ht1 : INR t + 2 <= bpow radix2 40).
  { eapply Rle_trans; [|exact Ht]. apply Rplus_le_compat_r. apply le_INR. lia. }
  destruct (fmad_step M s t x HM1 HM2 Ht1 Hp Hinv Hx) as (s' & o & E & Hinv' & Hp' & Fo & Ho).
  cbn [res_outs]. rewrite E. constructor; [split; assumption|].
  apply (IH s' (S t)); [rewrite Hp'; exact Hp|exact Hinv'|exact Hxs'|].
  replace (S t + length xs)%nat with (t + length (x :: xs))%nat by (cbn [length]; lia). exact Ht.
Qed.

(* binary64 MeanAbsoluteDeviation: every output is a finite non-negative number — never NaN — for every period below 2^50 and
   every stream of at most 2^40 - 2 finite inputs of magnitude at most M, 1 <= M <= 2^400 *)
Theorem mad_float_never_nan : forall p s xs M, mad_new O p = Ok s -> (p < 1125899906842624)%N ->
  1 <= M -> M <= bpow radix2 400 -> Forall (okin M) xs -> INR (length xs) + 2 <= bpow radix2 40 ->
  Forall (fun o => finF o /\ 0 <= FR o) (Wiring.mad_outs O s xs).
Proof.
  intros p s xs M H Hp HM1 HM2 Hxs Ht. pose proof (mad_new_inv O p s H) as (_ & _ & _ & Pe).
  apply (fmad_run M HM1 HM2 xs s 0%nat); [rewrite Pe; exact Hp|apply (fmad_inv_new M p s HM1 H)|exact Hxs|exact Ht].
Qed.
