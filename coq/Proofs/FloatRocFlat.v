(* C08 on binary64, exactly: RateOfChange on a window whose reference price equals the current price x (x finite, non-zero) returns a
   zero (FR = 0, finite): x - x is +0.0, 0 / x rounds to a zero, a zero times 100 is a zero. With GRoc (ROC is groc_val of the window
   reference and the input for every number type) this is the value the implementation returns on every flat window. *)
From Coq Require Import Reals Lra Lia ZArith List Floats.
From Flocq Require Import Core BinarySingleNaN PrimFloat.
From TA Require Import Base Model FloatInst Proofs.FloatErr Proofs.FloatOnePrice Proofs.GRoc.
Import ListNotations.
Open Scope R_scope.
Local Notation O := FOps.
Local Notation float := PrimFloat.float.
Local Notation fexp := (SpecFloat.fexp prec emax).
Local Notation RN := (round radix2 fexp (round_mode mode_NE)).

Lemma BIG_pos : 0 <= BIG. Proof. unfold BIG. apply bpow_ge_0. Qed.

Lemma fdiv_zero_num (a b : float) : finF a -> FR a = 0 -> FR b <> 0 -> finF (a / b)%float /\ FR (a / b)%float = 0.
Proof.
  intros Fa Za Nb. unfold finF, FR in *. rewrite div_equiv.
  pose proof (Bdiv_correct prec emax Hprec Hmax mode_NE (Prim2B a) (Prim2B b) Nb) as H.
  rewrite Za in H. unfold Rdiv in H. rewrite Rmult_0_l, round_0 in H by apply valid_rnd_round_mode.
  rewrite Rabs_R0, Rlt_bool_true in H by apply bpow_gt_0.
  destruct H as (E & Fin & _). split; [rewrite Fin; exact Fa|exact E].
Qed.

Lemma fmul_zero_l (a b : float) : finF a -> finF b -> FR a = 0 -> finF (a * b)%float /\ FR (a * b)%float = 0.
Proof.
  intros Fa Fb Za. unfold finF, FR in *. rewrite mul_equiv.
  pose proof (Bmult_correct prec emax Hprec Hmax mode_NE (Prim2B a) (Prim2B b)) as H.
  rewrite Za, Rmult_0_l, round_0 in H by apply valid_rnd_round_mode.
  rewrite Rabs_R0, Rlt_bool_true in H by apply bpow_gt_0.
  destruct H as (E & Fin & _). split; [rewrite Fin, Fa, Fb; reflexivity|exact E].
Qed.

Theorem roc_flat_float (x : float) : finF x -> FR x <> 0 -> finF (groc_val O x x) /\ FR (groc_val O x x) = 0.
Proof.
  intros Fx Nx. unfold groc_val. cbn [sub div mul c100 O].
  rewrite (sub_self x Fx).
  destruct (fdiv_zero_num 0%float x finF_zero FR_zero Nx) as [F1 Z1].
  apply fmul_zero_l; [exact F1|reflexivity|exact Z1].
Qed.
