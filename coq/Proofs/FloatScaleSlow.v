(* C14 on binary64, whole streams (scalar path): SlowStochastic — the EMA of FastStochastic's %K — is UNCHANGED (as values) by 2^k. *)
From Coq Require Import Reals Lra Lia ZArith List Floats.
From Flocq Require Import Core.
From TA Require Import Base Model FloatInst Proofs.Wiring Proofs.FloatErr Proofs.FloatScale Proofs.FloatScaleEma Proofs.FloatScaleFast.
Import ListNotations.
Local Notation O := FOps.
Local Notation float := PrimFloat.float.
Open Scope R_scope.

Definition rel_slow (k : Z) (s s' : @Slow float) : Prop := rel_fast k (slow_fast s) (slow_fast s') /\ rel_ema 0 (slow_ema s) (slow_ema s').
Definition slow_step_ok (k : Z) (s : @Slow float) (x : float) : Prop :=
  fast_step_ok k (slow_fast s) x /\ forall f v, fast_next O (slow_fast s) x = Ok (f, v) -> ema_step_ok 0 (slow_ema s) v.

Lemma slow_step_pow2 k s s' x x' s1 o : rel_slow k s s' -> scaled k x x' -> slow_step_ok k s x -> slow_next O s x = Ok (s1, o) ->
  exists s1' o', slow_next O s' x' = Ok (s1', o') /\ rel_slow k s1 s1' /\ scaled 0 o o'.
Proof.
  intros (Rf & Re) Sx (Hf & He) E. unfold slow_next in *.
  destruct (fast_next O (slow_fast s) x) as [[f v]| |] eqn:Ef; cbn [bind] in E; try discriminate.
  destruct (fast_step_pow2 k _ _ x x' f v Rf Sx Hf Ef) as (f' & v' & Ef' & Rf' & Sv). rewrite Ef'. cbn [bind].
  destruct (ema_step_pow2 0 _ _ v v' Re Sv (He f v eq_refl)) as [Re' So].
  destruct (ema_next O (slow_ema s) v) as [e o0]. destruct (ema_next O (slow_ema s') v') as [e' o0']. cbn [fst snd] in *.
  injection E as <- <-. eexists _, _. split; [reflexivity|]. split; [split; cbn [slow_fast slow_ema]; assumption|exact So].
Qed.

Fixpoint slow_run_ok (k : Z) (s : @Slow float) (xs : list float) : Prop :=
  match xs with
  | [] => True
  | x :: xs => slow_step_ok k s x /\ exists s1 o, slow_next O s x = Ok (s1, o) /\ slow_run_ok k s1 xs
  end.

Theorem slow_stream_pow2 k : forall xs xs' s s', rel_slow k s s' -> Forall2 (scaled k) xs xs' -> slow_run_ok k s xs ->
  Forall2 (scaled 0) (slow_outs O s xs) (slow_outs O s' xs').
Proof.
  unfold slow_outs. induction xs as [|x xs IH]; intros xs' s s' Hr Hx Hok; inversion Hx as [|? x' ? xs2 Sx Hx']; subst; cbn [res_outs]; [constructor|].
  destruct Hok as (Hs & s1 & o & E & Hn). rewrite E.
  destruct (slow_step_pow2 k s s' x x' s1 o Hr Sx Hs E) as (s1' & o' & E' & Hr' & So). rewrite E'.
  constructor; [exact So|]. apply IH; [exact Hr'|exact Hx'|exact Hn].
Qed.
