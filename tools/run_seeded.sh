#!/bin/bash
# runs every seeded change against the quick check of its property on a scratch clone, for each seed in $SEEDS (default "1");
# writes seeded/RESULTS.md.  V = VIOLATION with a concrete failing input, N = VIOLATION ... no-failing-input-found, MISSED = check passed
cd "$(dirname "$(readlink -f "$0")")/.."
SEEDS=${SEEDS:-1}
export MUT_DIR=${MUT_DIR:-$(mktemp -d /tmp/repo_mut.XXXXXX)}   # private scratch clone: concurrent runs must not share one
out=${OUT:-seeded/RESULTS.md}      # OUT=<file> PATTERN='C*-r7-*' restricts the run to one round and leaves RESULTS.md alone
echo "# Seeded changes vs quick checks (tools/run_seeded.sh, seeds: $SEEDS, $(date -u +%F))" > $out
echo "" >> $out
echo "| change | property | result per seed ($SEEDS) |" >> $out
echo "|---|---|---|" >> $out
for d in seeded/${PATTERN:-C*-*}; do
  id=$(basename $d); p=${id%%-*}
  row=""
  for s in $SEEDS; do
    r=$(VERIF_SEED=$s tools/trymut.sh $d/patch.diff $p 2>&1 | grep "^\[$p\]")
    case "$r" in
      *no-failing-input-found*) row="$row N";;
      *VIOLATION*) row="$row V";;
      *"OK property"*) row="$row MISSED";;
      *) row="$row ?($r)";;
    esac
  done
  echo "| $id | $p |$row |" | tee -a $out
done
rm -rf "$MUT_DIR"
