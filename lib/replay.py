# ./check --replay <file>: re-run the recorded case on the implementation and on the Coq model.
import json
import sys
from common import *  # noqa


def decode(v):
    if isinstance(v, str) and len(v) == 16:
        try:
            return fbits(int(v, 16))
        except ValueError:
            return v
    if isinstance(v, list):
        return [decode(x) for x in v]
    return v


def main(path):
    d = json.load(open(path))
    print("property:", d.get("property"), "| kind:", d.get("kind"))
    print("what:", d.get("what"))
    cj = d.get("case")
    if not cj:
        print("no concrete case recorded (no-failing-input-found); detail:")
        print(json.dumps(d.get("detail"), indent=1)[:4000])
        return 0
    ops = []
    for o in cj["ops"]:
        if o[0] == "build":
            ops.append(("build", [(f, decode(v)) for f, v in o[1]]))
        elif o[0] == "new":
            ops.append(tuple(o[:6]) + (decode(o[6]),))
        elif o[0] in ("n", "b", "i"):
            ops.append((o[0], o[1]) + tuple(decode(v) for v in o[2:]))
        else:
            ops.append(tuple(o))
    slots = sorted({o[1] for o in ops if o[0] not in ("build",) and isinstance(o[1], int)})
    c = Case(cj["id"], ops, dump=tuple(slots))
    with Lock():
        ok, log = build_coq()
        b = build_harness()
        run_harness(b, [c], "replay")
        r = coq_check_cases([c], "replay")
        model = coq_dump_case(c, "replay_dump")
    for i, (o, ob) in enumerate(zip(c.to_json()["ops_readable"], c.obs)):
        m = model[i] if i < len(model) else None
        print("%3d  %-60s impl=%s  model(tag,bits)=%s" % (i + 1, o[:60], ob, m))
    print("T1 result (0 = agreement, k = first differing op, 1000000+j = state image):", r[0])
    return 0 if r[0] == 0 else 1
