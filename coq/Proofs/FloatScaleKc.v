(* C14 on binary64, whole streams (scalar path): TrueRange, AverageTrueRange and KeltnerChannel fed 2^k x return 2^k times their outputs
   (as values). |.| is exact, so it commutes with the scaling; the multiplier is dimensionless. *)
From Coq Require Import Reals Lra Lia ZArith List Floats.
From Flocq Require Import Core.
From TA Require Import Base Model FloatInst Proofs.Wiring Proofs.FloatErr Proofs.FloatMad Proofs.FloatScale Proofs.FloatScaleSma Proofs.FloatScaleWma Proofs.FloatScaleEma.
Import ListNotations.
Local Notation O := FOps.
Local Notation float := PrimFloat.float.
Open Scope R_scope.

Lemma fabs_scale j a a' : scaled j a a' -> scaled j (PrimFloat.abs a) (PrimFloat.abs a').
Proof.
  intros (Fa & Fa' & E). destruct (fabs_exact a Fa) as [F1 E1]. destruct (fabs_exact a' Fa') as [F2 E2].
  split; [exact F1|]. split; [exact F2|]. rewrite E2, E1, E, Rabs_mult, (Rabs_pos_eq (bpow radix2 j)) by apply bpow_ge_0. reflexivity.
Qed.

Definition rel_tr (k : Z) (t t' : @Tr float) : Prop :=
  match tr_prev_close t, tr_prev_close t' with Some a, Some a' => scaled k a a' | None, None => True | _, _ => False end.
Definition tr_step_ok (k : Z) (t : @Tr float) (x : float) : Prop :=
  match tr_prev_close t with Some prev => okr k (FR x - FR prev) | None => True end.

Lemma tr_step_pow2 k t t' x x' : rel_tr k t t' -> scaled k x x' -> tr_step_ok k t x ->
  rel_tr k (fst (tr_next O t x)) (fst (tr_next O t' x')) /\ scaled k (snd (tr_next O t x)) (snd (tr_next O t' x')).
Proof.
  intros Rt Sx Hok. unfold tr_next, rel_tr, tr_step_ok in *. cbn [fst snd tr_prev_close].
  split; [exact Sx|].
  destruct (tr_prev_close t) as [a|], (tr_prev_close t') as [a'|]; try contradiction.
  - destruct Hok as (A1 & A2 & A3). cbn [abs sub O]. apply fabs_scale. exact (fsub_scale k _ _ _ _ Sx Rt A1 A2 A3).
  - apply scaled_zero.
Qed.

Definition rel_atr (k : Z) (a a' : @Atr float) : Prop := rel_tr k (atr_true_range a) (atr_true_range a') /\ rel_ema k (atr_ema a) (atr_ema a').
Definition atr_step_ok (k : Z) (a : @Atr float) (x : float) : Prop :=
  tr_step_ok k (atr_true_range a) x /\ ema_step_ok k (atr_ema a) (snd (tr_next O (atr_true_range a) x)).

Lemma atr_step_pow2 k a a' x x' : rel_atr k a a' -> scaled k x x' -> atr_step_ok k a x ->
  rel_atr k (fst (atr_next O a x)) (fst (atr_next O a' x')) /\ scaled k (snd (atr_next O a x)) (snd (atr_next O a' x')).
Proof.
  intros (Rt & Re) Sx (Ht & He). unfold atr_next.
  destruct (tr_step_pow2 k _ _ x x' Rt Sx Ht) as [Rt' Sd].
  destruct (tr_next O (atr_true_range a) x) as [t d]. destruct (tr_next O (atr_true_range a') x') as [t' d']. cbn [fst snd] in *.
  destruct (ema_step_pow2 k _ _ d d' Re Sd He) as [Re' So].
  destruct (ema_next O (atr_ema a) d) as [e o]. destruct (ema_next O (atr_ema a') d') as [e' o']. cbn [fst snd] in *.
  split; [split; cbn [atr_true_range atr_ema]; assumption|exact So].
Qed.

Fixpoint atr_run_ok (k : Z) (a : @Atr float) (xs : list float) : Prop :=
  match xs with [] => True | x :: xs => atr_step_ok k a x /\ atr_run_ok k (fst (atr_next O a x)) xs end.

Theorem atr_stream_pow2 k : forall xs xs' a a', rel_atr k a a' -> Forall2 (scaled k) xs xs' -> atr_run_ok k a xs ->
  Forall2 (scaled k) (atr_outs O a xs) (atr_outs O a' xs').
Proof.
  induction xs as [|x xs IH]; intros xs' a a' Hr Hx Hok; inversion Hx as [|? x' ? xs2 Sx Hx']; subst; cbn [atr_outs]; [constructor|].
  destruct Hok as [Hs Hn]. destruct (atr_step_pow2 k a a' x x' Hr Sx Hs) as [Hr' So].
  destruct (atr_next O a x) as [s1 o]. destruct (atr_next O a' x') as [s1' o']. cbn [fst snd] in *.
  constructor; [exact So|]. apply IH; assumption.
Qed.

Definition rel_kc (k : Z) (s s' : @Kc float) : Prop :=
  kc_period s = kc_period s' /\ kc_multiplier s = kc_multiplier s' /\ rel_atr k (kc_atr s) (kc_atr s') /\ rel_ema k (kc_ema s) (kc_ema s').
Definition kc_step_ok (k : Z) (s : @Kc float) (x : float) : Prop :=
  let at_ := snd (atr_next O (kc_atr s) x) in let av := snd (ema_next O (kc_ema s) x) in let w := (at_ * kc_multiplier s)%float in
  atr_step_ok k (kc_atr s) x /\ ema_step_ok k (kc_ema s) x /\ finF (kc_multiplier s) /\
  okr k (FR at_ * FR (kc_multiplier s)) /\ okr k (FR av + FR w) /\ okr k (FR av - FR w).

Lemma kc_step_pow2 k s s' x x' : rel_kc k s s' -> scaled k x x' -> kc_step_ok k s x ->
  rel_kc k (fst (kc_next O s x)) (fst (kc_next O s' x')) /\ Forall2 (scaled k) (snd (kc_next O s x)) (snd (kc_next O s' x')).
Proof.
  intros (Ep & Em & Ra & Re) Sx (Ha & He & Fm & (A1 & A2 & A3) & (B1 & B2 & B3) & (C1 & C2 & C3)). unfold kc_next. rewrite <- Ep, <- Em.
  destruct (atr_step_pow2 k _ _ x x' Ra Sx Ha) as [Ra' Sat]. destruct (ema_step_pow2 k _ _ x x' Re Sx He) as [Re' Sav].
  destruct (atr_next O (kc_atr s) x) as [a at_]. destruct (atr_next O (kc_atr s') x') as [a' at_'].
  destruct (ema_next O (kc_ema s) x) as [e av]. destruct (ema_next O (kc_ema s') x') as [e' av'].
  cbn [fst snd add sub mul O] in *.
  pose proof (fmul_scale_by_r k at_ at_' (kc_multiplier s) Sat Fm A1 A2 A3) as Sw.
  pose proof (fadd_scale k _ _ _ _ Sav Sw B1 B2 B3) as Su. pose proof (fsub_scale k _ _ _ _ Sav Sw C1 C2 C3) as Sl.
  split; [repeat split; cbn [kc_period kc_multiplier kc_atr kc_ema]; try reflexivity; first [apply Ra'|apply Re']|].
  constructor; [exact Sav|]. constructor; [exact Su|]. constructor; [exact Sl|constructor].
Qed.

Fixpoint kc_run_ok (k : Z) (s : @Kc float) (xs : list float) : Prop :=
  match xs with [] => True | x :: xs => kc_step_ok k s x /\ kc_run_ok k (fst (kc_next O s x)) xs end.

Theorem kc_stream_pow2 k : forall xs xs' s s', rel_kc k s s' -> Forall2 (scaled k) xs xs' -> kc_run_ok k s xs ->
  Forall2 (Forall2 (scaled k)) (kc_outs O s xs) (kc_outs O s' xs').
Proof.
  induction xs as [|x xs IH]; intros xs' s s' Hr Hx Hok; inversion Hx as [|? x' ? xs2 Sx Hx']; subst; cbn [kc_outs]; [constructor|].
  destruct Hok as [Hs Hn]. destruct (kc_step_pow2 k s s' x x' Hr Sx Hs) as [Hr' So].
  destruct (kc_next O s x) as [s1 o]. destruct (kc_next O s' x') as [s1' o']. cbn [fst snd] in *.
  constructor; [exact So|]. apply IH; assumption.
Qed.

Lemma rel_atr_new k p a : atr_new O p = Ok a -> rel_atr k a a.
Proof.
  intros H. unfold atr_new in H. destruct (ema_new O p) as [e| |] eqn:Ee; cbn [bind] in H; try discriminate. injection H as <-.
  split; [exact I|apply (rel_ema_refl_new k p e Ee)].
Qed.
Theorem atr_pow2_covariant k p a xs xs' : atr_new O p = Ok a -> Forall2 (scaled k) xs xs' -> atr_run_ok k a xs ->
  Forall2 (scaled k) (atr_outs O a xs) (atr_outs O a xs').
Proof. intros H Hx Hok. apply (atr_stream_pow2 k xs xs' a a); [apply (rel_atr_new k p a H)|exact Hx|exact Hok]. Qed.
Theorem kc_pow2_covariant k p mu s xs xs' : kc_new O p mu = Ok s -> Forall2 (scaled k) xs xs' -> kc_run_ok k s xs ->
  Forall2 (Forall2 (scaled k)) (kc_outs O s xs) (kc_outs O s xs').
Proof.
  intros H Hx Hok. apply (kc_stream_pow2 k xs xs' s s); [|exact Hx|exact Hok]. unfold kc_new in H.
  destruct (atr_new O p) as [a| |] eqn:Ea; cbn [bind] in H; try discriminate.
  destruct (ema_new O p) as [e| |] eqn:Ee; cbn [bind] in H; try discriminate. injection H as <-.
  repeat split; cbn [kc_period kc_multiplier kc_atr kc_ema]; try reflexivity; first [apply (rel_atr_new k p a Ea)|apply (rel_ema_refl_new k p e Ee)].
Qed.
