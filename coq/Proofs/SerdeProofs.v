(* Serialisation round-trip at the item level (bincode layout of Generic.v), any number type. *)
From Coq Require Import Lia.
From TA Require Import Base Model Generic.
Open Scope N_scope.

Section Serde.
Context {F : Type}.
Notation item := (@item F).

Lemma p_floats_map (l : list F) (r : list item) :
  p_floats (length l) (map F64 l ++ r) = Some (l, r).
Proof.
  induction l as [|x l IH]; cbn [length p_floats map app]; [reflexivity|].
  unfold pbind at 1. cbn [p_f64]. unfold pbind at 1. rewrite IH. reflexivity.
Qed.

Lemma p_deque_ser (l : list F) (r : list item) : p_deque (ser_deque l ++ r) = Some (l, r).
Proof.
  unfold p_deque, ser_deque. cbn [app]. rewrite Nnat.Nat2N.id.
  rewrite app_length, map_length.
  destruct (Nat.leb_spec (length l) (length l + length r)); [|lia].
  apply p_floats_map.
Qed.

Lemma p_bool_ser (b : bool) (r : list item) : p_bool (ser_bool b ++ r) = Some (b, r).
Proof. destruct b; reflexivity. Qed.

Lemma p_opt_ser (o : option F) (r : list item) : p_opt (ser_opt o ++ r) = Some (o, r).
Proof. destruct o; reflexivity. Qed.

Ltac step :=
  first [ rewrite p_deque_ser | rewrite p_bool_ser | rewrite p_opt_ser ].
Ltac rt := intros; unfold pbind, pret, pmap; cbn [app p_u64 p_f64]; rewrite <- ?app_assoc; cbn [app];
           repeat (first [step | progress cbn [app p_u64 p_f64]]); try reflexivity.

Lemma rt_sma (s : @Sma F) r : p_sma (ser_sma s ++ r) = Some (s, r).
Proof. unfold p_sma, ser_sma; rt; destruct s; reflexivity. Qed.
Lemma rt_ema (s : @Ema F) r : p_ema (ser_ema s ++ r) = Some (s, r).
Proof. unfold p_ema, ser_ema; rt; destruct s; reflexivity. Qed.
Lemma rt_wma (s : @Wma F) r : p_wma (ser_wma s ++ r) = Some (s, r).
Proof. unfold p_wma, ser_wma; rt; destruct s; reflexivity. Qed.
Lemma rt_sd (s : @Sd F) r : p_sd (ser_sd s ++ r) = Some (s, r).
Proof. unfold p_sd, ser_sd; rt; destruct s; reflexivity. Qed.
Lemma rt_mad (s : @Mad F) r : p_mad (ser_mad s ++ r) = Some (s, r).
Proof. unfold p_mad, ser_mad; rt; destruct s; reflexivity. Qed.
Lemma rt_min (s : @Min F) r : p_min (ser_min s ++ r) = Some (s, r).
Proof. unfold p_min, ser_min; rt; destruct s; reflexivity. Qed.
Lemma rt_max (s : @Max F) r : p_max (ser_max s ++ r) = Some (s, r).
Proof. unfold p_max, ser_max; rt; destruct s; reflexivity. Qed.
Lemma rt_tr (s : @Tr F) r : p_tr (ser_tr s ++ r) = Some (s, r).
Proof. unfold p_tr, ser_tr; rt; destruct s; reflexivity. Qed.
Lemma rt_roc (s : @Roc F) r : p_roc (ser_roc s ++ r) = Some (s, r).
Proof. unfold p_roc, ser_roc; rt; destruct s; reflexivity. Qed.
Lemma rt_er (s : @Er F) r : p_er (ser_er s ++ r) = Some (s, r).
Proof. unfold p_er, ser_er; rt; destruct s; reflexivity. Qed.
Lemma rt_mfi (s : @Mfi F) r : p_mfi (ser_mfi s ++ r) = Some (s, r).
Proof. unfold p_mfi, ser_mfi; rt; destruct s; reflexivity. Qed.
Lemma rt_obv (s : @Obv F) r : p_obv (ser_obv s ++ r) = Some (s, r).
Proof. unfold p_obv, ser_obv; rt; destruct s; reflexivity. Qed.
Ltac step ::=
  first [ rewrite p_deque_ser | rewrite p_bool_ser | rewrite p_opt_ser
        | rewrite rt_sma | rewrite rt_ema | rewrite rt_sd | rewrite rt_mad | rewrite rt_min | rewrite rt_max | rewrite rt_tr ].
Lemma rt_bb (s : @Bb F) r : p_bb (ser_bb s ++ r) = Some (s, r).
Proof. unfold p_bb, ser_bb; rt; destruct s; reflexivity. Qed.
Lemma rt_atr (s : @Atr F) r : p_atr (ser_atr s ++ r) = Some (s, r).
Proof. unfold p_atr, ser_atr; rt; destruct s; reflexivity. Qed.
Lemma rt_rsi (s : @Rsi F) r : p_rsi (ser_rsi s ++ r) = Some (s, r).
Proof. unfold p_rsi, ser_rsi; rt; destruct s; reflexivity. Qed.
Lemma rt_fast (s : @Fast F) r : p_fast (ser_fast s ++ r) = Some (s, r).
Proof. unfold p_fast, ser_fast; rt; destruct s; reflexivity. Qed.
Lemma rt_macd (s : @Macd F) r : p_macd (ser_macd s ++ r) = Some (s, r).
Proof. unfold p_macd, ser_macd; rt; destruct s; reflexivity. Qed.
Lemma rt_ppo (s : @Ppo F) r : p_ppo (ser_ppo s ++ r) = Some (s, r).
Proof. unfold p_ppo, ser_ppo; rt; destruct s; reflexivity. Qed.
Lemma rt_cci (s : @Cci F) r : p_cci (ser_cci s ++ r) = Some (s, r).
Proof. unfold p_cci, ser_cci; rt; destruct s; reflexivity. Qed.
Ltac step ::=
  first [ rewrite p_deque_ser | rewrite p_bool_ser | rewrite p_opt_ser
        | rewrite rt_ema | rewrite rt_min | rewrite rt_max | rewrite rt_atr | rewrite rt_fast ].
Lemma rt_slow (s : @Slow F) r : p_slow (ser_slow s ++ r) = Some (s, r).
Proof. unfold p_slow, ser_slow; rt; destruct s; reflexivity. Qed.
Lemma rt_kc (s : @Kc F) r : p_kc (ser_kc s ++ r) = Some (s, r).
Proof. unfold p_kc, ser_kc; rt; destruct s; reflexivity. Qed.
Lemma rt_ce (s : @Ce F) r : p_ce (ser_ce s ++ r) = Some (s, r).
Proof. unfold p_ce, ser_ce; rt; destruct s; reflexivity. Qed.

Theorem de_ser : forall (s : @St F) (r : list item), de (kind_of s) (ser s ++ r) = Some (s, r).
Proof.
  intros s r. destruct s; cbn [de kind_of ser]; unfold pmap, pbind, pret;
  first [ rewrite rt_sma | rewrite rt_ema | rewrite rt_wma | rewrite rt_sd | rewrite rt_mad | rewrite rt_min
        | rewrite rt_max | rewrite rt_bb | rewrite rt_tr | rewrite rt_atr | rewrite rt_rsi | rewrite rt_fast
        | rewrite rt_slow | rewrite rt_roc | rewrite rt_er | rewrite rt_macd | rewrite rt_ppo | rewrite rt_kc
        | rewrite rt_ce | rewrite rt_cci | rewrite rt_mfi | rewrite rt_obv ]; reflexivity.
Qed.

Theorem serde_id : forall (s : @St F), serde s = Ok s.
Proof.
  intros s. unfold serde. rewrite <- (app_nil_r (ser s)). rewrite de_ser. reflexivity.
Qed.

End Serde.
