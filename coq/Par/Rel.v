(* Par/Rel.v — binary parametricity of the whole generic model (Paramcoq): for any two number types
   related by a relation that the operations respect, the interpreter [run] maps related operation
   sequences to related stores and observations. Closed arithmetic on nat/N is realised through
   "the relation on a closed type is equality". *)
From Param Require Import Param.
From Coq Require Import NArith List.
From TA Require Import Base Model Generic.

Parametricity Recursive nat.
Parametricity Recursive positive.
Parametricity Recursive N.
Parametricity Recursive bool.
Parametricity Recursive comparison.

Lemma nat_R_refl a : nat_R a a. Proof. induction a; constructor; auto. Defined.
Lemma nat_R_eq a b : nat_R a b -> a = b. Proof. induction 1; congruence. Defined.
Lemma positive_R_refl a : positive_R a a. Proof. induction a; constructor; auto. Defined.
Lemma positive_R_eq a b : positive_R a b -> a = b. Proof. induction 1; congruence. Defined.
Lemma N_R_refl a : N_R a a. Proof. destruct a; constructor; apply positive_R_refl. Defined.
Lemma N_R_eq a b : N_R a b -> a = b.
Proof. destruct 1 as [|p1 p2 Hp]; [reflexivity|]. apply positive_R_eq in Hp. congruence. Defined.
Lemma bool_R_refl a : bool_R a a. Proof. destruct a; constructor. Defined.
Lemma bool_R_eq a b : bool_R a b -> a = b. Proof. destruct 1; reflexivity. Defined.
Lemma comparison_R_refl a : comparison_R a a. Proof. destruct a; constructor. Defined.

Ltac closed_rel :=
  intros;
  repeat match goal with
         | H : nat_R _ _ |- _ => apply nat_R_eq in H
         | H : N_R _ _ |- _ => apply N_R_eq in H
         | H : positive_R _ _ |- _ => apply positive_R_eq in H
         | H : bool_R _ _ |- _ => apply bool_R_eq in H
         end; subst;
  first [apply nat_R_refl | apply N_R_refl | apply positive_R_refl | apply bool_R_refl | apply comparison_R_refl].

Parametricity Translation (nat -> nat -> nat) as nnn_R.
Parametricity Translation (nat -> nat -> bool) as nnb_R.
Parametricity Translation (N -> N -> N) as NNN_R.
Parametricity Translation (N -> N -> bool) as NNb_R.
Parametricity Translation (N -> N -> comparison) as NNc_R.
Parametricity Translation (N -> nat) as Nn_R.
Parametricity Translation (nat -> N) as nN_R.

Lemma Nat_add_Rl : nnn_R Nat.add Nat.add. Proof. unfold nnn_R. closed_rel. Defined.
Lemma Nat_sub_Rl : nnn_R Nat.sub Nat.sub. Proof. unfold nnn_R. closed_rel. Defined.
Lemma Nat_leb_Rl : nnb_R Nat.leb Nat.leb. Proof. unfold nnb_R. closed_rel. Defined.
Lemma Nat_ltb_Rl : nnb_R Nat.ltb Nat.ltb. Proof. unfold nnb_R. closed_rel. Defined.
Lemma N_add_Rl : NNN_R N.add N.add. Proof. unfold NNN_R. closed_rel. Defined.
Lemma N_eqb_Rl : NNb_R N.eqb N.eqb. Proof. unfold NNb_R. closed_rel. Defined.
Lemma N_leb_Rl : NNb_R N.leb N.leb. Proof. unfold NNb_R. closed_rel. Defined.
Lemma N_ltb_Rl : NNb_R N.ltb N.ltb. Proof. unfold NNb_R. closed_rel. Defined.
Lemma N_compare_Rl : NNc_R N.compare N.compare. Proof. unfold NNc_R. closed_rel. Defined.
Lemma N_to_nat_Rl : Nn_R N.to_nat N.to_nat. Proof. unfold Nn_R. closed_rel. Defined.
Lemma N_of_nat_Rl : nN_R N.of_nat N.of_nat. Proof. unfold nN_R. closed_rel. Defined.

Realizer Nat.add as Nat_add_R := Nat_add_Rl.
Realizer Nat.sub as Nat_sub_R := Nat_sub_Rl.
Realizer Nat.leb as Nat_leb_R := Nat_leb_Rl.
Realizer Nat.ltb as Nat_ltb_R := Nat_ltb_Rl.
Realizer N.add as N_add_R := N_add_Rl.
Realizer N.eqb as N_eqb_R := N_eqb_Rl.
Realizer N.leb as N_leb_R := N_leb_Rl.
Realizer N.ltb as N_ltb_R := N_ltb_Rl.
Realizer N.compare as N_compare_R := N_compare_Rl.
Realizer N.to_nat as N_to_nat_R := N_to_nat_Rl.
Realizer N.of_nat as N_of_nat_R := N_of_nat_Rl.

Parametricity Recursive run.

