#!/bin/bash
# usage: tools/confirm_mut.sh <mutdir> <worktree>  — confirms: suite passes with patch, demo fails with patch, demo passes without
d=$1; wt=$2
cd $wt && git checkout -q -- . && rm -f tests/demo.rs
git apply $d/patch.diff || { echo "$d APPLY-FAIL"; exit 1; }
suite=$(cargo test --offline 2>&1 | grep -E "^test result" | awk '{p+=$4; f+=$6} END {print p" passed "f" failed"}')
cp $d/demo.rs tests/demo.rs
with=$(cargo test --offline --features serde --test demo 2>&1 | grep -E "^test result" | head -1)
git checkout -q -- . 
without=$(cargo test --offline --features serde --test demo 2>&1 | grep -E "^test result" | head -1)
rm -f tests/demo.rs
echo "$d | suite-with-patch: $suite | demo-with: $with | demo-without: $without"
