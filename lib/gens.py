# Case generators (all randomness from one random.Random(seed)).
import math
import random
from common import Case, INDS, NO_SCALAR, HAS_MULT, nper

SPECIALS = [float("nan"), float("inf"), float("-inf"), 1.7976931348623157e308, -1.7976931348623157e308,
            5e-324, -5e-324, 0.0, -0.0, 2.2250738585072014e-308]


def rand_price(r, lo=1e-3, hi=1e6, signed=False):
    x = math.exp(r.uniform(math.log(lo), math.log(hi)))
    if signed and r.random() < 0.5:
        x = -x
    return x


def scalar_stream(r, n, style=None):
    style = style or r.choice(["walk", "uniform", "ties", "mixed", "signed", "grid"])
    xs = []
    if style == "walk":
        x = rand_price(r, 1, 1000)
        for _ in range(n):
            x = max(1e-6, x * (1 + r.uniform(-0.05, 0.05)))
            xs.append(x)
    elif style == "uniform":
        for _ in range(n):
            xs.append(r.uniform(1, 100))
    elif style == "ties":
        al = [r.uniform(1, 10) for _ in range(3)]
        for _ in range(n):
            xs.append(r.choice(al))
    elif style == "grid":
        for _ in range(n):
            xs.append(float(r.randint(-3, 6)) * 0.5)
    elif style == "signed":
        for _ in range(n):
            xs.append(rand_price(r, 1e-3, 1e12, signed=True))
    else:
        for _ in range(n):
            xs.append(r.choice([0.0, -0.0, 1.0, 1.0, -1.0, 2.5, 3e11, r.uniform(-5, 5)]))
    return xs


def valid_bar(r, x=None):
    if x is None:
        x = rand_price(r, 1, 1000)
    h = x * (1 + r.uniform(0, 0.03))
    l = x * (1 - r.uniform(0, 0.03))
    c = l + (h - l) * r.random()
    c = min(max(c, l), h)
    o = l + (h - l) * r.random()
    o = min(max(o, l), h)
    v = r.choice([0.0, 1.0, r.uniform(0, 1e4), r.uniform(0, 1e4)])
    return (o, h, l, c, v)


def bar_stream(r, n, style=None):
    style = style or r.choice(["walk", "free", "grid", "flatish"])
    out = []
    if style == "walk":
        x = rand_price(r, 1, 1000)
        for _ in range(n):
            x = max(1e-3, x * (1 + r.uniform(-0.05, 0.05)))
            out.append(valid_bar(r, x))
    elif style == "free":   # five independent fields
        for _ in range(n):
            out.append(tuple(r.choice([r.uniform(-10, 10), float(r.randint(-2, 3))]) for _ in range(5)))
    elif style == "grid":
        for _ in range(n):
            l = float(r.randint(1, 4))
            h = l + float(r.randint(0, 3))
            c = r.choice([l, h, (l + h) / 2, l + (h - l) * 0.25])
            out.append((c, h, l, c, float(r.randint(0, 3))))
    else:
        x = rand_price(r, 1, 100)
        for _ in range(n):
            if r.random() < 0.2:
                x = rand_price(r, 1, 100)
            out.append((x, x, x, x, r.choice([0.0, 5.0])))
    return out


def rand_params(r, ind, maxp=8):
    def p():
        return r.choice([1, 1, 2, 3, r.randint(1, maxp), r.randint(1, maxp)])
    k = nper(ind)
    ps = [p() for _ in range(k)] + [0] * (3 - k)
    m = r.choice([0.0, 0.5, 2.0, 2.5, 3.0, -1.0, 1e6]) if ind in HAS_MULT else 0.0
    return ps[0], ps[1], ps[2], m


def new_op(slot, ind, params):
    return ("new", slot, ind, params[0], params[1], params[2], params[3])


def feed_ops(r, ind, n, slot=0, bars=None, specials=0.0):
    """n feeding ops for indicator `ind`: scalars where it has a scalar path (mixed with bars)."""
    ops = []
    use_bar = ind in NO_SCALAR or (bars if bars is not None else r.random() < 0.4)
    if use_bar:
        kind = r.choice(["b", "b", "i"])
        st = bar_stream(r, n, "walk" if kind == "i" else None)
        for b in st:
            if specials and r.random() < specials:
                b = list(b)
                b[r.randrange(5)] = r.choice(SPECIALS)
                b = tuple(b)
                ops.append(("b", slot) + b)
            else:
                ops.append((kind, slot) + b)
    else:
        for x in scalar_stream(r, n):
            if specials and r.random() < specials:
                x = r.choice(SPECIALS)
            ops.append(("n", slot, x))
    return ops
