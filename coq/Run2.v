(* Run2.v — T2: the implementation's outputs against the exact instance (XQ) of the same model, under
   the tolerance each property states, evaluated in exact rational arithmetic inside coqc. *)
From Coq Require Import QArith Qabs Floats String.
From TA Require Import Base Model Generic FloatInst XQ Run.
Open Scope Q_scope.

Definition qbar (b : Bar float) : Bar XQ :=
  mkBar (f2xq (b_open b)) (f2xq (b_high b)) (f2xq (b_low b)) (f2xq (b_close b)) (f2xq (b_volume b)).

Definition qop (o : @op float) : @op XQ :=
  match o with
  | ONew s k p => ONew s k (mkParams (p1 p) (p2 p) (p3 p) (f2xq (pm p)))
  | ODef s k => ODef s k
  | ONext s x => ONext s (f2xq x)
  | OBar s b => OBar s (qbar b)
  | OItem s b => OItem s (qbar b)
  | OReset s => OReset s
  | OClone s d => OClone s d
  | OSerde s => OSerde s
  | OProbe s => OProbe s
  | ODrop s => ODrop s
  | OBuild calls => OBuild (map (fun c => (fst c, f2xq (snd c))) calls)
  end.

Definition qabs_of (x : XQ) : Q := match x with QFin q => Qabs q | _ => 0 end.
Definition qmax (a b : Q) : Q := if Qle_bool a b then b else a.

(* upper bound of t^1.5 in integers: t * (isqrt t + 1) *)
Definition t15 (t : N) : Q := (Z.of_N t * (Z.sqrt (Z.of_N t) + 1))%Z # 1.
(* tau+(t) = 1e-12 + 1e-15 * t15 t  >=  1e-12 + 1e-15 * t^1.5 *)
Definition tau (t : N) : Q := (1 # 1000000000000) + (1 # 1000000000000000) * t15 t.

Definition is_fin (x : XQ) : bool := match x with QFin _ => true | _ => false end.
Definition qv (x : XQ) : Q := match x with QFin q => q | _ => 0 end.

(* |a - b| <= bound, both finite; non-finite exact values must be matched exactly *)
Definition within (impl exact : XQ) (bound : Q) : bool :=
  match impl, exact with
  | QFin a, QFin b => Qle_bool (Qabs (a - b)) bound
  | QPInf, QPInf | QNInf, QNInf | QNaN, QNaN => true
  | _, _ => false end.

(* per-slot bookkeeping: inputs since construction/reset, largest magnitude fed since construction *)
Record meter := mkMeter { m_t : N; m_mag : Q; m_vol : Q }.
Definition meter0 := mkMeter 0 0 0.

Definition mag_of_op (o : @op XQ) : Q :=
  match o with
  | ONext _ x => qabs_of x
  | OBar _ b | OItem _ b => qmax (qabs_of (b_high b)) (qmax (qabs_of (b_low b)) (qabs_of (b_close b)))
  | _ => 0 end.

(* tolerance predicate of C01 / C13 / C15(BB) / C09: absolute error against tau * magnitude; variances for SD and
   squared half-widths for BB *)
Definition tol_window (k : Kind) (mult : XQ) (t : N) (M : Q) (impl exact : list XQ) : bool :=
  match k, impl, exact with
  | KSd, [i], [e] =>
      (* e is the exact variance (sqrt = id in XQ); compare i^2 with it *)
      within (xq_mul i i) e (tau t * M * M)
  | KBb, [ia; iu; il], [ea; eu; el] =>
      let m2 := qv (xq_mul mult mult) in
      let sc := tau t * M * M * qmax 1 m2 in
      within ia ea (tau t * M) &&
      (* exact: eu - ea = var * m ; (var*m)*m = m^2 var ; implementation half-widths squared *)
      within (xq_mul (xq_sub iu ia) (xq_sub iu ia)) (xq_mul (xq_sub eu ea) mult) sc &&
      within (xq_mul (xq_sub ia il) (xq_sub ia il)) (xq_mul (xq_sub ea el) mult) sc
  | KMin, [i], [e] | KMax, [i], [e] => within i e 0
  | _, _, _ => (fix go (a b : list XQ) : bool :=
                  match a, b with
                  | [], [] => true
                  | x :: a, y :: b => within x y (tau t * M) && go a b
                  | _, _ => false end) impl exact
  end.

Section T2.
Variable tol : Kind -> XQ -> N -> Q -> list XQ -> list XQ -> bool.

(* single-slot cases: walk the ops, exact store alongside *)
Fixpoint t2_go (k : N) (st : @store XQ) (mt : meter) (ops : list (@op float)) (exp : list fobs) : N :=
  match ops, exp with
  | o :: ops, e :: exp =>
      let qo := qop o in
      let '(st', ob) := step XQOps st qo in
      let mt' := match qo with
                 | ONext _ _ | OBar _ _ | OItem _ _ => mkMeter (m_t mt + 1) (qmax (m_mag mt) (mag_of_op qo)) 0
                 | OReset _ | ONew _ _ _ | ODef _ _ => mkMeter 0 (m_mag mt) 0
                 | _ => mt end in
      let ok := match ob, e with
                | BOut exact, BOut impl =>
                    match sget st' 0 with
                    | Some s => tol (kind_of s) (match multiplier_of s with Some m => m | None => QFin 0 end)
                                    (m_t mt') (m_mag mt') (map f2xq impl) exact
                    | None => true end
                | _, _ => true end in
      if ok then t2_go (k + 1) st' mt' ops exp else k
  | _, _ => 0%N
  end.

Definition check_t2 (c : case) : N := t2_go 1 [] meter0 (c_ops c) (c_exp c).
End T2.

Definition check_t2_window := check_t2 tol_window.
