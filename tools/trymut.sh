#!/bin/bash
# usage: tools/trymut.sh <patch.diff> <prop> [<prop>...]   — applies the patch to /repo, runs the quick checks, reverts
set -u
patch=$1; shift
git -C /repo apply "$patch" || { echo "patch does not apply"; exit 2; }
for p in "$@"; do
  out=$(cd /verif && timeout 1500 ./check $p quick 2>&1 | grep -E "^(OK|VIOLATION|KNOWN)" | cut -c1-220)
  echo "[$p] $out"
done
git -C /repo checkout -- .
git -C /repo status --short | head -3
