(* C01 — Sliding-window statistics equal the textbook value of exactly the last n inputs. Statements only. *)
From TA Require Import Base Model Proofs.WF Proofs.Ring Proofs.MinMaxProofs.
Open Scope N_scope.

(* Minimum: for every period p, every position of the two cursors the all-padding buffer is (re)started
   from, and every stream of values on which < is a strict total order with +inf on top (IEEE < on
   non-NaN floats of one zero sign; the reals), the k-th output is an element of the last min(k+1,p)
   inputs and no element of that window is smaller. No padding while warming up, nothing older retained. *)
Theorem C01_min_least : forall (F : Type) (O : Ops F) (P : F -> Prop) (p mi ci : N) (xs : list F),
  order_on (ltb O) (inf O) P ->
  0 < p -> p <= ALLOC_MAX -> mi < p -> ci < p -> Forall P xs ->
  let outs := min_outs O (mkMin p mi ci (repeat (inf O) (N.to_nat p))) xs in
  length outs = length xs /\
  forall k, (k < length xs)%nat ->
    least_in O (lastn (N.to_nat p) (firstn (S k) xs)) (nth k outs (inf O)).
Proof. intros F O P p mi ci xs OR. exact (min_least O P OR p mi ci xs). Qed.

Theorem C01_max_greatest : forall (F : Type) (O : Ops F) (P : F -> Prop) (p mi ci : N) (xs : list F),
  order_on (fun a b => ltb O b a) (ninf O) P ->
  0 < p -> p <= ALLOC_MAX -> mi < p -> ci < p -> Forall P xs ->
  let outs := max_outs O (mkMax p mi ci (repeat (ninf O) (N.to_nat p))) xs in
  length outs = length xs /\
  forall k, (k < length xs)%nat ->
    greatest_in O (lastn (N.to_nat p) (firstn (S k) xs)) (nth k outs (ninf O)).
Proof. intros F O P p mi ci xs OR. exact (max_greatest O P p mi ci xs OR). Qed.
