(* C14 on binary64, whole streams: BollingerBands fed 2^k x returns all three bands scaled by 2^k (as values): the middle band is
   StandardDeviation's running mean, the half-width SD * multiplier with a dimensionless multiplier (the same float in both runs). *)
From Coq Require Import Reals Lra Lia ZArith List Floats.
From Flocq Require Import Core.
From TA Require Import Base Model FloatInst Proofs.Wiring Proofs.FloatErr Proofs.FloatScale Proofs.FloatScaleSma Proofs.FloatScaleWma Proofs.FloatScaleSd.
Import ListNotations.
Local Notation O := FOps.
Local Notation float := PrimFloat.float.
Open Scope R_scope.

Definition rel_bb (k : Z) (s s' : @Bb float) : Prop :=
  bb_period s = bb_period s' /\ bb_multiplier s = bb_multiplier s' /\ rel_sd k (bb_sd s) (bb_sd s').

Definition bb_step_ok (k : Z) (s : @Bb float) (x : float) : Prop :=
  sd_step_ok k (bb_sd s) x /\
  forall sd1 d, sd_next O (bb_sd s) x = Ok (sd1, d) ->
    let w := (d * bb_multiplier s)%float in
    finF (bb_multiplier s) /\ okr k (FR d * FR (bb_multiplier s)) /\ okr k (FR (sd_m sd1) + FR w) /\ okr k (FR (sd_m sd1) - FR w).

Lemma bb_step_pow2 k s s' x x' s1 o : rel_bb k s s' -> scaled k x x' -> bb_step_ok k s x -> bb_next O s x = Ok (s1, o) ->
  exists s1' o', bb_next O s' x' = Ok (s1', o') /\ rel_bb k s1 s1' /\ Forall2 (scaled k) o o'.
Proof.
  intros (Ep & Em & Rs) Sx (Hsd & Hb) E. unfold bb_next in *. rewrite <- Ep, <- Em.
  destruct (sd_next O (bb_sd s) x) as [[sd1 d]| |] eqn:Es; cbn [bind] in E; try discriminate. injection E as <- <-.
  destruct (sd_step_pow2 k _ _ x x' sd1 d Rs Sx Hsd Es) as (sd1' & d' & Es' & Rs' & Sd). rewrite Es'. cbn [bind].
  destruct (Hb sd1 d eq_refl) as (Fm & (A1 & A2 & A3) & (B1 & B2 & B3) & (C1 & C2 & C3)).
  cbn [add sub mul O] in *. unfold sd_mean.
  destruct Rs' as (Q1 & Q2 & Q3 & Smean & Q5 & Q6).
  pose proof (fmul_scale_by_r k d d' (bb_multiplier s) Sd Fm A1 A2 A3) as Sw.
  pose proof (fadd_scale k _ _ _ _ Smean Sw B1 B2 B3) as Su.
  pose proof (fsub_scale k _ _ _ _ Smean Sw C1 C2 C3) as Sl.
  eexists _, _. split; [reflexivity|]. split.
  - repeat split; cbn [bb_period bb_multiplier bb_sd]; try assumption; try reflexivity; try apply Smean; try apply Q5.
  - constructor; [exact Smean|]. constructor; [exact Su|]. constructor; [exact Sl|constructor].
Qed.

Fixpoint bb_run_ok (k : Z) (s : @Bb float) (xs : list float) : Prop :=
  match xs with
  | [] => True
  | x :: xs => bb_step_ok k s x /\ exists s1 o, bb_next O s x = Ok (s1, o) /\ bb_run_ok k s1 xs
  end.

Theorem bb_stream_pow2 k : forall xs xs' s s', rel_bb k s s' -> Forall2 (scaled k) xs xs' -> bb_run_ok k s xs ->
  Forall2 (Forall2 (scaled k)) (res_outs (bb_next O) s xs) (res_outs (bb_next O) s' xs').
Proof.
  induction xs as [|x xs IH]; intros xs' s s' Hr Hx Hok; inversion Hx as [|? x' ? xs2 Sx Hx']; subst; cbn [res_outs]; [constructor|].
  destruct Hok as (Hs & s1 & o & E & Hn). rewrite E.
  destruct (bb_step_pow2 k s s' x x' s1 o Hr Sx Hs E) as (s1' & o' & E' & Hr' & So). rewrite E'.
  constructor; [exact So|]. apply IH; [exact Hr'|exact Hx'|exact Hn].
Qed.

Theorem bb_pow2_covariant k p mu s xs xs' : bb_new O p mu = Ok s -> Forall2 (scaled k) xs xs' -> bb_run_ok k s xs ->
  Forall2 (Forall2 (scaled k)) (res_outs (bb_next O) s xs) (res_outs (bb_next O) s xs').
Proof.
  intros H Hx Hok. apply (bb_stream_pow2 k xs xs' s s); [|exact Hx|exact Hok].
  unfold bb_new in H. destruct (sd_new O p) as [sd| |] eqn:Es; cbn [bind] in H; try discriminate. injection H as <-.
  repeat split; cbn [bb_period bb_multiplier bb_sd]; try reflexivity; apply (rel_sd_new k p sd Es).
Qed.
