(* MeanAbsoluteDeviation on binary64: forward error bound against the exact mean absolute deviation of the window
   (the last min(t,n) inputs), linear in t: the running sum as for SimpleMovingAverage, the mean, the inner loop over the
   stored window (a permutation of the window: exact sums are permutation invariant) and the final division. *)
From Coq Require Import Reals Lra Lia ZArith List Floats Permutation.
From Flocq Require Import Core.
From TA Require Import Base Model FloatInst Proofs.Prims Proofs.WF Proofs.Ring Proofs.XBase Proofs.XSma Proofs.XWma Proofs.XMad Proofs.FloatErr Proofs.FloatSma Proofs.FloatEma Proofs.FloatSd Proofs.FloatMad Proofs.FloatSdMean.
Import ListNotations.
Open Scope R_scope.
Local Notation O := FOps.
Local Notation float := PrimFloat.float.

Definition absdev (mu : R) (l : list R) : R := Rsum (map (fun x => Rabs (x - mu)) l).

(* the inner loop with its error: K bounds the total number of terms, c is the error budget per term *)
Lemma mad_fold_err (mean : float) (mu Em M : R) (K : nat) :
  finF mean -> 1 <= M -> M <= bpow radix2 900 -> Rabs mu <= M -> Rabs (FR mean - mu) <= Em -> 0 <= Em <= M / 4 ->
  INR K * u <= / 64 -> INR K <= bpow radix2 60 ->
  let c := Em + 3 * INR K * u * M + 5 * u * M in
  forall (vals : list float) (acc : float) (S : R) (j : nat), (j + length vals <= K)%nat ->
  Forall (okin M) vals -> finF acc -> 0 <= FR acc -> Rabs (FR acc - S) <= INR j * c -> 0 <= S <= 2 * M * INR j ->
  let r := fold_left (fun a v => (a + PrimFloat.abs (v - mean))%float) vals acc in
  finF r /\ 0 <= FR r /\ Rabs (FR r - (S + absdev mu (map FR vals))) <= INR (j + length vals) * c.
Proof.
  intros Fm HM1 HM2 Hmu Hmean [HEm0 HEm] HKu HK60 c.
  pose proof u_pos as Hu0. pose proof u_le as Hu1. pose proof eta_pos as He0. pose proof eta_le_u as Heu. pose proof BIG_ge as HBg.
  assert (HuM : u * M <= M / 1000) by (replace (M / 1000) with (/ 1000 * M) by field; apply Rmult_le_compat_r; lra).
  assert (HuM0 : 0 <= u * M) by (apply Rmult_le_pos; lra).
  assert (HeM : eta <= u * M) by (apply Rle_trans with (u * 1); [lra|apply Rmult_le_compat_l; lra]).
  assert (HK0 : 0 <= INR K) by apply pos_INR.
  assert (HKuM : INR K * u * M <= M / 64) by (replace (M / 64) with (/ 64 * M) by field; apply Rmult_le_compat_r; lra).
  assert (HKuM0 : 0 <= INR K * u * M) by (apply Rmult_le_pos; [apply Rmult_le_pos; lra|lra]).
  assert (Hc0 : 0 <= c) by (unfold c; lra).
  assert (HcM : c <= M / 2) by (unfold c; lra).
  assert (HKM : 4 * (INR K * M) <= BIG).
  { unfold BIG. apply Rle_trans with (bpow radix2 2 * (bpow radix2 60 * bpow radix2 900)); [|rewrite <- !bpow_plus; apply bpow_le; lia].
    change (bpow radix2 2) with 4. apply Rmult_le_compat_l; [lra|]. apply Rmult_le_compat; lra. }
  assert (Hmf : Rabs (FR mean) <= 5 / 4 * M).
  { replace (FR mean) with ((FR mean - mu) + mu) by ring. eapply Rle_trans; [apply Rabs_triang|]. lra. }
  induction vals as [|v vals IH]; intros acc S j HjK Hv Fa Ha0 Ha HS r.
  - cbn in r. unfold r. cbn [map length]. unfold absdev. cbn [map Rsum]. rewrite Nat.add_0_r, Rplus_0_r. repeat split; assumption.
  - pose proof (Forall_inv Hv) as [Fv Hvm]. pose proof (Forall_inv_tail Hv) as Hv'.
    cbn [fold_left] in r. cbn [length] in *.
    assert (Hj0 : 0 <= INR j) by apply pos_INR.
    assert (HjK' : INR j + 1 <= INR K) by (rewrite <- S_INR; apply le_INR; lia).
    assert (HKM1 : M <= INR K * M) by (rewrite <- (Rmult_1_l M) at 1; apply Rmult_le_compat_r; lra).
    (* the term *)
    assert (Hr : Rabs (FR v - FR mean) <= 9 / 4 * M) by (eapply Rle_trans; [apply Rabs_triang|]; rewrite Rabs_Ropp; lra).
    destruct (fsub_err v mean Fv Fm) as (Fd & e1 & n1 & He1 & Hn1 & R1); [lra|].
    destruct (fabs_exact _ Fd) as [Fab Eab]. set (a := PrimFloat.abs (v - mean)) in *.
    set (tm := Rabs (FR v - mu)).
    assert (Htm : 0 <= tm <= 2 * M) by (unfold tm; split; [apply Rabs_pos|eapply Rle_trans; [apply Rabs_triang|]; rewrite Rabs_Ropp; lra]).
    assert (Hdelta : Rabs (FR a - tm) <= Em + 4 * (u * M)).
    { rewrite Eab. unfold tm. eapply Rle_trans; [apply Rabs_triang_inv2|]. rewrite R1.
      replace ((FR v - FR mean) * (1 + e1) + n1 - (FR v - mu)) with (- (FR mean - mu) + (FR v - FR mean) * e1 + n1) by ring.
      eapply Rle_trans; [apply Rabs_triang|]. eapply Rle_trans; [apply Rplus_le_compat_r, Rabs_triang|]. rewrite Rabs_Ropp, Rabs_mult.
      assert (Rabs (FR v - FR mean) * Rabs e1 <= 9 / 4 * M * u) by (apply Rmult_le_compat; try apply Rabs_pos; assumption). lra. }
    assert (Ha0' : 0 <= FR a) by (rewrite Eab; apply Rabs_pos).
    assert (Hab : FR a <= 5 / 2 * M).
    { replace (FR a) with ((FR a - tm) + tm) by ring. eapply Rle_trans; [apply Rle_abs|]. eapply Rle_trans; [apply Rabs_triang|]. rewrite (Rabs_pos_eq tm) by lra. lra. }
    (* the accumulation *)
    assert (Hacc : FR acc <= 3 * M * INR j).
    { replace (FR acc) with ((FR acc - S) + S) by ring. eapply Rle_trans; [apply Rle_abs|]. eapply Rle_trans; [apply Rabs_triang|]. rewrite (Rabs_pos_eq S) by lra.
      assert (INR j * c <= INR j * (M / 2)) by (apply Rmult_le_compat_l; lra). lra. }
    assert (Hsum : 0 <= FR acc + FR a <= 3 * (INR K * M)).
    { split; [lra|]. assert (3 * M * INR j + 5 / 2 * M <= 3 * M * (INR j + 1)) by lra.
      assert (3 * M * (INR j + 1) <= 3 * M * INR K) by (apply Rmult_le_compat_l; lra). lra. }
    destruct (fadd_exact acc a Fa Fab) as [Fs Es]; [rewrite Rabs_pos_eq; lra|].
    destruct (fadd_err acc a Fa Fab) as (_ & e2 & n2 & He2 & Hn2 & R2); [rewrite Rabs_pos_eq; lra|].
    set (acc' := (acc + a)%float) in *.
    assert (Hs0 : 0 <= FR acc') by (rewrite Es; apply RN_nonneg; lra).
    assert (Herr : Rabs (FR acc' - (S + tm)) <= INR (Datatypes.S j) * c).
    { rewrite R2. replace ((FR acc + FR a) * (1 + e2) + n2 - (S + tm)) with ((FR acc - S) + (FR a - tm) + (FR acc + FR a) * e2 + n2) by ring.
      eapply Rle_trans; [apply Rabs_triang|]. eapply Rle_trans; [apply Rplus_le_compat_r, Rabs_triang|]. eapply Rle_trans; [apply Rplus_le_compat_r, Rplus_le_compat_r, Rabs_triang|].
      rewrite Rabs_mult, (Rabs_pos_eq (FR acc + FR a)) by lra.
      assert ((FR acc + FR a) * Rabs e2 <= 3 * (INR K * M) * u) by (apply Rmult_le_compat; try apply Rabs_pos; lra).
      rewrite S_INR. unfold c in *. lra. }
    assert (HS' : 0 <= S + tm <= 2 * M * INR (Datatypes.S j)) by (rewrite S_INR; lra).
    destruct (IH acc' (S + tm) (Datatypes.S j) ltac:(lia) Hv' Fs Hs0 Herr HS') as (Fr & Hr0 & Hrr).
    split; [exact Fr|]. split; [exact Hr0|].
    replace (j + Datatypes.S (length vals))%nat with (Datatypes.S j + length vals)%nat by lia.
    unfold absdev in *. cbn [map Rsum]. fold tm. replace (S + (tm + Rsum (map (fun x => Rabs (x - mu)) (map FR vals)))) with (S + tm + Rsum (map (fun x => Rabs (x - mu)) (map FR vals))) by ring.
    exact Hrr.
Qed.

(* ---- the running sum: sum + x (warm-up) and sum + x - old (sliding) ---- *)
Lemma sum_warm (sm x : float) (S E M k : R) : 0 <= M -> 0 <= E -> 0 <= k -> finF sm -> finF x ->
  Rabs (FR sm - S) <= E -> Rabs S <= k * M -> Rabs (FR x) <= M -> 2 * ((k + 1) * M + E + 1) <= BIG ->
  let A := u * (k + 1) * M + eta in
  finF (sm + x)%float /\ Rabs (FR (sm + x)%float - (S + FR x)) <= E * (1 + u) + A.
Proof.
  intros HM HE Hk Fs Fx Hs HS Hx Hbig A. pose proof u_pos as Hu0. pose proof u_le as Hu1. pose proof eta_pos as He0.
  assert (HkM : 0 <= k * M) by (apply Rmult_le_pos; assumption).
  assert (B1 : Rabs (FR sm + FR x) <= (k + 1) * M + E).
  { replace (FR sm + FR x) with ((FR sm - S) + S + FR x) by ring. eapply Rle_trans; [apply Rabs_triang|]. eapply Rle_trans; [apply Rplus_le_compat_r, Rabs_triang|]. lra. }
  destruct (fadd_err sm x Fs Fx) as (F1 & e1 & n1 & He1 & Hn1 & R1); [lra|]. split; [exact F1|].
  rewrite R1. replace ((FR sm + FR x) * (1 + e1) + n1 - (S + FR x)) with ((FR sm - S) + (FR sm + FR x) * e1 + n1) by ring.
  eapply Rle_trans; [apply Rabs_triang|]. eapply Rle_trans; [apply Rplus_le_compat_r, Rabs_triang|]. rewrite Rabs_mult.
  assert (Rabs (FR sm + FR x) * Rabs e1 <= ((k + 1) * M + E) * u) by (apply Rmult_le_compat; try apply Rabs_pos; assumption).
  unfold A. lra.
Qed.

Lemma sum_slide (sm x old : float) (S E M k : R) : 0 <= M -> 0 <= E -> 0 <= k -> finF sm -> finF x -> finF old ->
  Rabs (FR sm - S) <= E -> Rabs S <= k * M -> Rabs (FR x) <= M -> Rabs (FR old) <= M -> Rabs (S + FR x - FR old) <= (k + 1) * M ->
  3 * ((k + 2) * M + E + 1) <= BIG ->
  let A := u * (k + 1) * M + eta in
  finF (sm + x - old)%float /\ Rabs (FR (sm + x - old)%float - (S + FR x - FR old)) <= E * (1 + u) * (1 + u) + 3 * A.
Proof.
  intros HM HE Hk Fs Fx Fo Hs HS Hx Ho HS' Hbig A. pose proof u_pos as Hu0. pose proof u_le as Hu1. pose proof eta_pos as He0. pose proof eta_le as He1.
  assert (HkM : 0 <= k * M) by (apply Rmult_le_pos; assumption).
  destruct (sum_warm sm x S E M k HM HE Hk Fs Fx Hs HS Hx ltac:(lra)) as [F1 D1]. fold A in D1.
  assert (HA : 0 <= A) by (unfold A; assert (0 <= u * (k + 1) * M) by (apply Rmult_le_pos; [apply Rmult_le_pos; lra|lra]); lra).
  assert (HAb : A <= (k + 1) * M / 1000 + / 1000).
  { unfold A. assert (u * (k + 1) * M <= / 1000 * ((k + 1) * M)) by (rewrite Rmult_assoc; apply Rmult_le_compat_r; [apply Rmult_le_pos; lra|lra]). lra. }
  set (t1 := (sm + x)%float) in *.
  assert (HEu : E * u <= E / 1000) by (replace (E / 1000) with (E * / 1000) by field; apply Rmult_le_compat_l; lra).
  assert (B2 : Rabs (FR t1 - FR old) <= (k + 1) * M + (E * (1 + u) + A)).
  { replace (FR t1 - FR old) with ((FR t1 - (S + FR x)) + (S + FR x - FR old)) by ring. eapply Rle_trans; [apply Rabs_triang|]. lra. }
  destruct (fsub_err t1 old F1 Fo) as (F2 & e2 & n2 & He2 & Hn2 & R2); [lra|]. split; [exact F2|].
  rewrite R2. replace ((FR t1 - FR old) * (1 + e2) + n2 - (S + FR x - FR old)) with ((FR t1 - (S + FR x)) + (FR t1 - FR old) * e2 + n2) by ring.
  eapply Rle_trans; [apply Rabs_triang|]. eapply Rle_trans; [apply Rplus_le_compat_r, Rabs_triang|]. rewrite Rabs_mult.
  assert (Rabs (FR t1 - FR old) * Rabs e2 <= ((k + 1) * M + (E * (1 + u) + A)) * u) by (apply Rmult_le_compat; try apply Rabs_pos; assumption).
  assert (HAu : A * u <= A) by (rewrite <- (Rmult_1_r A) at 2; apply Rmult_le_compat_l; lra).
  assert (Hk1 : (k + 1) * M * u + eta = A) by (unfold A; ring).
  replace (E * (1 + u) * (1 + u) + 3 * A) with (E * (1 + u) + A + (E * (1 + u) * u + A + A)) by ring.
  replace (((k + 1) * M + (E * (1 + u) + A)) * u) with ((k + 1) * M * u + E * (1 + u) * u + A * u) in H by ring. lra.
Qed.

Lemma absdev_bounds mu M (l : list float) : Rabs mu <= M -> Forall (okin M) l ->
  0 <= absdev mu (map FR l) <= 2 * M * INR (length l).
Proof.
  intros Hmu H. unfold absdev. induction H as [|x l [_ Hx] _ IH]; [cbn; lra|].
  cbn [map Rsum length]. rewrite S_INR. pose proof (Rabs_pos (FR x - mu)).
  assert (Rabs (FR x - mu) <= 2 * M) by (eapply Rle_trans; [apply Rabs_triang|]; rewrite Rabs_Ropp; lra). lra.
Qed.

Lemma absdev_perm mu (a b : list float) : Permutation a b -> absdev mu (map FR a) = absdev mu (map FR b).
Proof. intros P. unfold absdev. apply Rsum_perm. apply Permutation_map, Permutation_map. exact P. Qed.

Lemma madev_absdev (l : list R) : madev l = absdev (mean l) l / INR (length l).
Proof. reflexivity. Qed.

Definition fmadE_inv (s : @Mad float) (h : list float) (E : R) : Prop :=
  let p := N.to_nat (mad_period s) in
  wf_mad s /\
  rot (N.to_nat (mad_index s)) (mad_deque s) = lastn p (padded 0%float p h) /\
  mad_count s = N.of_nat (Nat.min (length h) p) /\
  ((length h < p)%nat -> mad_index s = N.of_nat (length h)) /\
  finF (mad_sum s) /\ Rabs (FR (mad_sum s) - Rsum (map FR (lastn p h))) <= E.

Lemma hd_lastn_padded_f p (h : list float) : (p <= length h)%nat -> hd 0%float (lastn p (padded 0%float p h)) = hd 0%float (lastn p h).
Proof. intros H. rewrite lastn_padded_full by exact H. reflexivity. Qed.

Lemma fmadE_step s h x M E : 1 <= M -> M <= bpow radix2 400 -> 0 <= E -> fmadE_inv s h E -> Forall (okin M) h -> okin M x ->
  (mad_period s <= 140737488355328)%N ->
  let p := N.to_nat (mad_period s) in
  let k := INR (Nat.min (length h) p) in
  let E' := E * (1 + u) * (1 + u) + 3 * (u * (k + 1) * M + eta) in
  let w' := lastn p (h ++ [x]) in
  let kk := INR (length w') in
  let Em := E' / kk * (1 + u) + u * M + eta in
  Em <= M / 4 ->
  exists s' o, mad_next O s x = Ok (s', o) /\ fmadE_inv s' (h ++ [x]) E' /\ mad_period s' = mad_period s /\
    finF o /\ 0 <= FR o /\ Rabs (FR o - madev (map FR w')) <= Em + (3 * kk + 9) * u * M.
Proof.
  intros HM1 HM2 HE (W & Hrot & Hcnt & Hidx & Fsum & Hsum) Hh [Fx Hx] Hp47 p k E' w' kk Em HEm.
  pose proof W as (H1 & H2 & H3 & H4 & H5). fold p in Hrot, Hcnt, Hidx, Hsum.
  pose proof u_pos as Hu0. pose proof u_le as Hu1. pose proof eta_pos as He0. pose proof eta_le_u as Heu. pose proof BIG_ge as HBg.
  assert (HM0 : 0 <= M) by lra.
  assert (Hp : (1 <= p)%nat) by (unfold p; lia).
  destruct (ring_step (mad_deque s) (mad_period s) (mad_index s) x 0%float H1 H3 H2 H5) as (E1 & E2 & E3 & E4 & E5).
  set (w := lastn p h) in *.
  assert (Lw : length w = Nat.min (length h) p) by (unfold w; rewrite lastn_length; lia).
  assert (Lw' : length w' = Nat.min (length h + 1) p) by (unfold w'; rewrite lastn_length, app_length; cbn; lia).
  pose proof (lastn_snoc_cases p h x Hp) as Ew'. fold w w' in Ew'.
  assert (Fw : Forall (okin M) w) by (apply Forall_lastn; exact Hh).
  assert (Fw' : Forall (okin M) w') by (apply Forall_lastn, Forall_app; split; [exact Hh|constructor; [split; assumption|constructor]]).
  set (S := Rsum (map FR w)) in *. set (S' := Rsum (map FR w')).
  assert (Hk0 : 0 <= k) by (unfold k; apply pos_INR).
  assert (Hkk : 1 <= kk) by (unfold kk; rewrite Lw'; change 1 with (INR 1); apply le_INR; lia).
  assert (Hkk1 : kk <= k + 1) by (unfold kk, k; rewrite Lw', <- S_INR; apply le_INR; lia).
  assert (HS : Rabs S <= k * M) by (unfold S, k; rewrite <- Lw; apply Rsum_abs_le; exact Fw).
  assert (HS' : Rabs S' <= kk * M) by (unfold S', kk; apply Rsum_abs_le; exact Fw').
  assert (HkM : 0 <= k * M) by (apply Rmult_le_pos; lra).
  assert (HkkM : kk * M <= (k + 1) * M) by (apply Rmult_le_compat_r; lra).
  set (A := u * (k + 1) * M + eta) in *.
  assert (HA0 : 0 <= A) by (unfold A; assert (0 <= u * (k + 1) * M) by (apply Rmult_le_pos; [apply Rmult_le_pos; lra|lra]); lra).
  assert (HE'0 : 0 <= E') by (unfold E'; fold A; assert (0 <= E * (1 + u) * (1 + u)) by (apply Rmult_le_pos; [apply Rmult_le_pos|]; lra); lra).
  assert (HEE' : E <= E') by (unfold E'; fold A; assert (E * 1 * 1 <= E * (1 + u) * (1 + u)) by (apply Rmult_le_compat; try lra; apply Rmult_le_compat; lra); lra).
  assert (Hikk : 0 < / kk <= 1) by (split; [apply Rinv_0_lt_compat; lra|rewrite <- Rinv_1; apply Rinv_le_contravar; lra]).
  assert (HE'kk : E' <= kk * M).
  { assert (E' / kk <= M / 4) by (assert (0 <= E' / kk) by (apply Rmult_le_pos; lra); assert (E' / kk * 1 <= E' / kk * (1 + u)) by (apply Rmult_le_compat_l; lra); unfold Em in HEm; assert (0 <= u * M) by (apply Rmult_le_pos; lra); lra).
    replace E' with (E' / kk * kk) by (field; lra). apply Rle_trans with (M / 4 * kk); [apply Rmult_le_compat_r; lra|]. assert (0 <= kk * M) by (apply Rmult_le_pos; lra). lra. }
  assert (Hk47 : k <= bpow radix2 47).
  { unfold k. apply Rle_trans with (INR p); [apply le_INR; lia|]. replace (bpow radix2 47) with (INR (N.to_nat 140737488355328)) by (rewrite INR_IZR_INZ, N_nat_Z; cbn; lra). apply le_INR. unfold p. lia. }
  assert (Hbig : 3 * ((k + 2) * M + E + 1) <= BIG).
  { unfold BIG. apply Rle_trans with (bpow radix2 52 * bpow radix2 400); [|rewrite <- bpow_plus; apply bpow_le; lia].
    assert (E47 : bpow radix2 52 = 32 * bpow radix2 47) by (change 52%Z with (5 + 47)%Z; rewrite bpow_plus; cbn; lra).
    assert (1 <= bpow radix2 47) by (change 1 with (bpow radix2 0); apply bpow_le; lia).
    assert ((k + 2) * M + E + 1 <= 6 * bpow radix2 47 * M).
    { assert (k * M <= bpow radix2 47 * M) by (apply Rmult_le_compat_r; lra). assert (M <= bpow radix2 47 * M) by (rewrite <- (Rmult_1_l M) at 1; apply Rmult_le_compat_r; lra). lra. }
    assert (bpow radix2 47 * M <= bpow radix2 47 * bpow radix2 400) by (apply Rmult_le_compat_l; lra). rewrite E47. lra. }
  (* the running sum *)
  assert (Ebr : exists sum', (if (mad_count s <? mad_period s)%N
                 then c <- uadd (mad_count s) 1 ;; Ok (c, add O (mad_sum s) x)
                 else old <- idx (mad_deque s) (mad_index s) ;; Ok (mad_count s, sub O (add O (mad_sum s) x) old))
                = Ok (N.of_nat (length w'), sum') /\ finF sum' /\ Rabs (FR sum' - S') <= E').
  { destruct (Nat.ltb_spec (length h) p) as [Hwarm|Hfull].
    - assert (Ec : (mad_count s <? mad_period s)%N = true) by (apply N.ltb_lt; rewrite Hcnt; unfold p in *; lia).
      rewrite Ec, uadd_ok by (unfold ALLOC_MAX, USIZE_MAX in *; lia). cbn [bind add O].
      destruct (sum_warm (mad_sum s) x S E M k HM0 HE Hk0 Fsum Fx Hsum HS Hx ltac:(lra)) as [F1 D1]. fold A in D1.
      exists (mad_sum s + x)%float. split; [rewrite Hcnt, Lw'; do 2 f_equal; lia|]. split; [exact F1|].
      assert (ES' : S' = S + FR x) by (unfold S', S; rewrite Ew', map_app, Rsum_app; cbn; lra). rewrite ES'.
      eapply Rle_trans; [exact D1|]. unfold E'. fold A. assert (E * (1 + u) * 1 <= E * (1 + u) * (1 + u)) by (apply Rmult_le_compat_l; [apply Rmult_le_pos; lra|lra]). lra.
    - assert (Ec : (mad_count s <? mad_period s)%N = false) by (apply N.ltb_ge; rewrite Hcnt; unfold p in *; lia).
      rewrite Ec, E1. cbn [bind add sub O]. rewrite Hrot, hd_lastn_padded_f by exact Hfull. fold w.
      assert (Hw : w <> []) by (intros Ee; rewrite Ee in Lw; cbn in Lw; lia).
      set (old := hd 0%float w).
      assert (Hold : okin M old) by (unfold old; destruct w as [|a w0]; [congruence|]; cbn; now inversion Fw).
      assert (ES' : S' = S + FR x - FR old).
      { unfold S', S. rewrite Ew', map_app, Rsum_app, <- tl_map. cbn [map Rsum].
        assert (Hwr : map FR w <> []) by (destruct w; [congruence|discriminate]). rewrite (Rsum_hd_tl (map FR w) Hwr).
        assert (Ehd : hd 0 (map FR w) = FR old) by (unfold old; rewrite <- FR_zero at 1; apply hd_map). rewrite Ehd. lra. }
      destruct (sum_slide (mad_sum s) x old S E M k HM0 HE Hk0 Fsum Fx (proj1 Hold) Hsum HS Hx (proj2 Hold)) as [F2 D2]; [rewrite <- ES'; lra|exact Hbig|].
      exists (mad_sum s + x - old)%float. split; [rewrite Hcnt, Lw'; do 2 f_equal; lia|]. split; [exact F2|]. rewrite ES'. exact D2. }
  destruct Ebr as (sum' & Ebr & Fsum' & Hsum').
  unfold mad_next. rewrite Ebr. cbn [bind]. rewrite E2, E3. cbn [bind].
  set (dq' := set_nth (mad_deque s) (N.to_nat (mad_index s)) x) in *.
  set (i' := (if (mad_index s + 1 <? mad_period s)%N then (mad_index s + 1)%N else 0%N)) in *.
  assert (Hpos : (1 <= length w')%nat) by lia.
  rewrite slice_ok by lia. rewrite Nnat.Nat2N.id. cbn [N.to_nat]. rewrite Nat.sub_0_r. cbn [skipn bind].
  set (vals := firstn (length w') dq').
  assert (Hrot' : rot (N.to_nat i') dq' = lastn p (padded 0%float p (h ++ [x]))) by (rewrite E5, Hrot, lastn_padded_snoc by exact Hp; reflexivity).
  assert (Hperm : Permutation vals w').
  { unfold vals. destruct (Nat.le_gt_cases p (length h + 1)) as [Hfull|Hwarm].
    - rewrite lastn_padded_full in Hrot' by (rewrite app_length; cbn; lia). fold w' in Hrot'.
      replace (length w') with (length dq') by (rewrite E4, Lw'; unfold p in *; lia). rewrite firstn_all. rewrite <- Hrot'. symmetry. apply rot_perm.
    - assert (Ei' : N.to_nat i' = length w').
      { unfold i'. rewrite (Hidx ltac:(lia)). destruct (N.ltb_spec (N.of_nat (length h) + 1) (mad_period s)); unfold p in *; lia. }
      rewrite lastn_padded_warm in Hrot' by (rewrite app_length; cbn; lia). rewrite Ei' in Hrot'.
      assert (Ew2 : w' = h ++ [x]) by (unfold w'; apply lastn_all; rewrite app_length; cbn; lia).
      assert (Hle : (length w' <= length dq')%nat) by (rewrite E4, Lw'; unfold p in *; lia).
      rewrite (firstn_of_rot_warm dq' _ _ (h ++ [x]) Hle Hrot') by (rewrite <- Ew2; reflexivity). rewrite Ew2. apply Permutation_refl. }
  assert (Fvals : Forall (okin M) vals) by (eapply Permutation_Forall; [symmetry; exact Hperm|exact Fw']).
  assert (Lvals : length vals = length w') by (apply Permutation_length; exact Hperm).
  (* the mean *)
  set (c' := N.of_nat (length w')) in *.
  assert (Hc' : (0 < c' < 9007199254740992)%N) by (unfold c'; rewrite Lw'; unfold p in *; lia).
  assert (Rc : IZR (Z.of_N c') = kk) by (unfold c', kk; apply INR_N).
  assert (HsumB : Rabs (FR sum') <= 2 * (kk * M)).
  { replace (FR sum') with ((FR sum' - S') + S') by ring. eapply Rle_trans; [apply Rabs_triang|]. lra. }
  assert (HkkM47 : kk * M <= bpow radix2 48 * bpow radix2 400).
  { apply Rmult_le_compat; try lra. apply Rle_trans with (k + 1); [exact Hkk1|]. change 48%Z with (1 + 47)%Z. rewrite bpow_plus. change (bpow radix2 1) with 2.
    assert (1 <= bpow radix2 47) by (change 1 with (bpow radix2 0); apply bpow_le; lia). lra. }
  assert (HkkBIG : 8 * (kk * M) <= BIG).
  { unfold BIG. apply Rle_trans with (bpow radix2 3 * (bpow radix2 48 * bpow radix2 400)); [change (bpow radix2 3) with 8; lra|rewrite <- !bpow_plus; apply bpow_le; lia]. }
  destruct (fdiv_count sum' c' Fsum' Hc') as (Fmean & e3 & n3 & He3 & Hn3 & R3); [lra|]. rewrite Rc in R3.
  cbn [div ofN O]. set (meanf := (sum' / f_ofN c')%float) in *.
  set (mu := mean (map FR w')).
  assert (Emu : mu = S' / kk) by (unfold mu, mean, S', kk; rewrite map_length; reflexivity).
  assert (Hmu : Rabs mu <= M) by (apply mean_abs_le; assumption).
  assert (Hmean : Rabs (FR meanf - mu) <= Em).
  { rewrite R3, Emu. replace (FR sum' / kk * (1 + e3) + n3 - S' / kk) with ((FR sum' - S') / kk * (1 + e3) + S' / kk * e3 + n3) by (field; lra).
    eapply Rle_trans; [apply Rabs_triang|]. eapply Rle_trans; [apply Rplus_le_compat_r, Rabs_triang|].
    rewrite !Rabs_mult. unfold Rdiv at 1 2. rewrite !Rabs_mult, (Rabs_pos_eq (/ kk)) by lra.
    assert (P1 : Rabs (FR sum' - S') * / kk * Rabs (1 + e3) <= E' * / kk * (1 + u)).
    { apply Rmult_le_compat; [apply Rmult_le_pos; [apply Rabs_pos|lra]|apply Rabs_pos| |].
      - apply Rmult_le_compat_r; [lra|exact Hsum'].
      - eapply Rle_trans; [apply Rabs_triang|]. rewrite Rabs_R1. lra. }
    assert (P2 : Rabs S' * / kk * Rabs e3 <= M * u).
    { apply Rmult_le_compat; try assumption; [apply Rmult_le_pos; [apply Rabs_pos|lra]|apply Rabs_pos|].
      apply Rle_trans with (kk * M * / kk); [apply Rmult_le_compat_r; lra|]. field_simplify; lra. }
    unfold Em, Rdiv. lra. }
  assert (HEm0 : 0 <= Em).
  { unfold Em. assert (0 <= E' / kk * (1 + u)) by (apply Rmult_le_pos; [apply Rmult_le_pos; lra|lra]). assert (0 <= u * M) by (apply Rmult_le_pos; lra). lra. }
  (* the inner loop *)
  assert (HKu : INR (length w') * u <= / 64).
  { fold kk. apply Rle_trans with (bpow radix2 47 * u); [apply Rmult_le_compat_r; [lra|]|unfold u; cbn; lra].
    unfold kk. rewrite Lw'. apply Rle_trans with (INR p); [apply le_INR; lia|]. replace (bpow radix2 47) with (INR (N.to_nat 140737488355328)) by (rewrite INR_IZR_INZ, N_nat_Z; cbn; lra). apply le_INR. unfold p. lia. }
  assert (HK60 : INR (length w') <= bpow radix2 60).
  { fold kk. apply Rle_trans with (k + 1); [exact Hkk1|]. apply Rle_trans with (bpow radix2 48); [change 48%Z with (1 + 47)%Z; rewrite bpow_plus; change (bpow radix2 1) with 2; assert (1 <= bpow radix2 47) by (change 1 with (bpow radix2 0); apply bpow_le; lia); lra|apply bpow_le; lia]. }
  assert (HM900 : M <= bpow radix2 900) by (eapply Rle_trans; [exact HM2|apply bpow_le; lia]).
  pose proof (mad_fold_err meanf mu Em M (length w') Fmean HM1 HM900 Hmu Hmean (conj HEm0 HEm) HKu HK60) as Hfold. cbv zeta in Hfold.
  specialize (Hfold vals 0%float 0 0%nat ltac:(rewrite Lvals; lia) Fvals finF_zero ltac:(rewrite FR_zero; lra) ltac:(rewrite FR_zero, Rminus_0_r, Rabs_R0; cbn [INR]; lra) ltac:(cbn [INR]; lra)).
  change (zero O) with 0%float. cbn [add sub abs O].
  set (r := fold_left (fun a v => (a + PrimFloat.abs (v - meanf))%float) vals 0%float) in *.
  destruct Hfold as (Fr & Hr0 & Hrr). rewrite Nat.add_0_l, Lvals, Rplus_0_l in Hrr. fold kk in Hrr.
  set (c := Em + 3 * kk * u * M + 5 * u * M) in *.
  rewrite (absdev_perm mu vals w' Hperm) in Hrr.
  destruct (absdev_bounds mu M w' Hmu Fw') as [Had0 Had]. fold kk in Had.
  set (AD := absdev mu (map FR w')) in *.
  assert (HuM0 : 0 <= u * M) by (apply Rmult_le_pos; lra).
  assert (HkkuM : 0 <= kk * u * M) by (apply Rmult_le_pos; [apply Rmult_le_pos; lra|lra]).
  assert (Hc0 : 0 <= c) by (unfold c; lra).
  assert (HcM : c <= M) by (unfold c; fold kk in HKu; assert (kk * u * M <= / 64 * M) by (apply Rmult_le_compat_r; lra); assert (u * M <= / 1000 * M) by (apply Rmult_le_compat_r; lra); lra).
  assert (HrB : Rabs (FR r) <= 3 * (kk * M)).
  { replace (FR r) with ((FR r - AD) + AD) by ring. eapply Rle_trans; [apply Rabs_triang|]. rewrite (Rabs_pos_eq AD) by lra.
    assert (kk * c <= kk * M) by (apply Rmult_le_compat_l; lra). lra. }
  destruct (fdiv_count r c' Fr Hc') as (Fo & e4 & n4 & He4 & Hn4 & R4); [lra|]. rewrite Rc in R4.
  destruct (fdiv_nonneg r c' Fr Hr0 ltac:(lra) Hc') as [_ Ho0].
  set (o := (r / f_ofN c')%float) in *.
  exists (mkMad (mad_period s) i' c' sum' dq'), o.
  split; [reflexivity|]. split; [|split; [reflexivity|split; [exact Fo|split; [exact Ho0|]]]].
  - unfold fmadE_inv. cbn [mad_period mad_index mad_count mad_sum mad_deque]. fold p.
    split; [unfold wf_mad, ring_wf; cbn; unfold i'; pose proof (advance_lt _ _ H3); repeat split; unfold c', p in *; try lia|].
    split; [exact Hrot'|]. split; [unfold c'; rewrite Lw', app_length; cbn; reflexivity|].
    split; [|split; [exact Fsum'|exact Hsum']].
    intros Hlt. rewrite app_length in Hlt. cbn [length] in Hlt. unfold i'. rewrite (Hidx ltac:(lia)), app_length. cbn [length].
    destruct (N.ltb_spec (N.of_nat (length h) + 1) (mad_period s)); unfold p in *; lia.
  - rewrite madev_absdev, map_length. fold mu. fold AD. fold kk. rewrite R4.
    replace (FR r / kk * (1 + e4) + n4 - AD / kk) with ((FR r - AD) / kk * (1 + e4) + AD / kk * e4 + n4) by (field; lra).
    eapply Rle_trans; [apply Rabs_triang|]. eapply Rle_trans; [apply Rplus_le_compat_r, Rabs_triang|].
    rewrite !Rabs_mult. unfold Rdiv at 1 2. rewrite !Rabs_mult, (Rabs_pos_eq (/ kk)) by lra. rewrite (Rabs_pos_eq AD) by lra.
    assert (P1 : Rabs (FR r - AD) * / kk * Rabs (1 + e4) <= c * (1 + u)).
    { apply Rmult_le_compat; [apply Rmult_le_pos; [apply Rabs_pos|lra]|apply Rabs_pos| |].
      - apply Rle_trans with (kk * c * / kk); [apply Rmult_le_compat_r; lra|]. field_simplify; lra.
      - eapply Rle_trans; [apply Rabs_triang|]. rewrite Rabs_R1. lra. }
    assert (P2 : AD * / kk * Rabs e4 <= 2 * M * u).
    { apply Rmult_le_compat; try assumption; [apply Rmult_le_pos; lra|apply Rabs_pos|].
      apply Rle_trans with (2 * M * kk * / kk); [apply Rmult_le_compat_r; lra|]. field_simplify; lra. }
    assert (c * u <= M * u) by (apply Rmult_le_compat_r; lra).
    assert (HeM : eta <= u * M) by (apply Rle_trans with (u * 1); [lra|apply Rmult_le_compat_l; lra]).
    unfold c in *. lra.
Qed.

(* ---- the whole stream ---- *)
From TA Require Import Proofs.Wiring Proofs.FloatAtr.
Open Scope R_scope.

Lemma Em_bound (E' kk T M : R) : 0 <= M -> 1 <= kk -> 1 <= T -> 0 <= E' -> E' <= 4 * T * (u * (kk + 1) * M + eta) ->
  E' / kk * (1 + u) + u * M + eta <= (9 * T + 1) * u * M + (5 * T + 1) * eta.
Proof.
  intros HM Hk HT HE0 HE. pose proof u_pos as Hu0. pose proof u_le as Hu1. pose proof eta_pos as He0.
  assert (Hi : 0 < / kk <= 1) by (split; [apply Rinv_0_lt_compat; lra|rewrite <- Rinv_1; apply Rinv_le_contravar; lra]).
  assert (HuM : 0 <= u * M) by (apply Rmult_le_pos; lra).
  assert (Hdiv : E' / kk <= 4 * T * (2 * u * M + eta)).
  { apply Rle_trans with (4 * T * (u * (kk + 1) * M + eta) / kk); [apply Rmult_le_compat_r; lra|].
    unfold Rdiv. rewrite Rmult_assoc. apply Rmult_le_compat_l; [lra|].
    replace ((u * (kk + 1) * M + eta) * / kk) with (u * M * (1 + / kk) + eta * / kk) by (field; lra).
    assert (u * M * (1 + / kk) <= u * M * 2) by (apply Rmult_le_compat_l; lra).
    assert (eta * / kk <= eta * 1) by (apply Rmult_le_compat_l; lra). lra. }
  assert (Hq : E' / kk * (1 + u) <= 4 * T * (2 * u * M + eta) * (9 / 8)).
  { apply Rmult_le_compat; [apply Rmult_le_pos; lra|lra|exact Hdiv|lra]. }
  assert (HTuM : 0 <= T * (u * M)) by (apply Rmult_le_pos; lra).
  assert (HTe : 0 <= T * eta) by (apply Rmult_le_pos; lra).
  replace (4 * T * (2 * u * M + eta) * (9 / 8)) with (9 * (T * (u * M)) + 9 / 2 * (T * eta)) in Hq by field.
  replace ((9 * T + 1) * u * M + (5 * T + 1) * eta) with (9 * (T * (u * M)) + u * M + 5 * (T * eta) + eta) by ring. lra.
Qed.

Definition mad_bound (M : R) (T : nat) : R := (12 * INR T + 10) * u * M + (5 * INR T + 1) * eta.

Lemma fmadE_run p M : 1 <= M -> M <= bpow radix2 400 ->
  forall xs (s : @Mad float) h E, N.to_nat (mad_period s) = p -> (mad_period s <= 140737488355328)%N ->
  fmadE_inv s h E -> 0 <= E -> E <= 4 * INR (length h) * Abar p M (length h) ->
  Forall (okin M) h -> Forall (okin M) xs -> INR (length h + length xs) * u <= / 64 ->
  Forall2 (fun o hh => finF o /\ 0 <= FR o /\ Rabs (FR o - madev (map FR (lastn p hh))) <= mad_bound M (length hh))
          (mad_outs O s xs) (prefixes_from h xs).
Proof.
  intros HM1 HM2. assert (HM : 0 <= M) by lra.
  induction xs as [|x xs IH]; intros s h E Hp Hp47 Hinv HE HEb Hh Hxs Htu; [constructor|].
  pose proof (Forall_inv Hxs) as Hx. pose proof (Forall_inv_tail Hxs) as Hxs'.
  pose proof u_pos as Hu0. pose proof u_le as Hu1. pose proof eta_pos as He0. pose proof eta_le_u as Heu.
  set (t := length h) in *.
  assert (Hp1 : (1 <= p)%nat) by (destruct Hinv as ((W1 & _) & _); lia).
  assert (Htu' : INR (S t) * u <= / 64).
  { eapply Rle_trans; [|exact Htu]. apply Rmult_le_compat_r; [lra|]. apply le_INR. cbn [length]. lia. }
  assert (Htu16 : INR (S t) * u <= / 16) by lra.
  set (E' := E * (1 + u) * (1 + u) + 3 * (u * (INR (Nat.min t p) + 1) * M + eta)).
  assert (HE'b : E' <= 4 * INR (S t) * Abar p M (S t)) by (apply (err_step p M t E HM HE HEb Htu16)).
  assert (HE'0 : 0 <= E').
  { unfold E'. pose proof (Abar_pos p M t HM) as Ha. unfold Abar in Ha.
    assert (0 <= E * (1 + u) * (1 + u)) by (apply Rmult_le_pos; [apply Rmult_le_pos|]; lra). lra. }
  assert (Lh : length (h ++ [x]) = S t) by (rewrite app_length; cbn; unfold t; lia).
  set (w' := lastn p (h ++ [x])).
  assert (Lw' : length w' = Nat.min p (S t)) by (unfold w'; rewrite lastn_length, Lh; reflexivity).
  set (kk := INR (length w')).
  assert (Hkk : 1 <= kk) by (unfold kk; rewrite Lw'; change 1 with (INR 1); apply le_INR; lia).
  assert (HT : 1 <= INR (S t)) by (change 1 with (INR 1); apply le_INR; lia).
  assert (Eab : Abar p M (S t) = u * (kk + 1) * M + eta) by (unfold Abar, kk; rewrite Lw', Nat.min_comm; reflexivity).
  assert (HEm : E' / kk * (1 + u) + u * M + eta <= (9 * INR (S t) + 1) * u * M + (5 * INR (S t) + 1) * eta).
  { apply Em_bound; try assumption. rewrite <- Eab. exact HE'b. }
  assert (HuM : 0 <= u * M) by (apply Rmult_le_pos; lra).
  assert (HeM : eta <= u * M) by (apply Rle_trans with (u * 1); [lra|apply Rmult_le_compat_l; lra]).
  assert (HTuM : INR (S t) * (u * M) <= / 64 * M) by (rewrite <- Rmult_assoc; apply Rmult_le_compat_r; lra).
  assert (HTe : INR (S t) * eta <= INR (S t) * (u * M)) by (apply Rmult_le_compat_l; lra).
  assert (HEmM : E' / kk * (1 + u) + u * M + eta <= M / 4).
  { eapply Rle_trans; [exact HEm|]. assert (u * M <= / 1000 * M) by (apply Rmult_le_compat_r; lra).
    replace ((9 * INR (S t) + 1) * u * M + (5 * INR (S t) + 1) * eta) with (9 * (INR (S t) * (u * M)) + u * M + 5 * (INR (S t) * eta) + eta) by ring. lra. }
  destruct (fmadE_step s h x M E HM1 HM2 HE Hinv Hh Hx Hp47) as (s' & o & En & Hinv' & Hp' & Fo & Ho0 & Ho).
  { rewrite Hp. fold t. fold E'. fold w'. fold kk. exact HEmM. }
  rewrite Hp in *. fold t in Hinv', Ho. fold E' in Hinv', Ho. fold w' in Ho. fold kk in Ho.
  change (mad_outs O s (x :: xs)) with (res_outs (mad_next O) s (x :: xs)). cbn [res_outs]. rewrite En. cbn [prefixes_from].
  constructor.
  - split; [exact Fo|]. split; [exact Ho0|]. fold w'. eapply Rle_trans; [exact Ho|]. rewrite Lh. unfold mad_bound.
    assert (Hkt : kk <= INR (S t)) by (unfold kk; rewrite Lw'; apply le_INR; lia).
    assert ((3 * kk + 9) * u * M <= (3 * INR (S t) + 9) * u * M).
    { replace ((3 * kk + 9) * u * M) with ((3 * kk + 9) * (u * M)) by ring. replace ((3 * INR (S t) + 9) * u * M) with ((3 * INR (S t) + 9) * (u * M)) by ring.
      apply Rmult_le_compat_r; lra. }
    replace ((12 * INR (S t) + 10) * u * M) with ((9 * INR (S t) + 1) * u * M + (3 * INR (S t) + 9) * u * M) by ring. lra.
  - apply (IH s' (h ++ [x]) E'); try assumption.
    + rewrite Hp'. exact Hp.
    + rewrite Hp'. exact Hp47.
    + rewrite Lh. exact HE'b.
    + apply Forall_app. split; [exact Hh|constructor; [exact Hx|constructor]].
    + rewrite Lh. eapply Rle_trans; [|exact Htu]. apply Rmult_le_compat_r; [lra|]. apply le_INR. cbn [length]. unfold t. lia.
Qed.

Lemma fmadE_inv_new p s : mad_new O p = Ok s -> fmadE_inv s [] 0.
Proof.
  intros H. pose proof (mad_new_inv O p s H) as (A & B & W & Pe).
  rewrite mad_new_ok in H by assumption. injection H as <-. unfold fmadE_inv. cbn [mad_period mad_index mad_count mad_sum mad_deque length].
  split; [exact W|]. split; [rewrite rot_0, lastn_padded_nil; reflexivity|]. split; [reflexivity|]. split; [intros _; reflexivity|].
  split; [exact finF_zero|]. change (FR (zero O)) with 0.
  replace (lastn (N.to_nat p) (@nil float)) with (@nil float) by (unfold lastn; destruct (N.to_nat p); reflexivity).
  cbn. rewrite Rminus_0_r, Rabs_R0. lra.
Qed.

(* binary64 MeanAbsoluteDeviation against the exact mean absolute deviation of the last min(t,n) inputs *)
Theorem mad_float_error : forall p s xs M, mad_new O p = Ok s -> (p <= 140737488355328)%N ->
  1 <= M -> M <= bpow radix2 400 -> Forall (okin M) xs -> INR (length xs) * u <= / 64 ->
  Forall2 (fun o hh => finF o /\ 0 <= FR o /\ Rabs (FR o - madev (map FR (lastn (N.to_nat p) hh))) <= mad_bound M (length hh))
          (mad_outs O s xs) (prefixes_from [] xs).
Proof.
  intros p s xs M H Hp HM1 HM2 Hxs Ht. pose proof (mad_new_inv O p s H) as (_ & _ & _ & Pe).
  apply (fmadE_run (N.to_nat p) M HM1 HM2 xs s [] 0); try assumption.
  - now rewrite Pe.
  - now rewrite Pe.
  - apply (fmadE_inv_new p s H).
  - lra.
  - cbn. lra.
  - constructor.
Qed.

(* ... inside the tolerance tau(t) * M *)
Theorem mad_float_within_tau : forall p s xs M, mad_new O p = Ok s -> (p <= 140737488355328)%N ->
  1 <= M -> M <= bpow radix2 400 -> Forall (okin M) xs -> INR (length xs) * u <= / 64 ->
  Forall2 (fun o hh => let t := INR (length hh) in finF o /\ 0 <= FR o /\
            Rabs (FR o - madev (map FR (lastn (N.to_nat p) hh))) <= (1 / 10 ^ 12 + 1 / 10 ^ 15 * (t * R_sqrt.sqrt t)) * M)
          (mad_outs O s xs) (prefixes_from [] xs).
Proof.
  intros p s xs M H Hp HM1 HM2 Hxs Ht. pose proof u_pos as Hu0. pose proof eta_pos as He0. pose proof eta_le_u as Heu.
  pose proof (mad_float_error p s xs M H Hp HM1 HM2 Hxs Ht) as HF. pose proof (prefixes_from_len xs []) as Hlen.
  revert Hlen. induction HF as [|o hh l L (F1 & F2 & E) _ IH]; intros Hlen; constructor.
  - cbv zeta. split; [exact F1|]. split; [exact F2|]. eapply Rle_trans; [exact E|].
    pose proof (Forall_inv Hlen) as H1. assert (HT : 1 <= INR (length hh)) by (change 1 with (INR 1); apply le_INR; exact H1).
    eapply Rle_trans; [|apply atr_bound_tau; [lra|exact HT]]. unfold mad_bound. set (T := INR (length hh)) in *.
    assert (HuM : 0 <= u * M) by (apply Rmult_le_pos; lra).
    assert (HeM : eta <= u * M) by (apply Rle_trans with (u * 1); [lra|apply Rmult_le_compat_l; lra]).
    assert ((5 * T + 1) * eta <= (5 * T + 1) * (u * M)) by (apply Rmult_le_compat_l; lra).
    replace ((12 * T + 10) * u * M) with ((12 * T + 10) * (u * M)) by ring. replace ((96 * T + 3) * u * M) with ((96 * T + 3) * (u * M)) by ring.
    assert ((17 * T + 11) * (u * M) <= (96 * T + 3) * (u * M)) by (apply Rmult_le_compat_r; lra). lra.
  - apply IH. exact (Forall_inv_tail Hlen).
Qed.

(* the full-history output and the output of a fresh instance fed only a suffix containing the last n inputs agree within tau(t) M *)
Theorem mad_float_forgets_tau : forall p s xs1 xs2 M, mad_new O p = Ok s -> (p <= 140737488355328)%N ->
  1 <= M -> M <= bpow radix2 400 -> Forall (okin M) xs1 -> Forall (okin M) xs2 ->
  INR (length xs1) * u <= / 64 -> xs2 <> [] -> (length xs2 <= length xs1)%nat ->
  lastn (N.to_nat p) xs1 = lastn (N.to_nat p) xs2 ->
  Rabs (FR (last (mad_outs O s xs1) 0%float) - FR (last (mad_outs O s xs2) 0%float)) <=
  (1 / 10 ^ 12 + 1 / 10 ^ 15 * (INR (length xs1) * R_sqrt.sqrt (INR (length xs1)))) * M.
Proof.
  intros p s xs1 xs2 M H Hp HM1 HM2 F1 F2 T1 N2 L E. pose proof u_pos as Hu0. pose proof eta_pos as He0. pose proof eta_le_u as Heu.
  assert (N1 : xs1 <> []) by (destruct xs1; [destruct xs2; [congruence|cbn in L; lia]|discriminate]).
  assert (T2 : INR (length xs2) * u <= / 64) by (eapply Rle_trans; [|exact T1]; apply Rmult_le_compat_r; [lra|apply le_INR; exact L]).
  pose proof (mad_float_error p s xs1 M H Hp HM1 HM2 F1 T1) as A1.
  pose proof (mad_float_error p s xs2 M H Hp HM1 HM2 F2 T2) as A2.
  assert (O1 : mad_outs O s xs1 <> []) by (intros Z; rewrite Z in A1; inversion A1 as [Q|]; subst; destruct xs1; [congruence|discriminate]).
  assert (O2 : mad_outs O s xs2 <> []) by (intros Z; rewrite Z in A2; inversion A2 as [Q|]; subst; destruct xs2; [congruence|discriminate]).
  pose proof (Forall2_last _ _ _ 0%float [] A1 O1) as (_ & _ & B1). pose proof (Forall2_last _ _ _ 0%float [] A2 O2) as (_ & _ & B2).
  rewrite last_prefixes' in B1, B2 by assumption. cbn [app] in B1, B2. rewrite E in B1.
  set (mu := madev (map FR (lastn (N.to_nat p) xs2))) in *.
  replace (FR (last (mad_outs O s xs1) 0%float) - FR (last (mad_outs O s xs2) 0%float))
    with ((FR (last (mad_outs O s xs1) 0%float) - mu) - (FR (last (mad_outs O s xs2) 0%float) - mu)) by ring.
  eapply Rle_trans; [apply Rabs_triang|]. rewrite Rabs_Ropp.
  set (t1 := INR (length xs1)) in *. set (t2 := INR (length xs2)) in *.
  assert (Ht2 : 1 <= t2) by (unfold t2; destruct xs2; [congruence|]; cbn [length]; rewrite S_INR; pose proof (pos_INR (length xs2)); lra).
  assert (Ht12 : t2 <= t1) by (unfold t1, t2; apply le_INR; exact L).
  eapply Rle_trans; [|apply atr_bound_tau; [lra|lra]]. unfold mad_bound in *. fold t1 in B1. fold t2 in B2.
  assert (HuM : 0 <= u * M) by (apply Rmult_le_pos; lra).
  assert (HeM : eta <= u * M) by (apply Rle_trans with (u * 1); [lra|apply Rmult_le_compat_l; lra]).
  assert ((5 * t1 + 1) * eta <= (5 * t1 + 1) * (u * M)) by (apply Rmult_le_compat_l; lra).
  assert ((5 * t2 + 1) * eta <= (5 * t2 + 1) * (u * M)) by (apply Rmult_le_compat_l; lra).
  replace ((12 * t1 + 10) * u * M) with ((12 * t1 + 10) * (u * M)) in B1 by ring. replace ((12 * t2 + 10) * u * M) with ((12 * t2 + 10) * (u * M)) in B2 by ring.
  replace ((96 * t1 + 3) * u * M) with ((96 * t1 + 3) * (u * M)) by ring.
  assert ((17 * t1 + 11 + (17 * t2 + 11)) * (u * M) <= (96 * t1 + 3) * (u * M)) by (apply Rmult_le_compat_r; lra). lra.
Qed.
