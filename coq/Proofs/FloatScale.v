(* C14 on binary64, the basic fact behind "power-of-two factors are covariant bit for bit": round-to-nearest-even commutes with
   multiplication by 2^k as long as the argument and the scaled argument are zero or in the normal range; hence so do the correctly
   rounded + - / of scaled operands (and * by an unscaled factor). *)
From Coq Require Import Reals Lra Lia ZArith Floats.
From Flocq Require Import Core BinarySingleNaN PrimFloat.
From TA Require Import Proofs.FloatErr.
Open Scope R_scope.
Local Notation fexp := (SpecFloat.fexp prec emax).
Local Notation RN := (round radix2 fexp (round_mode mode_NE)).

Definition nmin : R := bpow radix2 (-1022).     (* least positive normal binary64 *)

Lemma fexp_normal e : (-1021 <= e)%Z -> fexp e = (e - prec)%Z.
Proof. intros H. unfold SpecFloat.fexp, SpecFloat.emin, prec, emax. lia. Qed.

Lemma mag_normal x : nmin <= Rabs x -> (-1021 <= mag radix2 x)%Z.
Proof. intros H. apply mag_ge_bpow. exact H. Qed.

Theorem RN_mult_bpow x k : nmin <= Rabs x -> nmin <= Rabs (x * bpow radix2 k) -> RN (x * bpow radix2 k) = RN x * bpow radix2 k.
Proof.
  intros Hx Hxk.
  assert (Hx0 : x <> 0).
  { intros ->. rewrite Rabs_R0 in Hx. pose proof (bpow_gt_0 radix2 (-1022)). unfold nmin in Hx. lra. }
  pose proof (mag_normal x Hx) as M1. pose proof (mag_normal _ Hxk) as M2.
  rewrite (mag_mult_bpow radix2 x k Hx0) in M2.
  unfold round, scaled_mantissa, cexp. rewrite (mag_mult_bpow radix2 x k Hx0).
  rewrite (fexp_normal _ M2), (fexp_normal _ M1).
  replace (x * bpow radix2 k * bpow radix2 (- (mag radix2 x + k - prec))) with (x * bpow radix2 (- (mag radix2 x - prec))).
  2:{ rewrite Rmult_assoc, <- bpow_plus. f_equal. f_equal. lia. }
  unfold F2R. cbn [Fnum Fexp]. rewrite Rmult_assoc, <- bpow_plus. f_equal. f_equal. lia.
Qed.

(* zero is covariant too, so "zero or normal" suffices *)
Theorem RN_mult_bpow0 x k : (x = 0 \/ (nmin <= Rabs x /\ nmin <= Rabs (x * bpow radix2 k))) -> RN (x * bpow radix2 k) = RN x * bpow radix2 k.
Proof.
  intros [->|[H1 H2]]; [|apply RN_mult_bpow; assumption].
  rewrite Rmult_0_l, round_0 by apply valid_rnd_round_mode. ring.
Qed.

(* a name for round-to-nearest-even on the binary64 format, for statements outside this file *)
Definition RNd (x : R) : R := RN x.
Theorem RNd_mult_bpow0 x k : (x = 0 \/ (nmin <= Rabs x /\ nmin <= Rabs (x * bpow radix2 k))) -> RNd (x * bpow radix2 k) = RNd x * bpow radix2 k.
Proof. exact (RN_mult_bpow0 x k). Qed.
Theorem fadd_is_RNd a b : finF a -> finF b -> Rabs (FR a + FR b) <= BIG -> FR (a + b)%float = RNd (FR a + FR b).
Proof.
  intros Fa Fb Hb. unfold finF, FR in *. rewrite add_equiv.
  pose proof (Bplus_correct prec emax Hprec Hmax mode_NE (Prim2B a) (Prim2B b) Fa Fb) as H.
  rewrite (RN_lt_emax _ Hb) in H. destruct H as (E & _). exact E.
Qed.

(* the exact sum / difference / quotient of scaled operands is the scaled exact result: with the two theorems above, a correctly rounded
   operation on operands scaled by 2^k returns the scaled result whenever that result is zero or normal before and after scaling *)
Lemma scaled_add a b k : a * bpow radix2 k + b * bpow radix2 k = (a + b) * bpow radix2 k. Proof. ring. Qed.
Lemma scaled_sub a b k : a * bpow radix2 k - b * bpow radix2 k = (a - b) * bpow radix2 k. Proof. ring. Qed.
Lemma scaled_div_count a c k : (a * bpow radix2 k) / c = (a / c) * bpow radix2 k. Proof. unfold Rdiv. ring. Qed.
Lemma scaled_ratio a b k : b <> 0 -> (a * bpow radix2 k) / (b * bpow radix2 k) = a / b.
Proof. intros Hb. pose proof (bpow_gt_0 radix2 k). field. split; lra. Qed.

(* ---- float level: operands related by FR a' = FR a * 2^k ---- *)
From Coq Require Import List.
From TA Require Import Base Model FloatInst Proofs.FloatSma Proofs.FloatFast Proofs.FloatMad Proofs.GRoc.
Local Notation O := FOps.
Local Notation float := PrimFloat.float.
Open Scope R_scope.

Lemma abs_bounds_R x b : Rabs x <= b -> - b <= x <= b.
Proof. intros H. split; [pose proof (Rabs_pos x); destruct (Rcase_abs x); [rewrite Rabs_left in H by assumption|rewrite Rabs_right in H by assumption]; lra|eapply Rle_trans; [apply RRle_abs|exact H]]. Qed.

Definition scaled (k : Z) (a a' : float) : Prop := finF a /\ finF a' /\ FR a' = FR a * bpow radix2 k.
Definition zero_or_normal (k : Z) (r : R) : Prop := r = 0 \/ (nmin <= Rabs r /\ nmin <= Rabs (r * bpow radix2 k)).

Theorem fadd_scale k a b a' b' : scaled k a a' -> scaled k b b' ->
  Rabs (FR a + FR b) <= BIG -> Rabs ((FR a + FR b) * bpow radix2 k) <= BIG -> zero_or_normal k (FR a + FR b) ->
  scaled k (a + b)%float (a' + b')%float.
Proof.
  intros (Fa & Fa' & Ea) (Fb & Fb' & Eb) H1 H2 Hz.
  destruct (fadd_exact a b Fa Fb H1) as [F1 E1].
  destruct (fadd_exact a' b' Fa' Fb') as [F2 E2]; [rewrite Ea, Eb, scaled_add; exact H2|].
  split; [exact F1|]. split; [exact F2|]. rewrite E2, E1, Ea, Eb, scaled_add. apply RN_mult_bpow0. exact Hz.
Qed.

Theorem fsub_scale k a b a' b' : scaled k a a' -> scaled k b b' ->
  Rabs (FR a - FR b) <= BIG -> Rabs ((FR a - FR b) * bpow radix2 k) <= BIG -> zero_or_normal k (FR a - FR b) ->
  scaled k (a - b)%float (a' - b')%float.
Proof.
  intros (Fa & Fa' & Ea) (Fb & Fb' & Eb) H1 H2 Hz.
  destruct (fsub_exact a b Fa Fb H1) as [F1 E1].
  destruct (fsub_exact a' b' Fa' Fb') as [F2 E2]; [rewrite Ea, Eb, scaled_sub; exact H2|].
  split; [exact F1|]. split; [exact F2|]. rewrite E2, E1, Ea, Eb, scaled_sub. apply RN_mult_bpow0. exact Hz.
Qed.

(* a ratio of two scaled quantities is the same real number, hence rounds to the same value: dimensionless outputs do not move at all *)
Theorem fdiv_scale_ratio k a b a' b' : scaled k a a' -> scaled k b b' -> FR b <> 0 -> Rabs (FR a / FR b) <= BIG ->
  finF (a / b)%float /\ finF (a' / b')%float /\ FR (a' / b')%float = FR (a / b)%float.
Proof.
  intros (Fa & Fa' & Ea) (Fb & Fb' & Eb) Nb H1.
  assert (Nb' : FR b' <> 0) by (rewrite Eb; pose proof (bpow_gt_0 radix2 k); intros Hc; apply Rmult_integral in Hc; destruct Hc; [contradiction|lra]).
  destruct (fdiv_exact a b Fa Nb H1) as [F1 E1].
  destruct (fdiv_exact a' b' Fa' Nb') as [F2 E2]; [rewrite Ea, Eb, scaled_ratio by exact Nb; exact H1|].
  split; [exact F1|]. split; [exact F2|]. rewrite E2, E1, Ea, Eb, scaled_ratio by exact Nb. reflexivity.
Qed.

(* RateOfChange = ((x - r) / r) * 100 on the window reference r (GRoc, any carrier): scaling x and r by 2^k leaves the output's value
   unchanged exactly, whenever x - r is zero or normal before and after the scaling and nothing overflows *)
Theorem roc_pow2_invariant k x r x' r' : scaled k x x' -> scaled k r r' -> FR r <> 0 ->
  Rabs (FR x - FR r) <= BIG -> Rabs ((FR x - FR r) * bpow radix2 k) <= BIG -> zero_or_normal k (FR x - FR r) ->
  Rabs (FR (x - r)%float / FR r) <= BIG / 256 ->
  finF (groc_val O r x) /\ finF (groc_val O r' x') /\ FR (groc_val O r' x') = FR (groc_val O r x).
Proof.
  intros Sx Sr Nr H1 H2 Hz Hq. unfold groc_val. cbn [sub div mul c100 O].
  pose proof (fsub_scale k x r x' r' Sx Sr H1 H2 Hz) as Sd.
  assert (HB : 0 <= BIG) by (unfold BIG; apply bpow_ge_0).
  destruct (fdiv_scale_ratio k _ _ _ _ Sd Sr Nr ltac:(lra)) as (F1 & F2 & E).
  assert (F100 : finF 100%float) by reflexivity.
  assert (R100 : FR 100%float = 100) by (unfold FR; cbn; unfold F2R; cbn; lra).
  assert (Hq' : Rabs (FR ((x - r) / r)%float) <= BIG / 128).
  { destruct Sd as (Fd & _ & _). destruct (fdiv_exact (x - r)%float r Fd Nr ltac:(lra)) as [_ Eq]. rewrite Eq.
    destruct (RN_err (FR (x - r)%float / FR r)) as (e & t & He & Ht & ->).
    pose proof u_le. pose proof eta_le. apply abs_bounds_R in He. apply abs_bounds_R in Ht. apply abs_bounds_R in Hq.
    assert (1 <= BIG / 256).
    { unfold BIG. apply Rmult_le_reg_r with 256; [lra|]. unfold Rdiv. rewrite Rmult_assoc, Rinv_l by lra. rewrite Rmult_1_r, Rmult_1_l.
      apply Rle_trans with (bpow radix2 8); [cbn; lra|apply bpow_le; lia]. }
    apply Rabs_le. split; nra. }
  assert (Hm : Rabs (FR ((x - r) / r)%float * FR 100%float) <= BIG).
  { rewrite R100, Rabs_mult, (Rabs_pos_eq 100) by lra. lra. }
  destruct (fmul_exact _ _ F1 F100 Hm) as [G1 M1].
  destruct (fmul_exact _ _ F2 F100) as [G2 M2]; [rewrite E; exact Hm|].
  split; [exact G1|]. split; [exact G2|]. rewrite M2, M1, E. reflexivity.
Qed.

(* a ratio of two scaled quantities times 100 — the shape of RateOfChange and of FastStochastic's %K *)
Lemma ratio100_invariant k a b a' b' : scaled k a a' -> scaled k b b' -> FR b <> 0 -> Rabs (FR a / FR b) <= BIG / 256 ->
  finF ((a / b) * 100)%float /\ finF ((a' / b') * 100)%float /\ FR ((a' / b') * 100)%float = FR ((a / b) * 100)%float.
Proof.
  intros Sa Sb Nb Hq.
  assert (HB : 0 <= BIG) by (unfold BIG; apply bpow_ge_0).
  destruct (fdiv_scale_ratio k _ _ _ _ Sa Sb Nb ltac:(lra)) as (F1 & F2 & E).
  assert (F100 : finF 100%float) by reflexivity.
  assert (R100 : FR 100%float = 100) by (unfold FR; cbn; unfold F2R; cbn; lra).
  assert (Hq' : Rabs (FR (a / b)%float) <= BIG / 128).
  { destruct Sa as (Fa & _ & _). destruct (fdiv_exact a b Fa Nb ltac:(lra)) as [_ Eq]. rewrite Eq.
    destruct (RN_err (FR a / FR b)) as (e & t & He & Ht & ->).
    pose proof u_le. pose proof eta_le. apply abs_bounds_R in He. apply abs_bounds_R in Ht. apply abs_bounds_R in Hq.
    assert (1 <= BIG / 256).
    { unfold BIG. apply Rmult_le_reg_r with 256; [lra|]. unfold Rdiv. rewrite Rmult_assoc, Rinv_l by lra. rewrite Rmult_1_r, Rmult_1_l.
      apply Rle_trans with (bpow radix2 8); [cbn; lra|apply bpow_le; lia]. }
    apply Rabs_le. split; nra. }
  assert (Hm : Rabs (FR (a / b)%float * FR 100%float) <= BIG) by (rewrite R100, Rabs_mult, (Rabs_pos_eq 100) by lra; lra).
  destruct (fmul_exact _ _ F1 F100 Hm) as [G1 M1].
  destruct (fmul_exact _ _ F2 F100) as [G2 M2]; [rewrite E; exact Hm|].
  split; [exact G1|]. split; [exact G2|]. rewrite M2, M1, E. reflexivity.
Qed.

(* FastStochastic's %K = ((x - lo) / (hi - lo)) * 100 on the window extremes: scaling the three prices by 2^k leaves the value unchanged
   exactly, whenever the two differences are zero or normal before and after the scaling (and the range does not round to 0) *)
Theorem fast_formula_pow2_invariant k x lo hi x' lo' hi' : scaled k x x' -> scaled k lo lo' -> scaled k hi hi' ->
  Rabs (FR x - FR lo) <= BIG -> Rabs ((FR x - FR lo) * bpow radix2 k) <= BIG -> zero_or_normal k (FR x - FR lo) ->
  Rabs (FR hi - FR lo) <= BIG -> Rabs ((FR hi - FR lo) * bpow radix2 k) <= BIG -> zero_or_normal k (FR hi - FR lo) ->
  FR (hi - lo)%float <> 0 -> Rabs (FR (x - lo)%float / FR (hi - lo)%float) <= BIG / 256 ->
  FR (((x' - lo') / (hi' - lo')) * 100)%float = FR (((x - lo) / (hi - lo)) * 100)%float.
Proof.
  intros Sx Sl Sh A1 A2 A3 B1 B2 B3 Nz Hq.
  pose proof (fsub_scale k x lo x' lo' Sx Sl A1 A2 A3) as S1.
  pose proof (fsub_scale k hi lo hi' lo' Sh Sl B1 B2 B3) as S2.
  destruct (ratio100_invariant k _ _ _ _ S1 S2 Nz Hq) as (_ & _ & E). exact E.
Qed.

(* division by an unscaled (dimensionless) finite float, e.g. the count of a window *)
Theorem fdiv_scale_by k a a' (c : float) : scaled k a a' -> finF c -> FR c <> 0 ->
  Rabs (FR a / FR c) <= BIG -> Rabs ((FR a / FR c) * bpow radix2 k) <= BIG -> zero_or_normal k (FR a / FR c) ->
  scaled k (a / c)%float (a' / c)%float.
Proof.
  intros (Fa & Fa' & Ea) Fc Nc H1 H2 Hz.
  destruct (fdiv_exact a c Fa Nc H1) as [F1 E1].
  assert (Eq : FR a' / FR c = (FR a / FR c) * bpow radix2 k) by (rewrite Ea; unfold Rdiv; ring).
  destruct (fdiv_exact a' c Fa' Nc) as [F2 E2]; [rewrite Eq; exact H2|].
  split; [exact F1|]. split; [exact F2|]. rewrite E2, E1, Eq. apply RN_mult_bpow0. exact Hz.
Qed.

(* one update of SimpleMovingAverage, sum' = sum - old + x and output sum' / count: if the running sum, the evicted value and the input
   of a second instance are those of the first scaled by 2^k, then so are the new running sum and the output — provided the three
   intermediate results are zero or normal before and after the scaling and stay below 2^1000. By induction over the stream (the ring
   buffer only stores inputs) SMA(2^k x) = 2^k SMA(x) bit for bit on every stream that meets these side conditions at every step. *)
Theorem sma_update_pow2 k (sum old x sum' old' x' cnt : float) : scaled k sum sum' -> scaled k old old' -> scaled k x x' ->
  finF cnt -> FR cnt <> 0 ->
  let d := (sum - old)%float in let s1 := (sum - old + x)%float in
  Rabs (FR sum - FR old) <= BIG -> Rabs ((FR sum - FR old) * bpow radix2 k) <= BIG -> zero_or_normal k (FR sum - FR old) ->
  Rabs (FR d + FR x) <= BIG -> Rabs ((FR d + FR x) * bpow radix2 k) <= BIG -> zero_or_normal k (FR d + FR x) ->
  Rabs (FR s1 / FR cnt) <= BIG -> Rabs ((FR s1 / FR cnt) * bpow radix2 k) <= BIG -> zero_or_normal k (FR s1 / FR cnt) ->
  scaled k s1 (sum' - old' + x')%float /\ scaled k (s1 / cnt)%float ((sum' - old' + x') / cnt)%float.
Proof.
  intros Ss So Sx Fc Nc d s1 A1 A2 A3 B1 B2 B3 C1 C2 C3.
  pose proof (fsub_scale k sum old sum' old' Ss So A1 A2 A3) as Sd.
  pose proof (fadd_scale k d x (sum' - old')%float x' Sd Sx B1 B2 B3) as S1.
  split; [exact S1|]. exact (fdiv_scale_by k s1 _ cnt S1 Fc Nc C1 C2 C3).
Qed.
