(* RateOfChange over the exact carrier: 100*(x_t - x_{t-n})/x_{t-n}, using the first price until n earlier prices exist. *)
From Coq Require Import Reals Lra Lia.
From TA Require Import Base Model XR Proofs.Prims Proofs.WF Proofs.Ring Proofs.XBase Proofs.XSma Proofs.XWma Proofs.XMad.
Open Scope N_scope.

Local Notation O := XROps.

(* the reference price for the input following history h: the first price while |h| <= p, else the price p steps back;
   uniformly: the head of the last p prices (the input itself when there is no history) *)
Definition roc_ref (p : nat) (h : list R) (x : R) : R := hd x (lastn p h).
Definition roc_spec (p : nat) (h : list R) (x : R) : XR :=
  mul O (div O (Fin (x - roc_ref p h x)) (Fin (roc_ref p h x))) (Fin 100).

Definition roc_inv (s : @Roc XR) (h : list R) : Prop :=
  let p := N.to_nat (roc_period s) in
  wf_roc s /\
  rot (N.to_nat (roc_index s)) (roc_deque s) = map Fin (lastn p (padded 0%R p h)) /\
  roc_count s = N.of_nat (Nat.min (length h) (S p)) /\
  ((length h < p)%nat -> roc_index s = N.of_nat (length h)) /\
  (length h = p -> roc_index s = 0).

Lemma roc_inv_new p s : roc_new O p = Ok s -> roc_inv s [].
Proof.
  intros H. pose proof (roc_new_inv O p s H) as (A & B & W & Pe).
  rewrite roc_new_ok in H by assumption. injection H as <-.
  unfold roc_inv. cbn [roc_period roc_index roc_count roc_deque].
  split; [exact W|]. split; [rewrite rot_0, lastn_padded_nil; cbn [zero O]; rewrite map_repeat'; reflexivity|].
  repeat split; cbn; try reflexivity; lia.
Qed.

(* slot 0 holds the first price as long as at most p prices were fed *)
Lemma nth0_first (dq : list XR) (p : nat) (i : nat) (h : list R) :
  (1 <= p)%nat -> length dq = p -> h <> [] -> (length h <= p)%nat ->
  ((length h < p)%nat -> i = length h) -> (length h = p -> i = 0%nat) ->
  rot i dq = map Fin (lastn p (padded 0%R p h)) -> nth 0 dq (Fin 0%R) = Fin (hd 0%R h).
Proof.
  intros Hp Ldq Hne Hle Hi1 Hi2 Hrot.
  rewrite lastn_padded_warm in Hrot by lia. rewrite map_app in Hrot.
  destruct (Nat.eq_dec (length h) p) as [E|E].
  - rewrite (Hi2 E), rot_0 in Hrot. replace (p - length h)%nat with 0%nat in Hrot by lia. cbn [repeat map app] in Hrot.
    rewrite Hrot. destruct h; [congruence|reflexivity].
  - assert (Ei : i = length h) by (apply Hi1; lia).
    assert (F1 : firstn i dq = map Fin h).
    { apply (firstn_of_rot_warm dq i _ _ ltac:(lia) Hrot). rewrite map_length. lia. }
    assert (E0 : nth 0 dq (Fin 0%R) = nth 0 (firstn i dq) (Fin 0%R)).
    { symmetry. apply nth_firstn'. destruct h; [congruence|cbn in Ei; lia]. }
    rewrite E0, F1. destruct h; [congruence|reflexivity].
Qed.

Lemma roc_step s h x : roc_inv s h ->
  exists s', roc_next O s (Fin x) = Ok (s', roc_spec (N.to_nat (roc_period s)) h x) /\
             roc_inv s' (h ++ [x]) /\ roc_period s' = roc_period s.
Proof.
  intros (W & Hrot & Hcnt & Hi1 & Hi2). pose proof W as (H1 & H2 & H3 & H4 & H5).
  set (p := N.to_nat (roc_period s)) in *.
  assert (Hp : (1 <= p)%nat) by (unfold p; lia).
  destruct (ring_step (roc_deque s) (roc_period s) (roc_index s) (Fin x) (Fin 0) H1 H3 H2 H5) as (E1 & E2 & E3 & E4 & E5).
  unfold roc_next.
  (* the reference price read by the code *)
  assert (Eprev : (if roc_period s <? roc_count s
                   then p0 <- idx (roc_deque s) (roc_index s) ;; Ok (roc_count s, p0)
                   else c <- uadd (roc_count s) 1 ;;
                        if c =? 1 then Ok (c, Fin x) else p0 <- idx (roc_deque s) 0 ;; Ok (c, p0))
                  = Ok (N.of_nat (Nat.min (length h + 1) (S p)), Fin (roc_ref p h x))).
  { unfold roc_ref. destruct (N.ltb_spec (roc_period s) (roc_count s)) as [Hgt|Hle].
    - (* more than p prices so far: the oldest of the ring *)
      assert (Hl : (p < length h)%nat) by (rewrite Hcnt in Hgt; unfold p in *; lia).
      rewrite E1. cbn [bind]. rewrite Hrot. change (Fin 0) with (Fin 0%R). rewrite (hd_map Fin _ 0%R).
      rewrite hd_lastn_padded by exact Hp. destruct (Nat.ltb_spec (length h) p); [lia|].
      rewrite Hcnt. do 2 f_equal; [lia|].
      assert (Hne : lastn p h <> []) by (intros E; apply (f_equal (@length R)) in E; rewrite lastn_length in E; cbn in E; lia).
      destruct (lastn p h); [congruence|reflexivity].
    - assert (Hl : (length h <= p)%nat) by (rewrite Hcnt in Hle; unfold p in *; lia).
      rewrite uadd_ok by (unfold ALLOC_MAX, USIZE_MAX in *; lia). cbn [bind]. rewrite Hcnt.
      replace (N.of_nat (Nat.min (length h) (S p)) + 1) with (N.of_nat (Nat.min (length h + 1) (S p))) by lia.
      destruct h as [|a h0].
      + cbn [length Nat.add Nat.min]. cbn. reflexivity.
      + destruct (N.eqb_spec (N.of_nat (Nat.min (length (a :: h0) + 1) (S p))) 1) as [Z|Z]; [cbn [length] in Z; lia|].
        rewrite (idx_ok _ 0 (Fin 0%R)) by (cbn; lia). cbn [bind N.to_nat].
        rewrite (nth0_first (roc_deque s) p (N.to_nat (roc_index s)) (a :: h0) Hp H5 ltac:(discriminate) Hl).
        * rewrite lastn_all by exact Hl. reflexivity.
        * intros Hlt. rewrite (Hi1 Hlt). lia.
        * intros Heq. rewrite (Hi2 Heq). reflexivity.
        * exact Hrot. }
  rewrite Eprev. cbn [bind]. rewrite E2, E3. cbn [bind].
  eexists. split; [unfold roc_spec; xfin; reflexivity|]. split; [|reflexivity].
  unfold roc_inv. cbn [roc_period roc_index roc_count roc_deque]. fold p.
  pose proof (advance_lt _ _ H3) as Ha.
  split; [unfold wf_roc; cbn; repeat split; unfold p in *; lia|].
  split; [rewrite E5, Hrot, lastn_padded_snoc by exact Hp; rewrite map_app, tl_map; reflexivity|].
  rewrite app_length. cbn [length]. split; [reflexivity|]. split.
  - intros Hlt. rewrite (Hi1 ltac:(lia)). destruct (N.ltb_spec (N.of_nat (length h) + 1) (roc_period s)); unfold p in *; lia.
  - intros Heq. destruct (Nat.eq_dec (length h) p) as [E|E]; [lia|].
    rewrite (Hi1 ltac:(lia)). destruct (N.ltb_spec (N.of_nat (length h) + 1) (roc_period s)); unfold p in *; lia.
Qed.

Fixpoint roc_outs (s : @Roc XR) (xs : list XR) : list XR :=
  match xs with
  | [] => []
  | x :: xs => match roc_next O s x with Ok (s', o) => o :: roc_outs s' xs | _ => [] end
  end.

Fixpoint roc_spec_stream (p : nat) (h : list R) (xs : list R) : list XR :=
  match xs with [] => [] | x :: xs => roc_spec p h x :: roc_spec_stream p (h ++ [x]) xs end.

Lemma roc_outs_spec : forall xs s h, roc_inv s h ->
  roc_outs s (map Fin xs) = roc_spec_stream (N.to_nat (roc_period s)) h xs.
Proof.
  induction xs as [|x xs IH]; intros s h Hinv; cbn [roc_outs map roc_spec_stream]; [reflexivity|].
  destruct (roc_step s h x Hinv) as (s' & E & Hinv' & Hp). rewrite E. f_equal.
  rewrite (IH s' (h ++ [x]) Hinv'), Hp. reflexivity.
Qed.

Theorem roc_refines : forall p s xs, roc_new O p = Ok s ->
  roc_outs s (map Fin xs) = roc_spec_stream (N.to_nat p) [] xs.
Proof.
  intros p s xs H. pose proof (roc_new_inv O p s H) as (_ & _ & _ & Pe).
  rewrite (roc_outs_spec xs s [] (roc_inv_new p s H)), Pe. reflexivity.
Qed.

(* for a non-zero reference price the output is the documented percentage; 0 when the price equals its reference
   (in particular on a flat positive window) *)
Lemma roc_spec_value p h x : roc_ref p h x <> 0%R ->
  roc_spec p h x = Fin ((x - roc_ref p h x) / roc_ref p h x * 100)%R.
Proof. intros H. unfold roc_spec. rewrite xr_div_fin by exact H. xfin. reflexivity. Qed.

Lemma roc_spec_flat p h x : roc_ref p h x = x -> x <> 0%R -> roc_spec p h x = Fin 0.
Proof.
  intros E Hx. rewrite roc_spec_value by (rewrite E; exact Hx). rewrite E. f_equal.
  replace (x - x)%R with 0%R by lra. unfold Rdiv. lra.
Qed.
