(* C18 — State size depends on the parameters only, never on stream length.
   Statements only; proofs in Proofs/SizeProofs.v. [ser_len] is the bincode length in bytes. *)
From TA Require Import Base Model Generic Proofs.GenericProofs Proofs.RunProofs Proofs.SizeProofs.
Open Scope N_scope.

(* closed formula: a function of the kind and the (first) period, plus 8 bytes once a TrueRange inside
   has seen its first bar (Option tag None -> Some) *)
Theorem C18_ser_len_formula : forall (F : Type) (O : Ops F) (s : @St F), WF O s ->
  ser_len s = base_size (kind_of s) (p1 (params_of O s)) + 8 * tr_fed s.
Proof. exact (@ser_len_formula). Qed.

Theorem C18_ser_len_bound : forall (F : Type) (O : Ops F) (s : @St F), WF O s ->
  ser_len s <= 256 + 64 * (p1 (params_of O s) + p2 (params_of O s) + p3 (params_of O s)).
Proof. exact (@ser_len_bound). Qed.

(* WF (which fixes every buffer length to the period) is invariant along any run, and the parameters
   are stable (C11_params_stable), so the size is constant up to that one-time 8 bytes, whatever the
   number and shape of inputs *)
Theorem C18_WF_invariant : forall (F : Type) (O : Ops F) (ops : list (@op F)) (st : @store F),
  store_WF O st -> Forall (op_ok (F := F)) ops -> store_WF O (fst (run O st ops)).
Proof. intros F O ops st W H. exact (proj1 (run_no_panic O ops st W H)). Qed.
