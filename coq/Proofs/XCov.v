(* Unit covariance of the exact specifications (C14): the dimensionless indicators are unchanged when every price is
   multiplied by c > 0; MACD scales with c and is unchanged by a shift; PPO is unchanged by scaling. *)
From Coq Require Import Reals Lra Lia List.
From TA Require Import Base Model XR Proofs.Prims Proofs.WF Proofs.Ring Proofs.XBase Proofs.XSma Proofs.XWma Proofs.XMad Proofs.XSd Proofs.XCor
  Proofs.Wiring Proofs.XEma Proofs.XRoc Proofs.XEr Proofs.XMfi Proofs.XBands Proofs.XCci Proofs.Forget2.
Import ListNotations.
Open Scope R_scope.
Local Notation O := XROps.

Lemma rsgn_scale k a : 0 < k -> rsgn (k * a) = rsgn a.
Proof.
  intros Hk. unfold rsgn.
  destruct (Rlt_dec 0 a), (Rlt_dec 0 (k * a)); try reflexivity; try nra;
    destruct (Rlt_dec a 0), (Rlt_dec (k * a) 0); try reflexivity; nra.
Qed.

(* a ratio of two quantities of the same dimension does not depend on the unit, including its IEEE corner cases *)
Lemma xr_div_scale k a b : 0 < k -> xr_div (Fin (k * a)) (Fin (k * b)) = xr_div (Fin a) (Fin b).
Proof.
  intros Hk. unfold xr_div. destruct (Req_EM_T b 0) as [->|Hb].
  - rewrite Rmult_0_r. destruct (Req_EM_T 0 0); [|contradiction]. now rewrite rsgn_scale.
  - destruct (Req_EM_T (k * b) 0) as [Z|_]; [exfalso; nra|]. f_equal. field. split; lra.
Qed.

Lemma hd_map {A B} (f : A -> B) d l : hd (f d) (map f l) = f (hd d l).
Proof. destruct l; reflexivity. Qed.

(* ---- RateOfChange ---- *)
Theorem roc_scale : forall p h x c, 0 < c -> roc_spec p (map (Rmult c) h) (c * x) = roc_spec p h x.
Proof.
  intros p h x c Hc. unfold roc_spec, roc_ref. rewrite lastn_map, (hd_map (Rmult c)).
  set (r := hd x (lastn p h)). cbn [div mul XROps].
  replace (c * x - c * r) with (c * (x - r)) by lra. now rewrite xr_div_scale.
Qed.

(* ---- EfficiencyRatio ---- *)
Lemma plen_scale c l : plen (map (Rmult c) l) = Rabs c * plen l.
Proof.
  induction l as [|a l IH]; [cbn; lra|]. destruct l as [|b l]; [cbn; lra|].
  change (plen (map (Rmult c) (a :: b :: l))) with (Rabs (c * a - c * b) + plen (map (Rmult c) (b :: l))).
  rewrite IH. change (plen (a :: b :: l)) with (Rabs (a - b) + plen (b :: l)).
  replace (c * a - c * b) with (c * (a - b)) by lra. rewrite Rabs_mult. lra.
Qed.

Theorem er_scale : forall p h x c, 0 < c -> er_spec p (map (Rmult c) h) (c * x) = er_spec p h x.
Proof.
  intros p h x c Hc. unfold er_spec.
  assert (E : er_path p (map (Rmult c) h) (c * x) = map (Rmult c) (er_path p h x)).
  { unfold er_path. destruct h as [|a h]; cbn [map]; [now rewrite Rmult_0_r|].
    change (c * a :: map (Rmult c) h) with (map (Rmult c) (a :: h)).
    change [c * x] with (map (Rmult c) [x]). rewrite <- map_app, lastn_map. reflexivity. }
  rewrite E, plen_scale. replace 0 with (c * 0) at 1 by lra. rewrite (hd_map (Rmult c)).
  replace (c * hd 0 (er_path p h x) - c * x) with (c * (hd 0 (er_path p h x) - x)) by lra.
  rewrite Rabs_mult. cbn [div XROps]. apply xr_div_scale. apply Rabs_pos_lt. lra.
Qed.

(* ---- CCI ---- *)
Theorem cci_scale : forall p h tp c, 0 < c -> cci_spec p (map (Rmult c) h) (c * tp) = cci_spec p h tp.
Proof.
  intros p h tp c Hc. unfold cci_spec. change [c * tp] with (map (Rmult c) [tp]). rewrite <- map_app, lastn_map.
  set (w := lastn p (h ++ [tp])). unfold cci_val. rewrite madev_scale, mean_scale by lra.
  destruct (Req_EM_T (madev w) 0) as [Z|NZ].
  - rewrite Z, Rmult_0_r. destruct (Req_EM_T 0 0); [reflexivity|contradiction].
  - destruct (Req_EM_T (c * madev w) 0) as [Z|_]; [exfalso; nra|]. f_equal. field. split; lra.
Qed.

(* ---- MoneyFlowIndex: prices scaled, volume untouched ---- *)
Definition mscale (c : R) (b : mbar) : mbar := let '(h, l, cl, v) := b in (c * h, c * l, c * cl, v).
Lemma tpr_mscale c b : tpr (mscale c b) = c * tpr b.
Proof. destruct b as [[[h l] cl] v]. cbn. field. Qed.
Lemma rawr_mscale c b : rawr (mscale c b) = c * rawr b.
Proof. unfold rawr. rewrite tpr_mscale. destruct b as [[[h l] cl] v]. cbn. lra. Qed.
Lemma sflow_mscale c prev b : 0 < c -> sflow (c * prev) (mscale c b) = c * sflow prev b.
Proof.
  intros Hc. unfold sflow. rewrite tpr_mscale, rawr_mscale.
  destruct (Rlt_dec prev (tpr b)), (Rlt_dec (c * prev) (c * tpr b)); try nra;
    destruct (Rlt_dec (tpr b) prev), (Rlt_dec (c * tpr b) (c * prev)); try nra.
Qed.
Lemma flows_mscale c prev bs : 0 < c -> flows (c * prev) (map (mscale c) bs) = map (Rmult c) (flows prev bs).
Proof.
  intros Hc. revert prev; induction bs as [|b bs IH]; intros prev; [reflexivity|].
  cbn [map flows]. rewrite sflow_mscale by exact Hc. f_equal. rewrite tpr_mscale. apply IH.
Qed.
Lemma possum_scale c l : 0 < c -> possum (map (Rmult c) l) = c * possum l.
Proof.
  intros Hc. unfold possum. induction l as [|a l IH]; cbn; [lra|]. cbn in IH. rewrite IH.
  unfold Rmax. destruct (Rle_dec (c * a) 0), (Rle_dec a 0); nra.
Qed.
Lemma negsum_scale c l : 0 < c -> negsum (map (Rmult c) l) = c * negsum l.
Proof.
  intros Hc. unfold negsum. induction l as [|a l IH]; cbn; [lra|]. cbn in IH. rewrite IH.
  unfold Rmax. destruct (Rle_dec (- (c * a)) 0), (Rle_dec (- a) 0); nra.
Qed.

Theorem mfi_scale : forall p b0 bs c, 0 < c -> mfi_spec p (mscale c b0) (map (mscale c) bs) = mfi_spec p b0 bs.
Proof.
  intros p b0 bs c Hc. unfold mfi_spec. rewrite tpr_mscale, flows_mscale, lastn_map by exact Hc.
  set (w := lastn p _). rewrite possum_scale, negsum_scale by exact Hc. cbn [div mul XROps].
  replace (c * possum w + c * negsum w) with (c * (possum w + negsum w)) by lra. now rewrite xr_div_scale.
Qed.

(* ---- MACD: exact real form, scales with the unit, unchanged by a shift ---- *)
Lemma ema_stream_scale k c xs : ema_stream k (map (Rmult c) xs) = map (Rmult c) (ema_stream k xs).
Proof. destruct xs as [|x xs]; [reflexivity|]. cbn [map ema_stream]. f_equal. apply ema_real_scale. Qed.
Lemma ema_stream_shift k d xs : ema_stream k (map (Rplus d) xs) = map (Rplus d) (ema_stream k xs).
Proof. destruct xs as [|x xs]; [reflexivity|]. cbn [map ema_stream]. f_equal. apply ema_real_shift. Qed.

Definition macd_real (k1 k2 k3 : R) (xs : list R) : list (list R) :=
  let line := map2 Rminus (ema_stream k1 xs) (ema_stream k2 xs) in
  map2 (fun l sg => [l; sg; l - sg]) line (ema_stream k3 line).

Lemma map2_fin_sub a b : map2 (sub O) (map Fin a) (map Fin b) = map Fin (map2 Rminus a b).
Proof. revert b; induction a as [|x a IH]; intros [|y b]; cbn [map map2]; try reflexivity. rewrite IH. reflexivity. Qed.

Lemma map2_fin_out a b :
  map2 (fun l sg => [l; sg; sub O l sg]) (map Fin a) (map Fin b) = map (map Fin) (map2 (fun l sg => [l; sg; l - sg]) a b).
Proof. revert b; induction a as [|x a IH]; intros [|y b]; cbn [map map2]; try reflexivity. rewrite IH. reflexivity. Qed.

Theorem macd_exact : forall p1 p2 p3 s xs, macd_new O p1 p2 p3 = Ok s ->
  macd_outs O s (map Fin xs) = map (map Fin) (macd_real (kreal p1) (kreal p2) (kreal p3) xs).
Proof.
  intros p1 p2 p3 s xs H. unfold macd_new in H.
  destruct (ema_new O p1) as [f| |] eqn:E1; cbn in H; try discriminate.
  destruct (ema_new O p2) as [sl| |] eqn:E2; cbn in H; try discriminate.
  destruct (ema_new O p3) as [g| |] eqn:E3; cbn in H; try discriminate. injection H as <-.
  rewrite macd_wiring. unfold macd_hand, macd_real.
  rewrite (ema_outs_xr p1 f xs E1), (ema_outs_xr p2 sl xs E2), map2_fin_sub, (ema_outs_xr p3 g _ E3).
  apply map2_fin_out.
Qed.

Lemma map2_map_l {A B C D} (f : B -> C -> D) (g : A -> B) a b : map2 f (map g a) b = map2 (fun x y => f (g x) y) a b.
Proof. revert b; induction a as [|x a IH]; intros [|y b]; cbn; try reflexivity. f_equal. apply IH. Qed.
Lemma map2_map_r {A B C D} (f : A -> C -> D) (g : B -> C) a b : map2 f a (map g b) = map2 (fun x y => f x (g y)) a b.
Proof. revert b; induction a as [|x a IH]; intros [|y b]; cbn; try reflexivity. f_equal. apply IH. Qed.
Lemma map_map2 {A B C D} (f : A -> B -> C) (g : C -> D) a b : map g (map2 f a b) = map2 (fun x y => g (f x y)) a b.
Proof. revert b; induction a as [|x a IH]; intros [|y b]; cbn; try reflexivity. f_equal. apply IH. Qed.
Lemma map2_ext {A B C} (f g : A -> B -> C) a b : (forall x y, f x y = g x y) -> map2 f a b = map2 g a b.
Proof. intros E. revert b; induction a as [|x a IH]; intros [|y b]; cbn; try reflexivity. rewrite E, IH. reflexivity. Qed.

Theorem macd_scale : forall k1 k2 k3 c xs,
  macd_real k1 k2 k3 (map (Rmult c) xs) = map (map (Rmult c)) (macd_real k1 k2 k3 xs).
Proof.
  intros k1 k2 k3 c xs. unfold macd_real. rewrite !ema_stream_scale.
  assert (E : map2 Rminus (map (Rmult c) (ema_stream k1 xs)) (map (Rmult c) (ema_stream k2 xs)) =
              map (Rmult c) (map2 Rminus (ema_stream k1 xs) (ema_stream k2 xs))).
  { rewrite map2_map_l, map2_map_r, map_map2. apply map2_ext. intros; lra. }
  rewrite E, ema_stream_scale. rewrite map2_map_l, map2_map_r, map_map2. apply map2_ext.
  intros x y. cbn [map]. replace (c * x - c * y) with (c * (x - y)) by lra. reflexivity.
Qed.

Theorem macd_shift : forall k1 k2 k3 d xs, macd_real k1 k2 k3 (map (Rplus d) xs) = macd_real k1 k2 k3 xs.
Proof.
  intros k1 k2 k3 d xs. unfold macd_real. rewrite !ema_stream_shift.
  assert (E : map2 Rminus (map (Rplus d) (ema_stream k1 xs)) (map (Rplus d) (ema_stream k2 xs)) =
              map2 Rminus (ema_stream k1 xs) (ema_stream k2 xs)).
  { rewrite map2_map_l, map2_map_r. apply map2_ext. intros; lra. }
  rewrite E. reflexivity.
Qed.

(* ---- PPO: unchanged when every price is multiplied by c > 0 (also where the slow average is 0) ---- *)
Theorem ppo_scale : forall p1 p2 p3 s c xs, ppo_new O p1 p2 p3 = Ok s -> 0 < c ->
  ppo_outs O s (map Fin (map (Rmult c) xs)) = ppo_outs O s (map Fin xs).
Proof.
  intros p1 p2 p3 s c xs H Hc. unfold ppo_new in H.
  destruct (ema_new O p1) as [f| |] eqn:E1; cbn in H; try discriminate.
  destruct (ema_new O p2) as [sl| |] eqn:E2; cbn in H; try discriminate.
  destruct (ema_new O p3) as [g| |] eqn:E3; cbn in H; try discriminate. injection H as <-.
  rewrite !ppo_wiring. unfold ppo_hand.
  rewrite !(ema_outs_xr p1 f _ E1), !(ema_outs_xr p2 sl _ E2), !ema_stream_scale.
  assert (E : forall a b, map2 (fun a b => mul O (div O (sub O a b) b) (c100 O)) (map Fin (map (Rmult c) a)) (map Fin (map (Rmult c) b)) =
              map2 (fun a b => mul O (div O (sub O a b) b) (c100 O)) (map Fin a) (map Fin b)).
  { induction a as [|x a IH]; intros [|y b]; cbn [map map2]; try reflexivity. rewrite IH. f_equal.
    cbn [sub div mul XROps xr_sub xr_add xr_neg]. replace (c * x + - (c * y)) with (c * (x + - y)) by lra.
    now rewrite xr_div_scale. }
  rewrite E. reflexivity.
Qed.

(* ---- shift invariance of the dispersion statistics ---- *)
Lemma madev_shift d l : l <> [] -> madev (map (Rplus d) l) = madev l.
Proof.
  intros Hl. unfold madev. rewrite mean_shift by exact Hl. rewrite map_length, map_map. f_equal. f_equal.
  apply map_ext. intros x. f_equal. lra.
Qed.
Lemma pvar_shift d l : l <> [] -> pvar (map (Rplus d) l) = pvar l.
Proof.
  intros Hl. unfold pvar, dev2. rewrite mean_shift by exact Hl. rewrite map_length, map_map. f_equal. f_equal.
  apply map_ext. intros x. lra.
Qed.
Lemma wsum_from_shift d i l :
  wsum_from i (map (Rplus d) l) = d * Rsum (map INR (seq i (length l))) + wsum_from i l.
Proof.
  revert i; induction l as [|x l IH]; intros i; cbn [map wsum_from length seq Rsum]; [lra|]. rewrite IH. lra.
Qed.
Lemma wmean_shift d l : l <> [] -> wmean (map (Rplus d) l) = d + wmean l.
Proof.
  intros Hl. unfold wmean, wsum. rewrite wsum_from_shift, map_length, sum_seq_INR.
  assert (Hk : 0 < INR (length l)) by (apply lt_0_INR; destruct l; [congruence|cbn; lia]).
  field. nra.
Qed.

(* a windowed statistic whose refinement has the standard shape inherits the action of a shift on windows *)
Lemma shift_generic {S : Type} (outs : S -> list XR -> list XR) (st : list R -> R) (g : R -> R) (s : S) (p : nat) d :
  (1 <= p)%nat ->
  (forall xs, outs s (map Fin xs) = map (fun hh => Fin (st (lastn p hh))) (prefixes_from [] xs)) ->
  (forall w, w <> [] -> st (map (Rplus d) w) = g (st w)) ->
  forall xs, outs s (map Fin (map (Rplus d) xs)) =
             map (fun o => match o with Fin r => Fin (g r) | o => o end) (outs s (map Fin xs)).
Proof.
  intros Hp Hspec Hst xs. rewrite !Hspec. change [] with (map (Rplus d) (@nil R)) at 1.
  generalize (@nil R) as h. induction xs as [|x xs IH]; intros h; [reflexivity|]. cbn [map prefixes_from].
  replace (map (Rplus d) h ++ [(d + x)%R]) with (map (Rplus d) (h ++ [x])) by (rewrite map_app; reflexivity).
  rewrite IH. f_equal. rewrite lastn_map, Hst; [reflexivity|].
  intros E. apply (f_equal (@length R)) in E. rewrite lastn_length, app_length in E. cbn in E. lia.
Qed.

Theorem wma_shift : forall p s d xs, wma_new O p = Ok s ->
  XWma.wma_outs s (map Fin (map (Rplus d) xs)) = map (fun o => add O (Fin d) o) (XWma.wma_outs s (map Fin xs)).
Proof.
  intros p s d xs H. pose proof (wma_new_inv O p s H) as (Hp & _).
  rewrite (shift_generic XWma.wma_outs wmean (Rplus d) s (N.to_nat p) d ltac:(lia) (fun xs => XWma.wma_refines p s xs H) (wmean_shift d)).
  rewrite (XWma.wma_refines p s xs H), !map_map. reflexivity.
Qed.
Theorem mad_shift : forall p s d xs, mad_new O p = Ok s ->
  XMad.mad_outs s (map Fin (map (Rplus d) xs)) = XMad.mad_outs s (map Fin xs).
Proof.
  intros p s d xs H. pose proof (mad_new_inv O p s H) as (Hp & _).
  rewrite (shift_generic XMad.mad_outs madev (fun r => r) s (N.to_nat p) d ltac:(lia) (fun xs => mad_refines p s xs H) (madev_shift d)).
  rewrite (mad_refines p s xs H), !map_map. reflexivity.
Qed.
Theorem sd_shift : forall p s d xs, sd_new O p = Ok s ->
  XSd.sd_outs s (map Fin (map (Rplus d) xs)) = XSd.sd_outs s (map Fin xs).
Proof.
  intros p s d xs H. pose proof (sd_new_inv O p s H) as (Hp & _).
  rewrite (shift_generic XSd.sd_outs (fun w => R_sqrt.sqrt (pvar w)) (fun r => r) s (N.to_nat p) d ltac:(lia)
             (fun xs => XSd.sd_refines p s xs H) (fun w Hw => f_equal R_sqrt.sqrt (pvar_shift d w Hw))).
  rewrite (XSd.sd_refines p s xs H), !map_map. reflexivity.
Qed.

(* ---- Minimum / Maximum commute with every strictly increasing map of the prices (scaling by c > 0, shifting, ...);
        FastStochastic is unchanged by every increasing affine map ---- *)
From TA Require Import Proofs.MinMaxProofs Proofs.Osc Proofs.XFast.

Definition xmap (f : R -> R) (a : XR) : XR := match a with Fin r => Fin (f r) | o => o end.
Definition increasing (f : R -> R) : Prop := forall a b, a < b -> f a < f b.
Lemma increasing_le f a b : increasing f -> a <= b -> f a <= f b.
Proof. intros Hf [H| ->]; [left; apply Hf; exact H|right; reflexivity]. Qed.

Lemma window_fin p k (xs : list R) :
  lastn p (firstn (S k) (map Fin xs)) = map Fin (lastn p (firstn (S k) xs)).
Proof. rewrite firstn_map, lastn_map'. reflexivity. Qed.

Lemma window_ne p k (xs : list R) : (1 <= p)%nat -> (k < length xs)%nat -> lastn p (firstn (S k) xs) <> [].
Proof.
  intros Hp Hk E. apply (f_equal (@length R)) in E. rewrite lastn_length, firstn_length in E. cbn [length] in E. lia.
Qed.

Theorem min_mono : forall p s f xs, min_new O p = Ok s -> increasing f ->
  min_outs O s (map Fin (map f xs)) = map (xmap f) (min_outs O s (map Fin xs)).
Proof.
  intros p s f xs H Hf. pose proof (min_new_inv O p s H) as (Hp0 & Hpa & _).
  rewrite min_new_ok in H by assumption. injection H as <-.
  assert (Hp : (0 < p)%N) by lia.
  destruct (min_least O finP order_min p 0 0 (map Fin xs) Hp Hpa Hp Hp (Forall_finP xs)) as [L1 C1].
  destruct (min_least O finP order_min p 0 0 (map Fin (map f xs)) Hp Hpa Hp Hp (Forall_finP _)) as [L2 C2].
  rewrite !map_length in *.
  apply (nth_ext _ _ (inf O) (xmap f (inf O))); [rewrite map_length; etransitivity; [exact L2|symmetry; exact L1]|].
  intros k Hk. cbv zeta in L1, L2. change (inf O) with PInf in *. assert (Hk' : (k < length xs)%nat) by lia. clear Hk. rename Hk' into Hk. rewrite (map_nth (xmap f)).
  specialize (C1 k Hk). specialize (C2 k Hk). rewrite window_fin in C1, C2.
  rewrite firstn_map, lastn_map' in C2.
  set (w := lastn (N.to_nat p) (firstn (S k) xs)) in *.
  destruct C1 as [I1 Le1]. apply in_map_iff in I1 as (m & Em & Hm).
  destruct C2 as [I2 Le2]. apply in_map_iff in I2 as (m' & Em' & Hm').
  apply in_map_iff in Hm' as (y0 & Ey0 & Hy0).
  rewrite <- Em', <- Em. cbn [xmap]. f_equal. rewrite <- Em' in Le2. rewrite <- Em in Le1.
  apply Rle_antisym.
  - specialize (Le2 (Fin (f m)) (in_map Fin _ _ (in_map f _ _ Hm))). apply xr_ltb_fin_false in Le2. exact Le2.
  - subst m'. apply increasing_le; [exact Hf|].
    specialize (Le1 (Fin y0) (in_map Fin _ _ Hy0)). apply xr_ltb_fin_false in Le1. exact Le1.
Qed.

Theorem max_mono : forall p s f xs, max_new O p = Ok s -> increasing f ->
  max_outs O s (map Fin (map f xs)) = map (xmap f) (max_outs O s (map Fin xs)).
Proof.
  intros p s f xs H Hf. pose proof (max_new_inv O p s H) as (Hp0 & Hpa & _).
  rewrite max_new_ok in H by assumption. injection H as <-.
  assert (Hp : (0 < p)%N) by lia.
  destruct (max_greatest O finN p 0 0 (map Fin xs) order_max Hp Hpa Hp Hp (Forall_finN xs)) as [L1 C1].
  destruct (max_greatest O finN p 0 0 (map Fin (map f xs)) order_max Hp Hpa Hp Hp (Forall_finN _)) as [L2 C2].
  rewrite !map_length in *. change (ninf O) with NInf in *.
  apply (nth_ext _ _ NInf (xmap f NInf)); [rewrite map_length; etransitivity; [exact L2|symmetry; exact L1]|].
  intros k Hk. cbv zeta in L1, L2. assert (Hk' : (k < length xs)%nat) by lia. clear Hk. rename Hk' into Hk.
  rewrite (map_nth (xmap f)).
  specialize (C1 k Hk). specialize (C2 k Hk). rewrite window_fin in C1, C2.
  rewrite firstn_map, lastn_map' in C2.
  set (w := lastn (N.to_nat p) (firstn (S k) xs)) in *.
  destruct C1 as [I1 Le1]. apply in_map_iff in I1 as (m & Em & Hm).
  destruct C2 as [I2 Le2]. apply in_map_iff in I2 as (m' & Em' & Hm').
  apply in_map_iff in Hm' as (y0 & Ey0 & Hy0).
  rewrite <- Em', <- Em. cbn [xmap]. f_equal. rewrite <- Em' in Le2. rewrite <- Em in Le1.
  apply Rle_antisym.
  - subst m'. apply increasing_le; [exact Hf|].
    specialize (Le1 (Fin y0) (in_map Fin _ _ Hy0)). apply xr_ltb_fin_false in Le1. exact Le1.
  - specialize (Le2 (Fin (f m)) (in_map Fin _ _ (in_map f _ _ Hm))). apply xr_ltb_fin_false in Le2. exact Le2.
Qed.

Lemma stoch_affine c d x lo hi : 0 < c ->
  stoch O (Fin (c * x + d)) (xmap (fun y => c * y + d) lo) (xmap (fun y => c * y + d) hi) = stoch O (Fin x) lo hi.
Proof.
  intros Hc. destruct lo as [l| | |], hi as [h| | |]; try reflexivity. unfold stoch. cbn [xmap eqb XROps xr_eqb].
  destruct (Req_EM_T l h) as [->|Hn].
  - destruct (Req_EM_T (c * h + d) (c * h + d)); [reflexivity|contradiction].
  - destruct (Req_EM_T (c * l + d) (c * h + d)) as [Z|_]; [exfalso; apply Hn; nra|].
    cbn [sub div mul XROps xr_sub xr_add xr_neg].
    replace (c * x + d + - (c * l + d)) with (c * (x + - l)) by lra.
    replace (c * h + d + - (c * l + d)) with (c * (h + - l)) by lra. now rewrite xr_div_scale.
Qed.

Lemma map3_stoch_affine c d : 0 < c -> forall xs los his,
  map3 (stoch O) (map Fin (map (fun y => c * y + d) xs)) (map (xmap (fun y => c * y + d)) los) (map (xmap (fun y => c * y + d)) his) =
  map3 (stoch O) (map Fin xs) los his.
Proof.
  intros Hc. induction xs as [|x xs IH]; intros los his; [reflexivity|].
  destruct los as [|lo los]; [reflexivity|]. destruct his as [|hi his]; [reflexivity|].
  cbn [map map3]. rewrite stoch_affine by exact Hc. f_equal. apply IH.
Qed.

Theorem fast_affine : forall p s c d xs, fast_new O p = Ok s -> 0 < c ->
  fast_outs O s (map Fin (map (fun y => c * y + d) xs)) = fast_outs O s (map Fin xs).
Proof.
  intros p s c d xs H Hc. unfold fast_new in H.
  destruct (min_new O p) as [mn| |] eqn:Emn; cbn in H; try discriminate.
  destruct (max_new O p) as [mx| |] eqn:Emx; cbn in H; try discriminate. injection H as <-.
  assert (Hf : increasing (fun y => c * y + d)) by (intros a b Hab; nra).
  rewrite !fast_wiring.
  rewrite (min_outs_same mn (map Fin xs)), (max_outs_same mx (map Fin xs)).
  rewrite (min_outs_same mn (map Fin (map _ xs))), (max_outs_same mx (map Fin (map _ xs))).
  rewrite (min_mono p mn _ xs Emn Hf), (max_mono p mx _ xs Emx Hf).
  apply map3_stoch_affine. exact Hc.
Qed.

(* ---- TrueRange / ATR / KeltnerChannel on scalars: exact real forms and their covariance ---- *)
Fixpoint tr_real (prev : R) (xs : list R) : list R :=
  match xs with [] => [] | x :: xs => Rabs (x - prev) :: tr_real x xs end.
Definition tr_stream (xs : list R) : list R := match xs with [] => [] | x :: xs => 0 :: tr_real x xs end.

Lemma tr_outs_running : forall xs prev, tr_outs O (mkTr (Some (Fin prev))) (map Fin xs) = map Fin (tr_real prev xs).
Proof.
  induction xs as [|x xs IH]; intros prev; [reflexivity|]. cbn [map tr_outs tr_real]. unfold tr_next.
  cbn [tr_prev_close]. xfin. f_equal. apply IH.
Qed.
Theorem tr_exact : forall xs, tr_outs O tr_new (map Fin xs) = map Fin (tr_stream xs).
Proof.
  intros [|x xs]; [reflexivity|]. cbn [map tr_outs tr_stream]. unfold tr_next, tr_new. cbn [tr_prev_close]. xfin.
  f_equal. apply tr_outs_running.
Qed.
Theorem atr_exact : forall p a xs, atr_new O p = Ok a ->
  atr_outs O a (map Fin xs) = map Fin (ema_stream (kreal p) (tr_stream xs)).
Proof.
  intros p a xs H. unfold atr_new in H. destruct (ema_new O p) as [e| |] eqn:Ee; cbn in H; try discriminate. injection H as <-.
  rewrite atr_wiring, tr_exact. apply (ema_outs_xr p e _ Ee).
Qed.

Lemma tr_real_scale c prev xs : tr_real (c * prev) (map (Rmult c) xs) = map (Rmult (Rabs c)) (tr_real prev xs).
Proof.
  revert prev; induction xs as [|x xs IH]; intros prev; [reflexivity|]. cbn [map tr_real]. rewrite IH. f_equal.
  replace (c * x - c * prev) with (c * (x - prev)) by lra. apply Rabs_mult.
Qed.
Theorem tr_scale : forall c xs, tr_stream (map (Rmult c) xs) = map (Rmult (Rabs c)) (tr_stream xs).
Proof. intros c [|x xs]; [reflexivity|]. cbn [map tr_stream]. rewrite tr_real_scale. f_equal. lra. Qed.
Lemma tr_real_shift d prev xs : tr_real (d + prev) (map (Rplus d) xs) = tr_real prev xs.
Proof.
  revert prev; induction xs as [|x xs IH]; intros prev; [reflexivity|]. cbn [map tr_real]. rewrite IH. f_equal. f_equal. lra.
Qed.
Theorem tr_shift : forall d xs, tr_stream (map (Rplus d) xs) = tr_stream xs.
Proof. intros d [|x xs]; [reflexivity|]. cbn [map tr_stream]. rewrite tr_real_shift. reflexivity. Qed.

Theorem atr_scale : forall k c xs, 0 <= c ->
  ema_stream k (tr_stream (map (Rmult c) xs)) = map (Rmult c) (ema_stream k (tr_stream xs)).
Proof. intros k c xs Hc. rewrite tr_scale, (Rabs_pos_eq c Hc). apply ema_stream_scale. Qed.
Theorem atr_shift : forall k d xs, ema_stream k (tr_stream (map (Rplus d) xs)) = ema_stream k (tr_stream xs).
Proof. intros k d xs. now rewrite tr_shift. Qed.

(* KeltnerChannel on scalars: [EMA; EMA + m*ATR; EMA - m*ATR] *)
Definition kc_real (k m : R) (xs : list R) : list (list R) :=
  map2 (fun av at_ => [av; av + at_ * m; av - at_ * m]) (ema_stream k xs) (ema_stream k (tr_stream xs)).

Lemma map2_bands m a b :
  map2 (bands O (Fin m)) (map Fin a) (map Fin b) = map (map Fin) (map2 (fun av at_ => [av; av + at_ * m; av - at_ * m]) a b).
Proof. revert b; induction a as [|x a IH]; intros [|y b]; cbn [map map2]; try reflexivity. rewrite IH. reflexivity. Qed.

Theorem kc_exact : forall p m s xs, kc_new O p (Fin m) = Ok s ->
  kc_outs O s (map Fin xs) = map (map Fin) (kc_real (kreal p) m xs).
Proof.
  intros p m s xs H. unfold kc_new in H.
  destruct (atr_new O p) as [a| |] eqn:Ea; cbn in H; try discriminate.
  destruct (ema_new O p) as [e| |] eqn:Ee; cbn in H; try discriminate. injection H as <-.
  rewrite kc_wiring, (ema_outs_xr p e xs Ee), (atr_exact p a xs Ea). apply map2_bands.
Qed.

Theorem kc_scale : forall k m c xs, 0 <= c -> kc_real k m (map (Rmult c) xs) = map (map (Rmult c)) (kc_real k m xs).
Proof.
  intros k m c xs Hc. unfold kc_real. rewrite ema_stream_scale, atr_scale by exact Hc.
  rewrite map2_map_l, map2_map_r, map_map2. apply map2_ext. intros x y. cbn [map].
  replace (c * (x + y * m)) with (c * x + c * y * m) by ring. replace (c * (x - y * m)) with (c * x - c * y * m) by ring. reflexivity.
Qed.
Theorem kc_shift : forall k m d xs,
  kc_real k m (map (Rplus d) xs) = map (map (Rplus d)) (kc_real k m xs).
Proof.
  intros k m d xs. unfold kc_real. rewrite ema_stream_shift, atr_shift.
  rewrite map2_map_l, map_map2. apply map2_ext. intros x y. cbn [map].
  replace (d + (x + y * m)) with (d + x + y * m) by ring. replace (d + (x - y * m)) with (d + x - y * m) by ring. reflexivity.
Qed.

(* ---- BollingerBands: all three levels scale with c >= 0 and shift with d ---- *)
Theorem bb_scale : forall p mu hh c, 0 <= c ->
  XSd.bb_spec p mu (map (Rmult c) hh) = map (fun o => mul O (Fin c) o) (XSd.bb_spec p mu hh).
Proof.
  intros p mu hh c Hc. unfold XSd.bb_spec. rewrite lastn_map, mean_scale, pvar_scale.
  rewrite sqrt_mult_alt by nra. rewrite sqrt_square by exact Hc. cbn [map]. xfin. set (a := mean _). set (b := R_sqrt.sqrt _).
  replace (c * (a + b * mu)) with (c * a + c * b * mu) by ring. replace (c * (a - b * mu)) with (c * a - c * b * mu) by ring. reflexivity.
Qed.
Theorem bb_shift : forall p mu hh d, lastn p hh <> [] ->
  XSd.bb_spec p mu (map (Rplus d) hh) = map (fun o => add O (Fin d) o) (XSd.bb_spec p mu hh).
Proof.
  intros p mu hh d Hn. unfold XSd.bb_spec. rewrite lastn_map, mean_shift, pvar_shift by exact Hn.
  cbn [map]. xfin. set (a := mean _). set (b := R_sqrt.sqrt _).
  replace (d + (a + b * mu)) with (d + a + b * mu) by ring. replace (d + (a - b * mu)) with (d + a - b * mu) by ring. reflexivity.
Qed.

(* ---- SlowStochastic = EMA(FastStochastic): unchanged by x -> c*x + d, c > 0 ---- *)
Theorem slow_affine : forall p q s c d xs, slow_new O p q = Ok s -> 0 < c ->
  slow_outs O s (map Fin (map (fun y => c * y + d) xs)) = slow_outs O s (map Fin xs).
Proof.
  intros p q s c d xs H Hc. unfold slow_new in H.
  destruct (fast_new O p) as [f| |] eqn:Ef; cbn in H; try discriminate.
  destruct (ema_new O q) as [e| |] eqn:Ee; cbn in H; try discriminate. injection H as <-.
  rewrite !slow_wiring. rewrite (fast_affine p f c d xs Ef Hc). reflexivity.
Qed.

(* ---- OBV: only the order of consecutive closes and the volumes matter: unchanged when closes are scaled by c > 0 ---- *)
Theorem obv_scale : forall c (bars : list (R * R)) acc prev, 0 < c ->
  obv_rec O acc (Fin (c * prev)) (map (fun b : R * R => mkBar (Fin 0) (Fin 0) (Fin 0) (Fin (c * fst b)) (Fin (snd b))) bars) =
  obv_rec O acc (Fin prev) (map (fun b : R * R => mkBar (Fin 0) (Fin 0) (Fin 0) (Fin (fst b)) (Fin (snd b))) bars).
Proof.
  intros c bars acc prev Hc. revert acc prev; induction bars as [|[cl v] bars IH]; intros acc prev; [reflexivity|].
  cbn [map obv_rec b_close b_volume fst snd].
  assert (E1 : ltb O (Fin (c * prev)) (Fin (c * cl)) = ltb O (Fin prev) (Fin cl)).
  { cbn [ltb O]. unfold xr_ltb. destruct (Rlt_dec (c * prev) (c * cl)), (Rlt_dec prev cl); try reflexivity; exfalso; nra. }
  assert (E2 : ltb O (Fin (c * cl)) (Fin (c * prev)) = ltb O (Fin cl) (Fin prev)).
  { cbn [ltb O]. unfold xr_ltb. destruct (Rlt_dec (c * cl) (c * prev)), (Rlt_dec cl prev); try reflexivity; exfalso; nra. }
  rewrite E1, E2. f_equal. apply IH.
Qed.
Corollary obv_scale_new : forall c (bars : list (R * R)), 0 < c ->
  obv_outs O (obv_new O) (map (fun b : R * R => mkBar (Fin 0) (Fin 0) (Fin 0) (Fin (c * fst b)) (Fin (snd b))) bars) =
  obv_outs O (obv_new O) (map (fun b : R * R => mkBar (Fin 0) (Fin 0) (Fin 0) (Fin (fst b)) (Fin (snd b))) bars).
Proof.
  intros c bars Hc. rewrite !obv_from_new. change (zero O) with (Fin 0). rewrite <- (obv_scale c bars (Fin 0) 0 Hc).
  rewrite Rmult_0_r. reflexivity.
Qed.
