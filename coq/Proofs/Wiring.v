(* Composite indicators equal the hand wiring of their public building blocks, as streams computed
   from scratch by the standalone definitions — for every number type (hence bit-exactly for binary64). *)
From TA Require Import Base Model.

Section Wiring.
Context {F : Type} (O : Ops F).

(* ---- output streams of the standalone indicators ---- *)
Fixpoint ema_outs (s : @Ema F) (xs : list F) : list F :=
  match xs with [] => [] | x :: xs => let '(s', o) := ema_next O s x in o :: ema_outs s' xs end.
Fixpoint tr_outs (s : @Tr F) (xs : list F) : list F :=
  match xs with [] => [] | x :: xs => let '(s', o) := tr_next O s x in o :: tr_outs s' xs end.
Fixpoint tr_bar_outs (s : @Tr F) (bs : list (Bar F)) : list F :=
  match bs with [] => [] | b :: bs => let '(s', o) := tr_next_bar O s b in o :: tr_bar_outs s' bs end.
Fixpoint atr_outs (s : @Atr F) (xs : list F) : list F :=
  match xs with [] => [] | x :: xs => let '(s', o) := atr_next O s x in o :: atr_outs s' xs end.
Fixpoint atr_bar_outs (s : @Atr F) (bs : list (Bar F)) : list F :=
  match bs with [] => [] | b :: bs => let '(s', o) := atr_next_bar O s b in o :: atr_bar_outs s' bs end.
Fixpoint macd_outs (s : @Macd F) (xs : list F) : list (list F) :=
  match xs with [] => [] | x :: xs => let '(s', o) := macd_next O s x in o :: macd_outs s' xs end.
Fixpoint ppo_outs (s : @Ppo F) (xs : list F) : list (list F) :=
  match xs with [] => [] | x :: xs => let '(s', o) := ppo_next O s x in o :: ppo_outs s' xs end.
Fixpoint kc_outs (s : @Kc F) (xs : list F) : list (list F) :=
  match xs with [] => [] | x :: xs => let '(s', o) := kc_next O s x in o :: kc_outs s' xs end.
Fixpoint kc_bar_outs (s : @Kc F) (bs : list (Bar F)) : list (list F) :=
  match bs with [] => [] | b :: bs => let '(s', o) := kc_next_bar O s b in o :: kc_bar_outs s' bs end.

Section Res.
Context {S A Out : Type} (nx : S -> A -> res (S * Out)).
Fixpoint res_outs (s : S) (xs : list A) : list Out :=
  match xs with [] => [] | x :: xs => match nx s x with Ok (s', o) => o :: res_outs s' xs | _ => [] end end.
End Res.

Definition fast_outs := res_outs (fast_next O).
Definition fast_bar_outs := res_outs (fast_next_bar O).
Definition slow_outs := res_outs (slow_next O).
Definition slow_bar_outs := res_outs (slow_next_bar O).
Definition min_outs' := res_outs (min_next O).
Definition max_outs' := res_outs (max_next O).
Definition sd_outs := res_outs (sd_next O).
Definition sma_outs' := res_outs (sma_next O).
Definition mad_outs := res_outs (mad_next O).
Definition bb_outs := res_outs (bb_next O).
Definition ce_outs := res_outs (ce_next_bar O).
Definition cci_outs := res_outs (cci_next_bar O).

Fixpoint map2 {A B C} (f : A -> B -> C) (a : list A) (b : list B) : list C :=
  match a, b with x :: a, y :: b => f x y :: map2 f a b | _, _ => [] end.
Fixpoint map3 {A B C D} (f : A -> B -> C -> D) (a : list A) (b : list B) (c : list C) : list D :=
  match a, b, c with x :: a, y :: b, z :: c => f x y z :: map3 f a b c | _, _, _ => [] end.

(* ---- ATR = EMA fed with TrueRange ---- *)
Lemma atr_wiring : forall xs tr e, atr_outs (mkAtr tr e) xs = ema_outs e (tr_outs tr xs).
Proof.
  induction xs as [|x xs IH]; intros tr e; cbn [atr_outs tr_outs ema_outs]; [reflexivity|].
  unfold atr_next. cbn [atr_true_range atr_ema].
  destruct (tr_next O tr x) as [tr' d]. cbn [ema_outs]. destruct (ema_next O e d) as [e' o]. f_equal. apply IH.
Qed.
Lemma atr_bar_wiring : forall bs tr e, atr_bar_outs (mkAtr tr e) bs = ema_outs e (tr_bar_outs tr bs).
Proof.
  induction bs as [|b bs IH]; intros tr e; cbn [atr_bar_outs tr_bar_outs ema_outs]; [reflexivity|].
  unfold atr_next_bar. cbn [atr_true_range atr_ema].
  destruct (tr_next_bar O tr b) as [tr' d]. cbn [ema_outs]. destruct (ema_next O e d) as [e' o]. f_equal. apply IH.
Qed.

(* ---- SlowStochastic = EMA fed with FastStochastic ---- *)
Lemma slow_wiring : forall xs f e, slow_outs (mkSlow f e) xs = ema_outs e (fast_outs f xs).
Proof.
  induction xs as [|x xs IH]; intros f e; cbn; [reflexivity|].
  unfold slow_next. cbn [slow_fast slow_ema].
  destruct (fast_next O f x) as [[f' v]| |]; cbn [bind ema_outs]; try reflexivity.
  destruct (ema_next O e v) as [e' o]. f_equal. apply IH.
Qed.
Lemma slow_bar_wiring : forall bs f e, slow_bar_outs (mkSlow f e) bs = ema_outs e (fast_bar_outs f bs).
Proof.
  induction bs as [|b bs IH]; intros f e; cbn; [reflexivity|].
  unfold slow_next_bar. cbn [slow_fast slow_ema].
  destruct (fast_next_bar O f b) as [[f' v]| |]; cbn [bind ema_outs]; try reflexivity.
  destruct (ema_next O e v) as [e' o]. f_equal. apply IH.
Qed.

(* ---- MACD / PPO from three standalone EMAs ---- *)
Definition macd_hand (f s g : @Ema F) (xs : list F) : list (list F) :=
  let line := map2 (sub O) (ema_outs f xs) (ema_outs s xs) in
  let signal := ema_outs g line in
  map2 (fun l sg => [l; sg; sub O l sg]) line signal.

Lemma macd_wiring : forall xs f s g, macd_outs (mkMacd f s g) xs = macd_hand f s g xs.
Proof.
  unfold macd_hand. induction xs as [|x xs IH]; intros f s g; cbn [macd_outs ema_outs map2]; [reflexivity|].
  unfold macd_next. cbn [macd_fast macd_slow macd_signal].
  destruct (ema_next O f x) as [f' fv]. destruct (ema_next O s x) as [s' sv]. cbn [map2 ema_outs].
  destruct (ema_next O g (sub O fv sv)) as [g' gv]. cbn [map2]. f_equal. apply IH.
Qed.

Definition ppo_hand (f s g : @Ema F) (xs : list F) : list (list F) :=
  let line := map2 (fun a b => mul O (div O (sub O a b) b) (c100 O)) (ema_outs f xs) (ema_outs s xs) in
  let signal := ema_outs g line in
  map2 (fun l sg => [l; sg; sub O l sg]) line signal.

Lemma ppo_wiring : forall xs f s g, ppo_outs (mkPpo f s g) xs = ppo_hand f s g xs.
Proof.
  unfold ppo_hand. induction xs as [|x xs IH]; intros f s g; cbn [ppo_outs ema_outs map2]; [reflexivity|].
  unfold ppo_next. cbn [ppo_fast ppo_slow ppo_signal].
  destruct (ema_next O f x) as [f' fv]. destruct (ema_next O s x) as [s' sv]. cbn [map2 ema_outs].
  destruct (ema_next O g _) as [g' gv]. cbn [map2]. f_equal. apply IH.
Qed.

(* ---- KeltnerChannel = EMA(price | typical price) +- multiplier * ATR ---- *)
Definition bands (m : F) (avg atr : F) : list F := [avg; add O avg (mul O atr m); sub O avg (mul O atr m)].
Definition typical (b : Bar F) : F := div O (add O (add O (b_close b) (b_high b)) (b_low b)) (three O).

Lemma kc_wiring : forall xs p m a e,
  kc_outs (mkKc p m a e) xs = map2 (bands m) (ema_outs e xs) (atr_outs a xs).
Proof.
  induction xs as [|x xs IH]; intros p m a e; cbn [kc_outs ema_outs atr_outs map2]; [reflexivity|].
  unfold kc_next. cbn [kc_atr kc_ema kc_multiplier kc_period].
  destruct (atr_next O a x) as [a' at_]. destruct (ema_next O e x) as [e' av]. cbn [map2]. f_equal. apply IH.
Qed.
Lemma kc_bar_wiring : forall bs p m a e,
  kc_bar_outs (mkKc p m a e) bs = map2 (bands m) (ema_outs e (map typical bs)) (atr_bar_outs a bs).
Proof.
  induction bs as [|b bs IH]; intros p m a e; cbn [kc_bar_outs ema_outs atr_bar_outs map2 map]; [reflexivity|].
  unfold kc_next_bar. cbn [kc_atr kc_ema kc_multiplier kc_period]. fold (typical b).
  destruct (ema_next O e (typical b)) as [e' av]. destruct (atr_next_bar O a b) as [a' at_]. cbn [map2]. f_equal. apply IH.
Qed.

(* ---- ChandelierExit = (Maximum(high) - m*ATR, Minimum(low) + m*ATR) ---- *)
Lemma ce_wiring : forall bs a mn mx m,
  ce_outs (mkCe a mn mx m) bs =
  map3 (fun at_ lo hi => [sub O hi (mul O at_ m); add O lo (mul O at_ m)])
       (atr_bar_outs a bs) (min_outs' mn (map b_low bs)) (max_outs' mx (map b_high bs)).
Proof.
  induction bs as [|b bs IH]; intros a mn mx m; [reflexivity|].
  unfold ce_outs, min_outs', max_outs' in *. cbn [res_outs map atr_bar_outs].
  unfold ce_next_bar. cbn [ce_atr ce_min ce_max ce_multiplier].
  destruct (atr_next_bar O a b) as [a' at_].
  destruct (min_next O mn (b_low b)) as [[mn' lo]| |]; cbn [bind map3]; try reflexivity.
  destruct (max_next O mx (b_high b)) as [[mx' hi]| |]; cbn [bind map3]; try reflexivity.
  f_equal. apply IH.
Qed.

(* ---- BollingerBands: half-width = multiplier * StandardDeviation of the same period; the middle band is
   the StandardDeviation's running mean (equal to the SMA in exact arithmetic: Proofs/XSd.v) ---- *)
Fixpoint sd_mean_outs (s : @Sd F) (xs : list F) : list (F * F) :=   (* (mean after the input, sd output) *)
  match xs with [] => [] | x :: xs => match sd_next O s x with
                                      | Ok (s', o) => (sd_mean s', o) :: sd_mean_outs s' xs | _ => [] end end.

Lemma bb_wiring : forall xs p m sd,
  bb_outs (mkBb p m sd) xs = map (fun '(mean, dev) => [mean; add O mean (mul O dev m); sub O mean (mul O dev m)]) (sd_mean_outs sd xs).
Proof.
  induction xs as [|x xs IH]; intros p m sd; cbn; [reflexivity|].
  unfold bb_next. cbn [bb_sd bb_multiplier bb_period].
  destruct (sd_next O sd x) as [[sd' o]| |]; cbn [bind map]; try reflexivity. f_equal. apply IH.
Qed.
Lemma sd_mean_outs_snd : forall xs sd, map snd (sd_mean_outs sd xs) = sd_outs sd xs.
Proof.
  induction xs as [|x xs IH]; intros sd; cbn; [reflexivity|].
  destruct (sd_next O sd x) as [[sd' o]| |]; cbn; try reflexivity. f_equal. apply IH.
Qed.

(* ---- CCI = (TP - SMA(TP)) / (0.015 * MAD(TP)), 0 when the deviation is 0 ---- *)
Lemma cci_wiring : forall bs sm md,
  cci_outs (mkCci sm md) bs =
  map3 (fun tp sma mad => if eqb O mad (zero O) then zero O else div O (sub O tp sma) (mul O mad (c0_015 O)))
       (map typical bs) (sma_outs' sm (map typical bs)) (mad_outs md (map typical bs)).
Proof.
  induction bs as [|b bs IH]; intros sm md; cbn; [reflexivity|].
  unfold cci_next_bar. cbn [cci_sma cci_mad]. fold (typical b).
  destruct (sma_next O sm (typical b)) as [[sm' sma]| |]; cbn [bind map3]; try reflexivity.
  destruct (mad_next O md (typical b)) as [[md' mad]| |]; cbn [bind map3]; try reflexivity.
  f_equal. apply IH.
Qed.

(* ---- the EMA recursion itself ---- *)
Fixpoint ema_rec (k : F) (prev : F) (xs : list F) : list F :=
  match xs with [] => [] | x :: xs => let e := add O (mul O k x) (mul O (sub O (one O) k) prev) in e :: ema_rec k e xs end.

Lemma ema_outs_rec : forall xs s, ema_is_new s = false -> ema_outs s xs = ema_rec (ema_k s) (ema_current s) xs.
Proof.
  induction xs as [|x xs IH]; intros s H; cbn [ema_outs ema_rec]; [reflexivity|].
  unfold ema_next. rewrite H. f_equal. rewrite IH by reflexivity. reflexivity.
Qed.

(* first input returned unchanged, thereafter k*x + (1-k)*previous with k = 2/(period+1) *)
Theorem ema_definition : forall p s x xs, ema_new O p = Ok s ->
  ema_outs s (x :: xs) = x :: ema_rec (div O (two O) (add O (ofN O p) (one O))) x xs.
Proof.
  intros p s x xs H. unfold ema_new in H. destruct (p =? 0)%N; [discriminate|]. injection H as <-.
  cbn [ema_outs]. unfold ema_next at 1. cbn [ema_is_new ema_period ema_k]. f_equal.
  rewrite ema_outs_rec by reflexivity. reflexivity.
Qed.

(* TrueRange: scalar |x - previous x| (0 first); bars max(high-low, |high-prev close|, |low-prev close|) (high-low first) *)
Theorem tr_definition : forall x xs b bs,
  tr_outs tr_new (x :: xs) = zero O :: tr_outs (mkTr (Some x)) xs /\
  (forall prev, tr_outs (mkTr (Some prev)) (x :: xs) = abs O (sub O x prev) :: tr_outs (mkTr (Some x)) xs) /\
  tr_bar_outs tr_new (b :: bs) = sub O (b_high b) (b_low b) :: tr_bar_outs (mkTr (Some (b_close b))) bs /\
  (forall prev, tr_bar_outs (mkTr (Some prev)) (b :: bs) =
     max3 O (sub O (b_high b) (b_low b)) (abs O (sub O (b_high b) prev)) (abs O (sub O (b_low b) prev))
       :: tr_bar_outs (mkTr (Some (b_close b))) bs).
Proof. intros. repeat split; reflexivity. Qed.

End Wiring.
