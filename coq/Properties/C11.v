(* C11 — Constructors reject exactly period 0; accessors, Display, Default are faithful.
   Statements only; proofs in Proofs/RunProofs.v and Proofs/SizeProofs.v. Periods are natural numbers
   of any size (usize is N with the checked-arithmetic semantics of debug builds). *)
From Coq Require Import String.
From TA Require Import Base Model Generic Proofs.GenericProofs Proofs.RunProofs Proofs.SizeProofs.
Open Scope N_scope.

(* Err(InvalidParameter) iff some period argument is 0, otherwise Ok — never a panic: for every
   period whatsoever for the indicators that allocate no window (EMA, TR, ATR, RSI, MACD, PPO, KC, OBV),
   and up to the Vec allocation limit isize::MAX/8 for the windowed ones. Multipliers are arbitrary. *)
Theorem C11_new_spec : forall (F : Type) (O : Ops F) (k : Kind) (p : @Params F),
  (allocates k = true -> Forall (fun x => x <= ALLOC_MAX) (periods k p)) ->
  if existsb (N.eqb 0) (periods k p) then new O k p = Err InvalidParameter
  else exists s, new O k p = Ok s.
Proof. exact (@new_spec). Qed.

(* a constructed indicator stores exactly its arguments ... *)
Theorem C11_new_params : forall (F : Type) (O : Ops F) k p (s : @St F),
  new O k p = Ok s -> params_of O s = norm_params O k p /\ kind_of s = k.
Proof. intros F O k p s H. split; [exact (new_params O k p s H)|]. exact (proj1 (proj2 (new_WF O k p s H))). Qed.

(* ... period(), multiplier() and the arguments rendered by Display are those stored arguments ... *)
Theorem C11_accessors : forall (F : Type) (O : Ops F) (s : @St F), WF O s ->
  display_args s = (periods (kind_of s) (params_of O s),
                    if has_multiplier (kind_of s) then Some (pm (params_of O s)) else None) /\
  period_of s = (if has_period (kind_of s) then Some (p1 (params_of O s)) else None) /\
  multiplier_of s = (if has_multiplier (kind_of s) then Some (pm (params_of O s)) else None).
Proof. exact (@accessors_spec). Qed.

(* ... and no next / next_bar / DataItem / reset / serde operation ever changes them *)
Theorem C11_params_stable : forall (F : Type) (O : Ops F) (st : @store F) (o : @op F) (i : nat) (v : @St F),
  store_WF O st -> sget st i = Some v -> writes o = Some i ->
  match o with ONew _ _ _ | ODef _ _ | OClone _ _ | ODrop _ => True
  | _ => match sget (fst (step O st o)) i with
         | Some v' => params_of O v' = params_of O v /\ kind_of v' = kind_of v
         | None => False end end.
Proof. exact (@params_stable_step). Qed.

(* Display names *)
Theorem C11_display_names :
  map display_name all_kinds =
  ["SMA"; "EMA"; "WMA"; "SD"; "MAD"; "MIN"; "MAX"; "BB"; "TRUE_RANGE"; "ATR"; "RSI"; "FAST_STOCH"; "SLOW_STOCH";
   "ROC"; "ER"; "MACD"; "PPO"; "KC"; "CE"; "CCI"; "MFI"; "OBV"]%string.
Proof. reflexivity. Qed.

(* Default::default() = new(documented constants): the constants are written here, not taken from the model *)
Theorem C11_defaults : forall (F : Type) (O : Ops F),
  map (fun k => let p := default_params O k in (p1 p, p2 p, p3 p)) all_kinds =
  [(9,0,0); (9,0,0); (9,0,0); (9,0,0); (9,0,0); (14,0,0); (14,0,0); (9,0,0); (0,0,0); (14,0,0); (14,0,0); (14,0,0);
   (14,3,0); (9,0,0); (14,0,0); (12,26,9); (12,26,9); (10,0,0); (22,0,0); (20,0,0); (14,0,0); (0,0,0)] /\
  pm (default_params O KBb) = two O /\ pm (default_params O KKc) = two O /\ pm (default_params O KCe) = three O /\
  forall k, exists s, new O k (default_params O k) = Ok s.
Proof.
  intros F O. repeat split. intros k. destruct k; cbv [default_params new rmap]; eexists;
  cbv -[repeat N.to_nat]; reflexivity.
Qed.
