(* EfficiencyRatio on binary64 stays in [0, 1 + (3n+5) 2^-53] whenever its volatility is not zero (finite inputs of bounded magnitude):
   additions and subtractions of floats have a purely relative rounding error (no underflow term), the float volatility is therefore at
   least (1-u)^(2n) times the real path length, which bounds |first - x| by the triangle inequality.  The formula of the output for
   every number type is Proofs/GEr.v. *)
From Coq Require Import Reals Lra Lia ZArith List Floats.
From Flocq Require Import Core BinarySingleNaN PrimFloat Plus_error Relative.
From TA Require Import Base Model FloatInst Proofs.Prims Proofs.WF Proofs.Ring Proofs.FloatErr Proofs.FloatSma Proofs.FloatEma Proofs.FloatSd Proofs.FloatFast Proofs.FloatMad Proofs.Wiring Proofs.GRoc Proofs.GEr.
Import ListNotations.
Open Scope R_scope.
Local Notation O := FOps.
Local Notation float := PrimFloat.float.
Local Notation fexp := (SpecFloat.fexp prec emax).
Local Notation RN := (round radix2 fexp (round_mode mode_NE)).

Local Instance prec_gt_0_53 : Prec_gt_0 prec := Hprec.

Lemma RN_plus_rel x y : generic_format radix2 fexp x -> generic_format radix2 fexp y ->
  exists eps, Rabs eps <= u /\ RN (x + y) = (x + y) * (1 + eps).
Proof.
  intros Fx Fy.
  destruct (FLT_plus_error_N_ex radix2 (3 - emax - prec) prec (fun z => negb (Z.even z)) x y Fx Fy) as (eps & He & E).
  exists eps. split; [|exact E]. eapply Rle_trans; [exact He|].
  change (u_ro radix2 prec) with u. pose proof u_pos as Hu. apply Rle_trans with (u / 1); [|lra].
  unfold Rdiv. apply Rmult_le_compat_l; [lra|]. apply Rinv_le_contravar; lra.
Qed.

Lemma fadd_rel a b : finF a -> finF b -> Rabs (FR a + FR b) <= BIG ->
  finF (a + b)%float /\ exists eps, Rabs eps <= u /\ FR (a + b)%float = (FR a + FR b) * (1 + eps).
Proof.
  intros Fa Fb Hb. destruct (fadd_exact a b Fa Fb Hb) as [F E]. split; [exact F|]. rewrite E. apply RN_plus_rel; apply FR_fmt.
Qed.
Lemma fsub_rel a b : finF a -> finF b -> Rabs (FR a - FR b) <= BIG ->
  finF (a - b)%float /\ exists eps, Rabs eps <= u /\ FR (a - b)%float = (FR a - FR b) * (1 + eps).
Proof.
  intros Fa Fb Hb. destruct (fsub_exact a b Fa Fb Hb) as [F E]. split; [exact F|]. rewrite E. unfold Rminus.
  apply RN_plus_rel; [apply FR_fmt|apply generic_format_opp, FR_fmt].
Qed.

(* real path length from `first` through the scanned prices *)
Fixpoint plen_from (prev : R) (l : list R) : R := match l with [] => 0 | y :: r => Rabs (prev - y) + plen_from y r end.

Lemma last_dflt {A} (l : list A) d1 d2 : l <> [] -> last l d1 = last l d2.
Proof. induction l as [|a l IH]; intros H; [congruence|]. destruct l; [reflexivity|]. apply IH. discriminate. Qed.

Lemma plen_from_triangle : forall l prev, Rabs (prev - last l prev) <= plen_from prev l.
Proof.
  induction l as [|y l IH]; intros prev; cbn [last plen_from]; [rewrite Rminus_diag_eq, Rabs_R0 by reflexivity; lra|].
  specialize (IH y). destruct l as [|y' l'].
  - cbn [last plen_from] in *. lra.
  - change (last (y :: y' :: l') prev) with (last (y' :: l') prev). rewrite (last_dflt (y' :: l') y prev) in IH by discriminate.
    replace (prev - last (y' :: l') prev) with ((prev - y) + (y - last (y' :: l') prev)) by ring. eapply Rle_trans; [apply Rabs_triang|]. lra.
Qed.

Lemma pow_1mu_ge (m : nat) : 1 - INR m * u <= (1 - u) ^ m.
Proof.
  pose proof u_pos as Hu0. pose proof u_le as Hu1. induction m as [|m IH]; [cbn; lra|]. rewrite S_INR. cbn [pow].
  assert (H0 : 0 <= (1 - u) ^ m) by (apply pow_le; lra).
  destruct (Rle_dec (1 - INR m * u) 0) as [Hn|Hp].
  - assert (0 <= (1 - u) * (1 - u) ^ m) by (apply Rmult_le_pos; lra). pose proof (pos_INR m). nra.
  - assert ((1 - u) * (1 - INR m * u) <= (1 - u) * (1 - u) ^ m) by (apply Rmult_le_compat_l; lra). pose proof (pos_INR m). nra.
Qed.

Lemma pow_1mu_le1 (m : nat) : 0 <= (1 - u) ^ m <= 1.
Proof.
  pose proof u_pos as Hu0. pose proof u_le as Hu1. split; [apply pow_le; lra|]. induction m as [|m IH]; [cbn; lra|]. cbn [pow].
  assert (0 <= (1 - u) ^ m) by (apply pow_le; lra). nra.
Qed.

(* the volatility loop on binary64: finite, and at least (1-u)^(2 * steps) times the real path length *)
Lemma vol_loop_low M : 1 <= M -> M <= bpow radix2 900 ->
  forall (scan : list float) (acc prev : float) (j : nat) (P : R),
  Forall (okin M) scan -> okin M prev -> finF acc -> 0 <= FR acc <= 3 * M * INR j -> 0 <= P -> P * (1 - u) ^ (2 * j) <= FR acc ->
  INR (j + length scan) * u <= / 64 -> INR (j + length scan) <= bpow radix2 60 ->
  let r := er_vol_loop O (acc, prev) scan in
  finF (fst r) /\ 0 <= FR (fst r) /\ (P + plen_from (FR prev) (map FR scan)) * (1 - u) ^ (2 * (j + length scan)) <= FR (fst r).
Proof.
  intros HM1 HM2. pose proof u_pos as Hu0. pose proof u_le as Hu1.
  induction scan as [|y scan IH]; intros acc prev j P Hs Hp Fa Ha HP Hlow Hju Hj60 r.
  - unfold r. cbn. rewrite Nat.add_0_r, Rplus_0_r. repeat split; try assumption; lra.
  - pose proof (Forall_inv Hs) as [Fy Hy]. pose proof (Forall_inv_tail Hs) as Hs'. destruct Hp as [Fp Hpm].
    cbn [length] in *. unfold r, er_vol_loop. cbn [fold_left]. cbn [add sub abs O].
    assert (Hj0 : 0 <= INR j) by apply pos_INR.
    assert (HjS : INR j + 1 <= INR (j + S (length scan))) by (rewrite <- S_INR; apply le_INR; lia).
    assert (HjM : 3 * M * (INR j + 1) <= BIG).
    { unfold BIG. apply Rle_trans with (bpow radix2 2 * (bpow radix2 900 * bpow radix2 60)); [|rewrite <- !bpow_plus; apply bpow_le; lia].
      change (bpow radix2 2) with 4. assert (M * (INR j + 1) <= bpow radix2 900 * bpow radix2 60) by (apply Rmult_le_compat; lra). lra. }
    assert (Hd : Rabs (FR prev - FR y) <= 2 * M) by (eapply Rle_trans; [apply Rabs_triang|]; rewrite Rabs_Ropp; lra).
    destruct (fsub_rel prev y Fp Fy) as (Fd & e1 & He1 & R1); [lra|].
    destruct (fabs_exact _ Fd) as [Ft Et]. set (t := PrimFloat.abs (prev - y)) in *.
    set (D := Rabs (FR prev - FR y)) in *.
    assert (HD0 : 0 <= D) by apply Rabs_pos.
    assert (Ht : D * (1 - u) <= FR t <= D * (1 + u)).
    { rewrite Et, R1, Rabs_mult. fold D. assert (1 - u <= Rabs (1 + e1) <= 1 + u).
      { split; [|eapply Rle_trans; [apply Rabs_triang|]; rewrite Rabs_R1; lra].
        apply Rle_trans with (1 + e1); [|apply Rle_abs]. pose proof (Rabs_le_inv _ _ He1). lra. }
      split; apply Rmult_le_compat_l; lra. }
    assert (Ht0 : 0 <= FR t) by (rewrite Et; apply Rabs_pos).
    assert (Hsum : 0 <= FR acc + FR t <= 3 * M * INR j + 2 * M * (1 + u)).
    { split; [lra|]. assert (D * (1 + u) <= 2 * M * (1 + u)) by (apply Rmult_le_compat_r; lra). lra. }
    assert (Hju' : INR j * u <= / 64) by (eapply Rle_trans; [|exact Hju]; apply Rmult_le_compat_r; [lra|lra]).
    destruct (fadd_rel acc t Fa Ft) as (Fs & e2 & He2 & R2); [rewrite Rabs_pos_eq by lra; nra|].
    set (acc' := (acc + t)%float) in *.
    pose proof (Rabs_le_inv _ _ He2) as He2'.
    assert (Hacc'0 : 0 <= FR acc') by (rewrite R2; apply Rmult_le_pos; lra).
    assert (Hacc'u : FR acc' <= 3 * M * INR (S j)).
    { rewrite R2, S_INR. apply Rle_trans with ((3 * M * INR j + 2 * M * (1 + u)) * (1 + u)); [apply Rmult_le_compat; lra|].
      assert (3 * M * (INR j * u) <= 3 * M * / 64) by (apply Rmult_le_compat_l; lra). nra. }
    assert (Hlow' : (P + D) * (1 - u) ^ (2 * S j) <= FR acc').
    { rewrite R2. replace (2 * S j)%nat with (S (S (2 * j))) by lia. cbn [pow]. set (q := (1 - u) ^ (2 * j)) in *.
      destruct (pow_1mu_le1 (2 * j)) as [Hq0 Hq1]. fold q in Hq0, Hq1.
      apply Rle_trans with ((FR acc + FR t) * (1 - u)); [|apply Rmult_le_compat_l; lra].
      assert (X1 : 0 <= P * q * (1 - u)) by (apply Rmult_le_pos; [apply Rmult_le_pos; lra|lra]).
      assert (A1 : P * ((1 - u) * ((1 - u) * q)) <= P * q * (1 - u)).
      { replace (P * ((1 - u) * ((1 - u) * q))) with (P * q * (1 - u) * (1 - u)) by ring. rewrite <- (Rmult_1_r (P * q * (1 - u))) at 2. apply Rmult_le_compat_l; lra. }
      assert (X2 : 0 <= D * (1 - u) * (1 - u)) by (apply Rmult_le_pos; [apply Rmult_le_pos; lra|lra]).
      assert (A2 : D * ((1 - u) * ((1 - u) * q)) <= D * (1 - u) * (1 - u)).
      { replace (D * ((1 - u) * ((1 - u) * q))) with (D * (1 - u) * (1 - u) * q) by ring. rewrite <- (Rmult_1_r (D * (1 - u) * (1 - u))) at 2. apply Rmult_le_compat_l; lra. }
      assert (A3 : P * q * (1 - u) <= FR acc * (1 - u)) by (apply Rmult_le_compat_r; lra).
      assert (A4 : D * (1 - u) * (1 - u) <= FR t * (1 - u)) by (apply Rmult_le_compat_r; lra). lra. }
    destruct (IH acc' y (S j) (P + D) Hs' (conj Fy Hy) Fs (conj Hacc'0 Hacc'u) ltac:(lra) Hlow') as (F' & H0' & Hl').
    { replace (S j + length scan)%nat with (j + S (length scan))%nat by lia. exact Hju. }
    { replace (S j + length scan)%nat with (j + S (length scan))%nat by lia. exact Hj60. }
    unfold er_vol_loop in *. cbn [add sub abs O] in *. fold t. fold acc'.
    split; [exact F'|]. split; [exact H0'|].
    cbn [map plen_from]. fold D. replace (j + S (length scan))%nat with (S j + length scan)%nat by lia.
    replace (P + (D + plen_from (FR y) (map FR scan))) with (P + D + plen_from (FR y) (map FR scan)) by ring. exact Hl'.
Qed.

Lemma vol_loop_last : forall (scan : list float) acc prev, snd (er_vol_loop O (acc, prev) scan) = last scan prev.
Proof.
  induction scan as [|y scan IH]; intros acc prev; [reflexivity|]. unfold er_vol_loop in *. cbn [fold_left]. rewrite IH.
  destruct scan as [|z scan']; [reflexivity|]. change (last (y :: z :: scan') prev) with (last (z :: scan') prev). apply last_dflt. discriminate.
Qed.

Definition er_hi (n : nat) : R := 1 + (3 * INR n + 5) * u.

(* the ratio |first - x| / volatility over a scan ending in x *)
Lemma ger_ratio_range M (first x : float) (scan : list float) : 1 <= M -> M <= bpow radix2 900 ->
  okin M first -> Forall (okin M) scan -> scan <> [] -> last scan first = x ->
  INR (length scan) * u <= / 64 -> INR (length scan) <= bpow radix2 60 ->
  let v := fst (er_vol_loop O (0%float, first) scan) in
  finF v /\ 0 <= FR v /\
  (FR v = 0 \/ (finF (ger_ratio O first x scan) /\ 0 <= FR (ger_ratio O first x scan) <= er_hi (length scan))).
Proof.
  intros HM1 HM2 Hf Hs Hne Hlast Hnu Hn60 v.
  pose proof u_pos as Hu0. pose proof u_le as Hu1. pose proof eta_pos as He0. pose proof eta_le_u as Heu. pose proof BIG_ge as HBg.
  destruct (vol_loop_low M HM1 HM2 scan 0%float first 0%nat 0 Hs Hf finF_zero ltac:(rewrite FR_zero; cbn [INR]; lra) ltac:(lra)
              ltac:(rewrite FR_zero; lra) Hnu Hn60) as (Fv & Hv0 & Hlow).
  cbn [Nat.add] in Hlow. rewrite Rplus_0_l in Hlow. change (zero O) with 0%float in *. fold v in Fv, Hv0, Hlow.
  split; [exact Fv|]. split; [exact Hv0|].
  destruct (Req_dec (FR v) 0) as [Hz|Hnz]; [left; exact Hz|right].
  assert (Hvpos : 0 < FR v) by lra.
  set (n := length scan) in *. set (V := plen_from (FR first) (map FR scan)) in *.
  destruct Hf as [Ff Hfm].
  assert (Fx : okin M x).
  { rewrite <- Hlast. destruct (exists_last Hne) as (l' & a & ->). rewrite last_last. rewrite Forall_forall in Hs. apply Hs. apply in_or_app. right. left. reflexivity. }
  destruct Fx as [Fx Hxm].
  assert (Htri : Rabs (FR first - FR x) <= V).
  { unfold V. rewrite <- Hlast. replace (FR (last scan first)) with (last (map FR scan) (FR first)).
    - apply plen_from_triangle.
    - clear. generalize first. induction scan as [|a l IH]; intros f0; [reflexivity|]. cbn [map]. destruct l as [|b l']; [reflexivity|].
      change (last (FR a :: map FR (b :: l')) (FR f0)) with (last (map FR (b :: l')) (FR f0)).
      change (last (a :: b :: l') f0) with (last (b :: l') f0). apply IH. }
  assert (Hd : Rabs (FR first - FR x) <= 2 * M) by (eapply Rle_trans; [apply Rabs_triang|]; rewrite Rabs_Ropp; lra).
  assert (HMB : 4 * M <= BIG).
  { unfold BIG. apply Rle_trans with (4 * bpow radix2 900); [lra|]. change 4 with (bpow radix2 2). rewrite <- bpow_plus. apply bpow_le. lia. }
  destruct (fsub_rel first x Ff Fx) as (Fd & e1 & He1 & R1); [lra|].
  destruct (fabs_exact _ Fd) as [Fa Ea]. set (a := PrimFloat.abs (first - x)) in *.
  assert (Ha0 : 0 <= FR a) by (rewrite Ea; apply Rabs_pos).
  assert (Ha1 : FR a <= V * (1 + u)).
  { rewrite Ea, R1, Rabs_mult. apply Rmult_le_compat; try apply Rabs_pos; [exact Htri|]. eapply Rle_trans; [apply Rabs_triang|]. rewrite Rabs_R1. lra. }
  set (q := (1 - u) ^ (2 * n)) in *.
  assert (Hq : 1 - 2 * INR n * u <= q) by (unfold q; eapply Rle_trans; [|apply pow_1mu_ge]; rewrite mult_INR; cbn [INR]; lra).
  assert (Hz : 2 * INR n * u <= / 32) by lra.
  assert (Hq0 : 0 < q) by lra.
  (* a * q <= v * (1 + u) *)
  assert (Haq : FR a * q <= FR v * (1 + u)).
  { apply Rle_trans with (V * (1 + u) * q); [apply Rmult_le_compat_r; lra|]. replace (V * (1 + u) * q) with (V * q * (1 + u)) by ring. apply Rmult_le_compat_r; lra. }
  set (r := FR a / FR v).
  assert (Hr0 : 0 <= r) by (apply Rmult_le_pos; [exact Ha0|apply Rlt_le, Rinv_0_lt_compat; exact Hvpos]).
  assert (Hrq : r * q <= 1 + u).
  { unfold r. apply Rmult_le_reg_r with (FR v); [exact Hvpos|]. replace (FR a / FR v * q * FR v) with (FR a * q) by (field; lra). lra. }
  assert (Hr1 : r <= 1 + (2 * INR n + 2) * u + 3 * INR n * u * (2 * INR n * u)).
  { (* r (1 - z) <= 1 + u with z <= 1/32 *)
    set (z := 2 * INR n * u) in *. assert (Hz0 : 0 <= z) by (unfold z; pose proof (pos_INR n); nra).
    assert (r * (1 - z) <= 1 + u) by (eapply Rle_trans; [|exact Hrq]; apply Rmult_le_compat_l; lra).
    assert (Hr2 : r <= 2) by nra.
    (* r <= (1+u) + r z <= 1 + u + 2 z ... sharpen once: r <= 1 + u + z (1 + u + 2 z) *)
    assert (r <= 1 + u + r * z) by lra.
    assert (r * z <= (1 + u + 2 * z) * z) by (apply Rmult_le_compat_r; [exact Hz0|]; nra).
    unfold z in *. nra. }
  assert (Hr1' : r <= 1 + (3 * INR n + 2) * u).
  { eapply Rle_trans; [exact Hr1|]. assert (3 * INR n * u * (2 * INR n * u) <= 3 * INR n * u * / 32) by (apply Rmult_le_compat_l; [pose proof (pos_INR n); nra|exact Hz]).
    pose proof (pos_INR n). nra. }
  assert (Hr2 : r <= 2) by (pose proof (pos_INR n); nra).
  unfold ger_ratio. cbn [div abs sub O]. change (zero O) with 0%float. fold v. fold a.
  destruct (fdiv_err a v Fa Hnz) as (Fo & e & nn & He & Hn & Ro); [fold r; rewrite Rabs_pos_eq by exact Hr0; lra|].
  destruct (fdiv_exact a v Fa Hnz) as [_ Eo]; [fold r; rewrite Rabs_pos_eq by exact Hr0; lra|].
  split; [exact Fo|]. split; [rewrite Eo; apply RN_nonneg; exact Hr0|].
  rewrite Ro. fold r. unfold er_hi. fold n. pose proof (Rabs_le_inv _ _ He) as He'. pose proof (Rabs_le_inv _ _ Hn) as Hn'.
  assert (r * (1 + e) <= r + 2 * u) by nra. lra.
Qed.

(* the volatility the code divides by, after history h and input x *)
Definition ger_vol (p : nat) (h : list float) (x : float) : float :=
  if (length h <? p)%nat then fst (er_vol_loop O (0%float, hd 0%float h) (h ++ [x]))
  else let w := lastn (S p) (h ++ [x]) in fst (er_vol_loop O (0%float, hd 0%float w) (tl w)).

Lemma er_hi_mono a b : (a <= b)%nat -> er_hi a <= er_hi b.
Proof. intros H. unfold er_hi. pose proof u_pos. assert (INR a <= INR b) by (apply le_INR; exact H). nra. Qed.

Theorem ger_spec_range M p h x : 1 <= M -> M <= bpow radix2 900 -> (1 <= p)%nat -> INR p * u <= / 64 -> INR p <= bpow radix2 60 ->
  Forall (okin M) h -> okin M x ->
  let o := ger_spec O p h x in let v := ger_vol p h x in
  finF v /\ 0 <= FR v /\ (FR v = 0 \/ (finF o /\ 0 <= FR o <= er_hi p)).
Proof.
  intros HM1 HM2 Hp Hpu Hp60 Hh Hx o v. unfold o, v, ger_spec, ger_vol. change (zero O) with 0%float. pose proof u_pos as Hu0.
  assert (Hall : Forall (okin M) (h ++ [x])) by (apply Forall_app; split; [exact Hh|constructor; [exact Hx|constructor]]).
  destruct (Nat.ltb_spec (length h) p) as [Hw|Hf].
  - set (scan := h ++ [x]). assert (Ls : (length scan <= p)%nat) by (unfold scan; rewrite app_length; cbn; lia).
    assert (Hfirst : okin M (hd 0%float h)) by (destruct h as [|a h0]; [apply okin_zero; lra|exact (Forall_inv Hh)]).
    destruct (ger_ratio_range M (hd 0%float h) x scan HM1 HM2 Hfirst Hall) as (Fv & Hv0 & Hor).
    + unfold scan. destruct h; discriminate.
    + unfold scan. apply last_last.
    + eapply Rle_trans; [|exact Hpu]. apply Rmult_le_compat_r; [lra|apply le_INR; exact Ls].
    + eapply Rle_trans; [apply le_INR; exact Ls|exact Hp60].
    + split; [exact Fv|]. split; [exact Hv0|]. destruct Hor as [Hz|(Fo & Ho0 & Ho1)]; [left; exact Hz|right].
      split; [exact Fo|]. split; [exact Ho0|]. eapply Rle_trans; [exact Ho1|apply er_hi_mono; exact Ls].
  - set (w := lastn (S p) (h ++ [x])).
    assert (Lw : length w = S p) by (unfold w; rewrite lastn_length, app_length; cbn [length]; lia).
    assert (Fw : Forall (okin M) w) by (apply Forall_lastn; exact Hall).
    destruct w as [|f0 scan] eqn:Ew; [cbn in Lw; lia|]. cbn [hd tl].
    assert (Ls : length scan = p) by (cbn [length] in Lw; lia).
    assert (Elast : last scan f0 = x).
    { assert (E1 : last (f0 :: scan) f0 = x).
      { rewrite <- Ew. unfold w, lastn. rewrite app_length. cbn [length]. replace (length h + 1 - S p)%nat with (length h - p)%nat by lia.
        rewrite skipn_app. replace (length h - p - length h)%nat with 0%nat by lia. cbn [skipn]. apply last_last. }
      destruct scan as [|b sc]; [cbn in Ls; lia|]. exact E1. }
    destruct (ger_ratio_range M f0 x scan HM1 HM2 (Forall_inv Fw) (Forall_inv_tail Fw)) as (Fv & Hv0 & Hor).
    + destruct scan; [cbn in Ls; lia|discriminate].
    + exact Elast.
    + rewrite Ls. exact Hpu.
    + rewrite Ls. exact Hp60.
    + split; [exact Fv|]. split; [exact Hv0|]. rewrite Ls in Hor. exact Hor.
Qed.

Lemma ger_stream_nth : forall xs p (h : list float) j d dx, (j < length xs)%nat ->
  nth j (ger_stream O p h xs) d = ger_spec O p (h ++ firstn j xs) (nth j xs dx).
Proof.
  induction xs as [|y xs IH]; intros p h j d dx Hj; [cbn in Hj; lia|]. cbn [ger_stream]. destruct j as [|j].
  - cbn [nth firstn]. rewrite app_nil_r. reflexivity.
  - cbn [nth firstn]. rewrite (IH p (h ++ [y]) j d dx) by (cbn in Hj; lia). rewrite <- app_assoc. reflexivity.
Qed.

(* binary64 EfficiencyRatio: every output whose volatility is not zero is a finite number in [0, 1 + (3n+5) 2^-53] *)
Theorem er_float_range : forall p s xs M, er_new O p = Ok s -> 1 <= M -> M <= bpow radix2 900 ->
  (p <= 70368744177664)%N -> Forall (okin M) xs ->
  forall j, (j < length xs)%nat ->
    let o := nth j (res_outs (er_next O) s xs) 0%float in
    let v := ger_vol (N.to_nat p) (firstn j xs) (nth j xs 0%float) in
    finF v /\ 0 <= FR v /\ (FR v = 0 \/ (finF o /\ 0 <= FR o <= er_hi (N.to_nat p))).
Proof.
  intros p s xs M H HM1 HM2 Hp Hxs j Hj o v. unfold o. rewrite (ger_refines O p s xs H).
  rewrite (ger_stream_nth xs (N.to_nat p) [] j 0%float 0%float Hj). cbn [app].
  pose proof (er_new_inv O p s H) as (Hp0 & _).
  assert (Hp46 : INR (N.to_nat p) <= bpow radix2 46).
  { replace (bpow radix2 46) with (INR (N.to_nat 70368744177664)) by (rewrite INR_IZR_INZ, N_nat_Z; cbn; lra). apply le_INR. lia. }
  apply (ger_spec_range M); try assumption.
  - lia.
  - apply Rle_trans with (bpow radix2 46 * u); [apply Rmult_le_compat_r; [pose proof u_pos; lra|exact Hp46]|unfold u; cbn; lra].
  - eapply Rle_trans; [exact Hp46|apply bpow_le; lia].
  - apply Forall_firstn. exact Hxs.
  - rewrite Forall_forall in Hxs. apply Hxs, nth_In, Hj.
Qed.
