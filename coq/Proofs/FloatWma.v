(* WeightedMovingAverage on binary64: the error against the exact weighted mean of the window grows at most QUADRATICALLY with the
   number of inputs: the flat running sum carries an error linear in t (as for SimpleMovingAverage), and that error is fed into the
   weighted running sum at every step.  The bound is attained up to a constant by the adversary of known finding K7 (period 2), so
   this is the true order: WMA does not meet the tolerance tau(t) = 1e-12 + 1e-15 t^1.5 of C01 / C13 / C17 for long streams. *)
From Coq Require Import Reals Lra Lia ZArith List Floats.
From Flocq Require Import Core.
From TA Require Import Base Model FloatInst Proofs.Prims Proofs.WF Proofs.Ring Proofs.XBase Proofs.XSma Proofs.XWma Proofs.FloatErr Proofs.FloatSma Proofs.FloatEma Proofs.FloatSd Proofs.FloatFast Proofs.FloatMad Proofs.FloatSdMean Proofs.FloatMadErr.
Import ListNotations.
Open Scope R_scope.
Local Notation O := FOps.
Local Notation float := PrimFloat.float.

(* sum_flat - old + x *)
Lemma sum_slide2 (sm x old : float) (S E M k : R) : 0 <= M -> 0 <= E -> 0 <= k -> finF sm -> finF x -> finF old ->
  Rabs (FR sm - S) <= E -> Rabs S <= k * M -> Rabs (FR x) <= M -> Rabs (FR old) <= M -> Rabs (S - FR old) <= (k + 1) * M ->
  Rabs (S - FR old + FR x) <= (k + 1) * M -> 3 * ((k + 2) * M + E + 1) <= BIG ->
  let A := u * (k + 1) * M + eta in
  finF (sm - old + x)%float /\ Rabs (FR (sm - old + x)%float - (S - FR old + FR x)) <= E * (1 + u) * (1 + u) + 3 * A.
Proof.
  intros HM HE Hk Fs Fx Fo Hs HS Hx Ho HS1 HS' Hbig A. pose proof u_pos as Hu0. pose proof u_le as Hu1. pose proof eta_pos as He0. pose proof eta_le as He1.
  assert (HkM : 0 <= k * M) by (apply Rmult_le_pos; assumption).
  assert (HA : 0 <= A) by (unfold A; assert (0 <= u * (k + 1) * M) by (apply Rmult_le_pos; [apply Rmult_le_pos; lra|lra]); lra).
  assert (HAb : A <= (k + 1) * M / 1000 + / 1000).
  { unfold A. assert (u * (k + 1) * M <= / 1000 * ((k + 1) * M)) by (rewrite Rmult_assoc; apply Rmult_le_compat_r; [apply Rmult_le_pos; lra|lra]). lra. }
  assert (B1 : Rabs (FR sm - FR old) <= (k + 1) * M + E).
  { replace (FR sm - FR old) with ((FR sm - S) + (S - FR old)) by ring. eapply Rle_trans; [apply Rabs_triang|]. lra. }
  destruct (fsub_err sm old Fs Fo) as (F1 & e1 & n1 & He1' & Hn1 & R1); [lra|].
  set (t1 := (sm - old)%float) in *.
  assert (D1 : Rabs (FR t1 - (S - FR old)) <= E * (1 + u) + A).
  { rewrite R1. replace ((FR sm - FR old) * (1 + e1) + n1 - (S - FR old)) with ((FR sm - S) + (FR sm - FR old) * e1 + n1) by ring.
    eapply Rle_trans; [apply Rabs_triang|]. eapply Rle_trans; [apply Rplus_le_compat_r, Rabs_triang|]. rewrite Rabs_mult.
    assert (Rabs (FR sm - FR old) * Rabs e1 <= ((k + 1) * M + E) * u) by (apply Rmult_le_compat; try apply Rabs_pos; assumption).
    unfold A. lra. }
  assert (HEu : E * u <= E / 1000) by (replace (E / 1000) with (E * / 1000) by field; apply Rmult_le_compat_l; lra).
  assert (B2 : Rabs (FR t1 + FR x) <= (k + 1) * M + (E * (1 + u) + A)).
  { replace (FR t1 + FR x) with ((FR t1 - (S - FR old)) + (S - FR old + FR x)) by ring. eapply Rle_trans; [apply Rabs_triang|]. lra. }
  destruct (fadd_err t1 x F1 Fx) as (F2 & e2 & n2 & He2 & Hn2 & R2); [lra|]. split; [exact F2|].
  rewrite R2. replace ((FR t1 + FR x) * (1 + e2) + n2 - (S - FR old + FR x)) with ((FR t1 - (S - FR old)) + (FR t1 + FR x) * e2 + n2) by ring.
  eapply Rle_trans; [apply Rabs_triang|]. eapply Rle_trans; [apply Rplus_le_compat_r, Rabs_triang|]. rewrite Rabs_mult.
  assert (H : Rabs (FR t1 + FR x) * Rabs e2 <= ((k + 1) * M + (E * (1 + u) + A)) * u) by (apply Rmult_le_compat; try apply Rabs_pos; assumption).
  assert (HAu : A * u <= A) by (rewrite <- (Rmult_1_r A) at 2; apply Rmult_le_compat_l; lra).
  assert (Hk1 : (k + 1) * M * u + eta = A) by (unfold A; ring).
  replace (E * (1 + u) * (1 + u) + 3 * A) with (E * (1 + u) + A + (E * (1 + u) * u + A + A)) by ring.
  replace (((k + 1) * M + (E * (1 + u) + A)) * u) with ((k + 1) * M * u + E * (1 + u) * u + A * u) in H by ring. lra.
Qed.

(* the weighted sum: S + x * w  (warm-up)  and  S - SF + x * w  (sliding);  c = real value of the weight, Wm bounds the targets *)
Lemma wsum_warm (S x w : float) (Sr Es M c Wm : R) : 1 <= M -> 0 <= Es -> 1 <= c -> c <= Wm -> finF S -> finF x -> finF w -> FR w = c ->
  Rabs (FR S - Sr) <= Es -> Rabs (FR x) <= M -> Rabs (Sr + c * FR x) <= Wm * M -> 4 * (Wm * M + Es + 1) <= BIG ->
  let B := u * (Wm + c) * M + eta in
  finF (S + x * w)%float /\ Rabs (FR (S + x * w)%float - (Sr + c * FR x)) <= Es * (1 + u) + 3 * B.
Proof.
  intros HM HEs Hc HcW FS Fx Fw Ew Hs Hx Ht Hbig B. pose proof u_pos as Hu0. pose proof u_le as Hu1. pose proof eta_pos as He0. pose proof eta_le as He1.
  assert (HcM : 0 <= c * M) by (apply Rmult_le_pos; lra).
  assert (HWM : c * M <= Wm * M) by (apply Rmult_le_compat_r; lra).
  assert (Hxc : Rabs (FR x * FR w) <= c * M) by (rewrite Ew, Rabs_mult, (Rabs_pos_eq c) by lra; rewrite Rmult_comm; apply Rmult_le_compat_l; lra).
  destruct (fmul_err x w Fx Fw) as (F1 & e1 & n1 & He1' & Hn1 & R1); [lra|]. set (xw := (x * w)%float) in *.
  assert (D1 : Rabs (FR xw - c * FR x) <= c * M * u + eta).
  { rewrite R1, Ew. replace (FR x * c * (1 + e1) + n1 - c * FR x) with (FR x * c * e1 + n1) by ring. eapply Rle_trans; [apply Rabs_triang|].
    rewrite Rabs_mult. rewrite Ew in Hxc. assert (Rabs (FR x * c) * Rabs e1 <= c * M * u) by (apply Rmult_le_compat; try apply Rabs_pos; assumption). lra. }
  assert (HcMu : c * M * u <= c * M / 1000) by (replace (c * M / 1000) with (c * M * / 1000) by field; apply Rmult_le_compat_l; lra).
  assert (B2 : Rabs (FR S + FR xw) <= Wm * M + Es + (c * M * u + eta)).
  { replace (FR S + FR xw) with ((FR S - Sr) + (FR xw - c * FR x) + (Sr + c * FR x)) by ring. eapply Rle_trans; [apply Rabs_triang|]. eapply Rle_trans; [apply Rplus_le_compat_r, Rabs_triang|]. lra. }
  destruct (fadd_err S xw FS F1) as (F2 & e2 & n2 & He2 & Hn2 & R2); [lra|]. split; [exact F2|].
  rewrite R2. replace ((FR S + FR xw) * (1 + e2) + n2 - (Sr + c * FR x)) with ((FR S - Sr) + (FR xw - c * FR x) + (FR S + FR xw) * e2 + n2) by ring.
  eapply Rle_trans; [apply Rabs_triang|]. eapply Rle_trans; [apply Rplus_le_compat_r, Rabs_triang|]. eapply Rle_trans; [apply Rplus_le_compat_r, Rplus_le_compat_r, Rabs_triang|].
  rewrite Rabs_mult.
  assert (H : Rabs (FR S + FR xw) * Rabs e2 <= (Wm * M + Es + (c * M * u + eta)) * u) by (apply Rmult_le_compat; try apply Rabs_pos; assumption).
  assert (H0cmu : 0 <= c * M * u) by (apply Rmult_le_pos; lra).
  assert (Hq : (c * M * u + eta) * u <= c * M * u + eta) by (rewrite <- (Rmult_1_r (c * M * u + eta)) at 2; apply Rmult_le_compat_l; lra).
  unfold B. replace ((Wm * M + Es + (c * M * u + eta)) * u) with (Wm * M * u + Es * u + (c * M * u + eta) * u) in H by ring.
  replace (3 * (u * (Wm + c) * M + eta)) with (3 * (Wm * M * u) + 3 * (c * M * u) + 3 * eta) by ring. 
  assert (0 <= Wm * M * u) by (apply Rmult_le_pos; [apply Rmult_le_pos; lra|lra]). lra.
Qed.

Lemma wsum_slide (S SF x w : float) (Sr SFr Es Ef M c Wm : R) : 1 <= M -> 0 <= Es -> 0 <= Ef -> 1 <= c -> c <= Wm ->
  finF S -> finF SF -> finF x -> finF w -> FR w = c ->
  Rabs (FR S - Sr) <= Es -> Rabs (FR SF - SFr) <= Ef -> Rabs (FR x) <= M ->
  Rabs (Sr - SFr) <= Wm * M -> Rabs (Sr - SFr + c * FR x) <= Wm * M -> 8 * (Wm * M + Es + Ef + 1) <= BIG ->
  let B := u * (Wm + c) * M + eta in
  finF (S - SF + x * w)%float /\
  Rabs (FR (S - SF + x * w)%float - (Sr - SFr + c * FR x)) <= (Es + Ef) * (1 + u) * (1 + u) + 5 * B.
Proof.
  intros HM HEs HEf Hc HcW FS FSF Fx Fw Ew Hs Hsf Hx H1 H2 Hbig B.
  pose proof u_pos as Hu0. pose proof u_le as Hu1. pose proof eta_pos as He0. pose proof eta_le as He1.
  assert (HWM0 : 0 <= Wm * M) by (apply Rmult_le_pos; lra).
  assert (B1 : Rabs (FR S - FR SF) <= Wm * M + Es + Ef).
  { replace (FR S - FR SF) with ((FR S - Sr) - (FR SF - SFr) + (Sr - SFr)) by ring. eapply Rle_trans; [apply Rabs_triang|].
    eapply Rle_trans; [apply Rplus_le_compat_r, Rabs_triang|]. rewrite Rabs_Ropp. lra. }
  destruct (fsub_err S SF FS FSF) as (F1 & e1 & n1 & He1' & Hn1 & R1); [lra|]. set (t1 := (S - SF)%float) in *.
  set (E1 := (Es + Ef) * (1 + u) + Wm * M * u + eta).
  assert (D1 : Rabs (FR t1 - (Sr - SFr)) <= E1).
  { rewrite R1. replace ((FR S - FR SF) * (1 + e1) + n1 - (Sr - SFr)) with ((FR S - Sr) - (FR SF - SFr) + (FR S - FR SF) * e1 + n1) by ring.
    eapply Rle_trans; [apply Rabs_triang|]. eapply Rle_trans; [apply Rplus_le_compat_r, Rabs_triang|]. eapply Rle_trans; [apply Rplus_le_compat_r, Rplus_le_compat_r, Rabs_triang|].
    rewrite Rabs_Ropp, Rabs_mult. assert (Rabs (FR S - FR SF) * Rabs e1 <= (Wm * M + Es + Ef) * u) by (apply Rmult_le_compat; try apply Rabs_pos; assumption).
    unfold E1. lra. }
  assert (HE1 : 0 <= E1) by (unfold E1; assert (0 <= (Es + Ef) * (1 + u)) by (apply Rmult_le_pos; lra); assert (0 <= Wm * M * u) by (apply Rmult_le_pos; lra); lra).
  assert (HE1b : E1 <= 2 * (Es + Ef) + Wm * M + 1).
  { unfold E1. assert ((Es + Ef) * (1 + u) <= (Es + Ef) * 2) by (apply Rmult_le_compat_l; lra). assert (Wm * M * u <= Wm * M * 1) by (apply Rmult_le_compat_l; lra). lra. }
  assert (Ft1 : Rabs (FR t1 - (Sr - SFr)) <= E1) by exact D1.
  (* now t1 + x * w against (Sr - SFr) + c x, with error E1 on t1 *)
  destruct (wsum_warm t1 x w (Sr - SFr) E1 M c Wm HM HE1 Hc HcW F1 Fx Fw Ew Ft1 Hx H2) as [F2 D2]; [lra|]. cbv zeta in D2.
  split; [exact F2|]. eapply Rle_trans; [exact D2|]. unfold E1, B.
  assert (HB0 : 0 <= u * (Wm + c) * M) by (apply Rmult_le_pos; [apply Rmult_le_pos; lra|lra]).
  assert (Wm * M * u * (1 + u) <= 2 * (Wm * M * u)) by (assert (0 <= Wm * M * u) by (apply Rmult_le_pos; lra); nra).
  assert (Wm * M * u <= u * (Wm + c) * M) by (assert (0 <= c * M * u) by (apply Rmult_le_pos; [apply Rmult_le_pos; lra|lra]); lra).
  replace (((Es + Ef) * (1 + u) + Wm * M * u + eta) * (1 + u)) with ((Es + Ef) * (1 + u) * (1 + u) + Wm * M * u * (1 + u) + eta * (1 + u)) by ring.
  assert (eta * (1 + u) <= 2 * eta) by nra. lra.
Qed.

From Flocq Require Import BinarySingleNaN PrimFloat.
From TA Require Import Proofs.FloatBb.
Local Notation fexp := (SpecFloat.fexp prec emax).
Local Notation RN := (round radix2 fexp (round_mode mode_NE)).

Lemma RN_int (n : N) : (n < 9007199254740992)%N -> RN (IZR (Z.of_N n)) = IZR (Z.of_N n).
Proof. intros H. destruct (f_ofN_exact n H) as [_ E]. rewrite <- E. apply RN_FR. Qed.

(* the denominator weight * (weight + 1) / 2 is computed exactly for periods below 2^26 *)
Lemma wma_den (c : N) : (0 < c < 67108864)%N ->
  let w := f_ofN c in let D := (w * (w + 1) / 2)%float in
  finF D /\ FR D = IZR (Z.of_N c) * (IZR (Z.of_N c) + 1) / 2.
Proof.
  intros [Hc0 Hc] w D. destruct (f_ofN_exact c ltac:(lia)) as [Fw Ew]. fold w in Fw, Ew. pose proof BIG_ge as HBg.
  set (cr := IZR (Z.of_N c)) in *.
  assert (Hcr : 1 <= cr <= 67108864) by (unfold cr; split; apply IZR_le; lia).
  assert (Hev : exists m : N, (c * (c + 1) = 2 * m)%N).
  { apply N.even_spec. rewrite N.even_mul, N.add_1_r, N.even_succ. destruct (N.even c) eqn:E; [reflexivity|]. rewrite <- N.negb_even, E. reflexivity. }
  destruct Hev as [m Hm].
  assert (E1 : cr + 1 = IZR (Z.of_N (c + 1))) by (unfold cr; rewrite N2Z.inj_add, plus_IZR; reflexivity).
  assert (E2 : cr * (cr + 1) = IZR (Z.of_N (c * (c + 1)))) by (unfold cr; rewrite N2Z.inj_mul, N2Z.inj_add, mult_IZR, plus_IZR; reflexivity).
  assert (E3 : cr * (cr + 1) / 2 = IZR (Z.of_N m)) by (rewrite E2, Hm, N2Z.inj_mul, mult_IZR; change (IZR (Z.of_N 2)) with 2; field).
  destruct (fadd_exact w 1%float Fw finF_one) as [F1 R1]; [rewrite Ew, FR_one, Rabs_pos_eq; lra|].
  rewrite Ew, FR_one, E1, RN_int in R1 by lia. rewrite <- E1 in R1.
  destruct (fmul_exact w (w + 1)%float Fw F1) as [F2 R2]; [rewrite Ew, R1, Rabs_pos_eq; nra|].
  rewrite Ew, R1, E2, RN_int in R2 by nia. rewrite <- E2 in R2.
  destruct (fdiv_exact (w * (w + 1))%float 2%float F2) as [F3 R3]; [rewrite FR_two; lra|rewrite R2, FR_two, Rabs_pos_eq; nra|].
  rewrite R2, FR_two, E3, RN_int in R3 by nia. rewrite <- E3 in R3.
  split; [exact F3|exact R3].
Qed.

From TA Require Import Proofs.XCor.
Open Scope R_scope.

Definition Wk (k : R) : R := k * (k + 1) / 2.

Lemma wsum_abs_le (l : list float) M : 0 <= M -> Forall (okin M) l -> Rabs (wsum (map FR l)) <= Wk (INR (length l)) * M.
Proof.
  intros HM H. assert (Hb : all_between (- M) M (map FR l)).
  { intros y Hy. apply in_map_iff in Hy as (a & <- & Ia). rewrite Forall_forall in H. destruct (H a Ia) as [_ Ha]. apply Rabs_le_inv in Ha. exact Ha. }
  pose proof (wsum_from_between (- M) M 1 (map FR l) Hb) as [A B]. rewrite sum_seq_INR, map_length in A, B. unfold wsum, Wk.
  apply Rabs_le. lra.
Qed.

Lemma Wk_mono a b : 0 <= a <= b -> Wk a <= Wk b.
Proof. intros [H0 H]. unfold Wk. nra. Qed.

Definition fwma_inv (s : @Wma float) (h : list float) (Ef Es : R) : Prop :=
  let p := N.to_nat (wma_period s) in
  wf_wma s /\
  rot (N.to_nat (wma_index s)) (wma_deque s) = lastn p (padded 0%float p h) /\
  wma_count s = N.of_nat (Nat.min (length h) p) /\
  wma_weight s = f_ofN (wma_count s) /\
  finF (wma_sum_flat s) /\ Rabs (FR (wma_sum_flat s) - Rsum (map FR (lastn p h))) <= Ef /\
  finF (wma_sum s) /\ Rabs (FR (wma_sum s) - wsum (map FR (lastn p h))) <= Es.

Lemma fwma_inv_new p s : wma_new O p = Ok s -> fwma_inv s [] 0 0.
Proof.
  intros H. pose proof (wma_new_inv O p s H) as (A & B & W & Pe).
  rewrite wma_new_ok in H by assumption. injection H as <-. unfold fwma_inv.
  cbn [wma_period wma_index wma_count wma_sum wma_sum_flat wma_weight wma_deque length].
  split; [exact W|]. split; [rewrite rot_0, lastn_padded_nil; reflexivity|]. split; [reflexivity|]. split; [reflexivity|].
  replace (lastn (N.to_nat p) (@nil float)) with (@nil float) by (unfold lastn; destruct (N.to_nat p); reflexivity).
  change (zero O) with 0%float. cbn [map Rsum]. unfold wsum. cbn [wsum_from]. rewrite FR_zero, Rminus_0_r, Rabs_R0.
  repeat split; try exact finF_zero; lra.
Qed.

Lemma fwma_step s h x M Ef Es : 1 <= M -> M <= bpow radix2 400 -> 0 <= Ef -> 0 <= Es -> Ef <= bpow radix2 500 -> Es <= bpow radix2 500 ->
  fwma_inv s h Ef Es -> Forall (okin M) h -> okin M x -> (wma_period s < 67108864)%N ->
  let p := N.to_nat (wma_period s) in
  let k := INR (Nat.min (length h) p) in
  let A := u * (k + 1) * M + eta in
  let B := u * (Wk (INR p) + INR p) * M + eta in
  let Ef' := Ef * (1 + u) * (1 + u) + 3 * A in
  let Es' := (Es + Ef) * (1 + u) * (1 + u) + 5 * B in
  let w' := lastn p (h ++ [x]) in
  let Dr := Wk (INR (length w')) in
  exists s' o, wma_next O s x = Ok (s', o) /\ fwma_inv s' (h ++ [x]) Ef' Es' /\ wma_period s' = wma_period s /\
    finF o /\ Rabs (FR o - wmean (map FR w')) <= Es' / Dr * (1 + u) + u * M + eta.
Proof.
  intros HM1 HM2 HEf HEs HEfb HEsb (W & Hrot & Hcnt & Hwt & Fsf & Hsf & Fsm & Hsm) Hh [Fx Hx] Hp26 p k A B Ef' Es' w' Dr.
  pose proof W as (H1 & H2 & H3 & H4 & H5). fold p in Hrot, Hcnt, Hsf, Hsm.
  pose proof u_pos as Hu0. pose proof u_le as Hu1. pose proof eta_pos as He0. pose proof eta_le_u as Heu. pose proof BIG_ge as HBg.
  assert (HM0 : 0 <= M) by lra.
  assert (Hp : (1 <= p)%nat) by (unfold p; lia).
  destruct (ring_step (wma_deque s) (wma_period s) (wma_index s) x 0%float H1 H3 H2 H5) as (E1 & E2 & E3 & E4 & E5).
  set (w := lastn p h) in *.
  assert (Lw : length w = Nat.min (length h) p) by (unfold w; rewrite lastn_length; lia).
  assert (Lw' : length w' = Nat.min (length h + 1) p) by (unfold w'; rewrite lastn_length, app_length; cbn [length]; lia).
  pose proof (lastn_snoc_cases p h x Hp) as Ew'. fold w w' in Ew'.
  assert (Fw : Forall (okin M) w) by (apply Forall_lastn; exact Hh).
  assert (Fw' : Forall (okin M) w') by (apply Forall_lastn, Forall_app; split; [exact Hh|constructor; [split; assumption|constructor]]).
  set (wp := lastn p (padded 0%float p h)) in *.
  assert (Fwp : Forall (okin M) wp) by (apply Forall_lastn, Forall_padded; [apply okin_zero; exact HM0|exact Hh]).
  assert (Hwp : wp <> []) by (apply lastn_padded_ne; exact Hp).
  set (old := hd 0%float wp).
  assert (Hold : okin M old) by (unfold old; destruct wp as [|a w0]; [congruence|]; cbn; now inversion Fwp).
  destruct Hold as [Fold Hold].
  set (SFr := Rsum (map FR w)) in *. set (Sr := wsum (map FR w)) in *.
  set (SFr' := Rsum (map FR w')). set (Sr' := wsum (map FR w')).
  assert (Hk0 : 0 <= k) by (unfold k; apply pos_INR).
  assert (Hkp : k <= INR p) by (unfold k; apply le_INR; lia).
  assert (Hp1 : 1 <= INR p) by (change 1 with (INR 1); apply le_INR; exact Hp).
  assert (Hp26r : INR p <= 67108864).
  { replace 67108864 with (INR (N.to_nat 67108864)) by (rewrite INR_IZR_INZ, N_nat_Z; cbn; lra). apply le_INR. unfold p. lia. }
  assert (HSF : Rabs SFr <= k * M) by (unfold SFr, k; rewrite <- Lw; apply Rsum_abs_le; exact Fw).
  assert (ESw : SFr = Rsum (map FR wp)).
  { unfold SFr, w, wp. rewrite <- !lastn_map_, map_padded. symmetry. apply Rsum_lastn_padded. }
  assert (ESF' : SFr' = SFr - FR old + FR x).
  { unfold SFr', w'. rewrite <- lastn_map_, map_app. cbn [map].
    rewrite <- (Rsum_lastn_padded p (map FR h ++ [FR x])). rewrite lastn_padded_snoc by exact Hp.
    rewrite Rsum_app. cbn [Rsum]. rewrite ESw. unfold wp. rewrite <- lastn_map_, map_padded.
    set (wr := lastn p (padded 0 p (map FR h))).
    assert (Hwr : wr <> []) by (apply lastn_padded_ne; exact Hp).
    rewrite (Rsum_hd_tl wr Hwr). unfold old, wp. rewrite <- (hd_map FR), FR_zero. rewrite <- lastn_map_, map_padded. fold wr. lra. }
  assert (HSF' : Rabs SFr' <= (k + 1) * M).
  { unfold SFr'. eapply Rle_trans; [apply Rsum_abs_le; exact Fw'|]. apply Rmult_le_compat_r; [exact HM0|]. rewrite Lw'. unfold k. rewrite <- S_INR. apply le_INR. lia. }
  assert (HWp : 1 <= Wk (INR p)) by (unfold Wk; nra).
  assert (HWpp : INR p <= Wk (INR p)) by (unfold Wk; nra).
  assert (HWp52 : Wk (INR p) <= bpow radix2 53) by (unfold Wk; change (bpow radix2 53) with 9007199254740992; nra).
  assert (HBIG : 16 * (Wk (INR p) * M + Es + Ef + 1) <= BIG).
  { unfold BIG. apply Rle_trans with (bpow radix2 4 * (bpow radix2 53 * bpow radix2 400 + bpow radix2 500 + bpow radix2 500 + bpow radix2 500)).
    - change (bpow radix2 4) with 16. apply Rmult_le_compat_l; [lra|]. assert (Wk (INR p) * M <= bpow radix2 53 * bpow radix2 400) by (apply Rmult_le_compat; lra).
      assert (1 <= bpow radix2 500) by (change 1 with (bpow radix2 0); apply bpow_le; lia). lra.
    - rewrite <- bpow_plus. assert (bpow radix2 (53 + 400) <= bpow radix2 500) by (apply bpow_le; lia).
      apply Rle_trans with (bpow radix2 4 * (4 * bpow radix2 500)); [apply Rmult_le_compat_l; [apply bpow_ge_0|lra]|].
      change 4 with (bpow radix2 2). rewrite <- !bpow_plus. apply bpow_le. lia. }
  assert (HkWM : (k + 2) * M <= 3 * (Wk (INR p) * M)).
  { assert ((k + 2) * M <= 3 * INR p * M) by (apply Rmult_le_compat_r; lra). assert (INR p * M <= Wk (INR p) * M) by (apply Rmult_le_compat_r; lra). lra. }
  (* flat sum *)
  destruct (sum_slide2 (wma_sum_flat s) x old SFr Ef M k HM0 HEf Hk0 Fsf Fx Fold Hsf HSF Hx Hold) as [Fsf' Dsf'].
  { eapply Rle_trans; [apply Rabs_triang|]. rewrite Rabs_Ropp. lra. }
  { rewrite <- ESF'. exact HSF'. }
  { lra. }
  cbv zeta in Dsf'. fold A in Dsf'. fold Ef' in Dsf'. rewrite <- ESF' in Dsf'.
  (* weighted sum *)
  assert (HS : Rabs Sr <= Wk k * M) by (unfold Sr, k; rewrite <- Lw; apply wsum_abs_le; [exact HM0|exact Fw]).
  assert (HS' : Rabs Sr' <= Wk (INR p) * M).
  { unfold Sr'. eapply Rle_trans; [apply wsum_abs_le; [exact HM0|exact Fw']|]. apply Rmult_le_compat_r; [exact HM0|]. apply Wk_mono. split; [apply pos_INR|apply le_INR; lia]. }
  assert (Ebr : exists sum' c', (if (wma_count s <? wma_period s)%N
                 then c <- uadd (wma_count s) 1 ;; (let w0 := ofN O c in Ok (c, w0, add O (wma_sum s) (mul O x w0)))
                 else Ok (wma_count s, wma_weight s, add O (sub O (wma_sum s) (wma_sum_flat s)) (mul O x (wma_weight s))))
                = Ok (c', f_ofN c', sum') /\ c' = N.of_nat (length w') /\ finF sum' /\ Rabs (FR sum' - Sr') <= Es').
  { destruct (Nat.ltb_spec (length h) p) as [Hwarm|Hfull].
    - assert (Ec : (wma_count s <? wma_period s)%N = true) by (apply N.ltb_lt; rewrite Hcnt; unfold p in *; lia).
      rewrite Ec, uadd_ok by (unfold ALLOC_MAX, USIZE_MAX in *; lia). cbn [bind ofN add mul O].
      set (c := (wma_count s + 1)%N). assert (Ecn : c = N.of_nat (length w')) by (unfold c; rewrite Hcnt, Lw'; lia).
      destruct (f_ofN_exact c ltac:(unfold c; lia)) as [Fwc Ewc].
      assert (Ecr : IZR (Z.of_N c) = k + 1) by (rewrite Ecn, INR_N, Lw'; unfold k; rewrite <- S_INR; f_equal; lia).
      rewrite Ecr in Ewc.
      assert (Ew : w = h) by (unfold w; apply lastn_all; lia).
      assert (ES' : Sr' = Sr + (k + 1) * FR x).
      { unfold Sr', Sr. rewrite Ew', map_app. cbn [map]. rewrite wsum_snoc, map_length, Lw, S_INR. fold k. reflexivity. }
      assert (Hk1p : k + 1 <= INR p) by (unfold k; rewrite <- S_INR; apply le_INR; lia).
      destruct (wsum_warm (wma_sum s) x (f_ofN c) Sr Es M (k + 1) (Wk (INR p)) HM1 HEs ltac:(lra) ltac:(lra) Fsm Fx Fwc Ewc Hsm Hx) as [F' D'].
      { rewrite <- ES'. exact HS'. } { lra. }
      cbv zeta in D'. rewrite <- ES' in D'.
      exists (wma_sum s + x * f_ofN c)%float, c. split; [reflexivity|]. split; [exact Ecn|]. split; [exact F'|].
      eapply Rle_trans; [exact D'|]. unfold Es', B.
      assert (X1 : Es * (1 + u) <= (Es + Ef) * (1 + u) * (1 + u)).
      { assert (Es * (1 + u) <= (Es + Ef) * (1 + u)) by (apply Rmult_le_compat_r; lra). assert (0 <= (Es + Ef) * (1 + u)) by (apply Rmult_le_pos; lra). nra. }
      assert (X2 : u * (Wk (INR p) + (k + 1)) * M <= u * (Wk (INR p) + INR p) * M) by (apply Rmult_le_compat_r; [exact HM0|apply Rmult_le_compat_l; lra]).
      assert (X3 : 0 <= u * (Wk (INR p) + INR p) * M) by (apply Rmult_le_pos; [apply Rmult_le_pos; lra|exact HM0]).
      lra.
    - assert (Ec : (wma_count s <? wma_period s)%N = false) by (apply N.ltb_ge; rewrite Hcnt; unfold p in *; lia).
      rewrite Ec. cbn [add sub mul O]. rewrite Hwt.
      assert (Ecp : wma_count s = wma_period s) by (rewrite Hcnt; unfold p in *; lia).
      set (c := wma_count s) in *. assert (Ecn : c = N.of_nat (length w')) by (rewrite Ecp, Lw'; unfold p in *; lia).
      destruct (f_ofN_exact c ltac:(rewrite Ecp; lia)) as [Fwc Ewc].
      assert (Ecr : IZR (Z.of_N c) = INR p) by (rewrite Ecp; unfold p; rewrite <- (N2Nat.id (wma_period s)) at 1; apply INR_N).
      rewrite Ecr in Ewc.
      assert (Lwp : length w = p) by (rewrite Lw; lia).
      assert (Hw : w <> []) by (intros Ee; rewrite Ee in Lwp; cbn in Lwp; lia).
      assert (Hwr : map FR w <> []) by (destruct w; [congruence|discriminate]).
      assert (Lt : length (tl (map FR w)) = (p - 1)%nat) by (rewrite tl_map, map_length; destruct w; [congruence|cbn [length tl] in *; lia]).
      assert (ES' : Sr' = Sr - SFr + INR p * FR x).
      { unfold Sr', Sr, SFr. rewrite Ew', map_app, <- tl_map. cbn [map]. rewrite wsum_snoc, (wsum_tl _ Hwr), Lt. replace (S (p - 1)) with p by lia. reflexivity. }
      assert (H1' : Rabs (Sr - SFr) <= Wk (INR p) * M).
      { unfold Sr, SFr. rewrite <- (wsum_tl _ Hwr), tl_map. eapply Rle_trans; [apply wsum_abs_le; [exact HM0|]|].
        - destruct w as [|a w0]; [congruence|]. cbn [tl]. exact (Forall_inv_tail Fw).
        - apply Rmult_le_compat_r; [exact HM0|]. apply Wk_mono. split; [apply pos_INR|]. apply le_INR. destruct w; [congruence|cbn [tl length] in *; lia]. }
      destruct (wsum_slide (wma_sum s) (wma_sum_flat s) x (f_ofN c) Sr SFr Es Ef M (INR p) (Wk (INR p)) HM1 HEs HEf Hp1 HWpp Fsm Fsf Fx Fwc Ewc Hsm Hsf Hx H1') as [F' D'].
      { rewrite <- ES'. exact HS'. } { lra. }
      cbv zeta in D'. rewrite <- ES' in D'. fold B in D'. fold Es' in D'.
      exists (wma_sum s - wma_sum_flat s + x * f_ofN c)%float, c. split; [reflexivity|]. split; [exact Ecn|]. split; [exact F'|exact D']. }
  destruct Ebr as (sum' & c' & Ebr & Ec' & Fsum' & Dsum').
  unfold wma_next. rewrite E1, E2, E3. cbn [bind]. cbn [bind] in Ebr. rewrite Ebr. cbn [bind]. rewrite Hrot. fold wp. fold old.
  set (dq' := set_nth (wma_deque s) (N.to_nat (wma_index s)) x) in *.
  set (i' := (if (wma_index s + 1 <? wma_period s)%N then (wma_index s + 1)%N else 0%N)) in *.
  cbn [add sub mul div one two O].
  assert (Hc'r : (0 < c' < 67108864)%N) by (rewrite Ec', Lw'; unfold p in *; lia).
  destruct (wma_den c' Hc'r) as [FD ED]. cbv zeta in FD, ED.
  set (D := (f_ofN c' * (f_ofN c' + 1) / 2)%float) in *.
  assert (Ecr' : IZR (Z.of_N c') = INR (length w')) by (rewrite Ec'; apply INR_N).
  rewrite Ecr' in ED. fold (Wk (INR (length w'))) in ED. fold Dr in ED.
  assert (Hlen1 : 1 <= INR (length w')) by (rewrite Lw'; change 1 with (INR 1); apply le_INR; lia).
  assert (HDr : 1 <= Dr) by (unfold Dr, Wk; nra).
  assert (HEs'0 : 0 <= Es').
  { unfold Es', B. assert (0 <= (Es + Ef) * (1 + u) * (1 + u)) by (apply Rmult_le_pos; [apply Rmult_le_pos; lra|lra]).
    assert (0 <= u * (Wk (INR p) + INR p) * M) by (apply Rmult_le_pos; [apply Rmult_le_pos; lra|lra]). lra. }
  assert (HEs'b : Es' <= 4 * (Es + Ef) + Wk (INR p) * M + 1).
  { unfold Es', B. assert ((Es + Ef) * (1 + u) * (1 + u) <= (Es + Ef) * 2 * 2) by (apply Rmult_le_compat; try lra; [apply Rmult_le_pos; lra|apply Rmult_le_compat_l; lra]).
    assert (u * (Wk (INR p) + INR p) * M <= / 1000 * (2 * Wk (INR p)) * M) by (apply Rmult_le_compat_r; [exact HM0|apply Rmult_le_compat; lra]). nra. }
  assert (HsumB : Rabs (FR sum') <= Wk (INR p) * M + Es') by (replace (FR sum') with ((FR sum' - Sr') + Sr') by ring; eapply Rle_trans; [apply Rabs_triang|]; lra).
  assert (HWM0 : 0 <= Wk (INR p) * M) by (apply Rmult_le_pos; lra).
  assert (HiD : 0 < / Dr <= 1) by (split; [apply Rinv_0_lt_compat; lra|rewrite <- Rinv_1; apply Rinv_le_contravar; lra]).
  destruct (fdiv_err sum' D Fsum') as (Fo & e & n & He & Hn & Ro); [rewrite ED; lra| |].
  { rewrite ED. unfold Rdiv. rewrite Rabs_mult, (Rabs_pos_eq (/ Dr)) by lra. apply Rle_trans with (Rabs (FR sum') * 1); [apply Rmult_le_compat_l; [apply Rabs_pos|lra]|lra]. }
  rewrite ED in Ro.
  exists (mkWma (wma_period s) i' c' (f_ofN c') sum' (wma_sum_flat s - old + x)%float dq'), (sum' / D)%float.
  split; [reflexivity|]. split; [|split; [reflexivity|split; [exact Fo|]]].
  - unfold fwma_inv. cbn [wma_period wma_index wma_count wma_sum wma_sum_flat wma_weight wma_deque]. fold p.
    split; [unfold wf_wma, ring_wf; cbn; unfold i'; pose proof (advance_lt _ _ H3); repeat split; rewrite ?Ec', ?Lw'; unfold p in *; try lia|].
    split; [rewrite E5, Hrot, lastn_padded_snoc by exact Hp; reflexivity|].
    split; [rewrite Ec', Lw', app_length; cbn [length]; reflexivity|]. split; [reflexivity|].
    fold w'. fold SFr' Sr'. split; [exact Fsf'|]. split; [exact Dsf'|]. split; [exact Fsum'|exact Dsum'].
  - assert (Ewm : wmean (map FR w') = Sr' / Dr) by (unfold wmean, Sr', Dr, Wk; rewrite map_length; reflexivity).
    rewrite Ewm, Ro. replace (FR sum' / Dr * (1 + e) + n - Sr' / Dr) with ((FR sum' - Sr') / Dr * (1 + e) + Sr' / Dr * e + n) by (field; lra).
    eapply Rle_trans; [apply Rabs_triang|]. eapply Rle_trans; [apply Rplus_le_compat_r, Rabs_triang|].
    rewrite !Rabs_mult. unfold Rdiv at 1 2. rewrite !Rabs_mult, (Rabs_pos_eq (/ Dr)) by lra.
    assert (P1 : Rabs (FR sum' - Sr') * / Dr * Rabs (1 + e) <= Es' * / Dr * (1 + u)).
    { apply Rmult_le_compat; [apply Rmult_le_pos; [apply Rabs_pos|lra]|apply Rabs_pos| |].
      - apply Rmult_le_compat_r; [lra|exact Dsum'].
      - eapply Rle_trans; [apply Rabs_triang|]. rewrite Rabs_R1. lra. }
    assert (HSD : Rabs Sr' * / Dr <= M).
    { assert (Rabs Sr' <= Dr * M) by (unfold Sr', Dr; apply wsum_abs_le; assumption).
      apply Rle_trans with (Dr * M * / Dr); [apply Rmult_le_compat_r; lra|]. field_simplify; lra. }
    assert (P2 : Rabs Sr' * / Dr * Rabs e <= M * u) by (apply Rmult_le_compat; try assumption; [apply Rmult_le_pos; [apply Rabs_pos|lra]|apply Rabs_pos]).
    unfold Rdiv. lra.
Qed.

(* ---- the whole stream ---- *)
From TA Require Import Proofs.Wiring.
Open Scope R_scope.

Definition wA (p : nat) (M : R) : R := u * (INR p + 1) * M + eta.
Definition wB (p : nat) (M : R) : R := u * (Wk (INR p) + INR p) * M + eta.
Definition wma_bound (M : R) (p T : nat) : R :=
  (4 * INR T * INR T * wA p M + 6 * INR T * wB p M) / Wk (INR (Nat.min T p)) * (1 + u) + u * M + eta.

Lemma mul3_le a b c A B C : 0 <= a <= A -> 0 <= b <= B -> 0 <= c <= C -> a * b * c <= A * B * C.
Proof. intros. apply Rmult_le_compat; try lra; [apply Rmult_le_pos; lra|apply Rmult_le_compat; lra]. Qed.
Lemma mul4_le a b c d A B C D : 0 <= a <= A -> 0 <= b <= B -> 0 <= c <= C -> 0 <= d <= D -> a * b * c * d <= A * B * C * D.
Proof. intros. apply Rmult_le_compat; try lra; [apply Rmult_le_pos; [apply Rmult_le_pos; lra|lra]|apply mul3_le; lra]. Qed.

Lemma fwma_run p M : 1 <= M -> M <= bpow radix2 400 -> (1 <= p)%nat -> INR p < 67108864 ->
  forall xs (s : @Wma float) h Ef Es, N.to_nat (wma_period s) = p ->
  fwma_inv s h Ef Es -> 0 <= Ef -> 0 <= Es ->
  Ef <= 4 * INR (length h) * wA p M -> Es <= 4 * INR (length h) * INR (length h) * wA p M + 6 * INR (length h) * wB p M ->
  Forall (okin M) h -> Forall (okin M) xs -> INR (length h + length xs) * u <= / 64 ->
  Forall2 (fun o hh => finF o /\ Rabs (FR o - wmean (map FR (lastn p hh))) <= wma_bound M p (length hh))
          (res_outs (wma_next O) s xs) (prefixes_from h xs).
Proof.
  intros HM1 HM2 Hp1 Hp26. assert (HM0 : 0 <= M) by lra.
  pose proof u_pos as Hu0. pose proof u_le as Hu1. pose proof eta_pos as He0. pose proof eta_le_u as Heu.
  assert (Hpr : 1 <= INR p) by (change 1 with (INR 1); apply le_INR; exact Hp1).
  assert (HA0 : 0 <= wA p M) by (unfold wA; assert (0 <= u * (INR p + 1) * M) by (apply Rmult_le_pos; [apply Rmult_le_pos; lra|lra]); lra).
  assert (HWk : 1 <= Wk (INR p) <= bpow radix2 53) by (unfold Wk; change (bpow radix2 53) with 9007199254740992; nra).
  assert (HB0 : 0 <= wB p M) by (unfold wB; assert (0 <= u * (Wk (INR p) + INR p) * M) by (apply Rmult_le_pos; [apply Rmult_le_pos; lra|lra]); lra).
  assert (Hu53 : u = bpow radix2 (-53)) by (unfold u; change (- prec + 1)%Z with (-52)%Z; change (/ 2) with (bpow radix2 (-1)); rewrite <- bpow_plus; reflexivity).
  assert (HAb : wA p M <= bpow radix2 375).
  { unfold wA. assert (u * (INR p + 1) * M <= bpow radix2 (-53) * bpow radix2 27 * bpow radix2 400).
    { rewrite Hu53. apply Rmult_le_compat; try lra; [apply Rmult_le_pos; [apply bpow_ge_0|lra]|].
      apply Rmult_le_compat_l; [apply bpow_ge_0|]. change (bpow radix2 27) with 134217728. lra. }
    rewrite <- !bpow_plus in H. change (-53 + 27 + 400)%Z with 374%Z in H.
    assert (eta <= bpow radix2 374) by (unfold eta; apply Rle_trans with (bpow radix2 0); [change (bpow radix2 0) with 1; pose proof eta_le; unfold eta in *; lra|apply bpow_le; lia]).
    change 375%Z with (1 + 374)%Z. rewrite bpow_plus. change (bpow radix2 1) with 2. lra. }
  assert (HBb : wB p M <= bpow radix2 402).
  { unfold wB. assert (u * (Wk (INR p) + INR p) * M <= bpow radix2 (-53) * bpow radix2 54 * bpow radix2 400).
    { rewrite Hu53. apply Rmult_le_compat; try lra; [apply Rmult_le_pos; [apply bpow_ge_0|lra]|].
      apply Rmult_le_compat_l; [apply bpow_ge_0|]. change (bpow radix2 54) with (2 * bpow radix2 53). assert (INR p <= Wk (INR p)) by (unfold Wk; nra). lra. }
    rewrite <- !bpow_plus in H. change (-53 + 54 + 400)%Z with 401%Z in H.
    assert (eta <= bpow radix2 401) by (apply Rle_trans with (bpow radix2 0); [change (bpow radix2 0) with 1; pose proof eta_le; lra|apply bpow_le; lia]).
    change 402%Z with (1 + 401)%Z. rewrite bpow_plus. change (bpow radix2 1) with 2. lra. }
  induction xs as [|x xs IH]; intros s h Ef Es Hper Hinv HEf HEs HEfb HEsb Hh Hxs Htu; [constructor|].
  pose proof (Forall_inv Hxs) as Hx. pose proof (Forall_inv_tail Hxs) as Hxs'.
  set (t := length h) in *. set (T := INR t) in *.
  assert (HT0 : 0 <= T) by (unfold T; apply pos_INR).
  assert (Htu' : (T + 1) * u <= / 64).
  { unfold T. rewrite <- S_INR. eapply Rle_trans; [|exact Htu]. apply Rmult_le_compat_r; [lra|]. apply le_INR. cbn [length]. lia. }
  assert (HT47 : T + 1 <= bpow radix2 47).
  { rewrite Hu53 in Htu'. apply Rmult_le_reg_r with (bpow radix2 (-53)); [apply bpow_gt_0|]. rewrite <- bpow_plus. change (47 + -53)%Z with (-6)%Z. change (bpow radix2 (-6)) with (/ 64). exact Htu'. }
  assert (HTu : T * u <= / 64) by nra.
  assert (HEf500 : Ef <= bpow radix2 500).
  { eapply Rle_trans; [exact HEfb|]. apply Rle_trans with (bpow radix2 2 * bpow radix2 47 * bpow radix2 375); [|rewrite <- !bpow_plus; apply bpow_le; lia].
    change (bpow radix2 2) with 4. apply mul3_le; lra. }
  assert (HEs500 : Es <= bpow radix2 500).
  { eapply Rle_trans; [exact HEsb|]. apply Rle_trans with (bpow radix2 2 * bpow radix2 47 * bpow radix2 47 * bpow radix2 375 + bpow radix2 3 * bpow radix2 47 * bpow radix2 402).
    - apply Rplus_le_compat; [change (bpow radix2 2) with 4; apply mul4_le; lra|change (bpow radix2 3) with 8; apply mul3_le; lra].
    - rewrite <- !bpow_plus. assert (bpow radix2 (2 + 47 + 47 + 375) <= bpow radix2 499) by (apply bpow_le; lia).
      assert (bpow radix2 (3 + 47 + 402) <= bpow radix2 499) by (apply bpow_le; lia).
      assert (E500 : bpow radix2 500 = 2 * bpow radix2 499) by (change 500%Z with (1 + 499)%Z; rewrite (bpow_plus radix2 1 499); reflexivity). rewrite E500. lra. }
  assert (Hp26N : (wma_period s < 67108864)%N).
  { assert (Hz : IZR (Z.of_N (wma_period s)) < IZR 67108864) by (rewrite <- N_nat_Z, <- INR_IZR_INZ, Hper; exact Hp26).
    apply lt_IZR in Hz. lia. }
  destruct (fwma_step s h x M Ef Es HM1 HM2 HEf HEs HEf500 HEs500 Hinv Hh Hx Hp26N) as (s' & o & En & Hinv' & Hp' & Fo & Ho).
  rewrite Hper in *. fold t in Hinv', Ho.
  set (k := INR (Nat.min t p)) in *.
  set (Ef' := Ef * (1 + u) * (1 + u) + 3 * (u * (k + 1) * M + eta)) in *.
  set (Es' := (Es + Ef) * (1 + u) * (1 + u) + 5 * (u * (Wk (INR p) + INR p) * M + eta)) in *.
  fold (wB p M) in Es'.
  assert (Hkp : k <= INR p) by (unfold k; apply le_INR; lia).
  assert (HAk : u * (k + 1) * M + eta <= wA p M).
  { unfold wA. apply Rplus_le_compat_r. apply Rmult_le_compat_r; [exact HM0|]. apply Rmult_le_compat_l; lra. }
  assert (H1u : (1 + u) * (1 + u) <= 1 + 3 * u) by nra.
  assert (HEf' : Ef' <= 4 * (T + 1) * wA p M).
  { unfold Ef'. assert (Ef * (1 + u) * (1 + u) <= Ef * (1 + 3 * u)) by (rewrite Rmult_assoc; apply Rmult_le_compat_l; assumption).
    assert (Ef * (3 * u) <= 4 * T * wA p M * (3 * u)) by (apply Rmult_le_compat_r; lra).
    assert (4 * T * wA p M * (3 * u) = 12 * (T * u) * wA p M) by ring.
    assert (12 * (T * u) * wA p M <= 12 * / 64 * wA p M) by (apply Rmult_le_compat_r; lra). lra. }
  assert (HEf'0 : 0 <= Ef').
  { unfold Ef'. assert (0 <= Ef * (1 + u) * (1 + u)) by (apply Rmult_le_pos; [apply Rmult_le_pos; lra|lra]).
    assert (0 <= u * (k + 1) * M) by (apply Rmult_le_pos; [apply Rmult_le_pos; [lra|unfold k; pose proof (pos_INR (Nat.min t p)); lra]|lra]). lra. }
  assert (HEs'0 : 0 <= Es') by (unfold Es'; assert (0 <= (Es + Ef) * (1 + u) * (1 + u)) by (apply Rmult_le_pos; [apply Rmult_le_pos; lra|lra]); lra).
  assert (HEs' : Es' <= 4 * (T + 1) * (T + 1) * wA p M + 6 * (T + 1) * wB p M).
  { unfold Es'. set (a := wA p M) in *. set (b := wB p M) in *.
    assert (X0 : (Es + Ef) * (1 + u) * (1 + u) <= (Es + Ef) * (1 + 3 * u)) by (rewrite Rmult_assoc; apply Rmult_le_compat_l; lra).
    set (Q := 4 * T * T * a + 6 * T * b + 4 * T * a).
    assert (XQ : Es + Ef <= Q) by (unfold Q; lra).
    assert (HQ0 : 0 <= Q) by lra.
    assert (X1 : (Es + Ef) * (3 * u) <= Q * (3 * u)) by (apply Rmult_le_compat_r; lra).
    assert (X2 : Q * (3 * u) = 12 * (T * u) * (T * a) + 18 * (T * u) * b + 12 * (T * u) * a) by (unfold Q; ring).
    assert (HTa : 0 <= T * a) by (apply Rmult_le_pos; lra).
    assert (X3 : 12 * (T * u) * (T * a) <= 12 * / 64 * (T * a)) by (apply Rmult_le_compat_r; lra).
    assert (X4 : 18 * (T * u) * b <= 18 * / 64 * b) by (apply Rmult_le_compat_r; lra).
    assert (X5 : 12 * (T * u) * a <= 12 * / 64 * a) by (apply Rmult_le_compat_r; lra).
    replace (4 * (T + 1) * (T + 1) * a) with (4 * T * T * a + 8 * (T * a) + 4 * a) by ring.
    replace (6 * (T + 1) * b) with (6 * T * b + 6 * b) by ring.
    replace ((Es + Ef) * (1 + 3 * u)) with ((Es + Ef) + (Es + Ef) * (3 * u)) in X0 by ring.
    replace (4 * T * a) with (4 * (T * a)) in * by ring. unfold Q in XQ. lra. }
  assert (Lh : length (h ++ [x]) = S t) by (rewrite app_length; cbn; unfold t; lia).
  assert (ET1 : INR (S t) = T + 1) by (rewrite S_INR; reflexivity).
  cbn [res_outs]. rewrite En. cbn [prefixes_from]. constructor.
  - split; [exact Fo|]. eapply Rle_trans; [exact Ho|]. unfold wma_bound. rewrite Lh, ET1.
    rewrite lastn_length, Lh. rewrite (Nat.min_comm p (S t)).
    set (Dr := Wk (INR (Nat.min (S t) p))).
    assert (HDr : 1 <= Dr). { unfold Dr, Wk. assert (1 <= INR (Nat.min (S t) p)) by (change 1 with (INR 1); apply le_INR; lia). nra. }
    apply Rplus_le_compat_r. apply Rplus_le_compat_r. apply Rmult_le_compat_r; [lra|].
    apply Rmult_le_compat_r; [apply Rlt_le, Rinv_0_lt_compat; lra|]. exact HEs'.
  - apply (IH s' (h ++ [x]) Ef' Es'); try assumption.
    + rewrite Hp'. exact Hper.
    + rewrite Lh, ET1. exact HEf'.
    + rewrite Lh, ET1. exact HEs'.
    + apply Forall_app. split; [exact Hh|constructor; [exact Hx|constructor]].
    + rewrite Lh. eapply Rle_trans; [|exact Htu]. apply Rmult_le_compat_r; [lra|]. apply le_INR. cbn [length]. unfold t. lia.
Qed.

(* binary64 WeightedMovingAverage against the exact weighted mean of the last min(t,n) inputs: periods below 2^26, up to 2^47 inputs *)
Theorem wma_float_error : forall p s xs M, wma_new O p = Ok s -> (p < 67108864)%N ->
  1 <= M -> M <= bpow radix2 400 -> Forall (okin M) xs -> INR (length xs) * u <= / 64 ->
  Forall2 (fun o hh => finF o /\ Rabs (FR o - wmean (map FR (lastn (N.to_nat p) hh))) <= wma_bound M (N.to_nat p) (length hh))
          (res_outs (wma_next O) s xs) (prefixes_from [] xs).
Proof.
  intros p s xs M H Hp HM1 HM2 Hxs Ht. pose proof (wma_new_inv O p s H) as (Hp0 & _ & _ & Pe).
  assert (Hpr : INR (N.to_nat p) < 67108864) by (rewrite INR_IZR_INZ, N_nat_Z; apply IZR_lt; lia).
  apply (fwma_run (N.to_nat p) M HM1 HM2 ltac:(lia) Hpr xs s [] 0 0); try assumption; try lra.
  - now rewrite Pe.
  - apply (fwma_inv_new p s H).
  - cbn [length INR]. lra.
  - cbn [length INR]. lra.
  - constructor.
Qed.

(* once the window is full the bound is (9 t^2 / n + 13 t + 1) u M + (5 t^2 + 7 t + 1) eta: quadratic in t *)
Lemma wma_bound_full M p T : 1 <= M -> (1 <= p <= T)%nat ->
  wma_bound M p T <= (9 * INR T * INR T / INR p + 13 * INR T + 1) * u * M + (5 * INR T * INR T + 7 * INR T + 1) * eta.
Proof.
  intros HM1 [Hp HpT]. unfold wma_bound, wA, wB. rewrite Nat.min_r by exact HpT.
  pose proof u_pos as Hu0. pose proof u_le as Hu1. pose proof eta_pos as He0.
  set (t := INR T). set (n := INR p).
  assert (Hn : 1 <= n) by (unfold n; change 1 with (INR 1); apply le_INR; exact Hp).
  assert (Ht : n <= t) by (unfold n, t; apply le_INR; exact HpT).
  assert (HW : 0 < Wk n) by (unfold Wk; nra).
  assert (HuM : 0 <= u * M) by (apply Rmult_le_pos; lra).
  assert (E1 : (u * (n + 1) * M + eta) / Wk n = 2 * (u * M) / n + 2 * eta / (n * (n + 1))) by (unfold Wk; field; lra).
  assert (E2 : (u * (Wk n + n) * M + eta) / Wk n = u * M * (1 + 2 / (n + 1)) + 2 * eta / (n * (n + 1))) by (unfold Wk; field; lra).
  assert (Hq : 2 * eta / (n * (n + 1)) <= eta).
  { unfold Rdiv. rewrite <- (Rmult_1_r eta) at 2. replace (2 * eta * / (n * (n + 1))) with (eta * (2 * / (n * (n + 1)))) by ring.
    apply Rmult_le_compat_l; [lra|]. apply Rmult_le_reg_r with (n * (n + 1)); [nra|]. rewrite Rmult_assoc, Rinv_l by nra. nra. }
  assert (Hr : 2 / (n + 1) <= 1) by (unfold Rdiv; apply Rmult_le_reg_r with (n + 1); [lra|]; rewrite Rmult_assoc, Rinv_l by lra; lra).
  assert (Hmain : (4 * t * t * (u * (n + 1) * M + eta) + 6 * t * (u * (Wk n + n) * M + eta)) / Wk n
                  <= 8 * t * t / n * (u * M) + 4 * t * t * eta + 12 * t * (u * M) + 6 * t * eta).
  { replace ((4 * t * t * (u * (n + 1) * M + eta) + 6 * t * (u * (Wk n + n) * M + eta)) / Wk n)
      with (4 * t * t * ((u * (n + 1) * M + eta) / Wk n) + 6 * t * ((u * (Wk n + n) * M + eta) / Wk n)) by (field; lra).
    rewrite E1, E2.
    assert (0 <= t) by lra. assert (0 <= t * t) by nra.
    assert (A1 : 4 * t * t * (2 * (u * M) / n + 2 * eta / (n * (n + 1))) <= 4 * t * t * (2 * (u * M) / n + eta)) by (apply Rmult_le_compat_l; [nra|lra]).
    assert (A2 : 6 * t * (u * M * (1 + 2 / (n + 1)) + 2 * eta / (n * (n + 1))) <= 6 * t * (u * M * 2 + eta)).
    { apply Rmult_le_compat_l; [lra|]. assert (u * M * (1 + 2 / (n + 1)) <= u * M * 2) by (apply Rmult_le_compat_l; lra). lra. }
    replace (8 * t * t / n * (u * M)) with (4 * t * t * (2 * (u * M) / n)) by (field; lra). lra. }
  set (X := (4 * t * t * (u * (n + 1) * M + eta) + 6 * t * (u * (Wk n + n) * M + eta)) / Wk n) in *.
  assert (HX0 : 0 <= X).
  { unfold X. apply Rmult_le_pos; [|apply Rlt_le, Rinv_0_lt_compat; exact HW].
    assert (0 <= u * (n + 1) * M) by (apply Rmult_le_pos; [apply Rmult_le_pos; lra|lra]).
    assert (0 <= u * (Wk n + n) * M) by (apply Rmult_le_pos; [apply Rmult_le_pos; lra|lra]). assert (0 <= t * t) by nra. nra. }
  assert (HXu : X * (1 + u) <= X + X / 1000) by nra.
  assert (Htt : 0 <= t * t / n) by (apply Rmult_le_pos; [nra|apply Rlt_le, Rinv_0_lt_compat; lra]).
  replace (9 * t * t / n) with (9 * (t * t / n)) by (field; lra). replace (8 * t * t / n * (u * M)) with (8 * (t * t / n) * (u * M)) in Hmain by (field; lra).
  assert (0 <= t * t / n * (u * M)) by (apply Rmult_le_pos; assumption).
  assert (0 <= t * (u * M)) by (apply Rmult_le_pos; lra). assert (0 <= t * t * eta) by (apply Rmult_le_pos; nra). assert (0 <= t * eta) by (apply Rmult_le_pos; lra).
  nra.
Qed.
