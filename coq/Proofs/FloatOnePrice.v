(* C10 on binary64, bit-exact: TrueRange and AverageTrueRange fed a one-price bar (high = low = close = x) take exactly the step
   of their scalar path on x, for every finite x and finite previous close: x - x is +0.0, |.| is never -0.0, and
   max(max(+0.0, a), a) = a for every a that is +0.0, positive or +infinity. *)
From Coq Require Import Reals Lra Lia ZArith List Floats.
From Flocq Require Import Core BinarySingleNaN PrimFloat.
From TA Require Import Base Model FloatInst Proofs.Wiring Proofs.OnePrice Proofs.FloatErr.
Import ListNotations.
Local Notation O := FOps.
Local Notation float := PrimFloat.float.
Local Notation B := (binary_float prec emax).

Lemma B_zero_of (b : B) : is_finite b = true -> B2R b = 0%R -> Bsign b = false -> b = B754_zero false.
Proof.
  destruct b as [s|s| |s m e Hb]; cbn; try discriminate.
  - intros _ _ ->. reflexivity.
  - intros _ H _. exfalso. apply eq_0_F2R in H. cbn in H. destruct s; discriminate.
Qed.

Lemma sub_self (x : float) : finF x -> (x - x)%float = 0%float.
Proof.
  intros Fx. apply Prim2B_inj. rewrite sub_equiv. unfold finF in Fx.
  pose proof (Bminus_correct prec emax Hprec Hmax mode_NE (Prim2B x) (Prim2B x) Fx Fx) as H.
  rewrite Rminus_diag_eq in H by reflexivity. rewrite round_0 in H by apply valid_rnd_round_mode.
  rewrite Rabs_R0, Rlt_bool_true in H by apply bpow_gt_0. destruct H as (E & Fin & S).
  rewrite Rcompare_Eq in S by reflexivity. cbn in S.
  change (Prim2B 0) with (B754_zero false : B). apply B_zero_of; [exact Fin|exact E|].
  rewrite S. destruct (Bsign (Prim2B x)); reflexivity.
Qed.

(* the values |d| can take: +0.0, a positive finite float, +infinity — or NaN when d is NaN *)
Definition absval (a : float) : Prop :=
  match Prim2B a with B754_zero false | B754_infinity false | B754_finite false _ _ _ => True | _ => False end.

Lemma abs_absval (d : float) : Prim2B d <> B754_nan -> absval (PrimFloat.abs d).
Proof. unfold absval. rewrite abs_equiv. destruct (Prim2B d) as [s|s| |s m e H]; cbn; try exact (fun _ => I). congruence. Qed.

Lemma fmax_zero_l (a : float) : absval a -> fmax O 0%float a = a.
Proof.
  unfold absval, fmax. cbn [ltb eqb O]. rewrite ltb_equiv, eqb_equiv. intros Ha.
  change (Prim2B 0) with (B754_zero false : B).
  destruct (Prim2B a) as [s|s| |s m e H] eqn:E; try contradiction; destruct s; try contradiction.
  - (* a = +0.0 *) cbn. apply Prim2B_inj. rewrite E. reflexivity.
  - reflexivity.
  - reflexivity.
Qed.

Lemma fmax_self (a : float) : absval a -> fmax O a a = a.
Proof.
  unfold absval, fmax. cbn [ltb eqb O]. rewrite ltb_equiv, eqb_equiv. intros Ha.
  destruct (Prim2B a) as [s|s| |s m e H] eqn:E; try contradiction; destruct s; try contradiction; cbn; try reflexivity.
  - unfold Bltb, SFltb, Beqb, SFeqb. cbn. rewrite Z.compare_refl, Pos.compare_cont_refl. reflexivity.
Qed.

Lemma finite_sub_not_nan (x y : float) : finF x -> finF y -> Prim2B (x - y)%float <> B754_nan.
Proof.
  intros Fx Fy. rewrite sub_equiv. unfold finF in *.
  pose proof (Bminus_correct prec emax Hprec Hmax mode_NE (Prim2B x) (Prim2B y) Fx Fy) as H.
  destruct (Rlt_bool _ _) in H.
  - destruct H as (_ & Fin & _). intros Z. rewrite Z in Fin. discriminate.
  - destruct H as (Hov & _). intros Z. rewrite Z in Hov. cbn in Hov. unfold binary_overflow in Hov. cbn in Hov. discriminate.
Qed.

Definition fin_trF (t : @Tr float) : Prop := match tr_prev_close t with Some pc => finF pc | None => True end.

Theorem tr_one_price_binary64 : forall (t : @Tr float) o v x, fin_trF t -> finF x ->
  tr_next_bar O t (one_bar o v x) = tr_next O t x.
Proof.
  intros t o v x Ht Fx. unfold tr_next_bar, tr_next, one_bar, fin_trF in *. cbn [b_high b_low b_close].
  destruct (tr_prev_close t) as [pc|].
  - f_equal. cbn [sub abs O]. rewrite (sub_self x Fx). unfold max3.
    pose proof (abs_absval (x - pc)%float (finite_sub_not_nan x pc Fx Ht)) as Ha.
    rewrite (fmax_zero_l _ Ha), (fmax_self _ Ha). reflexivity.
  - f_equal. cbn [sub zero O]. apply sub_self. exact Fx.
Qed.

Theorem atr_one_price_binary64 : forall (a : @Atr float) o v x, fin_trF (atr_true_range a) -> finF x ->
  atr_next_bar O a (one_bar o v x) = atr_next O a x.
Proof. intros a o v x Ht Fx. unfold atr_next_bar, atr_next. rewrite tr_one_price_binary64 by assumption. reflexivity. Qed.

(* whole streams from fresh instances: bit-identical outputs on every stream of finite prices *)
Lemma tr_one_stream_binary64 : forall xs (t : @Tr float) o v, fin_trF t -> Forall finF xs ->
  tr_bar_outs O t (map (fun x => one_bar o v x) xs) = tr_outs O t xs.
Proof.
  induction xs as [|x xs IH]; intros t o v Ht Hxs; [reflexivity|]. cbn [map tr_bar_outs tr_outs].
  pose proof (Forall_inv Hxs) as Fx. pose proof (Forall_inv_tail Hxs) as Hxs'.
  rewrite tr_one_price_binary64 by assumption. destruct (tr_next O t x) as [t' d] eqn:E. f_equal.
  apply IH; [|exact Hxs']. unfold tr_next in E. injection E as <- _. exact Fx.
Qed.

Theorem atr_one_stream_binary64 : forall p a xs o v, atr_new O p = Ok a -> Forall finF xs ->
  atr_bar_outs O a (map (fun x => one_bar o v x) xs) = atr_outs O a xs.
Proof.
  intros p a xs o v H Hxs. unfold atr_new in H. destruct (ema_new O p) as [e| |]; cbn in H; try discriminate. injection H as <-.
  rewrite atr_bar_wiring, atr_wiring. f_equal. apply tr_one_stream_binary64; [exact I|exact Hxs].
Qed.
