(* Par/Oracle.v — what the T2 correspondence compares the implementation with IS the object of the
   X-theorems: for every operation sequence over binary64 inputs, the observations of the exact
   rational run (evaluated by vm_compute in the checks) are the images, under the embedding Q -> R,
   of the observations of the exact real run the X-theorems are stated about. StandardDeviation and
   BollingerBands are related through the variance model (Var.v): same states, output radicand. *)
From Coq Require Import Reals QArith NArith List Bool Floats.
From TA Require Import Base Model Generic FloatInst XQ XR Run Run2.
From TA.Par Require Import Rel Hom Var.
Import ListNotations.

Definition f2xr (x : float) : XR := q2x (f2xq x).

Lemma qop_map o : qop o = map_op f2xq o.
Proof. destruct o; reflexivity. Qed.

Lemma map_op_comp {A B C} (f : A -> B) (g : B -> C) (o : @op A) :
  map_op g (map_op f o) = map_op (fun x => g (f x)) o.
Proof.
  destruct o as [s k p|s k|s x|s b|s b|s|s d|s|s|s|calls]; cbn [map_op]; try reflexivity.
  f_equal. rewrite map_map. reflexivity.
Qed.

Definition no_sqrt_kind {A} (o : @op A) : bool :=
  match o with ONew _ k _ | ODef _ k => negb (uses_sqrt k) | _ => true end.

Lemma no_sqrt_map {A} (f : A -> XR) (o : @op A) : no_sqrt_op (map_op f o) = no_sqrt_kind o.
Proof. destruct o; reflexivity. Qed.

(* every indicator: exact rational run = image of the exact real run in the variance model *)
Theorem t2_oracle_variance (fops : list (@op float)) :
  snd (run XRvOps [] (map (map_op f2xr) fops)) = map (map_obs q2x) (snd (run XQOps [] (map qop fops))).
Proof.
  rewrite <- run_hom. f_equal. f_equal. rewrite map_map. apply map_ext. intros o.
  rewrite qop_map, map_op_comp. reflexivity.
Qed.

(* every indicator but SD/BB: the same with the real instance itself *)
Theorem t2_oracle (fops : list (@op float)) :
  forallb no_sqrt_kind fops = true ->
  snd (run XROps [] (map (map_op f2xr) fops)) = map (map_obs q2x) (snd (run XQOps [] (map qop fops))).
Proof.
  intros H. rewrite <- t2_oracle_variance. f_equal. symmetry. apply run_v; [apply nosq_nil|].
  rewrite forallb_forall in *. intros o Ho. apply in_map_iff in Ho as (o' & <- & Hi).
  rewrite no_sqrt_map. now apply H.
Qed.

Check t2_oracle : forall fops : list (@op float), forallb no_sqrt_kind fops = true ->
  snd (run XROps [] (map (map_op f2xr) fops)) = map (map_obs q2x) (snd (run XQOps [] (map qop fops))).
Print Assumptions t2_oracle.
Print Assumptions t2_oracle_variance.
