(* C15 — Composite indicators agree with wiring their public building blocks by hand. Statements only.
   All equalities below are between output streams computed by the standalone definitions, for every
   number type — so they hold bit-for-bit for binary64, with no tolerance. *)
From TA Require Import Base Model Proofs.Wiring.

Theorem C15_atr : forall (F : Type) (O : Ops F) xs bs (tr : @Tr F) (e : @Ema F),
  atr_outs O (mkAtr tr e) xs = ema_outs O e (tr_outs O tr xs) /\
  atr_bar_outs O (mkAtr tr e) bs = ema_outs O e (tr_bar_outs O tr bs).
Proof. intros. split; [apply atr_wiring|apply atr_bar_wiring]. Qed.

Theorem C15_slow : forall (F : Type) (O : Ops F) xs bs (f : @Fast F) (e : @Ema F),
  slow_outs O (mkSlow f e) xs = ema_outs O e (fast_outs O f xs) /\
  slow_bar_outs O (mkSlow f e) bs = ema_outs O e (fast_bar_outs O f bs).
Proof. intros. split; [apply slow_wiring|apply slow_bar_wiring]. Qed.

Theorem C15_macd : forall (F : Type) (O : Ops F) xs (f s g : @Ema F),
  macd_outs O (mkMacd f s g) xs =
  (let line := map2 (sub O) (ema_outs O f xs) (ema_outs O s xs) in
   map2 (fun l sg => [l; sg; sub O l sg]) line (ema_outs O g line)).
Proof. intros. apply macd_wiring. Qed.

Theorem C15_ppo : forall (F : Type) (O : Ops F) xs (f s g : @Ema F),
  ppo_outs O (mkPpo f s g) xs =
  (let line := map2 (fun a b => mul O (div O (sub O a b) b) (c100 O)) (ema_outs O f xs) (ema_outs O s xs) in
   map2 (fun l sg => [l; sg; sub O l sg]) line (ema_outs O g line)).
Proof. intros. apply ppo_wiring. Qed.

Theorem C15_kc : forall (F : Type) (O : Ops F) xs bs p m (a : @Atr F) (e : @Ema F),
  kc_outs O (mkKc p m a e) xs = map2 (bands O m) (ema_outs O e xs) (atr_outs O a xs) /\
  kc_bar_outs O (mkKc p m a e) bs = map2 (bands O m) (ema_outs O e (map (typical O) bs)) (atr_bar_outs O a bs).
Proof. intros. split; [apply kc_wiring|apply kc_bar_wiring]. Qed.

Theorem C15_ce : forall (F : Type) (O : Ops F) bs (a : @Atr F) mn mx m,
  ce_outs O (mkCe a mn mx m) bs =
  map3 (fun at_ lo hi => [sub O hi (mul O at_ m); add O lo (mul O at_ m)])
       (atr_bar_outs O a bs) (min_outs' O mn (map b_low bs)) (max_outs' O mx (map b_high bs)).
Proof. intros. apply ce_wiring. Qed.

(* half-width = multiplier * StandardDeviation of the same period; the middle band is the running mean of that
   StandardDeviation (equal to the SimpleMovingAverage in exact arithmetic: see C01 / XSd) *)
Theorem C15_bb : forall (F : Type) (O : Ops F) xs p m (sd : @Sd F),
  bb_outs O (mkBb p m sd) xs =
  map (fun '(mean, dev) => [mean; add O mean (mul O dev m); sub O mean (mul O dev m)]) (sd_mean_outs O sd xs) /\
  map snd (sd_mean_outs O sd xs) = sd_outs O sd xs.
Proof. intros. split; [apply bb_wiring|apply sd_mean_outs_snd]. Qed.

Theorem C15_cci : forall (F : Type) (O : Ops F) bs (sm : @Sma F) (md : @Mad F),
  cci_outs O (mkCci sm md) bs =
  map3 (fun tp sma mad => if eqb O mad (zero O) then zero O else div O (sub O tp sma) (mul O mad (c0_015 O)))
       (map (typical O) bs) (sma_outs' O sm (map (typical O) bs)) (mad_outs O md (map (typical O) bs)).
Proof. intros. apply cci_wiring. Qed.

(* exact arithmetic: BollingerBands.average is SimpleMovingAverage of the same period on every stream *)
From Coq Require Import Reals.
From TA Require Import XR Proofs.XBase Proofs.XSma Proofs.XSd.
Theorem C15_bb_average_is_sma : forall p mu b s xs, bb_new XROps p (Fin mu) = Ok b -> sma_new XROps p = Ok s ->
  map (fun o => hd XNaN o) (XSd.bb_outs b (map Fin xs)) = sma_outs s (map Fin xs).
Proof. exact bb_average_is_sma. Qed.
