(* C14 on binary64, whole streams: ExponentialMovingAverage fed 2^k x returns 2^k EMA(x) bit for bit (as values), for every stream along
   which the three intermediate results of each update — k*x, (1-k)*prev and their sum — are zero or normal before and after the scaling
   and below 2^1000. The smoothing factor k and 1 - k are dimensionless: they are the same floats in both runs. *)
From Coq Require Import Reals Lra Lia ZArith List Floats.
From Flocq Require Import Core.
From TA Require Import Base Model FloatInst Proofs.Wiring Proofs.FloatErr Proofs.FloatFast Proofs.FloatScale.
Import ListNotations.
Local Notation O := FOps.
Local Notation float := PrimFloat.float.
Open Scope R_scope.

(* multiplication of a scaled quantity by an unscaled (dimensionless) finite float *)
Theorem fmul_scale_by k (c a a' : float) : finF c -> scaled k a a' ->
  Rabs (FR c * FR a) <= BIG -> Rabs ((FR c * FR a) * bpow radix2 k) <= BIG -> zero_or_normal k (FR c * FR a) ->
  scaled k (c * a)%float (c * a')%float.
Proof.
  intros Fc (Fa & Fa' & Ea) H1 H2 Hz.
  destruct (fmul_exact c a Fc Fa H1) as [F1 E1].
  assert (Eq : FR c * FR a' = (FR c * FR a) * bpow radix2 k) by (rewrite Ea; ring).
  destruct (fmul_exact c a' Fc Fa') as [F2 E2]; [rewrite Eq; exact H2|].
  split; [exact F1|]. split; [exact F2|]. rewrite E2, E1, Eq. apply RN_mult_bpow0. exact Hz.
Qed.

Definition rel_ema (k : Z) (s s' : @Ema float) : Prop :=
  ema_period s = ema_period s' /\ ema_k s = ema_k s' /\ ema_is_new s = ema_is_new s' /\ scaled k (ema_current s) (ema_current s').

Definition ema_step_ok (k : Z) (s : @Ema float) (x : float) : Prop :=
  ema_is_new s = false ->
  let kf := ema_k s in let ck := (1 - kf)%float in
  let t1 := (kf * x)%float in let t2 := (ck * ema_current s)%float in
  finF kf /\ finF ck /\
  Rabs (FR kf * FR x) <= BIG /\ Rabs ((FR kf * FR x) * bpow radix2 k) <= BIG /\ zero_or_normal k (FR kf * FR x) /\
  Rabs (FR ck * FR (ema_current s)) <= BIG /\ Rabs ((FR ck * FR (ema_current s)) * bpow radix2 k) <= BIG /\ zero_or_normal k (FR ck * FR (ema_current s)) /\
  Rabs (FR t1 + FR t2) <= BIG /\ Rabs ((FR t1 + FR t2) * bpow radix2 k) <= BIG /\ zero_or_normal k (FR t1 + FR t2).

Lemma ema_step_pow2 k s s' x x' : rel_ema k s s' -> scaled k x x' -> ema_step_ok k s x ->
  rel_ema k (fst (ema_next O s x)) (fst (ema_next O s' x')) /\ scaled k (snd (ema_next O s x)) (snd (ema_next O s' x')).
Proof.
  intros (Ep & Ek & En & Sc) Sx Hok. unfold ema_next. rewrite <- En, <- Ek, <- Ep.
  destruct (ema_is_new s) eqn:Enew; cbn [fst snd].
  - split; [repeat split; cbn [ema_period ema_k ema_is_new ema_current]; try reflexivity; apply Sx|exact Sx].
  - destruct (Hok Enew) as (Fk & Fck & A1 & A2 & A3 & B1 & B2 & B3 & C1 & C2 & C3).
    cbn [add sub mul one O] in *.
    pose proof (fmul_scale_by k (ema_k s) x x' Fk Sx A1 A2 A3) as S1.
    pose proof (fmul_scale_by k (1 - ema_k s)%float (ema_current s) (ema_current s') Fck Sc B1 B2 B3) as S2.
    pose proof (fadd_scale k _ _ _ _ S1 S2 C1 C2 C3) as S3.
    split; [repeat split; cbn [ema_period ema_k ema_is_new ema_current]; try reflexivity; apply S3|exact S3].
Qed.

Fixpoint ema_run_ok (k : Z) (s : @Ema float) (xs : list float) : Prop :=
  match xs with [] => True | x :: xs => ema_step_ok k s x /\ ema_run_ok k (fst (ema_next O s x)) xs end.

Theorem ema_stream_pow2 k : forall xs xs' s s', rel_ema k s s' -> Forall2 (scaled k) xs xs' -> ema_run_ok k s xs ->
  Forall2 (scaled k) (ema_outs O s xs) (ema_outs O s' xs').
Proof.
  induction xs as [|x xs IH]; intros xs' s s' Hr Hx Hok; inversion Hx as [|? x' ? xs2 Sx Hx']; subst; cbn [ema_outs]; [constructor|].
  destruct Hok as [Hs Hn]. destruct (ema_step_pow2 k s s' x x' Hr Sx Hs) as [Hr' So].
  destruct (ema_next O s x) as [s1 o]. destruct (ema_next O s' x') as [s1' o']. cbn [fst snd] in *.
  constructor; [exact So|]. apply IH; assumption.
Qed.

Lemma rel_ema_refl_new k p s : ema_new O p = Ok s -> rel_ema k s s.
Proof.
  intros H. unfold ema_new in H. destruct (p =? 0)%N; [discriminate|]. injection H as <-.
  repeat split; cbn [ema_period ema_k ema_is_new ema_current]; try reflexivity. cbn [zero O]. rewrite FR_zero. ring.
Qed.

Theorem ema_pow2_covariant k p s xs xs' : ema_new O p = Ok s -> Forall2 (scaled k) xs xs' -> ema_run_ok k s xs ->
  Forall2 (scaled k) (ema_outs O s xs) (ema_outs O s xs').
Proof. intros H Hx Hok. apply (ema_stream_pow2 k xs xs' s s); [apply (rel_ema_refl_new k p); exact H|exact Hx|exact Hok]. Qed.

(* non-vacuity: EMA(1) (k = 1, 1 - k = 0) on 1.5, 2.5 with the scaling 2^3: k*x = 2.5 and the sum are normal, (1-k)*prev is a zero *)
Example ema_run_ok_example : exists s, ema_new O 1 = Ok s /\ ema_run_ok 3 s [1.5%float; 2.5%float].
Proof.
  eexists. split; [reflexivity|].
  assert (F25 : FR 2.5%float = 2.5) by (unfold FR; cbn; unfold F2R; cbn; lra).
  assert (F15 : FR 1.5%float = 1.5) by (unfold FR; cbn; unfold F2R; cbn; lra).
  assert (B3 : bpow radix2 3 = 8) by (cbn; lra).
  assert (Hn : nmin <= 1) by (unfold nmin; change 1 with (bpow radix2 0); apply bpow_le; lia).
  assert (HB : 32 <= BIG) by (unfold BIG; change 32 with (bpow radix2 5); apply bpow_le; lia).
  cbn [ema_run_ok]. split; [intros Hnew; cbn in Hnew; discriminate|].
  split; [|exact I].
  intros _. cbn zeta.
  match goal with |- context [ema_next O ?s0 1.5%float] => set (s1 := fst (ema_next O s0 1.5%float)) end.
  assert (E1 : ema_k s1 = 1%float) by reflexivity. assert (E2 : ema_current s1 = 1.5%float) by reflexivity.
  rewrite E1, E2. clearbody s1.
  change (1 - 1)%float with 0%float. change (1 * 2.5)%float with 2.5%float. change (0 * 1.5)%float with 0%float.
  rewrite FR_one, FR_zero, F25, F15, B3.
  replace (1 * 2.5) with 2.5 by ring. replace (0 * 1.5) with 0 by ring. replace (2.5 + 0) with 2.5 by ring.
  assert (A1 : Rabs 2.5 = 2.5) by (apply Rabs_pos_eq; lra). assert (A2 : Rabs (2.5 * 8) = 20) by (rewrite Rabs_pos_eq; lra).
  unfold zero_or_normal. rewrite B3, Rmult_0_l, Rabs_R0, A1, A2.
  repeat split; try reflexivity; try lra; try (left; reflexivity); try (right; lra).
Qed.
