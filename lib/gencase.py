# Long streams generated identically by the harness (gen.rs) and by the Coq model (Gen.v): only the generator
# parameters, the outputs at checkpoints and a hash of all outputs are exchanged.
import os
import re
import subprocess
from concurrent.futures import ThreadPoolExecutor
from common import *  # noqa


class GenCase:
    def __init__(self, cid, ind, params, gen, seed, length, a, b, every, bars, wlen, meta=None):
        self.cid, self.ind, self.params = cid, ind, params
        self.gen, self.seed, self.length, self.a, self.b, self.every, self.bars, self.wlen = gen, seed, length, a, b, every, bars, wlen
        self.meta = meta or {}
        self.cps = None    # [(k, [bits])]
        self.hash = None
        self.result = None

    def harness_text(self):
        p = self.params
        return "\n".join(["CASE %s" % self.cid,
                          "new 0 %s %d %d %d %s" % (self.ind, p[0], p[1], p[2], hx(p[3])),
                          "g 0 %d %d %d %s %s %d %d" % (self.gen, self.seed, self.length, hx(self.a), hx(self.b), self.every, int(self.bars)),
                          "END"])

    def coq_text(self):
        p = self.params
        exp = "; ".join("(%d%%N, [%s])" % (k, "; ".join(coqf(fbits(b)) for b in bs)) for k, bs in self.cps)
        h = self.hash
        chunks = "; ".join("0x%xp+0%%float" % c for c in (h & 0x1FFFFF, (h >> 21) & 0x1FFFFF, h >> 42))
        return ("mkGcase %s (Pm %d %d %d %s) (mkGen %d %d %d%%N %s %s %d%%N %s) %d%%nat [%s] [%s] %s"
                % (KIND[self.ind], p[0], p[1], p[2], coqf(p[3]), self.gen, self.seed, self.length, coqf(self.a), coqf(self.b),
                   self.every, "%d%%uint63" % int(self.bars), self.wlen, exp, chunks, coqf(max(abs(self.a), abs(self.b)))))

    def to_json(self):
        return {"id": self.cid, "indicator": self.ind, "params": [self.params[0], self.params[1], self.params[2], hx(self.params[3])],
                "generator": {"regime": self.gen, "seed": self.seed, "length": self.length, "a": self.a, "b": self.b,
                              "checkpoint_every": self.every, "bars": self.bars},
                "ops": [["gen", self.gen, self.seed, self.length]], "ops_readable": [self.harness_text().replace("\n", " | ")], "meta": self.meta}


def run_gen_harness(binary, cases, tag, timeout=3000):
    from common import RUNDIR
    os.makedirs(RUNDIR, exist_ok=True)
    path = os.path.join(RUNDIR, "%s.gcases" % tag)
    with open(path, "w") as f:
        for c in cases:
            f.write(c.harness_text() + "\n")
    # split across processes for speed
    p = subprocess.run([binary, "run", path], stdout=subprocess.PIPE, stderr=subprocess.PIPE, text=True, timeout=timeout)
    if p.returncode != 0:
        raise BuildError("harness exited %d: %s" % (p.returncode, p.stderr[-2000:]))
    by_id = {c.cid: c for c in cases}
    cur = None
    for line in p.stdout.splitlines():
        if line.startswith("CASE "):
            cur = by_id[line[5:]]
        elif line.startswith("g "):
            cps = []
            for tok in line.split()[1:]:
                if tok.startswith("h="):
                    cur.hash = int(tok[2:])
                else:
                    k, vals = tok.split(":")
                    cps.append((int(k), [int(v, 16) for v in vals.split(",")]))
            cur.cps = cps
        elif line.startswith("panic"):
            cur.cps = []
            cur.hash = 0
            cur.panic = line
    for c in cases:
        if c.cps is None:
            raise BuildError("no generator output for case %s" % c.cid)


GEN_HEADER = HEADER + "From Coq Require Import Uint63.\nFrom TA Require Import XQ Run2 Gen.\nOpen Scope uint63_scope.\n"


def coq_check_gen(cases, tag, checker="check_gen_window", timeout=3000):
    if not cases:
        return []

    def run(kc):
        k, c = kc
        src = GEN_HEADER + "Open Scope N_scope.\nDefinition c0 := %s.\nEval vm_compute in %s c0.\n" % (c.coq_text(), checker)
        src = src.replace("(mkGen %d %d " % (c.gen, c.seed), "(mkGen %d%%uint63 %d%%uint63 " % (c.gen, c.seed))
        out = coq_eval(src, "%s_%d" % (tag, k), timeout=timeout)
        m = re.search(r"=\s*(\d+)", out)
        if not m:
            raise BuildError("cannot parse coq output: " + out[-300:])
        return int(m.group(1))
    from common import workers_for_memory
    with ThreadPoolExecutor(max_workers=workers_for_memory()) as ex:
        res = list(ex.map(run, enumerate(cases)))
    for c, r in zip(cases, res):
        c.result = r
    return res
