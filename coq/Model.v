(* Model.v — hand-written Gallina mirror of /repo/src/indicators/*.rs and data_item.rs,
   field by field and statement by statement, generic in the number type.  Definitions only. *)
From TA Require Import Base.
Open Scope N_scope.

Section Model.
Context {F : Type} (O : Ops F).
Local Notation "a +. b" := (add O a b) (at level 50, left associativity).
Local Notation "a -. b" := (sub O a b) (at level 50, left associativity).
Local Notation "a *. b" := (mul O a b) (at level 40, left associativity).
Local Notation "a /. b" := (div O a b) (at level 40, left associativity).
Local Notation "a <. b" := (ltb O a b) (at level 70).
Local Notation "a >. b" := (ltb O b a) (at level 70).
Local Notation "a ==. b" := (eqb O a b) (at level 70).

(* ------------------------------------------------------------------ simple_moving_average.rs *)
Record Sma := mkSma { sma_period : N; sma_index : N; sma_count : N; sma_sum : F; sma_deque : list F }.

Definition sma_new (period : N) : res Sma :=
  if period =? 0 then Err InvalidParameter
  else dq <- alloc period (zero O) ;; Ok (mkSma period 0 0 (zero O) dq).

Definition sma_next (s : Sma) (input : F) : res (Sma * F) :=
  old_val <- idx (sma_deque s) (sma_index s) ;;
  dq <- upd (sma_deque s) (sma_index s) input ;;
  index <- advance (sma_period s) (sma_index s) ;;
  count <- (if sma_count s <? sma_period s then uadd (sma_count s) 1 else Ok (sma_count s)) ;;
  let sum := sma_sum s -. old_val +. input in
  Ok (mkSma (sma_period s) index count sum dq, sum /. ofN O count).

Definition sma_reset (s : Sma) : res Sma :=
  dq <- fill (sma_deque s) (sma_period s) (zero O) ;;
  Ok (mkSma (sma_period s) 0 0 (zero O) dq).

(* ------------------------------------------------------------- exponential_moving_average.rs *)
Record Ema := mkEma { ema_period : N; ema_k : F; ema_current : F; ema_is_new : bool }.

(* after the K2 repair: k = 2.0 / (period as f64 + 1.0) *)
Definition ema_new (period : N) : res Ema :=
  if period =? 0 then Err InvalidParameter
  else Ok (mkEma period (two O /. (ofN O period +. one O)) (zero O) true).

(* the constructor as it was before the repair: 2.0 / (period + 1) as f64, checked usize add *)
Definition ema_new_unfixed (period : N) : res Ema :=
  if period =? 0 then Err InvalidParameter
  else p1 <- uadd period 1 ;; Ok (mkEma period (two O /. ofN O p1) (zero O) true).

Definition ema_next (s : Ema) (input : F) : Ema * F :=
  if ema_is_new s then (mkEma (ema_period s) (ema_k s) input false, input)
  else let cur := ema_k s *. input +. (one O -. ema_k s) *. ema_current s in
       (mkEma (ema_period s) (ema_k s) cur false, cur).

Definition ema_reset (s : Ema) : Ema := mkEma (ema_period s) (ema_k s) (zero O) true.

(* --------------------------------------------------------------- weighted_moving_average.rs *)
Record Wma := mkWma { wma_period : N; wma_index : N; wma_count : N; wma_weight : F;
                      wma_sum : F; wma_sum_flat : F; wma_deque : list F }.

Definition wma_new (period : N) : res Wma :=
  if period =? 0 then Err InvalidParameter
  else dq <- alloc period (zero O) ;; Ok (mkWma period 0 0 (zero O) (zero O) (zero O) dq).

Definition wma_next (s : Wma) (input : F) : res (Wma * F) :=
  old_val <- idx (wma_deque s) (wma_index s) ;;
  dq <- upd (wma_deque s) (wma_index s) input ;;
  index <- advance (wma_period s) (wma_index s) ;;
  '(count, weight, sum) <-
     (if wma_count s <? wma_period s
      then c <- uadd (wma_count s) 1 ;;
           let w := ofN O c in Ok (c, w, wma_sum s +. input *. w)
      else Ok (wma_count s, wma_weight s, wma_sum s -. wma_sum_flat s +. input *. wma_weight s)) ;;
  let sum_flat := wma_sum_flat s -. old_val +. input in
  Ok (mkWma (wma_period s) index count weight sum sum_flat dq,
      sum /. (weight *. (weight +. one O) /. two O)).

Definition wma_reset (s : Wma) : res Wma :=
  dq <- fill (wma_deque s) (wma_period s) (zero O) ;;
  Ok (mkWma (wma_period s) 0 0 (zero O) (zero O) (zero O) dq).

(* -------------------------------------------------------------------- standard_deviation.rs *)
Record Sd := mkSd { sd_period : N; sd_index : N; sd_count : N; sd_m : F; sd_m2 : F; sd_deque : list F }.

Definition sd_new (period : N) : res Sd :=
  if period =? 0 then Err InvalidParameter
  else dq <- alloc period (zero O) ;; Ok (mkSd period 0 0 (zero O) (zero O) dq).

Definition sd_next (s : Sd) (input : F) : res (Sd * F) :=
  old_val <- idx (sd_deque s) (sd_index s) ;;
  dq <- upd (sd_deque s) (sd_index s) input ;;
  index <- advance (sd_period s) (sd_index s) ;;
  '(count, m, m2) <-
     (if sd_count s <? sd_period s
      then c <- uadd (sd_count s) 1 ;;
           let delta := input -. sd_m s in
           let m := sd_m s +. delta /. ofN O c in
           let delta2 := input -. m in
           Ok (c, m, sd_m2 s +. delta *. delta2)
      else let delta := input -. old_val in
           let old_m := sd_m s in
           let m := sd_m s +. delta /. ofN O (sd_period s) in
           let delta2 := input -. m +. old_val -. old_m in
           Ok (sd_count s, m, sd_m2 s +. delta *. delta2)) ;;
  let m2 := if m2 <. zero O then zero O else m2 in
  Ok (mkSd (sd_period s) index count m m2 dq, sqrt O (m2 /. ofN O count)).

Definition sd_reset (s : Sd) : res Sd :=
  dq <- fill (sd_deque s) (sd_period s) (zero O) ;;
  Ok (mkSd (sd_period s) 0 0 (zero O) (zero O) dq).

Definition sd_mean (s : Sd) : F := sd_m s.

(* --------------------------------------------------------------- mean_absolute_deviation.rs *)
Record Mad := mkMad { mad_period : N; mad_index : N; mad_count : N; mad_sum : F; mad_deque : list F }.

Definition mad_new (period : N) : res Mad :=
  if period =? 0 then Err InvalidParameter
  else dq <- alloc period (zero O) ;; Ok (mkMad period 0 0 (zero O) dq).

Definition mad_next (s : Mad) (input : F) : res (Mad * F) :=
  '(count, sum) <-
     (if mad_count s <? mad_period s
      then c <- uadd (mad_count s) 1 ;; Ok (c, mad_sum s +. input)
      else old <- idx (mad_deque s) (mad_index s) ;; Ok (mad_count s, mad_sum s +. input -. old)) ;;
  dq <- upd (mad_deque s) (mad_index s) input ;;
  index <- advance (mad_period s) (mad_index s) ;;
  let mean := sum /. ofN O count in
  vals <- slice dq 0 count ;;
  let mad := fold_left (fun acc value => acc +. abs O (value -. mean)) vals (zero O) in
  Ok (mkMad (mad_period s) index count sum dq, mad /. ofN O count).

Definition mad_reset (s : Mad) : res Mad :=
  dq <- fill (mad_deque s) (mad_period s) (zero O) ;;
  Ok (mkMad (mad_period s) 0 0 (zero O) dq).

(* ------------------------------------------------------------------------------- minimum.rs *)
Record Min := mkMin { min_period : N; min_min_index : N; min_cur_index : N; min_deque : list F }.

Definition min_new (period : N) : res Min :=
  if period =? 0 then Err InvalidParameter
  else dq <- alloc period (inf O) ;; Ok (mkMin period 0 0 dq).

(* for (i, &val) in deque.iter().enumerate() { if val < min { min = val; index = i } } *)
Definition find_min_index (dq : list F) : N :=
  let '(_, index, _) :=
    fold_left (fun '(m, index, i) val => if val <. m then (val, i, i + 1) else (m, index, i + 1))
              dq (inf O, 0, 0) in index.

Definition min_next (s : Min) (input : F) : res (Min * F) :=
  dq <- upd (min_deque s) (min_cur_index s) input ;;
  cur_min <- idx dq (min_min_index s) ;;
  let min_index :=
    if input <. cur_min then min_cur_index s
    else if min_min_index s =? min_cur_index s then find_min_index dq
    else min_min_index s in
  cur_index <- advance (min_period s) (min_cur_index s) ;;
  out <- idx dq min_index ;;
  Ok (mkMin (min_period s) min_index cur_index dq, out).

Definition min_reset (s : Min) : res Min :=
  dq <- fill (min_deque s) (min_period s) (inf O) ;;
  Ok (mkMin (min_period s) (min_min_index s) (min_cur_index s) dq).

(* ------------------------------------------------------------------------------- maximum.rs *)
Record Max := mkMax { max_period : N; max_max_index : N; max_cur_index : N; max_deque : list F }.

Definition max_new (period : N) : res Max :=
  if period =? 0 then Err InvalidParameter
  else dq <- alloc period (ninf O) ;; Ok (mkMax period 0 0 dq).

Definition find_max_index (dq : list F) : N :=
  let '(_, index, _) :=
    fold_left (fun '(m, index, i) val => if val >. m then (val, i, i + 1) else (m, index, i + 1))
              dq (ninf O, 0, 0) in index.

Definition max_next (s : Max) (input : F) : res (Max * F) :=
  dq <- upd (max_deque s) (max_cur_index s) input ;;
  cur_max <- idx dq (max_max_index s) ;;
  let max_index :=
    if input >. cur_max then max_cur_index s
    else if max_max_index s =? max_cur_index s then find_max_index dq
    else max_max_index s in
  cur_index <- advance (max_period s) (max_cur_index s) ;;
  out <- idx dq max_index ;;
  Ok (mkMax (max_period s) max_index cur_index dq, out).

Definition max_reset (s : Max) : res Max :=
  dq <- fill (max_deque s) (max_period s) (ninf O) ;;
  Ok (mkMax (max_period s) (max_max_index s) (max_cur_index s) dq).

(* ----------------------------------------------------------------------- bollinger_bands.rs *)
Record Bb := mkBb { bb_period : N; bb_multiplier : F; bb_sd : Sd }.

Definition bb_new (period : N) (multiplier : F) : res Bb :=
  sd <- sd_new period ;; Ok (mkBb period multiplier sd).

(* output order: average, upper, lower *)
Definition bb_next (s : Bb) (input : F) : res (Bb * list F) :=
  '(sd', sd) <- sd_next (bb_sd s) input ;;
  let mean := sd_mean sd' in
  Ok (mkBb (bb_period s) (bb_multiplier s) sd',
      [mean; mean +. sd *. bb_multiplier s; mean -. sd *. bb_multiplier s]).

Definition bb_reset (s : Bb) : res Bb :=
  sd <- sd_reset (bb_sd s) ;; Ok (mkBb (bb_period s) (bb_multiplier s) sd).

(* ---------------------------------------------------------------------------- true_range.rs *)
Record Tr := mkTr { tr_prev_close : option F }.

Definition tr_new : Tr := mkTr None.

Definition tr_next (s : Tr) (input : F) : Tr * F :=
  let distance := match tr_prev_close s with
                  | Some prev => abs O (input -. prev)
                  | None => zero O end in
  (mkTr (Some input), distance).

Definition tr_next_bar (s : Tr) (bar : Bar F) : Tr * F :=
  let max_dist := match tr_prev_close s with
                  | Some prev_close =>
                      let dist1 := b_high bar -. b_low bar in
                      let dist2 := abs O (b_high bar -. prev_close) in
                      let dist3 := abs O (b_low bar -. prev_close) in
                      max3 O dist1 dist2 dist3
                  | None => b_high bar -. b_low bar end in
  (mkTr (Some (b_close bar)), max_dist).

Definition tr_reset (s : Tr) : Tr := mkTr None.

(* -------------------------------------------------------------------- average_true_range.rs *)
Record Atr := mkAtr { atr_true_range : Tr; atr_ema : Ema }.

Definition atr_new (period : N) : res Atr :=
  ema <- ema_new period ;; Ok (mkAtr tr_new ema).

Definition atr_next (s : Atr) (input : F) : Atr * F :=
  let '(tr, d) := tr_next (atr_true_range s) input in
  let '(ema, o) := ema_next (atr_ema s) d in (mkAtr tr ema, o).

Definition atr_next_bar (s : Atr) (bar : Bar F) : Atr * F :=
  let '(tr, d) := tr_next_bar (atr_true_range s) bar in
  let '(ema, o) := ema_next (atr_ema s) d in (mkAtr tr ema, o).

Definition atr_reset (s : Atr) : Atr := mkAtr (tr_reset (atr_true_range s)) (ema_reset (atr_ema s)).

(* --------------------------------------------------------------- relative_strength_index.rs *)
Record Rsi := mkRsi { rsi_period : N; rsi_up : Ema; rsi_down : Ema; rsi_prev_val : F; rsi_is_new : bool }.

Definition rsi_new (period : N) : res Rsi :=
  up <- ema_new period ;; down <- ema_new period ;;
  Ok (mkRsi period up down (zero O) true).

Definition rsi_next (s : Rsi) (input : F) : Rsi * F :=
  let '(up, down) :=
    if rsi_is_new s then (c0_1 O, c0_1 O)
    else if input >. rsi_prev_val s then (input -. rsi_prev_val s, zero O)
    else (zero O, rsi_prev_val s -. input) in
  let '(ue, up_ema) := ema_next (rsi_up s) up in
  let '(de, down_ema) := ema_next (rsi_down s) down in
  (mkRsi (rsi_period s) ue de input false, c100 O *. up_ema /. (up_ema +. down_ema)).

Definition rsi_reset (s : Rsi) : Rsi :=
  mkRsi (rsi_period s) (ema_reset (rsi_up s)) (ema_reset (rsi_down s)) (zero O) true.

(* ----------------------------------------------------------------------- fast_stochastic.rs *)
Record Fast := mkFast { fast_period : N; fast_minimum : Min; fast_maximum : Max }.

Definition fast_new (period : N) : res Fast :=
  mn <- min_new period ;; mx <- max_new period ;; Ok (mkFast period mn mx).

Definition fast_next (s : Fast) (input : F) : res (Fast * F) :=
  '(mn, min) <- min_next (fast_minimum s) input ;;
  '(mx, max) <- max_next (fast_maximum s) input ;;
  Ok (mkFast (fast_period s) mn mx,
      if min ==. max then c50 O else (input -. min) /. (max -. min) *. c100 O).

Definition fast_next_bar (s : Fast) (bar : Bar F) : res (Fast * F) :=
  '(mx, highest) <- max_next (fast_maximum s) (b_high bar) ;;
  '(mn, lowest) <- min_next (fast_minimum s) (b_low bar) ;;
  let close := b_close bar in
  Ok (mkFast (fast_period s) mn mx,
      if highest ==. lowest then c50 O else (close -. lowest) /. (highest -. lowest) *. c100 O).

Definition fast_reset (s : Fast) : res Fast :=
  mn <- min_reset (fast_minimum s) ;; mx <- max_reset (fast_maximum s) ;;
  Ok (mkFast (fast_period s) mn mx).

(* ----------------------------------------------------------------------- slow_stochastic.rs *)
Record Slow := mkSlow { slow_fast : Fast; slow_ema : Ema }.

Definition slow_new (stochastic_period ema_period : N) : res Slow :=
  f <- fast_new stochastic_period ;; e <- ema_new ema_period ;; Ok (mkSlow f e).

Definition slow_next (s : Slow) (input : F) : res (Slow * F) :=
  '(f, v) <- fast_next (slow_fast s) input ;;
  let '(e, o) := ema_next (slow_ema s) v in Ok (mkSlow f e, o).

Definition slow_next_bar (s : Slow) (bar : Bar F) : res (Slow * F) :=
  '(f, v) <- fast_next_bar (slow_fast s) bar ;;
  let '(e, o) := ema_next (slow_ema s) v in Ok (mkSlow f e, o).

Definition slow_reset (s : Slow) : res Slow :=
  f <- fast_reset (slow_fast s) ;; Ok (mkSlow f (ema_reset (slow_ema s))).

(* ------------------------------------------------------------------------ rate_of_change.rs *)
Record Roc := mkRoc { roc_period : N; roc_index : N; roc_count : N; roc_deque : list F }.

Definition roc_new (period : N) : res Roc :=
  if period =? 0 then Err InvalidParameter
  else dq <- alloc period (zero O) ;; Ok (mkRoc period 0 0 dq).

Definition roc_next (s : Roc) (input : F) : res (Roc * F) :=
  '(count, previous) <-
     (if roc_period s <? roc_count s
      then p <- idx (roc_deque s) (roc_index s) ;; Ok (roc_count s, p)
      else c <- uadd (roc_count s) 1 ;;
           if c =? 1 then Ok (c, input)
           else p <- idx (roc_deque s) 0 ;; Ok (c, p)) ;;
  dq <- upd (roc_deque s) (roc_index s) input ;;
  index <- advance (roc_period s) (roc_index s) ;;
  Ok (mkRoc (roc_period s) index count dq, (input -. previous) /. previous *. c100 O).

Definition roc_reset (s : Roc) : res Roc :=
  dq <- fill (roc_deque s) (roc_period s) (zero O) ;;
  Ok (mkRoc (roc_period s) 0 0 dq).

(* ---------------------------------------------------------------------- efficiency_ratio.rs *)
Record Er := mkEr { er_period : N; er_index : N; er_count : N; er_deque : list F }.

Definition er_new (period : N) : res Er :=
  if period =? 0 then Err InvalidParameter
  else dq <- alloc period (zero O) ;; Ok (mkEr period 0 0 dq).

Definition er_vol_loop (acc : F * F) (vals : list F) : F * F :=
  fold_left (fun '(volatility, previous) n => (volatility +. abs O (previous -. n), n)) vals acc.

Definition er_next (s : Er) (input : F) : res (Er * F) :=
  '(count, first) <-
     (if er_period s <=? er_count s
      then f <- idx (er_deque s) (er_index s) ;; Ok (er_count s, f)
      else c <- uadd (er_count s) 1 ;; f <- idx (er_deque s) 0 ;; Ok (c, f)) ;;
  dq <- upd (er_deque s) (er_index s) input ;;
  index <- advance (er_period s) (er_index s) ;;
  s1 <- slice dq index count ;;
  s2 <- slice dq 0 index ;;
  let '(volatility, _) := er_vol_loop (er_vol_loop (zero O, first) s1) s2 in
  Ok (mkEr (er_period s) index count dq, abs O (first -. input) /. volatility).

Definition er_reset (s : Er) : res Er :=
  dq <- fill (er_deque s) (er_period s) (zero O) ;;
  Ok (mkEr (er_period s) 0 0 dq).

(* ----------------------------------------------- moving_average_convergence_divergence.rs *)
Record Macd := mkMacd { macd_fast : Ema; macd_slow : Ema; macd_signal : Ema }.

Definition macd_new (fast_period slow_period signal_period : N) : res Macd :=
  f <- ema_new fast_period ;; s <- ema_new slow_period ;; g <- ema_new signal_period ;;
  Ok (mkMacd f s g).

(* output order: macd, signal, histogram *)
Definition macd_next (s : Macd) (input : F) : Macd * list F :=
  let '(f, fast_val) := ema_next (macd_fast s) input in
  let '(sl, slow_val) := ema_next (macd_slow s) input in
  let macd := fast_val -. slow_val in
  let '(g, signal) := ema_next (macd_signal s) macd in
  let histogram := macd -. signal in
  (mkMacd f sl g, [macd; signal; histogram]).

Definition macd_reset (s : Macd) : Macd :=
  mkMacd (ema_reset (macd_fast s)) (ema_reset (macd_slow s)) (ema_reset (macd_signal s)).

(* ----------------------------------------------------------- percentage_price_oscillator.rs *)
Record Ppo := mkPpo { ppo_fast : Ema; ppo_slow : Ema; ppo_signal : Ema }.

Definition ppo_new (fast_period slow_period signal_period : N) : res Ppo :=
  f <- ema_new fast_period ;; s <- ema_new slow_period ;; g <- ema_new signal_period ;;
  Ok (mkPpo f s g).

Definition ppo_next (s : Ppo) (input : F) : Ppo * list F :=
  let '(f, fast_val) := ema_next (ppo_fast s) input in
  let '(sl, slow_val) := ema_next (ppo_slow s) input in
  let ppo := (fast_val -. slow_val) /. slow_val *. c100 O in
  let '(g, signal) := ema_next (ppo_signal s) ppo in
  let histogram := ppo -. signal in
  (mkPpo f sl g, [ppo; signal; histogram]).

Definition ppo_reset (s : Ppo) : Ppo :=
  mkPpo (ema_reset (ppo_fast s)) (ema_reset (ppo_slow s)) (ema_reset (ppo_signal s)).

(* ----------------------------------------------------------------------- keltner_channel.rs *)
Record Kc := mkKc { kc_period : N; kc_multiplier : F; kc_atr : Atr; kc_ema : Ema }.

Definition kc_new (period : N) (multiplier : F) : res Kc :=
  a <- atr_new period ;; e <- ema_new period ;; Ok (mkKc period multiplier a e).

Definition kc_next (s : Kc) (input : F) : Kc * list F :=
  let '(a, atr) := atr_next (kc_atr s) input in
  let '(e, average) := ema_next (kc_ema s) input in
  (mkKc (kc_period s) (kc_multiplier s) a e,
   [average; average +. atr *. kc_multiplier s; average -. atr *. kc_multiplier s]).

Definition kc_next_bar (s : Kc) (bar : Bar F) : Kc * list F :=
  let typical_price := (b_close bar +. b_high bar +. b_low bar) /. three O in
  let '(e, average) := ema_next (kc_ema s) typical_price in
  let '(a, atr) := atr_next_bar (kc_atr s) bar in
  (mkKc (kc_period s) (kc_multiplier s) a e,
   [average; average +. atr *. kc_multiplier s; average -. atr *. kc_multiplier s]).

Definition kc_reset (s : Kc) : Kc :=
  mkKc (kc_period s) (kc_multiplier s) (atr_reset (kc_atr s)) (ema_reset (kc_ema s)).

(* ----------------------------------------------------------------------- chandelier_exit.rs *)
Record Ce := mkCe { ce_atr : Atr; ce_min : Min; ce_max : Max; ce_multiplier : F }.

Definition ce_new (period : N) (multiplier : F) : res Ce :=
  a <- atr_new period ;; mn <- min_new period ;; mx <- max_new period ;;
  Ok (mkCe a mn mx multiplier).

(* output order: long, short *)
Definition ce_next_bar (s : Ce) (bar : Bar F) : res (Ce * list F) :=
  let '(a, atr0) := atr_next_bar (ce_atr s) bar in
  let atr := atr0 *. ce_multiplier s in
  '(mn, min) <- min_next (ce_min s) (b_low bar) ;;
  '(mx, max) <- max_next (ce_max s) (b_high bar) ;;
  Ok (mkCe a mn mx (ce_multiplier s), [max -. atr; min +. atr]).

Definition ce_reset (s : Ce) : res Ce :=
  mn <- min_reset (ce_min s) ;; mx <- max_reset (ce_max s) ;;
  Ok (mkCe (atr_reset (ce_atr s)) mn mx (ce_multiplier s)).

(* --------------------------------------------------------------- commodity_channel_index.rs *)
Record Cci := mkCci { cci_sma : Sma; cci_mad : Mad }.

Definition cci_new (period : N) : res Cci :=
  s <- sma_new period ;; m <- mad_new period ;; Ok (mkCci s m).

(* after the K1 repair: the deviation is taken of the typical price *)
Definition cci_next_bar (s : Cci) (bar : Bar F) : res (Cci * F) :=
  let tp := (b_close bar +. b_high bar +. b_low bar) /. three O in
  '(sm, sma) <- sma_next (cci_sma s) tp ;;
  '(md, mad) <- mad_next (cci_mad s) tp ;;
  Ok (mkCci sm md, if mad ==. zero O then zero O else (tp -. sma) /. (mad *. c0_015 O)).

(* as it was before the repair: self.mad.next(input) resolves to Next<&T: Close>, i.e. close *)
Definition cci_next_bar_unfixed (s : Cci) (bar : Bar F) : res (Cci * F) :=
  let tp := (b_close bar +. b_high bar +. b_low bar) /. three O in
  '(sm, sma) <- sma_next (cci_sma s) tp ;;
  '(md, mad) <- mad_next (cci_mad s) (b_close bar) ;;
  Ok (mkCci sm md, if mad ==. zero O then zero O else (tp -. sma) /. (mad *. c0_015 O)).

Definition cci_reset (s : Cci) : res Cci :=
  sm <- sma_reset (cci_sma s) ;; md <- mad_reset (cci_mad s) ;; Ok (mkCci sm md).

(* ---------------------------------------------------------------------- money_flow_index.rs *)
Record Mfi := mkMfi { mfi_period : N; mfi_index : N; mfi_count : N; mfi_prev_tp : F;
                      mfi_pos : F; mfi_neg : F; mfi_deque : list F }.

Definition mfi_new (period : N) : res Mfi :=
  if period =? 0 then Err InvalidParameter
  else dq <- alloc period (zero O) ;; Ok (mkMfi period 0 0 (zero O) (zero O) (zero O) dq).

Definition mfi_next_bar (s : Mfi) (bar : Bar F) : res (Mfi * F) :=
  let tp := (b_close bar +. b_high bar +. b_low bar) /. three O in
  index <- advance (mfi_period s) (mfi_index s) ;;
  let flow (count : N) (pos ng : F) : res (Mfi * F) :=
    '(pos, ng, v) <-
       (if tp >. mfi_prev_tp s
        then let raw := tp *. b_volume bar in Ok (pos +. raw, ng, raw)
        else if tp <. mfi_prev_tp s
        then let raw := tp *. b_volume bar in Ok (pos, ng +. raw, neg O raw)
        else Ok (pos, ng, zero O)) ;;
    dq <- upd (mfi_deque s) index v ;;
    Ok (mkMfi (mfi_period s) index count tp pos ng dq, pos /. (pos +. ng) *. c100 O) in
  if mfi_count s <? mfi_period s
  then count <- uadd (mfi_count s) 1 ;;
       if count =? 1
       then Ok (mkMfi (mfi_period s) index count tp (mfi_pos s) (mfi_neg s) (mfi_deque s), c50 O)
       else flow count (mfi_pos s) (mfi_neg s)
  else popped <- idx (mfi_deque s) index ;;
       if is_sign_positive O popped
       then flow (mfi_count s) (mfi_pos s -. popped) (mfi_neg s)
       else flow (mfi_count s) (mfi_pos s) (mfi_neg s +. popped).

Definition mfi_reset (s : Mfi) : res Mfi :=
  dq <- fill (mfi_deque s) (mfi_period s) (zero O) ;;
  Ok (mkMfi (mfi_period s) 0 0 (zero O) (zero O) (zero O) dq).

(* --------------------------------------------------------------------- on_balance_volume.rs *)
Record Obv := mkObv { obv_obv : F; obv_prev_close : F }.

Definition obv_new : Obv := mkObv (zero O) (zero O).

Definition obv_next_bar (s : Obv) (bar : Bar F) : Obv * F :=
  let obv := if b_close bar >. obv_prev_close s then obv_obv s +. b_volume bar
             else if b_close bar <. obv_prev_close s then obv_obv s -. b_volume bar
             else obv_obv s in
  (mkObv obv (b_close bar), obv).

Definition obv_reset (s : Obv) : Obv := mkObv (zero O) (zero O).

(* ----------------------------------------------------------------------------- data_item.rs *)
Record Builder := mkBuilder { bo : option F; bh : option F; bl : option F; bc : option F; bv : option F }.
Definition builder_new : Builder := mkBuilder None None None None None.
Inductive Setter := SetOpen | SetHigh | SetLow | SetClose | SetVolume.
Definition set (b : Builder) (f : Setter) (v : F) : Builder :=
  match f with
  | SetOpen => mkBuilder (Some v) (bh b) (bl b) (bc b) (bv b)
  | SetHigh => mkBuilder (bo b) (Some v) (bl b) (bc b) (bv b)
  | SetLow => mkBuilder (bo b) (bh b) (Some v) (bc b) (bv b)
  | SetClose => mkBuilder (bo b) (bh b) (bl b) (Some v) (bv b)
  | SetVolume => mkBuilder (bo b) (bh b) (bl b) (bc b) (Some v)
  end.

(* low <= open && low <= close && low <= high && high >= open && high >= close && volume >= 0.0 *)
Definition six_checks (open high low close volume : F) : bool :=
  leb O low open && leb O low close && leb O low high &&
  leb O open high && leb O close high && leb O (zero O) volume.

Definition build (b : Builder) : res (Bar F) :=
  match bo b, bh b, bl b, bc b, bv b with
  | Some open, Some high, Some low, Some close, Some volume =>
      if six_checks open high low close volume
      then Ok (mkBar open high low close volume)
      else Err DataItemInvalid
  | _, _, _, _, _ => Err DataItemIncomplete
  end.

End Model.
