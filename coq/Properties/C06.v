(* C06 — Serialize/deserialize at any point of a stream preserves all future outputs.
   Statements only; proofs in Proofs/SerdeProofs.v and Proofs/RunProofs.v.
   [ser] is the bincode layout at the level of primitive items (u64 / f64 / one-byte bool or tag),
   [de] the corresponding reader; the byte codec of an individual f64 is the identity on bit patterns
   and is checked by the correspondence (state images are compared byte for byte on every run). *)
From TA Require Import Base Model Generic Proofs.SerdeProofs Proofs.RunProofs.

(* reading back what was written returns the same state and leaves the rest of the input —
   for every state of every indicator (no well-formedness needed), every number type *)
Theorem C06_de_ser : forall (F : Type) (s : @St F) (rest : list (@item F)),
  de (kind_of s) (ser s ++ rest) = Some (s, rest).
Proof. exact (@de_ser). Qed.

(* hence serialize-then-deserialize is the identity on states ... *)
Theorem C06_serde_id : forall (F : Type) (s : @St F), serde s = Ok s.
Proof. exact (@serde_id). Qed.

(* ... and, at any position of any operation sequence on any instance, it succeeds and changes no
   slot of the store: every continuation, parameter and Display text after it is what it would have
   been without it (also under repeated round-trips) *)
Theorem C06_serde_transparent : forall (F : Type) (O : Ops F) (st : @store F) (slot : nat),
  snd (step O st (OSerde slot)) = (match sget st slot with Some _ => BOk | None => BDead end) /\
  forall i, sget (fst (step O st (OSerde slot))) i = sget st i.
Proof. exact (@serde_transparent). Qed.
