(* WMA over the exact carrier: every output is the weighted mean (weights 1..k, newest heaviest) of exactly
   the last k = min(t,p) inputs. *)
From Coq Require Import Reals Lra Lia.
From TA Require Import Base Model XR Proofs.Prims Proofs.WF Proofs.Ring Proofs.XBase Proofs.XSma.
Open Scope N_scope.

Local Notation O := XROps.

Fixpoint wsum_from (i : nat) (l : list R) : R :=
  match l with [] => 0%R | x :: r => (INR i * x + wsum_from (S i) r)%R end.
Definition wsum (l : list R) : R := wsum_from 1 l.
(* weighted mean with weights 1..k (oldest..newest) *)
Definition wmean (l : list R) : R := (wsum l / (INR (length l) * (INR (length l) + 1) / 2))%R.

Lemma wsum_from_app i a b : wsum_from i (a ++ b) = (wsum_from i a + wsum_from (i + length a) b)%R.
Proof.
  revert i; induction a as [|x a IH]; intros i; cbn [app wsum_from length].
  - rewrite Nat.add_0_r. lra.
  - rewrite IH. replace (S i + length a)%nat with (i + S (length a))%nat by lia. lra.
Qed.

Lemma wsum_from_shift i l : wsum_from (S i) l = (wsum_from i l + Rsum l)%R.
Proof.
  revert i; induction l as [|x l IH]; intros i; cbn [wsum_from Rsum]; [lra|].
  rewrite (IH (S i)). rewrite S_INR. lra.
Qed.

Lemma wsum_snoc l x : wsum (l ++ [x]) = (wsum l + INR (S (length l)) * x)%R.
Proof. unfold wsum. rewrite wsum_from_app. cbn [wsum_from]. replace (1 + length l)%nat with (S (length l)) by lia. lra. Qed.

Lemma wsum_tl l : l <> [] -> wsum (tl l) = (wsum l - Rsum l)%R.
Proof.
  destruct l as [|a l]; [congruence|]. intros _. unfold wsum. cbn [tl wsum_from Rsum].
  rewrite (wsum_from_shift 1 l). cbn [INR]. lra.
Qed.

Definition wma_inv (s : @Wma XR) (h : list R) : Prop :=
  let p := N.to_nat (wma_period s) in
  wf_wma s /\
  rot (N.to_nat (wma_index s)) (wma_deque s) = map Fin (lastn p (padded 0%R p h)) /\
  wma_sum_flat s = Fin (Rsum (lastn p h)) /\
  wma_sum s = Fin (wsum (lastn p h)) /\
  wma_count s = N.of_nat (Nat.min (length h) p) /\
  wma_weight s = Fin (INR (Nat.min (length h) p)).

Lemma wma_inv_new p s : wma_new O p = Ok s -> wma_inv s [].
Proof.
  intros H. pose proof (wma_new_inv O p s H) as (A & B & W & Pe).
  rewrite wma_new_ok in H by assumption. injection H as <-.
  unfold wma_inv. cbn [wma_period wma_index wma_count wma_sum wma_sum_flat wma_weight wma_deque].
  split; [exact W|]. split; [|repeat split; cbn; try reflexivity; lia].
  rewrite rot_0, lastn_padded_nil. cbn [zero O]. rewrite map_repeat'. reflexivity.
Qed.

Lemma hd_lastn_padded p h : (1 <= p)%nat ->
  hd 0%R (lastn p (padded 0%R p h)) = if (length h <? p)%nat then 0%R else hd 0%R (lastn p h).
Proof.
  intros Hp. destruct (Nat.ltb_spec (length h) p) as [H|H].
  - rewrite lastn_padded_warm by lia. destruct (p - length h)%nat eqn:E; [lia|]. reflexivity.
  - rewrite lastn_padded_full by lia. reflexivity.
Qed.

Lemma lastn_snoc_cases {A} p (h : list A) x : (1 <= p)%nat ->
  lastn p (h ++ [x]) = if (length h <? p)%nat then lastn p h ++ [x] else tl (lastn p h) ++ [x].
Proof.
  intros Hp. destruct (Nat.ltb_spec (length h) p) as [H|H].
  - apply lastn_snoc_short. exact H.
  - apply lastn_snoc; assumption.
Qed.

Lemma wma_step s h x : wma_inv s h ->
  exists s', wma_next O s (Fin x) = Ok (s', Fin (wmean (lastn (N.to_nat (wma_period s)) (h ++ [x])))) /\
             wma_inv s' (h ++ [x]) /\ wma_period s' = wma_period s.
Proof.
  intros (W & Hrot & Hflat & Hsum & Hcnt & Hwt). pose proof W as (H1 & H2 & H3 & H4 & H5).
  set (p := N.to_nat (wma_period s)) in *.
  assert (Hp : (1 <= p)%nat) by (unfold p; lia).
  destruct (ring_step (wma_deque s) (wma_period s) (wma_index s) (Fin x) (Fin 0) H1 H3 H2 H5) as (E1 & E2 & E3 & E4 & E5).
  unfold wma_next. rewrite E1, E2, E3. cbn [bind].
  rewrite Hrot in *. change (Fin 0) with (Fin 0%R) in *. rewrite (hd_map Fin _ 0%R).
  rewrite hd_lastn_padded by exact Hp.
  set (w := lastn p h) in *.
  assert (Lw : length w = Nat.min (length h) p) by (unfold w; rewrite lastn_length; lia).
  pose proof (lastn_snoc_cases p h x Hp) as Ew'. fold w in Ew'.
  assert (Lw' : length (lastn p (h ++ [x])) = Nat.min (length (h ++ [x])) p) by (rewrite lastn_length; lia).
  rewrite app_length in Lw'. cbn [length] in Lw'.
  destruct (Nat.ltb_spec (length h) p) as [Hwarm|Hfull].
  - (* warming up *)
    assert (Ec : wma_count s <? wma_period s = true) by (apply N.ltb_lt; rewrite Hcnt; unfold p in *; lia).
    rewrite Ec. rewrite uadd_ok by (unfold ALLOC_MAX, USIZE_MAX in *; lia). cbn [bind].
    rewrite Hsum, Hflat, Hcnt. rewrite xr_ofN.
    replace (N.of_nat (Nat.min (length h) p) + 1) with (N.of_nat (S (length h))) by lia.
    rewrite INR_IZR_N. xfin.
    assert (Ew : w = h) by (unfold w; apply lastn_all; lia).
    rewrite (xr_div_fin _ 2%R) by lra.
    rewrite xr_div_fin by (pose proof (pos_INR (length h)); rewrite S_INR; nra).
    match goal with |- context [Fin (?a / ?b)] =>
      assert (Eout : (a / b)%R = wmean (lastn p (h ++ [x])));
      [unfold wmean; rewrite Ew', Ew, wsum_snoc, app_length; cbn [length];
       replace (length h + 1)%nat with (S (length h)) by lia; f_equal; lra | rewrite Eout] end.
    eexists. split; [reflexivity|].
    split; [|reflexivity]. unfold wma_inv.
      cbn [wma_period wma_index wma_count wma_sum wma_sum_flat wma_weight wma_deque]. fold p.
      split; [unfold wf_wma, ring_wf; cbn; pose proof (advance_lt _ _ H3); repeat split; unfold p in *; lia|].
      split; [rewrite E5, lastn_padded_snoc by exact Hp; rewrite map_app, tl_map; reflexivity|].
      rewrite Ew', Ew, Rsum_app, wsum_snoc, app_length. cbn [Rsum length].
      repeat split; try (f_equal; lra).
      * f_equal. lia.
      * f_equal. f_equal. lia.
  - (* full window *)
    assert (Ec : wma_count s <? wma_period s = false) by (apply N.ltb_ge; rewrite Hcnt; unfold p in *; lia).
    rewrite Ec. cbn [bind].
    rewrite Hsum, Hflat, Hwt. xfin.
    replace (Nat.min (length h) p) with p in * by lia.
    assert (Hw : w <> []) by (intros E; rewrite E in Lw; cbn in Lw; lia).
    assert (Hpp : (0 < INR p)%R) by (apply lt_0_INR; lia).
    rewrite (xr_div_fin _ 2%R) by lra.
    rewrite xr_div_fin by nra.
    assert (Lt : length (tl w) = (p - 1)%nat) by (destruct w; [congruence|cbn in *; lia]).
    match goal with |- context [Fin (?a / ?b)] =>
      assert (Eout : (a / b)%R = wmean (lastn p (h ++ [x])));
      [unfold wmean; rewrite Ew', wsum_snoc, wsum_tl by exact Hw; rewrite app_length; cbn [length];
       rewrite Lt; replace (S (p - 1)) with p by lia; replace (p - 1 + 1)%nat with p by lia; f_equal; lra | rewrite Eout] end.
    eexists. split; [reflexivity|].
    split; [|reflexivity]. unfold wma_inv.
      cbn [wma_period wma_index wma_count wma_sum wma_sum_flat wma_weight wma_deque]. fold p.
      split; [unfold wf_wma, ring_wf; cbn; pose proof (advance_lt _ _ H3); repeat split; unfold p in *; lia|].
      split; [rewrite E5, lastn_padded_snoc by exact Hp; rewrite map_app, tl_map; reflexivity|].
      rewrite Ew', Rsum_app, wsum_snoc, wsum_tl by exact Hw. cbn [Rsum].
      rewrite Lt. replace (S (p - 1)) with p by lia. rewrite app_length. cbn [length].
      repeat split.
      * f_equal. rewrite (Rsum_hd_tl w Hw). lra.
      * f_equal. lra.
      * rewrite Hcnt. f_equal. lia.
      * f_equal. f_equal. lia.
Qed.

Fixpoint wma_outs (s : @Wma XR) (xs : list XR) : list XR :=
  match xs with
  | [] => []
  | x :: xs => match wma_next O s x with Ok (s', o) => o :: wma_outs s' xs | _ => [] end
  end.

Lemma wma_outs_spec : forall xs s h, wma_inv s h ->
  wma_outs s (map Fin xs) = map (fun hh => Fin (wmean (lastn (N.to_nat (wma_period s)) hh))) (prefixes_from h xs).
Proof.
  induction xs as [|x xs IH]; intros s h Hinv; cbn [wma_outs map prefixes_from]; [reflexivity|].
  destruct (wma_step s h x Hinv) as (s' & E & Hinv' & Hp). rewrite E. f_equal.
  rewrite (IH s' (h ++ [x]) Hinv'), Hp. reflexivity.
Qed.

Theorem wma_refines : forall p s xs, wma_new O p = Ok s ->
  wma_outs s (map Fin xs) = map (fun hh => Fin (wmean (lastn (N.to_nat p) hh))) (prefixes_from [] xs).
Proof.
  intros p s xs H. pose proof (wma_new_inv O p s H) as (_ & _ & _ & Pe).
  rewrite (wma_outs_spec xs s [] (wma_inv_new p s H)), Pe. reflexivity.
Qed.
