(* AverageTrueRange (scalar path) on binary64: within (96 t + 3) * 2^-53 * M of the real recursion EMA(|x_t - x_{t-1}|), by composing
   the rounding of TrueRange, the forward error bound of the float EMA and the 1-Lipschitz dependence of the real EMA on its inputs. *)
From Coq Require Import Reals Lra Lia ZArith List Floats.
From Flocq Require Import Core.
From TA Require Import Base Model FloatInst Proofs.Prims Proofs.WF Proofs.XBase Proofs.Wiring Proofs.XEma Proofs.XCov
  Proofs.FloatErr Proofs.FloatSma Proofs.FloatEma Proofs.FloatSd Proofs.FloatFast Proofs.FloatMad.
Import ListNotations.
Open Scope R_scope.
Local Notation O := FOps.
Local Notation float := PrimFloat.float.

(* ---- TrueRange on scalars: |x - prev| with one rounding ---- *)
Lemma ftr_running M : 1 <= M -> M <= bpow radix2 990 -> forall xs (prev : float), okin M prev -> Forall (okin M) xs ->
  let outs := tr_outs O (mkTr (Some prev)) xs in
  let reals := tr_real (FR prev) (map FR xs) in
  length outs = length xs /\ length reals = length xs /\
  forall j, (j < length xs)%nat ->
    finF (nth j outs 0%float) /\ Rabs (FR (nth j outs 0%float)) <= 3 * M /\
    Rabs (FR (nth j outs 0%float) - nth j reals 0) <= 3 * u * M.
Proof.
  intros HM1 HM2. pose proof u_pos as Hu0. pose proof u_le as Hu1. pose proof eta_pos as He0. pose proof eta_le_u as Heu.
  assert (HMB : 4 * M <= BIG).
  { unfold BIG. apply Rle_trans with (4 * bpow radix2 990); [lra|]. change 4 with (bpow radix2 2). rewrite <- bpow_plus. apply bpow_le. lia. }
  assert (HuM : u * M <= / 1000 * M) by (apply Rmult_le_compat_r; lra).
  assert (HeM : eta <= u * M) by (apply Rle_trans with (u * 1); [lra|apply Rmult_le_compat_l; lra]).
  induction xs as [|x xs IH]; intros prev [Fp Hp] Hxs outs reals.
  - split; [reflexivity|]. split; [reflexivity|]. intros j Hj. cbn in Hj. lia.
  - pose proof (Forall_inv Hxs) as [Fx Hx]. pose proof (Forall_inv_tail Hxs) as Hxs'.
    unfold outs, reals. cbn [tr_outs map tr_real]. unfold tr_next. cbn [tr_prev_close abs sub O].
    destruct (fsub_err x prev Fx Fp) as (Fd & e & n & He & Hn & Rd); [eapply Rle_trans; [apply Rabs_triang|]; rewrite Rabs_Ropp; lra|].
    destruct (fabs_exact _ Fd) as [Fa Ea].
    set (a := PrimFloat.abs (x - prev)) in *.
    assert (Hd2 : Rabs (FR x - FR prev) <= 2 * M) by (eapply Rle_trans; [apply Rabs_triang|]; rewrite Rabs_Ropp; lra).
    assert (Herr : Rabs (FR a - Rabs (FR x - FR prev)) <= 3 * u * M).
    { rewrite Ea. eapply Rle_trans; [apply Rabs_triang_inv2|]. rewrite Rd.
      replace ((FR x - FR prev) * (1 + e) + n - (FR x - FR prev)) with ((FR x - FR prev) * e + n) by ring.
      eapply Rle_trans; [apply Rabs_triang|]. rewrite Rabs_mult.
      assert (Rabs (FR x - FR prev) * Rabs e <= 2 * M * u) by (apply Rmult_le_compat; try apply Rabs_pos; assumption). lra. }
    assert (Hmag : Rabs (FR a) <= 3 * M).
    { replace (FR a) with ((FR a - Rabs (FR x - FR prev)) + Rabs (FR x - FR prev)) by ring. eapply Rle_trans; [apply Rabs_triang|].
      rewrite (Rabs_pos_eq (Rabs _)) by apply Rabs_pos. lra. }
    destruct (IH x (conj Fx Hx) Hxs') as (L1 & L2 & Hn').
    cbn [length]. split; [now rewrite L1|]. split; [now rewrite L2|].
    intros [|j] Hj; cbn [nth].
    + repeat split; assumption.
    + apply Hn'. cbn [length] in Hj. lia.
Qed.

(* ---- the real EMA is 1-Lipschitz in (previous value, inputs) ---- *)
Lemma ema_real_lip al d : 0 < al <= 1 -> 0 <= d -> forall xs ys a b, length xs = length ys -> Rabs (a - b) <= d ->
  (forall j, (j < length xs)%nat -> Rabs (nth j xs 0 - nth j ys 0) <= d) ->
  forall j, (j < length xs)%nat -> Rabs (nth j (ema_real al a xs) 0 - nth j (ema_real al b ys) 0) <= d.
Proof.
  intros [Ha0 Ha1] Hd. induction xs as [|x xs IH]; intros [|y ys] a b L Hab Hxy j Hj; cbn in L, Hj; try lia; try discriminate.
  cbn [ema_real].
  assert (H0 : Rabs (x - y) <= d) by (apply (Hxy 0%nat); cbn; lia).
  assert (Hstep : Rabs (al * x + (1 - al) * a - (al * y + (1 - al) * b)) <= d).
  { replace (al * x + (1 - al) * a - (al * y + (1 - al) * b)) with (al * (x - y) + (1 - al) * (a - b)) by ring.
    eapply Rle_trans; [apply Rabs_triang|]. rewrite !Rabs_mult, (Rabs_pos_eq al), (Rabs_pos_eq (1 - al)) by lra.
    assert (al * Rabs (x - y) <= al * d) by (apply Rmult_le_compat_l; lra).
    assert ((1 - al) * Rabs (a - b) <= (1 - al) * d) by (apply Rmult_le_compat_l; lra). lra. }
  destruct j as [|j]; cbn [nth]; [exact Hstep|].
  apply IH; [lia|exact Hstep|intros i Hi; apply (Hxy (S i)); cbn; lia|lia].
Qed.

Lemma ema_stream_lip al d : 0 < al <= 1 -> 0 <= d -> forall xs ys, length xs = length ys ->
  (forall j, (j < length xs)%nat -> Rabs (nth j xs 0 - nth j ys 0) <= d) ->
  forall j, (j < length xs)%nat -> Rabs (nth j (ema_stream al xs) 0 - nth j (ema_stream al ys) 0) <= d.
Proof.
  intros Hal Hd [|x xs] [|y ys] L Hxy j Hj; cbn in L, Hj; try lia; try discriminate. cbn [ema_stream].
  assert (H0 : Rabs (x - y) <= d) by (apply (Hxy 0%nat); cbn; lia).
  destruct j as [|j]; cbn [nth]; [exact H0|].
  apply (ema_real_lip al d Hal Hd xs ys x y); [lia|exact H0|intros i Hi; apply (Hxy (S i)); cbn; lia|lia].
Qed.

Lemma Forall_of_nth {A} (P : A -> Prop) (l : list A) d : (forall j, (j < length l)%nat -> P (nth j l d)) -> Forall P l.
Proof.
  intros H. apply Forall_forall. intros x Hx. destruct (In_nth l x d Hx) as (j & Hj & <-). apply H. exact Hj.
Qed.

Theorem atr_float_error : forall p a xs M, atr_new O p = Ok a -> (p < 9007199254740992)%N ->
  1 <= M -> 3 * M <= bpow radix2 990 -> Forall (okin M) xs -> INR (length xs) * u <= / 256 ->
  let outs := atr_outs O a xs in
  let reals := ema_stream (kreal p) (tr_stream (map FR xs)) in
  length outs = length xs /\
  forall j, (j < length xs)%nat ->
    finF (nth j outs 0%float) /\ Rabs (FR (nth j outs 0%float) - nth j reals 0) <= (96 * INR (j + 1) + 3) * u * M.
Proof.
  intros p a xs M H Hp HM1 HM3 Hxs Htu outs reals. pose proof u_pos as Hu0.
  unfold atr_new in H. destruct (ema_new O p) as [e| |] eqn:Ee; cbn in H; try discriminate. injection H as <-.
  assert (Hp0 : p <> 0%N) by (unfold ema_new in Ee; destruct (N.eqb_spec p 0); [discriminate|assumption]).
  assert (Hal : 0 < kreal p <= 1) by (apply kreal_range; exact Hp0).
  unfold outs, reals. rewrite atr_wiring.
  destruct xs as [|x xs]; [split; [reflexivity|intros j Hj; cbn in Hj; lia]|].
  pose proof (Forall_inv Hxs) as Hx. pose proof (Forall_inv_tail Hxs) as Hxs'.
  assert (HM990 : M <= bpow radix2 990) by lra.
  destruct (ftr_running M HM1 HM990 xs x Hx Hxs') as (L1 & L2 & Hn).
  set (T := 0%float :: tr_outs O (mkTr (Some x)) xs).
  assert (ET : tr_outs O tr_new (x :: xs) = T) by reflexivity. rewrite ET.
  assert (LT : length T = length (x :: xs)) by (unfold T; cbn [length]; now rewrite L1).
  assert (HT : forall j, (j < length T)%nat -> finF (nth j T 0%float) /\ Rabs (FR (nth j T 0%float)) <= 3 * M /\
                  Rabs (FR (nth j T 0%float) - nth j (tr_stream (map FR (x :: xs))) 0) <= 3 * u * M).
  { intros [|j] Hj; unfold T; cbn [nth map tr_stream].
    - rewrite FR_zero, Rminus_diag_eq, Rabs_R0 by reflexivity. assert (0 <= u * M) by (apply Rmult_le_pos; lra).
      split; [exact finF_zero|]. split; lra.
    - apply Hn. unfold T in Hj. cbn [length] in Hj. lia. }
  assert (FT : Forall (okin (3 * M)) T) by (apply (Forall_of_nth _ T 0%float); intros j Hj; destruct (HT j Hj) as (A & B & _); split; assumption).
  assert (HM960 : bpow radix2 (-960) <= 3 * M) by (apply Rle_trans with 1; [change 1 with (bpow radix2 0); apply bpow_le; lia|lra]).
  destruct (ema_float_error p e T (3 * M) Ee Hp HM960 HM3 FT) as [Lo Ho]; [rewrite LT; exact Htu|].
  cbv zeta in Lo, Ho. split; [rewrite Lo; exact LT|].
  intros j Hj. rewrite <- LT in Hj. destruct (Ho j Hj) as [Fo Eo]. split; [exact Fo|].
  assert (Hlip : Rabs (nth j (ema_stream (kreal p) (map FR T)) 0 - nth j (ema_stream (kreal p) (tr_stream (map FR (x :: xs)))) 0) <= 3 * u * M).
  { apply ema_stream_lip; [exact Hal|apply Rmult_le_pos; [lra|lra]| | |rewrite map_length; exact Hj].
    - rewrite map_length, LT. cbn [map tr_stream length]. rewrite L2. reflexivity.
    - intros i Hi. rewrite map_length in Hi. replace 0 with (FR 0%float) at 1 by apply FR_zero. rewrite map_nth. apply (HT i Hi). }
  replace (FR (nth j (ema_outs O e T) 0%float) - nth j (ema_stream (kreal p) (tr_stream (map FR (x :: xs)))) 0)
    with ((FR (nth j (ema_outs O e T) 0%float) - nth j (ema_stream (kreal p) (map FR T)) 0) +
          (nth j (ema_stream (kreal p) (map FR T)) 0 - nth j (ema_stream (kreal p) (tr_stream (map FR (x :: xs)))) 0)) by ring.
  eapply Rle_trans; [apply Rabs_triang|].
  replace ((96 * INR (j + 1) + 3) * u * M) with (32 * INR (j + 1) * u * (3 * M) + 3 * u * M) by ring. lra.
Qed.

(* ... which is inside tau(t) * M *)
Lemma atr_bound_tau M T : 0 <= M -> 1 <= T ->
  (96 * T + 3) * u * M <= (1 / 10 ^ 12 + 1 / 10 ^ 15 * (T * R_sqrt.sqrt T)) * M.
Proof.
  intros HM HT. assert (Hu : u <= 12 / 10 ^ 17) by (unfold u; cbn; lra). pose proof u_pos as Hu0.
  replace ((96 * T + 3) * u * M) with (((96 * T + 3) * u) * M) by ring. apply Rmult_le_compat_r; [exact HM|].
  assert (H1 : (96 * T + 3) * u <= (96 * T + 3) * (12 / 10 ^ 17)) by (apply Rmult_le_compat_l; lra).
  assert (Hs0 : 0 <= T * R_sqrt.sqrt T) by (apply Rmult_le_pos; [lra|apply sqrt_pos]).
  destruct (Rle_dec T 80) as [Hs|Hl]; [lra|].
  destruct (Rle_dec T 144) as [Hm|Hl2].
  - assert (Hsq : 8 <= R_sqrt.sqrt T) by (rewrite <- (sqrt_square 8) by lra; apply sqrt_le_1_alt; lra).
    assert (8 * T <= T * R_sqrt.sqrt T) by (rewrite (Rmult_comm 8 T); apply Rmult_le_compat_l; lra). lra.
  - assert (Hsq : 12 <= R_sqrt.sqrt T) by (rewrite <- (sqrt_square 12) by lra; apply sqrt_le_1_alt; lra).
    assert (12 * T <= T * R_sqrt.sqrt T) by (rewrite (Rmult_comm 12 T); apply Rmult_le_compat_l; lra). lra.
Qed.

Theorem atr_float_within_tau : forall p a xs M, atr_new O p = Ok a -> (p < 9007199254740992)%N ->
  1 <= M -> 3 * M <= bpow radix2 990 -> Forall (okin M) xs -> INR (length xs) * u <= / 256 ->
  let outs := atr_outs O a xs in
  let reals := ema_stream (kreal p) (tr_stream (map FR xs)) in
  length outs = length xs /\
  forall j, (j < length xs)%nat ->
    finF (nth j outs 0%float) /\
    Rabs (FR (nth j outs 0%float) - nth j reals 0) <= (1 / 10 ^ 12 + 1 / 10 ^ 15 * (INR (j + 1) * R_sqrt.sqrt (INR (j + 1)))) * M.
Proof.
  intros p a xs M H Hp HM1 HM3 Hxs Htu outs reals.
  destruct (atr_float_error p a xs M H Hp HM1 HM3 Hxs Htu) as [L Hn]. split; [exact L|].
  intros j Hj. destruct (Hn j Hj) as [Fo Ho]. split; [exact Fo|]. eapply Rle_trans; [exact Ho|].
  apply atr_bound_tau; [lra|]. change 1 with (INR 1). apply le_INR. lia.
Qed.
