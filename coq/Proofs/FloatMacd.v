(* MACD on binary64, streams of any length: line, signal and histogram within a fixed multiple of (n_f + n_s + n_g) * 2^-53 * M of the
   real streams EMA_f - EMA_s, EMA_g(line), line - signal — by composing the saturating EMA bound (contraction), the rounding of the
   subtractions and the 1-Lipschitz dependence of the real EMA on its inputs. *)
From Coq Require Import Reals Lra Lia ZArith List Floats.
From Flocq Require Import Core.
From TA Require Import Base Model FloatInst Proofs.Prims Proofs.WF Proofs.XBase Proofs.Wiring Proofs.XEma Proofs.XCov
  Proofs.FloatErr Proofs.FloatSma Proofs.FloatEma Proofs.FloatSd Proofs.FloatFast Proofs.FloatMad Proofs.FloatAtr.
Import ListNotations.
Open Scope R_scope.
Local Notation O := FOps.
Local Notation float := PrimFloat.float.

Lemma map2_length' {A B C} (f : A -> B -> C) a b : length b = length a -> length (map2 f a b) = length a.
Proof. revert b; induction a as [|x a IH]; intros [|y b] L; cbn in *; try discriminate; try reflexivity. f_equal. apply IH. lia. Qed.
Lemma map2_nth' {A B C} (f : A -> B -> C) a b j da db dc : length b = length a -> (j < length a)%nat ->
  nth j (map2 f a b) dc = f (nth j a da) (nth j b db).
Proof.
  revert j b; induction a as [|x a IH]; intros j [|y b] L Hj; cbn in *; try discriminate; try lia.
  destruct j as [|j]; [reflexivity|]. apply IH; lia.
Qed.

Lemma abs_bounds_R x b : Rabs x <= b -> - b <= x <= b.
Proof. intros H. unfold Rabs in H. destruct (Rcase_abs x); lra. Qed.

Lemma ema_stream_abs k xs M : 0 < k <= 1 -> (forall j, (j < length xs)%nat -> Rabs (nth j xs 0) <= M) ->
  forall j, (j < length xs)%nat -> Rabs (nth j (ema_stream k xs) 0) <= M.
Proof.
  intros Hk Hx j Hj.
  assert (Hin : forall y, In y xs -> - M <= y <= M).
  { intros y Hy. destruct (In_nth xs y 0 Hy) as (i & Hi & <-). apply abs_bounds_R. apply Hx. exact Hi. }
  assert (L : length (ema_stream k xs) = length xs).
  { destruct xs as [|x xs]; [reflexivity|]. cbn [ema_stream length]. f_equal. clear. revert x. induction xs as [|y ys IH]; intros x; [reflexivity|]. cbn [ema_real length]. f_equal. apply IH. }
  assert (Hall : forall e, In e (ema_stream k xs) -> - M <= e <= M).
  { destruct xs as [|x xs]; [intros e []|]. cbn [ema_stream]. intros e [<-|He]; [apply Hin; left; reflexivity|].
    apply (ema_real_between k (- M) M x xs); [lra|apply Hin; left; reflexivity|intros y Hy; apply Hin; right; exact Hy|exact He]. }
  apply Rabs_le. apply Hall. apply nth_In. rewrite L. exact Hj.
Qed.

Lemma ema_stream_length k X : length (ema_stream k X) = length X.
Proof. destruct X as [|x0 X0]; [reflexivity|]. cbn [ema_stream length]. f_equal. revert x0. induction X0 as [|y ys IH]; intros x0; [reflexivity|]. cbn [ema_real length]. f_equal. apply IH. Qed.

Definition ebound (p : N) (M : R) : R := 17 * (IZR (Z.of_N p) + 1) * u * M.

Lemma ebound_small p M : (p < 35184372088832)%N -> 0 <= M -> 0 <= ebound p M <= M / 8.
Proof.
  intros Hp HM. unfold ebound. pose proof u_pos as Hu0.
  assert (Hu : u <= 12 / 10 ^ 17) by (unfold u; cbn; lra).
  assert (Hn0 : 0 <= IZR (Z.of_N p)) by (apply IZR_le; lia).
  assert (Hn : IZR (Z.of_N p) + 1 <= 2 ^ 45) by (replace (2 ^ 45) with (IZR 35184372088832) by (cbn; lra); rewrite <- plus_IZR; apply IZR_le; lia).
  assert (H1 : 17 * (IZR (Z.of_N p) + 1) * u <= / 8).
  { apply Rle_trans with (17 * 2 ^ 45 * (12 / 10 ^ 17)); [|lra]. apply Rmult_le_compat; try lra; apply Rmult_le_pos; lra. }
  split; [apply Rmult_le_pos; [apply Rmult_le_pos; lra|exact HM]|].
  replace (M / 8) with (/ 8 * M) by field. apply Rmult_le_compat_r; assumption.
Qed.

Theorem macd_float_error : forall pf ps pg s xs M, macd_new O pf ps pg = Ok s ->
  (pf < 35184372088832)%N -> (ps < 35184372088832)%N -> (pg < 35184372088832)%N ->
  1 <= M -> 4 * M <= bpow radix2 990 -> Forall (okin M) xs ->
  let A := ebound pf M in let B := ebound ps M in let C := ebound pg M in
  let D := A + B + 4 * u * M in
  let outs := macd_outs O s xs in
  let reals := macd_real (kreal pf) (kreal ps) (kreal pg) (map FR xs) in
  length outs = length xs /\
  forall j, (j < length xs)%nat -> exists l sg h L SG H,
    nth j outs [] = [l; sg; h] /\ nth j reals [] = [L; SG; H] /\ finF l /\ finF sg /\ finF h /\
    Rabs (FR l - L) <= D /\ Rabs (FR sg - SG) <= 3 * C + D /\ Rabs (FR h - H) <= 2 * D + 3 * C + 7 * u * M.
Proof.
  intros pf ps pg s xs M Hnew Hpf Hps Hpg HM1 HM4 Hxs A B C D outs reals.
  pose proof u_pos as Hu0. pose proof u_le as Hu1. pose proof eta_pos as He0. pose proof eta_le_u as Heu. pose proof BIG_ge as HBg.
  assert (HM0 : 0 <= M) by lra.
  assert (HBIG : 8 * M <= BIG).
  { unfold BIG. apply Rle_trans with (2 * bpow radix2 990); [lra|]. change 2 with (bpow radix2 1) at 1. rewrite <- bpow_plus. apply bpow_le. lia. }
  unfold macd_new in Hnew.
  destruct (ema_new O pf) as [f| |] eqn:Ef; cbn in Hnew; try discriminate.
  destruct (ema_new O ps) as [sl| |] eqn:Es; cbn in Hnew; try discriminate.
  destruct (ema_new O pg) as [g| |] eqn:Eg; cbn in Hnew; try discriminate. injection Hnew as <-.
  assert (Hp0 : forall p e, ema_new O p = Ok e -> p <> 0%N) by (intros p e H; unfold ema_new in H; destruct (N.eqb_spec p 0); [discriminate|assumption]).
  pose proof (kreal_range pf (Hp0 _ _ Ef)) as Kf. pose proof (kreal_range ps (Hp0 _ _ Es)) as Ks. pose proof (kreal_range pg (Hp0 _ _ Eg)) as Kg.
  destruct (ebound_small pf M Hpf HM0) as [HA0 HA]. destruct (ebound_small ps M Hps HM0) as [HB0 HB]. destruct (ebound_small pg M Hpg HM0) as [HC0 HC].
  fold A in HA0, HA. fold B in HB0, HB. fold C in HC0, HC.
  assert (HuM : u * M <= M / 1000) by (replace (M / 1000) with (/ 1000 * M) by field; apply Rmult_le_compat_r; lra).
  assert (HuM0 : 0 <= u * M) by (apply Rmult_le_pos; lra).
  assert (HeM : eta <= u * M) by (apply Rle_trans with (u * 1); [lra|apply Rmult_le_compat_l; lra]).
  assert (HD : 0 <= D <= M / 3) by (unfold D; lra).
  assert (HMl : bpow radix2 (-960) <= M) by (apply Rle_trans with 1; [change 1 with (bpow radix2 0); apply bpow_le; lia|exact HM1]).
  assert (HMu : M <= bpow radix2 990) by lra.
  assert (H47 : forall p, (p < 35184372088832)%N -> (p < 140737488355328)%N) by (intros; lia).
  set (X := map FR xs). set (n := length xs).
  destruct (ema_float_uniform pf f xs M Ef (H47 _ Hpf) HMl HMu Hxs) as [LF HF].
  destruct (ema_float_uniform ps sl xs M Es (H47 _ Hps) HMl HMu Hxs) as [LS HS].
  fold X in HF, HS. fold (ebound pf M) in HF. fold A in HF. fold (ebound ps M) in HS. fold B in HS.
  set (EF := ema_outs O f xs) in *. set (ES := ema_outs O sl xs) in *.
  set (EFr := ema_stream (kreal pf) X) in *. set (ESr := ema_stream (kreal ps) X) in *.
  assert (HXb : forall j, (j < length X)%nat -> Rabs (nth j X 0) <= M).
  { intros j Hj. unfold X in *. rewrite map_length in Hj. replace 0 with (FR 0%float) by apply FR_zero. rewrite map_nth.
    rewrite Forall_forall in Hxs. apply (Hxs (nth j xs 0%float)). apply nth_In. exact Hj. }
  assert (LX : length X = n) by (unfold X; apply map_length).
  assert (HEFr : forall j, (j < n)%nat -> Rabs (nth j EFr 0) <= M) by (intros j Hj; apply ema_stream_abs; [exact Kf|exact HXb|rewrite LX; exact Hj]).
  assert (HESr : forall j, (j < n)%nat -> Rabs (nth j ESr 0) <= M) by (intros j Hj; apply ema_stream_abs; [exact Ks|exact HXb|rewrite LX; exact Hj]).
  assert (Lst : forall k, length (ema_stream k X) = n).
  { intros k. rewrite <- LX. destruct X as [|x0 X0]; [reflexivity|]. cbn [ema_stream length]. f_equal. clear. revert x0. induction X0 as [|y ys IH]; intros x0; [reflexivity|]. cbn [ema_real length]. f_equal. apply IH. }
  assert (LEFr : length EFr = n) by apply Lst. assert (LESr : length ESr = n) by apply Lst.
  (* the line *)
  set (LINE := map2 (sub O) EF ES). set (LINEr := map2 Rminus EFr ESr).
  assert (LL : length LINE = n) by (unfold LINE; rewrite map2_length'; [exact LF|rewrite LS, LF; reflexivity]).
  assert (LLr : length LINEr = n) by (unfold LINEr; rewrite map2_length'; [exact LEFr|rewrite LEFr, LESr; reflexivity]).
  assert (HLine : forall j, (j < n)%nat -> finF (nth j LINE 0%float) /\ Rabs (FR (nth j LINE 0%float) - nth j LINEr 0) <= D /\ Rabs (FR (nth j LINE 0%float)) <= 3 * M).
  { intros j Hj. unfold LINE, LINEr.
    rewrite (map2_nth' (sub O) EF ES j 0%float 0%float 0%float) by (rewrite ?LS, ?LF; try reflexivity; exact Hj).
    rewrite (map2_nth' Rminus EFr ESr j 0 0 0) by (rewrite ?LEFr, ?LESr; try reflexivity; exact Hj).
    destruct (HF j Hj) as [F1 E1]. destruct (HS j Hj) as [F2 E2]. specialize (HEFr j Hj). specialize (HESr j Hj).
    set (a := nth j EF 0%float) in *. set (b := nth j ES 0%float) in *. set (ar := nth j EFr 0) in *. set (br := nth j ESr 0) in *.
    assert (Hab : Rabs (FR a - FR b) <= 3 * M).
    { replace (FR a - FR b) with ((FR a - ar) - (FR b - br) + (ar - br)) by ring.
      eapply Rle_trans; [apply Rabs_triang|]. eapply Rle_trans; [apply Rplus_le_compat_r, Rabs_triang|]. rewrite Rabs_Ropp.
      assert (Rabs (ar - br) <= 2 * M) by (eapply Rle_trans; [apply Rabs_triang|]; rewrite Rabs_Ropp; lra). lra. }
    cbn [sub O]. destruct (fsub_err a b F1 F2) as (Fl & e & nn & He & Hn & Rl); [lra|].
    split; [exact Fl|]. split.
    - rewrite Rl. replace ((FR a - FR b) * (1 + e) + nn - (ar - br)) with ((FR a - ar) - (FR b - br) + (FR a - FR b) * e + nn) by ring.
      eapply Rle_trans; [apply Rabs_triang|]. eapply Rle_trans; [apply Rplus_le_compat_r, Rabs_triang|].
      eapply Rle_trans; [apply Rplus_le_compat_r, Rplus_le_compat_r, Rabs_triang|]. rewrite Rabs_Ropp, Rabs_mult.
      assert (Rabs (FR a - FR b) * Rabs e <= 3 * M * u) by (apply Rmult_le_compat; try apply Rabs_pos; assumption).
      unfold D. lra.
    - eapply Rle_trans; [apply (mag_of_err _ _ _ _ Rl He Hn)|].
      assert (Rabs (FR a - FR b) <= 2 * M + A + B).
      { replace (FR a - FR b) with ((FR a - ar) - (FR b - br) + (ar - br)) by ring.
        eapply Rle_trans; [apply Rabs_triang|]. eapply Rle_trans; [apply Rplus_le_compat_r, Rabs_triang|]. rewrite Rabs_Ropp.
        assert (Rabs (ar - br) <= 2 * M) by (eapply Rle_trans; [apply Rabs_triang|]; rewrite Rabs_Ropp; lra). lra. }
      assert (Rabs (FR a - FR b) * (1 + u) <= (2 * M + A + B) * (1 + u)) by (apply Rmult_le_compat_r; lra).
      assert ((2 * M + A + B) * u <= 3 * M * u) by (apply Rmult_le_compat_r; lra). lra. }
  (* the signal *)
  assert (FLine : Forall (okin (3 * M)) LINE).
  { apply (Forall_of_nth _ LINE 0%float). intros j Hj. rewrite LL in Hj. destruct (HLine j Hj) as (Fl & _ & Bl). split; assumption. }
  assert (HM3l : bpow radix2 (-960) <= 3 * M) by lra. assert (HM3u : 3 * M <= bpow radix2 990) by lra.
  destruct (ema_float_uniform pg g LINE (3 * M) Eg (H47 _ Hpg) HM3l HM3u FLine) as [LG HG].
  set (SIG := ema_outs O g LINE) in *. set (SIGm := ema_stream (kreal pg) (map FR LINE)) in *. set (SIGr := ema_stream (kreal pg) LINEr).
  assert (HLip : forall j, (j < n)%nat -> Rabs (nth j SIGm 0 - nth j SIGr 0) <= D).
  { intros j Hj. unfold SIGm, SIGr. apply ema_stream_lip; [exact Kg|apply HD|rewrite map_length, LL, LLr; reflexivity| |rewrite map_length, LL; exact Hj].
    intros i Hi. rewrite map_length, LL in Hi. replace 0 with (FR 0%float) at 1 by apply FR_zero. rewrite map_nth. apply (HLine i Hi). }
  assert (HLr : forall j, (j < length LINEr)%nat -> Rabs (nth j LINEr 0) <= 2 * M).
  { intros j Hj. rewrite LLr in Hj. unfold LINEr. rewrite (map2_nth' Rminus EFr ESr j 0 0 0) by (rewrite ?LEFr, ?LESr; try reflexivity; exact Hj).
    specialize (HEFr j Hj). specialize (HESr j Hj). eapply Rle_trans; [apply Rabs_triang|]. rewrite Rabs_Ropp. lra. }
  assert (HSIGr : forall j, (j < n)%nat -> Rabs (nth j SIGr 0) <= 2 * M) by (intros j Hj; apply ema_stream_abs; [exact Kg|exact HLr|rewrite LLr; exact Hj]).
  (* assemble *)
  unfold outs, reals. rewrite macd_wiring. unfold macd_hand, macd_real. fold X. fold EF ES LINE SIG. fold EFr ESr LINEr SIGr.
  split; [rewrite map2_length'; [exact LL|rewrite LG, LL; reflexivity]|].
  intros j Hj. fold n in Hj. destruct (HLine j Hj) as (Fl & El & Bl). rewrite <- LL in Hj. destruct (HG j Hj) as [Fs Es']. rewrite LL in Hj.
  fold (ebound pg (3 * M)) in Es'. assert (E3C : ebound pg (3 * M) = 3 * C) by (unfold C, ebound; ring). rewrite E3C in Es'.
  specialize (HLip j Hj). specialize (HSIGr j Hj).
  set (l := nth j LINE 0%float) in *. set (sg := nth j SIG 0%float) in *.
  set (Lr := nth j LINEr 0) in *. set (Sm := nth j SIGm 0) in *. set (Sr := nth j SIGr 0) in *.
  assert (ESg : Rabs (FR sg - Sr) <= 3 * C + D).
  { replace (FR sg - Sr) with ((FR sg - Sm) + (Sm - Sr)) by ring. eapply Rle_trans; [apply Rabs_triang|]. lra. }
  assert (Hls : Rabs (FR l - FR sg) <= 6 * M).
  { replace (FR l - FR sg) with (FR l - (FR sg - Sr) - Sr) by ring.
    eapply Rle_trans; [apply Rabs_triang|]. eapply Rle_trans; [apply Rplus_le_compat_r, Rabs_triang|]. rewrite !Rabs_Ropp. lra. }
  destruct (fsub_err l sg Fl Fs) as (Fh & e & nn & He & Hn & Rh); [lra|].
  exists l, sg, (l - sg)%float, Lr, Sr, (Lr - Sr).
  split; [rewrite (map2_nth' _ LINE SIG j 0%float 0%float []) by (rewrite ?LG, ?LL; try reflexivity; exact Hj); reflexivity|].
  split; [rewrite (map2_nth' _ LINEr SIGr j 0 0 []) by (unfold SIGr; rewrite ?ema_stream_length, ?LLr; try reflexivity; exact Hj); reflexivity|].
  repeat split; try assumption.
  rewrite Rh. replace ((FR l - FR sg) * (1 + e) + nn - (Lr - Sr)) with ((FR l - Lr) - (FR sg - Sr) + (FR l - FR sg) * e + nn) by ring.
  eapply Rle_trans; [apply Rabs_triang|]. eapply Rle_trans; [apply Rplus_le_compat_r, Rabs_triang|].
  eapply Rle_trans; [apply Rplus_le_compat_r, Rplus_le_compat_r, Rabs_triang|]. rewrite Rabs_Ropp, Rabs_mult.
  assert (Rabs (FR l - FR sg) * Rabs e <= 6 * M * u) by (apply Rmult_le_compat; try apply Rabs_pos; assumption). lra.
Qed.
