# C06 — Serialize/deserialize at any point of a stream preserves all future outputs
from props.util import *

rule = ("for each of the 22 indicators (periods 1..4 and sampled larger): two instances fed the same history in lock-step; at a chosen "
        "position (every prefix position for short histories: fresh, warming up, full window, just reset; random positions in long ones) "
        "slot 0 is serialized with bincode and replaced by the deserialized value (sometimes twice in a row, sometimes again later), "
        "then both are probed and fed a common continuation of >= period+2 inputs; the serialized bytes of both are compared with the "
        "model's byte image at the end. Plus periods 2^31, 2^32+9, 2^53+1 for the allocation-free kinds and 65537 for the windowed ones (implementation only), and, per indicator, one long run: 1000 inputs behind a 1e14 magnitude cliff, round-trip, 1200 more inputs. DataItem round-trips are covered by the builder probes of C16. Non-trivial: distinct case "
        "with at least one input after the round-trip")
assumptions = ["bincode 1.3 default options; serde derive expansion is modelled (item layout), not verified"]


def gen_cases(ctx):
    r = ctx.rng
    cases = []
    for ind in ALL:
        plist = [1, 2, 3, 4] if nper(ind) > 0 else [0]
        grid = params_grid(ind, plist)[: (6 if not ctx.thorough else 30)]
        if ctx.thorough:
            grid += params_grid(ind, [7, 20, 64])[:6]
        for gi, pr in enumerate(grid):
            p = max(pr[0], pr[1], pr[2], 1)
            hlen = 2 * p + 3
            hist = feed(r, ind, hlen, p=p)
            if r.random() < 0.5:
                hist.insert(r.randrange(len(hist) + 1), ("r", 0))
            positions = list(range(len(hist) + 1)) if (p <= 2 or ctx.thorough) else sorted(set([0, 1, p, p + 1, len(hist)] + [r.randrange(len(hist) + 1)]))
            for pos in positions:
                cont = feed(r, ind, p + 2 + r.randint(0, 3), p=p)
                ops = [new_op(0, ind, pr), new_op(1, ind, pr)]

                def both(o):
                    return [o, (o[0], 1) + tuple(o[2:])]
                for o in hist[:pos]:
                    ops += both(o)
                ops.append(("s", 0))
                if pos % 3 == 0:
                    ops.append(("s", 0))
                ops += [("d", 0), ("d", 1)]
                rest = hist[pos:] + cont
                for k, o in enumerate(rest):
                    ops += both(o)
                    if k == len(rest) // 2 and pos % 2 == 0:
                        ops.append(("s", 0))
                cases.append(Case("%s_g%d_%d_%d_%d_at%d" % (ind, gi, pr[0], pr[1], pr[2], pos), ops, dump=(0, 1),
                                  meta={"ind": ind, "params": pr[:3], "pos": pos, "after": len(rest)}))
    # seed-independent long runs: state that is not carried by the serialized form (a tick counter behind serde(skip), a cache) only
    # matters once maintenance code runs — history of 1000 inputs behind a magnitude cliff, round-trip, 1200 more inputs
    for ind in ALL:
        pr = long_params(ind, 4)
        fd = long_feed(ind, 2200, "plain")
        cl = long_feed(ind, 1, "plain")[0]
        big = (cl[0], 0) + tuple((v * 1e14 if i < 4 or cl[0] == "n" else v) for i, v in enumerate(cl[2:]))
        hist = [big] + [(o[0], 0) + tuple((v / 1000.0 if (o[0] == "n" or i < 4) else v) for i, v in enumerate(o[2:])) for o in fd]
        ops = [new_op(0, ind, pr), new_op(1, ind, pr)]
        for k, o in enumerate(hist):
            ops += [o, (o[0], 1) + tuple(o[2:])]
            if k == 1000:
                ops += [("s", 0), ("d", 0), ("d", 1)]
        cases.append(Case("%s_long_at1000" % ind, ops, dump=(0, 1), meta={"ind": ind, "params": pr[:3], "pos": 1000, "after": 1200}))
    # multipliers a validating deserializer would reject (seed-independent): +-inf, NaN, -0.0, negative, huge, tiny
    for ind in ALL:
        if ind not in HAS_MULT:
            continue
        for mi_, m_ in enumerate((float("inf"), float("-inf"), float("nan"), -0.0, -2.5, 1e300, 5e-324)):
            pr = (3, 0, 0, m_)
            fd = long_feed(ind, 14)
            ops = [new_op(0, ind, pr), new_op(1, ind, pr)]
            for k_, o in enumerate(fd):
                ops += [o, (o[0], 1) + tuple(o[2:])]
                if k_ in (0, 7):
                    ops += [("s", 0)]
            ops += [("d", 0), ("d", 1)]
            cases.append(Case("%s_mult%d" % (ind, mi_), ops, dump=(0, 1), meta={"ind": ind, "params": pr[:3], "pos": 8, "after": 6}))
    # parameters beyond 2^16 and 2^32 (seed-independent): a deserializer that bounds the window "against huge allocations", a period
    # written as a 32-bit integer. Allocation-free kinds take periods around 2^32 (with T1); the windowed ones period 65 537 on the
    # implementation only (the list-based model costs O(period) per ring update)
    for ind in ("EMA", "ATR", "RSI", "MACD", "PPO", "KC"):
        for big in (2 ** 32 + 9, 2 ** 31, 2 ** 53 + 1):
            k = nper(ind)
            pr = (big, 2 ** 32 + 3 if k >= 2 else 0, 9 if k >= 3 else 0, 2.0 if ind in HAS_MULT else 0.0)
            fd = long_feed(ind, 12)
            ops = [new_op(0, ind, pr), new_op(1, ind, pr)]
            for k_, o in enumerate(fd):
                ops += [o, (o[0], 1) + tuple(o[2:])]
                if k_ == 5:
                    ops += [("s", 0), ("d", 0), ("d", 1)]
            cases.append(Case("%s_bigparam_%d" % (ind, big), ops, dump=(0, 1), meta={"ind": ind, "params": pr[:3], "pos": 6, "after": 6}))
    for ind in ALL:
        if nper(ind) == 0 or ind in ("EMA", "ATR", "RSI", "MACD", "PPO", "KC") or (ind in ("MAD", "CCI", "ER") and not ctx.thorough):
            continue
        p = 65537
        k = nper(ind)
        pr = (p, 3 if k >= 2 else 0, 2 if k >= 3 else 0, 2.0 if ind in HAS_MULT else 0.0)
        fd = long_feed(ind, 60)
        ops = [new_op(0, ind, pr), new_op(1, ind, pr)]
        for k_, o in enumerate(fd):
            ops += [o, (o[0], 1) + tuple(o[2:])]
            if k_ == 40:
                ops += [("s", 0), ("d", 0), ("d", 1)]
        cases.append(Case("%s_bigwindow_%d" % (ind, p), ops, dump=(), meta={"ind": ind, "params": pr[:3], "pos": 41, "after": 19, "harness_only": True}))
    # DataItem round-trips (builder probe: build, serialize, deserialize, compare field bits)
    vals = [0.0, -0.0, 1.0, 2.5, 1e-300, 1e300, 5e-324, float("inf")]
    k = 0
    for _ in range(60 if not ctx.thorough else 600):
        l = r.choice([0.0, -0.0, 1.0, 0.5, 5e-324, -3.0])
        h = l + r.choice([0.0, 1.0, 2.5, 1e300])
        o = r.choice([l, h])
        c_ = r.choice([l, h])
        v = r.choice(vals)
        cases.append(Case("item%d" % k, [("build", [("o", o), ("h", h), ("l", l), ("c", c_), ("v", v)])], dump=(),
                          meta={"ind": "DataItem", "params": (0, 0, 0), "pos": 0, "after": 1}))
        k += 1
    return cases


def nontrivial(c):
    return c.meta["after"] >= 1


def check_impl(ctx, cases):
    out = []
    for c in cases:
        if c.meta["ind"] == "DataItem":
            ob = c.obs[0]
            if isinstance(ob, tuple) and ob[0] == "built" and (ob[2].get("serde_eq") != "true" or ob[2].get("clone_eq") != "true"):
                out.append(Violation("DataItem %s does not round-trip through serde to an equal value" % (c.ops[0][1],), case=c))
            continue
        for o, ob in zip(c.ops, c.obs):
            if o[0] == "s" and ob != "ok":
                out.append(Violation("%s: serialize/deserialize failed: %s" % (c.meta["ind"], ob), case=c))
        probes = [ob for o, ob in zip(c.ops, c.obs) if o[0] == "d"]
        if len(probes) == 2 and probes[0] != probes[1]:
            out.append(Violation("%s: parameters / Display differ after the round-trip: %s vs %s" % (c.meta["ind"], probes[0], probes[1]), case=c))
        a, b = outs_of(c, 0), outs_of(c, 1)
        for (i, oa), (j, ob) in zip(a, b):
            if not same_obs(oa, ob, rel=1e-12):
                out.append(Violation("%s%s: output after a serde round-trip at position %d differs from the original: op %d -> %s vs op %d -> %s"
                                     % (c.meta["ind"], c.meta["params"], c.meta["pos"], i + 1, oa, j + 1, ob), case=c))
                break
        if c.images.get(0) != c.images.get(1):
            out.append(Violation("%s: final serialized state of the round-tripped instance differs from the original's" % c.meta["ind"], case=c))
        if len(out) > 10:
            break
    return out
