(* Minimum / Maximum: the output is a least / greatest element of exactly the last min(t,p) inputs,
   for every period, every cursor position the buffer was (re)started from, and every comparison
   that is a strict total order with top element [inf] on the values fed.  Consequences: exactness
   (C01, C13), finite memory (C17), reset = fresh observationally (C04), Min <= Max (C09). *)
From Coq Require Import Lia.
From TA Require Import Base Model Proofs.Prims Proofs.WF Proofs.Ring.
Open Scope N_scope.

Section Order.
Context {F : Type}.

(* a strict total order on the values satisfying P, with a top element *)
Record order_on (lt : F -> F -> bool) (top : F) (P : F -> Prop) : Prop := {
  o_irrefl : forall a, P a -> lt a a = false;
  o_trans : forall a b c, P a -> P b -> P c -> lt a b = true -> lt b c = true -> lt a c = true;
  o_total : forall a b, P a -> P b -> lt a b = false -> lt b a = false -> a = b;
  o_top : forall a, P a -> lt top a = false;
  o_Ptop : P top }.

Lemma o_cmp lt top P (OR : order_on lt top P) a b c :
  P a -> P b -> P c -> lt a b = true -> lt a c = true \/ lt c b = true.
Proof.
  intros Pa Pb Pc Hab. destruct (lt a c) eqn:E1; [left; reflexivity|]. right.
  destruct (lt c a) eqn:E2.
  - exact (o_trans _ _ _ OR c a b Pc Pa Pb E2 Hab).
  - rewrite <- (o_total _ _ _ OR a c Pa Pc E1 E2). exact Hab.
Qed.

Lemma o_asym lt top P (OR : order_on lt top P) a b : P a -> P b -> lt a b = true -> lt b a = false.
Proof.
  intros Pa Pb H. destruct (lt b a) eqn:E; [|reflexivity].
  pose proof (o_trans _ _ _ OR a b a Pa Pb Pa H E) as C. rewrite (o_irrefl _ _ _ OR a Pa) in C. discriminate.
Qed.

(* not-less is transitive *)
Lemma o_nlt_trans lt top P (OR : order_on lt top P) a b c :
  P a -> P b -> P c -> lt a b = false -> lt b c = false -> lt a c = false.
Proof.
  intros Pa Pb Pc H1 H2. destruct (lt a c) eqn:E; [|reflexivity].
  destruct (o_cmp lt top P OR a c b Pa Pc Pb E) as [C|C]; congruence.
Qed.

End Order.

Section MinProofs.
Context {F : Type} (O : Ops F).
Variable P : F -> Prop.
Hypothesis OR : order_on (ltb O) (inf O) P.

Local Notation d := (inf O).

Definition least_in (l : list F) (m : F) : Prop := In m l /\ forall y, In y l -> ltb O y m = false.

(* ---- the linear scan returns the position of a least element ---- *)
Lemma find_min_spec (dq : list F) : dq <> [] -> (forall y, In y dq -> P y) ->
  (N.to_nat (find_min_index O dq) < length dq)%nat /\
  forall y, In y dq -> ltb O y (nth (N.to_nat (find_min_index O dq)) dq d) = false.
Proof.
  intros Hne HP. unfold find_min_index.
  match goal with |- context [fold_left ?g dq ?init] => set (f := g) end.
  assert (G : forall l pre m idx i, dq = pre ++ l -> i = N.of_nat (length pre) -> P m ->
     (forall y, In y pre -> ltb O y m = false) ->
     ((N.to_nat idx < length pre)%nat /\ nth (N.to_nat idx) dq d = m) \/ (m = d /\ idx = 0) ->
     let '(m', idx', _) := fold_left f l (m, idx, i) in
     P m' /\ (forall y, In y dq -> ltb O y m' = false) /\
     (((N.to_nat idx' < length dq)%nat /\ nth (N.to_nat idx') dq d = m') \/ (m' = d /\ idx' = 0))).
  { induction l as [|a l IH]; intros pre m idx i Hdq Hi Pm Hpre Hidx; cbn [fold_left].
    - rewrite app_nil_r in Hdq. subst pre. repeat split; auto.
    - assert (Pa : P a) by (apply HP; rewrite Hdq; apply in_or_app; right; left; reflexivity).
      assert (Hdq' : dq = (pre ++ [a]) ++ l) by (rewrite <- app_assoc; exact Hdq).
      assert (Hi' : i + 1 = N.of_nat (length (pre ++ [a]))) by (rewrite app_length; cbn; lia).
      unfold f at 2. cbv beta iota. destruct (ltb O a m) eqn:E.
      + apply (IH (pre ++ [a]) a i (i + 1) Hdq' Hi' Pa).
        * intros y Hy. apply in_app_or in Hy as [Hy|[<-|[]]].
          -- assert (Py : P y) by (apply HP; rewrite Hdq; apply in_or_app; left; exact Hy).
             destruct (o_cmp _ _ _ OR a m y Pa Pm Py E) as [C|C].
             ++ exact (o_asym _ _ _ OR a y Pa Py C).
             ++ rewrite (Hpre y Hy) in C. discriminate.
          -- exact (o_irrefl _ _ _ OR _ Pa).
        * left. subst i. rewrite Nnat.Nat2N.id. split; [rewrite app_length; cbn; lia|].
          rewrite Hdq. rewrite app_nth2 by lia. replace (length pre - length pre)%nat with 0%nat by lia. reflexivity.
      + apply (IH (pre ++ [a]) m idx (i + 1) Hdq' Hi' Pm).
        * intros y Hy. apply in_app_or in Hy as [Hy|[<-|[]]]; [exact (Hpre y Hy)|exact E].
        * destruct Hidx as [[H1 H2]|H]; [left; split; [rewrite app_length; lia|exact H2]|right; exact H]. }
  specialize (G dq [] d 0 0 eq_refl eq_refl (o_Ptop _ _ _ OR) (fun y (H : In y []) => match H with end)
                (or_intror (conj eq_refl eq_refl))).
  destruct (fold_left f dq (inf O, 0, 0)) as [[m' idx'] i']. destruct G as (Pm & Hall & Hidx).
  destruct Hidx as [[H1 H2]|[H1 H2]].
  - split; [exact H1|]. rewrite H2. exact Hall.
  - subst idx'. cbn. destruct dq as [|a0 dq']; [congruence|]. split; [cbn; lia|]. cbn [nth].
    assert (Pa : P a0) by (apply HP; left; reflexivity).
    assert (Ea : a0 = d).
    { apply (o_total _ _ _ OR a0 d Pa (o_Ptop _ _ _ OR)).
      - rewrite <- H1. apply Hall. left; reflexivity.
      - apply (o_top _ _ _ OR). exact Pa. }
    intros y Hy. rewrite Ea, <- H1. apply Hall. exact Hy.
Qed.

(* ---- invariant: the buffer is the window (padded), and min_index points at a least element ---- *)
Definition min_inv (s : @Min F) (h : list F) : Prop :=
  wf_min s /\ (forall y, In y (min_deque s) -> P y) /\
  rot (N.to_nat (min_cur_index s)) (min_deque s) = lastn (N.to_nat (min_period s)) (padded d (N.to_nat (min_period s)) h) /\
  (forall y, In y (min_deque s) -> ltb O y (nth (N.to_nat (min_min_index s)) (min_deque s) d) = false).

(* any all-padding buffer, wherever its two cursors stand, satisfies the invariant with empty history:
   this is the state after new() (cursors 0) and after reset() (cursors anywhere) *)
Lemma min_inv_init p mi ci : 0 < p -> p <= ALLOC_MAX -> mi < p -> ci < p ->
  min_inv (mkMin p mi ci (repeat d (N.to_nat p))) [].
Proof.
  intros H1 H2 H3 H4. unfold min_inv; cbn [min_deque min_period min_cur_index min_min_index].
  split; [unfold wf_min; cbn; rewrite repeat_length; repeat split; lia|].
  split; [intros y Hy; apply repeat_spec in Hy; subst y; exact (o_Ptop _ _ _ OR)|].
  split.
  - rewrite lastn_padded_nil. unfold rot.
    rewrite <- (firstn_skipn (N.to_nat ci) (repeat d (N.to_nat p))) at 3.
    assert (E1 : skipn (N.to_nat ci) (repeat d (N.to_nat p)) = repeat d (N.to_nat p - N.to_nat ci)).
    { replace (N.to_nat p) with (N.to_nat ci + (N.to_nat p - N.to_nat ci))%nat at 1 by lia.
      rewrite repeat_app, skipn_app, repeat_length.
      rewrite skipn_all2 by (rewrite repeat_length; lia).
      replace (N.to_nat ci - N.to_nat ci)%nat with 0%nat by lia. reflexivity. }
    assert (E2 : firstn (N.to_nat ci) (repeat d (N.to_nat p)) = repeat d (N.to_nat ci)).
    { replace (N.to_nat p) with (N.to_nat ci + (N.to_nat p - N.to_nat ci))%nat at 1 by lia.
      rewrite repeat_app, firstn_app, repeat_length.
      rewrite firstn_all2 by (rewrite repeat_length; lia).
      replace (N.to_nat ci - N.to_nat ci)%nat with 0%nat by lia. cbn. apply app_nil_r. }
    rewrite E1, E2, <- !repeat_app. f_equal. lia.
  - intros y Hy. apply repeat_spec in Hy. subst y.
    rewrite nth_repeat. exact (o_irrefl _ _ _ OR d (o_Ptop _ _ _ OR)).
Qed.

Lemma In_set_nth (l : list F) i x y : (i < length l)%nat -> In y (set_nth l i x) -> y = x \/ In y l.
Proof.
  intros H Hy. unfold set_nth in Hy. apply in_app_or in Hy as [Hy|[Hy|Hy]].
  - right. rewrite <- (firstn_skipn i l). apply in_or_app. left. exact Hy.
  - left. symmetry. exact Hy.
  - right. rewrite <- (firstn_skipn (S i) l). apply in_or_app. right. exact Hy.
Qed.

Lemma In_set_nth_x (l : list F) i x : (i < length l)%nat -> In x (set_nth l i x).
Proof. intros H. unfold set_nth. apply in_or_app. right. left. reflexivity. Qed.

Lemma min_step s h x : min_inv s h -> P x ->
  exists s', min_next O s x = Ok (s', nth (N.to_nat (min_min_index s')) (min_deque s') d) /\
             min_inv s' (h ++ [x]) /\ min_period s' = min_period s.
Proof.
  intros (W & HP & Hrot & Hmin) Px. pose proof W as (H1 & H2 & H3 & H4 & H5).
  unfold min_next. prims (inf O).
  set (ci := N.to_nat (min_cur_index s)) in *.
  set (dq := set_nth (min_deque s) ci x).
  assert (Hci : (ci < length (min_deque s))%nat) by (unfold ci; lia).
  assert (Ldq : length dq = N.to_nat (min_period s)) by (unfold dq; rewrite set_nth_length; lia).
  assert (Hne : dq <> []) by (intros E; rewrite E in Ldq; cbn in Ldq; lia).
  assert (HPdq : forall y, In y dq -> P y).
  { intros y Hy. apply In_set_nth in Hy as [->|Hy]; [exact Px|apply HP; exact Hy|exact Hci]. }
  destruct (find_min_spec dq Hne HPdq) as [Hf1 Hf2].
  set (mi' := if ltb O x (nth (N.to_nat (min_min_index s)) dq d) then min_cur_index s
              else if min_min_index s =? min_cur_index s then find_min_index O dq else min_min_index s).
  assert (Hmi' : mi' < min_period s).
  { unfold mi'. destruct (ltb O x _); [exact H4|]. destruct (N.eqb_spec (min_min_index s) (min_cur_index s)); lia. }
  rewrite (idx_ok dq mi' d) by lia. cbn [bind].
  eexists (mkMin _ mi' _ dq). split; [reflexivity|]. cbn [min_deque min_min_index min_period min_cur_index].
  split; [|reflexivity].
  unfold min_inv; cbn [min_deque min_min_index min_period min_cur_index].
  split; [unfold wf_min; cbn; pose proof (advance_lt _ _ H4); repeat split; lia|].
  split; [exact HPdq|]. split.
  - (* window *)
    rewrite lastn_padded_snoc by lia. rewrite <- Hrot. fold ci.
    replace (N.to_nat (if min_cur_index s + 1 <? min_period s then min_cur_index s + 1 else 0))
      with (if (S ci <? length (min_deque s))%nat then S ci else 0%nat).
    + unfold dq. apply rot_step. exact Hci.
    + rewrite H5. destruct (N.ltb_spec (min_cur_index s + 1) (min_period s)); destruct (Nat.ltb_spec (S ci) (N.to_nat (min_period s))); unfold ci in *; lia.
  - (* minimality of the chosen slot *)
    intros y Hy. unfold mi'.
    destruct (ltb O x (nth (N.to_nat (min_min_index s)) dq d)) eqn:E.
    + (* the new input is strictly below the old minimum *)
      fold ci. unfold dq at 1. rewrite nth_set_nth_eq by exact Hci.
      destruct (Nat.eq_dec (N.to_nat (min_min_index s)) ci) as [Emi|Emi].
      * rewrite Emi in E. unfold dq in E. rewrite nth_set_nth_eq in E by exact Hci.
        rewrite (o_irrefl _ _ _ OR x Px) in E. discriminate.
      * unfold dq in E. rewrite nth_set_nth_neq in E by (auto; lia).
        apply In_set_nth in Hy as [->|Hy]; [exact (o_irrefl _ _ _ OR x Px)| |exact Hci].
        set (m := nth (N.to_nat (min_min_index s)) (min_deque s) d) in *.
        assert (Pm : P m) by (apply HP; apply nth_In; lia).
        destruct (o_cmp _ _ _ OR x m y Px Pm (HP y Hy) E) as [C|C].
        -- exact (o_asym _ _ _ OR x y Px (HP y Hy) C).
        -- rewrite (Hmin y Hy) in C. discriminate.
    + destruct (N.eqb_spec (min_min_index s) (min_cur_index s)) as [Eq|Neq].
      * apply Hf2. exact Hy.
      * assert (Emi : N.to_nat (min_min_index s) <> ci) by (unfold ci; lia).
        unfold dq in E |- *. rewrite nth_set_nth_neq in E |- * by (auto; lia).
        apply In_set_nth in Hy as [->|Hy]; [exact E|apply Hmin; exact Hy|exact Hci].
Qed.

(* ---- outputs over a stream ---- *)
Fixpoint min_outs (s : @Min F) (xs : list F) : list F :=
  match xs with
  | [] => []
  | x :: xs => match min_next O s x with
               | Ok (s', o) => o :: min_outs s' xs
               | _ => [] end
  end.

(* the output after each input is a least element of the buffer = padded window *)
Lemma min_outs_char : forall xs s h, min_inv s h -> Forall P xs ->
  length (min_outs s xs) = length xs /\
  forall k, (k < length xs)%nat ->
    least_in (lastn (N.to_nat (min_period s)) (padded d (N.to_nat (min_period s)) (h ++ firstn (S k) xs)))
             (nth k (min_outs s xs) d).
Proof.
  induction xs as [|x xs IH]; intros s h Hinv HP; cbn [min_outs length]; [split; [reflexivity|intros k Hk; lia]|].
  inversion HP as [|? ? Px Pxs]; subst.
  destruct (min_step s h x Hinv Px) as (s' & E & Hinv' & Hp). rewrite E.
  destruct (IH s' (h ++ [x]) Hinv' Pxs) as [L C]. cbn [length]. split; [lia|].
  intros k Hk. destruct k as [|k].
  - cbn [nth firstn]. destruct Hinv' as (W' & HP' & Hrot' & Hmin'). rewrite <- Hp, <- Hrot'.
    destruct W' as (A1 & A2 & A3 & A4 & A5).
    split; [apply In_rot; apply nth_In; lia|]. intros y Hy. apply In_rot in Hy. apply Hmin'. exact Hy.
  - cbn [nth firstn]. specialize (C k ltac:(lia)). rewrite Hp in C. rewrite <- app_assoc in C. exact C.
Qed.

(* the padding never wins once one real input is in the window: a least element of the padded
   window is a least element of the real window *)
Lemma least_unpad p (hk : list F) o : hk <> [] -> (1 <= p)%nat -> Forall P hk ->
  least_in (lastn p (padded d p hk)) o -> least_in (lastn p hk) o.
Proof.
  intros Hne Hp HP [Hin Hle]. split.
  - apply In_lastn_padded in Hin as [Hin|[-> Hlt]]; [exact Hin|].
    destruct (exists_last Hne) as (h' & x & ->).
    assert (Hx : In x (lastn p (h' ++ [x]))) by (apply lastn_last; exact Hp).
    assert (Px : P x) by (rewrite Forall_forall in HP; apply HP; apply in_or_app; right; left; reflexivity).
    assert (E : x = d).
    { apply (o_total _ _ _ OR x d Px (o_Ptop _ _ _ OR)).
      - apply Hle. apply In_lastn_padded_r. exact Hx.
      - apply (o_top _ _ _ OR). exact Px. }
    rewrite <- E. exact Hx.
  - intros y Hy. apply Hle. apply In_lastn_padded_r. exact Hy.
Qed.

(* Main characterisation: started from an all-padding buffer (cursors anywhere), after each input
   the output is an element of the last min(t,p) inputs and no element of that window is smaller *)
Theorem min_least : forall p mi ci xs, 0 < p -> p <= ALLOC_MAX -> mi < p -> ci < p -> Forall P xs ->
  let outs := min_outs (mkMin p mi ci (repeat d (N.to_nat p))) xs in
  length outs = length xs /\
  forall k, (k < length xs)%nat -> least_in (lastn (N.to_nat p) (firstn (S k) xs)) (nth k outs d).
Proof.
  intros p mi ci xs H1 H2 H3 H4 HP outs.
  destruct (min_outs_char xs _ [] (min_inv_init p mi ci H1 H2 H3 H4) HP) as [L C].
  split; [exact L|]. intros k Hk. specialize (C k Hk). cbn [min_period app] in C.
  apply least_unpad in C; [exact C| | lia |].
  - destruct xs; [cbn in Hk; lia|cbn; discriminate].
  - apply Forall_forall. intros y Hy. rewrite Forall_forall in HP. apply HP.
    rewrite <- (firstn_skipn (S k) xs). apply in_or_app. left. exact Hy.
Qed.

Lemma least_unique l a b : (forall y, In y l -> P y) -> least_in l a -> least_in l b -> a = b.
Proof.
  intros HP [Ia La] [Ib Lb]. apply (o_total _ _ _ OR a b (HP a Ia) (HP b Ib)); [apply Lb; exact Ia|apply La; exact Ib].
Qed.

(* reset (cursors kept) and new (cursors 0) are observationally equal on every continuation *)
Theorem min_restart_equiv : forall p mi ci xs, 0 < p -> p <= ALLOC_MAX -> mi < p -> ci < p -> Forall P xs ->
  min_outs (mkMin p mi ci (repeat d (N.to_nat p))) xs = min_outs (mkMin p 0 0 (repeat d (N.to_nat p))) xs.
Proof.
  intros p mi ci xs H1 H2 H3 H4 HP.
  destruct (min_least p mi ci xs H1 H2 H3 H4 HP) as [L1 C1].
  destruct (min_least p 0 0 xs H1 H2 ltac:(lia) ltac:(lia) HP) as [L2 C2].
  apply (nth_ext _ _ d d); [congruence|]. intros k Hk. rewrite L1 in Hk.
  apply (least_unique (lastn (N.to_nat p) (firstn (S k) xs))); [|apply C1; exact Hk|apply C2; exact Hk].
  intros y Hy. apply In_lastn in Hy. rewrite Forall_forall in HP. apply HP.
  rewrite <- (firstn_skipn (S k) xs). apply in_or_app. left. exact Hy.
Qed.

End MinProofs.

(* ---- statements without section variables ---- *)
Section MinTop.
Context {F : Type} (O : Ops F).

Definition min_order_ok (xs : list F) : Prop :=
  exists P : F -> Prop, order_on (ltb O) (inf O) P /\ Forall P xs.

Theorem min_reset_equiv : forall (s s1 s0 : @Min F) (xs : list F),
  min_order_ok xs -> wf_min s -> min_reset O s = Ok s1 -> min_new O (min_period s) = Ok s0 ->
  min_outs O s1 xs = min_outs O s0 xs.
Proof.
  intros s s1 s0 xs (P & OR & HP) W E1 E0. pose proof W as (H1 & H2 & H3 & H4 & H5).
  rewrite (min_reset_ok O s W) in E1. injection E1 as <-.
  rewrite (min_new_ok O (min_period s)) in E0 by lia. injection E0 as <-.
  apply (min_restart_equiv O P OR); assumption.
Qed.

End MinTop.

(* ---- Maximum is Minimum for the flipped comparison ---- *)
Section MaxProofs.
Context {F : Type} (O : Ops F).

Definition flipO : Ops F := {|
  zero := zero O; one := one O; two := two O; three := three O; c100 := c100 O; c50 := c50 O;
  c0_1 := c0_1 O; c0_015 := c0_015 O; inf := ninf O; ninf := inf O;
  add := add O; sub := sub O; mul := mul O; div := div O; sqrt := sqrt O; abs := abs O; neg := neg O;
  ltb := fun a b => ltb O b a; leb := fun a b => leb O b a; eqb := eqb O; ofN := ofN O;
  is_sign_positive := is_sign_positive O |}.

Definition max2min (s : @Max F) : @Min F := mkMin (max_period s) (max_max_index s) (max_cur_index s) (max_deque s).
Definition min2max (s : @Min F) : @Max F := mkMax (min_period s) (min_min_index s) (min_cur_index s) (min_deque s).

Lemma max_next_flip (s : @Max F) x :
  max_next O s x = match min_next flipO (max2min s) x with
                   | Ok (s', o) => Ok (min2max s', o) | Err e => Err e | Panic => Panic end.
Proof.
  unfold max_next, min_next. cbn [max2min min_deque min_cur_index min_min_index min_period].
  destruct (upd (max_deque s) (max_cur_index s) x) as [dq| |]; cbn [bind]; try reflexivity.
  destruct (idx dq (max_max_index s)) as [cm| |]; cbn [bind]; try reflexivity.
  destruct (advance (max_period s) (max_cur_index s)) as [ci| |]; cbn [bind]; try reflexivity.
  change (find_max_index O dq) with (find_min_index flipO dq).
  cbn [ltb flipO].
  match goal with |- context [idx dq ?i] => destruct (idx dq i) as [o| |] end; cbn [bind]; reflexivity.
Qed.

Fixpoint max_outs (s : @Max F) (xs : list F) : list F :=
  match xs with
  | [] => []
  | x :: xs => match max_next O s x with
               | Ok (s', o) => o :: max_outs s' xs
               | _ => [] end
  end.

Lemma max_outs_flip : forall xs s, max_outs s xs = min_outs flipO (max2min s) xs.
Proof.
  induction xs as [|x xs IH]; intros s; cbn [max_outs min_outs]; [reflexivity|].
  rewrite max_next_flip. destruct (min_next flipO (max2min s) x) as [[s' o]| |]; try reflexivity.
  f_equal. rewrite IH. destruct s'; reflexivity.
Qed.

Definition greatest_in (l : list F) (m : F) : Prop := In m l /\ forall y, In y l -> ltb O m y = false.

Definition max_order_ok (xs : list F) : Prop :=
  exists P : F -> Prop, order_on (fun a b => ltb O b a) (ninf O) P /\ Forall P xs.

Theorem max_greatest : forall P p mi ci xs, order_on (fun a b => ltb O b a) (ninf O) P ->
  0 < p -> p <= ALLOC_MAX -> mi < p -> ci < p -> Forall P xs ->
  let outs := max_outs (mkMax p mi ci (repeat (ninf O) (N.to_nat p))) xs in
  length outs = length xs /\
  forall k, (k < length xs)%nat -> greatest_in (lastn (N.to_nat p) (firstn (S k) xs)) (nth k outs (ninf O)).
Proof.
  intros P p mi ci xs OR H1 H2 H3 H4 HP outs. unfold outs. rewrite max_outs_flip.
  exact (min_least flipO P OR p mi ci xs H1 H2 H3 H4 HP).
Qed.

Theorem max_reset_equiv : forall (s s1 s0 : @Max F) (xs : list F),
  max_order_ok xs -> wf_max s -> max_reset O s = Ok s1 -> max_new O (max_period s) = Ok s0 ->
  max_outs s1 xs = max_outs s0 xs.
Proof.
  intros s s1 s0 xs (P & OR & HP) W E1 E0. pose proof W as (H1 & H2 & H3 & H4 & H5).
  rewrite (max_reset_ok O s W) in E1. injection E1 as <-.
  rewrite (max_new_ok O (max_period s)) in E0 by lia. injection E0 as <-.
  rewrite !max_outs_flip.
  exact (min_restart_equiv flipO P OR (max_period s) (max_max_index s) (max_cur_index s) xs H1 H2 H3 H4 HP).
Qed.

End MaxProofs.
