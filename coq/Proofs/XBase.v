(* Shared pieces of the exact-arithmetic (XR) refinement proofs: real sums, window facts, ring step. *)
From Coq Require Import Reals Lra Lia.
From TA Require Import Base XR Proofs.Prims Proofs.Ring.
Open Scope R_scope.

Fixpoint Rsum (l : list R) : R := match l with [] => 0 | x :: r => x + Rsum r end.

Lemma Rsum_app a b : Rsum (a ++ b) = Rsum a + Rsum b.
Proof. induction a as [|x a IH]; cbn; [lra|rewrite IH; lra]. Qed.

Lemma Rsum_repeat0 n : Rsum (repeat 0 n) = 0.
Proof. induction n as [|n IH]; cbn; [reflexivity|rewrite IH; lra]. Qed.

Lemma Rsum_hd_tl l : l <> [] -> Rsum l = hd 0 l + Rsum (tl l).
Proof. destruct l; [congruence|reflexivity]. Qed.

Definition mean (l : list R) : R := Rsum l / INR (length l).

(* zero padding does not change sums *)
Lemma Rsum_lastn_padded p h : Rsum (lastn p (padded 0 p h)) = Rsum (lastn p h).
Proof.
  destruct (Nat.le_gt_cases p (length h)) as [H|H].
  - rewrite lastn_padded_full by exact H. reflexivity.
  - rewrite lastn_padded_warm by lia. rewrite Rsum_app, Rsum_repeat0. rewrite lastn_all by lia. lra.
Qed.

Lemma lastn_padded_length {A} (pad : A) p h : length (lastn p (padded pad p h)) = p.
Proof. rewrite lastn_length, padded_length. lia. Qed.

Lemma lastn_padded_ne {A} (pad : A) p h : (1 <= p)%nat -> lastn p (padded pad p h) <> [].
Proof. intros H E. pose proof (lastn_padded_length pad p h) as L. rewrite E in L. cbn in L. lia. Qed.

Lemma hd_map {A B} (f : A -> B) (l : list A) d : hd (f d) (map f l) = f (hd d l).
Proof. destruct l; reflexivity. Qed.

Lemma tl_map {A B} (f : A -> B) (l : list A) : tl (map f l) = map f (tl l).
Proof. destruct l; reflexivity. Qed.

(* one step of the ring: what is read at the cursor, and the buffer after writing and advancing *)
Open Scope N_scope.
Lemma ring_step {A} (dq : list A) (p i : N) (x d : A) :
  0 < p -> i < p -> p <= ALLOC_MAX -> length dq = N.to_nat p ->
  idx dq i = Ok (hd d (rot (N.to_nat i) dq)) /\
  upd dq i x = Ok (set_nth dq (N.to_nat i) x) /\
  advance p i = Ok (if i + 1 <? p then i + 1 else 0) /\
  length (set_nth dq (N.to_nat i) x) = N.to_nat p /\
  rot (N.to_nat (if i + 1 <? p then i + 1 else 0)) (set_nth dq (N.to_nat i) x) = tl (rot (N.to_nat i) dq) ++ [x].
Proof.
  intros H1 H2 H3 H4.
  assert (Hi : (N.to_nat i < length dq)%nat) by lia.
  split; [rewrite (idx_ok dq i d Hi), hd_rot by exact Hi; reflexivity|].
  split; [apply upd_ok; exact Hi|].
  split; [apply advance_ok; [exact H2|unfold ALLOC_MAX, USIZE_MAX in *; lia]|].
  split; [rewrite set_nth_length; lia|].
  rewrite <- (rot_step (N.to_nat i) dq x Hi). f_equal.
  rewrite H4. destruct (N.ltb_spec (i + 1) p); destruct (Nat.ltb_spec (S (N.to_nat i)) (N.to_nat p)); lia.
Qed.

Lemma INR_IZR_N (n : nat) : IZR (Z.of_N (N.of_nat n)) = INR n.
Proof. rewrite nat_N_Z. symmetry. apply INR_IZR_INZ. Qed.

(* push Fin through the total operations *)
Ltac xfin :=
  change (zero XROps) with (Fin 0%R); change (one XROps) with (Fin 1%R); change (two XROps) with (Fin 2%R);
  change (three XROps) with (Fin 3%R); change (c100 XROps) with (Fin 100%R); change (c50 XROps) with (Fin 50%R);
  change (c0_1 XROps) with (Fin (1 / 10)%R); change (c0_015 XROps) with (Fin (15 / 1000)%R);
  repeat first [rewrite xr_mul_fin | rewrite xr_add_fin | rewrite xr_sub_fin | rewrite xr_abs_fin | rewrite xr_neg_fin | rewrite xr_ofN].
