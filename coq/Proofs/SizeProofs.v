(* Serialised size (bincode) of every WF state is a closed formula of its parameters; accessors,
   Display arguments and Default are functions of the constructor arguments. Any number type. *)
From Coq Require Import Lia.
From TA Require Import Base Model Generic Proofs.Prims Proofs.WF Proofs.GenericProofs Proofs.RunProofs.
Open Scope N_scope.

Section SP.
Context {F : Type} (O : Ops F).
Notation St := (@St F).

Definition items_len (l : list (@item F)) : N := fold_right (fun i a => item_bytes i + a) 0 l.

Lemma items_len_cons x l : items_len (x :: l) = item_bytes x + items_len l.
Proof. reflexivity. Qed.

Lemma items_len_app a b : items_len (a ++ b) = items_len a + items_len b.
Proof.
  induction a as [|x a IH]; [reflexivity|]. rewrite <- app_comm_cons, !items_len_cons, IH. lia.
Qed.

Lemma items_len_floats (l : list F) : items_len (map F64 l) = 8 * N.of_nat (length l).
Proof.
  induction l as [|x l IH]; [reflexivity|]. cbn [map length]. rewrite items_len_cons, IH.
  rewrite Nnat.Nat2N.inj_succ. cbn [item_bytes]. lia.
Qed.

Lemma items_len_deque (l : list F) : items_len (ser_deque l) = 8 + 8 * N.of_nat (length l).
Proof. unfold ser_deque. rewrite items_len_cons, items_len_floats. reflexivity. Qed.

Lemma items_len_bool b : items_len (@ser_bool F b) = 1.
Proof. destruct b; reflexivity. Qed.

(* 1 when the state holds a TrueRange whose prev_close is already Some, else 0 *)
Definition tr_some (t : @Tr F) : N := match tr_prev_close t with Some _ => 1 | None => 0 end.
Definition tr_fed (s : St) : N :=
  match s with
  | STr t => tr_some t | SAtr a => tr_some (atr_true_range a)
  | SKc k => tr_some (atr_true_range (kc_atr k)) | SCe c => tr_some (atr_true_range (ce_atr c))
  | _ => 0 end.

(* bytes as a function of the kind and the (first) period only *)
Definition base_size (k : Kind) (p : N) : N :=
  match k with
  | KSma | KMad => 40 + 8 * p
  | KEma => 25
  | KWma | KMfi => 56 + 8 * p
  | KSd => 48 + 8 * p
  | KMin | KMax | KRoc | KEr => 32 + 8 * p
  | KBb => 64 + 8 * p
  | KTr => 1
  | KAtr => 26
  | KRsi => 67
  | KFast => 72 + 16 * p
  | KSlow => 97 + 16 * p
  | KMacd | KPpo => 75
  | KKc => 67
  | KCe => 98 + 16 * p
  | KCci => 80 + 16 * p
  | KObv => 16
  end.

Ltac sz := rewrite ?Nnat.N2Nat.id; unfold items_len; cbn [fold_right item_bytes app]; try lia.

Lemma len_ema (e : @Ema F) : items_len (ser_ema e) = 25.
Proof. unfold ser_ema. rewrite items_len_app, items_len_bool. reflexivity. Qed.
Lemma len_tr (t : @Tr F) : items_len (ser_tr t) = 1 + 8 * tr_some t.
Proof. unfold ser_tr, ser_opt, tr_some. destruct (tr_prev_close t); reflexivity. Qed.
Lemma len_atr (a : @Atr F) : items_len (ser_atr a) = 26 + 8 * tr_some (atr_true_range a).
Proof. unfold ser_atr. rewrite items_len_app, len_tr, len_ema. generalize (tr_some (atr_true_range a)); intros n; lia. Qed.
Lemma len_min (m : @Min F) : length (min_deque m) = N.to_nat (min_period m) -> items_len (ser_min m) = 32 + 8 * min_period m.
Proof. intros H. unfold ser_min. rewrite items_len_app, items_len_deque, H. sz. Qed.
Lemma len_max (m : @Max F) : length (max_deque m) = N.to_nat (max_period m) -> items_len (ser_max m) = 32 + 8 * max_period m.
Proof. intros H. unfold ser_max. rewrite items_len_app, items_len_deque, H. sz. Qed.
Lemma len_sd (m : @Sd F) : length (sd_deque m) = N.to_nat (sd_period m) -> items_len (ser_sd m) = 48 + 8 * sd_period m.
Proof. intros H. unfold ser_sd. rewrite items_len_app, items_len_deque, H. sz. Qed.
Lemma len_sma (m : @Sma F) : length (sma_deque m) = N.to_nat (sma_period m) -> items_len (ser_sma m) = 40 + 8 * sma_period m.
Proof. intros H. unfold ser_sma. rewrite items_len_app, items_len_deque, H. sz. Qed.
Lemma len_mad (m : @Mad F) : length (mad_deque m) = N.to_nat (mad_period m) -> items_len (ser_mad m) = 40 + 8 * mad_period m.
Proof. intros H. unfold ser_mad. rewrite items_len_app, items_len_deque, H. sz. Qed.

Theorem ser_len_formula : forall s : St, WF O s ->
  ser_len s = base_size (kind_of s) (p1 (params_of O s)) + 8 * tr_fed s.
Proof.
  intros s W. unfold ser_len. change (fold_right _ 0 (ser s)) with (items_len (ser s)).
  destruct s; cbn [ser kind_of base_size params_of p1 tr_fed WF] in *.
  - rewrite len_sma by apply W. lia.
  - rewrite len_ema. reflexivity.
  - destruct W as (A & B & C & D & E). unfold ser_wma. rewrite items_len_app, items_len_deque, E. sz.
  - rewrite len_sd by apply W. lia.
  - rewrite len_mad by apply W. lia.
  - rewrite len_min by apply W. lia.
  - rewrite len_max by apply W. lia.
  - destruct W as [W1 W2]. unfold ser_bb. rewrite items_len_app, len_sd by apply W1. rewrite W2. sz.
  - rewrite len_tr. reflexivity.
  - rewrite len_atr. reflexivity.
  - unfold ser_rsi. rewrite !items_len_app, !len_ema, items_len_bool. reflexivity.
  - destruct W as (A & B & C & D). unfold ser_fast. rewrite !items_len_app, len_min, len_max by (apply A || apply B).
    rewrite C, D. sz.
  - destruct W as [(A & B & C & D) W2]. unfold ser_slow, ser_fast.
    rewrite !items_len_app, len_min, len_max, len_ema by (apply A || apply B). rewrite C, D. sz.
  - destruct W as (A & B & C & D & E). unfold ser_roc. rewrite items_len_app, items_len_deque, E. sz.
  - destruct W as (A & B & C & D & E & G). unfold ser_er. rewrite items_len_app, items_len_deque, E. sz.
  - unfold ser_macd. rewrite !items_len_app, !len_ema. reflexivity.
  - unfold ser_ppo. rewrite !items_len_app, !len_ema. reflexivity.
  - unfold ser_kc. rewrite !items_len_app, len_atr, len_ema. sz.
  - destruct W as (A & B & C & D & E). unfold ser_ce. rewrite !items_len_app, len_atr, len_min, len_max by (apply B || apply C).
    rewrite D, E. sz.
  - destruct W as (A & B & C). unfold ser_cci. rewrite items_len_app, len_sma, len_mad by (apply A || apply B).
    rewrite C. lia.
  - destruct W as (A & B & C & D & E). unfold ser_mfi. rewrite items_len_app, items_len_deque, E. sz.
  - reflexivity.
Qed.

Lemma tr_fed_le1 (s : St) : tr_fed s <= 1.
Proof. destruct s; cbn; try lia; unfold tr_some; match goal with |- context [match ?x with _ => _ end] => destruct x end; lia. Qed.

Theorem ser_len_bound : forall s : St, WF O s ->
  ser_len s <= 256 + 64 * (p1 (params_of O s) + p2 (params_of O s) + p3 (params_of O s)).
Proof.
  intros s W. rewrite (ser_len_formula s W). pose proof (tr_fed_le1 s).
  destruct s; cbn [kind_of base_size params_of p1 p2 p3]; lia.
Qed.

(* accessors and Display arguments are functions of the constructor arguments *)
Definition has_period (k : Kind) : bool :=
  match k with KTr | KSlow | KMacd | KPpo | KObv => false | _ => true end.

Theorem accessors_spec : forall s : St, WF O s ->
  display_args s = (periods (kind_of s) (params_of O s),
                    if has_multiplier (kind_of s) then Some (pm (params_of O s)) else None) /\
  period_of s = (if has_period (kind_of s) then Some (p1 (params_of O s)) else None) /\
  multiplier_of s = (if has_multiplier (kind_of s) then Some (pm (params_of O s)) else None).
Proof. intros s W. destruct s; cbn; repeat split; reflexivity. Qed.

(* what a successful constructor stores: exactly its arguments (unused positions normalised) *)
Definition norm_params (k : Kind) (p : @Params F) : @Params F :=
  mkParams (match n_periods k with 0%nat => 0 | _ => p1 p end)
           (match n_periods k with 0%nat | 1%nat => 0 | _ => p2 p end)
           (match n_periods k with 3%nat => p3 p | _ => 0 end)
           (if has_multiplier k then pm p else zero O).

Theorem new_params : forall k p s, new O k p = Ok s -> params_of O s = norm_params k p.
Proof.
  intros k p s H. pose proof (new_WF O k p s H) as (W & K & _).
  destruct k; cbn in H; unfold rmap in H;
    repeat match type of H with
    | bind ?m _ = Ok _ => let x := fresh "x" in let Hx := fresh "Hx" in apply bind_ok_inv in H as (x & Hx & H)
    end; try (injection H as <-); cbn [params_of norm_params n_periods has_multiplier].
  - apply sma_new_inv in Hx as (_ & _ & _ & ->). reflexivity.
  - apply ema_new_inv in Hx as (_ & _ & -> & _). reflexivity.
  - apply wma_new_inv in Hx as (_ & _ & _ & ->). reflexivity.
  - apply sd_new_inv in Hx as (_ & _ & _ & ->). reflexivity.
  - apply mad_new_inv in Hx as (_ & _ & _ & ->). reflexivity.
  - apply min_new_inv in Hx as (_ & _ & _ & ->). reflexivity.
  - apply max_new_inv in Hx as (_ & _ & _ & ->). reflexivity.
  - unfold bb_new in Hx. apply bind_ok_inv in Hx as (sd & Hsd & Hx). injection Hx as <-. reflexivity.
  - reflexivity.
  - unfold atr_new in Hx. apply bind_ok_inv in Hx as (e & He & Hx). injection Hx as <-.
    apply ema_new_inv in He as (_ & _ & E & _). cbn. rewrite E. reflexivity.
  - unfold rsi_new in Hx. apply bind_ok_inv in Hx as (u & Hu & Hx). apply bind_ok_inv in Hx as (d & Hd & Hx).
    injection Hx as <-. reflexivity.
  - unfold fast_new in Hx. apply bind_ok_inv in Hx as (u & Hu & Hx). apply bind_ok_inv in Hx as (d & Hd & Hx).
    injection Hx as <-. reflexivity.
  - unfold slow_new in Hx. apply bind_ok_inv in Hx as (f & Hf & Hx). apply bind_ok_inv in Hx as (e & He & Hx).
    injection Hx as <-. unfold fast_new in Hf. apply bind_ok_inv in Hf as (u & Hu & Hf). apply bind_ok_inv in Hf as (d & Hd & Hf).
    injection Hf as <-. apply ema_new_inv in He as (_ & _ & E & _). cbn. rewrite E. reflexivity.
  - apply roc_new_inv in Hx as (_ & _ & _ & ->). reflexivity.
  - apply er_new_inv in Hx as (_ & _ & _ & ->). reflexivity.
  - unfold macd_new in Hx. apply bind_ok_inv in Hx as (a & Ha & Hx). apply bind_ok_inv in Hx as (b & Hb & Hx).
    apply bind_ok_inv in Hx as (c & Hc & Hx). injection Hx as <-.
    apply ema_new_inv in Ha as (_ & _ & E1 & _). apply ema_new_inv in Hb as (_ & _ & E2 & _). apply ema_new_inv in Hc as (_ & _ & E3 & _).
    cbn. rewrite E1, E2, E3. reflexivity.
  - unfold ppo_new in Hx. apply bind_ok_inv in Hx as (a & Ha & Hx). apply bind_ok_inv in Hx as (b & Hb & Hx).
    apply bind_ok_inv in Hx as (c & Hc & Hx). injection Hx as <-.
    apply ema_new_inv in Ha as (_ & _ & E1 & _). apply ema_new_inv in Hb as (_ & _ & E2 & _). apply ema_new_inv in Hc as (_ & _ & E3 & _).
    cbn. rewrite E1, E2, E3. reflexivity.
  - unfold kc_new in Hx. apply bind_ok_inv in Hx as (a & Ha & Hx). apply bind_ok_inv in Hx as (b & Hb & Hx).
    injection Hx as <-. reflexivity.
  - unfold ce_new in Hx. apply bind_ok_inv in Hx as (a & Ha & Hx). apply bind_ok_inv in Hx as (b & Hb & Hx).
    apply bind_ok_inv in Hx as (c & Hc & Hx). injection Hx as <-.
    unfold atr_new in Ha. apply bind_ok_inv in Ha as (e & He & Ha). injection Ha as <-.
    apply ema_new_inv in He as (_ & _ & E & _). cbn. rewrite E. reflexivity.
  - unfold cci_new in Hx. apply bind_ok_inv in Hx as (a & Ha & Hx). apply bind_ok_inv in Hx as (b & Hb & Hx).
    injection Hx as <-. apply sma_new_inv in Ha as (_ & _ & _ & E). cbn. rewrite E. reflexivity.
  - apply mfi_new_inv in Hx as (_ & _ & _ & ->). reflexivity.
  - reflexivity.
Qed.

(* parameters never change along any run *)
Theorem params_stable_step : forall st o i v, store_WF O st -> sget st i = Some v ->
  writes o = Some i ->
  match o with ONew _ _ _ | ODef _ _ | OClone _ _ | ODrop _ => True
  | _ => match sget (fst (step O st o)) i with
         | Some v' => params_of O v' = params_of O v /\ kind_of v' = kind_of v
         | None => False end end.
Proof.
  intros st o i v W Hv Hw. pose proof (W i) as Wi. rewrite Hv in Wi. cbn in Wi.
  destruct o as [s k p|s k|s x|s b|s b|s|s d|s|s|s|calls]; cbn [writes] in Hw; try exact I; try discriminate;
    injection Hw as ->; cbn [step]; rewrite Hv.
  - destruct (has_scalar (kind_of v)) eqn:Hs.
    + destruct (next_total O v x Wi Hs) as (v' & o & E & W' & P). rewrite E. cbn [fst]. rewrite sget_sset_eq. exact P.
    + destruct v; cbn in Hs; try discriminate; cbn [next fst]; rewrite Hv; split; reflexivity.
  - destruct (next_bar_total O v b Wi) as (v' & o & E & W' & P). rewrite E. cbn [fst]. rewrite sget_sset_eq. exact P.
  - match goal with |- context [build O ?bb] => destruct (build O bb) as [item|e|] end; cbn [fst]; try (rewrite Hv; split; reflexivity).
    destruct (next_bar_total O v item Wi) as (v' & o & E & W' & P). rewrite E. cbn [fst]. rewrite sget_sset_eq. exact P.
  - destruct (reset_total O v Wi) as (v' & E & W' & P). rewrite E. cbn [fst]. rewrite sget_sset_eq. exact P.
  - rewrite SerdeProofs.serde_id. cbn [fst]. rewrite sget_sset_eq. split; reflexivity.
Qed.

End SP.
