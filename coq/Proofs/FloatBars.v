(* The bar paths on binary64 (the way the indicators are normally fed): for bars with finite prices, low <= high, magnitudes at most M:
   TrueRange and AverageTrueRange are finite and >= 0, KeltnerChannel bands are finite with lower <= average <= upper, exactly (no slack),
   for streams of any length. *)
From Coq Require Import Reals Lra Lia ZArith List Floats.
From Flocq Require Import Core BinarySingleNaN PrimFloat.
From TA Require Import Base Model FloatInst Proofs.Prims Proofs.WF Proofs.FloatErr Proofs.FloatSma Proofs.FloatEma Proofs.FloatSd Proofs.FloatFast Proofs.FloatMad Proofs.Wiring Proofs.XEma Proofs.FloatAtr Proofs.FloatMacd Proofs.FloatBb Proofs.FloatKc.
Import ListNotations.
Open Scope R_scope.
Local Notation O := FOps.
Local Notation float := PrimFloat.float.
Local Notation fexp := (SpecFloat.fexp prec emax).
Local Notation RN := (round radix2 fexp (round_mode mode_NE)).

(* Rust's f64::max on finite operands: one of them, with the value of the real maximum *)
Lemma fmax_fin (a b : float) : finF a -> finF b ->
  (fmax O a b = a \/ fmax O a b = b) /\ FR (fmax O a b) = Rmax (FR a) (FR b).
Proof.
  intros Fa Fb. unfold fmax. cbn [ltb eqb O]. rewrite ltb_equiv, eqb_equiv. unfold finF, FR in *.
  rewrite Bltb_correct by assumption. rewrite Beqb_correct by assumption.
  destruct (Rlt_bool_spec (B2R (Prim2B a)) (B2R (Prim2B b))) as [Hlt|Hge].
  - split; [right; reflexivity|]. rewrite Rmax_right by lra. reflexivity.
  - assert (E : Req_bool (B2R (Prim2B a)) (B2R (Prim2B a)) = true) by (apply Req_bool_true; reflexivity). rewrite E.
    split; [left; reflexivity|]. rewrite Rmax_left by lra. reflexivity.
Qed.

Definition okbar (M : R) (b : Bar float) : Prop :=
  okin M (b_high b) /\ okin M (b_low b) /\ okin M (b_close b) /\ FR (b_low b) <= FR (b_high b).

Definition tr_ok (M : R) (t : @Tr float) : Prop := match tr_prev_close t with Some pc => okin M pc | None => True end.

Lemma ftr_bar_step M (t : @Tr float) b : 1 <= M -> M <= bpow radix2 990 -> tr_ok M t -> okbar M b ->
  let '(t', o) := tr_next_bar O t b in tr_ok M t' /\ finF o /\ 0 <= FR o <= 3 * M.
Proof.
  intros HM1 HM2 Ht ([Fh Hh] & [Fl Hl] & [Fc Hc] & Hlh). pose proof u_pos as Hu0. pose proof u_le as Hu1. pose proof eta_pos as He0. pose proof eta_le_u as Heu.
  assert (HMB : 4 * M <= BIG).
  { unfold BIG. apply Rle_trans with (4 * bpow radix2 990); [lra|]. change 4 with (bpow radix2 2). rewrite <- bpow_plus. apply bpow_le. lia. }
  assert (HuM : u * M <= / 1000 * M) by (apply Rmult_le_compat_r; lra).
  assert (HeM : eta <= u * M) by (apply Rle_trans with (u * 1); [lra|apply Rmult_le_compat_l; lra]).
  assert (Hsub : forall x y : float, finF x -> finF y -> Rabs (FR x) <= M -> Rabs (FR y) <= M ->
            finF (x - y)%float /\ Rabs (FR (x - y)%float) <= 3 * M /\ FR (x - y)%float = RN (FR x - FR y)).
  { intros x y Fx Fy Hx Hy. assert (Hd : Rabs (FR x - FR y) <= 2 * M) by (eapply Rle_trans; [apply Rabs_triang|]; rewrite Rabs_Ropp; lra).
    destruct (fsub_exact x y Fx Fy) as [F1 E1]; [lra|]. destruct (fsub_mag x y (2 * M) Fx Fy Hd) as [_ M1]; [lra|].
    split; [exact F1|]. split; [|exact E1]. eapply Rle_trans; [exact M1|]. assert (2 * M * u <= 2 * (/ 1000 * M)) by lra. lra. }
  unfold tr_next_bar. unfold tr_ok in *. cbn [tr_prev_close].
  destruct (Hsub _ _ Fh Fl Hh Hl) as (F1 & M1 & E1).
  assert (H10 : 0 <= FR (b_high b - b_low b)%float) by (rewrite E1; apply RN_nonneg; lra).
  split; [split; assumption|]. cbn [sub abs O].
  destruct (tr_prev_close t) as [pc|].
  - destruct Ht as [Fp Hp].
    destruct (Hsub _ _ Fh Fp Hh Hp) as (F2 & M2 & _). destruct (Hsub _ _ Fl Fp Hl Hp) as (F3 & M3 & _).
    destruct (fabs_exact _ F2) as [Fa2 Ea2]. destruct (fabs_exact _ F3) as [Fa3 Ea3].
    unfold max3.
    destruct (fmax_fin _ _ F1 Fa2) as [[E|E] Em]; destruct (fmax_fin (fmax O (b_high b - b_low b)%float (PrimFloat.abs (b_high b - pc))) (PrimFloat.abs (b_low b - pc)) ltac:(rewrite E; assumption) Fa3) as [[E'|E'] Em'];
      rewrite E'; try rewrite E; (split; [assumption|]); rewrite ?Ea2, ?Ea3; (split; [try assumption; apply Rabs_pos|]); try assumption;
      try (rewrite Rabs_pos_eq in M1 by exact H10; exact M1).
  - split; [exact F1|]. split; [exact H10|]. rewrite Rabs_pos_eq in M1 by exact H10. exact M1.
Qed.

Lemma ftr_bar_run M : 1 <= M -> M <= bpow radix2 990 -> forall bars (t : @Tr float), tr_ok M t -> Forall (okbar M) bars ->
  length (tr_bar_outs O t bars) = length bars /\ Forall (fun o => finF o /\ 0 <= FR o <= 3 * M) (tr_bar_outs O t bars).
Proof.
  intros HM1 HM2. induction bars as [|b bars IH]; intros t Ht Hb; [split; [reflexivity|constructor]|].
  pose proof (ftr_bar_step M t b HM1 HM2 Ht (Forall_inv Hb)) as Hs. cbn [tr_bar_outs]. destruct (tr_next_bar O t b) as [t' o].
  destruct Hs as (Ht' & Ho). destruct (IH t' Ht' (Forall_inv_tail Hb)) as [L Fa]. split; [cbn [length]; now rewrite L|]. constructor; assumption.
Qed.

(* a float EMA of a finite non-negative bounded stream is finite, non-negative and bounded (any length) *)
Lemma ema_float_nonneg p e (T : list float) B : ema_new O p = Ok e -> (p < 35184372088832)%N ->
  1 <= B -> 2 * B <= bpow radix2 990 -> Forall (fun x => finF x /\ 0 <= FR x <= B) T ->
  length (ema_outs O e T) = length T /\ Forall (fun o => finF o /\ 0 <= FR o <= 2 * B) (ema_outs O e T).
Proof.
  intros Ee Hp HB1 HB2 HT. pose proof BIG_ge as HBg.
  assert (FT : Forall (okin B) T) by (eapply Forall_impl; [|exact HT]; intros x (Fx & H0 & H1); split; [exact Fx|rewrite Rabs_pos_eq; assumption]).
  destruct (ema_float_bounded p e T B Ee Hp HB1 ltac:(lra) FT) as [Lo Bo]. split; [exact Lo|].
  destruct T as [|t0 T']; [constructor|].
  assert (Ee' := Ee). unfold ema_new in Ee'. destruct (N.eqb_spec p 0) as [|Hp0]; [discriminate|]. injection Ee' as <-.
  destruct (kf_range p ltac:(lia)) as [Fk Hk]. change (2 / (f_ofN p + 1))%float with (kf p) in *.
  cbn [ema_outs] in *. unfold ema_next in * |- *. cbn [ema_is_new ema_k ema_current ema_period] in *.
  pose proof (Forall_inv HT) as (F0 & H00 & H01). pose proof (Forall_inv_tail HT) as HT'.
  assert (HB : 2 * B <= BIG / 4).
  { unfold BIG. apply Rle_trans with (bpow radix2 990); [lra|]. apply Rle_trans with (bpow radix2 998); [apply bpow_le; lia|].
    change 1000%Z with (998 + 2)%Z. rewrite bpow_plus. change (bpow radix2 2) with 4. lra. }
  assert (HT2 : Forall (fun x => finF x /\ 0 <= FR x <= 2 * B) T') by (eapply Forall_impl; [|exact HT']; intros x (Fx & Hx0 & Hx1); repeat split; try assumption; lra).
  assert (Bo2 : Forall (fun o => finF o /\ Rabs (FR o) <= 2 * B) (ema_outs O (mkEma p (kf p) t0 false) T')) by (apply Forall_inv_tail in Bo; exact Bo).
  pose proof (fema_nonneg p (kf p) (2 * B) Fk Hk ltac:(lra) HB T' t0 F0 ltac:(lra) HT2 Bo2) as Hnn.
  constructor; [split; [exact F0|lra]|].
  clear - Bo2 Hnn. induction Bo2 as [|o l [A Bd] _ IH]; [constructor|]. pose proof (Forall_inv Hnn) as H0. constructor; [|apply IH; exact (Forall_inv_tail Hnn)].
  split; [exact A|]. rewrite Rabs_pos_eq in Bd by exact H0. lra.
Qed.

Theorem atr_bar_float_nonneg : forall p a bars M, atr_new O p = Ok a -> (p < 35184372088832)%N ->
  1 <= M -> 8 * M <= bpow radix2 990 -> Forall (okbar M) bars ->
  length (atr_bar_outs O a bars) = length bars /\ Forall (fun o => finF o /\ 0 <= FR o <= 6 * M) (atr_bar_outs O a bars).
Proof.
  intros p a bars M H Hp HM1 HM8 Hb. unfold atr_new in H. destruct (ema_new O p) as [e| |] eqn:Ee; cbn in H; try discriminate. injection H as <-.
  rewrite atr_bar_wiring.
  destruct (ftr_bar_run M HM1 ltac:(lra) bars tr_new I Hb) as [L FT].
  destruct (ema_float_nonneg p e _ (3 * M) Ee Hp ltac:(lra) ltac:(lra) FT) as [Lo Fo]. split; [rewrite Lo; exact L|].
  eapply Forall_impl; [|exact Fo]. intros o (A & B0 & B1). repeat split; try assumption. lra.
Qed.

(* typical price (close + high + low) / 3 of a bounded bar *)
Lemma typical_ok M b : 1 <= M -> M <= bpow radix2 900 -> okbar M b -> okin (2 * M) (typical O b).
Proof.
  intros HM1 HM2 ([Fh Hh] & [Fl Hl] & [Fc Hc] & _). pose proof u_pos as Hu0. pose proof u_le as Hu1. pose proof eta_pos as He0. pose proof eta_le_u as Heu. pose proof BIG_ge as HBg.
  assert (HMB : 8 * M <= BIG).
  { unfold BIG. apply Rle_trans with (8 * bpow radix2 900); [lra|]. change 8 with (bpow radix2 3). rewrite <- bpow_plus. apply bpow_le. lia. }
  assert (HuM : u * M <= / 1000 * M) by (apply Rmult_le_compat_r; lra).
  assert (HeM : eta <= u * M) by (apply Rle_trans with (u * 1); [lra|apply Rmult_le_compat_l; lra]).
  unfold typical. cbn [add div three O].
  destruct (fadd_mag (b_close b) (b_high b) (2 * M) Fc Fh) as [F1 M1]; [eapply Rle_trans; [apply Rabs_triang|]; lra|lra|].
  assert (M1' : Rabs (FR (b_close b + b_high b)%float) <= 2 * M + 3 * (u * M)) by (eapply Rle_trans; [exact M1|]; lra).
  destruct (fadd_mag (b_close b + b_high b)%float (b_low b) (3 * M + 3 * (u * M)) F1 Fl) as [F2 M2]; [eapply Rle_trans; [apply Rabs_triang|]; lra|lra|].
  assert (M2' : Rabs (FR (b_close b + b_high b + b_low b)%float) <= 3 * M + 8 * (u * M)).
  { eapply Rle_trans; [exact M2|]. assert (u * (u * M) <= / 1000 * (u * M)) by (apply Rmult_le_compat_r; [apply Rmult_le_pos; lra|lra]).
    replace ((3 * M + 3 * (u * M)) * (1 + u) + eta) with (3 * M + 6 * (u * M) + 3 * (u * (u * M)) + eta) by ring. lra. }
  change 3%float with (f_ofN 3).
  destruct (fdiv_count (b_close b + b_high b + b_low b)%float 3 F2 ltac:(lia)) as (F3 & e & n & He & Hn & R3); [lra|].
  split; [exact F3|]. eapply Rle_trans; [apply (mag_of_err _ _ _ _ R3 He Hn)|].
  change (IZR (Z.of_N 3)) with 3. unfold Rdiv. rewrite Rabs_mult, (Rabs_pos_eq (/ 3)) by lra.
  assert (Rabs (FR (b_close b + b_high b + b_low b)%float) * / 3 <= M + 3 * (u * M)) by lra.
  assert ((M + 3 * (u * M)) * u <= 2 * (u * M)) by (assert (u * (u * M) <= / 1000 * (u * M)) by (apply Rmult_le_compat_r; [apply Rmult_le_pos; lra|lra]); replace ((M + 3 * (u * M)) * u) with (u * M + 3 * (u * (u * M))) by ring; lra).
  assert (Rabs (FR (b_close b + b_high b + b_low b)%float) * / 3 * (1 + u) <= (M + 3 * (u * M)) * (1 + u)) by (apply Rmult_le_compat_r; lra). lra.
Qed.

Theorem kc_bar_float_ordered : forall p mu k bars M, kc_new O p mu = Ok k -> (p < 35184372088832)%N ->
  finF mu -> 0 <= FR mu <= bpow radix2 400 ->
  1 <= M -> M <= bpow radix2 400 -> Forall (okbar M) bars ->
  length (kc_bar_outs O k bars) = length bars /\ Forall bb_ok (kc_bar_outs O k bars).
Proof.
  intros p mu k bars M H Hp Fmu Hmu HM1 HM2 Hb. unfold kc_new in H.
  destruct (atr_new O p) as [a| |] eqn:Ea; cbn [bind] in H; try discriminate.
  destruct (ema_new O p) as [e| |] eqn:Ee; cbn [bind] in H; try discriminate. injection H as <-.
  rewrite kc_bar_wiring.
  assert (H8 : 8 * M <= bpow radix2 990).
  { apply Rle_trans with (bpow radix2 3 * bpow radix2 400); [change (bpow radix2 3) with 8; lra|]. rewrite <- bpow_plus. apply bpow_le. lia. }
  assert (HM900 : M <= bpow radix2 900) by (eapply Rle_trans; [exact HM2|apply bpow_le; lia]).
  destruct (atr_bar_float_nonneg p a bars M Ea Hp HM1 H8 Hb) as [La Ha].
  assert (Ftp : Forall (okin (2 * M)) (map (typical O) bars)).
  { clear -Hb HM1 HM900. induction Hb as [|b l Hb0 _ IH]; [constructor|]. cbn [map]. constructor; [apply typical_ok; assumption|exact IH]. }
  destruct (ema_float_bounded p e _ (2 * M) Ee Hp ltac:(lra) ltac:(lra) Ftp) as [Le He]. rewrite map_length in Le.
  split; [rewrite map2_length'; [exact Le|rewrite La, Le; reflexivity]|].
  apply (Forall_map2 (okin (2 * (2 * M))) (fun o => finF o /\ 0 <= FR o <= 6 * M)); [|exact He|exact Ha].
  intros avg atr [Fa Ba] (Fd & Hd0 & Hd). unfold bands. cbn [add sub mul O].
  assert (H403 : 6 * M <= bpow radix2 403).
  { apply Rle_trans with (bpow radix2 3 * bpow radix2 400); [change (bpow radix2 3) with 8; lra|]. rewrite <- bpow_plus. apply bpow_le. lia. }
  apply bands_ok; try assumption.
  - apply Rle_trans with (bpow radix2 403); [lra|apply bpow_le; lia].
  - split; [exact Hd0|]. apply Rle_trans with (bpow radix2 403); [lra|apply bpow_le; lia].
Qed.

(* ChandelierExit on binary64: the long stop never exceeds the greatest high of the window, the short stop is never below the least low
   — exactly, for every multiplier in [0, 2^400]; highs and lows free of -0.0 (so that `<` totally orders them) *)
From TA Require Import Proofs.Ring Proofs.MinMaxProofs Proofs.FloatOrder Proofs.Osc Proofs.ResetLift.
Open Scope R_scope.

Theorem ce_float_bounds : forall p mu c bars M, ce_new O p mu = Ok c -> (p < 35184372088832)%N ->
  finF mu -> 0 <= FR mu <= bpow radix2 400 -> 1 <= M -> M <= bpow radix2 400 -> Forall (okbar M) bars ->
  Forall okF (map b_high bars) -> Forall okF (map b_low bars) ->
  let highs := map b_high bars in let lows := map b_low bars in
  forall k, (k < length bars)%nat ->
    exists lg sh mx mn, nth k (ce_outs O c bars) [] = [lg; sh] /\ finF lg /\ finF sh /\
      greatest_in O (lastn (N.to_nat p) (firstn (S k) highs)) mx /\ least_in O (lastn (N.to_nat p) (firstn (S k) lows)) mn /\
      FR lg <= FR mx /\ FR mn <= FR sh.
Proof.
  intros p mu c bars M H Hp Fmu [Hmu0 Hmu] HM1 HM2 Hb Hhi Hlo highs lows k Hk. unfold ce_new in H.
  destruct (atr_new O p) as [a| |] eqn:Ea; cbn in H; try discriminate.
  destruct (min_new O p) as [mn0| |] eqn:Emn; cbn in H; try discriminate.
  destruct (max_new O p) as [mx0| |] eqn:Emx; cbn in H; try discriminate. injection H as <-.
  pose proof (min_new_inv O p mn0 Emn) as (Hp0 & Hpa & _ & _).
  rewrite min_new_ok in Emn by assumption. injection Emn as <-.
  rewrite max_new_ok in Emx by assumption. injection Emx as <-.
  assert (Hpp : (0 < p)%N) by lia.
  assert (H8 : 8 * M <= bpow radix2 990).
  { apply Rle_trans with (bpow radix2 3 * bpow radix2 400); [change (bpow radix2 3) with 8; lra|]. rewrite <- bpow_plus. apply bpow_le. lia. }
  destruct (atr_bar_float_nonneg p a bars M Ea Hp HM1 H8 Hb) as [La Ha].
  rewrite ce_wiring, min_outs_res, max_outs_res. fold highs lows.
  destruct (min_least O okF float_order_min p 0 0 lows Hpp Hpa Hpp Hpp Hlo) as [Lmin Cmin].
  destruct (max_greatest O okF p 0 0 highs float_order_max Hpp Hpa Hpp Hpp Hhi) as [Lmax Cmax].
  assert (Ll : length lows = length bars) by (unfold lows; apply map_length).
  assert (Lh : length highs = length bars) by (unfold highs; apply map_length).
  specialize (Cmin k ltac:(lia)). specialize (Cmax k ltac:(lia)).
  set (mins := min_outs O _ lows) in *. set (maxs := max_outs O _ highs) in *.
  rewrite (XFast.map3_nth _ _ _ _ k 0%float (inf O) (ninf O) []) by (rewrite ?Lmin, ?Lmax, ?La; lia).
  set (atr := nth k (atr_bar_outs O a bars) 0%float). set (mn := nth k mins (inf O)) in *. set (mx := nth k maxs (ninf O)) in *.
  assert (Hatr : finF atr /\ 0 <= FR atr <= 6 * M) by (apply (Forall_nth_all _ _ 0%float Ha k); lia).
  destruct Hatr as (Fat & Hat0 & Hat).
  (* window extremes are bars' prices: finite, bounded *)
  assert (Hin : forall (f : Bar float -> float) y, In y (lastn (N.to_nat p) (firstn (S k) (map f bars))) -> exists b, In b bars /\ y = f b).
  { intros f y Hy. apply in_window_in in Hy. apply in_map_iff in Hy as (b & <- & Ib). exists b. split; [exact Ib|reflexivity]. }
  rewrite Forall_forall in Hb.
  destruct Cmin as [Imn Lmn]. destruct Cmax as [Imx Lmx].
  destruct (Hin b_low mn Imn) as (b1 & Ib1 & E1). destruct (Hin b_high mx Imx) as (b2 & Ib2 & E2).
  destruct (Hb b1 Ib1) as (_ & [Fmn Bmn] & _). destruct (Hb b2 Ib2) as ([Fmx Bmx] & _). rewrite <- E1 in Fmn, Bmn. rewrite <- E2 in Fmx, Bmx.
  cbn [add sub mul O].
  assert (Hp6 : 0 <= FR atr * FR mu <= bpow radix2 403 * bpow radix2 400).
  { split; [apply Rmult_le_pos; assumption|]. apply Rmult_le_compat; try assumption.
    apply Rle_trans with (bpow radix2 3 * bpow radix2 400); [change (bpow radix2 3) with 8; lra|]. rewrite <- bpow_plus. apply bpow_le. lia. }
  rewrite <- bpow_plus in Hp6. change (403 + 400)%Z with 803%Z in Hp6.
  assert (H804 : 2 * bpow radix2 803 + bpow radix2 400 <= BIG).
  { unfold BIG. assert (bpow radix2 400 <= bpow radix2 803) by (apply bpow_le; lia). apply Rle_trans with (4 * bpow radix2 803); [lra|].
    change 4 with (bpow radix2 2). rewrite <- bpow_plus. apply bpow_le. lia. }
  pose proof (bpow_gt_0 radix2 803) as H803.
  destruct (fmul_exact atr mu Fat Fmu) as [Ft Et]; [rewrite Rabs_pos_eq by apply Hp6; lra|].
  assert (Ht0 : 0 <= FR (atr * mu)%float) by (rewrite Et; apply RN_nonneg, Hp6).
  assert (Ht1 : FR (atr * mu)%float <= bpow radix2 803).
  { rewrite Et. apply RN_le_fmt; [apply generic_format_bpow; unfold SpecFloat.fexp, SpecFloat.emin; cbn; lia|apply Hp6]. }
  destruct (fsub_exact mx (atr * mu)%float Fmx Ft) as [Flg Elg].
  { eapply Rle_trans; [apply Rabs_triang|]. rewrite Rabs_Ropp, (Rabs_pos_eq (FR (atr * mu)%float)) by exact Ht0. lra. }
  destruct (fadd_exact mn (atr * mu)%float Fmn Ft) as [Fsh Esh].
  { eapply Rle_trans; [apply Rabs_triang|]. rewrite (Rabs_pos_eq (FR (atr * mu)%float)) by exact Ht0. lra. }
  exists (mx - atr * mu)%float, (mn + atr * mu)%float, mx, mn.
  split; [reflexivity|]. split; [exact Flg|]. split; [exact Fsh|]. split; [split; assumption|]. split; [split; assumption|]. split.
  - rewrite Elg. rewrite <- (RN_FR mx) at 2. apply RN_le. lra.
  - rewrite Esh. rewrite <- (RN_FR mn) at 1. apply RN_le. lra.
Qed.
