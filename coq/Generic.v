(* Generic.v — uniform view of the 22 indicators: constructor dispatch, next / next_bar /
   reset, parameters, Display, Default, serialisation items (bincode layout), and the
   operation language run by the correspondence check.  Definitions only. *)
From Coq Require Import String.
From TA Require Import Base Model.
Open Scope N_scope.

Inductive Kind :=
| KSma | KEma | KWma | KSd | KMad | KMin | KMax | KBb | KTr | KAtr | KRsi | KFast | KSlow
| KRoc | KEr | KMacd | KPpo | KKc | KCe | KCci | KMfi | KObv.

Definition all_kinds : list Kind :=
  [KSma; KEma; KWma; KSd; KMad; KMin; KMax; KBb; KTr; KAtr; KRsi; KFast; KSlow;
   KRoc; KEr; KMacd; KPpo; KKc; KCe; KCci; KMfi; KObv].

Definition Kind_eqb (a b : Kind) : bool :=
  match a, b with
  | KSma, KSma | KEma, KEma | KWma, KWma | KSd, KSd | KMad, KMad | KMin, KMin | KMax, KMax
  | KBb, KBb | KTr, KTr | KAtr, KAtr | KRsi, KRsi | KFast, KFast | KSlow, KSlow | KRoc, KRoc
  | KEr, KEr | KMacd, KMacd | KPpo, KPpo | KKc, KKc | KCe, KCe | KCci, KCci | KMfi, KMfi
  | KObv, KObv => true
  | _, _ => false
  end.

(* has a Next<f64> impl *)
Definition has_scalar (k : Kind) : bool :=
  match k with KCe | KCci | KMfi | KObv => false | _ => true end.

(* number of period arguments of the constructor *)
Definition n_periods (k : Kind) : nat :=
  match k with KTr | KObv => 0 | KSlow => 2 | KMacd | KPpo => 3 | _ => 1 end%nat.

Definition has_multiplier (k : Kind) : bool :=
  match k with KBb | KKc | KCe => true | _ => false end.

(* allocates one or more windows of [period] f64 (so "as far as memory allows") *)
Definition allocates (k : Kind) : bool :=
  match k with
  | KEma | KTr | KAtr | KRsi | KMacd | KPpo | KKc | KObv => false
  | _ => true end.

Section Generic.
Context {F : Type} (O : Ops F).

Inductive St :=
| SSma (s : @Sma F) | SEma (s : @Ema F) | SWma (s : @Wma F) | SSd (s : @Sd F) | SMad (s : @Mad F)
| SMin (s : @Min F) | SMax (s : @Max F) | SBb (s : @Bb F) | STr (s : @Tr F) | SAtr (s : @Atr F)
| SRsi (s : @Rsi F) | SFast (s : @Fast F) | SSlow (s : @Slow F) | SRoc (s : @Roc F) | SEr (s : @Er F)
| SMacd (s : @Macd F) | SPpo (s : @Ppo F) | SKc (s : @Kc F) | SCe (s : @Ce F) | SCci (s : @Cci F)
| SMfi (s : @Mfi F) | SObv (s : @Obv F).

Definition kind_of (s : St) : Kind :=
  match s with
  | SSma _ => KSma | SEma _ => KEma | SWma _ => KWma | SSd _ => KSd | SMad _ => KMad
  | SMin _ => KMin | SMax _ => KMax | SBb _ => KBb | STr _ => KTr | SAtr _ => KAtr
  | SRsi _ => KRsi | SFast _ => KFast | SSlow _ => KSlow | SRoc _ => KRoc | SEr _ => KEr
  | SMacd _ => KMacd | SPpo _ => KPpo | SKc _ => KKc | SCe _ => KCe | SCci _ => KCci
  | SMfi _ => KMfi | SObv _ => KObv end.

Record Params := mkParams { p1 : N; p2 : N; p3 : N; pm : F }.

Definition rmap {A B} (f : A -> B) (m : res A) : res B := x <- m ;; Ok (f x).

Definition new (k : Kind) (p : Params) : res St :=
  match k with
  | KSma => rmap SSma (sma_new O (p1 p))
  | KEma => rmap SEma (ema_new O (p1 p))
  | KWma => rmap SWma (wma_new O (p1 p))
  | KSd => rmap SSd (sd_new O (p1 p))
  | KMad => rmap SMad (mad_new O (p1 p))
  | KMin => rmap SMin (min_new O (p1 p))
  | KMax => rmap SMax (max_new O (p1 p))
  | KBb => rmap SBb (bb_new O (p1 p) (pm p))
  | KTr => Ok (STr tr_new)
  | KAtr => rmap SAtr (atr_new O (p1 p))
  | KRsi => rmap SRsi (rsi_new O (p1 p))
  | KFast => rmap SFast (fast_new O (p1 p))
  | KSlow => rmap SSlow (slow_new O (p1 p) (p2 p))
  | KRoc => rmap SRoc (roc_new O (p1 p))
  | KEr => rmap SEr (er_new O (p1 p))
  | KMacd => rmap SMacd (macd_new O (p1 p) (p2 p) (p3 p))
  | KPpo => rmap SPpo (ppo_new O (p1 p) (p2 p) (p3 p))
  | KKc => rmap SKc (kc_new O (p1 p) (pm p))
  | KCe => rmap SCe (ce_new O (p1 p) (pm p))
  | KCci => rmap SCci (cci_new O (p1 p))
  | KMfi => rmap SMfi (mfi_new O (p1 p))
  | KObv => Ok (SObv (obv_new O))
  end.

(* documented defaults (written from the README / rustdoc, not from the code) *)
Definition default_params (k : Kind) : Params :=
  match k with
  | KSma | KEma | KWma | KSd | KMad | KRoc => mkParams 9 0 0 (zero O)
  | KRsi | KAtr | KEr | KMfi | KMin | KMax | KFast => mkParams 14 0 0 (zero O)
  | KSlow => mkParams 14 3 0 (zero O)
  | KMacd | KPpo => mkParams 12 26 9 (zero O)
  | KCci => mkParams 20 0 0 (zero O)
  | KBb => mkParams 9 0 0 (two O)
  | KKc => mkParams 10 0 0 (two O)
  | KCe => mkParams 22 0 0 (three O)
  | KTr | KObv => mkParams 0 0 0 (zero O)
  end.

Definition pack1 {S} (c : S -> St) (r : res (S * F)) : res (St * list F) :=
  '(s, o) <- r ;; Ok (c s, [o]).
Definition packl {S} (c : S -> St) (r : res (S * list F)) : res (St * list F) :=
  '(s, o) <- r ;; Ok (c s, o).
Definition pure1 {S} (c : S -> St) (r : S * F) : res (St * list F) := let '(s, o) := r in Ok (c s, [o]).
Definition purel {S} (c : S -> St) (r : S * list F) : res (St * list F) := let '(s, o) := r in Ok (c s, o).

(* Next<f64>; the four indicators without one have no scalar transition (None) *)
Definition next (s : St) (x : F) : option (res (St * list F)) :=
  match s with
  | SSma s => Some (pack1 SSma (sma_next O s x))
  | SEma s => Some (pure1 SEma (ema_next O s x))
  | SWma s => Some (pack1 SWma (wma_next O s x))
  | SSd s => Some (pack1 SSd (sd_next O s x))
  | SMad s => Some (pack1 SMad (mad_next O s x))
  | SMin s => Some (pack1 SMin (min_next O s x))
  | SMax s => Some (pack1 SMax (max_next O s x))
  | SBb s => Some (packl SBb (bb_next O s x))
  | STr s => Some (pure1 STr (tr_next O s x))
  | SAtr s => Some (pure1 SAtr (atr_next O s x))
  | SRsi s => Some (pure1 SRsi (rsi_next O s x))
  | SFast s => Some (pack1 SFast (fast_next O s x))
  | SSlow s => Some (pack1 SSlow (slow_next O s x))
  | SRoc s => Some (pack1 SRoc (roc_next O s x))
  | SEr s => Some (pack1 SEr (er_next O s x))
  | SMacd s => Some (purel SMacd (macd_next O s x))
  | SPpo s => Some (purel SPpo (ppo_next O s x))
  | SKc s => Some (purel SKc (kc_next O s x))
  | SCe _ | SCci _ | SMfi _ | SObv _ => None
  end.

(* Next<&T> for T: Open + High + Low + Close + Volume *)
Definition next_bar (s : St) (b : Bar F) : res (St * list F) :=
  match s with
  | SSma s => pack1 SSma (sma_next O s (b_close b))
  | SEma s => pure1 SEma (ema_next O s (b_close b))
  | SWma s => pack1 SWma (wma_next O s (b_close b))
  | SSd s => pack1 SSd (sd_next O s (b_close b))
  | SMad s => pack1 SMad (mad_next O s (b_close b))
  | SMin s => pack1 SMin (min_next O s (b_low b))
  | SMax s => pack1 SMax (max_next O s (b_high b))
  | SBb s => packl SBb (bb_next O s (b_close b))
  | STr s => pure1 STr (tr_next_bar O s b)
  | SAtr s => pure1 SAtr (atr_next_bar O s b)
  | SRsi s => pure1 SRsi (rsi_next O s (b_close b))
  | SFast s => pack1 SFast (fast_next_bar O s b)
  | SSlow s => pack1 SSlow (slow_next_bar O s b)
  | SRoc s => pack1 SRoc (roc_next O s (b_close b))
  | SEr s => pack1 SEr (er_next O s (b_close b))
  | SMacd s => purel SMacd (macd_next O s (b_close b))
  | SPpo s => purel SPpo (ppo_next O s (b_close b))
  | SKc s => purel SKc (kc_next_bar O s b)
  | SCe s => packl SCe (ce_next_bar O s b)
  | SCci s => pack1 SCci (cci_next_bar O s b)
  | SMfi s => pack1 SMfi (mfi_next_bar O s b)
  | SObv s => pure1 SObv (obv_next_bar O s b)
  end.

Definition reset (s : St) : res St :=
  match s with
  | SSma s => rmap SSma (sma_reset O s)
  | SEma s => Ok (SEma (ema_reset O s))
  | SWma s => rmap SWma (wma_reset O s)
  | SSd s => rmap SSd (sd_reset O s)
  | SMad s => rmap SMad (mad_reset O s)
  | SMin s => rmap SMin (min_reset O s)
  | SMax s => rmap SMax (max_reset O s)
  | SBb s => rmap SBb (bb_reset O s)
  | STr s => Ok (STr (tr_reset s))
  | SAtr s => Ok (SAtr (atr_reset O s))
  | SRsi s => Ok (SRsi (rsi_reset O s))
  | SFast s => rmap SFast (fast_reset O s)
  | SSlow s => rmap SSlow (slow_reset O s)
  | SRoc s => rmap SRoc (roc_reset O s)
  | SEr s => rmap SEr (er_reset O s)
  | SMacd s => Ok (SMacd (macd_reset O s))
  | SPpo s => Ok (SPpo (ppo_reset O s))
  | SKc s => Ok (SKc (kc_reset O s))
  | SCe s => rmap SCe (ce_reset O s)
  | SCci s => rmap SCci (cci_reset O s)
  | SMfi s => rmap SMfi (mfi_reset O s)
  | SObv s => Ok (SObv (obv_reset O s))
  end.

(* ---- accessors: Period::period, multiplier(), Display = NAME(params) ---- *)
Definition period_of (s : St) : option N :=
  match s with
  | SSma s => Some (sma_period s) | SEma s => Some (ema_period s) | SWma s => Some (wma_period s)
  | SSd s => Some (sd_period s) | SMad s => Some (mad_period s) | SMin s => Some (min_period s)
  | SMax s => Some (max_period s) | SBb s => Some (bb_period s)
  | SAtr s => Some (ema_period (atr_ema s)) | SRsi s => Some (rsi_period s)
  | SFast s => Some (fast_period s) | SRoc s => Some (roc_period s) | SEr s => Some (er_period s)
  | SKc s => Some (kc_period s) | SCe s => Some (ema_period (atr_ema (ce_atr s)))
  | SCci s => Some (sma_period (cci_sma s)) | SMfi s => Some (mfi_period s)
  | STr _ | SSlow _ | SMacd _ | SPpo _ | SObv _ => None
  end.

Definition multiplier_of (s : St) : option F :=
  match s with
  | SBb s => Some (bb_multiplier s) | SKc s => Some (kc_multiplier s) | SCe s => Some (ce_multiplier s)
  | _ => None end.

(* Display: (name, usize arguments printed with {}, optional f64 argument printed with {}, parens) *)
Definition display_name (k : Kind) : string :=
  match k with
  | KSma => "SMA" | KEma => "EMA" | KWma => "WMA" | KSd => "SD" | KMad => "MAD" | KMin => "MIN"
  | KMax => "MAX" | KBb => "BB" | KTr => "TRUE_RANGE" | KAtr => "ATR" | KRsi => "RSI"
  | KFast => "FAST_STOCH" | KSlow => "SLOW_STOCH" | KRoc => "ROC" | KEr => "ER" | KMacd => "MACD"
  | KPpo => "PPO" | KKc => "KC" | KCe => "CE" | KCci => "CCI" | KMfi => "MFI" | KObv => "OBV"
  end%string.

(* OBV prints without parentheses; TRUE_RANGE() with empty ones *)
Definition display_parens (k : Kind) : bool := match k with KObv => false | _ => true end.

Definition display_args (s : St) : list N * option F :=
  match s with
  | SSma s => ([sma_period s], None) | SEma s => ([ema_period s], None) | SWma s => ([wma_period s], None)
  | SSd s => ([sd_period s], None) | SMad s => ([mad_period s], None) | SMin s => ([min_period s], None)
  | SMax s => ([max_period s], None) | SBb s => ([bb_period s], Some (bb_multiplier s))
  | STr _ => ([], None) | SAtr s => ([ema_period (atr_ema s)], None) | SRsi s => ([rsi_period s], None)
  | SFast s => ([fast_period s], None)
  | SSlow s => ([fast_period (slow_fast s); ema_period (slow_ema s)], None)
  | SRoc s => ([roc_period s], None) | SEr s => ([er_period s], None)
  | SMacd s => ([ema_period (macd_fast s); ema_period (macd_slow s); ema_period (macd_signal s)], None)
  | SPpo s => ([ema_period (ppo_fast s); ema_period (ppo_slow s); ema_period (ppo_signal s)], None)
  | SKc s => ([kc_period s], Some (kc_multiplier s))
  | SCe s => ([ema_period (atr_ema (ce_atr s))], Some (ce_multiplier s))
  | SCci s => ([sma_period (cci_sma s)], None) | SMfi s => ([mfi_period s], None)
  | SObv _ => ([], None)
  end.

(* ---- serialisation: bincode 1.3 default options, one item per primitive, declaration order ---- *)
Inductive item := U64 (n : N) | F64 (f : F) | U8 (n : N).

Definition ser_bool (b : bool) : list item := [U8 (if b then 1 else 0)].
Definition ser_deque (l : list F) : list item := U64 (N.of_nat (List.length l)) :: map F64 l.
Definition ser_opt (o : option F) : list item := match o with None => [U8 0] | Some f => [U8 1; F64 f] end.

Definition ser_sma (s : @Sma F) := [U64 (sma_period s); U64 (sma_index s); U64 (sma_count s); F64 (sma_sum s)] ++ ser_deque (sma_deque s).
Definition ser_ema (s : @Ema F) := [U64 (ema_period s); F64 (ema_k s); F64 (ema_current s)] ++ ser_bool (ema_is_new s).
Definition ser_wma (s : @Wma F) := [U64 (wma_period s); U64 (wma_index s); U64 (wma_count s); F64 (wma_weight s); F64 (wma_sum s); F64 (wma_sum_flat s)] ++ ser_deque (wma_deque s).
Definition ser_sd (s : @Sd F) := [U64 (sd_period s); U64 (sd_index s); U64 (sd_count s); F64 (sd_m s); F64 (sd_m2 s)] ++ ser_deque (sd_deque s).
Definition ser_mad (s : @Mad F) := [U64 (mad_period s); U64 (mad_index s); U64 (mad_count s); F64 (mad_sum s)] ++ ser_deque (mad_deque s).
Definition ser_min (s : @Min F) := [U64 (min_period s); U64 (min_min_index s); U64 (min_cur_index s)] ++ ser_deque (min_deque s).
Definition ser_max (s : @Max F) := [U64 (max_period s); U64 (max_max_index s); U64 (max_cur_index s)] ++ ser_deque (max_deque s).
Definition ser_bb (s : @Bb F) := [U64 (bb_period s); F64 (bb_multiplier s)] ++ ser_sd (bb_sd s).
Definition ser_tr (s : @Tr F) := ser_opt (tr_prev_close s).
Definition ser_atr (s : @Atr F) := ser_tr (atr_true_range s) ++ ser_ema (atr_ema s).
Definition ser_rsi (s : @Rsi F) := [U64 (rsi_period s)] ++ ser_ema (rsi_up s) ++ ser_ema (rsi_down s) ++ [F64 (rsi_prev_val s)] ++ ser_bool (rsi_is_new s).
Definition ser_fast (s : @Fast F) := [U64 (fast_period s)] ++ ser_min (fast_minimum s) ++ ser_max (fast_maximum s).
Definition ser_slow (s : @Slow F) := ser_fast (slow_fast s) ++ ser_ema (slow_ema s).
Definition ser_roc (s : @Roc F) := [U64 (roc_period s); U64 (roc_index s); U64 (roc_count s)] ++ ser_deque (roc_deque s).
Definition ser_er (s : @Er F) := [U64 (er_period s); U64 (er_index s); U64 (er_count s)] ++ ser_deque (er_deque s).
Definition ser_macd (s : @Macd F) := ser_ema (macd_fast s) ++ ser_ema (macd_slow s) ++ ser_ema (macd_signal s).
Definition ser_ppo (s : @Ppo F) := ser_ema (ppo_fast s) ++ ser_ema (ppo_slow s) ++ ser_ema (ppo_signal s).
Definition ser_kc (s : @Kc F) := [U64 (kc_period s); F64 (kc_multiplier s)] ++ ser_atr (kc_atr s) ++ ser_ema (kc_ema s).
Definition ser_ce (s : @Ce F) := ser_atr (ce_atr s) ++ ser_min (ce_min s) ++ ser_max (ce_max s) ++ [F64 (ce_multiplier s)].
Definition ser_cci (s : @Cci F) := ser_sma (cci_sma s) ++ ser_mad (cci_mad s).
Definition ser_mfi (s : @Mfi F) := [U64 (mfi_period s); U64 (mfi_index s); U64 (mfi_count s); F64 (mfi_prev_tp s); F64 (mfi_pos s); F64 (mfi_neg s)] ++ ser_deque (mfi_deque s).
Definition ser_obv (s : @Obv F) := [F64 (obv_obv s); F64 (obv_prev_close s)].

Definition ser (s : St) : list item :=
  match s with
  | SSma s => ser_sma s | SEma s => ser_ema s | SWma s => ser_wma s | SSd s => ser_sd s
  | SMad s => ser_mad s | SMin s => ser_min s | SMax s => ser_max s | SBb s => ser_bb s
  | STr s => ser_tr s | SAtr s => ser_atr s | SRsi s => ser_rsi s | SFast s => ser_fast s
  | SSlow s => ser_slow s | SRoc s => ser_roc s | SEr s => ser_er s | SMacd s => ser_macd s
  | SPpo s => ser_ppo s | SKc s => ser_kc s | SCe s => ser_ce s | SCci s => ser_cci s
  | SMfi s => ser_mfi s | SObv s => ser_obv s end.

Definition item_bytes (i : item) : N := match i with U8 _ => 1 | _ => 8 end.
Definition ser_len (s : St) : N := fold_right (fun i a => item_bytes i + a) 0 (ser s).

(* ---- deserialisation (item level) ---- *)
Definition P (A : Type) := list item -> option (A * list item).
Definition pbind {A B} (p : P A) (f : A -> P B) : P B :=
  fun l => match p l with Some (a, r) => f a r | None => None end.
Definition pret {A} (a : A) : P A := fun l => Some (a, l).
Notation "x <~ p ;; k" := (pbind p (fun x => k)) (at level 61, p at next level, right associativity).

Definition p_u64 : P N := fun l => match l with U64 n :: r => Some (n, r) | _ => None end.
Definition p_f64 : P F := fun l => match l with F64 f :: r => Some (f, r) | _ => None end.
Definition p_bool : P bool := fun l =>
  match l with U8 0 :: r => Some (false, r) | U8 1 :: r => Some (true, r) | _ => None end.
Fixpoint p_floats (n : nat) : P (list F) :=
  match n with
  | 0%nat => pret []
  | S n => x <~ p_f64 ;; xs <~ p_floats n ;; pret (x :: xs)
  end.
(* the length word is bounded by the remaining input, as bincode does for its reads *)
Definition p_deque : P (list F) := fun l =>
  match l with
  | U64 n :: r => if (N.to_nat n <=? List.length r)%nat then p_floats (N.to_nat n) r else None
  | _ => None end.
Definition p_opt : P (option F) := fun l =>
  match l with
  | U8 0 :: r => Some (None, r)
  | U8 1 :: F64 f :: r => Some (Some f, r)
  | _ => None end.

Definition p_sma : P (@Sma F) := a <~ p_u64 ;; b <~ p_u64 ;; c <~ p_u64 ;; d <~ p_f64 ;; q <~ p_deque ;; pret (mkSma a b c d q).
Definition p_ema : P (@Ema F) := a <~ p_u64 ;; b <~ p_f64 ;; c <~ p_f64 ;; d <~ p_bool ;; pret (mkEma a b c d).
Definition p_wma : P (@Wma F) := a <~ p_u64 ;; b <~ p_u64 ;; c <~ p_u64 ;; d <~ p_f64 ;; e <~ p_f64 ;; f <~ p_f64 ;; q <~ p_deque ;; pret (mkWma a b c d e f q).
Definition p_sd : P (@Sd F) := a <~ p_u64 ;; b <~ p_u64 ;; c <~ p_u64 ;; d <~ p_f64 ;; e <~ p_f64 ;; q <~ p_deque ;; pret (mkSd a b c d e q).
Definition p_mad : P (@Mad F) := a <~ p_u64 ;; b <~ p_u64 ;; c <~ p_u64 ;; d <~ p_f64 ;; q <~ p_deque ;; pret (mkMad a b c d q).
Definition p_min : P (@Min F) := a <~ p_u64 ;; b <~ p_u64 ;; c <~ p_u64 ;; q <~ p_deque ;; pret (mkMin a b c q).
Definition p_max : P (@Max F) := a <~ p_u64 ;; b <~ p_u64 ;; c <~ p_u64 ;; q <~ p_deque ;; pret (mkMax a b c q).
Definition p_bb : P (@Bb F) := a <~ p_u64 ;; b <~ p_f64 ;; c <~ p_sd ;; pret (mkBb a b c).
Definition p_tr : P (@Tr F) := a <~ p_opt ;; pret (mkTr a).
Definition p_atr : P (@Atr F) := a <~ p_tr ;; b <~ p_ema ;; pret (mkAtr a b).
Definition p_rsi : P (@Rsi F) := a <~ p_u64 ;; b <~ p_ema ;; c <~ p_ema ;; d <~ p_f64 ;; e <~ p_bool ;; pret (mkRsi a b c d e).
Definition p_fast : P (@Fast F) := a <~ p_u64 ;; b <~ p_min ;; c <~ p_max ;; pret (mkFast a b c).
Definition p_slow : P (@Slow F) := a <~ p_fast ;; b <~ p_ema ;; pret (mkSlow a b).
Definition p_roc : P (@Roc F) := a <~ p_u64 ;; b <~ p_u64 ;; c <~ p_u64 ;; q <~ p_deque ;; pret (mkRoc a b c q).
Definition p_er : P (@Er F) := a <~ p_u64 ;; b <~ p_u64 ;; c <~ p_u64 ;; q <~ p_deque ;; pret (mkEr a b c q).
Definition p_macd : P (@Macd F) := a <~ p_ema ;; b <~ p_ema ;; c <~ p_ema ;; pret (mkMacd a b c).
Definition p_ppo : P (@Ppo F) := a <~ p_ema ;; b <~ p_ema ;; c <~ p_ema ;; pret (mkPpo a b c).
Definition p_kc : P (@Kc F) := a <~ p_u64 ;; b <~ p_f64 ;; c <~ p_atr ;; d <~ p_ema ;; pret (mkKc a b c d).
Definition p_ce : P (@Ce F) := a <~ p_atr ;; b <~ p_min ;; c <~ p_max ;; d <~ p_f64 ;; pret (mkCe a b c d).
Definition p_cci : P (@Cci F) := a <~ p_sma ;; b <~ p_mad ;; pret (mkCci a b).
Definition p_mfi : P (@Mfi F) := a <~ p_u64 ;; b <~ p_u64 ;; c <~ p_u64 ;; d <~ p_f64 ;; e <~ p_f64 ;; f <~ p_f64 ;; q <~ p_deque ;; pret (mkMfi a b c d e f q).
Definition p_obv : P (@Obv F) := a <~ p_f64 ;; b <~ p_f64 ;; pret (mkObv a b).

Definition pmap {A B} (f : A -> B) (p : P A) : P B := a <~ p ;; pret (f a).

Definition de (k : Kind) : P St :=
  match k with
  | KSma => pmap SSma p_sma | KEma => pmap SEma p_ema | KWma => pmap SWma p_wma | KSd => pmap SSd p_sd
  | KMad => pmap SMad p_mad | KMin => pmap SMin p_min | KMax => pmap SMax p_max | KBb => pmap SBb p_bb
  | KTr => pmap STr p_tr | KAtr => pmap SAtr p_atr | KRsi => pmap SRsi p_rsi | KFast => pmap SFast p_fast
  | KSlow => pmap SSlow p_slow | KRoc => pmap SRoc p_roc | KEr => pmap SEr p_er | KMacd => pmap SMacd p_macd
  | KPpo => pmap SPpo p_ppo | KKc => pmap SKc p_kc | KCe => pmap SCe p_ce | KCci => pmap SCci p_cci
  | KMfi => pmap SMfi p_mfi | KObv => pmap SObv p_obv end.

(* serialize, then deserialize the bytes: what the harness op "s" does *)
Definition serde (s : St) : res St :=
  match de (kind_of s) (ser s) with Some (s', []) => Ok s' | _ => Panic end.

(* ---- operation language (mirrors /verif/harness/src/main.rs) ---- *)
Inductive op :=
| ONew (slot : nat) (k : Kind) (p : Params)
| ODef (slot : nat) (k : Kind)
| ONext (slot : nat) (x : F)
| OBar (slot : nat) (b : Bar F)          (* user struct, fields independent *)
| OItem (slot : nat) (b : Bar F)         (* DataItem built through the builder *)
| OReset (slot : nat)
| OClone (src dst : nat)
| OSerde (slot : nat)
| OProbe (slot : nat)
| ODrop (slot : nat)
| OBuild (calls : list (Setter * F)).      (* DataItem::builder().<setters>.build() *)

(* observable result of one op *)
Inductive obs :=
| BOk                                   (* "ok" *)
| BErr (e : TaError)                    (* constructor / builder error *)
| BPanic
| BDead                                 (* slot empty *)
| BNoScalar
| BOut (o : list F)
| BProbe (k : Kind) (args : list N) (m : option F) (period : option N)
| BBuilt (b : Bar F).

Definition store := list (option St).
Definition sget (st : store) (i : nat) : option St := nth i st None.
Fixpoint sset (st : store) (i : nat) (v : option St) : store :=
  match i, st with
  | 0%nat, _ :: r => v :: r
  | 0%nat, [] => [v]
  | S i, x :: r => x :: sset r i v
  | S i, [] => None :: sset [] i v
  end.

Definition step (st : store) (o : op) : store * obs :=
  match o with
  | ONew s k p =>
      match new k p with
      | Ok v => (sset st s (Some v), BOk)
      | Err e => (sset st s None, BErr e)
      | Panic => (sset st s None, BPanic) end
  | ODef s k =>
      match new k (default_params k) with
      | Ok v => (sset st s (Some v), BOk)
      | Err e => (st, BErr e)
      | Panic => (st, BPanic) end
  | ONext s x =>
      match sget st s with
      | None => (st, BDead)
      | Some v => match next v x with
                  | None => (st, BNoScalar)
                  | Some (Ok (v', out)) => (sset st s (Some v'), BOut out)
                  | Some _ => (st, BPanic) end end
  | OBar s b =>
      match sget st s with
      | None => (st, BDead)
      | Some v => match next_bar v b with
                  | Ok (v', out) => (sset st s (Some v'), BOut out)
                  | _ => (st, BPanic) end end
  | OItem s b =>
      match sget st s with
      | None => (st, BDead)
      | Some v =>
          match build O (set (set (set (set (set builder_new SetOpen (b_open b)) SetHigh (b_high b))
                                        SetLow (b_low b)) SetClose (b_close b)) SetVolume (b_volume b)) with
          | Ok item => match next_bar v item with
                       | Ok (v', out) => (sset st s (Some v'), BOut out)
                       | _ => (st, BPanic) end
          | Err e => (st, BErr e)
          | Panic => (st, BPanic) end end
  | OReset s =>
      match sget st s with
      | None => (st, BDead)
      | Some v => match reset v with
                  | Ok v' => (sset st s (Some v'), BOk)
                  | _ => (st, BPanic) end end
  | OClone s d =>
      match sget st s with
      | None => (st, BDead)
      | Some v => (sset st d (Some v), BOk) end
  | OSerde s =>
      match sget st s with
      | None => (st, BDead)
      | Some v => match serde v with
                  | Ok v' => (sset st s (Some v'), BOk)
                  | _ => (st, BPanic) end end
  | OProbe s =>
      match sget st s with
      | None => (st, BDead)
      | Some v => (st, BProbe (kind_of v) (fst (display_args v)) (snd (display_args v)) (period_of v)) end
  | ODrop s => (sset st s None, BOk)
  | OBuild calls =>
      (st, match build O (fold_left (fun b c => set b (fst c) (snd c)) calls builder_new) with
           | Ok b => BBuilt b | Err e => BErr e | Panic => BPanic end)
  end.

Fixpoint run (st : store) (ops : list op) : store * list obs :=
  match ops with
  | [] => (st, [])
  | o :: r => let '(st1, b) := step st o in
              let '(st2, bs) := run st1 r in (st2, b :: bs)
  end.

End Generic.
