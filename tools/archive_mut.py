#!/usr/bin/env python3
# usage: tools/archive_mut.py <mutdir> <prop> <k> "<detected-by line(s)>"
import json, os, shutil, sys, re
src, prop, k, det = sys.argv[1:5]
dst = "/verif/seeded/%s-%s" % (prop, k)
os.makedirs(dst, exist_ok=True)
shutil.copy(os.path.join(src, "patch.diff"), dst)
shutil.copy(os.path.join(src, "demo.rs"), dst)
notes = open(os.path.join(src, "notes.md")).read() if os.path.exists(os.path.join(src, "notes.md")) else ""
shutil.copy(os.path.join(src, "notes.md"), os.path.join(dst, "notes.md")) if notes else None
conf = ""
for log in ("/tmp/mut/confirm1.log", "/tmp/mut/confirm2.log", "/tmp/mut/confirm3.log", "/tmp/mut/confirm4.log", "/tmp/mut/confirm5.log"):
    if os.path.exists(log):
        for line in open(log):
            if line.startswith(src + " "):
                conf = line.strip()
files = re.findall(r"^\+\+\+ b/(\S+)", open(os.path.join(src, "patch.diff")).read(), re.M)
meta = {"property": prop, "files_changed": files,
        "needs_to_manifest": (re.search(r"(?is)(needs?|manifest|trigger)[^\n]*\n?[^\n]*", notes).group(0)[:600] if re.search(r"(?i)(needs?|manifest|trigger)", notes) else "see notes.md"),
        "origin": "written by an independent sub-agent given only the property text and a scratch worktree",
        "confirmed_by_me": conf or "see DESIGN.md",
        "what_i_ran": ["tools/confirm_mut.sh (scratch worktree: existing suite with patch, demo with patch, demo without patch)",
                       "tools/trymut.sh patch.diff %s (git -C /repo apply; ./check quick; git -C /repo checkout -- .)" % prop],
        "detected_by": det}
json.dump(meta, open(os.path.join(dst, "meta.json"), "w"), indent=1)
print(dst)
