(* RSI and SlowStochastic over the exact carrier: ranges. *)
From Coq Require Import Reals Lra Lia.
From TA Require Import Base Model XR Proofs.Prims Proofs.WF Proofs.Ring Proofs.XBase Proofs.MinMaxProofs Proofs.Wiring Proofs.Osc Proofs.XEma Proofs.XFast.
Open Scope R_scope.
Local Notation O := XROps.

Definition pairFin (gl : R * R) : XR * XR := (Fin (fst gl), Fin (snd gl)).

Lemma rsi_moves_fin : forall xs is_new prev, exists gl : list (R * R),
  rsi_moves O is_new (Fin prev) (map Fin xs) = map pairFin gl /\ Forall (fun gl => 0 <= fst gl /\ 0 <= snd gl) gl.
Proof.
  induction xs as [|x xs IH]; intros is_new prev; [exists []; split; [reflexivity|constructor]|].
  destruct (IH false x) as (gl & E & Hgl). cbn [map rsi_moves]. rewrite E.
  destruct is_new.
  - exists ((1 / 10, 1 / 10) :: gl). split; [reflexivity|constructor; [cbn; lra|exact Hgl]].
  - destruct (ltb O (Fin prev) (Fin x)) eqn:L.
    + apply xr_ltb_fin in L. exists ((x - prev, 0) :: gl). split; [reflexivity|constructor; [cbn; lra|exact Hgl]].
    + apply xr_ltb_fin_false in L. exists ((0, prev - x) :: gl). split; [reflexivity|constructor; [cbn; lra|exact Hgl]].
Qed.

Lemma ema_real_length k prev xs : length (ema_real k prev xs) = length xs.
Proof. revert prev; induction xs as [|y xs IH]; intros prev; [reflexivity|]. cbn [ema_real length]. f_equal. apply IH. Qed.

Lemma ema_outs_nonneg p s xs : ema_new O p = Ok s -> (forall y, In y xs -> 0 <= y) ->
  exists rs, ema_outs O s (map Fin xs) = map Fin rs /\ length rs = length xs /\ forall r, In r rs -> 0 <= r.
Proof.
  intros H B. rewrite (ema_outs_xr p s xs H). exists (ema_stream (kreal p) xs). split; [reflexivity|]. split.
  - destruct xs as [|x xs]; [reflexivity|]. cbn [ema_stream length]. f_equal. apply ema_real_length.
  - intros r Hr.
    assert (M : exists hi, forall y, In y xs -> 0 <= y <= hi).
    { clear -B. induction xs as [|x xs IH]; [exists 0; intros y []|].
      destruct IH as [hi Hhi]; [intros y Hy; apply B; right; exact Hy|].
      exists (Rmax x hi). intros y [<-|Hy]; [split; [apply B; left; reflexivity|apply Rmax_l]|].
      specialize (Hhi y Hy). split; [lra|]. apply Rle_trans with hi; [lra|apply Rmax_r]. }
    destruct M as [hi Hhi].
    pose proof (ema_between p s xs 0 hi H Hhi) as Fa. rewrite (ema_outs_xr p s xs H) in Fa.
    rewrite Forall_forall in Fa. destruct (Fa (Fin r) (in_map Fin _ r Hr)) as (r' & Er & Hr'). injection Er as ->. lra.
Qed.

(* each RSI output is a finite value in [0,100], or NaN exactly when both averages are 0 (zero denominator) *)
Theorem rsi_range : forall p s xs, rsi_new O p = Ok s ->
  Forall (fun o => match o with Fin r => 0 <= r <= 100 | XNaN => True | _ => False end) (rsi_outs O s (map Fin xs)).
Proof.
  intros p s xs H. unfold rsi_new in H.
  destruct (ema_new O p) as [e| |] eqn:Ee; cbn in H; try discriminate. injection H as <-.
  rewrite rsi_wiring.
  destruct (rsi_moves_fin xs true 0) as (gl & E & Hgl). change (zero O) with (Fin 0). rewrite E.
  rewrite !map_map. cbn [pairFin fst snd].
  rewrite <- (map_map fst Fin), <- (map_map snd Fin).
  destruct (ema_outs_nonneg p e (map fst gl) Ee) as (us & Eu & Lu & Hu).
  { intros y Hy. apply in_map_iff in Hy as (g & <- & Hg). rewrite Forall_forall in Hgl. apply Hgl. exact Hg. }
  destruct (ema_outs_nonneg p e (map snd gl) Ee) as (ds & Ed & Ld & Hd).
  { intros y Hy. apply in_map_iff in Hy as (g & <- & Hg). rewrite Forall_forall in Hgl. apply Hgl. exact Hg. }
  rewrite Eu, Ed. rewrite !map_length in Lu, Ld.
  assert (G : forall us ds, (forall r, In r us -> 0 <= r) -> (forall r, In r ds -> 0 <= r) ->
     Forall (fun o => match o with Fin r => 0 <= r <= 100 | XNaN => True | _ => False end)
            (map2 (fun u d => div O (mul O (c100 O) u) (add O u d)) (map Fin us) (map Fin ds))).
  { clear. induction us as [|u us IH]; intros [|d ds] Hu Hd; cbn [map map2]; try constructor.
    - xfin. cbn [div O]. unfold xr_div. destruct (Req_EM_T (u + d) 0) as [Z|Z].
      + assert (u = 0) by (pose proof (Hu u (or_introl eq_refl)); pose proof (Hd d (or_introl eq_refl)); lra). subst u.
        unfold rsgn. destruct (Rlt_dec 0 (100 * 0)); [lra|]. destruct (Rlt_dec (100 * 0) 0); [lra|]. exact I.
      + apply ratio100_range; [apply Hu; left; reflexivity|apply Hd; left; reflexivity|exact Z].
    - apply IH; intros r Hr; [apply Hu|apply Hd]; right; exact Hr. }
  apply G; assumption.
Qed.

(* SlowStochastic = EMA of FastStochastic values in [0,100] stays in [0,100] *)
Theorem slow_range : forall p q s xs, slow_new O p q = Ok s ->
  Forall (fun o => exists r, o = Fin r /\ 0 <= r <= 100) (slow_outs O s (map Fin xs)).
Proof.
  intros p q s xs H. unfold slow_new in H.
  destruct (fast_new O p) as [f| |] eqn:Ef; cbn in H; try discriminate.
  destruct (ema_new O q) as [e| |] eqn:Ee; cbn in H; try discriminate. injection H as <-.
  rewrite slow_wiring.
  destruct (fast_char p f xs Ef) as [L C].
  assert (Efs : exists rs, fast_outs O f (map Fin xs) = map Fin rs /\ forall y, In y rs -> 0 <= y <= 100).
  { set (outs := fast_outs O f (map Fin xs)) in *.
    assert (G : forall l : list XR, (forall k, (k < length l)%nat -> exists r, nth k l XNaN = Fin r /\ 0 <= r <= 100) ->
               exists rs, l = map Fin rs /\ forall y, In y rs -> 0 <= y <= 100).
    { induction l as [|a l IH]; intros Hk; [exists []; split; [reflexivity|intros y []]|].
      destruct (Hk 0%nat ltac:(cbn; lia)) as (r & Er & Hr). cbn in Er.
      destruct IH as (rs & -> & Hrs); [intros k Hk'; apply (Hk (S k)); cbn; lia|].
      exists (r :: rs). split; [cbn; rewrite Er; reflexivity|]. intros y [<-|Hy]; [exact Hr|apply Hrs; exact Hy]. }
    apply G. intros k Hk. rewrite L in Hk. destruct (C k Hk) as (mn & mx & _ & _ & _ & _ & R'). exact R'. }
  destruct Efs as (rs & -> & Hrs).
  exact (ema_between q e rs 0 100 Ee Hrs).
Qed.
