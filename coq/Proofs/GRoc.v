(* RateOfChange for EVERY number type: after any history the output is ((x - r) / r) * 100 computed in that number type, where r is
   the reference price of the window (the first price until n earlier prices exist, then the price n steps back). Bit-exact for
   binary64; the exact-carrier theorem of XRoc.v is the instance F = XR. *)
From Coq Require Import List Lia NArith.
From TA Require Import Base Model Proofs.Prims Proofs.WF Proofs.Ring Proofs.XBase Proofs.XMad Proofs.Wiring.
Import ListNotations.
Open Scope N_scope.

Section G.
Context {F : Type} (O : Ops F).
Local Notation z := (zero O).

Definition groc_ref (p : nat) (h : list F) (x : F) : F := hd x (lastn p h).
Definition groc_val (r x : F) : F := mul O (div O (sub O x r) r) (c100 O).

Definition groc_inv (s : @Roc F) (h : list F) : Prop :=
  let p := N.to_nat (roc_period s) in
  wf_roc s /\
  rot (N.to_nat (roc_index s)) (roc_deque s) = lastn p (padded z p h) /\
  roc_count s = N.of_nat (Nat.min (length h) (S p)) /\
  ((length h < p)%nat -> roc_index s = N.of_nat (length h)) /\
  (length h = p -> roc_index s = 0).

Lemma groc_inv_new p s : roc_new O p = Ok s -> groc_inv s [].
Proof.
  intros H. pose proof (roc_new_inv O p s H) as (A & B & W & Pe).
  rewrite roc_new_ok in H by assumption. injection H as <-.
  unfold groc_inv. cbn [roc_period roc_index roc_count roc_deque].
  split; [exact W|]. split; [rewrite rot_0, lastn_padded_nil; reflexivity|].
  repeat split; cbn; try reflexivity; lia.
Qed.

Lemma ghd_lastn_padded p (h : list F) d : (1 <= p)%nat -> (p <= length h)%nat -> hd d (lastn p (padded z p h)) = hd d (lastn p h).
Proof. intros Hp Hl. rewrite lastn_padded_full by exact Hl. reflexivity. Qed.

Lemma gnth0_first (dq : list F) (p : nat) (i : nat) (h : list F) d :
  (1 <= p)%nat -> length dq = p -> h <> [] -> (length h <= p)%nat ->
  ((length h < p)%nat -> i = length h) -> (length h = p -> i = 0%nat) ->
  rot i dq = lastn p (padded z p h) -> nth 0 dq d = hd d h.
Proof.
  intros Hp Ldq Hne Hle Hi1 Hi2 Hrot.
  rewrite lastn_padded_warm in Hrot by lia.
  destruct (Nat.eq_dec (length h) p) as [E|E].
  - rewrite (Hi2 E), rot_0 in Hrot. replace (p - length h)%nat with 0%nat in Hrot by lia. cbn [repeat app] in Hrot.
    rewrite Hrot. destruct h; [congruence|reflexivity].
  - assert (Ei : i = length h) by (apply Hi1; lia).
    assert (F1 : firstn i dq = h) by (apply (firstn_of_rot_warm dq i _ _ ltac:(lia) Hrot); lia).
    assert (E0 : nth 0 dq d = nth 0 (firstn i dq) d).
    { symmetry. apply nth_firstn'. destruct h; [congruence|cbn in Ei; lia]. }
    rewrite E0, F1. destruct h; [congruence|reflexivity].
Qed.

Lemma groc_step s h x : groc_inv s h ->
  exists s', roc_next O s x = Ok (s', groc_val (groc_ref (N.to_nat (roc_period s)) h x) x) /\
             groc_inv s' (h ++ [x]) /\ roc_period s' = roc_period s.
Proof.
  intros (W & Hrot & Hcnt & Hi1 & Hi2). pose proof W as (H1 & H2 & H3 & H4 & H5).
  set (p := N.to_nat (roc_period s)) in *.
  assert (Hp : (1 <= p)%nat) by (unfold p; lia).
  destruct (ring_step (roc_deque s) (roc_period s) (roc_index s) x z H1 H3 H2 H5) as (E1 & E2 & E3 & E4 & E5).
  unfold roc_next.
  assert (Eprev : (if roc_period s <? roc_count s
                   then p0 <- idx (roc_deque s) (roc_index s) ;; Ok (roc_count s, p0)
                   else c <- uadd (roc_count s) 1 ;;
                        if c =? 1 then Ok (c, x) else p0 <- idx (roc_deque s) 0 ;; Ok (c, p0))
                  = Ok (N.of_nat (Nat.min (length h + 1) (S p)), groc_ref p h x)).
  { unfold groc_ref. destruct (N.ltb_spec (roc_period s) (roc_count s)) as [Hgt|Hle].
    - assert (Hl : (p < length h)%nat) by (rewrite Hcnt in Hgt; unfold p in *; lia).
      rewrite E1. cbn [bind]. rewrite Hrot. rewrite (ghd_lastn_padded p h z Hp ltac:(lia)).
      rewrite Hcnt. do 2 f_equal; [lia|].
      assert (Hne : lastn p h <> []) by (intros E; apply (f_equal (@length F)) in E; rewrite lastn_length in E; cbn in E; lia).
      destruct (lastn p h); [congruence|reflexivity].
    - assert (Hl : (length h <= p)%nat) by (rewrite Hcnt in Hle; unfold p in *; lia).
      rewrite uadd_ok by (unfold ALLOC_MAX, USIZE_MAX in *; lia). cbn [bind]. rewrite Hcnt.
      replace (N.of_nat (Nat.min (length h) (S p)) + 1) with (N.of_nat (Nat.min (length h + 1) (S p))) by lia.
      destruct h as [|a h0].
      + cbn [length Nat.add Nat.min]. cbn. reflexivity.
      + destruct (N.eqb_spec (N.of_nat (Nat.min (length (a :: h0) + 1) (S p))) 1) as [Z|Z]; [cbn [length] in Z; lia|].
        rewrite (idx_ok _ 0 x) by (cbn; lia). cbn [bind N.to_nat].
        rewrite (gnth0_first (roc_deque s) p (N.to_nat (roc_index s)) (a :: h0) x Hp H5 ltac:(discriminate) Hl).
        * rewrite lastn_all by exact Hl. reflexivity.
        * intros Hlt. rewrite (Hi1 Hlt). lia.
        * intros Heq. rewrite (Hi2 Heq). reflexivity.
        * exact Hrot. }
  rewrite Eprev. cbn [bind]. rewrite E2, E3. cbn [bind].
  eexists. split; [reflexivity|]. split; [|reflexivity].
  unfold groc_inv. cbn [roc_period roc_index roc_count roc_deque]. fold p.
  pose proof (advance_lt _ _ H3) as Ha.
  split; [unfold wf_roc; cbn; repeat split; unfold p in *; lia|].
  split; [rewrite E5, Hrot, lastn_padded_snoc by exact Hp; reflexivity|].
  rewrite app_length. cbn [length]. split; [reflexivity|]. split.
  - intros Hlt. rewrite (Hi1 ltac:(lia)). destruct (N.ltb_spec (N.of_nat (length h) + 1) (roc_period s)); unfold p in *; lia.
  - intros Heq. destruct (Nat.eq_dec (length h) p) as [E|E]; [lia|].
    rewrite (Hi1 ltac:(lia)). destruct (N.ltb_spec (N.of_nat (length h) + 1) (roc_period s)); unfold p in *; lia.
Qed.

Fixpoint groc_stream (p : nat) (h : list F) (xs : list F) : list F :=
  match xs with [] => [] | x :: xs => groc_val (groc_ref p h x) x :: groc_stream p (h ++ [x]) xs end.

Lemma groc_outs_spec : forall xs s h, groc_inv s h ->
  res_outs (roc_next O) s xs = groc_stream (N.to_nat (roc_period s)) h xs.
Proof.
  induction xs as [|x xs IH]; intros s h Hinv; cbn [res_outs groc_stream]; [reflexivity|].
  destruct (groc_step s h x Hinv) as (s' & E & Hinv' & Hp). rewrite E. f_equal.
  rewrite (IH s' (h ++ [x]) Hinv'), Hp. reflexivity.
Qed.

Theorem groc_refines : forall p s xs, roc_new O p = Ok s -> res_outs (roc_next O) s xs = groc_stream (N.to_nat p) [] xs.
Proof.
  intros p s xs H. pose proof (roc_new_inv O p s H) as (_ & _ & _ & Pe).
  rewrite (groc_outs_spec xs s [] (groc_inv_new p s H)), Pe. reflexivity.
Qed.
End G.
