// Twin of /verif/coq/Gen.v: a 63-bit xorshift PRNG and stream regimes built only from exact
// integer->float conversions and correctly rounded + - * /, so that the Coq model (primitive
// floats under vm_compute) and this harness see bit-identical streams without shipping them.
use crate::{canon, Dyn, UBar};

const MASK: u64 = (1u64 << 63) - 1;

pub struct Gen {
    pub gen: u64,   // regime
    pub seed: u64,  // 63-bit seed
    pub len: u64,   // number of inputs
    pub a: f64,     // band low
    pub b: f64,     // band high
    pub every: u64, // print output every `every` steps (and at the last step)
    pub mode: u64,  // 0 scalar, 1 user bar, 2 one-price bar (o=h=l=c=x)
}

impl Gen {
    pub fn parse(t: &[&str]) -> Gen {
        Gen {
            gen: t[0].parse().unwrap(),
            seed: t[1].parse().unwrap(),
            len: t[2].parse().unwrap(),
            a: f64::from_bits(u64::from_str_radix(t[3], 16).unwrap()),
            b: f64::from_bits(u64::from_str_radix(t[4], 16).unwrap()),
            every: t[5].parse().unwrap(),
            mode: t[6].parse().unwrap(),
        }
    }
}

#[inline]
pub fn xs(s: u64) -> u64 {
    let mut s = s;
    s ^= (s << 13) & MASK;
    s ^= s >> 7;
    s ^= (s << 17) & MASK;
    s
}

#[inline]
pub fn unit(s: u64) -> f64 {
    // top 53 of the 63 bits, exact
    ((s >> 10) as f64) * (1.0 / 9007199254740992.0)
}

pub struct GS {
    pub s: u64,
    pub x: f64,
    pub k: u64,
}

pub fn init(g: &Gen) -> GS {
    let s0 = (g.seed & MASK) | 1;
    GS {
        s: xs(xs(s0)),
        x: g.a,
        k: 0,
    }
}

// one scalar value of regime g.gen
pub fn step(g: &Gen, st: &mut GS) -> f64 {
    st.s = xs(st.s);
    let u = unit(st.s);
    let (a, b) = (g.a, g.b);
    let x = match g.gen {
        0 => a + (b - a) * u,
        1 => {
            let y = st.x * (0.99 + 0.02 * u);
            if y < a {
                a
            } else if b < y {
                b
            } else {
                y
            }
        }
        2 => {
            if st.k % 2 == 0 {
                a * (1.0 + u * 0.0009765625)
            } else {
                b * (1.0 - u * 0.0009765625)
            }
        }
        3 => {
            if (st.s >> 3) % 64 == 0 {
                b
            } else {
                a * (1.0 + u)
            }
        }
        4 => {
            if st.k == 0 || (st.s >> 3) % 32 == 0 {
                a + (b - a) * u
            } else {
                st.x
            }
        }
        5 => a + (b - a) * (((st.k % 97) as f64) / 97.0),
        // 6: flat level
        6 => a,
        // 7: outlier spikes followed by an almost-flat (not constant) level
        7 => {
            if (st.s >> 3) % 64 == 0 {
                b
            } else {
                a * (1.0 + u * 0.000000014901161193847656)
            }
        }
        _ => a + (b - a) * u,
    };
    st.x = x;
    st.k += 1;
    x
}

pub fn bar(g: &Gen, st: &mut GS) -> UBar {
    let x = step(g, st);
    st.s = xs(st.s);
    let u1 = unit(st.s);
    st.s = xs(st.s);
    let u2 = unit(st.s);
    st.s = xs(st.s);
    let u3 = unit(st.s);
    st.s = xs(st.s);
    let u4 = unit(st.s);
    let h = x * (1.0 + u1 * 0.015625);
    let l = x * (1.0 - u2 * 0.015625);
    let mut c = l + (h - l) * u3;
    if h < c {
        c = h;
    }
    let v = if (st.s >> 5) % 8 == 0 { 0.0 } else { 1000.0 * u4 };
    if g.mode == 2 {
        return UBar { o: x, h: x, l: x, c: x, v };
    }
    UBar { o: x, h, l, c, v }
}

const K: u64 = 0x100000001B3;

// decomposition identical to Coq's (normfr_mantissa (fst (frshiftexp x)), snd (frshiftexp x) - shift)
fn decomp(x: f64) -> (u64, i64, u64) {
    // returns (mantissa in [2^52, 2^53) or 0, exponent, class code)
    if x.is_nan() {
        return (0, 0, 1);
    }
    if x.is_infinite() {
        return (0, 0, if x > 0.0 { 2 } else { 3 });
    }
    let neg = x.is_sign_negative();
    if x == 0.0 {
        return (0, 0, if neg { 5 } else { 4 });
    }
    let bits = x.to_bits();
    let be = ((bits >> 52) & 0x7ff) as i64;
    let frac = bits & ((1u64 << 52) - 1);
    let (m, e) = if be == 0 {
        // subnormal: value = frac * 2^-1074; normalise to [2^52,2^53)
        let sh = frac.leading_zeros() as i64 - 11;
        (frac << sh, -1074 - sh + 53)
    } else {
        ((1u64 << 52) | frac, be - 1075 + 53)
    };
    // x = (m / 2^53) * 2^e
    (m, e, if neg { 7 } else { 6 })
}

pub fn mix(h: u64, x: f64) -> u64 {
    let (m, e, c) = decomp(x);
    let h1 = (h.wrapping_mul(K).wrapping_add(m)) & MASK;
    let h2 = (h1.wrapping_mul(K).wrapping_add((e + 5000) as u64)) & MASK;
    (h2.wrapping_mul(K).wrapping_add(c)) & MASK
}

pub fn feed(ind: &mut dyn Dyn, g: &Gen) -> String {
    let mut st = init(g);
    let mut h: u64 = 1469598103934665603 & MASK;
    let mut s = String::from("g");
    for k in 0..g.len {
        let out = if g.mode == 0 {
            let x = step(g, &mut st);
            ind.next_f(x).expect("no scalar path")
        } else {
            let b = bar(g, &mut st);
            ind.next_ubar(&b)
        };
        for x in &out {
            h = mix(h, *x);
        }
        if (k + 1) % g.every == 0 || k + 1 == g.len {
            s.push_str(&format!(" {}:", k + 1));
            for (j, x) in out.iter().enumerate() {
                if j > 0 {
                    s.push(',');
                }
                s.push_str(&format!("{:016x}", canon(*x)));
            }
        }
    }
    s.push_str(&format!(" h={}", h));
    s
}
