# helpers shared by the property modules
import math
from common import Case, INDS, NO_SCALAR, HAS_MULT, NOUT, WINDOWED, nper, bits, fbits
from gens import *  # noqa
from framework import Violation

ALL = list(INDS)


def outs_of(case, slot):
    """list of (op index, [bits]) for feeding ops addressed to `slot`."""
    res = []
    for i, (o, ob) in enumerate(zip(case.ops, case.obs)):
        if o[0] in ("n", "b", "i", "j") and o[1] == slot:
            res.append((i, ob))
    return res


def f_of(ob):
    if isinstance(ob, tuple) and ob[0] == "o":
        return [fbits(b) for b in ob[1]]
    return None


def close(a, b, rel=1e-12, scale=None):
    """|a-b| <= rel * max(|a|,|b|,scale) with NaN==NaN, inf==inf."""
    if a != a or b != b:
        return a != a and b != b
    if a == b:
        return True
    if math.isinf(a) or math.isinf(b):
        return False
    m = max(abs(a), abs(b), scale or 0.0)
    return abs(a - b) <= rel * m


def same_obs(oa, ob, rel=0.0):
    if rel == 0.0 or not (isinstance(oa, tuple) and isinstance(ob, tuple) and oa[0] == "o" and ob[0] == "o"):
        return oa == ob
    fa, fb = f_of(oa), f_of(ob)
    return len(fa) == len(fb) and all(close(x, y, rel) for x, y in zip(fa, fb))


def params_grid(ind, periods):
    """parameter tuples for `ind` over the given period list."""
    k = nper(ind)
    ms = [2.0, 0.0, -1.5, 1e6] if ind in HAS_MULT else [0.0]
    out = []
    if k == 0:
        return [(0, 0, 0, 0.0)]
    if k == 1:
        for p in periods:
            for m in ms[:2]:
                out.append((p, 0, 0, m))
    elif k == 2:
        for p in periods:
            for q in periods[:3]:
                out.append((p, q, 0, 0.0))
    else:
        for p in periods[:3]:
            for q in periods[:3]:
                for r_ in periods[:2]:
                    out.append((p, q, r_, 0.0))
    return out


def feed(r, ind, n, slot=0, specials=0.0, bars=None, p=None, positive=False):
    return feed_ops(r, ind, n, slot=slot, specials=specials, bars=bars, p=p, positive=positive)


def retarget(ops, slot):
    return [(o[0], slot) + tuple(o[2:]) for o in ops]


SCALES = [-70, -45, -30, 35]


def scale_ops(ops, k, keep_volume=True):
    """multiply every price input by 2^k (exact in binary64 absent over/underflow); volume (5th bar field) kept"""
    f = 2.0 ** k
    out = []
    for o in ops:
        if o[0] == "n":
            out.append((o[0], o[1], o[2] * f))
        elif o[0] in ("b", "i", "j"):
            out.append((o[0], o[1]) + tuple(v * f for v in o[2:6]) + ((o[6],) if keep_volume else (o[6] * f,)))
        else:
            out.append(o)
    return out


def sprinkle_serde(ops, r, prob=1.0, slot=0):
    """insert a serialize/deserialize round-trip of `slot` at a random position after the window has had time to fill: by the
    transparency theorem (C06_serde_transparent) this changes nothing, unless some state is not carried by the serialized form"""
    if r.random() >= prob or len(ops) < 6:
        return ops
    i = r.randrange(len(ops) // 2, len(ops))
    return ops[:i] + [("s", slot)] + ops[i:]


def with_scaled(cases, r, frac=0.35, scales=SCALES):
    """append power-of-two rescaled copies of a sample of the cases (tiny and huge price units)"""
    extra = []
    for c in cases:
        if r.random() < frac:
            k = r.choice(scales)
            extra.append(Case("%s_x2^%d" % (c.cid, k), scale_ops(c.ops, k), dump=c.dump, meta=dict(c.meta, scale=k)))
    # absolute thresholds hide in the tiniest unit: the two longest cases of every indicator are always copied there, whatever the seed
    by_ind = {}
    for c in cases:
        ind = c.meta.get("ind") if isinstance(c.meta, dict) else None
        if ind is not None and len(c.ops) <= 400:
            by_ind.setdefault(ind, []).append(c)
    k = min(scales)
    for ind, cs in by_ind.items():
        for c in sorted(cs, key=lambda c_: -len(c_.ops))[:2]:
            extra.append(Case("%s_x2^%d_t" % (c.cid, k), scale_ops(c.ops, k), dump=c.dump, meta=dict(c.meta, scale=k)))
    return cases + extra


def sprinkle_resets(cases, every=3):
    """for every third case of every indicator (seed-independent choice, deterministic position) an extra copy in which the
    instance is RESET once after the window has filled and wrapped (at ~40% of the feeding ops, never within the first
    period+2 inputs) and then fed the rest: properties that speak about every output of an instance's life (ranges, neutral
    values, orderings) must also hold after a reset."""
    out = list(cases)
    seen = {}
    for c in cases:
        ind = c.meta.get("ind")
        seen[ind] = seen.get(ind, 0) + 1
        if seen[ind] % every != 1 or getattr(c, "harness_only", False):
            continue
        idxs = [i for i, o in enumerate(c.ops) if o[0] in ("n", "b", "i", "j")]
        p = max([1] + [int(x) for x in c.ops[0][3:6] if isinstance(x, int)])
        if len(idxs) < p + 6:
            continue
        k = max(p + 2, (len(idxs) * 2) // 5)
        if k >= len(idxs) - 2:
            continue
        i = idxs[k]
        ops = list(c.ops[:i]) + [("r", 0)] + list(c.ops[i:])
        out.append(Case(c.cid + "_rs", ops, dump=c.dump, meta=dict(c.meta, reset_at=k)))
    return out


class Rot:
    """deterministic rotation through a list of discrete classes (stream styles, ...), per key: every class is used once every
    len(list) picks, whatever the seed (the seed only moves the starting point). Random choice left classes out for some
    (indicator, class) pairs under every seed — and a change that shows only on one class then went unreported under that seed."""

    def __init__(self, r):
        self.off = r.randrange(1 << 16)
        self.k = {}

    def pick(self, key, lst):
        i = self.k.get(key, 0)
        self.k[key] = i + 1
        return lst[(i + self.off) % len(lst)]


# ---- long, seed-independent streams: code that only runs every 2^10 / 2^12 updates, or after a magnitude cliff ----
def long_values(n, kind="plain"):
    """deterministic decimal prices with ties and a period-101 pattern; 'cliff': three values 10^7 times larger first;
    'spike': one 10^7-times-larger value at positions 300 and 2048"""
    xs = [100.0 + 0.01 * ((37 * k) % 101) for k in range(n)]
    if kind == "cliff":
        xs[0:3] = [1.5e9, 1.2e9, 1.9e9]
    elif kind == "spike":
        for q in (300, 2047):
            if q < n:
                xs[q] = 1e9
    return xs


def long_feed(ind, n, kind="plain", slot=0):
    xs = long_values(n, kind)
    if ind in NO_SCALAR:
        return [("b", slot, x, x * 1.01, x * 0.99, x * (1.0 + 0.005 * ((k % 3) - 1)), 5.0 + (k % 7)) for k, x in enumerate(xs)]
    return [("n", slot, x) for x in xs]


def long_params(ind, p=3):
    k = nper(ind)
    return (p if k >= 1 else 0, 5 if k >= 2 else 0, 2 if k >= 3 else 0, 2.0 if ind in HAS_MULT else 0.0)


def ulp_values(r, n, level=None):
    """prices that move by a few units in the last place: comparisons written with a tolerance instead of == / < show here"""
    x = level if level is not None else r.choice([0.3, 10.1, 1234.5678, 1e-3])
    xs = []
    for _ in range(n):
        for _ in range(r.choice([0, 1, 1, 2])):
            x = math.nextafter(x, math.inf if r.random() < 0.5 else -math.inf)
        xs.append(x)
    return xs


def ulp_bars(r, n, level=None):
    out = []
    for x in ulp_values(r, n, level):
        h = x
        for _ in range(r.choice([0, 1, 2])):
            h = math.nextafter(h, math.inf)
        c = r.choice([x, h])
        out.append((c, h, x, c, float(r.choice([0, 1, 5, 5]))))
    return out


# ---- auxiliary family, run by every check for the bit-exact tie only (never judged by a property predicate): Clone::clone_from into an
# instance that already exists with ANOTHER period or fill state (hand-written clone_from implementations that reuse the destination's
# window: stale slots beyond the copied part, a ring shorter than the new period), then both fed on in lock-step
def aux_clone_cases():
    cases = []
    for ind in ALL:
        if nper(ind) == 0:
            continue
        for tag, psrc, pdst, nsrc, ndst in (("grow", 3, 5, 7, 9), ("shrink", 5, 3, 9, 7), ("same_warm", 4, 4, 1, 9), ("into_fresh_big", 2, 6, 5, 0)):
            k = nper(ind)
            def pr(p):
                return (p, 3 if k >= 2 else 0, 2 if k >= 3 else 0, 2.0 if ind in HAS_MULT else 0.0)
            ops = [new_op(0, ind, pr(psrc)), new_op(1, ind, pr(pdst))]
            ops += [(o[0], 1) + tuple(o[2:]) for o in long_feed(ind, ndst, "spike" if False else "plain")]
            ops += [(o[0], 0) + tuple(v * 0.01 if (o[0] == "n" or i < 4) else v for i, v in enumerate(o[2:])) for o in long_feed(ind, nsrc)]
            ops += [("c", 0, 1), ("d", 1)]
            for o in long_feed(ind, 2 * max(psrc, pdst) + 4):
                sc = tuple(v * 0.5 if (o[0] == "n" or i < 4) else v for i, v in enumerate(o[2:]))
                ops += [(o[0], 0) + sc, (o[0], 1) + sc]
            ops += [("r", 1)] + [(o[0], 1) + tuple(o[2:]) for o in long_feed(ind, 3)]
            cases.append(Case("aux_clonefrom_%s_%s" % (ind, tag), ops, dump=(0, 1), meta={"ind": ind, "aux": True, "p": psrc}))
        # a target whose state differs from the source's only in the sign of a zero (0.0 == -0.0: a clone_from that skips the copy
        # "when nothing changed" keeps the wrong zero), then both fed on
        k = nper(ind)
        pr3 = (3, 3 if k >= 2 else 0, 2 if k >= 3 else 0, 2.0 if ind in HAS_MULT else 0.0)
        def mk(slot, x):
            return ("b", slot, x, x, x, x, 1.0) if ind in NO_SCALAR else ("n", slot, x)
        ops = [new_op(0, ind, pr3), new_op(1, ind, pr3)]
        ops += [mk(0, 5.0), mk(0, -0.0), mk(0, 1.0), mk(1, 5.0), mk(1, 0.0), mk(1, 1.0), ("c", 0, 1)]
        for x in (7.0, 8.0, -0.0, 0.0, 9.0, 2.0):
            ops += [mk(0, x), mk(1, x)]
        ops += [("r", 1), mk(1, 1.0)]
        cases.append(Case("aux_clonefrom_%s_zerosign" % ind, ops, dump=(0, 1), meta={"ind": ind, "aux": True, "p": 3}))
    return cases


# ---- second auxiliary family (T1 only): windows larger than 2^11 and 2^12 slots, fed until the ring has wrapped twice — code paths that
# only exist for large periods (blocked / chunked loops, "exact refresh on each wrap for big windows", narrower index types)
BIGP = ["SMA", "WMA", "SD", "MAD", "MIN", "MAX", "BB", "ROC", "ER", "MFI", "CCI", "FAST", "SLOW", "CE"]


def aux_bigperiod_cases():
    cases = []
    for ind in BIGP:
        for p, n in ((2500, 5700), (4100, 8400)):
            if ind in ("MAD", "CCI", "ER") and p > 3000:
                continue                       # O(period) work per step on both sides: period 2500 only
            k = nper(ind)
            pr = (p, 3 if k >= 2 else 0, 2 if k >= 3 else 0, 2.0 if ind in HAS_MULT else 0.0)
            fd = long_feed(ind, n, "plain")
            # a slow trend on top of the period-101 pattern: every window position sees distinct sums and extremes
            ops = [new_op(0, ind, pr)]
            for j, o in enumerate(fd):
                t = 1.0 + 1e-4 * j
                ops.append((o[0], 0) + tuple(v * t if (o[0] == "n" or i < 4) else v for i, v in enumerate(o[2:])))
            cases.append(Case("aux_bigp_%s_p%d" % (ind, p), ops, dump=(), meta={"ind": ind, "aux": True, "p": p}))
    return cases
