(* Bar input = documented price field; fields not documented as read are never read. Any number type. *)
From TA Require Import Base Model Generic.

Section BP.
Context {F : Type} (O : Ops F).

(* which price field the scalar path corresponds to *)
Inductive Field := FClose | FLow | FHigh.
Definition scalar_field (k : Kind) : option Field :=
  match k with
  | KSma | KEma | KWma | KSd | KMad | KRsi | KMacd | KPpo | KEr | KBb | KRoc => Some FClose
  | KMin => Some FLow
  | KMax => Some FHigh
  | _ => None end.
Definition get_field (f : Field) (b : Bar F) : F :=
  match f with FClose => b_close b | FLow => b_low b | FHigh => b_high b end.

Theorem bar_is_field : forall (s : @St F) (b : Bar F) (f : Field),
  scalar_field (kind_of s) = Some f -> next O s (get_field f b) = Some (next_bar O s b).
Proof. intros s b f H. destruct s; cbn in H; try discriminate; injection H as <-; reflexivity. Qed.

(* the fields an indicator is documented to read: (open, high, low, close, volume) *)
Definition reads_of (k : Kind) : bool * bool * bool * bool * bool :=
  match k with
  | KSma | KEma | KWma | KSd | KMad | KRsi | KMacd | KPpo | KEr | KBb | KRoc => (false, false, false, true, false)
  | KMin => (false, false, true, false, false)
  | KMax => (false, true, false, false, false)
  | KTr | KAtr | KFast | KSlow | KKc | KCe | KCci => (false, true, true, true, false)
  | KMfi => (false, true, true, true, true)
  | KObv => (false, false, false, true, true)
  end.

Definition agree (k : Kind) (b b' : Bar F) : Prop :=
  let '(o, h, l, c, v) := reads_of k in
  (o = true -> b_open b = b_open b') /\ (h = true -> b_high b = b_high b') /\ (l = true -> b_low b = b_low b') /\
  (c = true -> b_close b = b_close b') /\ (v = true -> b_volume b = b_volume b').

Theorem bar_unread : forall (s : @St F) (b b' : Bar F),
  agree (kind_of s) b b' -> next_bar O s b = next_bar O s b'.
Proof.
  intros s b b' H. destruct b as [o h l c v], b' as [o' h' l' c' v'].
  destruct s; cbn in H; destruct H as (H1 & H2 & H3 & H4 & H5); cbn [b_open b_high b_low b_close b_volume] in *;
    try (rewrite (H2 eq_refl)); try (rewrite (H3 eq_refl)); try (rewrite (H4 eq_refl)); try (rewrite (H5 eq_refl));
    cbn [next_bar]; unfold tr_next_bar, atr_next_bar, fast_next_bar, slow_next_bar, kc_next_bar, ce_next_bar, cci_next_bar,
      mfi_next_bar, obv_next_bar, atr_next_bar, tr_next_bar, fast_next_bar; cbn [b_open b_high b_low b_close b_volume]; reflexivity.
Qed.

(* open is never read by any indicator *)
Corollary open_never_read : forall (s : @St F) (o o' h l c v : F),
  next_bar O s (mkBar o h l c v) = next_bar O s (mkBar o' h l c v).
Proof.
  intros. apply bar_unread. unfold agree. destruct (reads_of (kind_of s)) as [[[[a b0] c0] d0] e0] eqn:E.
  cbn. assert (a = false) by (destruct s; cbn in E; congruence). subst a. repeat split; intros; try discriminate; reflexivity.
Qed.

(* a DataItem is a bar like any other: the path through the builder feeds the same five numbers *)
Theorem item_is_bar : forall (st : @store F) (slot : nat) (b : Bar F),
  six_checks O (b_open b) (b_high b) (b_low b) (b_close b) (b_volume b) = true ->
  step O st (OItem slot b) = step O st (OBar slot b).
Proof.
  intros st slot b H. cbn [step]. destruct (sget st slot); [|reflexivity].
  cbn [build set builder_new bo bh bl bc bv]. rewrite H. destruct b; reflexivity.
Qed.

End BP.
