(* C16 — DataItem builder accepts exactly the consistent bars and returns what was set.
   This file contains only statements; proofs are in Proofs/BuilderProofs.v. *)
From Coq Require Import Floats.
From TA Require Import Base Model FloatInst Proofs.BuilderProofs.

(* For every number type, every sequence of setter calls (any subset, any order, repeats):
   build() = Err Incomplete if some field has no last value, else Err Invalid iff the six
   comparisons fail, else Ok carrying exactly the last value passed to each setter. *)
Theorem C16_build_spec : forall (F : Type) (O : Ops F) (calls : list (Setter * F)),
  build O (apply_calls calls) =
  match last_set SetOpen calls, last_set SetHigh calls, last_set SetLow calls,
        last_set SetClose calls, last_set SetVolume calls with
  | Some o, Some h, Some l, Some c, Some v =>
      if six_checks O o h l c v then Ok (mkBar o h l c v) else Err DataItemInvalid
  | _, _, _, _, _ => Err DataItemIncomplete
  end.
Proof. exact (@build_spec_proof). Qed.

(* Incomplete if and only if some setter was never called — whatever the values that were set *)
Theorem C16_incomplete_iff : forall (F : Type) (O : Ops F) (calls : list (Setter * F)),
  build O (apply_calls calls) = Err DataItemIncomplete <-> exists f, ~ In f (map fst calls).
Proof. exact (@build_incomplete_iff). Qed.

Theorem C16_getters : forall (F : Type) (O : Ops F) (calls : list (Setter * F)) (item : Bar F),
  build O (apply_calls calls) = Ok item ->
  last_set SetOpen calls = Some (b_open item) /\ last_set SetHigh calls = Some (b_high item) /\
  last_set SetLow calls = Some (b_low item) /\ last_set SetClose calls = Some (b_close item) /\
  last_set SetVolume calls = Some (b_volume item) /\
  six_checks O (b_open item) (b_high item) (b_low item) (b_close item) (b_volume item) = true.
Proof. exact (@build_ok_getters). Qed.

(* IEEE binary64: a NaN in any of the five fields fails the validation *)
Theorem C16_nan_rejected : forall o h l c v : float,
  (PrimFloat.is_nan o || PrimFloat.is_nan h || PrimFloat.is_nan l || PrimFloat.is_nan c || PrimFloat.is_nan v) = true ->
  six_checks FOps o h l c v = false.
Proof. exact nan_rejected_proof. Qed.

(* non-vacuity: a complete consistent call sequence with a repeated setter, and a NaN one *)
Example C16_example_ok :
  build FOps (apply_calls [(SetHigh, 3%float); (SetLow, 1%float); (SetOpen, 9%float); (SetClose, 2%float);
                           (SetVolume, 0%float); (SetOpen, 1.5%float)])
  = Ok (mkBar 1.5%float 3%float 1%float 2%float 0%float).
Proof. vm_compute. reflexivity. Qed.
Example C16_example_nan :
  build FOps (apply_calls [(SetHigh, 3%float); (SetLow, 1%float); (SetOpen, nan); (SetClose, 2%float); (SetVolume, 0%float)])
  = Err DataItemInvalid.
Proof. vm_compute. reflexivity. Qed.
