(* Lemmas about the primitives of Base.v: when they return Ok and what they return. *)
From Coq Require Import Lia.
From TA Require Import Base.
Open Scope N_scope.

Lemma bind_ok_inv {A B} (m : res A) (f : A -> res B) (b : B) :
  bind m f = Ok b -> exists a, m = Ok a /\ f a = Ok b.
Proof. destruct m; cbn; intros H; try discriminate. eauto. Qed.

Lemma uadd_ok a b : a + b <= USIZE_MAX -> uadd a b = Ok (a + b).
Proof. intros H. unfold uadd. destruct (N.leb_spec (a + b) USIZE_MAX); [reflexivity | lia]. Qed.

Lemma ALLOC_lt_USIZE : ALLOC_MAX < USIZE_MAX.
Proof. reflexivity. Qed.

Lemma advance_ok p i : i < p -> p <= USIZE_MAX ->
  advance p i = Ok (if i + 1 <? p then i + 1 else 0).
Proof. intros H1 H2. unfold advance. rewrite uadd_ok by lia. reflexivity. Qed.

Lemma advance_lt p i : i < p -> (if i + 1 <? p then i + 1 else 0) < p.
Proof. intros H. destruct (N.ltb_spec (i + 1) p); lia. Qed.

Lemma idx_ok {A} (l : list A) (i : N) (d : A) :
  (N.to_nat i < length l)%nat -> idx l i = Ok (nth (N.to_nat i) l d).
Proof.
  intros H. unfold idx. destruct (nth_error l (N.to_nat i)) eqn:E.
  - f_equal. symmetry. apply nth_error_nth. exact E.
  - apply nth_error_None in E. lia.
Qed.

Definition set_nth {A} (l : list A) (i : nat) (x : A) : list A :=
  firstn i l ++ x :: skipn (S i) l.

Lemma upd_ok {A} (l : list A) (i : N) (x : A) :
  (N.to_nat i < length l)%nat -> upd l i x = Ok (set_nth l (N.to_nat i) x).
Proof.
  intros H. unfold upd. destruct (Nat.ltb_spec (N.to_nat i) (length l)); [reflexivity | lia].
Qed.

Lemma set_nth_length {A} (l : list A) i x : (i < length l)%nat -> length (set_nth l i x) = length l.
Proof.
  intros H. unfold set_nth. rewrite app_length, firstn_length. cbn [length]. rewrite skipn_length. lia.
Qed.

Lemma nth_set_nth_eq {A} (l : list A) i x d : (i < length l)%nat -> nth i (set_nth l i x) d = x.
Proof.
  intros H. unfold set_nth. rewrite app_nth2; rewrite firstn_length; [|lia].
  replace (i - Nat.min i (length l))%nat with 0%nat by lia. reflexivity.
Qed.

Lemma nth_firstn' {A} (l : list A) i j d : (j < i)%nat -> nth j (firstn i l) d = nth j l d.
Proof.
  revert i j; induction l as [|a l IH]; intros i j H.
  - rewrite firstn_nil. reflexivity.
  - destruct i as [|i]; [lia|]. destruct j as [|j]; cbn; [reflexivity|]. apply IH. lia.
Qed.

Lemma nth_skipn' {A} (l : list A) n k d : nth k (skipn n l) d = nth (n + k) l d.
Proof.
  revert l; induction n as [|n IH]; intros l; [reflexivity|].
  destruct l as [|a l]; cbn [skipn]; [destruct k; reflexivity|]. cbn. apply IH.
Qed.

Lemma nth_set_nth_neq {A} (l : list A) i j x d : (i < length l)%nat -> i <> j -> nth j (set_nth l i x) d = nth j l d.
Proof.
  intros H Hn. unfold set_nth.
  destruct (Nat.lt_ge_cases j i) as [Hlt|Hge].
  - rewrite app_nth1 by (rewrite firstn_length; lia). apply nth_firstn'. exact Hlt.
  - rewrite app_nth2 by (rewrite firstn_length; lia). rewrite firstn_length.
    replace (Nat.min i (length l)) with i by lia.
    destruct (j - i)%nat as [|k] eqn:E; [lia|]. cbn [nth].
    rewrite nth_skipn'. f_equal. lia.
Qed.

Lemma fill_ok {A} (l : list A) (n : N) (c : A) :
  length l = N.to_nat n -> fill l n c = Ok (repeat c (N.to_nat n)).
Proof.
  intros H. unfold fill. rewrite <- H.
  destruct (Nat.leb_spec (length l) (length l)); [|lia].
  rewrite skipn_all. rewrite app_nil_r. reflexivity.
Qed.

Lemma alloc_ok {A} (n : N) (c : A) : n <= ALLOC_MAX -> alloc n c = Ok (repeat c (N.to_nat n)).
Proof. intros H. unfold alloc. destruct (N.leb_spec n ALLOC_MAX); [reflexivity|lia]. Qed.

Lemma alloc_panic {A} (n : N) (c : A) : ALLOC_MAX < n -> alloc n c = Panic.
Proof. intros H. unfold alloc. destruct (N.leb_spec n ALLOC_MAX); [lia|reflexivity]. Qed.

Lemma slice_ok {A} (l : list A) (a b : N) :
  a <= b -> (N.to_nat b <= length l)%nat ->
  slice l a b = Ok (firstn (N.to_nat b - N.to_nat a) (skipn (N.to_nat a) l)).
Proof.
  intros H1 H2. unfold slice.
  destruct (N.leb_spec a b); [|lia]. destruct (Nat.leb_spec (N.to_nat b) (length l)); [reflexivity|lia].
Qed.

Lemma map_repeat' {A B} (f : A -> B) (a : A) n : map f (repeat a n) = repeat (f a) n.
Proof. induction n as [|n IH]; cbn; [reflexivity|rewrite IH; reflexivity]. Qed.
