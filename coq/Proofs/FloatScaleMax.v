(* C14 on binary64, whole streams: Maximum fed 2^k x returns 2^k Maximum(x), bit for bit as values and WITHOUT any side condition: the
   indicator only compares and copies, and `<` on floats does not change when both operands are multiplied by 2^k (or are both the
   -infinity that fills the unused slots). *)
From Coq Require Import Reals Lra Lia ZArith List Floats.
From Flocq Require Import Core BinarySingleNaN PrimFloat.
From TA Require Import Base Model FloatInst Proofs.Wiring Proofs.FloatErr Proofs.FloatScale Proofs.FloatScaleSma.
Import ListNotations.
Local Notation O := FOps.
Local Notation float := PrimFloat.float.
Open Scope R_scope.

Definition sninf (k : Z) (a a' : float) : Prop := scaled k a a' \/ (a = neg_infinity /\ a' = neg_infinity).

Lemma ltb_ninf_fin a : finF a -> (neg_infinity <? a)%float = true.
Proof.
  intros Fa. rewrite ltb_equiv. unfold finF in Fa. change (Prim2B neg_infinity) with (B754_infinity true : binary_float prec emax).
  destruct (Prim2B a) as [s|s| |s m e Hb]; try discriminate; destruct s; reflexivity.
Qed.
Lemma ltb_fin_ninf a : finF a -> (a <? neg_infinity)%float = false.
Proof.
  intros Fa. rewrite ltb_equiv. unfold finF in Fa. change (Prim2B neg_infinity) with (B754_infinity true : binary_float prec emax).
  destruct (Prim2B a) as [s|s| |s m e Hb]; try discriminate; destruct s; reflexivity.
Qed.

Lemma ltb_sninf k a b a' b' : sninf k a a' -> sninf k b b' -> (a' <? b')%float = (a <? b)%float.
Proof.
  intros [(Fa & Fa' & Ea)|[-> ->]] [(Fb & Fb' & Eb)|[-> ->]].
  - rewrite !ltb_equiv. unfold finF in *. rewrite !Bltb_correct by assumption. fold (FR a) (FR b) (FR a') (FR b'). rewrite Ea, Eb.
    pose proof (bpow_gt_0 radix2 k) as Hb.
    destruct (Rlt_bool_spec (FR a) (FR b)), (Rlt_bool_spec (FR a * bpow radix2 k) (FR b * bpow radix2 k)); try reflexivity; exfalso; nra.
  - rewrite !ltb_fin_ninf by assumption. reflexivity.
  - rewrite !ltb_ninf_fin by assumption. reflexivity.
  - reflexivity.
Qed.

Lemma sninf_inf k : sninf k (ninf O) (ninf O). Proof. right. split; reflexivity. Qed.

Lemma find_max_fold k : forall l l', Forall2 (sninf k) l l' -> forall m m' ix i, sninf k m m' ->
  let r := fold_left (fun '(m, index, i) val => if (m <? val)%float then (val, i, (i + 1)%N) else (m, index, (i + 1)%N)) l (m, ix, i) in
  let r' := fold_left (fun '(m, index, i) val => if (m <? val)%float then (val, i, (i + 1)%N) else (m, index, (i + 1)%N)) l' (m', ix, i) in
  snd (fst r) = snd (fst r').
Proof.
  induction 1 as [|x x' l l' Hx _ IH]; intros m m' ix i Hm; cbn [fold_left]; [reflexivity|].
  rewrite (ltb_sninf k m x m' x' Hm Hx). destruct (m <? x)%float; apply IH; assumption.
Qed.

Lemma find_max_rel k l l' : Forall2 (sninf k) l l' -> find_max_index O l = find_max_index O l'.
Proof.
  intros H. unfold find_max_index. cbn [ltb O].
  pose proof (find_max_fold k l l' H (ninf O) (ninf O) 0%N 0%N (sninf_inf k)) as E. cbv zeta in E.
  destruct (fold_left _ l _) as [[a b] c]. destruct (fold_left _ l' _) as [[a' b'] c']. exact E.
Qed.

Definition rel_max (k : Z) (s s' : @Max float) : Prop :=
  max_period s = max_period s' /\ max_max_index s = max_max_index s' /\ max_cur_index s = max_cur_index s' /\ Forall2 (sninf k) (max_deque s) (max_deque s').

Lemma max_step_pow2 k s s' x x' s1 o : rel_max k s s' -> sninf k x x' -> max_next O s x = Ok (s1, o) ->
  exists s1' o', max_next O s' x' = Ok (s1', o') /\ rel_max k s1 s1' /\ sninf k o o'.
Proof.
  intros (Ep & Em & Ec & Sd) Sx E. unfold max_next in *. rewrite <- Ep, <- Em, <- Ec.
  destruct (upd (max_deque s) (max_cur_index s) x) as [dq| |] eqn:Eu; cbn [bind] in E; try discriminate.
  destruct (upd_rel _ _ _ _ _ _ _ Sd Sx Eu) as (dq' & Eu' & Sdq). rewrite Eu'. cbn [bind].
  destruct (idx dq (max_max_index s)) as [cm| |] eqn:Ei; cbn [bind] in E; try discriminate.
  destruct (idx_rel _ _ _ _ _ Sdq Ei) as (cm' & Ei' & Scm). rewrite Ei'. cbn [bind].
  cbn [ltb O] in *. rewrite (ltb_sninf k cm x cm' x' Scm Sx). rewrite <- (find_max_rel k dq dq' Sdq).
  destruct (advance (max_period s) (max_cur_index s)) as [ci| |] eqn:Ea; cbn [bind] in E |- *; try discriminate.
  set (mi := if (cm <? x)%float then max_cur_index s else if (max_max_index s =? max_cur_index s)%N then find_max_index O dq else max_max_index s) in *.
  destruct (idx dq mi) as [out| |] eqn:Eo; cbn [bind] in E; try discriminate. injection E as <- <-.
  destruct (idx_rel _ _ _ _ _ Sdq Eo) as (out' & Eo' & So). rewrite Eo'. cbn [bind].
  eexists _, _. split; [reflexivity|]. split; [repeat split; cbn [max_period max_max_index max_cur_index max_deque]; try assumption; reflexivity|exact So].
Qed.

Theorem max_stream_pow2 k : forall xs xs' s s', rel_max k s s' -> Forall2 (sninf k) xs xs' ->
  length (res_outs (max_next O) s xs) = length xs ->
  Forall2 (sninf k) (res_outs (max_next O) s xs) (res_outs (max_next O) s' xs').
Proof.
  induction xs as [|x xs IH]; intros xs' s s' Hr Hx HL; inversion Hx as [|? x' ? xs2 Sx Hx']; subst; cbn [res_outs] in *; [constructor|].
  destruct (max_next O s x) as [[s1 o]| |] eqn:E; cbn [length] in HL; try discriminate.
  destruct (max_step_pow2 k s s' x x' s1 o Hr Sx E) as (s1' & o' & E' & Hr' & So). rewrite E'.
  constructor; [exact So|]. apply IH; [exact Hr'|exact Hx'|lia].
Qed.

Theorem max_pow2_covariant k p s xs xs' : max_new O p = Ok s -> Forall2 (scaled k) xs xs' ->
  length (res_outs (max_next O) s xs) = length xs ->
  Forall2 (sninf k) (res_outs (max_next O) s xs) (res_outs (max_next O) s xs').
Proof.
  intros H Hx HL. apply (max_stream_pow2 k xs xs' s s); [| |exact HL].
  - unfold max_new in H. destruct (p =? 0)%N; [discriminate|].
    destruct (alloc p (ninf O)) as [dq| |] eqn:Ea; cbn [bind] in H; try discriminate. injection H as <-.
    repeat split; cbn [max_period max_max_index max_cur_index max_deque]; try reflexivity.
    unfold alloc in Ea. destruct (_ <=? _)%N in Ea; [|discriminate]. injection Ea as <-.
    clear. induction (N.to_nat p) as [|n IHn]; cbn; [constructor|constructor; [apply sninf_inf|exact IHn]].
  - clear -Hx. induction Hx; constructor; [left; assumption|assumption].
Qed.
