(* StandardDeviation and BollingerBands over the exact carrier: population standard deviation of exactly the
   last min(t,p) inputs (sliding Welford update = textbook variance; the clamp never fires and the variance is
   never negative), bands = window mean +- multiplier * that deviation; the middle band is the SMA. *)
From Coq Require Import Reals Lra Lia.
From TA Require Import Base Model XR Proofs.Prims Proofs.WF Proofs.Ring Proofs.XBase Proofs.XSma Proofs.XWma.
Open Scope N_scope.

Local Notation O := XROps.

Definition ssq (l : list R) : R := Rsum (map (fun x => x * x)%R l).
Definition dev2 (l : list R) : R := Rsum (map (fun x => (x - mean l) * (x - mean l))%R l).
Definition pvar (l : list R) : R := (dev2 l / INR (length l))%R.

Lemma ssq_app a b : ssq (a ++ b) = (ssq a + ssq b)%R.
Proof. unfold ssq. rewrite map_app, Rsum_app. reflexivity. Qed.
Lemma ssq_hd_tl l : l <> [] -> ssq l = (hd 0%R l * hd 0%R l + ssq (tl l))%R.
Proof. destruct l; [congruence|reflexivity]. Qed.

Lemma ssq_single x : ssq [x] = (x * x)%R.
Proof. unfold ssq. cbn. lra. Qed.

Lemma sum_sq_dev c l :
  Rsum (map (fun x => (x - c) * (x - c))%R l) = (ssq l - 2 * c * Rsum l + INR (length l) * c * c)%R.
Proof.
  induction l as [|x l IH]; [cbn; lra|].
  cbn [map Rsum length]. unfold ssq in *. cbn [map Rsum]. rewrite IH, S_INR. lra.
Qed.

Lemma dev2_alt l : l <> [] -> dev2 l = (ssq l - Rsum l * Rsum l / INR (length l))%R.
Proof.
  intros H. unfold dev2. rewrite sum_sq_dev. unfold mean.
  assert (Hk : INR (length l) <> 0%R) by (apply not_0_INR; destruct l; [congruence|cbn; lia]).
  field. exact Hk.
Qed.

Lemma dev2_nonneg l : (0 <= dev2 l)%R.
Proof.
  unfold dev2. induction l as [|x l IH] using rev_ind; [cbn; lra|].
  generalize (mean (l ++ [x])). intros c. clear IH.
  induction (l ++ [x]) as [|y r IH]; cbn; [lra|]. pose proof (Rle_0_sqr (y - c)) as Hs. unfold Rsqr in Hs. lra.
Qed.

(* algebra of the two Welford updates *)
Lemma welford_warm (K S1 S2 x : R) : (0 < K)%R ->
  let m := (S1 / K)%R in let m' := (m + (x - m) / (K + 1))%R in
  m' = ((S1 + x) / (K + 1))%R /\
  ((S2 - S1 * S1 / K) + (x - m) * (x - m') = (S2 + x * x) - (S1 + x) * (S1 + x) / (K + 1))%R.
Proof. intros HK m m'. unfold m', m. split; field; lra. Qed.

Lemma welford_slide (P S1 S2 x old : R) : (0 < P)%R ->
  let m := (S1 / P)%R in let m' := (m + (x - old) / P)%R in
  m' = ((S1 - old + x) / P)%R /\
  ((S2 - S1 * S1 / P) + (x - old) * (x - m' + old - m) =
   (S2 - old * old + x * x) - (S1 - old + x) * (S1 - old + x) / P)%R.
Proof. intros HP m m'. unfold m', m. split; field; lra. Qed.

Definition sd_inv (s : @Sd XR) (h : list R) : Prop :=
  let p := N.to_nat (sd_period s) in
  let w := lastn p h in
  wf_sd s /\
  rot (N.to_nat (sd_index s)) (sd_deque s) = map Fin (lastn p (padded 0%R p h)) /\
  sd_count s = N.of_nat (Nat.min (length h) p) /\
  sd_m s = Fin (mean w) /\
  sd_m2 s = Fin (ssq w - Rsum w * Rsum w / INR (length w)).

Lemma mean_nil : mean [] = 0%R.
Proof. unfold mean. cbn. lra. Qed.

Lemma sd_inv_new p s : sd_new O p = Ok s -> sd_inv s [].
Proof.
  intros H. pose proof (sd_new_inv O p s H) as (A & B & W & Pe).
  rewrite sd_new_ok in H by assumption. injection H as <-.
  unfold sd_inv. cbn [sd_period sd_index sd_count sd_m sd_m2 sd_deque].
  split; [exact W|]. split; [rewrite rot_0, lastn_padded_nil; cbn [zero O]; rewrite map_repeat'; reflexivity|].
  split; [cbn; lia|]. unfold lastn. cbn [length skipn Nat.sub]. rewrite mean_nil. split; [reflexivity|].
  cbn [zero O]. f_equal. unfold ssq. cbn. lra.
Qed.

Lemma sd_step s h x : sd_inv s h ->
  let w' := lastn (N.to_nat (sd_period s)) (h ++ [x]) in
  exists s', sd_next O s (Fin x) = Ok (s', Fin (R_sqrt.sqrt (pvar w'))) /\
             sd_inv s' (h ++ [x]) /\ sd_period s' = sd_period s /\ sd_m s' = Fin (mean w').
Proof.
  intros (W & Hrot & Hcnt & Hm & Hm2) w'. pose proof W as (H1 & H2 & H3 & H4 & H5).
  set (p := N.to_nat (sd_period s)) in *.
  assert (Hp : (1 <= p)%nat) by (unfold p; lia).
  destruct (ring_step (sd_deque s) (sd_period s) (sd_index s) (Fin x) (Fin 0) H1 H3 H2 H5) as (E1 & E2 & E3 & E4 & E5).
  unfold sd_next. rewrite E1, E2, E3. cbn [bind].
  rewrite Hrot in *. change (Fin 0) with (Fin 0%R) in *. rewrite (hd_map Fin _ 0%R).
  rewrite hd_lastn_padded by exact Hp.
  set (w := lastn p h) in *.
  assert (Lw : length w = Nat.min (length h) p) by (unfold w; rewrite lastn_length; lia).
  assert (Lw' : length w' = Nat.min (length h + 1) p) by (unfold w'; rewrite lastn_length, app_length; cbn; lia).
  pose proof (lastn_snoc_cases p h x Hp) as Ew'. fold w w' in Ew'.
  assert (Hne' : w' <> []) by (intros E; rewrite E in Lw'; cbn in Lw'; lia).
  assert (Hk' : (0 < INR (length w'))%R) by (apply lt_0_INR; lia).
  (* both branches establish the same facts about the new mean and m2 *)
  match goal with |- context [bind (if ?c then ?a else ?b) _] =>
    assert (Ebr : exists c' m' m2', (if c then a else b) = Ok (c', Fin m', Fin m2') /\
                  c' = N.of_nat (length w') /\ m' = mean w' /\ m2' = dev2 w') end.
  { destruct (Nat.ltb_spec (length h) p) as [Hwarm|Hfull].
    - assert (Ec : sd_count s <? sd_period s = true) by (apply N.ltb_lt; rewrite Hcnt; unfold p in *; lia).
      rewrite Ec, uadd_ok by (unfold ALLOC_MAX, USIZE_MAX in *; lia). cbn [bind].
      rewrite Hm, Hm2, Hcnt. cbv zeta. rewrite xr_ofN.
      replace (N.of_nat (Nat.min (length h) p) + 1) with (N.of_nat (S (length h))) by lia.
      rewrite INR_IZR_N. xfin.
      assert (HS : (0 < INR (S (length h)))%R) by (apply lt_0_INR; lia).
      rewrite xr_div_fin by lra. xfin.
      assert (Ew : w = h) by (unfold w; apply lastn_all; lia).
      assert (Ew2 : w' = h ++ [x]) by (rewrite Ew', Ew; reflexivity).
      do 3 eexists. split; [reflexivity|]. split; [rewrite Lw'; f_equal; lia|].
      rewrite Ew in *. clear Ew.
      destruct h as [|a h0].
      + (* first input *)
        cbn [app] in *. rewrite Ew2, mean_nil. unfold dev2, ssq, mean. cbn [map Rsum length INR].
        replace (0 * 0 / 0)%R with 0%R by (unfold Rdiv; rewrite !Rmult_0_l; reflexivity).
        split; field.
      + set (hh := a :: h0) in *.
        assert (HK : (0 < INR (length hh))%R) by (apply lt_0_INR; cbn; lia).
        destruct (welford_warm (INR (length hh)) (Rsum hh) (ssq hh) x HK) as [A B].
        rewrite S_INR. split.
        * unfold mean. rewrite A. rewrite Ew2. rewrite Rsum_app, app_length. cbn [Rsum length].
          rewrite plus_INR. cbn [INR]. f_equal; lra.
        * rewrite dev2_alt by exact Hne'. rewrite Ew2, ssq_app, Rsum_app, app_length. cbn [length Rsum].
          rewrite plus_INR, ssq_single. cbn [INR]. unfold mean. rewrite B. lra.
    - assert (Ec : sd_count s <? sd_period s = false) by (apply N.ltb_ge; rewrite Hcnt; unfold p in *; lia).
      rewrite Ec. destruct (Nat.ltb_spec (length h) p) as [?|_]; [lia|].
      rewrite Hm, Hm2. cbv zeta. rewrite xr_ofN.
      replace (sd_period s) with (N.of_nat p) by (unfold p; lia). rewrite INR_IZR_N.
      assert (HP : (0 < INR p)%R) by (apply lt_0_INR; lia).
      xfin. rewrite xr_div_fin by lra. xfin.
      assert (Lwp : length w = p) by lia.
      assert (Hw : w <> []) by (intros E; rewrite E in Lw; cbn in Lw; lia).
      do 3 eexists. split; [reflexivity|]. split; [rewrite Hcnt, Lw'; f_equal; lia|].
      destruct (welford_slide (INR p) (Rsum w) (ssq w) x (hd 0%R w) HP) as [A B].
      assert (Lt : length (tl w) = (p - 1)%nat) by (destruct w; [congruence|cbn in *; lia]).
      assert (L2 : length w' = p) by lia.
      split.
      * unfold mean. rewrite Lwp, A, L2, Ew', Rsum_app. cbn [Rsum]. rewrite (Rsum_hd_tl w Hw). f_equal. lra.
      * rewrite dev2_alt by exact Hne'. rewrite L2, Ew', ssq_app, Rsum_app, ssq_single. cbn [Rsum].
        unfold mean. rewrite Lwp, B. rewrite (Rsum_hd_tl w Hw), (ssq_hd_tl w Hw). lra. }
  destruct (Nat.ltb_spec (length h) p) as [Hwarm|Hfull].
  - destruct Ebr as (c' & m' & m2' & Eb & Ec' & Em' & Em2'). 
    assert (Ec : sd_count s <? sd_period s = true) by (apply N.ltb_lt; rewrite Hcnt; unfold p in *; lia).
    rewrite Ec in *.
    rewrite Eb. cbn [bind].
    pose proof (dev2_nonneg w') as Hnn. rewrite <- Em2' in Hnn.
    assert (Elt : ltb O (Fin m2') (Fin 0%R) = false) by (apply xr_ltb_fin_false; exact Hnn).
    change (zero O) with (Fin 0%R). rewrite Elt. rewrite xr_ofN, Ec', INR_IZR_N. rewrite xr_div_fin by lra.
    rewrite xr_sqrt_fin by (apply Rmult_le_pos; [exact Hnn|left; apply Rinv_0_lt_compat; exact Hk']).
    eexists. split; [unfold pvar; rewrite Em2'; reflexivity|].
    split; [|split; [reflexivity|cbn; rewrite Em'; reflexivity]].
    unfold sd_inv. cbn [sd_period sd_index sd_count sd_m sd_m2 sd_deque]. fold p. fold w'.
    split; [unfold wf_sd, ring_wf; cbn; pose proof (advance_lt _ _ H3); repeat split; unfold p in *; lia|].
    split; [rewrite E5, lastn_padded_snoc by exact Hp; rewrite map_app, tl_map; reflexivity|].
    split; [rewrite Lw', app_length; cbn; reflexivity|].
    split; [rewrite ?Em'; reflexivity|]. rewrite ?Em2'. rewrite dev2_alt by exact Hne'. reflexivity.
  - destruct Ebr as (c' & m' & m2' & Eb & Ec' & Em' & Em2').
    assert (Ec : sd_count s <? sd_period s = false) by (apply N.ltb_ge; rewrite Hcnt; unfold p in *; lia).
    rewrite Ec in *. rewrite Eb. cbn [bind].
    pose proof (dev2_nonneg w') as Hnn. rewrite <- Em2' in Hnn.
    assert (Elt : ltb O (Fin m2') (Fin 0%R) = false) by (apply xr_ltb_fin_false; exact Hnn).
    change (zero O) with (Fin 0%R). rewrite Elt. rewrite xr_ofN, Ec', INR_IZR_N. rewrite xr_div_fin by lra.
    rewrite xr_sqrt_fin by (apply Rmult_le_pos; [exact Hnn|left; apply Rinv_0_lt_compat; exact Hk']).
    eexists. split; [unfold pvar; rewrite Em2'; reflexivity|].
    split; [|split; [reflexivity|cbn; rewrite Em'; reflexivity]].
    unfold sd_inv. cbn [sd_period sd_index sd_count sd_m sd_m2 sd_deque]. fold p. fold w'.
    split; [unfold wf_sd, ring_wf; cbn; pose proof (advance_lt _ _ H3); repeat split; unfold p in *; lia|].
    split; [rewrite E5, lastn_padded_snoc by exact Hp; rewrite map_app, tl_map; reflexivity|].
    split; [rewrite Lw', app_length; cbn; reflexivity|].
    split; [rewrite ?Em'; reflexivity|]. rewrite ?Em2'. rewrite dev2_alt by exact Hne'. reflexivity.
Qed.

Fixpoint sd_outs (s : @Sd XR) (xs : list XR) : list XR :=
  match xs with
  | [] => []
  | x :: xs => match sd_next O s x with Ok (s', o) => o :: sd_outs s' xs | _ => [] end
  end.

Lemma sd_outs_spec : forall xs s h, sd_inv s h ->
  sd_outs s (map Fin xs) = map (fun hh => Fin (R_sqrt.sqrt (pvar (lastn (N.to_nat (sd_period s)) hh)))) (prefixes_from h xs).
Proof.
  induction xs as [|x xs IH]; intros s h Hinv; cbn [sd_outs map prefixes_from]; [reflexivity|].
  destruct (sd_step s h x Hinv) as (s' & E & Hinv' & Hp & _). rewrite E. f_equal.
  rewrite (IH s' (h ++ [x]) Hinv'), Hp. reflexivity.
Qed.

Theorem sd_refines : forall p s xs, sd_new O p = Ok s ->
  sd_outs s (map Fin xs) = map (fun hh => Fin (R_sqrt.sqrt (pvar (lastn (N.to_nat p) hh)))) (prefixes_from [] xs).
Proof.
  intros p s xs H. pose proof (sd_new_inv O p s H) as (_ & _ & _ & Pe).
  rewrite (sd_outs_spec xs s [] (sd_inv_new p s H)), Pe. reflexivity.
Qed.

(* the variance is never negative, for any stream *)
Lemma pvar_nonneg l : (0 <= pvar l)%R.
Proof.
  unfold pvar. destruct l as [|a l]; [cbn; unfold dev2; cbn; lra|].
  apply Rmult_le_pos; [apply dev2_nonneg|]. left. apply Rinv_0_lt_compat. apply lt_0_INR. cbn; lia.
Qed.

(* ---- BollingerBands ---- *)
Fixpoint bb_outs (s : @Bb XR) (xs : list XR) : list (list XR) :=
  match xs with
  | [] => []
  | x :: xs => match bb_next O s x with Ok (s', o) => o :: bb_outs s' xs | _ => [] end
  end.

Definition bb_spec (p : nat) (mu : R) (hh : list R) : list XR :=
  let w := lastn p hh in
  [Fin (mean w); Fin (mean w + R_sqrt.sqrt (pvar w) * mu); Fin (mean w - R_sqrt.sqrt (pvar w) * mu)].

Lemma bb_outs_spec : forall xs p mu sd h, sd_inv sd h ->
  bb_outs (mkBb p (Fin mu) sd) (map Fin xs) = map (bb_spec (N.to_nat (sd_period sd)) mu) (prefixes_from h xs).
Proof.
  induction xs as [|x xs IH]; intros p mu sd h Hinv; cbn [bb_outs map prefixes_from]; [reflexivity|].
  unfold bb_next. cbn [bb_sd bb_multiplier bb_period].
  destruct (sd_step sd h x Hinv) as (sd' & E & Hinv' & Hp & Hm). rewrite E. cbn [bind]. unfold sd_mean. rewrite Hm.
  xfin. f_equal. rewrite (IH p mu sd' (h ++ [x]) Hinv'), Hp. reflexivity.
Qed.

Theorem bb_refines : forall p mu s xs, bb_new O p (Fin mu) = Ok s ->
  bb_outs s (map Fin xs) = map (bb_spec (N.to_nat p) mu) (prefixes_from [] xs).
Proof.
  intros p mu s xs H. unfold bb_new in H. destruct (sd_new O p) as [sd| |] eqn:E; cbn in H; try discriminate.
  injection H as <-. pose proof (sd_new_inv O p sd E) as (_ & _ & _ & Pe).
  rewrite (bb_outs_spec xs p mu sd [] (sd_inv_new p sd E)), Pe. reflexivity.
Qed.

(* BollingerBands.average = SimpleMovingAverage of the same period, on every stream (exact arithmetic) *)
Theorem bb_average_is_sma : forall p mu b s xs, bb_new O p (Fin mu) = Ok b -> sma_new O p = Ok s ->
  map (fun o => hd XNaN o) (bb_outs b (map Fin xs)) = sma_outs s (map Fin xs).
Proof.
  intros p mu b s xs Hb Hs. rewrite (bb_refines p mu b xs Hb), (sma_refines p s xs Hs).
  rewrite map_map. reflexivity.
Qed.
