(* SlowStochastic on binary64 (scalar path): every output is a finite number in [0, 100 + 1700 (q+1) 2^-53] — it is the float EMA
   (period q) of FastStochastic values, which lie in [0,100] exactly (FloatFast): non-negative by monotone rounding (FloatKc / FloatBars)
   and within the saturating EMA error of a real average of numbers in [0,100]. Streams of any length. *)
From Coq Require Import Reals Lra Lia ZArith List Floats.
From Flocq Require Import Core.
From TA Require Import Base Model FloatInst Proofs.Prims Proofs.WF Proofs.FloatErr Proofs.FloatSma Proofs.FloatEma Proofs.FloatFast Proofs.Wiring Proofs.Osc Proofs.FloatKc Proofs.FloatBars Proofs.FloatBetween.
Import ListNotations.
Open Scope R_scope.
Local Notation O := FOps.
Local Notation float := PrimFloat.float.

Theorem slow_float_range : forall p q s xs, slow_new O p q = Ok s -> (q < 35184372088832)%N -> Forall inb xs ->
  Forall (fun o => finF o /\ 0 <= FR o <= 100 + 1700 * (IZR (Z.of_N q) + 1) * u) (slow_outs O s xs).
Proof.
  intros p q s xs H Hq Hxs. unfold slow_new in H.
  destruct (fast_new O p) as [f| |] eqn:Ef; cbn [bind] in H; try discriminate.
  destruct (ema_new O q) as [e| |] eqn:Ee; cbn [bind] in H; try discriminate. injection H as <-.
  rewrite slow_wiring. pose proof (fast_float_range p f xs Ef Hxs) as HF.
  set (T := fast_outs O f xs) in *.
  assert (HT1 : Forall (fun x => finF x /\ 0 <= FR x <= 100) T) by exact HF.
  assert (H200 : 2 * 100 <= bpow radix2 990) by (apply Rle_trans with (bpow radix2 8); [change (bpow radix2 8) with 256; lra|apply bpow_le; lia]).
  destruct (ema_float_nonneg q e T 100 Ee Hq ltac:(lra) H200 HT1) as [_ Hnn].
  assert (HTok : Forall (okin 100) T) by (eapply Forall_impl; [|exact HT1]; intros x (Fx & H0 & H1); split; [exact Fx|rewrite Rabs_pos_eq; assumption]).
  assert (HTb : allb 0 100 T) by (eapply Forall_impl; [|exact HT1]; intros x (_ & Hb); exact Hb).
  assert (Hl : bpow radix2 (-960) <= 100) by (apply Rle_trans with (bpow radix2 0); [apply bpow_le; lia|change (bpow radix2 0) with 1; lra]).
  assert (Hu : 100 <= bpow radix2 990) by lra.
  pose proof (ema_float_between q e T 100 0 100 Ee ltac:(lia) Hl Hu HTok HTb) as Hbt.
  clear -Hnn Hbt. induction Hnn as [|o l (Fo & Ho0 & _) _ IH]; [constructor|]. pose proof (Forall_inv Hbt) as (_ & _ & Hhi).
  constructor; [|apply IH; exact (Forall_inv_tail Hbt)]. split; [exact Fo|]. split; [exact Ho0|]. lra.
Qed.

(* ---- the bar paths: bars with finite prices free of -0.0, low <= close <= high ---- *)
From TA Require Import Proofs.Ring Proofs.MinMaxProofs Proofs.FloatOrder Proofs.XFast Proofs.ResetLift Proofs.OnePrice.
Open Scope R_scope.

Definition inbar (b : Bar float) : Prop :=
  inb (b_high b) /\ inb (b_low b) /\ finF (b_close b) /\ Rabs (FR (b_close b)) <= BIG / 4 /\ FR (b_low b) <= FR (b_close b) <= FR (b_high b).

Theorem fast_bar_float_range : forall p s bars, fast_new O p = Ok s -> Forall inbar bars ->
  Forall (fun o => finF o /\ 0 <= FR o <= 100) (fast_bar_outs O s bars).
Proof.
  intros p s bars H Hb. unfold fast_new in H.
  destruct (min_new O p) as [mn0| |] eqn:Emn; cbn in H; try discriminate.
  destruct (max_new O p) as [mx0| |] eqn:Emx; cbn in H; try discriminate. injection H as <-.
  pose proof (min_new_inv O p mn0 Emn) as (Hp0 & Hpa & _ & _).
  rewrite min_new_ok in Emn by assumption. injection Emn as <-.
  rewrite max_new_ok in Emx by assumption. injection Emx as <-.
  assert (Hp : (0 < p)%N) by lia.
  set (highs := map b_high bars). set (lows := map b_low bars). set (closes := map b_close bars).
  assert (Hhi : Forall okF highs) by (unfold highs; clear -Hb; induction Hb as [|b l ((A & _) & _) _ IH]; cbn [map]; constructor; assumption).
  assert (Hlo : Forall okF lows) by (unfold lows; clear -Hb; induction Hb as [|b l (_ & (A & _) & _) _ IH]; cbn [map]; constructor; assumption).
  destruct (min_least O okF float_order_min p 0 0 lows Hp Hpa Hp Hp Hlo) as [Lmin Cmin].
  destruct (max_greatest O okF p 0 0 highs float_order_max Hp Hpa Hp Hp Hhi) as [Lmax Cmax].
  rewrite fast_bar_wiring, min_outs_res, max_outs_res. fold highs lows closes.
  set (mins := min_outs O _ lows) in *. set (maxs := max_outs O _ highs) in *.
  assert (Ll : length lows = length bars) by (unfold lows; apply map_length).
  assert (Lh : length highs = length bars) by (unfold highs; apply map_length).
  assert (Lc : length closes = length bars) by (unfold closes; apply map_length).
  apply (Forall_map3 _ _ closes mins maxs 0%float (inf O) (ninf O)); [rewrite Lmin, Ll, Lc; reflexivity|rewrite Lmax, Lh, Lc; reflexivity|].
  intros k Hk. rewrite Lc in Hk. specialize (Cmin k ltac:(lia)). specialize (Cmax k ltac:(lia)).
  set (wl := lastn (N.to_nat p) (firstn (S k) lows)) in *. set (wh := lastn (N.to_nat p) (firstn (S k) highs)) in *.
  destruct Cmin as [Imn Lmn]. destruct Cmax as [Imx Lmx].
  rewrite Forall_forall in Hb.
  assert (Hin : forall (f : Bar float -> float) y, In y (lastn (N.to_nat p) (firstn (S k) (map f bars))) -> exists b, In b bars /\ y = f b).
  { intros f y Hy. apply in_window_in in Hy. apply in_map_iff in Hy as (b & <- & Ib). exists b. split; [exact Ib|reflexivity]. }
  destruct (Hin b_low _ Imn) as (b1 & Ib1 & E1). destruct (Hin b_high _ Imx) as (b2 & Ib2 & E2).
  destruct (Hb b1 Ib1) as (_ & (_ & Fmn & Bmn) & _). destruct (Hb b2 Ib2) as ((_ & Fmx & Bmx) & _). rewrite <- E1 in Fmn, Bmn. rewrite <- E2 in Fmx, Bmx.
  set (dflt := mkBar 0%float 0%float 0%float 0%float 0%float).
  set (bk := nth k bars dflt).
  assert (Ibk : In bk bars) by (apply nth_In; exact Hk).
  destruct (Hb bk Ibk) as ((_ & Fh & Bh) & (_ & Fl & Bl) & Fc & Bc & Hlc & Hch).
  assert (Eck : nth k closes 0%float = b_close bk) by (unfold closes, bk; change 0%float with (b_close dflt); apply map_nth).
  assert (Elk : nth k lows 0%float = b_low bk) by (unfold lows, bk; change 0%float with (b_low dflt); apply map_nth).
  assert (Ehk : nth k highs 0%float = b_high bk) by (unfold highs, bk; change 0%float with (b_high dflt); apply map_nth).
  assert (Hlk : In (b_low bk) wl) by (rewrite <- Elk; apply nth_in_window; [lia|rewrite Ll; exact Hk]).
  assert (Hhk : In (b_high bk) wh) by (rewrite <- Ehk; apply nth_in_window; [lia|rewrite Lh; exact Hk]).
  rewrite Eck. unfold stoch_bar. rewrite float_eqb_sym. cbn [eqb c50 mul div sub c100 O].
  apply stoch_range; try assumption. split.
  - apply Rle_trans with (FR (b_low bk)); [|exact Hlc]. apply ltb_false_le; [exact Fl|exact Fmn|]. apply Lmn. exact Hlk.
  - apply Rle_trans with (FR (b_high bk)); [exact Hch|]. apply ltb_false_le; [exact Fmx|exact Fh|]. apply Lmx. exact Hhk.
Qed.

Theorem slow_bar_float_range : forall p q s bars, slow_new O p q = Ok s -> (q < 35184372088832)%N -> Forall inbar bars ->
  Forall (fun o => finF o /\ 0 <= FR o <= 100 + 1700 * (IZR (Z.of_N q) + 1) * u) (slow_bar_outs O s bars).
Proof.
  intros p q s bars H Hq Hb. unfold slow_new in H.
  destruct (fast_new O p) as [f| |] eqn:Ef; cbn [bind] in H; try discriminate.
  destruct (ema_new O q) as [e| |] eqn:Ee; cbn [bind] in H; try discriminate. injection H as <-.
  rewrite slow_bar_wiring. pose proof (fast_bar_float_range p f bars Ef Hb) as HT1.
  set (T := fast_bar_outs O f bars) in *.
  assert (H200 : 2 * 100 <= bpow radix2 990) by (apply Rle_trans with (bpow radix2 8); [change (bpow radix2 8) with 256; lra|apply bpow_le; lia]).
  destruct (ema_float_nonneg q e T 100 Ee Hq ltac:(lra) H200 HT1) as [_ Hnn].
  assert (HTok : Forall (okin 100) T) by (eapply Forall_impl; [|exact HT1]; intros x (Fx & H0 & H1); split; [exact Fx|rewrite Rabs_pos_eq; assumption]).
  assert (HTb : allb 0 100 T) by (eapply Forall_impl; [|exact HT1]; intros x (_ & Hbb); exact Hbb).
  assert (Hl : bpow radix2 (-960) <= 100) by (apply Rle_trans with (bpow radix2 0); [apply bpow_le; lia|change (bpow radix2 0) with 1; lra]).
  assert (Hu : 100 <= bpow radix2 990) by lra.
  pose proof (ema_float_between q e T 100 0 100 Ee ltac:(lia) Hl Hu HTok HTb) as Hbt.
  clear -Hnn Hbt. induction Hnn as [|o l (Fo & Ho0 & _) _ IH]; [constructor|]. pose proof (Forall_inv Hbt) as (_ & _ & Hhi).
  constructor; [|apply IH; exact (Forall_inv_tail Hbt)]. split; [exact Fo|]. split; [exact Ho0|]. lra.
Qed.
