# C01 — Sliding-window statistics equal the textbook value of exactly the last n inputs
from fractions import Fraction
from props.util import *

KINDS7 = ["SMA", "WMA", "SD", "MAD", "MIN", "MAX", "BB"]
t2_checker = "check_t2_window"
T2_ALL = False
aux_big = True   # also run the auxiliary big-period family (periods 2500 / 4100, two ring wraps) through the bit-exact tie
rule = ("[also: (T) tie-rich words; (D) de Bruijn sequences over three ordered symbols at every cursor phase for MIN/MAX, seed-independent; (OVF) the K8 overflow witnesses] SMA, WMA, SD, MAD, MIN, MAX, BB: (A) all value sequences to the tier's depth over the alphabet {-2.5,-1,-0.0,0,1,1,3e11} for "
        "periods 1..5 (quick: a seeded sample of the leaves of the trie, every prefix checked); (B) seeded streams of length >= 4n+50 "
        "with mixed-sign log-uniform magnitudes up to 1e12, ties and plateaus, periods {1,2,3,1023,1024} and sampled from 1..1024; "
        "(K7) the rounding-aligned adversary stream for WMA(2). Every prefix is compared bit-exactly with the float model (T1) and within "
        "tau+(t)*maxmag (variances / squared half-widths for SD / BB; exactly for MIN / MAX) with the exact rational model (T2). "
        "Non-trivial: distinct case whose window wrapped at least once and whose inputs are not all equal")
assumptions = ["tau+(t) = 1e-12 + 1e-15*t*(isqrt(t)+1) >= tau(t): the check never demands more than the property",
               "T2 is a validation on generated streams of the rounding component (float model within tau of the exact model); the exact "
               "model equals the textbook statistic by theorem"]


def adversary(n, r):
    """K7: period 2, values multiples of 2^-14 in [2^38, 1.5*2^38); every sum_flat update is a tie rounding up."""
    q = 2.0 ** -14
    lo = 2.0 ** 38
    sum_flat = 0.0
    dq = [0.0, 0.0]
    idx = 0
    xs = []
    for t in range(n):
        old = dq[idx]
        rr = sum_flat - old
        x0 = lo + q * r.randrange(0, 2 ** 50)
        x = x0
        for d in range(4):
            x = x0 + d * q
            if (Fraction(rr) + Fraction(x)) / Fraction(q) % 4 == 3:
                break
        dq[idx] = x
        idx ^= 1
        sum_flat = rr + x
        xs.append(x)
    return xs


def de_bruijn(k, n):
    """the lexicographically least de Bruijn sequence B(k, n) (every word of length n over k symbols occurs cyclically)"""
    a = [0] * (k * n)
    seq = []

    def db(t, q):
        if t > n:
            if n % q == 0:
                seq.extend(a[1:q + 1])
        else:
            a[t] = a[t - q]
            db(t + 1, q)
            for j in range(a[t - q] + 1, k):
                a[t] = j
                db(t + 1, t)
    db(1, 1)
    return seq


def gen_cases(ctx):
    global T2_ALL
    T2_ALL = ctx.thorough
    r = ctx.rng
    rot = Rot(r)
    cases = []
    alpha = [-2.5, -1.0, -0.0, 0.0, 1.0, 1.0, 3e11]
    depth = 6 if not ctx.thorough else 9
    nleaves = 40 if not ctx.thorough else 600
    for ind in KINDS7:
        for p in range(1, 6):
            for j in range(nleaves // 5):
                seq = [r.choice(alpha) for _ in range(depth)]
                pr = (p, 0, 0, r.choice([2.0, 0.5, 0.0, 3.0]) if ind == "BB" else 0.0)
                feeds_a = [("n", 0, x) for x in seq]
                if j % 3 == 2:
                    feeds_a.insert(r.randint(1, depth - 1), ("r", 0))
                cases.append(Case("A_%s_p%d_%d" % (ind, p, j), [new_op(0, ind, pr)] + feeds_a,
                                  meta={"ind": ind, "p": p, "fam": "A", "n": depth}))
    # family T: tie-rich sequences over a three-symbol alphabet (repeated extremes entering and leaving the window in every order)
    for ind in KINDS7:
        for p in range(1, 6):
            for j in range(12 if ind in ("MIN", "MAX") else 4):
                al = r.choice([[0.0, 1.0, 5.0], [1.0, 5.0, 7.0], [-1.0, 0.0, 1.0], [2.0, 2.0, 3.0]])
                seq = [r.choice(al) for _ in range(12)]
                pr = (p, 0, 0, 2.0 if ind == "BB" else 0.0)
                cases.append(Case("T_%s_p%d_%d" % (ind, p, j), [new_op(0, ind, pr)] + [("n", 0, x) for x in seq],
                                  meta={"ind": ind, "p": p, "fam": "T", "n": 12}))
    # family D (deterministic, seed-independent): de Bruijn sequences over three ordered symbols — every word of length 7
    # (thorough: 4 symbols, length 6) occurs, at every phase of the ring cursor: every order in which equal and distinct
    # extremes can enter and leave a window of up to 5 slots is exercised for Minimum and Maximum
    dbk, dbn = (3, 7) if not ctx.thorough else (4, 6)
    db = de_bruijn(dbk, dbn)
    syms = [1.0, 5.0, 7.0, -3.0][:dbk]
    for ind in ("MIN", "MAX"):
        for p in range(1, 6):
            for phase in range(p):
                seq = [syms[0]] * phase + [syms[a] for a in db + db[:dbn - 1]]
                cases.append(Case("D_%s_p%d_%d" % (ind, p, phase), [new_op(0, ind, (p, 0, 0, 0.0))] + [("n", 0, x) for x in seq],
                                  meta={"ind": ind, "p": p, "fam": "D", "n": len(seq)}))
    # family OVF (known finding K8): finite inputs whose sums / differences overflow binary64 although the statistic itself is
    # representable: the accumulators return inf / NaN / 0 instead
    H = 1.7e308
    for ind, p, seq in [("SMA", 2, [H, H, 1.0, 1.0, 1.0]), ("WMA", 2, [H, H, H]), ("SD", 2, [H, -H, H]), ("MAD", 2, [H, H, 1.0]),
                        ("BB", 2, [H, -H, H])]:
        cases.append(Case("OVF_%s" % ind, [new_op(0, ind, (p, 0, 0, 2.0 if ind == "BB" else 0.0))] + [("n", 0, x) for x in seq],
                          meta={"ind": ind, "p": p, "fam": "OVF", "n": len(seq)}))
    # family B
    nb = 3 if not ctx.thorough else 12
    for ind in KINDS7:
        plist = [1, 2, 3] + [r.randint(4, 64) for _ in range(nb)] + ([1023, 1024] if ind not in ("MAD",) or ctx.thorough else [257])
        if not ctx.thorough and ind == "MAD":
            plist = [1, 2, 3, r.randint(4, 40), r.randint(40, 128), 257]
        for j, p in enumerate(plist):
            n = 4 * p + 50 if p <= 64 or ctx.thorough else 2 * p + 50
            if ind == "MAD" and p > 256:
                n = p + 60   # the exact instance of MAD costs O(period) big-rational operations per step
            style = rot.pick((ind, "n"), ["signed", "walk", "mixed", "ties", "uniform", "periodic", "tiny", "huge", "flatafter", "zeros", "segments", "tight"])
            xs = scalar_stream(r, n, style, p=p)
            # plateaus and occasional huge/small magnitudes
            for _ in range(r.randint(0, 3)):
                a = r.randrange(n)
                for k in range(a, min(n, a + r.randint(1, p + 2))):
                    xs[k] = xs[a]
            pr = (p, 0, 0, r.choice([2.0, 0.5, 1e3]) if ind == "BB" else 0.0)
            feeds = [("n", 0, x) for x in xs]
            # t counts inputs since construction OR reset: put resets at interesting positions in some streams
            if j % 2 == 1 and p <= 64:
                for pos in sorted({r.choice([1, p, p + 1, 2 * p + 1, 3 * p]) for _ in range(2)}, reverse=True):
                    if pos < len(feeds):
                        feeds.insert(pos, ("r", 0))
            cases.append(Case("B_%s_p%d_%d" % (ind, p, j), [new_op(0, ind, pr)] + feeds,
                              dump=(0,) if p <= 64 else (), meta={"ind": ind, "p": p, "fam": "B", "n": n, "style": style}))
    # seed-independent long runs (4400 inputs, periods 3 and 5: neither divides 2^10): maintenance code that only executes every
    # 2^10 / 2^12 updates still has to return the statistic of exactly the last n inputs
    for ind in ("SMA", "WMA", "SD", "MAD", "BB", "MIN", "MAX"):
        for p in (3, 5):
            pr = (p, 0, 0, 2.0 if ind == "BB" else 0.0)
            cases.append(Case("L_%s_p%d" % (ind, p), [new_op(0, ind, pr)] + long_feed("SMA", 4400, "plain" if p == 3 else "spike"),
                              dump=(), meta={"ind": ind, "p": p, "fam": "D", "n": 4400, "style": "long"}))
    # integer saw-teeth whose length equals or divides the period (seed-independent): every input equals the value it evicts while the
    # window is not flat — shortcuts taken "when nothing changed" (input == old value, running sum unchanged) misfire exactly there
    for ind in ("SMA", "WMA", "SD", "MAD", "BB", "MIN", "MAX"):
        for p, tooth in ((5, 5), (6, 3), (3, 3), (4, 2)):
            xs = [float(1 + (t_ % tooth)) for t_ in range(6 * p + 7)]
            pr = (p, 0, 0, 2.0 if ind == "BB" else 0.0)
            cases.append(Case("S_%s_p%d_tooth%d" % (ind, p, tooth), [new_op(0, ind, pr)] + [("n", 0, x) for x in xs],
                              dump=(0,), meta={"ind": ind, "p": p, "fam": "B", "n": len(xs), "style": "sawtooth"}))
    # K7: WMA adversary (known finding) and the same stream through SMA (must stay within tolerance)
    adv = adversary(1400 if not ctx.thorough else 20000, r)
    cases.append(Case("K7_WMA_adversary", [new_op(0, "WMA", (2, 0, 0, 0.0))] + [("n", 0, x) for x in adv], dump=(),
                      meta={"ind": "WMA", "p": 2, "fam": "K7", "n": len(adv)}))
    cases.append(Case("K7_SMA_adversary", [new_op(0, "SMA", (2, 0, 0, 0.0))] + [("n", 0, x) for x in adv], dump=(),
                      meta={"ind": "SMA", "p": 2, "fam": "K7", "n": len(adv)}))
    k7 = [c for c in cases if c.meta['fam'] == 'K7']
    rest = [c for c in cases if c.meta['fam'] not in ('K7', 'D', 'OVF') and c.meta['p'] <= 64]
    big = [c for c in cases if c.meta['fam'] != 'K7' and (c.meta['p'] > 64 or c.meta['fam'] in ('D', 'OVF'))]
    return with_scaled(rest, r) + big + k7


def nontrivial(c):
    xs = [o[2] for o in c.ops if o[0] == "n"]
    return len(xs) > c.meta["p"] and len(set(xs)) > 1


def t2_select(c):
    # exact rational evaluation costs O(period) big-number operations per step: large periods only in the thorough tier
    return c.meta["p"] <= 64 or c.meta["fam"] == "K7" or T2_ALL


def t2_violation(ctx, c, r):
    ind = c.meta["ind"]
    key = None
    if c.meta["fam"] == "K7" and ind == "WMA":
        key = {"indicator": "WMA", "class": "rounding-aligned-adversary"}
    if c.meta["fam"] == "OVF":
        key = {"indicator": ind, "class": "intermediate-overflow"}
    cut = Case(c.cid + "_cut", c.ops[:r], dump=(), meta=c.meta)
    cut.obs = c.obs[:r]
    return Violation("%s(%d): output after %d inputs leaves tau(t)*maxmag of the exact statistic of the last min(t,n) inputs (case %s): impl %s"
                     % (ind, c.meta["p"], r - 1, c.cid, c.obs[r - 1]), case=cut, finding_key=key,
                     detail={"exact_model": "XQ instance of coq/Model.v evaluated by check_t2_window", "first_failing_op": r})


def check_impl(ctx, cases):
    ctx.stats["styles"] = {}
    for c in cases:
        st = c.meta.get("style", c.meta["fam"])
        ctx.stats["styles"][st] = ctx.stats["styles"].get(st, 0) + 1
    ctx.stats["max_period"] = max(c.meta["p"] for c in cases)
    ctx.stats["inputs_total"] = sum(c.meta["n"] for c in cases)
    return []
