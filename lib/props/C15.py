# C15 — Composite indicators agree with wiring their public building blocks by hand
import math
from props.util import *
from common import run_harness

aux_big = True   # also run the auxiliary big-period family (periods 2500 / 4100, two ring wraps) through the bit-exact tie
rule = ("composites BB, SLOW, ATR, MACD, PPO, KC, CE, CCI with periods 1..5 (tuples) and sampled larger, multipliers {2,-1.5,0,0.5,1e3} in rotation: each "
        "composite is run on a scalar and/or bar stream (walk / free / grid / ties, length 3n+20) and, in the same run, its public "
        "building blocks (SMA, SD, EMA, TR, FastStochastic, Minimum, Maximum, MAD, ATR) are constructed separately and fed by the "
        "driver exactly as documented (second-stage EMAs are fed the first-stage outputs in a second harness pass; the remaining + - * / "
        "are done in IEEE doubles by the driver); outputs are compared at every step. Also: every composite built by Default::default() against parts built from the documented default parameters, and BollingerBands after a 1e6-to-100 cliff. Non-trivial: distinct case longer than the period")
assumptions = ["the driver's own arithmetic (Python floats) is IEEE-754 binary64 with the same operation order as the documentation states"]

COMPOSITES = ["BB", "SLOW", "ATR", "MACD", "PPO", "KC", "CE", "CCI"]


def tau(t):
    return 1e-12 + 1e-15 * t ** 1.5


def gen_cases(ctx):
    r = ctx.rng
    cases = []
    for ind in COMPOSITES:
        grid = params_grid(ind, [1, 2, 3, 5])
        if ind in ("MACD", "PPO"):
            grid = [(a, b, c, 0.0) for a in (1, 2, 3) for b in (1, 2, 3) for c in (1, 2, 3)] + [(9, 26, 9, 0.0), (26, 12, 26, 0.0)]
        else:
            grid = r.sample(grid, min(len(grid), 4 if not ctx.thorough else 14))
        if ctx.thorough:
            grid += params_grid(ind, [14, 40])[:3]
        for gi, pr in enumerate(grid):
            if ind in HAS_MULT:
                pr = pr[:3] + ([2.0, -1.5, 0.0, 0.5, 1e3][gi % 5],)   # deterministic rotation incl. a negative multiplier
            p = max(pr[0], pr[1], pr[2], 1)
            n = 3 * p + 20
            modes = ["b"] if ind in ("CE", "CCI") else (["n", "b"] if ind in ("SLOW", "ATR", "KC") else ["n"])
            for mode in modes:
                for rep in range(1 if not ctx.thorough else 3):
                    if mode == "n":
                        xs = scalar_stream(r, n, r.choice(["walk", "ties", "uniform", "grid", "signed"] if ind in ("MACD", "BB") else ["walk", "ties", "uniform"]))
                        feeds = [("n", 0, x) for x in xs]
                    else:
                        feeds = [("b", 0) + b for b in bar_stream(r, n, r.choice(["walk", "grid", "flatish"]))]
                    cases.append(Case("%s_g%d_%s%d" % (ind, gi, mode, rep), [new_op(0, ind, pr)] + feeds, dump=(0,),
                                      meta={"ind": ind, "params": pr, "mode": mode, "n": n}))
    # seed-independent corner wiring: (c) PPO / MACD on streams that start with zeros and return to zero (slow average exactly 0: the
    # documented quotient is 0/0 or x/0, whatever a guard would prefer); (d) infinite / NaN multipliers over flat stretches (SD = 0 or
    # ATR = 0 times inf is NaN in the documented formula, not "no band")
    for ind in ("PPO", "MACD"):
        for pr in ((2, 3, 2, 0.0), (1, 2, 1, 0.0), (3, 2, 2, 0.0)):
            xs = [0.0, 0.0, 2.0, 3.0, 4.0, 0.0, 0.0, -0.0, 0.0, 1.0, 0.0, 0.0, 5.0, 2.5, 0.0]
            cases.append(Case("%s_zeros_%d_%d" % (ind, pr[0], pr[1]), [new_op(0, ind, pr)] + [("n", 0, x) for x in xs], dump=(0,),
                              meta={"ind": ind, "params": pr, "mode": "n", "n": len(xs)}))
    for ind in ("BB", "KC", "CE"):
        for mi_, m_ in enumerate((float("inf"), float("-inf"), float("nan"))):
            pr = (3, 0, 0, m_)
            xs = [5.0, 5.0, 7.0, 7.0, 7.0, 7.0, 7.0, 3.0, 4.0, 4.0, 4.0, 4.0, 4.0, 6.0]
            mode = "b" if ind == "CE" else "n"
            feeds = [("b", 0, x, x, x, x, 1.0) for x in xs] if mode == "b" else [("n", 0, x) for x in xs]
            cases.append(Case("%s_mult_nonfinite%d" % (ind, mi_), [new_op(0, ind, pr)] + feeds, dump=(0,),
                              meta={"ind": ind, "params": pr, "mode": mode, "n": len(xs)}))
    # seed-independent: (a) Default::default() composites are wired from the documented default parameters; (b) a cliff — three prices
    # near 1.5e6, then an almost flat level near 100 — where BollingerBands' own running mean must keep agreeing with SMA
    from props.C11 import DEFAULTS
    for ind in COMPOSITES:
        dflt = DEFAULTS[ind]
        per = [x for x in dflt if isinstance(x, int)]
        mm = [x for x in dflt if isinstance(x, float)]
        pr = tuple(per + [0] * (3 - len(per))) + ((mm[0] if mm else 0.0),)
        mode = "b" if ind in ("CE", "CCI") else "n"
        n = 3 * max(pr[:3]) + 20
        src = long_feed("CE" if mode == "b" else "SMA", n)
        cases.append(Case("%s_default_%s" % (ind, mode), [("def", 0, ind)] + src, dump=(0,),
                          meta={"ind": ind, "params": pr, "mode": mode, "n": n, "default": True}))
    for p_ in (2, 3, 5):
        xs = [1.5e6, 1.2e6, 1.9e6] + [100.0 + 1e-3 * (((7 * k) % 11) - 5) / 5.0 for k in range(3 * p_ + 30)]
        cases.append(Case("BB_cliff_p%d" % p_, [new_op(0, "BB", (p_, 0, 0, 2.0))] + [("n", 0, x) for x in xs], dump=(0,),
                          meta={"ind": "BB", "params": (p_, 0, 0, 2.0), "mode": "n", "n": len(xs)}))
    return with_scaled(cases, r)


def nontrivial(c):
    return c.meta["n"] > max(c.meta["params"][:3])


class Parts:
    """deferred runs of standalone indicators through the harness"""
    def __init__(self, ctx, tag):
        self.ctx, self.tag, self.reqs = ctx, tag, []

    def add(self, ind, pr, feeds):
        """feeds: list of ('n', x) or ('b', bar tuple); returns a handle"""
        ops = [new_op(0, ind, pr)] + [(f[0], 0) + (f[1] if f[0] == "b" else (f[1],)) for f in feeds]
        c = Case("%s_%d" % (self.tag, len(self.reqs)), ops, dump=())
        self.reqs.append(c)
        return c

    def run(self):
        if self.reqs:
            run_harness(self.ctx.binary, self.reqs, self.tag)

    @staticmethod
    def outs(c):
        return [f_of(ob) for o, ob in zip(c.ops[1:], c.obs[1:])]


def check_impl(ctx, cases):
    out = []
    s1 = Parts(ctx, "C15s1")
    plan = []
    for c in cases:
        ind, pr, mode = c.meta["ind"], c.meta["params"], c.meta["mode"]
        p, q, r3, m = pr
        feeds = [(o[0], o[2] if o[0] == "n" else tuple(o[2:7])) for o in c.ops[1:]]
        xs = [f[1] for f in feeds] if mode == "n" else None
        bars = [f[1] for f in feeds] if mode == "b" else None
        tp = [(b[3] + b[1] + b[2]) / 3.0 for b in bars] if bars else None
        h = {}
        if ind == "BB":
            h["sma"] = s1.add("SMA", (p, 0, 0, 0.0), feeds)
            h["sd"] = s1.add("SD", (p, 0, 0, 0.0), feeds)
        elif ind == "SLOW":
            h["fast"] = s1.add("FAST", (p, 0, 0, 0.0), feeds)
        elif ind == "ATR":
            h["tr"] = s1.add("TR", (0, 0, 0, 0.0), feeds)
        elif ind in ("MACD", "PPO"):
            h["f"] = s1.add("EMA", (p, 0, 0, 0.0), feeds)
            h["s"] = s1.add("EMA", (q, 0, 0, 0.0), feeds)
        elif ind == "KC":
            h["atr"] = s1.add("ATR", (p, 0, 0, 0.0), feeds)
            h["ema"] = s1.add("EMA", (p, 0, 0, 0.0), feeds if mode == "n" else [("n", t) for t in tp])
        elif ind == "CE":
            h["atr"] = s1.add("ATR", (p, 0, 0, 0.0), feeds)
            h["min"] = s1.add("MIN", (p, 0, 0, 0.0), feeds)
            h["max"] = s1.add("MAX", (p, 0, 0, 0.0), feeds)
        elif ind == "CCI":
            h["sma"] = s1.add("SMA", (p, 0, 0, 0.0), [("n", t) for t in tp])
            h["mad"] = s1.add("MAD", (p, 0, 0, 0.0), [("n", t) for t in tp])
        plan.append((c, h, feeds, tp))
    s1.run()
    s2 = Parts(ctx, "C15s2")
    for c, h, feeds, tp in plan:
        ind, pr = c.meta["ind"], c.meta["params"]
        p, q, r3, m = pr
        if ind == "SLOW":
            h["ema"] = s2.add("EMA", (q, 0, 0, 0.0), [("n", v[0]) for v in Parts.outs(h["fast"])])
        elif ind == "ATR":
            h["ema"] = s2.add("EMA", (p, 0, 0, 0.0), [("n", v[0]) for v in Parts.outs(h["tr"])])
        elif ind in ("MACD", "PPO"):
            f, s = Parts.outs(h["f"]), Parts.outs(h["s"])
            if ind == "MACD":
                line = [a[0] - b[0] for a, b in zip(f, s)]
            else:
                line = []
                for a, b in zip(f, s):
                    try:
                        line.append((a[0] - b[0]) / b[0] * 100.0)
                    except ZeroDivisionError:
                        d = a[0] - b[0]
                        line.append(float("nan") if d == 0 or d != d else math.copysign(float("inf"), d) * math.copysign(1.0, b[0]) * 100.0)
            h["line"] = line
            h["sig"] = s2.add("EMA", (r3, 0, 0, 0.0), [("n", v) for v in line])
    s2.run()
    n_cmp = 0
    for c, h, feeds, tp in plan:
        ind, pr = c.meta["ind"], c.meta["params"]
        p, q, r3, m = pr
        got = [f_of(ob) for ob in c.obs[1:]]
        hand = []
        if ind == "BB":
            for a, d in zip(Parts.outs(h["sma"]), Parts.outs(h["sd"])):
                hand.append([a[0], a[0] + d[0] * m, a[0] - d[0] * m])
        elif ind in ("SLOW", "ATR"):
            hand = Parts.outs(h["ema"])
        elif ind in ("MACD", "PPO"):
            for l, sg in zip(h["line"], Parts.outs(h["sig"])):
                hand.append([l, sg[0], l - sg[0]])
        elif ind == "KC":
            for a, e in zip(Parts.outs(h["atr"]), Parts.outs(h["ema"])):
                hand.append([e[0], e[0] + a[0] * m, e[0] - a[0] * m])
        elif ind == "CE":
            for a, lo, hi in zip(Parts.outs(h["atr"]), Parts.outs(h["min"]), Parts.outs(h["max"])):
                hand.append([hi[0] - a[0] * m, lo[0] + a[0] * m])
        elif ind == "CCI":
            for t, a, d in zip(tp, Parts.outs(h["sma"]), Parts.outs(h["mad"])):
                hand.append([0.0 if d[0] == 0.0 else (t - a[0]) / (d[0] * 0.015)])
        M = 0.0
        for t, (g, w, f) in enumerate(zip(got, hand, feeds), start=1):
            vals = [f[1]] if f[0] == "n" else list(f[1][1:4])
            M = max([M] + [abs(v) for v in vals if v == v and abs(v) != float("inf")])
            n_cmp += 1
            if g is None or len(g) != len(w):
                out.append(Violation("%s%s: composite returned %s where the hand wiring gives %s" % (ind, pr, g, w), case=c))
                break
            bad = False
            for k, (x, y) in enumerate(zip(g, w)):
                if x == y or (x != x and y != y):
                    continue
                tol = tau(t) * max(M, 1e-300)
                if ind == "CCI":
                    tol = tau(t) * (abs(x) + abs(y) + 1.0) * 1e3
                if ind == "BB" and k > 0:
                    # half-widths compared on variances
                    hx_, hy_ = (x - g[0]) ** 2, (y - w[0]) ** 2
                    if abs(hx_ - hy_) <= tau(t) * M * M * max(1.0, m * m):
                        continue
                    bad = True
                elif ind in ("PPO",):
                    if abs(x - y) <= tau(t) * 100.0 * max(1.0, abs(x)):
                        continue
                    bad = True
                elif not (abs(x - y) <= tol):
                    bad = True
                if bad:
                    out.append(Violation("%s%s (%s input): output %d at step %d is %r but wiring the public building blocks by hand gives %r"
                                         % (ind, pr[:3] + (m,), c.meta["mode"], k, t, x, y), case=c))
                    break
            if bad:
                break
        if len(out) > 10:
            break
    ctx.stats["steps_compared_with_hand_wiring"] = n_cmp
    ctx.stats["part_runs"] = len(s1.reqs) + len(s2.reqs)
    return out
