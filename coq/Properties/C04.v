(* C04 — reset() returns every indicator to a state indistinguishable from a fresh one.
   Statements only. [F] is an arbitrary number type: histories containing NaN, infinities or
   extreme values are covered because nothing is assumed about the values. *)
From TA Require Import Base Model Generic Proofs.GenericProofs Proofs.RunProofs Proofs.SizeProofs Proofs.MinMaxProofs Proofs.ResetProofs.

(* For the 17 indicators without a Minimum/Maximum inside, reset() of any reachable (well-formed)
   state is, as a record, exactly what the constructor returns for the same parameters — hence every
   continuation, Display text and accessor coincides with a fresh instance. *)
Theorem C04_reset_is_new : forall (F : Type) (O : Ops F) (s : @St F),
  WF O s -> has_minmax (kind_of s) = false ->
  reset O s = new O (kind_of s) (params_of O s).
Proof. exact (@reset_is_new). Qed.

(* reset never fails, keeps the parameters (period, multiplier, hence Display) and the kind *)
Theorem C04_reset_keeps_params : forall (F : Type) (O : Ops F) (s : @St F),
  WF O s -> exists s', reset O s = Ok s' /\ WF O s' /\ params_of O s' = params_of O s /\ kind_of s' = kind_of s.
Proof. intros F O s W. destruct (reset_total O s W) as (s' & A & B & C & D). eauto. Qed.

(* reset is idempotent and does nothing to a fresh indicator (17 indicators: record equality) *)
Theorem C04_reset_idempotent : forall (F : Type) (O : Ops F) (s s1 : @St F),
  WF O s -> has_minmax (kind_of s) = false -> reset O s = Ok s1 -> reset O s1 = Ok s1.
Proof. exact (@reset_idempotent). Qed.

Theorem C04_reset_fresh : forall (F : Type) (O : Ops F) k p (s : @St F),
  has_minmax k = false -> new O k p = Ok s -> reset O s = Ok s.
Proof. exact (@reset_fresh). Qed.

(* Minimum / Maximum (and FastStochastic, SlowStochastic, ChandelierExit built on them): reset refills
   the buffer but keeps the two cursors, so the record differs from a fresh one; the outputs do not.
   For every order-like comparison (irreflexive on the values fed, [inf] never below a value — true of
   IEEE < on non-NaN floats and of the reals), a just-reset Minimum and a fresh Minimum fed the same
   continuation return the same outputs, step by step, for every continuation. *)
Theorem C04_min_reset_equiv : forall (F : Type) (O : Ops F) (s s1 s0 : @Min F) (xs : list F),
  min_order_ok O xs -> Proofs.WF.wf_min s -> min_reset O s = Ok s1 -> min_new O (min_period s) = Ok s0 ->
  min_outs O s1 xs = min_outs O s0 xs.
Proof. exact (@min_reset_equiv). Qed.

Theorem C04_max_reset_equiv : forall (F : Type) (O : Ops F) (s s1 s0 : @Max F) (xs : list F),
  max_order_ok O xs -> Proofs.WF.wf_max s -> max_reset O s = Ok s1 -> max_new O (max_period s) = Ok s0 ->
  max_outs O s1 xs = max_outs O s0 xs.
Proof. exact (@max_reset_equiv). Qed.

(* binary64: for continuations free of NaN and -0.0 a just-reset Minimum / Maximum and a fresh one return bit-identical outputs *)
From TA Require Import FloatInst Proofs.FloatOrder.
Theorem C04_min_reset_equiv_binary64 : forall (s s1 s0 : @Min PrimFloat.float) (xs : list PrimFloat.float),
  Forall okF xs -> Proofs.WF.wf_min s -> min_reset FOps s = Ok s1 -> min_new FOps (min_period s) = Ok s0 ->
  min_outs FOps s1 xs = min_outs FOps s0 xs.
Proof. intros s s1 s0 xs H. apply min_reset_equiv. exists okF. split; [exact float_order_min|exact H]. Qed.
Theorem C04_max_reset_equiv_binary64 : forall (s s1 s0 : @Max PrimFloat.float) (xs : list PrimFloat.float),
  Forall okF xs -> Proofs.WF.wf_max s -> max_reset FOps s = Ok s1 -> max_new FOps (max_period s) = Ok s0 ->
  max_outs FOps s1 xs = max_outs FOps s0 xs.
Proof. intros s s1 s0 xs H. apply max_reset_equiv. exists okF. split; [exact float_order_max|exact H]. Qed.

(* ---- the indicators built on Minimum / Maximum: observational equality with a fresh instance on every totally
        ordered continuation (FastStochastic on both paths, SlowStochastic, ChandelierExit) — with these, all 22 kinds ---- *)
From TA Require Import Proofs.GenericProofs Proofs.Wiring Proofs.ResetLift.
Theorem C04_fast_reset_equiv : forall (F : Type) (O : Ops F) (s s1 s0 : @Fast F) (xs : list F),
  min_order_ok O xs -> max_order_ok O xs -> wf_fast s -> fast_reset O s = Ok s1 -> fast_new O (fast_period s) = Ok s0 ->
  fast_outs O s1 xs = fast_outs O s0 xs.
Proof. exact @fast_reset_equiv. Qed.
Theorem C04_fast_bar_reset_equiv : forall (F : Type) (O : Ops F) (s s1 s0 : @Fast F) (bs : list (Bar F)),
  min_order_ok O (map b_low bs) -> max_order_ok O (map b_high bs) -> wf_fast s ->
  fast_reset O s = Ok s1 -> fast_new O (fast_period s) = Ok s0 -> fast_bar_outs O s1 bs = fast_bar_outs O s0 bs.
Proof. exact @fast_bar_reset_equiv. Qed.
Theorem C04_slow_reset_equiv : forall (F : Type) (O : Ops F) (s s1 s0 : @Slow F) (xs : list F),
  min_order_ok O xs -> max_order_ok O xs -> wf_slow O s -> slow_reset O s = Ok s1 ->
  slow_new O (fast_period (slow_fast s)) (ema_period (slow_ema s)) = Ok s0 -> slow_outs O s1 xs = slow_outs O s0 xs.
Proof. exact @slow_reset_equiv. Qed.
Theorem C04_ce_reset_equiv : forall (F : Type) (O : Ops F) (s s1 s0 : @Ce F) (bs : list (Bar F)),
  min_order_ok O (map b_low bs) -> max_order_ok O (map b_high bs) -> wf_ce O s -> ce_reset O s = Ok s1 ->
  ce_new O (ema_period (atr_ema (ce_atr s))) (ce_multiplier s) = Ok s0 -> ce_outs O s1 bs = ce_outs O s0 bs.
Proof. exact @ce_reset_equiv. Qed.
(* binary64, continuation free of NaN and -0.0: bit-identical *)
Theorem C04_fast_reset_equiv_binary64 : forall (s s1 s0 : @Fast PrimFloat.float) (xs : list PrimFloat.float),
  Forall okF xs -> wf_fast s -> fast_reset FOps s = Ok s1 -> fast_new FOps (fast_period s) = Ok s0 ->
  fast_outs FOps s1 xs = fast_outs FOps s0 xs.
Proof.
  intros s s1 s0 xs H. apply fast_reset_equiv; exists okF; (split; [|exact H]); [exact float_order_min|exact float_order_max].
Qed.
