# C12 — next() is total
from props.util import *

needs_release = False
aux_big = True   # also run the auxiliary big-period family (periods 2500 / 4100, two ring wraps) through the bit-exact tie
no_aux_clone = True   # the clone_from family is judged here
rule = ("for each of the 22 indicators and each period in the tier's list (quick: 1..16, 31..33, 63, 64; thorough: 1..64 "
        "plus sampled up to 4096) one case of >= 3*period+3 feeding ops mixing ordinary values with injected NaN, +-inf, +-f64::MAX, "
        "subnormals, signed zeros and inconsistent bars, with reset / clone / serde / Display+Debug probes at random "
        "positions; plus, on the implementation only, 20000 calls at period 3 (one reset) and 5200 calls at period 1500 per indicator; a case is non-trivial when it is distinct and fed at least 3*period+3 inputs (every cursor state reached)")
assumptions = ["debug build: overflow checks and debug assertions on (harness dev profile); thorough tier also runs a release build"]


def gen_cases(ctx):
    r = ctx.rng
    periods = list(range(1, 17)) + [31, 32, 33, 63, 64]
    if ctx.thorough:
        periods = list(range(1, 65)) + [100, 255, 256, 1000, 4096]
    cases = []
    for ind in ALL:
        plist = periods if nper(ind) > 0 else [0, 0, 0]
        for j, p in enumerate(plist):
            if p > 300 and ind in ("MAD", "CCI", "ER"):   # O(p) work per step in the model
                n_feed = p + 40
            else:
                n_feed = 3 * p + 3 + r.randint(0, 5)
            k = nper(ind)
            q = r.choice([1, 2, 3, p]) if p <= 64 else 3
            pr = (p if k >= 1 else 0, q if k >= 2 else 0, r.choice([1, 2, p if p <= 64 else 2]) if k >= 3 else 0,
                  r.choice([0.0, 2.0, -3.0, 1e300, float("nan")]) if ind in HAS_MULT else 0.0)
            ops = [new_op(0, ind, pr)]
            feeds = feed(r, ind, n_feed, specials=0.25 if p <= 64 else 0.05, p=max(p, 1))
            extra = []
            for _ in range(r.randint(1, 4)):
                extra.append(r.choice([("r", 0), ("s", 0), ("d", 0), ("c", 0, 1), ("c", 0, 0)]))
            pos = sorted(r.randrange(len(feeds) + 1) for _ in extra)
            out = []
            pi = 0
            for i, f in enumerate(feeds):
                while pi < len(pos) and pos[pi] == i:
                    out.append(extra[pi])
                    pi += 1
                out.append(f)
            out.extend(extra[pi:])
            # MFI branches on the sign bit of values popped from its window; the sign of a NaN is not
            # modelled (Coq has one NaN), so after non-finite inputs only outputs are compared for MFI
            cases.append(Case("%s_p%d_%d" % (ind, p, j), ops + out, dump=() if ind == "MFI" else (0,), meta={"ind": ind, "period": p, "n_feed": n_feed}))
    # counters narrower than usize (u8 / u16 / u32) wrap at 2^8, 2^16: periods just around 2^8 for every indicator ...
    for ind in ALL:
        if nper(ind) == 0:
            continue
        for p in (255, 256, 257):
            k = nper(ind)
            pr = (p, 3 if k >= 2 else 0, 2 if k >= 3 else 0, 2.0 if ind in HAS_MULT else 0.0)
            n_feed = p + 300 if ind in ("MAD", "CCI", "ER") else 2 * p + 10
            cases.append(Case("%s_w%d" % (ind, p), [new_op(0, ind, pr)] + feed(r, ind, n_feed, specials=0.0, p=p), dump=(),
                              meta={"ind": ind, "period": p, "n_feed": n_feed}))
    # ... and one period beyond 2^16 fed beyond 2^16 calls, on the implementation only (the list-based model costs O(period) per ring
    # update); MAD / CCI / ER do O(period) work per call themselves and are left to the thorough tier
    for ind in ALL:
        if nper(ind) == 0 or (ind in ("MAD", "CCI", "ER") and not ctx.thorough):
            continue
        p = 65537
        k = nper(ind)
        pr = (p, 3 if k >= 2 else 0, 2 if k >= 3 else 0, 2.0 if ind in HAS_MULT else 0.0)
        n_feed = p + 40
        base = feed(r, ind, 97, specials=0.0, p=7)
        feeds = [base[i % 97] for i in range(n_feed)]
        cases.append(Case("%s_big%d" % (ind, p), [new_op(0, ind, pr)] + feeds, dump=(),
                          meta={"ind": ind, "period": p, "n_feed": n_feed, "harness_only": True}))
    # long runs on the implementation only: 20 000 calls at period 3 and 5 200 calls at period 1 500 (maintenance code that runs every
    # 2^10 .. 2^14 calls, before and after the window is full), resets included
    for ind in ALL:
        if nper(ind) == 0:
            continue
        for p, n_feed in ((3, 20000), (1500, 5200)):
            k = nper(ind)
            pr = (p, 3 if k >= 2 else 0, 2 if k >= 3 else 0, 2.0 if ind in HAS_MULT else 0.0)
            base = feed(r, ind, 97, specials=0.0, p=7)
            feeds = [base[i % 97] for i in range(n_feed)]
            if p == 3:
                feeds.insert(9000, ("r", 0))
            cases.append(Case("%s_longrun_p%d" % (ind, p), [new_op(0, ind, pr)] + feeds, dump=(),
                              meta={"ind": ind, "period": p, "n_feed": n_feed, "harness_only": True}))
    # monotone ramps with decimal steps (sums of rounded steps against one rounded difference: assertions that hold over the reals
    # but not in binary64 fire there)
    for ind in ALL:
        for p in ((2, 3, 5, 14) if nper(ind) > 0 else (0,)):
            for d in (0.1, 0.3, 0.7, -0.3):
                k = nper(ind)
                pr = (p if k >= 1 else 0, 3 if k >= 2 else 0, 2 if k >= 3 else 0, 2.0 if ind in HAS_MULT else 0.0)
                x0 = r.choice([0.1, 0.2, 100.3, 7.7])
                n_feed = 70
                if ind in NO_SCALAR:
                    feeds = [("b", 0, x0 + d * i, x0 + d * i + 0.05, x0 + d * i - 0.05, x0 + d * i, 10.0) for i in range(n_feed)] if True else []
                    feeds = [("b", 0, max(v[2], 0.01), max(v[3], 0.02), max(min(v[4], v[3]), 0.005), max(min(v[5], v[3]), 0.005), v[6]) for v in feeds]
                else:
                    feeds = [("n", 0, x0 + d * i) for i in range(n_feed)]
                cases.append(Case("%s_ramp_p%d_%s" % (ind, p, str(d).replace(".", "_").replace("-", "m")), [new_op(0, ind, pr)] + feeds, dump=(),
                                  meta={"ind": ind, "period": max(p, 1), "n_feed": n_feed}))
    # Clone::clone_from into an existing instance with a larger / smaller / equal window (a ring shorter than the new period panics later,
    # in next() or reset()): part of this property's own cases, so that a panic is reported with its input
    for c_ in aux_clone_cases():
        c_.cid = "cf_" + c_.cid
        c_.meta = {"ind": c_.meta["ind"], "period": c_.meta["p"], "n_feed": 3 * c_.meta["p"] + 3}
        cases.append(c_)
    return cases


def nontrivial(c):
    return c.meta["n_feed"] >= 3 * c.meta["period"] + 3 or c.meta["period"] > 300


def check_impl(ctx, cases):
    out = []
    n_special = 0
    for c in cases:
        for i, ob in enumerate(c.obs):
            if ob == "panic" or (isinstance(ob, tuple) and ob[0] == "badprobe"):
                out.append(Violation("%s(%s) panicked / failed at op %d: %s -> %s" % (c.meta["ind"], c.meta["period"], i + 1, c.ops[i], ob),
                                     case=Case(c.cid + "_cut", c.ops[:i + 1], dump=(), meta=c.meta)))
                break
        if c.images.get(0) == "ff":
            out.append(Violation("serialization of %s panicked" % c.meta["ind"], case=c))
        for o in c.ops:
            if o[0] in ("n", "b") and any(isinstance(v, float) and (v != v or abs(v) == float("inf") or abs(v) > 1e300) for v in o[2:]):
                n_special += 1
    ctx.stats["ops_with_nonfinite_or_extreme_values"] = n_special
    ctx.stats["total_ops"] = sum(len(c.ops) for c in cases)
    if ctx.binary_release:
        # same cases on a release build: outcomes must agree with the debug build (no panics either)
        from common import run_harness
        rel = [Case(c.cid, c.ops, c.dump, c.meta) for c in cases]
        run_harness(ctx.binary_release, rel, "C12rel")
        for c, d in zip(rel, cases):
            if any(ob == "panic" for ob in c.obs):
                out.append(Violation("release build panicked in case %s" % c.cid, case=c))
            elif c.obs != d.obs:
                ctx.notes.append("release and debug builds differ on %s" % c.cid)
        ctx.stats["release_cases"] = len(rel)
    return out
