# Static tie between the state records of the model (coq/Model.v) and the structs of the implementation (/repo/src): every
# indicator struct must have exactly the fields of its Gallina record — same names (modulo the record's prefix), same order, same
# types — and carry no field attribute that hides state from the serialized form (#[serde(skip…)], default, with …): the
# dynamic tie (bit-exact outputs and bincode state images) only sees state that is serialized or that has already influenced
# an output, so a counter behind #[serde(skip)] that triggers maintenance code after 10^5 updates would be invisible to it.
# A mismatch is a broken correspondence (reported as "no-failing-input-found" unless a dynamic check finds an input).
import os
import re

STRUCTS = {
    "SimpleMovingAverage": ("simple_moving_average.rs", "Sma"), "ExponentialMovingAverage": ("exponential_moving_average.rs", "Ema"),
    "WeightedMovingAverage": ("weighted_moving_average.rs", "Wma"), "StandardDeviation": ("standard_deviation.rs", "Sd"),
    "MeanAbsoluteDeviation": ("mean_absolute_deviation.rs", "Mad"), "Minimum": ("minimum.rs", "Min"), "Maximum": ("maximum.rs", "Max"),
    "BollingerBands": ("bollinger_bands.rs", "Bb"), "TrueRange": ("true_range.rs", "Tr"), "AverageTrueRange": ("average_true_range.rs", "Atr"),
    "RelativeStrengthIndex": ("relative_strength_index.rs", "Rsi"), "FastStochastic": ("fast_stochastic.rs", "Fast"),
    "SlowStochastic": ("slow_stochastic.rs", "Slow"), "RateOfChange": ("rate_of_change.rs", "Roc"), "EfficiencyRatio": ("efficiency_ratio.rs", "Er"),
    "MovingAverageConvergenceDivergence": ("moving_average_convergence_divergence.rs", "Macd"),
    "PercentagePriceOscillator": ("percentage_price_oscillator.rs", "Ppo"), "KeltnerChannel": ("keltner_channel.rs", "Kc"),
    "ChandelierExit": ("chandelier_exit.rs", "Ce"), "CommodityChannelIndex": ("commodity_channel_index.rs", "Cci"),
    "MoneyFlowIndex": ("money_flow_index.rs", "Mfi"), "OnBalanceVolume": ("on_balance_volume.rs", "Obv"),
}
# field names that differ between the struct and the record (record name without prefix -> struct name)
RENAME = {("Mfi", "prev_tp"): "previous_typical_price", ("Mfi", "pos"): "total_positive_money_flow", ("Mfi", "neg"): "total_negative_money_flow",
          ("Rsi", "up"): "up_ema_indicator", ("Rsi", "down"): "down_ema_indicator", ("Slow", "fast"): "fast_stochastic", ("Macd", "fast"): "fast_ema", ("Macd", "slow"): "slow_ema", ("Macd", "signal"): "signal_ema",
          ("Ppo", "fast"): "fast_ema", ("Ppo", "slow"): "slow_ema", ("Ppo", "signal"): "signal_ema"}
RUST_OF_COQ = {"N": "usize", "F": "f64", "list F": "Box<[f64]>", "bool": "bool", "option F": "Option<f64>"}


def coq_records(model_path):
    src = open(model_path).read()
    out = {}
    for m in re.finditer(r"Record\s+(\w+)\s*:=\s*mk\w+\s*\{(.*?)\}\.", src, re.S):
        fields = []
        for f in m.group(2).split(";"):
            f = f.strip()
            if f:
                name, ty = [x.strip() for x in f.split(":", 1)]
                fields.append((name, " ".join(ty.split())))
        out[m.group(1)] = fields
    return out


def rust_struct(path, name):
    """-> list of (field name, type, [attributes]) or None"""
    src = open(path).read()
    src = re.sub(r"//[^\n]*", "", src)
    m = re.search(r"pub\s+struct\s+%s\s*\{(.*?)\n\}" % re.escape(name), src, re.S)
    if not m:
        return None
    alias = {}
    for u in re.findall(r"^\s*(?:pub\s+)?use\s[^;]*;", src, re.M | re.S):      # use …::ExponentialMovingAverage as Ema;
        for a, b in re.findall(r"\b(\w+)\s+as\s+(\w+)", u):
            alias[b] = a
    fields, attrs = [], []
    body = m.group(1)
    pos = 0
    # split on commas at depth 0 (types like Box<[f64]> contain none, Option<(f64, f64)> would)
    depth, cur, parts = 0, "", []
    for ch in body:
        if ch in "<([":
            depth += 1
        elif ch in ">)]":
            depth -= 1
        if ch == "," and depth == 0:
            parts.append(cur)
            cur = ""
        else:
            cur += ch
    if cur.strip():
        parts.append(cur)
    for part in parts:
        attrs = re.findall(r"#\[(.*?)\]", part, re.S)
        decl = re.sub(r"#\[.*?\]", "", part, flags=re.S).strip()
        if not decl:
            continue
        decl = re.sub(r"^pub(\([^)]*\))?\s+", "", decl)
        fname, ty = [x.strip() for x in decl.split(":", 1)]
        ty = "".join(ty.split())
        fields.append((fname, alias.get(ty, ty), attrs))
    return fields


def check(repo, coqdir):
    """-> list of human-readable mismatches (empty = the records mirror the structs)"""
    recs = coq_records(os.path.join(coqdir, "Model.v"))
    rust_of_rec = {v[1]: k for k, v in STRUCTS.items()}
    bad = []
    for sname, (fn, rec) in sorted(STRUCTS.items()):
        path = os.path.join(repo, "src", "indicators", fn)
        if not os.path.exists(path):
            bad.append("%s: %s not found" % (sname, fn))
            continue
        rf = rust_struct(path, sname)
        if rf is None:
            bad.append("%s: struct definition not found in %s" % (sname, fn))
            continue
        cf = recs.get(rec)
        if cf is None:
            bad.append("%s: record %s not found in Model.v" % (sname, rec))
            continue
        prefix = rec.lower() + "_"
        want = []
        for cname, cty in cf:
            base = cname[len(prefix):] if cname.startswith(prefix) else cname
            base = RENAME.get((rec, base), base)
            rty = RUST_OF_COQ.get(cty) or rust_of_rec.get(cty, "?" + cty)
            want.append((base, rty))
        got = [(n, t) for n, t, _ in rf]
        if got != want:
            bad.append("%s: fields %s, the model record %s mirrors %s" % (sname, ", ".join("%s: %s" % x for x in got), rec,
                                                                         ", ".join("%s: %s" % x for x in want)))
        for n, t, at in rf:
            for a in at:
                if "serde" in a and re.search(r"skip|default|with|flatten|rename|alias|bound|from|into|getter", a):
                    bad.append("%s.%s carries #[%s]: state hidden from / altered in the serialized form is not covered by the state-image tie" % (sname, n, " ".join(a.split())))
    # hidden state outside the structs: statics, thread-locals, interior mutability, unsafe
    pat = re.compile(r"\bstatic\s+(mut\s+)?[A-Z_]+\s*:|thread_local!|\b(RefCell|Cell|UnsafeCell|Mutex|RwLock|AtomicU\w+|AtomicI\w+|AtomicBool|OnceCell|OnceLock|lazy_static|Rc|Arc)\b|\bunsafe\b")
    for root, _, files in os.walk(os.path.join(repo, "src")):
        for f in sorted(files):
            if f.endswith(".rs"):
                txt = re.sub(r"//[^\n]*", "", open(os.path.join(root, f)).read())
                for m in pat.finditer(txt):
                    bad.append("%s: `%s` — state or effects outside the modelled structs" % (os.path.relpath(os.path.join(root, f), repo), m.group(0).strip()))
                    break
    return bad


if __name__ == "__main__":
    import sys
    here = os.path.dirname(os.path.dirname(os.path.abspath(__file__)))
    for b in check(sys.argv[1] if len(sys.argv) > 1 else "/repo", os.path.join(here, "coq")):
        print(b)
