(* FloatInst.v — the IEEE-754 binary64 instance of [Ops] on Coq's primitive floats, exact bit
   patterns of floats, and byte images of serialised states.  Definitions only. *)
From Coq Require Import Floats Uint63 SpecFloat.
From TA Require Import Base Model Generic.
Open Scope N_scope.

(* usize as f64: round to nearest even, any N (of_uint63 agrees by FloatAxioms.of_uint63_spec) *)
Definition f_ofN (n : N) : float :=
  if n <? 4611686018427387904
  then PrimFloat.of_uint63 (Uint63.of_Z (Z.of_N n))
  else SF2Prim (binary_normalize prec emax (Z.of_N n) 0%Z false).

(* f64::is_sign_positive: sign bit clear (true for +0.0, +inf, and for the canonical NaN) *)
Definition f_is_sign_positive (x : float) : bool :=
  match Prim2SF x with
  | S754_zero s => negb s
  | S754_infinity s => negb s
  | S754_nan => true
  | S754_finite s _ _ => negb s
  end.

Definition FOps : Ops float := {|
  zero := 0%float; one := 1%float; two := 2%float; three := 3%float;
  c100 := 100%float; c50 := 50%float;
  c0_1 := 0x1.999999999999ap-4%float;        (* 0.1 *)
  c0_015 := 0x1.eb851eb851eb8p-7%float;      (* 0.015 *)
  inf := infinity; ninf := neg_infinity;
  add := PrimFloat.add; sub := PrimFloat.sub; mul := PrimFloat.mul; div := PrimFloat.div;
  sqrt := PrimFloat.sqrt; abs := PrimFloat.abs; neg := PrimFloat.opp;
  ltb := PrimFloat.ltb; leb := PrimFloat.leb; eqb := PrimFloat.eqb;
  ofN := f_ofN;
  is_sign_positive := f_is_sign_positive
|}.

(* the 64-bit pattern (NaN canonicalised to 0x7ff8000000000000) *)
Definition float_bits (x : float) : N :=
  match Prim2SF x with
  | S754_zero s => if s then 9223372036854775808 else 0
  | S754_infinity s => (if s then 9223372036854775808 else 0) + 9218868437227405312
  | S754_nan => 9221120237041090560
  | S754_finite s m e =>
      (if s then 9223372036854775808 else 0) +
      (if Npos m <? 4503599627370496 then Npos m
       else Z.to_N (e + 1075) * 4503599627370496 + (Npos m - 4503599627370496))
  end.

Definition beq (a b : float) : bool := float_bits a =? float_bits b.

Fixpoint beq_list (a b : list float) : bool :=
  match a, b with
  | [], [] => true
  | x :: a, y :: b => beq x y && beq_list a b
  | _, _ => false
  end.

(* little-endian byte image as one number: sum_i byte_i * 256^i, plus a leading 1 marker above *)
Fixpoint image (l : list (@item float)) : N * N :=   (* (value, bytes) *)
  match l with
  | [] => (0, 0)
  | i :: r =>
      let '(v, n) := image r in
      match i with
      | U64 x => (x + 18446744073709551616 * v, n + 8)
      | F64 f => (float_bits f + 18446744073709551616 * v, n + 8)
      | U8 x => (x + 256 * v, n + 1)
      end
  end.
