(* The ring-buffer abstraction shared by all windowed indicators.
   Key fact: rotating the buffer left by the write cursor always yields the last [p] elements of
   ([p] padding values followed by the history) — with no case split between warm-up and steady state. *)
From Coq Require Import Lia.
From TA Require Import Base Proofs.Prims.

Section Ring.
Context {A : Type}.

Definition lastn (n : nat) (l : list A) : list A := skipn (length l - n) l.
Definition rot (c : nat) (l : list A) : list A := skipn c l ++ firstn c l.

Lemma lastn_length n l : length (lastn n l) = Nat.min n (length l).
Proof. unfold lastn. rewrite skipn_length. lia. Qed.

Lemma lastn_all n l : (length l <= n)%nat -> lastn n l = l.
Proof. intros H. unfold lastn. replace (length l - n)%nat with 0%nat by lia. reflexivity. Qed.

Lemma lastn_app_r n l1 l2 : (n <= length l2)%nat -> lastn n (l1 ++ l2) = lastn n l2.
Proof.
  intros H. unfold lastn. rewrite app_length, skipn_app.
  replace (length l1 + length l2 - n - length l1)%nat with (length l2 - n)%nat by lia.
  rewrite skipn_all2 by lia. reflexivity.
Qed.

Lemma lastn_snoc n l x : (1 <= n)%nat -> (n <= length l)%nat ->
  lastn n (l ++ [x]) = tl (lastn n l) ++ [x].
Proof.
  intros H1 H2. unfold lastn. rewrite app_length. cbn [length].
  replace (length l + 1 - n)%nat with (S (length l - n)) by lia.
  rewrite skipn_app. replace (S (length l - n) - length l)%nat with 0%nat by lia. cbn [skipn].
  f_equal. remember (length l - n)%nat as k.
  assert (Hk : (k < length l)%nat) by lia. clear -Hk.
  revert k Hk; induction l as [|a l IH]; intros k Hk; [cbn in Hk; lia|].
  destruct k as [|k]; [reflexivity|]. cbn [skipn]. apply IH. cbn in Hk; lia.
Qed.

Lemma lastn_snoc_short n l x : (length l < n)%nat -> lastn n (l ++ [x]) = lastn n l ++ [x].
Proof. intros H. rewrite !lastn_all; [reflexivity|lia|rewrite app_length; cbn; lia]. Qed.

Lemma In_lastn n l y : In y (lastn n l) -> In y l.
Proof. unfold lastn. intros H. rewrite <- (firstn_skipn (length l - n) l). apply in_or_app. right. exact H. Qed.

Lemma lastn_last n l x : (1 <= n)%nat -> In x (lastn n (l ++ [x])).
Proof.
  intros H. unfold lastn. rewrite app_length. cbn [length].
  rewrite skipn_app. apply in_or_app. right.
  replace (length l + 1 - n - length l)%nat with 0%nat by lia. left. reflexivity.
Qed.

Lemma rot_length c l : length (rot c l) = length l.
Proof. unfold rot. rewrite app_length, skipn_length, firstn_length. lia. Qed.

Lemma In_rot c l y : In y (rot c l) <-> In y l.
Proof.
  unfold rot. rewrite in_app_iff. rewrite <- (firstn_skipn c l) at 3. rewrite in_app_iff. tauto.
Qed.

Lemma rot_0 l : rot 0 l = l.
Proof. unfold rot. cbn. apply app_nil_r. Qed.

Lemma skipn_nth_cons (l : list A) c d : (c < length l)%nat -> skipn c l = nth c l d :: skipn (S c) l.
Proof.
  revert c; induction l as [|a l IH]; intros c H; [cbn in H; lia|].
  destruct c as [|c]; [reflexivity|]. cbn [skipn nth]. apply IH. cbn in H; lia.
Qed.

Lemma hd_rot c l d : (c < length l)%nat -> hd d (rot c l) = nth c l d.
Proof. intros H. unfold rot. rewrite (skipn_nth_cons l c d H). reflexivity. Qed.

(* writing at the cursor and advancing it = dropping the oldest element and appending the new one *)
Lemma rot_step c l x : (c < length l)%nat ->
  rot (if (S c <? length l)%nat then S c else 0%nat) (set_nth l c x) = tl (rot c l) ++ [x].
Proof.
  intros H. unfold rot at 2. rewrite (skipn_nth_cons l c x H). cbn [app tl].
  destruct (Nat.ltb_spec (S c) (length l)) as [Hlt|Hge].
  - unfold rot, set_nth.
    assert (E2 : length (firstn c l) = c) by (rewrite firstn_length; lia).
    assert (E1 : skipn (S c) (firstn c l) = []) by (apply skipn_all2; lia).
    rewrite skipn_app, E1, E2. replace (S c - c)%nat with 1%nat by lia.
    rewrite skipn_cons, skipn_O. rewrite app_nil_l.
    rewrite firstn_app, E2. replace (S c - c)%nat with 1%nat by lia.
    rewrite firstn_cons, firstn_O.
    rewrite (firstn_all2 (n := S c) (firstn c l)) by lia.
    rewrite <- app_assoc. reflexivity.
  - rewrite rot_0. unfold set_nth.
    rewrite (skipn_all2 l) by lia. rewrite app_nil_l. reflexivity.
Qed.

End Ring.

(* padded history: p pads followed by the inputs; its last p elements are what the buffer holds *)
Section Padded.
Context {A : Type}.

Definition padded (pad : A) (p : nat) (h : list A) : list A := repeat pad p ++ h.

Lemma padded_length pad p h : length (padded pad p h) = (p + length h)%nat.
Proof. unfold padded. rewrite app_length, repeat_length. reflexivity. Qed.

Lemma lastn_padded_nil pad p : lastn p (padded pad p []) = repeat pad p.
Proof. unfold padded. rewrite app_nil_r. apply lastn_all. rewrite repeat_length. lia. Qed.

Lemma lastn_padded_snoc pad p h x : (1 <= p)%nat ->
  lastn p (padded pad p (h ++ [x])) = tl (lastn p (padded pad p h)) ++ [x].
Proof.
  intros H. unfold padded. rewrite app_assoc. apply lastn_snoc; [exact H|].
  rewrite app_length, repeat_length. lia.
Qed.

(* once p real inputs have been fed the padding is gone *)
Lemma lastn_padded_full pad p h : (p <= length h)%nat -> lastn p (padded pad p h) = lastn p h.
Proof. intros H. unfold padded. apply lastn_app_r. exact H. Qed.

Lemma lastn_padded_warm pad p h : (length h <= p)%nat ->
  lastn p (padded pad p h) = repeat pad (p - length h) ++ h.
Proof.
  intros H. unfold padded, lastn. rewrite app_length, repeat_length.
  replace (p + length h - p)%nat with (length h) by lia.
  rewrite skipn_app, repeat_length.
  replace (length h - p)%nat with 0%nat by lia. cbn [skipn]. f_equal.
  replace p with (length h + (p - length h))%nat at 1 by lia.
  rewrite repeat_app, skipn_app, repeat_length.
  rewrite skipn_all2 by (rewrite repeat_length; lia).
  replace (length h - length h)%nat with 0%nat by lia. reflexivity.
Qed.

Lemma In_lastn_padded pad p h y : In y (lastn p (padded pad p h)) -> In y (lastn p h) \/ (y = pad /\ (length h < p)%nat).
Proof.
  intros H. destruct (Nat.le_gt_cases p (length h)) as [Hle|Hgt].
  - rewrite lastn_padded_full in H by exact Hle. left; exact H.
  - rewrite lastn_padded_warm in H by lia. apply in_app_or in H as [H|H].
    + apply repeat_spec in H. right; split; [exact H|exact Hgt].
    + left. rewrite lastn_all by lia. exact H.
Qed.

Lemma In_lastn_padded_r pad p h y : In y (lastn p h) -> In y (lastn p (padded pad p h)).
Proof.
  intros H. destruct (Nat.le_gt_cases p (length h)) as [Hle|Hgt].
  - rewrite lastn_padded_full by exact Hle. exact H.
  - rewrite lastn_padded_warm by lia. apply in_or_app. right. rewrite lastn_all in H by lia. exact H.
Qed.

End Padded.
