# C08 — Flat or zero-flow windows give finite, neutral outputs — never NaN or garbage
from props.util import *

rule = ("all 22 indicators, periods 1..8 (thorough: sampled to 64): an active prefix of 0, n or 3n random bars/prices followed by a flat stretch "
        "(all four prices equal to the level; volume 0 or constant) of length 1..24 (quick) / 1..64 and sampled to 5000 (thorough) at levels "
        "{1e-3, 1, 37.3, 1e6}; at every step inside the stretch at which the reference window is degenerate (the last n, or n+1 for the differencing "
        "ones, inputs are all the flat level) the output must be finite, inside the documented range, and the neutral value where one is defined "
        "(FAST 50, CCI 0, ROC 0, TR 0 exactly; MAD <= tau*M, SD <= sqrt(tau)*M, Bollinger half-width likewise). All runs also compared bit-exactly "
        "with the float model. Plus flat stretches of 900..5400 equal inputs (periods 1..14) for the EMA-based indicators: long enough for the "
        "exponential averages to underflow. For odd periods the 3n-activity case also runs with a reset() between the activity and the flat stretches. Known findings K3-K6 (ER, RSI, MFI, CCI) are classified by (indicator, kind of failure). Non-trivial: distinct case")
assumptions = ["degeneracy of the reference window is decided by the driver from the inputs it generated (exact float comparisons)"]

LEVELS = [1e-3, 1.0, 37.3, 1e6]
NEED1 = {"ROC", "ER", "MFI", "TR", "ATR", "RSI", "OBV"}      # look one step further back
RANGE = {"RSI": (0, 100), "FAST": (0, 100), "SLOW": (0, 100), "MFI": (0, 100), "ER": (0, 1)}


def gen_cases(ctx):
    r = ctx.rng
    cases = []
    for ind in ALL:
        periods = list(range(1, 9)) if nper(ind) > 0 else [0]
        if ctx.thorough and nper(ind) > 0:
            periods += [r.randint(9, 64) for _ in range(3)]
        for p in periods:
            pp = max(p, 1)
            for mult in (0, 1, 3):
                lvl = r.choice(LEVELS + [r.uniform(1, 100), r.uniform(0.01, 1000), float(r.randint(2, 999)) / 7.0])
                k = nper(ind)
                pr = (p if k >= 1 else 0, r.choice([1, 3]) if k >= 2 else 0, r.choice([1, 2]) if k >= 3 else 0, 2.0 if ind in HAS_MULT else 0.0)
                npre = mult * pp
                flen = r.randint(pp + 2, pp + 24) if not ctx.thorough else r.choice([pp + 2, pp + 40, r.randint(pp + 2, 64 + pp), 1200 if p <= 3 else pp + 64])
                bars = ind in NO_SCALAR or r.random() < 0.4
                vol = r.choice([0.0, 5.0])
                if bars:
                    pre = [("b", 0) + b for b in bar_stream(r, npre, r.choice(["walk", "segments", "gaps"]), p=pp)]
                else:
                    pre = [("n", 0, x * lvl) for x in scalar_stream(r, npre, r.choice(["walk", "uniform", "ties", "segments"]), p=pp, positive=True)]
                # several flat stretches at different levels one after the other: each is "a flat stretch after earlier activity"
                stretches = []
                fl = []
                start = npre
                for si in range(3 if flen <= 200 else 1):
                    l_ = lvl if si == 0 else r.choice([r.uniform(1, 100), r.uniform(0.01, 1000), float(r.randint(2, 999)) / 7.0, r.choice(LEVELS)])
                    fl += [("b", 0, l_, l_, l_, l_, vol)] * flen if bars else [("n", 0, l_)] * flen
                    stretches.append((start, flen, l_))
                    start += flen
                cases.append(Case("%s_p%d_pre%d_%d" % (ind, p, mult, len(cases)), [new_op(0, ind, pr)] + pre + fl, dump=(),
                                  meta={"ind": ind, "p": pp, "npre": npre, "flen": flen, "lvl": lvl, "bars": bars, "vol": vol, "stretches": stretches}))
                if mult == 3 and p % 2 == 1 and flen <= 200:
                    # the same history, but the instance is reset() between the activity and the flat stretches: a flat window after a
                    # reset is a flat window (stale buffers / sums must not leak into it); op indices after the reset shift by one
                    cases.append(Case("%s_p%d_pre%d_%d_rs" % (ind, p, mult, len(cases)), [new_op(0, ind, pr)] + pre + [("r", 0)] + fl, dump=(),
                                      meta={"ind": ind, "p": pp, "npre": npre, "flen": flen, "lvl": lvl, "bars": bars, "vol": vol,
                                            "stretches": [(a + 1, b, c_) for (a, b, c_) in stretches], "reset": True}))
    # seed-independent: activity a million times above the flat level, then reset(), then the flat stretch — whatever a reset leaves
    # behind (a running mean, a buffer, a sum) shows as a residue on the flat window of the instance's new life
    for ind in ALL:
        if nper(ind) == 0:
            continue
        for p in (2, 3, 5):
            for lvl in (4.3, 37.3, 0.7):
                k = nper(ind)
                pr = (p, 3 if k >= 2 else 0, 2 if k >= 3 else 0, 2.0 if ind in HAS_MULT else 0.0)
                hi = [1e6 * lvl * (1.0 + 0.1 * i) for i in range(2 * p + 3)]
                bars = ind in NO_SCALAR
                flen = p + 12
                if bars:
                    pre = [("b", 0, v, v * 1.01, v * 0.99, v, 7.0) for v in hi]
                    fl = [("b", 0, lvl, lvl, lvl, lvl, 5.0)] * flen
                else:
                    pre = [("n", 0, v) for v in hi]
                    fl = [("n", 0, lvl)] * flen
                cases.append(Case("RS_%s_p%d_%g" % (ind, p, lvl), [new_op(0, ind, pr)] + pre + [("r", 0)] + fl, dump=(),
                                  meta={"ind": ind, "p": p, "npre": len(pre), "flen": flen, "lvl": lvl, "bars": bars, "vol": 5.0,
                                        "stretches": [(len(pre) + 1, flen, lvl)], "reset": True}))
    # seed-independent long runs (code that only executes every 2^10 / 2^12 updates, or assumes a full window when it does):
    # 4200 active inputs then flat; a fresh flat stream of 1100 inputs under a period of 1500; 1010 active inputs, reset(), flat
    for ind in ALL:
        if nper(ind) == 0:
            continue
        bars = ind in NO_SCALAR
        k = nper(ind)
        for fam, p, npre, flen, rs in (("la", 5, 4200, 17, False), ("bp", 1500, 0, 1100, False), ("lr", 20, 1010, 40, True)):
            pr = (p, 3 if k >= 2 else 0, 2 if k >= 3 else 0, 2.0 if ind in HAS_MULT else 0.0)
            pre = long_feed(ind, npre)
            lvl = 42.0
            fl = [("b", 0, lvl, lvl, lvl, lvl, 5.0)] * flen if bars else [("n", 0, lvl)] * flen
            mid = [("r", 0)] if rs else []
            cases.append(Case("LONG_%s_%s" % (fam, ind), [new_op(0, ind, pr)] + pre + mid + fl, dump=(),
                              meta={"ind": ind, "p": p, "npre": npre, "flen": flen, "lvl": lvl, "bars": bars, "vol": 5.0,
                                    "stretches": [(npre + len(mid), flen, lvl)], "reset": rs}))
    # flat stretches long enough for the exponential averages to underflow (the 0.1 seeds of RSI reach the subnormals after
    # ~700 (n=2) ... ~5000 (n=14) equal inputs): from fresh and after activity
    for ind in ("RSI", "EMA", "SLOW", "MACD", "PPO", "ATR", "KC"):
        for p, flen in [(1, 40), (2, 900), (3, 1300), (4, 1700), (6, 2400), (14, 5400)]:
            if flen > 2500 and ind != "RSI" and not ctx.thorough:
                continue
            for npre in (0, 5):
                k = nper(ind)
                pr = (p if k >= 1 else 0, p if k >= 2 else 0, 2 if k >= 3 else 0, 2.0 if ind in HAS_MULT else 0.0)
                lvl = r.choice([7.0, 37.3, 0.01, 1e6])
                pre = [("n", 0, x * lvl) for x in scalar_stream(r, npre, "walk", p=p, positive=True)]
                fl = [("n", 0, lvl)] * flen
                cases.append(Case("L_%s_p%d_pre%d" % (ind, p, npre), [new_op(0, ind, pr)] + pre + fl, dump=(),
                                  meta={"ind": ind, "p": p, "npre": npre, "flen": flen, "lvl": lvl, "bars": False, "vol": 0.0,
                                        "stretches": [(npre, flen, lvl)]}))
    return cases


def nontrivial(c):
    return True


def tau(t):
    return 1e-12 + 1e-15 * t ** 1.5


def check_impl(ctx, cases):
    import math
    out = []
    nchk = 0
    for c in cases:
        ind, p, npre, flen, lvl = c.meta["ind"], c.meta["p"], c.meta["npre"], c.meta["flen"], c.meta["lvl"]
        need = p + (1 if ind in NEED1 else 0)
        if ind in ("SLOW", "MACD", "PPO", "KC", "CE", "ATR", "EMA"):
            need = None      # recursive averages: only finiteness / range is required
        vals = []
        for o in c.ops[1:]:
            if o[0] == "r":
                vals = []        # a reset starts a new life: the largest magnitude seen restarts with it
                continue
            vals += [abs(x) for x in (o[2:3] if o[0] == "n" else o[3:6])]
        M = max(vals + [1e-300])
        for (sstart, slen, lvl), j in [(st_, j_) for st_ in c.meta["stretches"] for j_ in range(st_[1])]:
            npre = sstart
            t = npre + j + 1
            degenerate = (j + 1 >= (need or 1))
            # a stretch that starts the instance's life (fresh, or right after a reset): every input so far is the level, so the
            # window is flat from the start, whatever the period
            life_start = (sstart == 0) or (sstart >= 1 and c.ops[sstart][0] == "r")
            if life_start and need is not None and j + 1 >= (2 if ind in NEED1 else 1):
                degenerate = True
            if not degenerate:
                continue
            v = f_of(c.obs[t])
            if v is None:
                continue
            nchk += 1
            bad = None
            kind = None
            if any(x != x or abs(x) == float("inf") for x in v):
                bad, kind = "returns %s (not finite)" % v, "nan"
            elif ind in RANGE and not (RANGE[ind][0] - 1e-9 <= v[0] <= RANGE[ind][1] + 1e-9):
                bad, kind = "returns %r outside %s" % (v[0], RANGE[ind]), "garbage"
            elif need is not None:
                if ind == "FAST" and v[0] != 50.0:
                    bad, kind = "returns %r, neutral value is 50" % v[0], "garbage"
                elif ind in ("CCI", "ROC", "TR") and v[0] != 0.0:
                    bad, kind = "returns %r, neutral value is 0" % v[0], "garbage"
                elif ind == "MAD" and abs(v[0]) > tau(t) * M:
                    bad, kind = "returns %r > tau*M" % v[0], "garbage"
                elif ind == "SD" and abs(v[0]) > math.sqrt(tau(t)) * M:
                    bad, kind = "returns %r > sqrt(tau)*M" % v[0], "garbage"
                elif ind == "BB" and max(abs(v[1] - v[0]), abs(v[0] - v[2])) > math.sqrt(tau(t)) * M * 2.0:
                    bad, kind = "bands %s do not collapse onto the average" % v, "garbage"
                elif ind == "MFI" and c.meta["bars"]:
                    pass
            if bad:
                key = {"indicator": ind, "class": "degenerate-window", "kind": kind}
                if ind == "RSI":
                    # K4 is specific: with n <= 3 the decay factor 1 - 2/(n+1) is at most 1/2, so the two averages reach exactly 0;
                    # from n = 4 on they stick at the smallest subnormal and the ratio stays 50: a NaN there is a different failure
                    key["periods"] = "n<=3" if p <= 3 else "n>=4"
                out.append(Violation("%s(%d) on a flat window (level %g, %d flat inputs after %d active ones) %s" % (ind, p, lvl, j + 1, npre, bad),
                                     case=Case(c.cid + "_cut", c.ops[:t + 1], dump=(), meta=c.meta), finding_key=key))
                break
    ctx.stats["degenerate_window_checks"] = nchk
    # report each (indicator, kind) once
    seen = set()
    uniq = []
    for v in out:
        k = (v.finding_key["indicator"], v.finding_key["kind"], v.finding_key.get("periods"))
        if k not in seen:
            seen.add(k)
            uniq.append(v)
    return uniq
