(* FastStochastic (scalar path) forgets EXACTLY in every number type whose comparison totally orders the inputs: the last output is
   stoch(last input, window minimum, window maximum) and Minimum / Maximum forget (ForgetProofs / Forget2). Instantiated for binary64
   (inputs free of NaN and -0.0): bit-identical outputs. *)
From Coq Require Import List NArith Lia.
From TA Require Import Base Model XR Proofs.Prims Proofs.WF Proofs.Ring Proofs.GenericProofs Proofs.MinMaxProofs Proofs.ForgetProofs Proofs.Forget2
  Proofs.Wiring Proofs.Osc Proofs.XFast Proofs.ResetLift.
Import ListNotations.
Open Scope N_scope.

Section G.
Context {F : Type} (O : Ops F).

Lemma last_map3 {A B C D} (f : A -> B -> C -> D) a b c da db dc dd : a <> [] -> length b = length a -> length c = length a ->
  last (map3 f a b c) dd = f (last a da) (last b db) (last c dc).
Proof.
  intros Ha Lb Lc.
  assert (Hb : b <> []) by (intros E; rewrite E in Lb; destruct a; [congruence|discriminate]).
  assert (Hc : c <> []) by (intros E; rewrite E in Lc; destruct a; [congruence|discriminate]).
  assert (Lm : length (map3 f a b c) = length a) by (apply map3_length; assumption).
  assert (Hm : map3 f a b c <> []) by (intros E; rewrite E in Lm; destruct a; [congruence|discriminate]).
  rewrite (last_nth _ dd Hm), (last_nth a da Ha), (last_nth b db Hb), (last_nth c dc Hc), Lm, Lb, Lc.
  apply map3_nth; try assumption. destruct a; [congruence|cbn; lia].
Qed.

Theorem gfast_forgets : forall (P : F -> Prop) p s (h1 h2 : list F) d,
  order_on (ltb O) (inf O) P -> order_on (fun a b => ltb O b a) (ninf O) P ->
  fast_new O p = Ok s -> Forall P h1 -> Forall P h2 -> h1 <> [] -> h2 <> [] ->
  lastn (N.to_nat p) h1 = lastn (N.to_nat p) h2 ->
  last (fast_outs O s h1) d = last (fast_outs O s h2) d.
Proof.
  intros P p s h1 h2 d OR1 OR2 H P1 P2 N1 N2 E. unfold fast_new in H.
  destruct (min_new O p) as [mn0| |] eqn:Emn; cbn in H; try discriminate.
  destruct (max_new O p) as [mx0| |] eqn:Emx; cbn in H; try discriminate. injection H as <-.
  pose proof (min_new_inv O p mn0 Emn) as (Hp0 & Hpa & _ & _).
  rewrite min_new_ok in Emn by assumption. injection Emn as <-.
  rewrite max_new_ok in Emx by assumption. injection Emx as <-.
  assert (Hp : 0 < p) by lia.
  rewrite !fast_wiring, !min_outs_res, !max_outs_res.
  destruct (min_least O P OR1 p 0 0 h1 Hp Hpa ltac:(lia) ltac:(lia) P1) as [La1 _].
  destruct (min_least O P OR1 p 0 0 h2 Hp Hpa ltac:(lia) ltac:(lia) P2) as [La2 _].
  destruct (max_greatest O P p 0 0 h1 OR2 Hp Hpa ltac:(lia) ltac:(lia) P1) as [Lb1 _].
  destruct (max_greatest O P p 0 0 h2 OR2 Hp Hpa ltac:(lia) ltac:(lia) P2) as [Lb2 _].
  rewrite (last_map3 _ h1 _ _ d (inf O) (ninf O) d N1 La1 Lb1), (last_map3 _ h2 _ _ d (inf O) (ninf O) d N2 La2 Lb2).
  rewrite (min_forgets F O P p h1 h2 OR1 Hp Hpa P1 P2 N1 N2 E), (max_forgets F O P p h1 h2 OR2 Hp Hpa P1 P2 N1 N2 E).
  assert (Hp1 : (1 <= N.to_nat p)%nat) by lia.
  rewrite <- (last_lastn (N.to_nat p) h1 d Hp1 N1), <- (last_lastn (N.to_nat p) h2 d Hp1 N2), E. reflexivity.
Qed.
End G.

From TA Require Import FloatInst Proofs.FloatOrder.
Theorem fast_forgets_binary64 : forall p s (h1 h2 : list PrimFloat.float) d, fast_new FOps p = Ok s ->
  Forall okF h1 -> Forall okF h2 -> h1 <> [] -> h2 <> [] -> lastn (N.to_nat p) h1 = lastn (N.to_nat p) h2 ->
  last (fast_outs FOps s h1) d = last (fast_outs FOps s h2) d.
Proof. intros p s h1 h2 d. exact (gfast_forgets FOps okF p s h1 h2 d float_order_min float_order_max). Qed.
