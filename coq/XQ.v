(* XQ.v — the exact, executable instance of [Ops]: extended rationals with the IEEE case tables
   (inf - inf = NaN, x/0 = +-inf or NaN, comparisons with NaN false) and no rounding.
   [sqrt] is the identity: it is used by the crate only in StandardDeviation's output expression
   (never fed back into state), so the exact instance returns *variances* where the crate returns
   standard deviations; the tolerance predicates compare squares, as the properties prescribe. *)
From Coq Require Import QArith Qabs Floats SpecFloat.
From TA Require Import Base.
Open Scope Q_scope.

Inductive XQ := QFin (q : Q) | QPInf | QNInf | QNaN.

Definition qr (q : Q) : XQ := QFin (Qred q).

Definition sgn (q : Q) : comparison := (Qnum q ?= 0)%Z.

Definition xq_neg (a : XQ) : XQ :=
  match a with QFin q => QFin (Qopp q) | QPInf => QNInf | QNInf => QPInf | QNaN => QNaN end.

Definition xq_add (a b : XQ) : XQ :=
  match a, b with
  | QNaN, _ | _, QNaN => QNaN
  | QFin x, QFin y => qr (x + y)
  | QPInf, QNInf | QNInf, QPInf => QNaN
  | QPInf, _ | _, QPInf => QPInf
  | QNInf, _ | _, QNInf => QNInf
  end.

Definition xq_sub (a b : XQ) : XQ := xq_add a (xq_neg b).

Definition inf_of (c : comparison) : XQ := match c with Gt => QPInf | Lt => QNInf | Eq => QNaN end.
Definition cmul (a b : comparison) : comparison :=
  match a, b with Eq, _ | _, Eq => Eq | Gt, Gt | Lt, Lt => Gt | _, _ => Lt end.
Definition xsgn (a : XQ) : comparison :=
  match a with QFin q => sgn q | QPInf => Gt | QNInf => Lt | QNaN => Eq end.

Definition xq_mul (a b : XQ) : XQ :=
  match a, b with
  | QNaN, _ | _, QNaN => QNaN
  | QFin x, QFin y => qr (x * y)
  | _, _ => inf_of (cmul (xsgn a) (xsgn b))
  end.

Definition xq_div (a b : XQ) : XQ :=
  match a, b with
  | QNaN, _ | _, QNaN => QNaN
  | QFin x, QFin y => match sgn y with
                      | Eq => inf_of (sgn x)                (* x/0: +-inf, 0/0: NaN (no signed zero) *)
                      | _ => qr (x / y) end
  | QFin _, _ => QFin 0
  | _, QFin y => match sgn y with Eq => a | s => inf_of (cmul (xsgn a) s) end
  | _, _ => QNaN
  end.

Definition xq_abs (a : XQ) : XQ :=
  match a with QFin q => QFin (Qabs q) | QPInf | QNInf => QPInf | QNaN => QNaN end.

Definition xq_ltb (a b : XQ) : bool :=
  match a, b with
  | QNaN, _ | _, QNaN => false
  | QFin x, QFin y => match x ?= y with Lt => true | _ => false end
  | QNInf, QNInf | QPInf, _ | _, QNInf => false
  | _, _ => true
  end.

Definition xq_eqb (a b : XQ) : bool :=
  match a, b with
  | QFin x, QFin y => Qeq_bool x y
  | QPInf, QPInf | QNInf, QNInf => true
  | _, _ => false end.

Definition xq_leb (a b : XQ) : bool := xq_ltb a b || xq_eqb a b.

Definition xq_sign_pos (a : XQ) : bool :=
  match a with QFin q => match sgn q with Lt => false | _ => true end | QNInf => false | _ => true end.

Definition XQOps : Ops XQ := {|
  zero := QFin 0; one := QFin 1; two := QFin 2; three := QFin 3; c100 := QFin 100; c50 := QFin 50;
  c0_1 := QFin (1 # 10); c0_015 := QFin (3 # 200);
  inf := QPInf; ninf := QNInf;
  add := xq_add; sub := xq_sub; mul := xq_mul; div := xq_div;
  sqrt := fun x => x; abs := xq_abs; neg := xq_neg;
  ltb := xq_ltb; leb := xq_leb; eqb := xq_eqb;
  ofN := fun n => QFin (Z.of_N n # 1);
  is_sign_positive := xq_sign_pos
|}.

(* exact value of a binary64 *)
Definition f2xq (x : float) : XQ :=
  match Prim2SF x with
  | S754_zero _ => QFin 0
  | S754_infinity s => if s then QNInf else QPInf
  | S754_nan => QNaN
  | S754_finite s m e =>
      let v := match e with
               | Z0 => Zpos m # 1
               | Zpos p => (Zpos m * Z.pow_pos 2 p) # 1
               | Zneg p => Zpos m # (Pos.shiftl 1 (Npos p)) end in
      qr (if s then Qopp v else v)
  end.
