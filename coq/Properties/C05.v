(* C05 — Clones and separate instances are independent and deterministic.
   Statements only; proofs in Proofs/RunProofs.v.  The store maps instance ids to states; every
   operation addresses one instance.  (These facts hold of any pure model; their content is the
   correspondence check, which runs the same interleavings on the real crate, also from 16 threads.) *)
From TA Require Import Base Model Generic Proofs.RunProofs.

(* operations on other instances never change instance i *)
Theorem C05_frame : forall (F : Type) (O : Ops F) (ops : list (@op F)) (st : @store F) (i : nat),
  Forall (fun o => writes o <> Some i) ops -> sget (fst (run O st ops)) i = sget st i.
Proof. exact (@frame). Qed.

(* a clone starts from exactly the source's state and taking it leaves the source unchanged *)
Theorem C05_clone_agrees : forall (F : Type) (O : Ops F) (st : @store F) (s d : nat),
  sget st s <> None ->
  sget (fst (step O st (OClone s d))) d = sget st s /\
  (s <> d -> sget (fst (step O st (OClone s d))) s = sget st s).
Proof. exact (@clone_agrees). Qed.

(* any interleaving with operations on other instances is invisible: what instance i observes in
   the interleaved run is what it observes when fed its own sub-sequence alone *)
Theorem C05_interleaving_invisible : forall (F : Type) (O : Ops F) (ops : list (@op F)) (st st' : @store F) (i : nat),
  sget st i = sget st' i ->
  Forall (fun o => is_clone o = false) ops ->
  obs_of i ops (snd (run O st ops)) = snd (run O st' (filter (targets i) ops)) /\
  sget (fst (run O st ops)) i = sget (fst (run O st' (filter (targets i) ops))) i.
Proof. exact (@interleaving_invisible). Qed.

(* equal state + equal history => equal observations, whatever else the stores contain *)
Theorem C05_determinism : forall (F : Type) (O : Ops F) (ops : list (@op F)) (st st' : @store F) (i : nat),
  sget st i = sget st' i -> Forall (fun o => is_clone o = false) ops ->
  obs_of i ops (snd (run O st ops)) = obs_of i ops (snd (run O st' ops)).
Proof. exact (@determinism). Qed.
