(* FastStochastic on binary64 stays in [0,100] with NO rounding slack: rounding to nearest is monotone and 0, 1, 100 are
   floats, so 100 * ((x - lo) / (hi - lo)) computed in binary64 cannot leave [0,100] when lo <= x <= hi. *)
From Coq Require Import Reals Lra Lia ZArith List Floats.
From Flocq Require Import Core BinarySingleNaN PrimFloat Plus_error.
From TA Require Import Base Model FloatInst Proofs.FloatErr Proofs.FloatSma Proofs.FloatEma Proofs.FloatSd.
Import ListNotations.
Open Scope R_scope.
Local Notation O := FOps.
Local Notation float := PrimFloat.float.
Local Notation fexp := (SpecFloat.fexp prec emax).
Local Notation RN := (round radix2 fexp (round_mode mode_NE)).

Lemma RN_le a b : a <= b -> RN a <= RN b.
Proof. intros H. apply round_le; [apply (fexp_correct prec emax Hprec)|apply valid_rnd_round_mode|exact H]. Qed.

Lemma RN_le_fmt r y : generic_format radix2 fexp y -> r <= y -> RN r <= y.
Proof. intros G H. apply round_le_generic; [apply (fexp_correct prec emax Hprec)|apply valid_rnd_round_mode|exact G|exact H]. Qed.

Lemma fmt_one : generic_format radix2 fexp 1.
Proof. change 1 with (bpow radix2 0). apply generic_format_bpow. unfold SpecFloat.fexp, SpecFloat.emin. cbn. lia. Qed.
Lemma fmt_100 : generic_format radix2 fexp 100.
Proof.
  replace 100 with (F2R (Float radix2 25 2)) by (unfold F2R; cbn; lra). apply generic_format_F2R. intros _.
  unfold cexp, SpecFloat.fexp, SpecFloat.emin. 
  assert (Hm : (mag radix2 (F2R (Float radix2 25 2)) <= 7)%Z).
  { apply mag_le_bpow; [unfold F2R; cbn; lra|]. unfold F2R. cbn. rewrite Rabs_pos_eq; lra. }
  change prec with 53%Z. change emax with 1024%Z. lia.
Qed.

(* exact subtraction facts: the float difference is RN of the real difference, when it does not overflow *)
Lemma fsub_exact a b : finF a -> finF b -> Rabs (FR a - FR b) <= BIG ->
  finF (a - b)%float /\ FR (a - b)%float = RN (FR a - FR b).
Proof.
  intros Fa Fb Hb. unfold finF, FR in *. rewrite sub_equiv.
  pose proof (Bminus_correct prec emax Hprec Hmax mode_NE (Prim2B a) (Prim2B b) Fa Fb) as H.
  rewrite (RN_lt_emax _ Hb) in H. destruct H as (E & Fin & _). split; assumption.
Qed.
Lemma fdiv_exact a b : finF a -> FR b <> 0 -> Rabs (FR a / FR b) <= BIG ->
  finF (a / b)%float /\ FR (a / b)%float = RN (FR a / FR b).
Proof.
  intros Fa Nb Hb. unfold finF, FR in *. rewrite div_equiv.
  pose proof (Bdiv_correct prec emax Hprec Hmax mode_NE (Prim2B a) (Prim2B b) Nb) as H.
  rewrite (RN_lt_emax _ Hb) in H. destruct H as (E & Fin & _). split; [rewrite Fin; exact Fa|exact E].
Qed.
Lemma fmul_exact a b : finF a -> finF b -> Rabs (FR a * FR b) <= BIG ->
  finF (a * b)%float /\ FR (a * b)%float = RN (FR a * FR b).
Proof.
  intros Fa Fb Hb. unfold finF, FR in *. rewrite mul_equiv.
  pose proof (Bmult_correct prec emax Hprec Hmax mode_NE (Prim2B a) (Prim2B b)) as H.
  rewrite (RN_lt_emax _ Hb) in H. destruct H as (E & Fin & _). split; [rewrite Fin, Fa, Fb; reflexivity|exact E].
Qed.

Lemma FR_100 : FR 100%float = 100. Proof. unfold FR. cbn. unfold F2R. cbn. lra. Qed.
Lemma FR_50 : FR 50%float = 50. Proof. unfold FR. cbn. unfold F2R. cbn. lra. Qed.

Lemma FR_fmt x : generic_format radix2 fexp (FR x).
Proof. unfold FR. apply generic_format_B2R. Qed.

(* the formula itself *)
Theorem stoch_range (x lo hi : float) : finF x -> finF lo -> finF hi ->
  FR lo <= FR x <= FR hi -> Rabs (FR x) <= BIG / 4 -> Rabs (FR lo) <= BIG / 4 -> Rabs (FR hi) <= BIG / 4 ->
  let o := (if (lo =? hi)%float then 50 else (x - lo) / (hi - lo) * 100)%float in
  finF o /\ 0 <= FR o <= 100.
Proof.
  intros Fx Fl Fh [Hlx Hxh] Bx Bl Bh o. unfold o. rewrite eqb_equiv. unfold finF in Fl, Fh. rewrite Beqb_correct by assumption.
  fold (FR lo) (FR hi). pose proof BIG_ge as HB.
  destruct (Req_bool_spec (FR lo) (FR hi)) as [Heq|Hne].
  - split; [reflexivity|]. rewrite FR_50. lra.
  - assert (Hlt : FR lo < FR hi) by lra.
    assert (T1 : Rabs (FR x - FR lo) <= BIG) by (eapply Rle_trans; [apply Rabs_triang|]; rewrite Rabs_Ropp; lra).
    assert (T2 : Rabs (FR hi - FR lo) <= BIG) by (eapply Rle_trans; [apply Rabs_triang|]; rewrite Rabs_Ropp; lra).
    destruct (fsub_exact x lo Fx Fl T1) as [Fa Ea]. destruct (fsub_exact hi lo Fh Fl T2) as [Fb Eb].
    set (a := (x - lo)%float) in *. set (b := (hi - lo)%float) in *.
    assert (Ha0 : 0 <= FR a) by (rewrite Ea; apply RN_nonneg; lra).
    assert (Hab : FR a <= FR b) by (rewrite Ea, Eb; apply RN_le; lra).
    assert (Hb0 : FR b <> 0).
    { rewrite Eb. unfold Rminus.
      apply (@round_plus_neq_0 radix2 fexp (fexp_correct prec emax Hprec) (@monotone_exp_not_FTZ fexp (fexp_correct prec emax Hprec) (fexp_monotone prec emax)) (round_mode mode_NE) (valid_rnd_round_mode mode_NE)).
      - apply FR_fmt. - apply generic_format_opp, FR_fmt. - lra. }
    assert (Hbpos : 0 < FR b) by lra.
    assert (Hq1 : 0 <= FR a / FR b <= 1).
    { split; [apply Rmult_le_pos; [exact Ha0|apply Rlt_le, Rinv_0_lt_compat; exact Hbpos]|].
      apply Rmult_le_reg_r with (FR b); [exact Hbpos|]. unfold Rdiv. rewrite Rmult_assoc, Rinv_l by lra. lra. }
    destruct (fdiv_exact a b Fa Hb0) as [Fq Eq]; [rewrite Rabs_pos_eq; lra|].
    set (q := (a / b)%float) in *.
    assert (Hq : 0 <= FR q <= 1) by (rewrite Eq; split; [apply RN_nonneg; lra|apply RN_le_fmt; [exact fmt_one|lra]]).
    destruct (fmul_exact q 100%float Fq ltac:(reflexivity)) as [Fo Eo]; [rewrite FR_100, Rabs_pos_eq; lra|].
    split; [exact Fo|]. rewrite Eo, FR_100. split; [apply RN_nonneg; lra|apply RN_le_fmt; [exact fmt_100|lra]].
Qed.

(* ---- the whole stream: FastStochastic (scalar path) on binary64 ---- *)
From TA Require Import Proofs.Prims Proofs.WF Proofs.Ring Proofs.MinMaxProofs Proofs.Wiring Proofs.Osc Proofs.FloatOrder Proofs.XFast Proofs.ResetLift.
Open Scope R_scope.

Definition inb (x : float) : Prop := okF x /\ finF x /\ Rabs (FR x) <= BIG / 4.

Lemma ltb_false_le (a b : float) : finF a -> finF b -> ltb O a b = false -> FR b <= FR a.
Proof.
  intros Fa Fb H. cbn [ltb O] in H. rewrite ltb_equiv in H. unfold finF in *. rewrite Bltb_correct in H by assumption.
  destruct (Rlt_bool_spec (B2R (Prim2B a)) (B2R (Prim2B b))); [discriminate|assumption].
Qed.

Lemma nth_in_window {A} (xs : list A) k p d : (1 <= p)%nat -> (k < length xs)%nat -> In (nth k xs d) (lastn p (firstn (S k) xs)).
Proof.
  intros Hp Hk. replace (firstn (S k) xs) with (firstn k xs ++ [nth k xs d]).
  - apply lastn_last. exact Hp.
  - clear -Hk. revert k Hk; induction xs as [|x xs IH]; intros k Hk; [cbn in Hk; lia|]. destruct k as [|k]; [reflexivity|].
    cbn [firstn nth app]. f_equal. apply IH. cbn in Hk; lia.
Qed.

Lemma In_firstn' {A} n (l : list A) y : In y (firstn n l) -> In y l.
Proof. revert l; induction n as [|n IH]; intros l H; [destruct H|]. destruct l; [destruct H|]. destruct H as [->|H]; [left; reflexivity|right; apply IH; exact H]. Qed.
Lemma In_skipn' {A} n (l : list A) y : In y (skipn n l) -> In y l.
Proof. revert l; induction n as [|n IH]; intros l H; [exact H|]. destruct l; [destruct H|]. right. apply IH. exact H. Qed.
Lemma in_window_in {A} (xs : list A) k p y : In y (lastn p (firstn (S k) xs)) -> In y xs.
Proof. intros H. unfold lastn in H. apply In_skipn' in H. apply In_firstn' in H. exact H. Qed.

Theorem fast_float_range : forall p s xs, fast_new O p = Ok s -> Forall inb xs ->
  Forall (fun o => finF o /\ 0 <= FR o <= 100) (fast_outs O s xs).
Proof.
  intros p s xs H Hxs. unfold fast_new in H.
  destruct (min_new O p) as [mn0| |] eqn:Emn; cbn in H; try discriminate.
  destruct (max_new O p) as [mx0| |] eqn:Emx; cbn in H; try discriminate. injection H as <-.
  pose proof (min_new_inv O p mn0 Emn) as (Hp0 & Hpa & _ & _).
  rewrite min_new_ok in Emn by assumption. injection Emn as <-.
  rewrite max_new_ok in Emx by assumption. injection Emx as <-.
  assert (Hp : (0 < p)%N) by lia.
  assert (HokF : Forall okF xs) by (eapply Forall_impl; [|exact Hxs]; intros a Ha; apply Ha).
  destruct (min_least O okF float_order_min p 0 0 xs Hp Hpa Hp Hp HokF) as [Lmin Cmin].
  destruct (max_greatest O okF p 0 0 xs float_order_max Hp Hpa Hp Hp HokF) as [Lmax Cmax].
  rewrite fast_wiring, min_outs_res, max_outs_res.
  set (mins := min_outs O _ _) in *. set (maxs := max_outs O _ _) in *.
  apply (Forall_map3 _ _ xs mins maxs 0%float (inf O) (ninf O)); [exact Lmin|exact Lmax|].
  intros k Hk. specialize (Cmin k Hk). specialize (Cmax k Hk).
  set (w := lastn (N.to_nat p) (firstn (S k) xs)) in *.
  assert (Hxk : In (nth k xs 0%float) w) by (apply nth_in_window; [lia|exact Hk]).
  rewrite Forall_forall in Hxs.
  destruct Cmin as [Imn Lmn]. destruct Cmax as [Imx Lmx].
  pose proof (Hxs _ (in_window_in xs k _ _ Imn)) as (_ & Fmn & Bmn).
  pose proof (Hxs _ (in_window_in xs k _ _ Imx)) as (_ & Fmx & Bmx).
  pose proof (Hxs _ (nth_In xs 0%float Hk)) as (_ & Fx & Bx).
  apply stoch_range; try assumption. split.
  - apply ltb_false_le; [exact Fx|exact Fmn|]. apply Lmn. exact Hxk.
  - apply ltb_false_le; [exact Fmx|exact Fx|]. apply Lmx. exact Hxk.
Qed.
