# ./check --replay <file>: re-run the recorded case on the implementation and on the Coq model.
import json
import sys
from common import *  # noqa


def decode(v):
    if isinstance(v, str) and len(v) == 16:
        try:
            return fbits(int(v, 16))
        except ValueError:
            return v
    if isinstance(v, list):
        return [decode(x) for x in v]
    return v


def main(path):
    d = json.load(open(path))
    print("property:", d.get("property"), "| kind:", d.get("kind"))
    print("what:", d.get("what"))
    cj = d.get("case")
    if not cj:
        print("no concrete case recorded (no-failing-input-found); detail:")
        print(json.dumps(d.get("detail"), indent=1)[:4000])
        return 0
    if "generator" in cj:
        # a long generated stream (C13): re-run the twin generators on both sides and re-evaluate the checkpoints
        from gencase import GenCase, run_gen_harness, coq_check_gen
        g = cj["generator"]
        pr = cj["params"]
        gc = GenCase(cj["id"], cj["indicator"], (pr[0], pr[1], pr[2], decode(pr[3])), g["regime"], g["seed"], g["length"], g["a"], g["b"],
                     g["checkpoint_every"], g["bars"], max(pr[0], 1) + 1, meta=cj.get("meta"))
        with Lock():
            ok, log = build_coq()
            b = build_harness()
            run_gen_harness(b, [gc], "replay")
            res = coq_check_gen([gc], "replay")
        x = res[0]
        t2x, t1x = divmod(x, 100000000)
        code, j = divmod(t2x, 1000000)
        print("stream: %s" % cj["ops_readable"][0])
        for k, bits in gc.cps[:8] + ([("...", [])] if len(gc.cps) > 16 else []) + gc.cps[-8:]:
            print("  after %s inputs: impl=%s" % (k, [fbits(v) for v in bits] if bits else ""))
        print("hash of all outputs (impl): %s" % gc.hash)
        print("T1 (bit-exact vs float model; 0 = agreement, 1xxxxxx = checkpoint, 2000000 = hash of all outputs, 4000000 = panic):", t1x)
        print("T2 (impl vs exact from-scratch value of the window at the checkpoints; 0 = within tau(t)*maxmag, 3 = violated at checkpoint j):", code, "j =", j)
        if code == 3 and 0 < j <= len(gc.cps):
            print("  violating checkpoint: after %d inputs, impl=%s" % (gc.cps[j - 1][0], [fbits(v) for v in gc.cps[j - 1][1]]))
        return 0 if x == 0 else 1
    ops = []
    for o in cj["ops"]:
        if o[0] == "build":
            ops.append(("build", [(f, decode(v)) for f, v in o[1]]))
        elif o[0] == "new":
            ops.append(tuple(o[:6]) + (decode(o[6]),))
        elif o[0] in ("n", "b", "i", "j"):
            ops.append((o[0], o[1]) + tuple(decode(v) for v in o[2:]))
        else:
            ops.append(tuple(o))
    slots = sorted({o[1] for o in ops if o[0] not in ("build",) and isinstance(o[1], int)})
    c = Case(cj["id"], ops, dump=tuple(slots))
    with Lock():
        ok, log = build_coq()
        b = build_harness()
        run_harness(b, [c], "replay")
        r = coq_check_cases([c], "replay")
        model = coq_dump_case(c, "replay_dump")
    for i, (o, ob) in enumerate(zip(c.to_json()["ops_readable"], c.obs)):
        m = model[i] if i < len(model) else None
        print("%3d  %-60s impl=%s  model(tag,bits)=%s" % (i + 1, o[:60], ob, m))
    print("T1 result (0 = agreement, k = first differing op, 1000000+j = state image):", r[0])
    return 0 if r[0] == 0 else 1
