(* C08 — Flat or zero-flow windows give finite, neutral outputs — never NaN or garbage. Statements only.
   Proved: the neutral values for the indicators that have them (exact arithmetic; FastStochastic via the order theorems).
   Refuted on the unchanged tree for EfficiencyRatio, RSI, MoneyFlowIndex and CommodityChannelIndex: the witnesses below are
   evaluated on the float instance of the model by vm_compute and replayed on the implementation by the check
   (known findings K3-K6 in /verif/known_findings.json). *)
From Coq Require Import Reals Lra Floats.
From TA Require Import Base Model Generic FloatInst Run XR Proofs.Ring Proofs.XBase Proofs.XSd Proofs.XMad Proofs.Wiring Proofs.Osc Proofs.XFast Proofs.XCor Proofs.XRoc Proofs.XEr Proofs.XMfi.

(* exact arithmetic: on a flat window (any length >= 1, at any point of any history, since outputs depend on the window only)
   MAD = 0, SD = 0, the mean is the level and the Bollinger bands collapse onto it, for every multiplier *)
Theorem C08_flat_window_stats : forall (v : R) (w : list R), w <> [] -> flat v w ->
  madev w = 0%R /\ R_sqrt.sqrt (pvar w) = 0%R /\ mean w = v /\
  (forall mu, (mean w + R_sqrt.sqrt (pvar w) * mu = v)%R /\ (mean w - R_sqrt.sqrt (pvar w) * mu = v)%R).
Proof. intros v w Hne H. destruct (flat_window_stats v w Hne H) as (A & B & C & _ & D). auto. Qed.

(* FastStochastic returns the literal 50 whenever the last min(t,p) prices are all equal *)
Theorem C08_fast_flat_50 : forall p s (xs : list R) k v, fast_new XROps p = Ok s -> (k < length xs)%nat ->
  flat v (lastn (N.to_nat p) (firstn (S k) xs)) -> nth k (fast_outs XROps s (map Fin xs)) XNaN = Fin 50.
Proof.
  intros p s xs k v H Hk Hf. destruct (fast_char p s xs H) as [_ C]. destruct (C k Hk) as (mn & mx & _ & Imn & Imx & E & _).
  rewrite E. rewrite (Hf mn Imn), (Hf mx Imx). destruct (Req_EM_T v v); [reflexivity|congruence].
Qed.

(* TrueRange of an unchanged price is exactly 0 *)
Theorem C08_tr_flat_0 : forall x : R, snd (tr_next XROps (mkTr (Some (Fin x))) (Fin x)) = Fin 0.
Proof. intros x. unfold tr_next. cbn [tr_prev_close snd]. xfin. f_equal. replace (x - x)%R with 0%R by lra. apply Rabs_R0. Qed.

(* RateOfChange returns exactly 0 when the price equals its reference (any flat non-zero level) *)
Theorem C08_roc_flat_0 : forall p h x, roc_ref p h x = x -> x <> 0%R -> roc_spec p h x = Fin 0.
Proof. exact roc_spec_flat. Qed.

(* ... and exactly on binary64: RateOfChange is mul (div (sub x r) r) 100 on the window reference r for every number type
   (C03_roc_any_carrier, C03_roc_stream_def); when r is the same float as the input x (finite, non-zero) — every flat window — the
   result is a finite zero: x - x = +0.0, 0 / x and 0 * 100 round to zero *)
From Coq Require Import Reals Floats.
From TA Require Import FloatInst Proofs.FloatErr Proofs.GRoc Proofs.FloatRocFlat.
Theorem C08_roc_flat_binary64 : forall x : PrimFloat.float, finF x -> FR x <> 0%R ->
  finF (groc_val FOps x x) /\ FR (groc_val FOps x x) = 0%R.
Proof. exact roc_flat_float. Qed.

(* ---- refuted for four indicators (float instance of the model; the same inputs are replayed on the crate) ---- *)

(* K3: EfficiencyRatio on a flat window: volatility 0, 0/0 *)
Theorem C08_K3_er_flat_nan :
  map PrimFloat.is_nan (last_out [oN 0 KEr (Pm 3 0 0 0); oX 0 7; oX 0 7]) = [true].
Proof. vm_compute. reflexivity. Qed.

(* ... and in exact arithmetic, for every period and every flat level: the ratio is 0/0 *)
Theorem C08_K3_er_flat_exact : forall p h x, (forall y, In y (er_path p h x) -> y = x) -> er_spec p h x = XNaN.
Proof. exact er_flat_nan. Qed.

(* K4: RSI(1) at the second equal input: both averages 0 *)
Theorem C08_K4_rsi_flat_nan :
  map PrimFloat.is_nan (last_out [oN 0 KRsi (Pm 1 0 0 0); oX 0 7; oX 0 7]) = [true].
Proof. vm_compute. reflexivity. Qed.

(* K5: MoneyFlowIndex with no money flow in the window (unchanged typical price): 0/0 *)
Theorem C08_K5_mfi_zero_flow_nan :
  map PrimFloat.is_nan (last_out [oN 0 KMfi (Pm 2 0 0 0); oB 0 7 7 7 7 5; oB 0 7 7 7 7 5]) = [true].
Proof. vm_compute. reflexivity. Qed.

(* ... and in exact arithmetic, for every period and history: with no money flow in the window the index is 0/0 *)
Theorem C08_K5_mfi_zero_flow_exact : forall p b0 bs, let w := lastn p (flows (tpr b0) bs) in
  (possum w + negsum w = 0)%R -> mfi_spec p b0 bs = XNaN.
Proof. exact mfi_zero_flow_nan. Qed.

(* K6: CCI on a flat window after activity: cancellation residue in the running sums defeats the `mad == 0` guard *)
Theorem C08_K6_cci_residue :
  map (fun o => PrimFloat.ltb o (-66)%float) (last_out [oN 0 KCci (Pm 2 0 0 0); oB 0 0x1.dbe797425dc72p+5%float 0x1.dc43edf542661p+5%float 0x1.d48553697fea5p+5%float 0x1.d9df91474dde9p+5%float 0x1.b8d5539db1e1fp+12%float; oB 0 0x1.d8330719c8c68p+5%float 0x1.e7d36d8504e15p+5%float 0x1.d144f357efb48p+5%float 0x1.e554d2c86c031p+5%float 0x1p+0%float; oB 0 7 7 7 7 5; oB 0 7 7 7 7 5; oB 0 7 7 7 7 5]) = [true].
Proof. vm_compute. reflexivity. Qed.


(* CCI on a flat window of typical prices: exactly 0 in exact arithmetic (the binary64 residue is K6 above) *)
From TA Require Import Proofs.XBands Proofs.XCci.
Theorem C08_cci_flat_0 : forall p h tp v, flat v (lastn p (h ++ [tp])) -> lastn p (h ++ [tp]) <> [] -> cci_spec p h tp = Fin 0.
Proof. exact cci_flat. Qed.
