# C13 — Incremental accumulators do not drift from recomputation over long streams
from props.util import *
from gencase import GenCase, run_gen_harness, coq_check_gen
from props.C01 import adversary

rule = ("SMA, WMA, SD, BB, MAD, MIN, MAX (scalar streams) and CCI, MFI (bar streams): streams generated identically by the harness and by "
        "the Coq model from a 63-bit xorshift seed (twin generators: uniform, random walk, alternating extremes of the band, spikes, "
        "plateaus, saw-tooth, flat, spikes followed by an almost-flat level) inside a price band [m, 1000m], m in {1e-3, 1, 1e6}, periods {1,2,3,10,100} (quick, 2*10^4 inputs) / "
        "up to 1000 and 2*10^6 inputs (thorough), no reset. At ~40 checkpoints and at the end: bit-exact equality with the float model, "
        "equality of a rolling hash over ALL outputs, and agreement within tau+(t)*maxmag with a fresh exact-rational instance fed only "
        "the current window (from-scratch value). Plus the K7 adversary for WMA (known finding). Non-trivial: distinct case (all are longer "
        "than 100 periods). Plus (quick tier) nine 140000-input streams (code that runs every 2^16 updates), and 600-input streams on the plateau / "
        "almost-flat / flat / alternating regimes, and on tight bands [100, 100.004] / [100, 100.0004] (seed-independent), compared with the exact window value at EVERY step (tau is tightest early)")
assumptions = ["the twin generators use only exact int->float conversions and correctly rounded + - * /; their agreement is itself checked "
               "(a mismatch would show as a T1 failure)",
               "from-scratch value = fresh exact instance on the last period+1 inputs (justified by the finite-memory theorems of C17)"]

SCALAR = ["SMA", "WMA", "SD", "BB", "MAD", "MIN", "MAX"]
BARS = ["CCI", "MFI"]


def run(ctx):
    r = ctx.rng
    cases = []
    n = 20000 if not ctx.thorough else 2000000
    periods = [1, 2, 3, 10, 100] if not ctx.thorough else [1, 2, 3, 10, 100, 1000]
    bands = [1e-3, 1.0, 1e6]
    k = 0
    for ind in SCALAR + BARS:
        for p in periods:
            regimes = list(range(8))
            r.shuffle(regimes)
            chosen = regimes[: (2 if not ctx.thorough else 4)]
            if ind in ("SD", "BB", "CCI"):
                # the clamp / guard paths of the running variance and deviation are reached on plateaus and on almost-flat
                # levels after spikes: always include those regimes (seed-independent coverage)
                chosen = [7, 4] + [g_ for g_ in chosen if g_ not in (7, 4)][:1 if not ctx.thorough else 3]
            for g in chosen:
                m = r.choice(bands)
                length = n
                if ind in ("MAD", "CCI") and p >= 100:
                    length = min(n, (200000 if p < 1000 else 40000) if ctx.thorough else 6000)     # O(period) per step
                if ctx.thorough and p == 1000 and ind not in ("MAD", "CCI"):
                    length = min(n, 400000)
                every = max(1, length // (40 if not (ind in ("MAD", "CCI") and p >= 100) else (6 if p < 1000 else 2)))   # exact recomputation of a MAD window is O(p^2) big-rational operations
                cases.append(GenCase("g%d_%s_p%d_r%d" % (k, ind, p, g), ind, (p, 0, 0, 2.0 if ind == "BB" else 0.0), g,
                                     r.getrandbits(62), length, m, 1000.0 * m, every, (r.choice([1, 1, 2]) if ind in BARS else 0), p + 1,
                                     meta={"ind": ind, "p": p, "regime": g, "band": m, "n": length}))
                k += 1
    # short streams checked at EVERY step (tau(t) is tightest early: a mistake of relative size 1e-8 is a violation only while
    # t^1.5 < 1e4), on the regimes where clamps and guards fire
    for ind in ("SD", "BB", "MAD", "CCI", "MFI"):
        for p in (2, 3, 10):
            for g in (7, 4, 6, 2):
                for rep in range(1 if not ctx.thorough else 4):
                    cases.append(GenCase("d%d_%s_p%d_r%d" % (k, ind, p, g), ind, (p, 0, 0, 2.0 if ind == "BB" else 0.0), g,
                                         r.getrandbits(62), 600, 1.0, 1000.0, 1, (r.choice([1, 1, 2]) if ind in BARS else 0), p + 1,
                                         meta={"ind": ind, "p": p, "regime": g, "band": 1.0, "n": 600, "dense": True}))
                    k += 1
    # tight bands (seed-independent): a non-constant window whose relative spread is 4e-5 / 4e-6 — "noise floor" clamps of the
    # running variance and relative flatness tolerances treat it as flat although sd / tau(t)*level is still > 10^4
    for ind in ("SD", "BB", "MAD", "SMA", "WMA", "CCI"):
        for p, hi in ((5, 100.004), (20, 100.004), (20, 100.0004)):
            for g in (5, 0):
                cases.append(GenCase("t%d_%s_p%d_r%d" % (k, ind, p, g), ind, (p, 0, 0, 2.0 if ind == "BB" else 0.0), g,
                                     1234567 + k, 600, 100.0, hi, 1, (1 if ind in BARS else 0), p + 1,
                                     meta={"ind": ind, "p": p, "regime": g, "band": 100.0, "n": 600, "dense": True, "tight": True}))
                k += 1
    # a few streams well beyond 2^17 inputs in the quick tier too: periodic maintenance code (re-summation every 2^16 updates,
    # counters wrapping at a power of two) only runs there
    if not ctx.thorough:
        for ind, p in [("SMA", 10), ("WMA", 10), ("SD", 10), ("BB", 3), ("MAD", 3), ("MIN", 10), ("MAX", 3), ("CCI", 3), ("MFI", 3)]:
            g = r.choice([0, 1, 3])
            cases.append(GenCase("l%d_%s_p%d_r%d" % (k, ind, p, g), ind, (p, 0, 0, 2.0 if ind == "BB" else 0.0), g,
                                 r.getrandbits(62), 140000, 1.0, 1000.0, 3500, (r.choice([1, 1, 2]) if ind in BARS else 0), p + 1,
                                 meta={"ind": ind, "p": p, "regime": g, "band": 1.0, "n": 140000, "long": True}))
            k += 1
    # K7 (b): the running sums of WMA drift on ordinary long streams too — WMA(2) on the saw-tooth regime in the band [1e6, 1e9]
    # leaves tau after 95 057 inputs (known finding; seed-independent witness)
    cases.append(GenCase("k7b_WMA_p2_r5", "WMA", (2, 0, 0, 0.0), 5, 12345, 140000, 1e6, 1e9, 3500, 0, 3,
                         meta={"ind": "WMA", "p": 2, "regime": 5, "band": 1e6, "n": 140000, "long": True}))
    run_gen_harness(ctx.binary_release or ctx.binary, cases, "C13")
    res = coq_check_gen(cases, "C13", timeout=3000 if not ctx.thorough else 9000)
    viol = []
    t1_bad = []
    for c, x in zip(cases, res):
        t2x, t1x = divmod(x, 100000000)
        if t1x:
            c.result = t1x
            t1_bad.append(c)
        code, j = divmod(t2x, 1000000)
        if code == 3:
            kk = c.cps[j - 1][0] if 0 < j <= len(c.cps) else -1
            # WMA after tens of thousands of inputs without reset: the quadratic drift of its running sums (known finding K7)
            key = {"indicator": "WMA", "class": "long-stream-drift"} if (c.ind == "WMA" and kk >= 50000) else None
            viol.append(Violation("%s(%d) regime %d band [%g, %g]: after %d inputs the output %s leaves tau(t)*maxmag of the from-scratch "
                                  "value of the current window" % (c.ind, c.params[0], c.gen, c.a, c.b, kk, c.cps[j - 1][1] if j else "?"),
                                  case=c, detail={"checkpoint": j}, finding_key=key))
    if t1_bad:
        c = t1_bad[0]
        viol.append(Violation("correspondence T1 on long generated streams fails on %d of %d cases; first: %s (code %d: 1xxxxxx checkpoint, "
                              "2000000 hash of all outputs, 4000000 panic)" % (len(t1_bad), len(cases), c.cid, c.result),
                              case=c, kind="correspondence", detail={"all": [x.cid for x in t1_bad[:40]]}))
    # K7: the WMA adversary (explicit stream)
    from common import run_harness, coq_check_cases
    adv = adversary(1400 if not ctx.thorough else 20000, r)
    k7 = [Case("K7_WMA_adversary", [new_op(0, "WMA", (2, 0, 0, 0.0))] + [("n", 0, x) for x in adv], dump=(), meta={"ind": "WMA", "p": 2}),
          Case("K7_SMA_adversary", [new_op(0, "SMA", (2, 0, 0, 0.0))] + [("n", 0, x) for x in adv], dump=(), meta={"ind": "SMA", "p": 2})]
    saw = []
    for ind_ in ("SMA", "WMA", "SD", "MAD", "BB"):
        for p_, tooth in ((5, 5), (6, 3), (3, 3)):
            xs_ = [float(1 + (t_ % tooth)) for t_ in range(400)]
            saw.append(Case("SAW_%s_p%d_tooth%d" % (ind_, p_, tooth), [new_op(0, ind_, (p_, 0, 0, 2.0 if ind_ == "BB" else 0.0))] + [("n", 0, x) for x in xs_],
                            dump=(), meta={"ind": ind_, "p": p_, "saw": True}))
    k7 = k7 + saw
    run_harness(ctx.binary, k7, "C13k7")
    t1 = coq_check_cases(k7, "C13k7")
    t2 = coq_check_cases(k7, "C13k7t2", checker="check_t2_window", extra_header="From TA Require Import XQ Run2.\n")
    for c, a, b in zip(k7, t1, t2):
        if a:
            viol.append(Violation("correspondence T1 fails on %s at op %d" % (c.cid, a), case=c, kind="correspondence"))
        if b and c.meta.get("saw"):
            viol.append(Violation("%s(%d): on the integer saw-tooth (every input equals the value it evicts) the output after %d inputs leaves tau(t)*maxmag of the exact window value"
                                  % (c.meta["ind"], c.meta["p"], b - 1), case=c))
        elif b:
            key = {"indicator": "WMA", "class": "rounding-aligned-adversary"} if c.meta["ind"] == "WMA" else None
            viol.append(Violation("%s(2): after %d inputs of the rounding-aligned stream the output leaves tau(t)*maxmag of the exact window value"
                                  % (c.meta["ind"], b - 1), case=c, finding_key=key))
    ctx.stats["inputs_total"] = sum(c.length for c in cases)
    ctx.stats["checkpoints_total"] = sum(len(c.cps) for c in cases)
    ctx.stats["regimes"] = sorted({c.gen for c in cases})
    return cases + k7, viol, t1_bad


def nontrivial(c):
    return True
