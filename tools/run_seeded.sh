#!/bin/bash
# runs every seeded change against the quick check of its property on a scratch clone; writes seeded/RESULTS.md
cd "$(dirname "$(readlink -f "$0")")/.."
out=seeded/RESULTS.md
echo "# Seeded changes vs quick checks (tools/run_seeded.sh, $(date -u +%F))" > $out
echo "" >> $out
echo "| change | property | result |" >> $out
echo "|---|---|---|" >> $out
for d in seeded/C*-*; do
  id=$(basename $d); p=${id%%-*}
  r=$(tools/trymut.sh $d/patch.diff $p 2>&1 | grep "^\[$p\]" | sed 's/|/\\|/g' | cut -c1-160)
  echo "| $id | $p | $r |" | tee -a $out
done
rm -rf /tmp/repo_mut
