(* ATR >= 0, KeltnerChannel bands ordered, ChandelierExit inside the window extremes — exact carrier, bars with low <= high. *)
From Coq Require Import Reals Lra Lia.
From TA Require Import Base Model XR Proofs.Prims Proofs.WF Proofs.Ring Proofs.XBase Proofs.MinMaxProofs Proofs.Wiring Proofs.Osc
  Proofs.XEma Proofs.XFast Proofs.XRsi.
Open Scope R_scope.
Local Notation O := XROps.

(* a bar with finite prices (open and volume are not read by these indicators) *)
Definition rbar := (R * R * R)%type.   (* (high, low, close) *)
Definition mkb (b : rbar) : Bar XR := let '(h, l, c) := b in mkBar (Fin 0) (Fin h) (Fin l) (Fin c) (Fin 0).
Definition valid (b : rbar) : Prop := let '(h, l, _) := b in l <= h.

Lemma tr_bar_outs_fin : forall bars t, Forall valid bars ->
  (match tr_prev_close t with Some (Fin _) | None => True | _ => False end) ->
  exists rs, tr_bar_outs O t (map mkb bars) = map Fin rs /\ length rs = length bars /\ forall r, In r rs -> 0 <= r.
Proof.
  induction bars as [|[[h l] c] bars IH]; intros t Hv Ht; [exists []; repeat split; intros r []|].
  inversion Hv as [|? ? Hb Hbs]; subst. cbn in Hb.
  destruct (tr_bar_nonneg t h l c Hb Ht) as (r & Er & Hr).
  cbn [map tr_bar_outs mkb]. destruct (tr_next_bar O t _) as [t' o] eqn:E. cbn [snd] in Er. subst o.
  assert (Ht' : tr_prev_close t' = Some (Fin c)).
  { unfold tr_next_bar in E. injection E as <- _. reflexivity. }
  destruct (IH t' Hbs ltac:(rewrite Ht'; exact I)) as (rs & Ers & Lrs & Hrs).
  exists (r :: rs). cbn [map length]. rewrite Ers. repeat split; [lia|].
  intros y [<-|Hy]; [exact Hr|apply Hrs; exact Hy].
Qed.

Theorem atr_bar_nonneg : forall p a bars, atr_new O p = Ok a -> Forall valid bars ->
  exists rs, atr_bar_outs O a (map mkb bars) = map Fin rs /\ length rs = length bars /\ forall r, In r rs -> 0 <= r.
Proof.
  intros p a bars H Hv. unfold atr_new in H. destruct (ema_new O p) as [e| |] eqn:Ee; cbn in H; try discriminate.
  injection H as <-. rewrite atr_bar_wiring.
  destruct (tr_bar_outs_fin bars tr_new Hv I) as (ts & Ets & Lts & Hts). rewrite Ets.
  destruct (ema_outs_nonneg p e ts Ee Hts) as (rs & Ers & Lrs & Hrs). exists rs. rewrite Ers. repeat split; [lia|exact Hrs].
Qed.

(* KeltnerChannel fed bars: lower <= average <= upper for every finite multiplier >= 0 *)
Theorem kc_bar_ordered : forall p mu k bars, kc_new O p (Fin mu) = Ok k -> 0 <= mu -> Forall valid bars ->
  Forall (fun o => exists a u l, o = [Fin a; Fin u; Fin l] /\ l <= a <= u) (kc_bar_outs O k (map mkb bars)).
Proof.
  intros p mu k bars H Hmu Hv. unfold kc_new in H.
  destruct (atr_new O p) as [a| |] eqn:Ea; cbn in H; try discriminate.
  destruct (ema_new O p) as [e| |] eqn:Ee; cbn in H; try discriminate. injection H as <-.
  rewrite kc_bar_wiring.
  destruct (atr_bar_nonneg p a bars Ea Hv) as (ats & Eat & Lat & Hat). rewrite Eat.
  assert (Etp : map (typical O) (map mkb bars) = map Fin (map (fun b : rbar => let '(h, l, c) := b in (c + h + l) / 3) bars)).
  { rewrite !map_map. apply map_ext. intros [[h l] c]. unfold typical, mkb. cbn [b_close b_high b_low]. xfin.
    rewrite xr_div_fin by lra. reflexivity. }
  rewrite Etp. rewrite (ema_outs_xr p e _ Ee).
  set (avs := ema_stream (kreal p) _).
  clear -Hmu Hat. revert ats Hat. induction avs as [|av avs IH]; intros [|at_ ats] Hat; cbn [map map2]; constructor.
  - unfold bands. xfin. do 3 eexists. split; [reflexivity|].
    assert (0 <= at_) by (apply Hat; left; reflexivity). nra.
  - apply IH. intros r Hr. apply Hat. right. exact Hr.
Qed.

(* ChandelierExit: long <= window maximum of the highs, short >= window minimum of the lows (multiplier >= 0) *)
Theorem ce_bounds : forall p mu c bars, ce_new O p (Fin mu) = Ok c -> 0 <= mu -> Forall valid bars ->
  let highs := map (fun b : rbar => fst (fst b)) bars in
  let lows := map (fun b : rbar => snd (fst b)) bars in
  forall k, (k < length bars)%nat ->
    exists lg sh mx mn, nth k (ce_outs O c (map mkb bars)) [] = [Fin lg; Fin sh] /\
      In mx (lastn (N.to_nat p) (firstn (S k) highs)) /\ (forall y, In y (lastn (N.to_nat p) (firstn (S k) highs)) -> y <= mx) /\
      In mn (lastn (N.to_nat p) (firstn (S k) lows)) /\ (forall y, In y (lastn (N.to_nat p) (firstn (S k) lows)) -> mn <= y) /\
      lg <= mx /\ mn <= sh.
Proof.
  intros p mu c bars H Hmu Hv highs lows k Hk. unfold ce_new in H.
  destruct (atr_new O p) as [a| |] eqn:Ea; cbn in H; try discriminate.
  destruct (min_new O p) as [mn0| |] eqn:Emn; cbn in H; try discriminate.
  destruct (max_new O p) as [mx0| |] eqn:Emx; cbn in H; try discriminate. injection H as <-.
  pose proof (min_new_inv O p mn0 Emn) as (Hp0 & Hpa & _ & _).
  rewrite min_new_ok in Emn by assumption. injection Emn as <-.
  rewrite max_new_ok in Emx by assumption. injection Emx as <-.
  assert (Hp : (0 < p)%N) by lia.
  rewrite ce_wiring.
  destruct (atr_bar_nonneg p a bars Ea Hv) as (ats & Eat & Lat & Hat). rewrite Eat.
  assert (El : map b_low (map mkb bars) = map Fin lows) by (unfold lows; rewrite !map_map; apply map_ext; intros [[h l] c']; reflexivity).
  assert (Eh : map b_high (map mkb bars) = map Fin highs) by (unfold highs; rewrite !map_map; apply map_ext; intros [[h l] c']; reflexivity).
  rewrite El, Eh, min_outs_same, max_outs_same.
  destruct (min_least O finP order_min p 0 0 (map Fin lows) Hp Hpa Hp Hp (Forall_finP lows)) as [Lmin Cmin].
  destruct (max_greatest O finN p 0 0 (map Fin highs) order_max Hp Hpa Hp Hp (Forall_finN highs)) as [Lmax Cmax].
  rewrite map_length in *.
  assert (Ll : length lows = length bars) by (unfold lows; apply map_length).
  assert (Lh : length highs = length bars) by (unfold highs; apply map_length).
  assert (Hkl : (k < length lows)%nat) by (rewrite Ll; exact Hk).
  assert (Hkh : (k < length highs)%nat) by (rewrite Lh; exact Hk).
  specialize (Cmin k Hkl). specialize (Cmax k Hkh).
  rewrite firstn_map, lastn_map' in Cmin, Cmax.
  set (wl := lastn (N.to_nat p) (firstn (S k) lows)) in *. set (wh := lastn (N.to_nat p) (firstn (S k) highs)) in *.
  assert (Hwl : wl <> []) by (unfold wl; intros E; apply (f_equal (@length R)) in E; rewrite lastn_length, firstn_length in E; cbn [length] in E; lia).
  assert (Hwh : wh <> []) by (unfold wh; intros E; apply (f_equal (@length R)) in E; rewrite lastn_length, firstn_length in E; cbn [length] in E; lia).
  destruct (least_fin wl _ Hwl Cmin) as (mn & Emn & Hmn). destruct (greatest_fin wh _ Hwh Cmax) as (mx & Emx & Hmx).
  assert (Imn : In mn wl) by (destruct Cmin as [I0 _]; rewrite Emn in I0; apply in_map_iff in I0 as (y & Ey & Iy); injection Ey as ->; exact Iy).
  assert (Imx : In mx wh) by (destruct Cmax as [I0 _]; rewrite Emx in I0; apply in_map_iff in I0 as (y & Ey & Iy); injection Ey as ->; exact Iy).
  assert (L1 : length (min_outs O {| min_period := p; min_min_index := 0; min_cur_index := 0; min_deque := repeat (inf O) (N.to_nat p) |} (map Fin lows)) = length (map Fin ats))
    by (rewrite map_length, Lmin, Ll, Lat; reflexivity).
  assert (L2 : length (max_outs O {| max_period := p; max_max_index := 0; max_cur_index := 0; max_deque := repeat (ninf O) (N.to_nat p) |} (map Fin highs)) = length (map Fin ats))
    by (rewrite map_length, Lmax, Lh, Lat; reflexivity).
  rewrite (map3_nth _ _ _ _ k (Fin 0) (inf O) (ninf O) _ L1 L2) by (rewrite map_length, Lat; exact Hk).
  rewrite Emn, Emx. change (Fin 0) with (Fin 0%R). rewrite map_nth. xfin.
  exists (mx - nth k ats 0 * mu), (mn + nth k ats 0 * mu), mx, mn.
  assert (Hat_k : 0 <= nth k ats 0) by (apply Hat; apply nth_In; lia).
  repeat split; auto; nra.
Qed.
