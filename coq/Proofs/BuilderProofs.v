(* Proofs about the DataItem builder (data_item.rs) — any carrier, plus NaN rejection for binary64. *)
From Coq Require Import Floats Lia Setoid.
From TA Require Import Base Model FloatInst.

Section Builder.
Context {F : Type} (O : Ops F).

Definition setter_eqb (a b : Setter) : bool :=
  match a, b with
  | SetOpen, SetOpen | SetHigh, SetHigh | SetLow, SetLow | SetClose, SetClose | SetVolume, SetVolume => true
  | _, _ => false end.

Definition call := (Setter * F)%type.

(* the builder after an arbitrary sequence of setter calls (any order, with repeats) *)
Definition apply_calls (calls : list call) : @Builder F :=
  fold_left (fun b c => set b (fst c) (snd c)) calls builder_new.

(* the last value passed to setter [f], if it was ever called *)
Definition last_set (f : Setter) (calls : list call) : option F :=
  fold_left (fun acc c => if setter_eqb f (fst c) then Some (snd c) else acc) calls None.

Definition field (f : Setter) (b : @Builder F) : option F :=
  match f with SetOpen => bo b | SetHigh => bh b | SetLow => bl b | SetClose => bc b | SetVolume => bv b end.

Lemma field_fold : forall f calls b,
  field f (fold_left (fun b c => set b (fst c) (snd c)) calls b) =
  fold_left (fun acc c => if setter_eqb f (fst c) then Some (snd c) else acc) calls (field f b).
Proof.
  intros f calls; induction calls as [|[g v] calls IH]; intros b; cbn [fold_left]; [reflexivity|].
  rewrite IH. f_equal. destruct f, g; reflexivity.
Qed.

Lemma field_apply : forall f calls, field f (apply_calls calls) = last_set f calls.
Proof. intros; unfold apply_calls, last_set; rewrite field_fold; destruct f; reflexivity. Qed.

Definition build_expected (calls : list call) : res (Bar F) :=
  match last_set SetOpen calls, last_set SetHigh calls, last_set SetLow calls,
        last_set SetClose calls, last_set SetVolume calls with
  | Some o, Some h, Some l, Some c, Some v =>
      if six_checks O o h l c v then Ok (mkBar o h l c v) else Err DataItemInvalid
  | _, _, _, _, _ => Err DataItemIncomplete
  end.

Lemma build_spec_proof : forall calls, build O (apply_calls calls) = build_expected calls.
Proof.
  intros calls. unfold build, build_expected.
  rewrite <- (field_apply SetOpen), <- (field_apply SetHigh), <- (field_apply SetLow),
          <- (field_apply SetClose), <- (field_apply SetVolume).
  reflexivity.
Qed.

Lemma last_set_fold_none : forall f (calls : list call) (acc : option F),
  fold_left (fun acc c => if setter_eqb f (fst c) then Some (snd c) else acc) calls acc = None <->
  acc = None /\ forall c, In c calls -> setter_eqb f (fst c) = false.
Proof.
  intros f calls; induction calls as [|c calls IH]; intros acc; cbn [fold_left].
  - split; [intros H; split; [exact H|intros ? []] | intros [H _]; exact H].
  - rewrite IH. destruct (setter_eqb f (fst c)) eqn:E.
    + split; [intros [H _]; discriminate | intros [_ H]; specialize (H c (or_introl eq_refl)); congruence].
    + split.
      * intros [H1 H2]; split; [exact H1|]. intros c' [<-|Hin]; [exact E | exact (H2 _ Hin)].
      * intros [H1 H2]; split; [exact H1|]. intros c' Hin; apply H2; right; exact Hin.
Qed.

Lemma setter_eqb_eq : forall a b, setter_eqb a b = true <-> a = b.
Proof. intros a b; destruct a, b; cbn; split; congruence. Qed.

(* a field is missing exactly when its setter was never called, whatever the values passed *)
Lemma last_set_none_iff : forall f calls, last_set f calls = None <-> ~ In f (map fst calls).
Proof.
  intros f calls. unfold last_set. rewrite last_set_fold_none. split.
  - intros [_ H] Hin. apply in_map_iff in Hin as [c [Hc Hin]]. specialize (H c Hin).
    subst f. destruct (fst c); discriminate.
  - intros H; split; [reflexivity|]. intros c Hin.
    destruct (setter_eqb f (fst c)) eqn:E; [|reflexivity].
    apply setter_eqb_eq in E. exfalso; apply H. apply in_map_iff. exists c; split; [symmetry; exact E|exact Hin].
Qed.

Lemma build_incomplete_iff : forall calls,
  build O (apply_calls calls) = Err DataItemIncomplete <->
  exists f, ~ In f (map fst calls).
Proof.
  intros calls. rewrite build_spec_proof. unfold build_expected. split.
  - intros H.
    destruct (last_set SetOpen calls) eqn:E1; [|exists SetOpen; apply last_set_none_iff; exact E1].
    destruct (last_set SetHigh calls) eqn:E2; [|exists SetHigh; apply last_set_none_iff; exact E2].
    destruct (last_set SetLow calls) eqn:E3; [|exists SetLow; apply last_set_none_iff; exact E3].
    destruct (last_set SetClose calls) eqn:E4; [|exists SetClose; apply last_set_none_iff; exact E4].
    destruct (last_set SetVolume calls) eqn:E5; [|exists SetVolume; apply last_set_none_iff; exact E5].
    destruct (six_checks O f f0 f1 f2 f3); discriminate.
  - intros [f Hf]. apply last_set_none_iff in Hf.
    destruct f; rewrite Hf; repeat (match goal with |- context [match ?x with _ => _ end] => destruct x end); reflexivity.
Qed.

(* getters of a built item return exactly the last values set; the bar is a plain record so a
   clone (the same value) is equal *)
Lemma build_ok_getters : forall calls item,
  build O (apply_calls calls) = Ok item ->
  last_set SetOpen calls = Some (b_open item) /\ last_set SetHigh calls = Some (b_high item) /\
  last_set SetLow calls = Some (b_low item) /\ last_set SetClose calls = Some (b_close item) /\
  last_set SetVolume calls = Some (b_volume item) /\
  six_checks O (b_open item) (b_high item) (b_low item) (b_close item) (b_volume item) = true.
Proof.
  intros calls item. rewrite build_spec_proof. unfold build_expected.
  destruct (last_set SetOpen calls) as [o|]; [|discriminate].
  destruct (last_set SetHigh calls) as [h|]; [|discriminate].
  destruct (last_set SetLow calls) as [l|]; [|discriminate].
  destruct (last_set SetClose calls) as [c|]; [|discriminate].
  destruct (last_set SetVolume calls) as [v|]; [|discriminate].
  destruct (six_checks O o h l c v) eqn:E; [|discriminate].
  intros H; injection H as <-. cbn. repeat split; assumption.
Qed.

End Builder.

(* ---- binary64: every comparison with NaN is false, hence any NaN field is rejected ---- *)
Lemma prim_nan_SF : forall x, PrimFloat.is_nan x = true -> Prim2SF x = S754_nan.
Proof.
  intros x H. unfold PrimFloat.is_nan in H. rewrite FloatAxioms.eqb_spec in H.
  destruct (Prim2SF x) as [s|s| |s m e] eqn:E; cbn in H; try discriminate; try reflexivity.
  - destruct s; discriminate.
  - unfold SFeqb, SFcompare in H. destruct s; cbn in H.
    + rewrite Z.compare_refl, Pos.compare_cont_refl in H. discriminate.
    + rewrite Z.compare_refl, Pos.compare_cont_refl in H. discriminate.
Qed.

Lemma leb_nan_l : forall x y, PrimFloat.is_nan x = true -> PrimFloat.leb x y = false.
Proof. intros x y H. rewrite leb_spec, (prim_nan_SF _ H). reflexivity. Qed.

Lemma leb_nan_r : forall x y, PrimFloat.is_nan y = true -> PrimFloat.leb x y = false.
Proof.
  intros x y H. rewrite leb_spec, (prim_nan_SF _ H). unfold SFleb, SFcompare.
  destruct (Prim2SF x) as [s|s| |s m e]; try destruct s; reflexivity.
Qed.

Lemma nan_rejected_proof : forall o h l c v,
  (PrimFloat.is_nan o || PrimFloat.is_nan h || PrimFloat.is_nan l || PrimFloat.is_nan c || PrimFloat.is_nan v) = true ->
  six_checks FOps o h l c v = false.
Proof.
  intros o h l c v H. unfold six_checks; cbn [leb FOps zero].
  repeat (apply orb_prop in H as [H|H]).
  - rewrite (leb_nan_r l o H). reflexivity.
  - rewrite (leb_nan_r l h H). rewrite !andb_false_r. reflexivity.
  - rewrite (leb_nan_l l o H). reflexivity.
  - rewrite (leb_nan_r l c H). rewrite !andb_false_r. reflexivity.
  - rewrite (leb_nan_r 0%float v H). rewrite !andb_false_r. reflexivity.
Qed.
