(* XR.v — the exact carrier used by the X-theorems: extended reals with the IEEE case tables
   (inf - inf = NaN, x/0 = +-inf or NaN, comparisons with NaN false), no rounding, no signed zero.
   Division by zero is NOT totalised away: Fin a / Fin 0 is an infinity or NaN, as in the code. *)
From Coq Require Import Reals Lra.
From TA Require Import Base.
Open Scope R_scope.

Inductive XR := Fin (r : R) | PInf | NInf | XNaN.

Definition rsgn (r : R) : comparison :=
  if Rlt_dec 0 r then Gt else if Rlt_dec r 0 then Lt else Eq.

Definition xr_neg (a : XR) : XR :=
  match a with Fin r => Fin (- r) | PInf => NInf | NInf => PInf | XNaN => XNaN end.

Definition xr_add (a b : XR) : XR :=
  match a, b with
  | XNaN, _ | _, XNaN => XNaN
  | Fin x, Fin y => Fin (x + y)
  | PInf, NInf | NInf, PInf => XNaN
  | PInf, _ | _, PInf => PInf
  | NInf, _ | _, NInf => NInf
  end.

Definition xr_sub (a b : XR) : XR := xr_add a (xr_neg b).

Definition rinf_of (c : comparison) : XR := match c with Gt => PInf | Lt => NInf | Eq => XNaN end.
Definition ccmul (a b : comparison) : comparison :=
  match a, b with Eq, _ | _, Eq => Eq | Gt, Gt | Lt, Lt => Gt | _, _ => Lt end.
Definition xrsgn (a : XR) : comparison :=
  match a with Fin r => rsgn r | PInf => Gt | NInf => Lt | XNaN => Eq end.

Definition xr_mul (a b : XR) : XR :=
  match a, b with
  | XNaN, _ | _, XNaN => XNaN
  | Fin x, Fin y => Fin (x * y)
  | _, _ => rinf_of (ccmul (xrsgn a) (xrsgn b))
  end.

Definition xr_div (a b : XR) : XR :=
  match a, b with
  | XNaN, _ | _, XNaN => XNaN
  | Fin x, Fin y => if Req_EM_T y 0 then rinf_of (rsgn x) else Fin (x / y)
  | Fin _, _ => Fin 0
  | _, Fin y => match rsgn y with Eq => a | s => rinf_of (ccmul (xrsgn a) s) end
  | _, _ => XNaN
  end.

Definition xr_sqrt (a : XR) : XR :=
  match a with
  | Fin x => if Rlt_dec x 0 then XNaN else Fin (R_sqrt.sqrt x)
  | PInf => PInf | NInf => XNaN | XNaN => XNaN end.

Definition xr_abs (a : XR) : XR :=
  match a with Fin r => Fin (Rabs r) | PInf | NInf => PInf | XNaN => XNaN end.

Definition xr_ltb (a b : XR) : bool :=
  match a, b with
  | XNaN, _ | _, XNaN => false
  | Fin x, Fin y => if Rlt_dec x y then true else false
  | NInf, NInf | PInf, _ | _, NInf => false
  | _, _ => true
  end.

Definition xr_eqb (a b : XR) : bool :=
  match a, b with
  | Fin x, Fin y => if Req_EM_T x y then true else false
  | PInf, PInf | NInf, NInf => true
  | _, _ => false end.

Definition xr_leb (a b : XR) : bool := xr_ltb a b || xr_eqb a b.

Definition xr_sign_pos (a : XR) : bool :=
  match a with Fin r => if Rlt_dec r 0 then false else true | NInf => false | _ => true end.

Definition XROps : Ops XR := {|
  zero := Fin 0; one := Fin 1; two := Fin 2; three := Fin 3; c100 := Fin 100; c50 := Fin 50;
  c0_1 := Fin (1 / 10); c0_015 := Fin (15 / 1000);
  inf := PInf; ninf := NInf;
  add := xr_add; sub := xr_sub; mul := xr_mul; div := xr_div;
  sqrt := xr_sqrt; abs := xr_abs; neg := xr_neg;
  ltb := xr_ltb; leb := xr_leb; eqb := xr_eqb;
  ofN := fun n => Fin (IZR (Z.of_N n));
  is_sign_positive := xr_sign_pos
|}.

(* computation rules on finite values *)
Lemma xr_add_fin x y : add XROps (Fin x) (Fin y) = Fin (x + y). Proof. reflexivity. Qed.
Lemma xr_sub_fin x y : sub XROps (Fin x) (Fin y) = Fin (x - y). Proof. reflexivity. Qed.
Lemma xr_mul_fin x y : mul XROps (Fin x) (Fin y) = Fin (x * y). Proof. reflexivity. Qed.
Lemma xr_div_fin x y : y <> 0 -> div XROps (Fin x) (Fin y) = Fin (x / y).
Proof. intros H. cbn. unfold xr_div. destruct (Req_EM_T y 0); [contradiction|reflexivity]. Qed.
Lemma xr_abs_fin x : abs XROps (Fin x) = Fin (Rabs x). Proof. reflexivity. Qed.
Lemma xr_neg_fin x : neg XROps (Fin x) = Fin (- x). Proof. reflexivity. Qed.
Lemma xr_sqrt_fin x : 0 <= x -> sqrt XROps (Fin x) = Fin (R_sqrt.sqrt x).
Proof. intros H. cbn. unfold xr_sqrt. destruct (Rlt_dec x 0); [lra|reflexivity]. Qed.
Lemma xr_ltb_fin x y : ltb XROps (Fin x) (Fin y) = true <-> x < y.
Proof. cbn. unfold xr_ltb. destruct (Rlt_dec x y); split; intros; auto; try discriminate; contradiction. Qed.
Lemma xr_ltb_fin_false x y : ltb XROps (Fin x) (Fin y) = false <-> y <= x.
Proof. cbn. unfold xr_ltb. destruct (Rlt_dec x y); split; intros; auto; try discriminate; lra. Qed.
Lemma xr_eqb_fin x y : eqb XROps (Fin x) (Fin y) = true <-> x = y.
Proof. cbn. unfold xr_eqb. destruct (Req_EM_T x y); split; intros; auto; try discriminate; contradiction. Qed.
Lemma xr_ofN n : ofN XROps n = Fin (IZR (Z.of_N n)). Proof. reflexivity. Qed.
