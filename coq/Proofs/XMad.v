(* MeanAbsoluteDeviation over the exact carrier: mean absolute deviation about the window mean of exactly
   the last min(t,p) inputs (the code iterates the buffer in slot order; exact sums are permutation-invariant). *)
From Coq Require Import Reals Lra Lia Permutation.
From TA Require Import Base Model XR Proofs.Prims Proofs.WF Proofs.Ring Proofs.XBase Proofs.XSma Proofs.XWma.
Open Scope N_scope.

Local Notation O := XROps.

Definition madev (l : list R) : R := (Rsum (map (fun x => Rabs (x - mean l)) l) / INR (length l))%R.

Lemma Rsum_perm a b : Permutation a b -> Rsum a = Rsum b.
Proof. induction 1; cbn; lra. Qed.

Lemma fold_abs_fin (m : R) (l : list R) (acc : R) :
  fold_left (fun a v => add O a (abs O (sub O v (Fin m)))) (map Fin l) (Fin acc) =
  Fin (acc + Rsum (map (fun x => Rabs (x - m)) l)).
Proof.
  revert acc; induction l as [|x l IH]; intros acc; cbn [fold_left map Rsum].
  - f_equal. lra.
  - xfin. rewrite IH. f_equal. lra.
Qed.

(* the first [count] slots hold exactly the window, up to order *)
Definition mad_inv (s : @Mad XR) (h : list R) : Prop :=
  let p := N.to_nat (mad_period s) in
  wf_mad s /\
  rot (N.to_nat (mad_index s)) (mad_deque s) = map Fin (lastn p (padded 0%R p h)) /\
  mad_sum s = Fin (Rsum (lastn p h)) /\
  mad_count s = N.of_nat (Nat.min (length h) p) /\
  ((length h < p)%nat -> mad_index s = N.of_nat (length h)).

Lemma mad_inv_new p s : mad_new O p = Ok s -> mad_inv s [].
Proof.
  intros H. pose proof (mad_new_inv O p s H) as (A & B & W & Pe).
  rewrite mad_new_ok in H by assumption. injection H as <-.
  unfold mad_inv. cbn [mad_period mad_index mad_count mad_sum mad_deque].
  split; [exact W|]. split; [|repeat split; cbn; try reflexivity; lia].
  rewrite rot_0, lastn_padded_nil. cbn [zero O]. rewrite map_repeat'. reflexivity.
Qed.

Lemma rot_perm {A} c (l : list A) : Permutation (rot c l) l.
Proof. unfold rot. rewrite <- (firstn_skipn c l) at 3. apply Permutation_app_comm. Qed.

Lemma app_eq_len {A} (a c b d : list A) : length a = length c -> a ++ b = c ++ d -> a = c /\ b = d.
Proof.
  revert c; induction a as [|x a IH]; intros [|y c] L E; cbn in *; try discriminate; [split; [reflexivity|exact E]|].
  injection E as -> E. injection L as L. destruct (IH c L E) as [-> ->]. split; reflexivity.
Qed.

Lemma firstn_of_rot_warm {A} (dq : list A) (i : nat) (pads w : list A) :
  (i <= length dq)%nat -> rot i dq = pads ++ w -> length w = i -> firstn i dq = w.
Proof.
  intros Hi E Lw. unfold rot in E.
  assert (L1 : length (skipn i dq) = length pads).
  { apply (f_equal (@length A)) in E. rewrite !app_length, firstn_length in E. rewrite skipn_length in *. lia. }
  apply (app_eq_len _ _ _ _ L1) in E. apply E.
Qed.

Lemma mad_step s h x : mad_inv s h ->
  exists s', mad_next O s (Fin x) = Ok (s', Fin (madev (lastn (N.to_nat (mad_period s)) (h ++ [x])))) /\
             mad_inv s' (h ++ [x]) /\ mad_period s' = mad_period s.
Proof.
  intros (W & Hrot & Hsum & Hcnt & Hidx). pose proof W as (H1 & H2 & H3 & H4 & H5).
  set (p := N.to_nat (mad_period s)) in *.
  assert (Hp : (1 <= p)%nat) by (unfold p; lia).
  destruct (ring_step (mad_deque s) (mad_period s) (mad_index s) (Fin x) (Fin 0) H1 H3 H2 H5) as (E1 & E2 & E3 & E4 & E5).
  unfold mad_next.
  set (w := lastn p h) in *.
  set (w' := lastn p (h ++ [x])).
  assert (Lw : length w = Nat.min (length h) p) by (unfold w; rewrite lastn_length; lia).
  assert (Lw' : length w' = Nat.min (length h + 1) p) by (unfold w'; rewrite lastn_length, app_length; cbn; lia).
  pose proof (lastn_snoc_cases p h x Hp) as Ew'. fold w w' in Ew'.
  (* the new sum and count, in both branches *)
  assert (Ebr : (if mad_count s <? mad_period s
                 then c <- uadd (mad_count s) 1 ;; Ok (c, add O (mad_sum s) (Fin x))
                 else old <- idx (mad_deque s) (mad_index s) ;; Ok (mad_count s, sub O (add O (mad_sum s) (Fin x)) old))
                = Ok (N.of_nat (length w'), Fin (Rsum w'))).
  { destruct (Nat.ltb_spec (length h) p) as [Hwarm|Hfull].
    - assert (Ec : mad_count s <? mad_period s = true) by (apply N.ltb_lt; rewrite Hcnt; unfold p in *; lia).
      rewrite Ec, uadd_ok by (unfold ALLOC_MAX, USIZE_MAX in *; lia). cbn [bind].
      rewrite Hsum, Hcnt, Lw'. xfin. rewrite Ew', Rsum_app. cbn [Rsum]. do 2 f_equal; [lia|f_equal; lra].
    - assert (Ec : mad_count s <? mad_period s = false) by (apply N.ltb_ge; rewrite Hcnt; unfold p in *; lia).
      rewrite Ec, E1. cbn [bind]. rewrite Hrot. change (Fin 0) with (Fin 0%R). rewrite (hd_map Fin _ 0%R).
      rewrite hd_lastn_padded by exact Hp. destruct (Nat.ltb_spec (length h) p); [lia|].
      rewrite Hsum, Hcnt, Lw'. xfin. rewrite Ew', Rsum_app. cbn [Rsum].
      assert (Hw : w <> []) by (intros E; rewrite E in Lw; cbn in Lw; lia).
      rewrite (Rsum_hd_tl w Hw). change (lastn p h) with w. do 2 f_equal; [lia|f_equal; lra]. }
  rewrite Ebr. cbn [bind]. rewrite E2, E3. cbn [bind].
  set (dq' := set_nth (mad_deque s) (N.to_nat (mad_index s)) (Fin x)) in *.
  set (i' := if mad_index s + 1 <? mad_period s then mad_index s + 1 else 0) in *.
  assert (Hpos : (1 <= length w')%nat) by lia.
  rewrite xr_ofN, INR_IZR_N. rewrite xr_div_fin by (apply not_0_INR; lia).
  rewrite slice_ok by lia. rewrite Nnat.Nat2N.id. cbn [N.to_nat]. rewrite Nat.sub_0_r. cbn [skipn].
  (* the scanned slots are a permutation of the window *)
  assert (Hperm : exists l, firstn (length w') dq' = map Fin l /\ Permutation l w').
  { assert (Hrot' : rot (N.to_nat i') dq' = map Fin (lastn p (padded 0%R p (h ++ [x])))).
    { rewrite E5, Hrot, lastn_padded_snoc by exact Hp. rewrite map_app, tl_map. reflexivity. }
    destruct (Nat.le_gt_cases p (length h + 1)) as [Hfull|Hwarm].
    - (* window full after this input: all p slots *)
      rewrite lastn_padded_full in Hrot' by (rewrite app_length; cbn; lia). fold w' in Hrot'.
      replace (length w') with (length dq') by (rewrite E4, Lw'; unfold p in *; lia).
      rewrite firstn_all.
      assert (Pm : Permutation dq' (map Fin w')) by (rewrite <- Hrot'; symmetry; apply rot_perm).
      destruct (Permutation_map_inv _ _ Pm) as (l & El & Pl). exists l. split; [exact El|symmetry; exact Pl].
    - (* still warming up: the cursor equals the number of inputs, slots 0..count-1 hold the inputs in order *)
      assert (Ei' : N.to_nat i' = length w').
      { unfold i'. rewrite (Hidx ltac:(lia)). destruct (N.ltb_spec (N.of_nat (length h) + 1) (mad_period s)); unfold p in *; lia. }
      rewrite lastn_padded_warm in Hrot' by (rewrite app_length; cbn; lia).
      rewrite map_app in Hrot'. rewrite Ei' in Hrot'.
      exists w'. split; [|apply Permutation_refl].
      assert (Ew2 : w' = h ++ [x]) by (unfold w'; apply lastn_all; rewrite app_length; cbn; lia).
      rewrite Ew2 in *.
      assert (Hle : (length (h ++ [x]) <= length dq')%nat).
      { rewrite E4. rewrite app_length. cbn [length]. unfold p in *. lia. }
      apply (firstn_of_rot_warm dq' _ _ _ Hle Hrot'). rewrite map_length. reflexivity. }
  destruct Hperm as (l & El & Pl). rewrite El. cbn [bind].
  change (zero O) with (Fin 0%R). rewrite fold_abs_fin.
  rewrite xr_div_fin by (apply not_0_INR; lia).
  assert (Eout : ((0 + Rsum (map (fun x0 => Rabs (x0 - Rsum w' / INR (length w'))) l)) / INR (length w'))%R = madev w').
  { unfold madev, mean. f_equal. rewrite Rplus_0_l. apply Rsum_perm. apply Permutation_map. exact Pl. }
  rewrite Eout. eexists. split; [reflexivity|]. split; [|reflexivity].
  unfold mad_inv. cbn [mad_period mad_index mad_count mad_sum mad_deque]. fold p.
  split; [unfold wf_mad, ring_wf; cbn; pose proof (advance_lt _ _ H3); repeat split; unfold p in *; lia|].
  split; [fold i' dq'; rewrite E5, Hrot, lastn_padded_snoc by exact Hp; rewrite map_app, tl_map; reflexivity|].
  split; [reflexivity|]. split; [rewrite Lw', app_length; cbn; reflexivity|].
  intros Hlt. rewrite app_length in Hlt. cbn [length] in Hlt. unfold i'. rewrite (Hidx ltac:(lia)), app_length. cbn [length].
  destruct (N.ltb_spec (N.of_nat (length h) + 1) (mad_period s)); unfold p in *; lia.
Qed.

Fixpoint mad_outs (s : @Mad XR) (xs : list XR) : list XR :=
  match xs with
  | [] => []
  | x :: xs => match mad_next O s x with Ok (s', o) => o :: mad_outs s' xs | _ => [] end
  end.

Lemma mad_outs_spec : forall xs s h, mad_inv s h ->
  mad_outs s (map Fin xs) = map (fun hh => Fin (madev (lastn (N.to_nat (mad_period s)) hh))) (prefixes_from h xs).
Proof.
  induction xs as [|x xs IH]; intros s h Hinv; cbn [mad_outs map prefixes_from]; [reflexivity|].
  destruct (mad_step s h x Hinv) as (s' & E & Hinv' & Hp). rewrite E. f_equal.
  rewrite (IH s' (h ++ [x]) Hinv'), Hp. reflexivity.
Qed.

Theorem mad_refines : forall p s xs, mad_new O p = Ok s ->
  mad_outs s (map Fin xs) = map (fun hh => Fin (madev (lastn (N.to_nat p) hh))) (prefixes_from [] xs).
Proof.
  intros p s xs H. pose proof (mad_new_inv O p s H) as (_ & _ & _ & Pe).
  rewrite (mad_outs_spec xs s [] (mad_inv_new p s H)), Pe. reflexivity.
Qed.
