(* EMA and what is wired from it, over the exact carrier: the recursion on reals, convexity bounds
   (outputs stay within the range of the inputs), non-negativity of TrueRange / ATR, band orderings,
   RSI / SlowStochastic ranges, scale covariance. *)
From Coq Require Import Reals Lra Lia.
From TA Require Import Base Model XR Proofs.Prims Proofs.XBase Proofs.Wiring.
Open Scope R_scope.

Local Notation O := XROps.

(* the smoothing factor of a constructed EMA is a real in (0,1] *)
Definition kreal (p : N) : R := 2 / (IZR (Z.of_N p) + 1).

Lemma kreal_range p : (p <> 0)%N -> 0 < kreal p <= 1.
Proof.
  intros H. unfold kreal. assert (1 <= IZR (Z.of_N p)) by (apply IZR_le; lia).
  split; [apply Rdiv_lt_0_compat; lra|]. apply Rmult_le_reg_r with (IZR (Z.of_N p) + 1); [lra|].
  unfold Rdiv. rewrite Rmult_assoc, Rinv_l by lra. lra.
Qed.

Lemma ema_new_xr p s : ema_new O p = Ok s -> (p <> 0)%N /\ s = mkEma p (Fin (kreal p)) (Fin 0) true.
Proof.
  unfold ema_new. destruct (N.eqb_spec p 0); [discriminate|]. intros H. injection H as <-. split; [assumption|].
  f_equal. assert (1 <= IZR (Z.of_N p)) by (apply IZR_le; lia).
  unfold kreal. cbn. destruct (Req_EM_T (IZR (Z.of_N p) + 1) 0); [lra|reflexivity].
Qed.

(* the recursion on reals *)
Fixpoint ema_real (k prev : R) (xs : list R) : list R :=
  match xs with [] => [] | x :: xs => let e := k * x + (1 - k) * prev in e :: ema_real k e xs end.
Definition ema_stream (k : R) (xs : list R) : list R :=
  match xs with [] => [] | x :: xs => x :: ema_real k x xs end.

Lemma ema_outs_running k p cur xs :
  ema_outs O (mkEma p (Fin k) (Fin cur) false) (map Fin xs) = map Fin (ema_real k cur xs).
Proof.
  revert cur; induction xs as [|x xs IH]; intros cur; [reflexivity|].
  cbn [map ema_outs ema_real]. unfold ema_next. cbn [ema_is_new ema_k ema_current ema_period]. xfin.
  f_equal. apply IH.
Qed.

Theorem ema_outs_xr p s xs : ema_new O p = Ok s -> ema_outs O s (map Fin xs) = map Fin (ema_stream (kreal p) xs).
Proof.
  intros H. apply ema_new_xr in H as [Hp ->]. destruct xs as [|x xs]; [reflexivity|].
  cbn [map ema_outs ema_stream]. unfold ema_next. cbn [ema_is_new ema_k ema_current ema_period]. f_equal.
  apply ema_outs_running.
Qed.

(* convexity: with 0 <= k <= 1 the recursion never leaves the range of (previous value, inputs) *)
Lemma ema_real_between k lo hi prev xs : 0 <= k <= 1 -> lo <= prev <= hi -> (forall y, In y xs -> lo <= y <= hi) ->
  forall e, In e (ema_real k prev xs) -> lo <= e <= hi.
Proof.
  intros Hk. revert prev; induction xs as [|x xs IH]; intros prev Hp Hx e He; [destruct He|].
  cbn [ema_real] in He.
  assert (Hxx : lo <= x <= hi) by (apply Hx; left; reflexivity).
  assert (Hn : lo <= k * x + (1 - k) * prev <= hi) by nra.
  destruct He as [<-|He]; [exact Hn|]. apply (IH _ Hn); [intros y Hy; apply Hx; right; exact Hy|exact He].
Qed.

Theorem ema_between p s xs lo hi : ema_new O p = Ok s -> (forall y, In y xs -> lo <= y <= hi) ->
  Forall (fun o => exists r, o = Fin r /\ lo <= r <= hi) (ema_outs O s (map Fin xs)).
Proof.
  intros H B. rewrite (ema_outs_xr p s xs H). pose proof (ema_new_xr p s H) as [Hp _].
  pose proof (kreal_range p Hp) as Hk.
  apply Forall_forall. intros o Ho. apply in_map_iff in Ho as (e & <- & He). eexists. split; [reflexivity|].
  destruct xs as [|x xs]; [destruct He|]. cbn [ema_stream] in He.
  assert (Hx : lo <= x <= hi) by (apply B; left; reflexivity).
  destruct He as [<-|He]; [exact Hx|].
  apply (ema_real_between (kreal p) lo hi x xs); [lra|exact Hx|intros y Hy; apply B; right; exact Hy|exact He].
Qed.

(* scale covariance of the recursion *)
Lemma ema_real_scale k c prev xs : ema_real k (c * prev) (map (Rmult c) xs) = map (Rmult c) (ema_real k prev xs).
Proof.
  revert prev; induction xs as [|x xs IH]; intros prev; [reflexivity|]. cbn [map ema_real].
  replace (k * (c * x) + (1 - k) * (c * prev)) with (c * (k * x + (1 - k) * prev)) by lra. f_equal. apply IH.
Qed.
Theorem ema_scale p s c xs : ema_new O p = Ok s ->
  ema_outs O s (map Fin (map (Rmult c) xs)) = map (fun o => mul O (Fin c) o) (ema_outs O s (map Fin xs)).
Proof.
  intros H. rewrite !(ema_outs_xr p s _ H). rewrite map_map. destruct xs as [|x xs]; [reflexivity|].
  cbn [map ema_stream]. f_equal. rewrite ema_real_scale, !map_map. reflexivity.
Qed.
Lemma ema_real_shift k d prev xs : ema_real k (d + prev) (map (Rplus d) xs) = map (Rplus d) (ema_real k prev xs).
Proof.
  revert prev; induction xs as [|x xs IH]; intros prev; [reflexivity|]. cbn [map ema_real].
  replace (k * (d + x) + (1 - k) * (d + prev)) with (d + (k * x + (1 - k) * prev)) by lra. f_equal. apply IH.
Qed.
Theorem ema_shift p s d xs : ema_new O p = Ok s ->
  ema_outs O s (map Fin (map (Rplus d) xs)) = map (fun o => add O (Fin d) o) (ema_outs O s (map Fin xs)).
Proof.
  intros H. rewrite !(ema_outs_xr p s _ H). rewrite map_map. destruct xs as [|x xs]; [reflexivity|].
  cbn [map ema_stream]. f_equal. rewrite ema_real_shift, !map_map. reflexivity.
Qed.

(* closed form of the recursion: e_t = (1-k)^(t-1) x_1 + sum_{i>=2} k (1-k)^(t-i) x_i *)
Fixpoint ema_closed_sum (k : R) (xs : list R) : R :=    (* xs newest first *)
  match xs with [] => 0 | x :: r => k * x + (1 - k) * ema_closed_sum k r end.
Lemma ema_real_last k prev xs : xs <> [] ->
  last (ema_real k prev xs) 0 = ema_closed_sum k (rev xs) + (1 - k) ^ length xs * prev.
Proof.
  revert prev; induction xs as [|x xs IH]; intros prev H; [congruence|].
  destruct xs as [|y xs].
  - cbn. lra.
  - change (last (ema_real k prev (x :: y :: xs)) 0) with (last (ema_real k (k * x + (1 - k) * prev) (y :: xs)) 0).
    rewrite IH by discriminate. cbn [rev]. 
    assert (E : forall l a, ema_closed_sum k (l ++ [a]) = ema_closed_sum k l + (1 - k) ^ length l * (k * a)).
    { induction l as [|z l IHl]; intros a; cbn; [lra|rewrite IHl; lra]. }
    rewrite (E (rev xs ++ [y]) x). rewrite app_length, rev_length. cbn [length pow]. 
    replace (length xs + 1)%nat with (S (length xs)) by lia. cbn [pow]. lra.
Qed.

(* ---- max / TrueRange on finite values ---- *)
Lemma fmax_fin a b : fmax O (Fin a) (Fin b) = Fin (Rmax a b).
Proof.
  unfold fmax. cbn [ltb eqb O]. unfold xr_ltb, xr_eqb.
  destruct (Rlt_dec a b) as [H|H].
  - rewrite Rmax_right by lra. reflexivity.
  - destruct (Req_EM_T a a); [|congruence]. rewrite Rmax_left by lra. reflexivity.
Qed.

Lemma tr_bar_nonneg (t : @Tr XR) h l c : l <= h ->
  (match tr_prev_close t with Some (Fin _) | None => True | _ => False end) ->
  exists r, snd (tr_next_bar O t (mkBar (Fin 0) (Fin h) (Fin l) (Fin c) (Fin 0))) = Fin r /\ 0 <= r.
Proof.
  intros Hlh Hp. unfold tr_next_bar. cbn [b_high b_low b_close snd].
  destruct (tr_prev_close t) as [[pc| | |]|]; try contradiction.
  - xfin. unfold max3. rewrite !fmax_fin. eexists. split; [reflexivity|].
    apply Rle_trans with (Rmax (h - l) (Rabs (h - pc))); [|apply Rmax_l].
    apply Rle_trans with (h - l); [lra|apply Rmax_l].
  - xfin. eexists. split; [reflexivity|lra].
Qed.

(* ---- ranges of ratios ---- *)
Lemma ratio100_range u d : 0 <= u -> 0 <= d -> u + d <> 0 -> 0 <= 100 * u / (u + d) <= 100.
Proof.
  intros Hu Hd Hs. assert (Hp : 0 < u + d) by lra.
  split.
  - apply Rmult_le_pos; [lra|]. left. apply Rinv_0_lt_compat. exact Hp.
  - apply Rmult_le_reg_r with (u + d); [exact Hp|]. unfold Rdiv. rewrite Rmult_assoc, Rinv_l by lra. lra.
Qed.

Lemma stoch_range x mn mx : mn <= x <= mx -> mn <> mx -> 0 <= (x - mn) / (mx - mn) * 100 <= 100.
Proof.
  intros Hx Hn. assert (Hp : 0 < mx - mn) by lra.
  assert (A : 0 <= (x - mn) / (mx - mn) <= 1).
  { split; [apply Rmult_le_pos; [lra|left; apply Rinv_0_lt_compat; exact Hp]|].
    apply Rmult_le_reg_r with (mx - mn); [exact Hp|]. unfold Rdiv. rewrite Rmult_assoc, Rinv_l by lra. lra. }
  lra.
Qed.
