# Case generators (all randomness from one random.Random(seed)).
# Streams are built from segments of different regimes so that one case exercises many of the situations in which
# windowed/recursive code typically goes wrong: equal neighbours, an input equal to the one leaving the window,
# zeros and signed zeros, tiny and huge magnitudes, flat stretches after activity, sign changes, gaps.
import math
import random
from common import Case, INDS, NO_SCALAR, HAS_MULT, nper

SPECIALS = [float("nan"), float("inf"), float("-inf"), 1.7976931348623157e308, -1.7976931348623157e308,
            5e-324, -5e-324, 0.0, -0.0, 2.2250738585072014e-308]

SCALAR_STYLES = ["walk", "uniform", "ties", "mixed", "signed", "grid", "periodic", "tiny", "huge", "flatafter", "zeros", "segments", "crash"]
POSITIVE_STYLES = ["walk", "uniform", "ties", "pgrid", "periodic", "tiny", "huge", "flatafter", "segments", "crash"]


def rand_price(r, lo=1e-3, hi=1e6, signed=False):
    x = math.exp(r.uniform(math.log(lo), math.log(hi)))
    if signed and r.random() < 0.5:
        x = -x
    return x


def _segment(r, n, style, p, positive, level):
    xs = []
    if style == "walk":
        x = level
        for _ in range(n):
            x = max(level * 1e-3, x * (1 + r.uniform(-0.05, 0.05)))
            xs.append(x)
    elif style == "uniform":
        xs = [level * r.uniform(0.5, 1.5) for _ in range(n)]
    elif style == "ties":
        al = [level * r.uniform(0.9, 1.1) for _ in range(3)]
        xs = [r.choice(al) for _ in range(n)]
    elif style == "grid":
        xs = [float(r.randint(-3, 6)) * 0.5 for _ in range(n)]
    elif style == "pgrid":
        xs = [float(r.randint(1, 6)) * 0.5 for _ in range(n)]
    elif style == "signed":
        xs = [rand_price(r, 1e-3, 1e12, signed=True) for _ in range(n)]
    elif style == "mixed":
        xs = [r.choice([0.0, -0.0, 1.0, 1.0, -1.0, 2.5, 3e11, r.uniform(-5, 5)]) for _ in range(n)]
    elif style == "periodic":
        q = r.choice([p, p, p + 1, max(1, p - 1), 2 * p])
        base = [level * r.uniform(0.8, 1.2) for _ in range(max(1, q))]
        for k in range(n):
            v = base[k % len(base)]
            if r.random() < 0.15:
                v = level * r.uniform(0.8, 1.2)
                base[k % len(base)] = v
            xs.append(v)
    elif style == "tiny":
        sc = 2.0 ** r.randint(-80, -25)
        xs = [sc * r.uniform(1, 3) for _ in range(n)]
    elif style == "huge":
        sc = 2.0 ** r.randint(20, 39)
        xs = [sc * r.uniform(1, 1.8) for _ in range(n)]
    elif style == "flatafter":
        k = r.randint(0, max(1, n // 2))
        xs = [level * r.uniform(0.5, 1.5) for _ in range(k)]
        xs += [xs[-1] if xs else level] * (n - k)
    elif style == "crash":
        # a few very large prices, then a quiet, mostly monotone market at a level ~1e6 times smaller
        k = r.randint(1, max(1, min(n // 3, p + 2)))
        xs = [level * 1e6 * r.uniform(1, 2) for _ in range(k)]
        x = level
        for _ in range(n - k):
            x = x + level * r.choice([1e-3, 1e-3, 2e-3, 0.0, -1e-4])
            xs.append(x)
    elif style == "zeros":
        xs = [r.choice([0.0, 0.0, -0.0, level, level * 0.5]) for _ in range(n)]
    elif style == "ulps":
        # moves of a few units in the last place: comparisons written with a tolerance instead of == / < show here
        x = r.choice([0.3, 10.1, 1234.5678, level])
        for _ in range(n):
            for _ in range(r.choice([0, 1, 1, 2])):
                x = math.nextafter(x, math.inf if r.random() < 0.5 else -math.inf)
            xs.append(x)
    elif style == "tight":
        # a non-constant window whose relative spread sits on a ladder 1e-12 .. 1e-4: "noise floor" clamps and relative-tolerance
        # flatness tests (sqrt(eps), 1e-9, 1e-6 ...) treat such a window as flat although its statistic is well-conditioned
        eps = r.choice([1e-12, 1e-10, 1e-8, 1e-6, 1e-5, 3e-5, 1e-4])
        lv = r.choice([100.0, level])
        xs = [lv * (1.0 + eps * ((3 * k + (k // 7)) % 5)) for k in range(n)]
    else:
        raise ValueError(style)
    if positive:
        xs = [abs(x) if x != 0 else level for x in xs]
    return xs


def scalar_stream(r, n, style=None, p=None, positive=False):
    p = p or r.choice([1, 2, 3, 4, 5])
    styles = POSITIVE_STYLES if positive else SCALAR_STYLES
    style = style or r.choice(styles)
    level = rand_price(r, 1, 1000)
    if style != "segments":
        return _segment(r, n, style, p, positive, level)
    xs = []
    while len(xs) < n:
        seg = r.choice([s for s in styles if s not in ("segments", "signed", "huge", "tiny")] + ["periodic", "flatafter"])
        m = min(n - len(xs), r.randint(1, 3 * p + 2))
        xs += _segment(r, m, seg, p, positive, level)
    return xs


def valid_bar(r, x=None, spread=0.03):
    if x is None:
        x = rand_price(r, 1, 1000)
    h = x * (1 + r.uniform(0, spread))
    l = x * (1 - r.uniform(0, spread))
    c = l + (h - l) * r.random()
    c = min(max(c, l), h)
    o = l + (h - l) * r.random()
    o = min(max(o, l), h)
    v = r.choice([0.0, 1.0, r.uniform(0, 1e4), r.uniform(0, 1e4)])
    return (o, h, l, c, v)


BAR_STYLES = ["walk", "free", "grid", "flatish", "segments", "tinybars", "gaps"]


def bar_stream(r, n, style=None, p=None):
    p = p or r.choice([1, 2, 3, 4, 5])
    style = style or r.choice(BAR_STYLES)
    out = []
    if style == "walk":
        x = rand_price(r, 1, 1000)
        for _ in range(n):
            x = max(1e-3, x * (1 + r.uniform(-0.05, 0.05)))
            out.append(valid_bar(r, x))
    elif style == "free":   # five independent fields
        for _ in range(n):
            out.append(tuple(r.choice([r.uniform(-10, 10), float(r.randint(-2, 3))]) for _ in range(5)))
    elif style == "grid":
        for _ in range(n):
            l = float(r.randint(1, 4))
            h = l + float(r.randint(0, 3))
            c = r.choice([l, h, (l + h) / 2, l + (h - l) * 0.25])
            out.append((c, h, l, c, float(r.randint(0, 3))))
    elif style == "flatish":
        x = rand_price(r, 1, 100)
        for _ in range(n):
            if r.random() < 0.2:
                x = rand_price(r, 1, 100)
            out.append((x, x, x, x, r.choice([0.0, 5.0])))
    elif style == "tinybars":
        sc = 2.0 ** r.randint(-70, -30)
        for _ in range(n):
            b = valid_bar(r, r.uniform(1, 2), spread=r.choice([0.03, 1e-17, 0.0]))
            out.append(tuple(v * sc for v in b[:4]) + (b[4],))
    elif style == "ulpbars":
        for x in _segment(r, n, "ulps", p, True, rand_price(r, 1, 1000)):
            h = x
            for _ in range(r.choice([0, 1, 2])):
                h = math.nextafter(h, math.inf)
            c = r.choice([x, h])
            out.append((c, h, x, c, float(r.choice([0, 1, 5, 5]))))
    elif style == "gaps":
        x = rand_price(r, 5, 500)
        for _ in range(n):
            x = x * r.choice([1.0, 1.0, 1.3, 0.7, 1.01])
            b = valid_bar(r, x, spread=r.choice([0.0, 0.002, 0.05]))
            out.append(b[:4] + (r.choice([0.0, 0.0, b[4]]),))
    else:  # segments: valid bars with flat bars inside non-flat windows, repeated bars, zero-volume moves, periodic repeats
        x = rand_price(r, 1, 1000)
        hist = []
        while len(out) < n:
            kind = r.choice(["walk", "flatbar", "repeat", "zerovol", "periodic", "plateau"])
            m = min(n - len(out), r.randint(1, 2 * p + 2))
            for _ in range(m):
                if kind == "walk":
                    x = max(1e-3, x * (1 + r.uniform(-0.05, 0.05)))
                    b = valid_bar(r, x)
                elif kind == "flatbar":
                    x = max(1e-3, x * (1 + r.uniform(-0.03, 0.03)))
                    b = (x, x, x, x, r.choice([0.0, 100.0]))
                elif kind == "repeat" and out:
                    b = out[-1]
                elif kind == "zerovol":
                    x = max(1e-3, x * (1 + r.uniform(-0.05, 0.05)))
                    b = valid_bar(r, x)[:4] + (0.0,)
                elif kind == "periodic" and len(out) >= p:
                    b = out[-p]
                elif kind == "plateau":
                    b = valid_bar(r, x, spread=0.0)
                else:
                    b = valid_bar(r, x)
                out.append(b)
    return out[:n]


def rand_params(r, ind, maxp=8):
    def p():
        return r.choice([1, 1, 2, 3, r.randint(1, maxp), r.randint(1, maxp)])
    k = nper(ind)
    ps = [p() for _ in range(k)] + [0] * (3 - k)
    m = r.choice([0.0, 0.5, 2.0, 2.5, 3.0, -1.0, 1e6]) if ind in HAS_MULT else 0.0
    return ps[0], ps[1], ps[2], m


def new_op(slot, ind, params):
    return ("new", slot, ind, params[0], params[1], params[2], params[3])


def feed_ops(r, ind, n, slot=0, bars=None, specials=0.0, p=None, positive=False):
    """n feeding ops for indicator `ind`: scalars where it has a scalar path (mixed with bars)."""
    ops = []
    use_bar = ind in NO_SCALAR or (bars if bars is not None else r.random() < 0.4)
    if use_bar:
        kind = r.choice(["b", "b", "i"])
        st = bar_stream(r, n, r.choice(["walk", "segments", "gaps"]) if kind == "i" else None, p=p)
        for b in st:
            if specials and r.random() < specials:
                b = list(b)
                b[r.randrange(5)] = r.choice(SPECIALS)
                b = tuple(b)
                ops.append(("b", slot) + b)
            else:
                ops.append((kind, slot) + b)
    else:
        for x in scalar_stream(r, n, p=p, positive=positive):
            if specials and r.random() < specials:
                x = r.choice(SPECIALS)
            ops.append(("n", slot, x))
    return ops
