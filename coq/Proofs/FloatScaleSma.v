(* C14 on binary64, whole streams: SimpleMovingAverage fed 2^k x returns 2^k SMA(x) bit for bit (as values), for every stream along which
   the three intermediate results of each update — sum - old, sum - old + x, and the quotient by the count — are zero or normal before and
   after the scaling and below 2^1000. By induction over the stream with a relational invariant between the two instances. *)
From Coq Require Import Reals Lra Lia ZArith List Floats.
From Flocq Require Import Core.
From TA Require Import Base Model FloatInst Proofs.Wiring Proofs.FloatErr Proofs.FloatScale.
Import ListNotations.
Local Notation O := FOps.
Local Notation float := PrimFloat.float.
Open Scope R_scope.

Definition rel_sma (k : Z) (s s' : @Sma float) : Prop :=
  sma_period s = sma_period s' /\ sma_index s = sma_index s' /\ sma_count s = sma_count s' /\
  scaled k (sma_sum s) (sma_sum s') /\ Forall2 (scaled k) (sma_deque s) (sma_deque s').

Definition sma_step_ok (k : Z) (s : @Sma float) (x : float) : Prop :=
  forall old cnt, idx (sma_deque s) (sma_index s) = Ok old ->
    (if (sma_count s <? sma_period s)%N then uadd (sma_count s) 1 else Ok (sma_count s)) = Ok cnt ->
    let c := f_ofN cnt in let d := (sma_sum s - old)%float in let s1 := (sma_sum s - old + x)%float in
    finF c /\ FR c <> 0 /\
    Rabs (FR (sma_sum s) - FR old) <= BIG /\ Rabs ((FR (sma_sum s) - FR old) * bpow radix2 k) <= BIG /\ zero_or_normal k (FR (sma_sum s) - FR old) /\
    Rabs (FR d + FR x) <= BIG /\ Rabs ((FR d + FR x) * bpow radix2 k) <= BIG /\ zero_or_normal k (FR d + FR x) /\
    Rabs (FR s1 / FR c) <= BIG /\ Rabs ((FR s1 / FR c) * bpow radix2 k) <= BIG /\ zero_or_normal k (FR s1 / FR c).

Lemma Forall2_nth_error_l {A B} (R : A -> B -> Prop) : forall l l' n a, Forall2 R l l' -> nth_error l n = Some a ->
  exists a', nth_error l' n = Some a' /\ R a a'.
Proof.
  intros l l' n a H. revert n. induction H as [|x y l l' Hxy _ IH]; intros [|n] Hn; cbn in *; try discriminate.
  - injection Hn as <-. exists y. split; [reflexivity|exact Hxy].
  - apply IH. exact Hn.
Qed.
Lemma Forall2_firstn {A B} (R : A -> B -> Prop) : forall n l l', Forall2 R l l' -> Forall2 R (firstn n l) (firstn n l').
Proof. induction n as [|n IH]; intros l l' H; [constructor|]. destruct H; cbn; constructor; [assumption|apply IH; assumption]. Qed.
Lemma Forall2_skipn {A B} (R : A -> B -> Prop) : forall n l l', Forall2 R l l' -> Forall2 R (skipn n l) (skipn n l').
Proof. induction n as [|n IH]; intros l l' H; [exact H|]. destruct H; cbn; [constructor|apply IH; assumption]. Qed.

Lemma F2_length {A B} (R : A -> B -> Prop) l l' : Forall2 R l l' -> length l = length l'.
Proof. induction 1; cbn; congruence. Qed.

Lemma idx_rel {A B} (R : A -> B -> Prop) l l' i a : Forall2 R l l' -> idx l i = Ok a -> exists a', idx l' i = Ok a' /\ R a a'.
Proof.
  intros H E. unfold idx in *. destruct (nth_error l (N.to_nat i)) as [x|] eqn:En; [|discriminate]. injection E as <-.
  destruct (Forall2_nth_error_l R l l' _ _ H En) as (a' & E' & Ra). exists a'. rewrite E'. split; [reflexivity|exact Ra].
Qed.
Lemma upd_rel {A B} (R : A -> B -> Prop) l l' i x x' m : Forall2 R l l' -> R x x' -> upd l i x = Ok m ->
  exists m', upd l' i x' = Ok m' /\ Forall2 R m m'.
Proof.
  intros H Rx E. unfold upd in *. rewrite <- (F2_length R l l' H).
  destruct (N.to_nat i <? length l)%nat; [|discriminate]. injection E as <-.
  exists (firstn (N.to_nat i) l' ++ x' :: skipn (S (N.to_nat i)) l'). split; [reflexivity|].
  apply Forall2_app; [apply Forall2_firstn; exact H|]. constructor; [exact Rx|exact (Forall2_skipn R (S (N.to_nat i)) l l' H)].
Qed.

Lemma sma_step_pow2 k s s' x x' s1 o : rel_sma k s s' -> scaled k x x' -> sma_step_ok k s x -> sma_next O s x = Ok (s1, o) ->
  exists s1' o', sma_next O s' x' = Ok (s1', o') /\ rel_sma k s1 s1' /\ scaled k o o'.
Proof.
  intros (Ep & Ei & Ec & Ss & Sd) Sx Hok E. unfold sma_next in *.
  rewrite <- Ep, <- Ei, <- Ec.
  destruct (idx (sma_deque s) (sma_index s)) as [old| |] eqn:Eo; cbn [bind] in E; try discriminate.
  destruct (idx_rel _ _ _ _ _ Sd Eo) as (old' & Eo' & So). rewrite Eo'. cbn [bind].
  destruct (upd (sma_deque s) (sma_index s) x) as [dq| |] eqn:Eu; cbn [bind] in E; try discriminate.
  destruct (upd_rel _ _ _ _ _ _ _ Sd Sx Eu) as (dq' & Eu' & Sdq). rewrite Eu'. cbn [bind].
  destruct (advance (sma_period s) (sma_index s)) as [ix| |] eqn:Ea; cbn [bind] in E; try discriminate. cbn [bind].
  destruct (if (sma_count s <? sma_period s)%N then uadd (sma_count s) 1 else Ok (sma_count s)) as [cnt| |] eqn:Ecn; cbn [bind] in E; try discriminate.
  cbn [bind]. injection E as <- <-.
  destruct (Hok old cnt Eo Ecn) as (Fc & Nc & A1 & A2 & A3 & B1 & B2 & B3 & C1 & C2 & C3).
  cbn [sub add div ofN O] in *.
  destruct (sma_update_pow2 k (sma_sum s) old x (sma_sum s') old' x' (f_ofN cnt) Ss So Sx Fc Nc A1 A2 A3 B1 B2 B3 C1 C2 C3) as [S1 S2].
  eexists _, _. split; [reflexivity|]. split; [|exact S2].
  repeat split; cbn [sma_period sma_index sma_count sma_sum sma_deque]; try assumption; try reflexivity; apply S1.
Qed.

Fixpoint sma_run_ok (k : Z) (s : @Sma float) (xs : list float) : Prop :=
  match xs with
  | [] => True
  | x :: xs => sma_step_ok k s x /\ exists s1 o, sma_next O s x = Ok (s1, o) /\ sma_run_ok k s1 xs    (* the step succeeds (C12) and meets the side conditions *)
  end.

Theorem sma_stream_pow2 k : forall xs xs' s s', rel_sma k s s' -> Forall2 (scaled k) xs xs' -> sma_run_ok k s xs ->
  Forall2 (scaled k) (res_outs (sma_next O) s xs) (res_outs (sma_next O) s' xs').
Proof.
  induction xs as [|x xs IH]; intros xs' s s' Hr Hx Hok; inversion Hx as [|? x' ? xs2 Sx Hx']; subst; cbn [res_outs]; [constructor|].
  destruct Hok as (Hs & s1 & o & E & Hn). rewrite E.
  destruct (sma_step_pow2 k s s' x x' s1 o Hr Sx Hs E) as (s1' & o' & E' & Hr' & So). rewrite E'.
  constructor; [exact So|]. apply IH; [exact Hr'|exact Hx'|exact Hn].
Qed.

(* two fresh instances are related (zeros are scaled zeros) *)
Lemma scaled_zero k : scaled k 0%float 0%float.
Proof. split; [reflexivity|]. split; [reflexivity|]. rewrite FR_zero. ring. Qed.
Lemma rel_sma_new k p s : sma_new O p = Ok s -> rel_sma k s s.
Proof.
  intros H. unfold sma_new in H. destruct (p =? 0)%N; [discriminate|].
  destruct (alloc p (zero O)) as [dq| |] eqn:Ea; cbn [bind] in H; try discriminate. injection H as <-.
  repeat split; cbn [sma_period sma_index sma_count sma_sum sma_deque]; try reflexivity; try (rewrite FR_zero; ring).
  unfold alloc in Ea. destruct (_ <=? _)%N in Ea; [|discriminate]. injection Ea as <-.
  induction (N.to_nat p) as [|n IHn]; cbn; constructor; [apply scaled_zero|exact IHn].
Qed.

Theorem sma_pow2_covariant k p s xs xs' : sma_new O p = Ok s -> Forall2 (scaled k) xs xs' -> sma_run_ok k s xs ->
  Forall2 (scaled k) (res_outs (sma_next O) s xs) (res_outs (sma_next O) s xs').
Proof. intros H Hx Hok. apply (sma_stream_pow2 k xs xs' s s); [apply (rel_sma_new k p); exact H|exact Hx|exact Hok]. Qed.

(* non-vacuity: a fresh SMA(2), the input 1.5 and k = 3 meet the side conditions (0 - 0 = 0 is a zero; 0 + 1.5 and 1.5 / 1 are normal) *)
Lemma nmin_le_1 : nmin <= 1. Proof. unfold nmin. change 1 with (bpow radix2 0). apply bpow_le. lia. Qed.
Lemma BIG_ge_16 : 16 <= BIG. Proof. unfold BIG. change 16 with (bpow radix2 4). apply bpow_le. lia. Qed.
Example sma_run_ok_example : exists s, sma_new O 2 = Ok s /\ sma_run_ok 3 s [1.5%float] /\ scaled 3 1.5%float 12%float.
Proof.
  eexists. split; [reflexivity|].
  assert (F15 : FR 1.5%float = 1.5) by (unfold FR; cbn; unfold F2R; cbn; lra).
  assert (F12 : FR 12%float = 12) by (unfold FR; cbn; unfold F2R; cbn; lra).
  assert (B3 : bpow radix2 3 = 8) by (cbn; lra).
  pose proof nmin_le_1 as Hn. pose proof BIG_ge_16 as HB.
  split.
  - cbn [sma_run_ok]. split.
    + intros old cnt Eo Ec. cbn in Eo. injection Eo as <-. cbn in Ec. injection Ec as <-.
      cbn zeta. cbn [sma_sum]. change (zero O) with 0%float.
      assert (Fc : FR (f_ofN 1) = 1) by (unfold FR; cbn; unfold F2R; cbn; lra).
      assert (Ed : (0 - 0)%float = 0%float) by reflexivity.
      assert (Es : (0 - 0 + 1.5)%float = 1.5%float) by reflexivity.
      rewrite Es, Ed, Fc, FR_zero, F15, B3.
      replace (0 - 0) with 0 by ring. replace (0 + 1.5) with 1.5 by ring. replace (1.5 / 1) with 1.5 by field.
      rewrite Rmult_0_l, Rabs_R0.
      assert (A15 : Rabs 1.5 = 1.5) by (apply Rabs_pos_eq; lra). assert (A12 : Rabs (1.5 * 8) = 12) by (rewrite Rabs_pos_eq; lra).
      unfold zero_or_normal. rewrite B3, A15, A12.
      repeat split; try reflexivity; try lra; try (left; reflexivity); try (right; lra).
    + eexists _, _. split; [reflexivity|exact I].
  - split; [reflexivity|]. split; [reflexivity|]. rewrite F12, F15, B3. lra.
Qed.
