(* Oscillators as compositions of their documented parts, for every number type (bit-exact for binary64):
   RSI from two EMAs of gains / losses seeded 0.1, FastStochastic from Minimum and Maximum, OBV as a signed running sum. *)
From TA Require Import Base Model Proofs.Wiring.

Section Osc.
Context {F : Type} (O : Ops F).

(* ---- RSI ---- *)
Fixpoint rsi_outs (s : @Rsi F) (xs : list F) : list F :=
  match xs with [] => [] | x :: xs => let '(s', o) := rsi_next O s x in o :: rsi_outs s' xs end.

(* the (gain, loss) pairs fed to the two EMAs: (0.1, 0.1) first, then (x - prev, 0) on a rise, else (0, prev - x) *)
Fixpoint rsi_moves (is_new : bool) (prev : F) (xs : list F) : list (F * F) :=
  match xs with
  | [] => []
  | x :: xs =>
      (if is_new then (c0_1 O, c0_1 O)
       else if ltb O prev x then (sub O x prev, zero O) else (zero O, sub O prev x)) :: rsi_moves false x xs
  end.

Lemma rsi_wiring : forall xs p up down prev is_new,
  rsi_outs (mkRsi p up down prev is_new) xs =
  map2 (fun u d => div O (mul O (c100 O) u) (add O u d))
       (ema_outs O up (map fst (rsi_moves is_new prev xs))) (ema_outs O down (map snd (rsi_moves is_new prev xs))).
Proof.
  induction xs as [|x xs IH]; intros p up down prev is_new; [reflexivity|].
  cbn [rsi_outs rsi_moves map ema_outs]. unfold rsi_next. cbn [rsi_is_new rsi_prev_val rsi_up rsi_down rsi_period].
  destruct is_new; [|destruct (ltb O prev x)]; cbn [fst snd];
    match goal with |- context [ema_next O up ?u] => destruct (ema_next O up u) as [ue uo] end;
    match goal with |- context [ema_next O down ?d] => destruct (ema_next O down d) as [de do_] end;
    cbn [map2]; f_equal; apply IH.
Qed.

(* ---- FastStochastic ---- *)
Definition stoch (x lo hi : F) : F :=
  if eqb O lo hi then c50 O else mul O (div O (sub O x lo) (sub O hi lo)) (c100 O).

Lemma fast_wiring : forall xs p mn mx,
  fast_outs O (mkFast p mn mx) xs = map3 stoch xs (min_outs' O mn xs) (max_outs' O mx xs).
Proof.
  induction xs as [|x xs IH]; intros p mn mx; [reflexivity|].
  unfold fast_outs, min_outs', max_outs' in *. cbn [res_outs].
  unfold fast_next. cbn [fast_minimum fast_maximum fast_period].
  destruct (min_next O mn x) as [[mn' lo]| |]; cbn [bind map3]; try reflexivity.
  destruct (max_next O mx x) as [[mx' hi]| |]; cbn [bind map3]; try reflexivity.
  f_equal. apply IH.
Qed.

(* bars: close against the lowest low and the highest high (note the symmetric test hi == lo) *)
Definition stoch_bar (c lo hi : F) : F :=
  if eqb O hi lo then c50 O else mul O (div O (sub O c lo) (sub O hi lo)) (c100 O).

Lemma fast_bar_wiring : forall bs p mn mx,
  fast_bar_outs O (mkFast p mn mx) bs =
  map3 stoch_bar (map b_close bs) (min_outs' O mn (map b_low bs)) (max_outs' O mx (map b_high bs)).
Proof.
  induction bs as [|b bs IH]; intros p mn mx; [reflexivity|].
  unfold fast_bar_outs, min_outs', max_outs' in *. cbn [res_outs map].
  unfold fast_next_bar. cbn [fast_minimum fast_maximum fast_period].
  destruct (max_next O mx (b_high b)) as [[mx' hi]| |]; cbn [bind map3].
  - destruct (min_next O mn (b_low b)) as [[mn' lo]| |]; cbn [bind map3]; try reflexivity. f_equal. apply IH.
  - destruct (min_next O mn (b_low b)) as [[mn' lo]| |]; reflexivity.
  - destruct (min_next O mn (b_low b)) as [[mn' lo]| |]; reflexivity.
Qed.

(* ---- OBV: running sum of +volume / -volume / 0 by the sign of the close change, first close compared with 0 ---- *)
Fixpoint obv_outs (s : @Obv F) (bs : list (Bar F)) : list F :=
  match bs with [] => [] | b :: bs => let '(s', o) := obv_next_bar O s b in o :: obv_outs s' bs end.

Fixpoint obv_rec (acc prev : F) (bs : list (Bar F)) : list F :=
  match bs with
  | [] => []
  | b :: bs =>
      let acc' := if ltb O prev (b_close b) then add O acc (b_volume b)
                  else if ltb O (b_close b) prev then sub O acc (b_volume b) else acc in
      acc' :: obv_rec acc' (b_close b) bs
  end.

Lemma obv_definition : forall bs acc prev, obv_outs (mkObv acc prev) bs = obv_rec acc prev bs.
Proof.
  induction bs as [|b bs IH]; intros acc prev; [reflexivity|].
  cbn [obv_outs obv_rec]. unfold obv_next_bar. cbn [obv_obv obv_prev_close]. f_equal. apply IH.
Qed.

Theorem obv_from_new : forall bs, obv_outs (obv_new O) bs = obv_rec (zero O) (zero O) bs.
Proof. intros. apply obv_definition. Qed.

End Osc.
