(* C14 on binary64, whole streams: StandardDeviation fed 2^k x returns 2^k SD(x) bit for bit (as values): the running mean scales by
   2^k, the running sum of squares m2 by 2^(2k) (a product of two scaled differences), the variance m2 / count by 2^(2k) and its correctly
   rounded square root by 2^k again — along every stream whose intermediate results are zero or normal before and after the scaling. *)
From Coq Require Import Reals Lra Lia ZArith List Floats.
From Flocq Require Import Core BinarySingleNaN PrimFloat.
From TA Require Import Base Model FloatInst Proofs.Wiring Proofs.FloatErr Proofs.FloatSma Proofs.FloatFast Proofs.FloatScale Proofs.FloatScaleSma Proofs.FloatScaleWma.
Import ListNotations.
Local Notation O := FOps.
Local Notation float := PrimFloat.float.
Local Notation fexp := (SpecFloat.fexp prec emax).
Local Notation RN := (round radix2 fexp (round_mode mode_NE)).
Open Scope R_scope.

Lemma bpow_double k : bpow radix2 (2 * k) = bpow radix2 k * bpow radix2 k.
Proof. replace (2 * k)%Z with (k + k)%Z by lia. apply bpow_plus. Qed.

(* a product of two quantities scaled by 2^k is scaled by 2^(2k) *)
Theorem fmul_scale2 k a b a' b' : scaled k a a' -> scaled k b b' -> okr (2 * k) (FR a * FR b) -> scaled (2 * k) (a * b)%float (a' * b')%float.
Proof.
  intros (Fa & Fa' & Ea) (Fb & Fb' & Eb) (H1 & H2 & Hz).
  destruct (fmul_exact a b Fa Fb H1) as [F1 E1].
  assert (Eq : FR a' * FR b' = (FR a * FR b) * bpow radix2 (2 * k)) by (rewrite Ea, Eb, bpow_double; ring).
  destruct (fmul_exact a' b' Fa' Fb') as [F2 E2]; [rewrite Eq; exact H2|].
  split; [exact F1|]. split; [exact F2|]. rewrite E2, E1, Eq. apply RN_mult_bpow0. exact Hz.
Qed.

(* the clamp `if m2 < 0.0 { 0.0 } else { m2 }` commutes with every scaling: the sign does not change *)
Definition clamp (m : float) : float := if (m <? 0)%float then 0%float else m.
Lemma clamp_scale j m m' : scaled j m m' -> scaled j (clamp m) (clamp m').
Proof.
  intros (Fm & Fm' & E). unfold clamp. rewrite !ltb_equiv. unfold finF in Fm, Fm'.
  rewrite !Bltb_correct by (try assumption; reflexivity).
  change (B2R (Prim2B 0)) with 0. fold (FR m) (FR m').
  pose proof (bpow_gt_0 radix2 j) as Hb.
  destruct (Rlt_bool_spec (FR m) 0) as [Hlt|Hge]; destruct (Rlt_bool_spec (FR m') 0) as [Hlt'|Hge']; rewrite E in *.
  - apply scaled_zero.
  - exfalso. assert (FR m * bpow radix2 j < 0) by nra. lra.
  - exfalso. assert (0 <= FR m * bpow radix2 j) by nra. lra.
  - split; [exact Fm|]. split; [exact Fm'|exact E].
Qed.

Lemma fsqrt_nonneg_fin y : finF y -> 0 <= FR y -> finF (PrimFloat.sqrt y) /\ FR (PrimFloat.sqrt y) = RN (R_sqrt.sqrt (FR y)).
Proof.
  intros Fy Hy. unfold finF, FR in *. rewrite sqrt_equiv.
  destruct (Bsqrt_correct prec emax Hprec Hmax mode_NE (Prim2B y)) as (E & Fin & _). split; [|exact E].
  rewrite Fin. destruct (Prim2B y) as [s|s| |s m e Hb]; try discriminate; try reflexivity.
  destruct s; [|reflexivity]. exfalso. cbn in Hy. unfold F2R in Hy. cbn in Hy.
  assert (0 < bpow radix2 e) by apply bpow_gt_0. assert (IZR (Z.neg m) < 0) by (apply IZR_lt; lia). nra.
Qed.

(* the correctly rounded square root of a quantity scaled by 2^(2k) is the root scaled by 2^k *)
Theorem fsqrt_scale k y y' : scaled (2 * k) y y' -> 0 <= FR y -> zero_or_normal k (R_sqrt.sqrt (FR y)) ->
  scaled k (PrimFloat.sqrt y) (PrimFloat.sqrt y').
Proof.
  intros (Fy & Fy' & E) Hy Hz.
  pose proof (bpow_gt_0 radix2 k) as Hb.
  assert (Hy' : 0 <= FR y') by (rewrite E; apply Rmult_le_pos; [exact Hy|apply bpow_ge_0]).
  destruct (fsqrt_nonneg_fin y Fy Hy) as [F1 E1]. destruct (fsqrt_nonneg_fin y' Fy' Hy') as [F2 E2].
  split; [exact F1|]. split; [exact F2|]. rewrite E2, E1, E, bpow_double.
  rewrite sqrt_mult by (try exact Hy; apply Rmult_le_pos; lra). rewrite sqrt_square by lra.
  apply RN_mult_bpow0. exact Hz.
Qed.

Definition rel_sd (k : Z) (s s' : @Sd float) : Prop :=
  sd_period s = sd_period s' /\ sd_index s = sd_index s' /\ sd_count s = sd_count s' /\
  scaled k (sd_m s) (sd_m s') /\ scaled (2 * k) (sd_m2 s) (sd_m2 s') /\ Forall2 (scaled k) (sd_deque s) (sd_deque s').

(* side conditions of the final two operations: variance = clamp(m2') / count (scaled by 2^(2k)), output = sqrt(variance) *)
Definition sd_tail_ok (k : Z) (m2' : float) (c : N) : Prop :=
  let cf := f_ofN c in let v := (clamp m2' / cf)%float in
  finF cf /\ FR cf <> 0 /\ okr (2 * k) (FR (clamp m2') / FR cf) /\ 0 <= FR v /\ zero_or_normal k (R_sqrt.sqrt (FR v)).

Definition sd_step_ok (k : Z) (s : @Sd float) (x : float) : Prop :=
  forall old, idx (sd_deque s) (sd_index s) = Ok old ->
    if (sd_count s <? sd_period s)%N
    then forall c, uadd (sd_count s) 1 = Ok c ->
         let cf := f_ofN c in
         let delta := (x - sd_m s)%float in let q := (delta / cf)%float in let m' := (sd_m s + q)%float in
         let delta2 := (x - m')%float in let pr := (delta * delta2)%float in let m2' := (sd_m2 s + pr)%float in
         finF cf /\ FR cf <> 0 /\
         okr k (FR x - FR (sd_m s)) /\ okr k (FR delta / FR cf) /\ okr k (FR (sd_m s) + FR q) /\ okr k (FR x - FR m') /\
         okr (2 * k) (FR delta * FR delta2) /\ okr (2 * k) (FR (sd_m2 s) + FR pr) /\ sd_tail_ok k m2' c
    else let pf := f_ofN (sd_period s) in
         let delta := (x - old)%float in let q := (delta / pf)%float in let m' := (sd_m s + q)%float in
         let t1 := (x - m')%float in let t2 := (t1 + old)%float in let delta2 := (t2 - sd_m s)%float in
         let pr := (delta * delta2)%float in let m2' := (sd_m2 s + pr)%float in
         finF pf /\ FR pf <> 0 /\
         okr k (FR x - FR old) /\ okr k (FR delta / FR pf) /\ okr k (FR (sd_m s) + FR q) /\ okr k (FR x - FR m') /\
         okr k (FR t1 + FR old) /\ okr k (FR t2 - FR (sd_m s)) /\
         okr (2 * k) (FR delta * FR delta2) /\ okr (2 * k) (FR (sd_m2 s) + FR pr) /\ sd_tail_ok k m2' (sd_count s).

Lemma sd_tail_pow2 k m2a m2b c : scaled (2 * k) m2a m2b -> sd_tail_ok k m2a c ->
  scaled (2 * k) (clamp m2a) (clamp m2b) /\ scaled k (PrimFloat.sqrt (clamp m2a / f_ofN c)) (PrimFloat.sqrt (clamp m2b / f_ofN c)).
Proof.
  intros S (Fc & Nc & (A1 & A2 & A3) & Hv & Hz).
  pose proof (clamp_scale _ _ _ S) as Sc. split; [exact Sc|].
  pose proof (fdiv_scale_by (2 * k) _ _ (f_ofN c) Sc Fc Nc A1 A2 A3) as Sv.
  exact (fsqrt_scale k _ _ Sv Hv Hz).
Qed.

Lemma sd_step_pow2 k s s' x x' s1 o : rel_sd k s s' -> scaled k x x' -> sd_step_ok k s x -> sd_next O s x = Ok (s1, o) ->
  exists s1' o', sd_next O s' x' = Ok (s1', o') /\ rel_sd k s1 s1' /\ scaled k o o'.
Proof.
  intros (Ep & Ei & Ec & Sm & Sm2 & Sd) Sx Hok E. unfold sd_next in *.
  rewrite <- Ep, <- Ei, <- Ec.
  destruct (idx (sd_deque s) (sd_index s)) as [old| |] eqn:Eo; cbn [bind] in E; try discriminate.
  destruct (idx_rel _ _ _ _ _ Sd Eo) as (old' & Eo' & So). rewrite Eo'. cbn [bind].
  destruct (upd (sd_deque s) (sd_index s) x) as [dq| |] eqn:Eu; cbn [bind] in E; try discriminate.
  destruct (upd_rel _ _ _ _ _ _ _ Sd Sx Eu) as (dq' & Eu' & Sdq). rewrite Eu'. cbn [bind].
  destruct (advance (sd_period s) (sd_index s)) as [ix| |] eqn:Ea; cbn [bind] in E; try discriminate. cbn [bind].
  pose proof (Hok old Eo) as Hbr.
  cbn [sub add mul div ofN ltb zero sqrt O] in *.
  destruct (sd_count s <? sd_period s)%N.
  - destruct (uadd (sd_count s) 1) as [c| |] eqn:Eua; cbn [bind] in E; try discriminate. cbn [bind].
    injection E as <- <-.
    destruct (Hbr c eq_refl) as (Fc & Nc & (A1 & A2 & A3) & (B1 & B2 & B3) & (C1 & C2 & C3) & (D1 & D2 & D3) & Hp & (G1 & G2 & G3) & Ht).
    pose proof (fsub_scale k _ _ _ _ Sx Sm A1 A2 A3) as Sdelta.
    pose proof (fdiv_scale_by k _ _ (f_ofN c) Sdelta Fc Nc B1 B2 B3) as Sq.
    pose proof (fadd_scale k _ _ _ _ Sm Sq C1 C2 C3) as Smn.
    pose proof (fsub_scale k _ _ _ _ Sx Smn D1 D2 D3) as Sd2.
    pose proof (fmul_scale2 k _ _ _ _ Sdelta Sd2 Hp) as Spr.
    pose proof (fadd_scale (2 * k) _ _ _ _ Sm2 Spr G1 G2 G3) as Sm2n.
    destruct (sd_tail_pow2 k _ _ c Sm2n Ht) as [Scl Sout].
    eexists _, _. split; [reflexivity|]. split; [|exact Sout].
    repeat split; cbn [sd_period sd_index sd_count sd_m sd_m2 sd_deque]; try assumption; try reflexivity; try apply Smn; try apply Scl.
  - cbn [bind] in E |- *. injection E as <- <-.
    destruct Hbr as (Fc & Nc & (A1 & A2 & A3) & (B1 & B2 & B3) & (C1 & C2 & C3) & (D1 & D2 & D3) & (I1 & I2 & I3) & (J1 & J2 & J3) & Hp & (G1 & G2 & G3) & Ht).
    pose proof (fsub_scale k _ _ _ _ Sx So A1 A2 A3) as Sdelta.
    pose proof (fdiv_scale_by k _ _ (f_ofN (sd_period s)) Sdelta Fc Nc B1 B2 B3) as Sq.
    pose proof (fadd_scale k _ _ _ _ Sm Sq C1 C2 C3) as Smn.
    pose proof (fsub_scale k _ _ _ _ Sx Smn D1 D2 D3) as St1.
    pose proof (fadd_scale k _ _ _ _ St1 So I1 I2 I3) as St2.
    pose proof (fsub_scale k _ _ _ _ St2 Sm J1 J2 J3) as Sd2.
    pose proof (fmul_scale2 k _ _ _ _ Sdelta Sd2 Hp) as Spr.
    pose proof (fadd_scale (2 * k) _ _ _ _ Sm2 Spr G1 G2 G3) as Sm2n.
    destruct (sd_tail_pow2 k _ _ (sd_count s) Sm2n Ht) as [Scl Sout].
    eexists _, _. split; [reflexivity|]. split; [|exact Sout].
    repeat split; cbn [sd_period sd_index sd_count sd_m sd_m2 sd_deque]; try assumption; try reflexivity; try apply Smn; try apply Scl.
Qed.

Fixpoint sd_run_ok (k : Z) (s : @Sd float) (xs : list float) : Prop :=
  match xs with
  | [] => True
  | x :: xs => sd_step_ok k s x /\ exists s1 o, sd_next O s x = Ok (s1, o) /\ sd_run_ok k s1 xs
  end.

Theorem sd_stream_pow2 k : forall xs xs' s s', rel_sd k s s' -> Forall2 (scaled k) xs xs' -> sd_run_ok k s xs ->
  Forall2 (scaled k) (res_outs (sd_next O) s xs) (res_outs (sd_next O) s' xs').
Proof.
  induction xs as [|x xs IH]; intros xs' s s' Hr Hx Hok; inversion Hx as [|? x' ? xs2 Sx Hx']; subst; cbn [res_outs]; [constructor|].
  destruct Hok as (Hs & s1 & o & E & Hn). rewrite E.
  destruct (sd_step_pow2 k s s' x x' s1 o Hr Sx Hs E) as (s1' & o' & E' & Hr' & So). rewrite E'.
  constructor; [exact So|]. apply IH; [exact Hr'|exact Hx'|exact Hn].
Qed.

Lemma rel_sd_new k p s : sd_new O p = Ok s -> rel_sd k s s.
Proof.
  intros H. unfold sd_new in H. destruct (p =? 0)%N; [discriminate|].
  destruct (alloc p (zero O)) as [dq| |] eqn:Ea; cbn [bind] in H; try discriminate. injection H as <-.
  repeat split; cbn [sd_period sd_index sd_count sd_m sd_m2 sd_deque]; try reflexivity; try (rewrite FR_zero; ring).
  unfold alloc in Ea. destruct (_ <=? _)%N in Ea; [|discriminate]. injection Ea as <-.
  induction (N.to_nat p) as [|n IHn]; cbn; constructor; [apply scaled_zero|exact IHn].
Qed.

Theorem sd_pow2_covariant k p s xs xs' : sd_new O p = Ok s -> Forall2 (scaled k) xs xs' -> sd_run_ok k s xs ->
  Forall2 (scaled k) (res_outs (sd_next O) s xs) (res_outs (sd_next O) s xs').
Proof. intros H Hx Hok. apply (sd_stream_pow2 k xs xs' s s); [apply (rel_sd_new k p); exact H|exact Hx|exact Hok]. Qed.
