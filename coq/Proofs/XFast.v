(* FastStochastic over the exact carrier: Minimum/Maximum instantiate the total-order hypotheses on finite reals,
   hence the oscillator is the documented formula on the window extremes, lies in [0,100], and is the literal 50 on a
   flat window. SlowStochastic = EMA of it stays in [0,100]. *)
From Coq Require Import Reals Lra Lia.
From TA Require Import Base Model XR Proofs.Prims Proofs.WF Proofs.Ring Proofs.XBase Proofs.MinMaxProofs Proofs.Wiring Proofs.Osc Proofs.XEma.
Open Scope R_scope.

Local Notation O := XROps.

Definition finP (a : XR) : Prop := match a with Fin _ | PInf => True | _ => False end.
Definition finN (a : XR) : Prop := match a with Fin _ | NInf => True | _ => False end.

Lemma order_min : order_on (ltb O) (inf O) finP.
Proof.
  constructor.
  - intros [r| | |] H; cbn in *; try contradiction; [unfold xr_ltb; destruct (Rlt_dec r r); [lra|reflexivity]|reflexivity].
  - intros [a| | |] [b| | |] [c| | |] Ha Hb Hc; cbn in *; try contradiction; unfold xr_ltb; intros H1 H2;
      repeat match goal with |- context [Rlt_dec ?x ?y] => destruct (Rlt_dec x y) | H : context [Rlt_dec ?x ?y] |- _ => destruct (Rlt_dec x y) end;
      try reflexivity; try discriminate; lra.
  - intros [a| | |] [b| | |] Ha Hb; cbn in *; try contradiction; unfold xr_ltb; intros H1 H2;
      repeat match goal with H : context [Rlt_dec ?x ?y] |- _ => destruct (Rlt_dec x y) end; try discriminate; try reflexivity.
    f_equal. lra.
  - intros [a| | |] H; cbn in *; try contradiction; reflexivity.
  - exact I.
Qed.

Lemma order_max : order_on (fun a b => ltb O b a) (ninf O) finN.
Proof.
  constructor.
  - intros [r| | |] H; cbn in *; try contradiction; [unfold xr_ltb; destruct (Rlt_dec r r); [lra|reflexivity]|reflexivity].
  - intros [a| | |] [b| | |] [c| | |] Ha Hb Hc; cbn in *; try contradiction; unfold xr_ltb; intros H1 H2;
      repeat match goal with |- context [Rlt_dec ?x ?y] => destruct (Rlt_dec x y) | H : context [Rlt_dec ?x ?y] |- _ => destruct (Rlt_dec x y) end;
      try reflexivity; try discriminate; lra.
  - intros [a| | |] [b| | |] Ha Hb; cbn in *; try contradiction; unfold xr_ltb; intros H1 H2;
      repeat match goal with H : context [Rlt_dec ?x ?y] |- _ => destruct (Rlt_dec x y) end; try discriminate; try reflexivity.
    f_equal. lra.
  - intros [a| | |] H; cbn in *; try contradiction; reflexivity.
  - exact I.
Qed.

Lemma Forall_finP xs : Forall finP (map Fin xs).
Proof. apply Forall_forall. intros a Ha. apply in_map_iff in Ha as (r & <- & _). exact I. Qed.
Lemma Forall_finN xs : Forall finN (map Fin xs).
Proof. apply Forall_forall. intros a Ha. apply in_map_iff in Ha as (r & <- & _). exact I. Qed.

Lemma min_outs_same (s : @Min XR) xs : min_outs' O s xs = min_outs O s xs.
Proof. revert s; induction xs as [|x xs IH]; intros s; [reflexivity|]. unfold min_outs' in *. cbn [res_outs min_outs]. destruct (min_next O s x) as [[s' o]| |]; [|reflexivity|reflexivity]. f_equal; try apply IH. Qed.
Lemma max_outs_same (s : @Max XR) xs : max_outs' O s xs = max_outs O s xs.
Proof. revert s; induction xs as [|x xs IH]; intros s; [reflexivity|]. unfold max_outs' in *. cbn [res_outs max_outs]. destruct (max_next O s x) as [[s' o]| |]; [|reflexivity|reflexivity]. f_equal; try apply IH. Qed.

Lemma Forall_map3 {A B C D} (f : A -> B -> C -> D) (P : D -> Prop) a b c da db dc :
  length b = length a -> length c = length a ->
  (forall k, (k < length a)%nat -> P (f (nth k a da) (nth k b db) (nth k c dc))) -> Forall P (map3 f a b c).
Proof.
  revert b c; induction a as [|x a IH]; intros [|y b] [|z c] Lb Lc H; cbn in *; try discriminate; constructor.
  - exact (H 0%nat ltac:(lia)).
  - apply IH; [lia|lia|]. intros k Hk. exact (H (S k) ltac:(lia)).
Qed.

Lemma map3_length {A B C D} (f : A -> B -> C -> D) a b c :
  length b = length a -> length c = length a -> length (map3 f a b c) = length a.
Proof.
  revert b c; induction a as [|x a IH]; intros [|y b] [|z c] Lb Lc; cbn in *; try discriminate; try reflexivity.
  f_equal. apply IH; lia.
Qed.

Lemma map3_nth {A B C D} (f : A -> B -> C -> D) a b c k da db dc dd :
  length b = length a -> length c = length a -> (k < length a)%nat ->
  nth k (map3 f a b c) dd = f (nth k a da) (nth k b db) (nth k c dc).
Proof.
  revert k b c; induction a as [|x a IH]; intros k [|y b] [|z c] Lb Lc Hk; cbn in *; try discriminate; try lia.
  destruct k as [|k]; [reflexivity|]. apply IH; lia.
Qed.

(* the window extremes of finite reals are finite reals bracketing every element of the window *)
Lemma least_fin l a : l <> [] -> least_in O (map Fin l) a -> exists m, a = Fin m /\ forall y, In y l -> m <= y.
Proof.
  intros Hne [Hin Hle]. apply in_map_iff in Hin as (m & <- & Hm). exists m. split; [reflexivity|].
  intros y Hy. specialize (Hle (Fin y) (in_map Fin l y Hy)). apply xr_ltb_fin_false in Hle. exact Hle.
Qed.
Lemma greatest_fin l a : l <> [] -> greatest_in O (map Fin l) a -> exists m, a = Fin m /\ forall y, In y l -> y <= m.
Proof.
  intros Hne [Hin Hle]. apply in_map_iff in Hin as (m & <- & Hm). exists m. split; [reflexivity|].
  intros y Hy. specialize (Hle (Fin y) (in_map Fin l y Hy)). apply xr_ltb_fin_false in Hle. exact Hle.
Qed.

Lemma lastn_map' {A B} (f : A -> B) n l : lastn n (map f l) = map f (lastn n l).
Proof. unfold lastn. rewrite map_length, skipn_map. reflexivity. Qed.

(* FastStochastic on scalars: documented formula on the window extremes; in [0,100]; 50 on a flat window *)
Theorem fast_char : forall p s (xs : list R), fast_new O p = Ok s ->
  let outs := fast_outs O s (map Fin xs) in
  length outs = length xs /\
  forall k, (k < length xs)%nat ->
    let w := lastn (N.to_nat p) (firstn (S k) xs) in
    exists mn mx, (forall y, In y w -> mn <= y <= mx) /\ In mn w /\ In mx w /\
      nth k outs XNaN = (if Req_EM_T mn mx then Fin 50 else Fin ((nth k xs 0 - mn) / (mx - mn) * 100)) /\
      (exists r, nth k outs XNaN = Fin r /\ 0 <= r <= 100).
Proof.
  intros p s xs H outs. unfold fast_new in H.
  destruct (min_new O p) as [mn0| |] eqn:Emn; cbn in H; try discriminate.
  destruct (max_new O p) as [mx0| |] eqn:Emx; cbn in H; try discriminate. injection H as <-.
  pose proof (min_new_inv O p mn0 Emn) as (Hp0 & Hpa & _ & _).
  rewrite min_new_ok in Emn by assumption. injection Emn as <-.
  rewrite max_new_ok in Emx by assumption. injection Emx as <-.
  assert (Hp : (0 < p)%N) by lia.
  destruct (min_least O finP order_min p 0 0 (map Fin xs) Hp Hpa Hp Hp (Forall_finP xs)) as [Lmin Cmin].
  destruct (max_greatest O finN p 0 0 (map Fin xs) order_max Hp Hpa Hp Hp (Forall_finN xs)) as [Lmax Cmax].
  unfold outs. rewrite fast_wiring, min_outs_same, max_outs_same. rewrite map_length in *.
  set (mins := min_outs O _ _) in *. set (maxs := max_outs O _ _) in *.
  assert (Lo : length (map3 (stoch O) (map Fin xs) mins maxs) = length xs).
  { rewrite map3_length; rewrite ?map_length; auto. }
  split; [exact Lo|]. intros k Hk. set (w := lastn (N.to_nat p) (firstn (S k) xs)).
  specialize (Cmin k Hk). specialize (Cmax k Hk). rewrite firstn_map in Cmin, Cmax. rewrite lastn_map' in Cmin, Cmax. fold w in Cmin, Cmax.
  assert (Hw : w <> []).
  { unfold w. intros E. apply (f_equal (@length R)) in E. rewrite lastn_length, firstn_length in E. cbn [length] in E. lia. }
  destruct (least_fin w _ Hw Cmin) as (mn & Emn & Hmn). destruct (greatest_fin w _ Hw Cmax) as (mx & Emx & Hmx).
  assert (Imn : In mn w) by (destruct Cmin as [I _]; rewrite Emn in I; apply in_map_iff in I as (y & Ey & Iy); injection Ey as ->; exact Iy).
  assert (Imx : In mx w) by (destruct Cmax as [I _]; rewrite Emx in I; apply in_map_iff in I as (y & Ey & Iy); injection Ey as ->; exact Iy).
  exists mn, mx. split; [intros y Hy; split; [apply Hmn|apply Hmx]; exact Hy|]. split; [exact Imn|]. split; [exact Imx|].
  (* the k-th output *)
  assert (En : nth k (map3 (stoch O) (map Fin xs) mins maxs) XNaN = stoch O (Fin (nth k xs 0)) (Fin mn) (Fin mx)).
  { rewrite (map3_nth _ _ _ _ k (Fin 0) (inf O) (ninf O)); rewrite ?map_length; auto.
    rewrite Emn, Emx. f_equal. change (Fin 0) with (Fin 0%R). rewrite map_nth. reflexivity. }
  rewrite En. unfold stoch.
  assert (Hx : mn <= nth k xs 0 <= mx).
  { assert (In (nth k xs 0) w).
    { unfold w. replace (firstn (S k) xs) with (firstn k xs ++ [nth k xs 0]).
      - apply lastn_last. lia.
      - clear -Hk. revert k Hk; induction xs as [|x xs IH]; intros k Hk; [cbn in Hk; lia|]. destruct k as [|k]; [reflexivity|].
        cbn [firstn nth app]. f_equal. apply IH. cbn in Hk; lia. }
    split; [apply Hmn|apply Hmx]; assumption. }
  destruct (Req_EM_T mn mx) as [E|E].
  - assert (Eb : eqb O (Fin mn) (Fin mx) = true) by (apply xr_eqb_fin; exact E). rewrite Eb.
    split; [reflexivity|]. exists 50. split; [reflexivity|lra].
  - assert (Eb : eqb O (Fin mn) (Fin mx) = false).
    { destruct (eqb O (Fin mn) (Fin mx)) eqn:Q; [apply xr_eqb_fin in Q; contradiction|reflexivity]. }
    rewrite Eb. xfin. rewrite xr_div_fin by lra. xfin.
    split; [reflexivity|]. eexists. split; [reflexivity|]. apply stoch_range; [exact Hx|exact E].
Qed.
