(* Rounding-error facts about Coq's primitive binary64 operations, through Flocq: whenever the exact result r of
   + - / on finite floats stays below 2^1000 in magnitude, the computed result is finite and equals
   r*(1+eps) + eta with |eps| <= 2^-53, |eta| <= 2^-1075. *)
From Coq Require Import Reals Lra ZArith Floats Lia SpecFloat.
From Flocq Require Import Core BinarySingleNaN PrimFloat Relative.
Open Scope R_scope.

Local Notation B := (binary_float prec emax).
Definition FR (x : PrimFloat.float) : R := B2R (Prim2B x).
Definition finF (x : PrimFloat.float) : Prop := is_finite (Prim2B x) = true.
Definition u : R := / 2 * bpow radix2 (- prec + 1).
Definition eta : R := / 2 * bpow radix2 (3 - emax - prec).
Definition BIG : R := bpow radix2 1000.

Local Notation fexp := (SpecFloat.fexp prec emax).
Local Notation RN := (round radix2 fexp (round_mode mode_NE)).

Lemma RN_bounded r : Rabs r <= BIG -> Rabs (RN r) <= BIG.
Proof.
  intros H. apply abs_round_le_generic; [apply (fexp_correct prec emax Hprec)|apply valid_rnd_round_mode| |exact H].
  apply generic_format_bpow. unfold SpecFloat.fexp, SpecFloat.emin. cbn. lia.
Qed.

Lemma RN_lt_emax r : Rabs r <= BIG -> Rlt_bool (Rabs (RN r)) (bpow radix2 emax) = true.
Proof.
  intros H. apply Rlt_bool_true. apply Rle_lt_trans with BIG; [apply RN_bounded; exact H|].
  apply bpow_lt. reflexivity.
Qed.

Lemma RN_err r : exists eps et, Rabs eps <= u /\ Rabs et <= eta /\ RN r = r * (1 + eps) + et.
Proof.
  destruct (error_N_FLT radix2 (3 - emax - prec) prec ltac:(reflexivity) (fun x => negb (Z.even x)) r) as (eps & et & H1 & H2 & _ & H3).
  exists eps, et. split; [exact H1|]. split; [exact H2|]. exact H3.
Qed.

Theorem fadd_err a b : finF a -> finF b -> Rabs (FR a + FR b) <= BIG ->
  finF (a + b)%float /\ exists eps et, Rabs eps <= u /\ Rabs et <= eta /\ FR (a + b)%float = (FR a + FR b) * (1 + eps) + et.
Proof.
  intros Fa Fb Hb. unfold finF, FR in *. rewrite add_equiv.
  pose proof (Bplus_correct prec emax Hprec Hmax mode_NE (Prim2B a) (Prim2B b) Fa Fb) as H.
  rewrite (RN_lt_emax _ Hb) in H. destruct H as (E & Fin & _).
  split; [exact Fin|]. rewrite E. apply RN_err.
Qed.

Theorem fsub_err a b : finF a -> finF b -> Rabs (FR a - FR b) <= BIG ->
  finF (a - b)%float /\ exists eps et, Rabs eps <= u /\ Rabs et <= eta /\ FR (a - b)%float = (FR a - FR b) * (1 + eps) + et.
Proof.
  intros Fa Fb Hb. unfold finF, FR in *. rewrite sub_equiv.
  pose proof (Bminus_correct prec emax Hprec Hmax mode_NE (Prim2B a) (Prim2B b) Fa Fb) as H.
  rewrite (RN_lt_emax _ Hb) in H. destruct H as (E & Fin & _).
  split; [exact Fin|]. rewrite E. apply RN_err.
Qed.

Theorem fdiv_err a b : finF a -> FR b <> 0 -> Rabs (FR a / FR b) <= BIG ->
  finF (a / b)%float /\ exists eps et, Rabs eps <= u /\ Rabs et <= eta /\ FR (a / b)%float = (FR a / FR b) * (1 + eps) + et.
Proof.
  intros Fa Nb Hb. unfold finF, FR in *. rewrite div_equiv.
  pose proof (Bdiv_correct prec emax Hprec Hmax mode_NE (Prim2B a) (Prim2B b) Nb) as H.
  rewrite (RN_lt_emax _ Hb) in H. destruct H as (E & Fin & _).
  split; [rewrite Fin; exact Fa|]. rewrite E. apply RN_err.
Qed.

(* ---- exact constants and conversions ---- *)
From TA Require Import Base FloatInst.
Open Scope R_scope.
Lemma FR_zero : FR 0%float = 0. Proof. reflexivity. Qed.
Lemma finF_zero : finF 0%float. Proof. reflexivity. Qed.

Lemma f_ofN_exact n : (n < 9007199254740992)%N -> finF (f_ofN n) /\ FR (f_ofN n) = IZR (Z.of_N n).
Proof.
  intros Hn. unfold f_ofN. destruct (N.ltb_spec n 4611686018427387904) as [_|H]; [|lia].
  unfold finF, FR. rewrite of_int63_equiv.
  assert (Hz : Uint63.to_Z (Uint63.of_Z (Z.of_N n)) = Z.of_N n).
  { rewrite Uint63.of_Z_spec. apply Z.mod_small. cbn. lia. }
  rewrite Hz.
  pose proof (binary_normalize_correct prec emax Hprec Hmax mode_NE (Z.of_N n) 0%Z false) as H. cbv zeta in H.
  assert (Ex : F2R (Float radix2 (Z.of_N n) 0%Z) = IZR (Z.of_N n)) by (unfold F2R; cbn; lra).
  rewrite Ex in H.
  assert (G : generic_format radix2 (SpecFloat.fexp prec emax) (IZR (Z.of_N n))).
  { rewrite <- Ex. apply generic_format_F2R. intros Nz. unfold cexp. rewrite Ex.
    unfold SpecFloat.fexp, SpecFloat.emin. cbn.
    assert (Hm : (mag radix2 (IZR (Z.of_N n)) <= 53)%Z).
    { apply mag_le_bpow; [apply IZR_neq; exact Nz|]. rewrite <- abs_IZR. change (bpow radix2 53) with (IZR (2 ^ 53)). apply IZR_lt. lia. }
    change prec with 53%Z. lia. }
  rewrite round_generic in H by (try apply valid_rnd_round_mode; exact G).
  rewrite Rlt_bool_true in H.
  - destruct H as (E & Fin & _). split; assumption.
  - rewrite <- abs_IZR. change (bpow radix2 emax) with (IZR (2 ^ 1024)). apply IZR_lt. cbn. lia.
Qed.

Theorem fmul_err a b : finF a -> finF b -> Rabs (FR a * FR b) <= BIG ->
  finF (a * b)%float /\ exists eps et, Rabs eps <= u /\ Rabs et <= eta /\ FR (a * b)%float = (FR a * FR b) * (1 + eps) + et.
Proof.
  intros Fa Fb Hb. unfold finF, FR in *. rewrite mul_equiv.
  pose proof (Bmult_correct prec emax Hprec Hmax mode_NE (Prim2B a) (Prim2B b)) as H.
  rewrite (RN_lt_emax _ Hb) in H. destruct H as (E & Fin & _).
  split; [rewrite Fin, Fa, Fb; reflexivity|]. rewrite E. apply RN_err.
Qed.

Lemma FR_one : FR 1%float = 1. Proof. unfold FR. cbn. unfold F2R. cbn. lra. Qed.
Lemma FR_two : FR 2%float = 2. Proof. unfold FR. cbn. unfold F2R. cbn. lra. Qed.
Lemma finF_one : finF 1%float. Proof. reflexivity. Qed.
Lemma finF_two : finF 2%float. Proof. reflexivity. Qed.
