(* Run.v — evaluation of correspondence cases inside coqc (vm_compute): the harness ships the
   op list together with what the implementation returned; [check_case] runs the float
   instance of the model on the same ops and reports the first op whose observable differs
   (bit-exact, NaN canonicalised), then compares the byte images of the final states. *)
From Coq Require Import Floats String Uint63 SpecFloat.
From TA Require Import Base Model Generic FloatInst.
Open Scope N_scope.

Definition fop := @op float.
Definition fobs := @obs float.

(* short constructors with argument scopes, used by the generated case files *)
Definition Pm (a b c : N) (m : float) : @Params float := mkParams a b c m.
Arguments Pm (a b c)%N m%float.
Definition oN (s : nat) (k : Kind) (p : @Params float) : fop := ONew s k p.
Definition oD (s : nat) (k : Kind) : fop := ODef s k.
Definition oX (s : nat) (x : float) : fop := ONext s x.
Arguments oX s%nat x%float.
Definition oB (s : nat) (o h l c v : float) : fop := OBar s (mkBar o h l c v).
Arguments oB s%nat (o h l c v)%float.
Definition oI (s : nat) (o h l c v : float) : fop := OItem s (mkBar o h l c v).
Arguments oI s%nat (o h l c v)%float.
Definition oR (s : nat) : fop := OReset s.
Definition oC (s d : nat) : fop := OClone s d.
Definition oS (s : nat) : fop := OSerde s.
Definition oP (s : nat) : fop := OProbe s.
Definition oK (s : nat) : fop := ODrop s.
Definition oU (calls : list (Setter * float)) : fop := OBuild calls.
Definition bB (o h l c v : float) : fobs := BBuilt (mkBar o h l c v).

Definition b1 (x : float) : fobs := BOut [x].
Arguments b1 x%float.
Definition b2 (x y : float) : fobs := BOut [x; y].
Arguments b2 (x y)%float.
Definition b3 (x y z : float) : fobs := BOut [x; y; z].
Arguments b3 (x y z)%float.
(* probe as reported by the harness: kind, displayed usize args, multiplier, period() *)
Definition bP (k : Kind) (args : list N) (m : option float) (p : option N) : fobs := BProbe k args m p.
Arguments bP k args%N m%float p%N.

Definition opt_eqb {A} (e : A -> A -> bool) (a b : option A) : bool :=
  match a, b with Some x, Some y => e x y | None, None => true | _, _ => false end.
Fixpoint list_eqb {A} (e : A -> A -> bool) (a b : list A) : bool :=
  match a, b with [], [] => true | x :: a, y :: b => e x y && list_eqb e a b | _, _ => false end.
Definition err_eqb (a b : TaError) : bool :=
  match a, b with
  | InvalidParameter, InvalidParameter | DataItemIncomplete, DataItemIncomplete
  | DataItemInvalid, DataItemInvalid => true | _, _ => false end.

Definition obs_eqb (a b : fobs) : bool :=
  match a, b with
  | BOk, BOk | BPanic, BPanic | BDead, BDead | BNoScalar, BNoScalar => true
  | BErr x, BErr y => err_eqb x y
  | BOut x, BOut y => beq_list x y
  | BProbe k1 a1 m1 p1, BProbe k2 a2 m2 p2 =>
      Kind_eqb k1 k2 && list_eqb N.eqb a1 a2 && opt_eqb beq m1 m2 && opt_eqb N.eqb p1 p2
  | BBuilt x, BBuilt y =>
      beq (b_open x) (b_open y) && beq (b_high x) (b_high y) && beq (b_low x) (b_low y) &&
      beq (b_close x) (b_close y) && beq (b_volume x) (b_volume y)
  | _, _ => false end.

(* state images are shipped as the values of consecutive 4-byte little-endian chunks, written as
   float literals (number literals of type N are slow to parse), plus the byte length *)
Record case := mkCase { c_ops : list fop; c_exp : list fobs; c_img : list (nat * list float * N) }.

Definition le_bytes (k : nat) (n : N) : list N :=
  (fix go (k : nat) (n : N) : list N := match k with O => [] | S k => (n mod 256) :: go k (n / 256) end) k n.

Definition item_to_bytes (i : @item float) : list N :=
  match i with U64 n => le_bytes 8 n | F64 f => le_bytes 8 (float_bits f) | U8 n => [n] end.

Fixpoint group4 (l : list N) : list N :=
  match l with
  | a :: b :: c :: d :: r => (a + 256 * b + 65536 * c + 16777216 * d) :: group4 r
  | [a; b; c] => [a + 256 * b + 65536 * c]
  | [a; b] => [a + 256 * b]
  | [a] => [a]
  | [] => []
  end.

Definition n2f (n : N) : float := PrimFloat.of_uint63 (Uint63.of_Z (Z.of_N n)).
Definition chunks (s : @St float) : list float := map n2f (group4 (flat_map item_to_bytes (ser s))).
Fixpoint feq_list (a b : list float) : bool :=
  match a, b with [], [] => true | x :: a, y :: b => PrimFloat.eqb x y && feq_list a b | _, _ => false end.

(* index (from 1) of the first differing observation; 0 if none *)
Fixpoint first_diff (k : N) (a b : list fobs) : N :=
  match a, b with
  | [], [] => 0
  | x :: a, y :: b => if obs_eqb x y then first_diff (k + 1) a b else k
  | _, _ => k
  end.

(* integer value of a shipped chunk literal (< 2^32) *)
Definition f2n (v : float) : N :=
  match Prim2SF v with
  | S754_finite false m e => Z.to_N (Z.shiftl (Zpos m) e)
  | _ => 0 end.

Fixpoint take_le (k : nat) (l : list N) : option (N * list N) :=
  match k with
  | O => Some (0, l)
  | S k => match l with
           | b :: r => match take_le k r with Some (v, r') => Some (b + 256 * v, r') | None => None end
           | [] => None end
  end.

(* any NaN bit pattern: exponent all ones, mantissa non-zero (sign and payload are not modelled) *)
Definition is_nan_word (w : N) : bool :=
  (N.land (N.shiftr w 52) 2047 =? 2047) && negb (N.land w 4503599627370495 =? 0).

(* the implementation's bytes against the model's items, item by item *)
Fixpoint match_items (items : list (@item float)) (bytes : list N) : bool :=
  match items with
  | [] => match bytes with [] => true | _ => false end
  | U8 n :: r => match bytes with b :: bs => (b =? n) && match_items r bs | [] => false end
  | U64 n :: r => match take_le 8 bytes with Some (v, bs) => (v =? n) && match_items r bs | None => false end
  | F64 f :: r => match take_le 8 bytes with
                  | Some (v, bs) => (if PrimFloat.is_nan f then is_nan_word v else v =? float_bits f) && match_items r bs
                  | None => false end
  end.

Definition img_ok (st : @store float) (e : nat * list float * N) : bool :=
  let '(slot, v, n) := e in
  match sget st slot with
  | None => false
  | Some s => (n =? ser_len s) &&
              match_items (ser s) (firstn (N.to_nat n) (flat_map (fun c => le_bytes 4 (f2n c)) v))
  end.

(* 0 = agreement; k = first differing op (from 1); 1000000 + j = state image j differs *)
Definition check_case (c : case) : N :=
  let '(st, os) := run FOps [] (c_ops c) in
  match first_diff 1 os (c_exp c) with
  | 0 => (fix go (j : N) (l : list (nat * list float * N)) : N :=
            match l with [] => 0 | e :: r => if img_ok st e then go (j + 1) r else 1000000 + j end)
           1 (c_img c)
  | k => k end.

(* numeric dump of the model's observations, for replay files *)
Definition dump_obs (o : fobs) : list N :=
  match o with
  | BOk => [0] | BErr InvalidParameter => [1; 0] | BErr DataItemIncomplete => [1; 1]
  | BErr DataItemInvalid => [1; 2] | BPanic => [2] | BDead => [3] | BNoScalar => [4]
  | BOut l => 5 :: map float_bits l
  | BProbe _ a m p => 6 :: a ++ match m with Some f => [float_bits f] | None => [] end
                        ++ match p with Some n => [n] | None => [] end
  | BBuilt b => [7; float_bits (b_open b); float_bits (b_high b); float_bits (b_low b); float_bits (b_close b); float_bits (b_volume b)]
  end.
Definition dump_case (c : case) : list (list N) :=
  map dump_obs (snd (run FOps [] (c_ops c))).

(* the outputs of the last operation of a run on the float instance (used by the refutation witnesses) *)
Definition last_out (ops : list fop) : list float :=
  match last (snd (run FOps [] ops)) BDead with BOut o => o | _ => [] end.
