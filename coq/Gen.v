(* Gen.v — twin of /verif/harness/src/gen.rs: a 63-bit xorshift PRNG and stream regimes built only from exact
   integer->float conversions and correctly rounded + - * /, so that this model (primitive floats under vm_compute)
   and the harness see bit-identical streams without shipping them; plus the rolling hash of outputs and the
   long-stream checker (T1 at checkpoints + hash over all outputs, T2 at checkpoints against a fresh exact run on
   the current window). Definitions only. *)
From Coq Require Import Floats Uint63 SpecFloat QArith.
From TA Require Import Base Model Generic FloatInst XQ Run Run2.
Open Scope uint63_scope.

Definition xs (s : int) : int :=
  let s := s lxor (s << 13) in
  let s := s lxor (s >> 7) in
  s lxor (s << 17).

Definition unit_of (s : int) : float := (PrimFloat.of_uint63 (s >> 10) * 0x1p-53)%float.

Record gen := mkGen { g_gen : int; g_seed : int; g_len : N; g_a : float; g_b : float; g_every : N; g_mode : int }.   (* mode: 0 scalar, 1 bar, 2 one-price bar *)
Record gs := mkGs { s_s : int; s_x : float; s_k : int }.

Definition g_init (g : gen) : gs := mkGs (xs (xs (g_seed g lor 1))) (g_a g) 0.

Definition g_step (g : gen) (st : gs) : gs * float :=
  let s := xs (s_s st) in
  let u := unit_of s in
  let a := g_a g in let b := g_b g in
  let k := s_k st in
  let x :=
    if g_gen g =? 0 then (a + (b - a) * u)%float
    else if g_gen g =? 1 then
      let y := (s_x st * (0x1.fae147ae147aep-1 + 0x1.47ae147ae147bp-6 * u))%float in
      if (y <? a)%float then a else if (b <? y)%float then b else y
    else if g_gen g =? 2 then
      if (k mod 2 =? 0) then (a * (1 + u * 0.0009765625))%float else (b * (1 - u * 0.0009765625))%float
    else if g_gen g =? 3 then
      if ((s >> 3) mod 64 =? 0) then b else (a * (1 + u))%float
    else if g_gen g =? 4 then
      if (k =? 0) || ((s >> 3) mod 32 =? 0) then (a + (b - a) * u)%float else s_x st
    else if g_gen g =? 5 then (a + (b - a) * (PrimFloat.of_uint63 (k mod 97) / 97))%float
    else if g_gen g =? 6 then a
    else if g_gen g =? 7 then
      if ((s >> 3) mod 64 =? 0) then b else (a * (1 + u * 0x1p-26))%float
    else (a + (b - a) * u)%float in
  (mkGs s x (k + 1), x).

Definition g_bar (g : gen) (st : gs) : gs * Bar float :=
  let '(st, x) := g_step g st in
  let s1 := xs (s_s st) in let u1 := unit_of s1 in
  let s2 := xs s1 in let u2 := unit_of s2 in
  let s3 := xs s2 in let u3 := unit_of s3 in
  let s4 := xs s3 in let u4 := unit_of s4 in
  let h := (x * (1 + u1 * 0.015625))%float in
  let l := (x * (1 - u2 * 0.015625))%float in
  let c0 := (l + (h - l) * u3)%float in
  let c := if (h <? c0)%float then h else c0 in
  let v := if ((s4 >> 5) mod 8 =? 0) then 0%float else (1000 * u4)%float in
  (mkGs s4 (s_x st) (s_k st), if g_mode g =? 2 then mkBar x x x x v else mkBar x h l c v).

(* hash of a float: (mantissa in [2^52,2^53), exponent, class), as in gen.rs:decomp *)
Definition K : int := 0x100000001B3.
Definition mix (h : int) (x : float) : int :=
  let '(m, e, c) :=
    match Prim2SF x with
    | S754_nan => (0, 5000, 1)
    | S754_infinity false => (0, 5000, 2)
    | S754_infinity true => (0, 5000, 3)
    | S754_zero false => (0, 5000, 4)
    | S754_zero true => (0, 5000, 5)
    | S754_finite s m e =>
        let sh := (53 - Zpos (SpecFloat.digits2_pos m))%Z in
        (Uint63.of_Z (Z.shiftl (Zpos m) sh), Uint63.of_Z (e - sh + 53 + 5000), if s then 7 else 6)
    end in
  let h1 := h * K + m in
  let h2 := h1 * K + e in
  h2 * K + c.

Definition h0 : int := 1469598103934665603.   (* already < 2^63 *)

(* run the float model over the generated stream; collect outputs at checkpoints, the hash, and the tail of inputs *)
Inductive ginput := GX (x : float) | GB (b : Bar float).

Fixpoint g_run (n : nat) (g : gen) (st : gs) (s : @St float) (k : N) (cd : nat) (h : int)
         (win : list ginput) (wlen : nat)
         (acc : list (N * list float * list ginput)) : int * list (N * list float * list ginput) * bool :=
  match n with
  | O => (h, rev acc, true)
  | S n =>
      let '(st', inp) := if negb (g_mode g =? 0) then let '(st', b) := g_bar g st in (st', GB b)
                         else let '(st', x) := g_step g st in (st', GX x) in
      let r := match inp with
               | GX x => match next FOps s x with Some r => r | None => Panic end
               | GB b => next_bar FOps s b end in
      match r with
      | Ok (s', out) =>
          let h' := fold_left mix out h in
          let k' := (k + 1)%N in
          let win' := firstn wlen (inp :: win) in     (* newest first *)
          let at_cp := match cd with O => true | _ => false end in
          let acc' := if at_cp || (match n with O => true | _ => false end) then (k', out, win') :: acc else acc in
          let cd' := match cd with O => Nat.pred (N.to_nat (g_every g)) | S c => c end in
          g_run n g st' s' k' cd' h' win' wlen acc'
      | _ => (h, rev acc, false)
      end
  end.

(* a fresh exact (rational) instance fed the window: the from-scratch value of the current window, with its final state *)
Definition exact_on_window (k : Kind) (p : @Params float) (win : list ginput) : option (@St XQ) * list XQ :=
  match new XQOps k (mkParams (p1 p) (p2 p) (p3 p) (f2xq (pm p))) with
  | Ok s0 =>
      let '(s, out) := fold_left (fun '(s, out) inp =>
           let r := match inp with
                    | GX x => match next XQOps s (f2xq x) with Some r => r | None => Panic end
                    | GB b => next_bar XQOps s (qbar b) end in
           match r with Ok (s', o) => (s', o) | _ => (s, out) end) (rev win) (s0, []) in (Some s, out)
  | _ => (None, []) end.

(* tolerance of C13: absolute tau*maxmag for the window statistics; for the two ratio indicators the property's
   own conditioning rule: MFI within 100*tau*c with c = (largest single-bar money flow) / (window total flow), claimed for
   c <= 1000; CCI within tau*c/0.015 with c = maxmag / (0.015*MAD), claimed for c <= 1e6; degenerate windows are C08's *)
Definition tol_gen (vmax : Q) (k : Kind) (mult : XQ) (t : N) (M : Q) (impl exact : list XQ)
           (st : option (@St XQ)) (win : list ginput) : bool :=
  match k, st, impl, exact with
  | KMfi, Some (SMfi s), [i], [e] =>
      match mfi_pos s, mfi_neg s with
      | QFin a, QFin b =>
          let total := (a + b)%Q in
          if Qle_bool total 0%Q then true else
          let c := ((M * vmax) / total)%Q in
          if Qle_bool c 1000%Q then within i e (100 * tau t * c)%Q else true
      | _, _ => true end
  | KCci, Some _, [i], [e] =>
      let tps := map (fun inp => match inp with
                                 | GB b => xq_div (xq_add (xq_add (f2xq (b_close b)) (f2xq (b_high b))) (f2xq (b_low b))) (QFin 3)
                                 | GX x => f2xq x end) (rev win) in
      match new XQOps KMad (mkParams (N.of_nat (Nat.pred (length win))) 0 0 (QFin 0)) with
      | Ok m0 =>
          let '(_, mo) := fold_left (fun '(s, out) x => match next XQOps s x with Some (Ok (s', o)) => (s', o) | _ => (s, out) end)
                                    tps (m0, []) in
          match mo with
          | [QFin mad] =>
              if Qle_bool mad 0%Q then true else
              let c := (M / ((3 # 200) * mad))%Q in
              if Qle_bool c 1000000%Q then within i e (tau t * c * (200 # 3))%Q else true
          | _ => true end
      | _ => true end
  | _, _, _, _ => tol_window k mult t M impl exact
  end.

Definition gmag (i : ginput) : Q :=
  match i with GX x => qabs_of (f2xq x)
  | GB b => qmax (qabs_of (f2xq (b_high b))) (qmax (qabs_of (f2xq (b_low b))) (qabs_of (f2xq (b_close b)))) end.

Record gcase := mkGcase { gc_kind : Kind; gc_params : @Params float; gc_gen : gen; gc_wlen : nat;
                          gc_exp : list (N * list float); gc_hash : list float (* 3 x 21-bit chunks *); gc_mag : float }.

Definition hash_chunks (h : int) : list float :=
  [PrimFloat.of_uint63 (h land 2097151); PrimFloat.of_uint63 ((h >> 21) land 2097151); PrimFloat.of_uint63 (h >> 42)].

(* 0 = ok; 1000000+j: checkpoint j differs bit-wise (T1); 2000000: hash of all outputs differs (T1);
   3000000+j: checkpoint j leaves the tolerance of the from-scratch exact value (T2); 4000000: model panicked *)
Definition check_gen (tol : Kind -> XQ -> N -> Q -> list XQ -> list XQ -> option (@St XQ) -> list ginput -> bool) (c : gcase) : N :=
  match new FOps (gc_kind c) (gc_params c) with
  | Ok s0 =>
      let g := gc_gen c in
      let '(h, cps, ok) := g_run (N.to_nat (g_len g)) g (g_init g) s0 0%N (Nat.pred (N.to_nat (g_every g))) h0 [] (gc_wlen c) [] in
      if negb ok then 4000000%N else
      let t1 := (fix go (j : N) (a : list (N * list float * list ginput)) (b : list (N * list float)) : N :=
                   match a, b with
                   | [], [] => 0%N
                   | (k, o, _) :: a, (k', o') :: b => if (k =? k')%N && beq_list o o' then go (j + 1)%N a b else (1000000 + j)%N
                   | _, _ => (1000000 + j)%N end) 1%N cps (gc_exp c) in
      let t1' := if negb (t1 =? 0)%N then t1 else
                 if negb (feq_list (hash_chunks h) (gc_hash c)) then 2000000%N else 0%N in
      (* T2 is evaluated on the implementation's checkpoint outputs whether or not T1 holds: a failure is a concrete
         violation of the property (result = T1 code + 10^8 * T2 code) *)
      let t2 :=
      (fix go (j : N) (a : list (N * list float * list ginput)) (b : list (N * list float)) : N :=
         match a, b with
         | (k, _, win) :: a, (_, impl) :: b =>
             let '(est, exact) := exact_on_window (gc_kind c) (gc_params c) win in
             let M := qabs_of (f2xq (gc_mag c)) in
             if tol (gc_kind c) (f2xq (pm (gc_params c))) k M (map f2xq impl) exact est win
             then go (j + 1)%N a b else (3000000 + j)%N
         | _, _ => 0%N end) 1%N cps (gc_exp c) in
      (t1' + 100000000 * t2)%N
  | _ => 4000000%N end.

Definition check_gen_window := check_gen (tol_gen 1000%Q).
