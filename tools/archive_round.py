#!/usr/bin/env python3
# usage: tools/archive_round.py <round> <dir>
#   <dir>/out/<ID>-<k>.patch|.txt   the sub-agents' deliverables
#   <dir>/suite_*.log               "<ID>-<k> | default: N passed M failed | serde: ..."   (written by <dir>/suite.sh, my confirmation)
#   <dir>/detect_aswas.log          "<ID>-<k> seed <s>: [ID] OK|VIOLATION ..."  checks as they were when the changes were written
#   <dir>/detect.log                the same, later lines = after strengthening (a later line for the same change/seed overrides)
# writes seeded/<ID>-r<round>-<k>/{patch.diff,notes.md,meta.json}
import glob, json, os, re, shutil, sys
rnd, d = sys.argv[1], sys.argv[2]
suite = {}
for f in glob.glob(os.path.join(d, "suite_*.log")):
    for line in open(f):
        m = re.match(r"(C\d\d-\d+) \| (.*)", line.strip())
        if m:
            suite[m.group(1)] = m.group(2)


def parse(path):
    res = {}
    if not os.path.exists(path):
        return res
    for line in open(path):
        m = re.match(r"(C\d\d-\d+) seed (\d+): (.*)", line.strip())
        if not m:
            continue
        r = m.group(3)
        v = "N" if "no-failing-input-found" in r else "V" if "VIOLATION" in r else "MISSED" if "OK property" in r else "?"
        res.setdefault(m.group(1), {})[m.group(2)] = v
    return res


aswas = parse(os.path.join(d, "detect_aswas.log"))
final = parse(os.path.join(d, "detect.log"))
for p in sorted(glob.glob(os.path.join(d, "out", "C*-*.patch"))):
    name = os.path.basename(p)[:-6]
    prop, k = name.split("-")
    if name not in suite or " 0 failed" not in suite[name] or "APPLY-FAIL" in suite[name]:
        print("SKIP (suite not confirmed):", name, suite.get(name))
        continue
    dst = "/verif/seeded/%s-r%s-%s" % (prop, rnd, k)
    os.makedirs(dst, exist_ok=True)
    shutil.copy(p, os.path.join(dst, "patch.diff"))
    shutil.copy(p[:-6] + ".txt", os.path.join(dst, "notes.md"))
    files = re.findall(r"^\+\+\+ b/(\S+)", open(p).read(), re.M)
    a, f = aswas.get(name, {}), final.get(name, {})
    meta = {"property": prop, "round": int(rnd), "files_changed": files,
            "needs_to_manifest": "see notes.md (the sub-agent's own description of the failing input / history)",
            "origin": "written by an independent sub-agent given only the property text and a scratch worktree; asked for changes that slip "
                      "through a differential test on random streams of a few hundred inputs",
            "confirmed_by_me": ("existing suite with the patch applied in a scratch worktree: %s; violation: the replay written by ./check %s quick "
                                "against the patched scratch clone (a concrete failing input on the real code)" % (suite[name], prop))
            if "V" in list(f.values()) + list(a.values()) else
            ("existing suite with the patch applied in a scratch worktree: %s; the check reports the broken correspondence (model vs "
             "implementation, replay = the shrunk mismatching case) but derives no property-level failing input; the failing input is the "
             "sub-agent's (notes.md)" % suite[name]),
            "what_i_ran": ["git worktree add; git apply; cargo test --offline (default and --features serde); git checkout -- .; git worktree remove",
                           "MUT_DIR=<private clone> tools/trymut.sh patch.diff %s under VERIF_SEED=1,2" % prop],
            "detected_as_was": a,
            "detected_after_strengthening": f if f != a else "unchanged"}
    json.dump(meta, open(os.path.join(dst, "meta.json"), "w"), indent=1)
    print(dst, a, f if f != a else "")
