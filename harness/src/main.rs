// Correspondence harness: runs the real `ta` crate (path dependency on /repo) on
// operation lists read from a file and prints every observable, one line per op.
// The same op lists are evaluated by the Coq model (see /verif/coq, /verif/lib).
//
// Protocol (text, one record per line; floats are always 16-hex-digit IEEE bit patterns):
//   CASE <id>
//   new <slot> <IND> <p1> <p2> <p3> <mult>      construct (periods decimal usize, mult bits)
//   def <slot> <IND>                            Default::default()
//   n <slot> <x>                                Next<f64>
//   b <slot> <o> <h> <l> <c> <v>                Next<&UBar>   (user struct, 5 independent fields)
//   i <slot> <o> <h> <l> <c> <v>                Next<&DataItem> (built through the builder)
//   r <slot>                                    reset
//   c <src> <dst>                               clone src into dst
//   s <slot>                                    bincode serialize + deserialize in place
//   d <slot>                                    Display / Debug / period / multiplier probe
//   z <slot>                                    print serialized state
//   x <slot>                                    drop
//   g <slot> <gen> <seed> <len> <a> <b> <every> feed a generated stream (twin of Coq Gen.v)
//   build <k> (<field> <bits>)*                 DataItem builder probe
//   heap <IND> <p1> <p2> <p3> <mult> <shape> <warm> <total>
//   END
// Output: "CASE <id>" then one line per op.
use std::alloc::{GlobalAlloc, Layout, System};
use std::io::{BufRead, Write};
use std::panic::{catch_unwind, AssertUnwindSafe};
use std::sync::atomic::{AtomicIsize, Ordering};

use ta::indicators::*;
use ta::{Close, DataItem, High, Low, Next, Open, Period, Reset, Volume};

mod gen;

struct Counting;
static LIVE: AtomicIsize = AtomicIsize::new(0);
unsafe impl GlobalAlloc for Counting {
    unsafe fn alloc(&self, l: Layout) -> *mut u8 {
        LIVE.fetch_add(l.size() as isize, Ordering::Relaxed);
        System.alloc(l)
    }
    unsafe fn dealloc(&self, p: *mut u8, l: Layout) {
        LIVE.fetch_sub(l.size() as isize, Ordering::Relaxed);
        System.dealloc(p, l)
    }
    unsafe fn realloc(&self, p: *mut u8, l: Layout, n: usize) -> *mut u8 {
        LIVE.fetch_add(n as isize - l.size() as isize, Ordering::Relaxed);
        System.realloc(p, l, n)
    }
}
#[global_allocator]
static A: Counting = Counting;

#[derive(Clone, Debug)]
pub struct UBar {
    o: f64,
    h: f64,
    l: f64,
    c: f64,
    v: f64,
}
impl Open for UBar {
    fn open(&self) -> f64 {
        self.o
    }
}
impl High for UBar {
    fn high(&self) -> f64 {
        self.h
    }
}
impl Low for UBar {
    fn low(&self) -> f64 {
        self.l
    }
}
impl Close for UBar {
    fn close(&self) -> f64 {
        self.c
    }
}
impl Volume for UBar {
    fn volume(&self) -> f64 {
        self.v
    }
}

trait Outv {
    fn outv(self) -> Vec<f64>;
}
impl Outv for f64 {
    fn outv(self) -> Vec<f64> {
        vec![self]
    }
}
impl Outv for BollingerBandsOutput {
    fn outv(self) -> Vec<f64> {
        vec![self.average, self.upper, self.lower]
    }
}
impl Outv for KeltnerChannelOutput {
    fn outv(self) -> Vec<f64> {
        vec![self.average, self.upper, self.lower]
    }
}
impl Outv for MovingAverageConvergenceDivergenceOutput {
    fn outv(self) -> Vec<f64> {
        let t: (f64, f64, f64) = self.into();
        vec![t.0, t.1, t.2]
    }
}
impl Outv for PercentagePriceOscillatorOutput {
    fn outv(self) -> Vec<f64> {
        let t: (f64, f64, f64) = self.into();
        vec![t.0, t.1, t.2]
    }
}
impl Outv for ChandelierExitOutput {
    fn outv(self) -> Vec<f64> {
        let t: (f64, f64) = self.into();
        vec![t.0, t.1]
    }
}

pub trait Dyn: Send {
    fn next_f(&mut self, x: f64) -> Option<Vec<f64>>;
    fn next_ubar(&mut self, b: &UBar) -> Vec<f64>;
    fn next_item(&mut self, b: &DataItem) -> Vec<f64>;
    fn reset(&mut self);
    fn clone_box(&self) -> Box<dyn Dyn>;
    fn as_any(&self) -> &dyn std::any::Any;
    // Clone::clone_from into an existing instance of the same concrete type; false when the types differ
    fn clone_from_dyn(&mut self, other: &dyn Dyn) -> bool;
    fn ser(&self) -> Vec<u8>;
    fn de(&self, bytes: &[u8]) -> Option<Box<dyn Dyn>>;
    fn display(&self) -> String;
    fn debug(&self) -> String;
    fn period(&self) -> Option<usize>;
    fn multiplier(&self) -> Option<f64>;
}

macro_rules! scalar_yes {
    ($s:ident, $x:ident) => {
        Some(Next::<f64>::next($s, $x).outv())
    };
}
macro_rules! scalar_no {
    ($s:ident, $x:ident) => {{
        let _ = $x;
        None
    }};
}
macro_rules! period_yes {
    ($s:ident) => {
        Some(Period::period($s))
    };
}
macro_rules! period_no {
    ($s:ident) => {
        None
    };
}
macro_rules! mult_yes {
    ($s:ident) => {
        Some($s.multiplier())
    };
}
macro_rules! mult_no {
    ($s:ident) => {
        None
    };
}

macro_rules! impl_dyn {
    ($t:ty, $sc:ident, $pe:ident, $mu:ident) => {
        impl Dyn for $t {
            fn next_f(&mut self, x: f64) -> Option<Vec<f64>> {
                $sc!(self, x)
            }
            fn next_ubar(&mut self, b: &UBar) -> Vec<f64> {
                Next::<&UBar>::next(self, b).outv()
            }
            fn next_item(&mut self, b: &DataItem) -> Vec<f64> {
                Next::<&DataItem>::next(self, b).outv()
            }
            fn reset(&mut self) {
                Reset::reset(self)
            }
            fn clone_box(&self) -> Box<dyn Dyn> {
                Box::new(self.clone())
            }
            fn as_any(&self) -> &dyn std::any::Any {
                self
            }
            fn clone_from_dyn(&mut self, other: &dyn Dyn) -> bool {
                match other.as_any().downcast_ref::<$t>() {
                    Some(o) => {
                        Clone::clone_from(self, o);
                        true
                    }
                    None => false,
                }
            }
            fn ser(&self) -> Vec<u8> {
                bincode::serialize(self).unwrap()
            }
            fn de(&self, bytes: &[u8]) -> Option<Box<dyn Dyn>> {
                match bincode::deserialize::<$t>(bytes) {
                    Ok(v) => Some(Box::new(v)),
                    Err(_) => None,
                }
            }
            fn display(&self) -> String {
                format!("{}", self)
            }
            fn debug(&self) -> String {
                format!("{:?}", self)
            }
            fn period(&self) -> Option<usize> {
                $pe!(self)
            }
            fn multiplier(&self) -> Option<f64> {
                $mu!(self)
            }
        }
    };
}

impl_dyn!(SimpleMovingAverage, scalar_yes, period_yes, mult_no);
impl_dyn!(ExponentialMovingAverage, scalar_yes, period_yes, mult_no);
impl_dyn!(WeightedMovingAverage, scalar_yes, period_yes, mult_no);
impl_dyn!(StandardDeviation, scalar_yes, period_yes, mult_no);
impl_dyn!(MeanAbsoluteDeviation, scalar_yes, period_yes, mult_no);
impl_dyn!(Minimum, scalar_yes, period_yes, mult_no);
impl_dyn!(Maximum, scalar_yes, period_yes, mult_no);
impl_dyn!(BollingerBands, scalar_yes, period_yes, mult_yes);
impl_dyn!(TrueRange, scalar_yes, period_no, mult_no);
impl_dyn!(AverageTrueRange, scalar_yes, period_yes, mult_no);
impl_dyn!(RelativeStrengthIndex, scalar_yes, period_yes, mult_no);
impl_dyn!(FastStochastic, scalar_yes, period_yes, mult_no);
impl_dyn!(SlowStochastic, scalar_yes, period_no, mult_no);
impl_dyn!(RateOfChange, scalar_yes, period_yes, mult_no);
impl_dyn!(EfficiencyRatio, scalar_yes, period_yes, mult_no);
impl_dyn!(MovingAverageConvergenceDivergence, scalar_yes, period_no, mult_no);
impl_dyn!(PercentagePriceOscillator, scalar_yes, period_no, mult_no);
impl_dyn!(KeltnerChannel, scalar_yes, period_yes, mult_yes);
impl_dyn!(ChandelierExit, scalar_no, period_yes, mult_yes);
impl_dyn!(CommodityChannelIndex, scalar_no, period_yes, mult_no);
impl_dyn!(MoneyFlowIndex, scalar_no, period_yes, mult_no);
impl_dyn!(OnBalanceVolume, scalar_no, period_no, mult_no);

pub enum NewRes {
    Ok(Box<dyn Dyn>),
    Err(String),
}

fn bx<T: Dyn + 'static>(r: ta::errors::Result<T>) -> NewRes {
    match r {
        Ok(v) => NewRes::Ok(Box::new(v)),
        Err(e) => NewRes::Err(format!("{:?}", e)),
    }
}

pub fn construct(name: &str, p1: usize, p2: usize, p3: usize, m: f64) -> NewRes {
    match name {
        "SMA" => bx(SimpleMovingAverage::new(p1)),
        "EMA" => bx(ExponentialMovingAverage::new(p1)),
        "WMA" => bx(WeightedMovingAverage::new(p1)),
        "SD" => bx(StandardDeviation::new(p1)),
        "MAD" => bx(MeanAbsoluteDeviation::new(p1)),
        "MIN" => bx(Minimum::new(p1)),
        "MAX" => bx(Maximum::new(p1)),
        "BB" => bx(BollingerBands::new(p1, m)),
        "TR" => NewRes::Ok(Box::new(TrueRange::new())),
        "ATR" => bx(AverageTrueRange::new(p1)),
        "RSI" => bx(RelativeStrengthIndex::new(p1)),
        "FAST" => bx(FastStochastic::new(p1)),
        "SLOW" => bx(SlowStochastic::new(p1, p2)),
        "ROC" => bx(RateOfChange::new(p1)),
        "ER" => bx(EfficiencyRatio::new(p1)),
        "MACD" => bx(MovingAverageConvergenceDivergence::new(p1, p2, p3)),
        "PPO" => bx(PercentagePriceOscillator::new(p1, p2, p3)),
        "KC" => bx(KeltnerChannel::new(p1, m)),
        "CE" => bx(ChandelierExit::new(p1, m)),
        "CCI" => bx(CommodityChannelIndex::new(p1)),
        "MFI" => bx(MoneyFlowIndex::new(p1)),
        "OBV" => NewRes::Ok(Box::new(OnBalanceVolume::new())),
        _ => NewRes::Err(format!("unknown indicator {}", name)),
    }
}

pub fn construct_default(name: &str) -> NewRes {
    fn b<T: Dyn + Default + 'static>() -> NewRes {
        NewRes::Ok(Box::new(T::default()))
    }
    match name {
        "SMA" => b::<SimpleMovingAverage>(),
        "EMA" => b::<ExponentialMovingAverage>(),
        "WMA" => b::<WeightedMovingAverage>(),
        "SD" => b::<StandardDeviation>(),
        "MAD" => b::<MeanAbsoluteDeviation>(),
        "MIN" => b::<Minimum>(),
        "MAX" => b::<Maximum>(),
        "BB" => b::<BollingerBands>(),
        "TR" => b::<TrueRange>(),
        "ATR" => b::<AverageTrueRange>(),
        "RSI" => b::<RelativeStrengthIndex>(),
        "FAST" => b::<FastStochastic>(),
        "SLOW" => b::<SlowStochastic>(),
        "ROC" => b::<RateOfChange>(),
        "ER" => b::<EfficiencyRatio>(),
        "MACD" => b::<MovingAverageConvergenceDivergence>(),
        "PPO" => b::<PercentagePriceOscillator>(),
        "KC" => b::<KeltnerChannel>(),
        "CE" => b::<ChandelierExit>(),
        "CCI" => b::<CommodityChannelIndex>(),
        "MFI" => b::<MoneyFlowIndex>(),
        "OBV" => b::<OnBalanceVolume>(),
        _ => NewRes::Err(format!("unknown indicator {}", name)),
    }
}

fn pf(s: &str) -> f64 {
    f64::from_bits(u64::from_str_radix(s, 16).expect("bad float bits"))
}
fn canon(x: f64) -> u64 {
    if x.is_nan() {
        0x7ff8000000000000
    } else {
        x.to_bits()
    }
}
fn fmt_out(v: &[f64]) -> String {
    let mut s = String::from("o");
    for x in v {
        s.push_str(&format!(" {:016x}", canon(*x)));
    }
    s
}
// canonicalise NaN payloads inside a bincode image: every 8-byte word that decodes to a NaN.
// Only applied to words at float positions would be ideal; usize fields that happen to look
// like NaNs (>= 0x7ff0000000000001) do not occur for the periods used.
fn hex(b: &[u8]) -> String {
    let mut s = String::with_capacity(b.len() * 2);
    for x in b {
        s.push_str(&format!("{:02x}", x));
    }
    s
}

fn quiet<R>(f: impl FnOnce() -> R) -> Result<R, String> {
    match catch_unwind(AssertUnwindSafe(f)) {
        Ok(r) => Ok(r),
        Err(e) => {
            let msg = if let Some(s) = e.downcast_ref::<&str>() {
                s.to_string()
            } else if let Some(s) = e.downcast_ref::<String>() {
                s.clone()
            } else {
                "?".to_string()
            };
            Err(msg.replace('\n', " "))
        }
    }
}

fn build_item(o: f64, h: f64, l: f64, c: f64, v: f64) -> Result<DataItem, String> {
    DataItem::builder()
        .open(o)
        .high(h)
        .low(l)
        .close(c)
        .volume(v)
        .build()
        .map_err(|e| format!("{:?}", e))
}

fn run_case(lines: &[String], out: &mut Vec<String>) {
    let mut slots: Vec<Option<Box<dyn Dyn>>> = (0..8).map(|_| None).collect();
    for line in lines {
        let t: Vec<&str> = line.split_whitespace().collect();
        if t.is_empty() {
            continue;
        }
        let res: String = match t[0] {
            "new" => {
                let s: usize = t[1].parse().unwrap();
                let (p1, p2, p3) = (
                    t[3].parse::<usize>().unwrap(),
                    t[4].parse::<usize>().unwrap(),
                    t[5].parse::<usize>().unwrap(),
                );
                let m = pf(t[6]);
                match quiet(|| construct(t[2], p1, p2, p3, m)) {
                    Ok(NewRes::Ok(b)) => {
                        slots[s] = Some(b);
                        "ok".into()
                    }
                    Ok(NewRes::Err(e)) => {
                        slots[s] = None;
                        format!("err {}", e)
                    }
                    Err(m) => {
                        slots[s] = None;
                        format!("panic {}", m)
                    }
                }
            }
            "def" => {
                let s: usize = t[1].parse().unwrap();
                match quiet(|| construct_default(t[2])) {
                    Ok(NewRes::Ok(b)) => {
                        slots[s] = Some(b);
                        "ok".into()
                    }
                    Ok(NewRes::Err(e)) => format!("err {}", e),
                    Err(m) => format!("panic {}", m),
                }
            }
            "build" => builder_probe(&t[2..]),
            "heap" => heap_probe(&t[1..]),
            _ => {
                let s: usize = t[1].parse().unwrap();
                if t[0] == "c" {
                    let d: usize = t[2].parse().unwrap();
                    // an occupied destination of the same concrete type is overwritten in place through
                    // Clone::clone_from (what `a.clone_from(&b)` does in user code); otherwise a fresh clone is stored
                    if s != d && slots[s].is_some() && slots[d].is_some() {
                        let src = slots[s].take().unwrap();
                        let r = {
                            let dst = slots[d].as_mut().unwrap();
                            quiet(|| dst.clone_from_dyn(src.as_ref()))
                        };
                        let out = match r {
                            Ok(true) => "ok".to_string(),
                            Ok(false) => match quiet(|| src.clone_box()) {
                                Ok(nb) => {
                                    slots[d] = Some(nb);
                                    "ok".into()
                                }
                                Err(m) => format!("panic {}", m),
                            },
                            Err(m) => format!("panic {}", m),
                        };
                        slots[s] = Some(src);
                        out
                    } else {
                        match slots[s].as_ref() {
                            None => "dead".into(),
                            Some(b) => match quiet(|| b.clone_box()) {
                                Ok(nb) => {
                                    slots[d] = Some(nb);
                                    "ok".into()
                                }
                                Err(m) => format!("panic {}", m),
                            },
                        }
                    }
                } else if t[0] == "x" {
                    slots[s] = None;
                    "ok".into()
                } else {
                    match slots[s].as_mut() {
                        None => (if t[0] == "z" { "z -" } else { "dead" }).into(),
                        Some(ind) => match t[0] {
                            "n" => {
                                let x = pf(t[2]);
                                match quiet(|| ind.next_f(x)) {
                                    Ok(Some(v)) => fmt_out(&v),
                                    Ok(None) => "noscalar".into(),
                                    Err(m) => format!("panic {}", m),
                                }
                            }
                            "b" => {
                                let b = UBar {
                                    o: pf(t[2]),
                                    h: pf(t[3]),
                                    l: pf(t[4]),
                                    c: pf(t[5]),
                                    v: pf(t[6]),
                                };
                                match quiet(|| ind.next_ubar(&b)) {
                                    Ok(v) => fmt_out(&v),
                                    Err(m) => format!("panic {}", m),
                                }
                            }
                            "i" => match build_item(pf(t[2]), pf(t[3]), pf(t[4]), pf(t[5]), pf(t[6])) {
                                Err(e) => format!("builderr {}", e),
                                Ok(item) => match quiet(|| ind.next_item(&item)) {
                                    Ok(v) => fmt_out(&v),
                                    Err(m) => format!("panic {}", m),
                                },
                            },
                            // a DataItem obtained by deserialising the five numbers (no builder validation: the only way to an
                            // inconsistent DataItem) — must behave like any other implementor of the price traits with those numbers
                            "j" => {
                                let mut raw: Vec<u8> = Vec::with_capacity(40);
                                for k in 2..7 {
                                    raw.extend_from_slice(&pf(t[k]).to_le_bytes());
                                }
                                match quiet(|| bincode::deserialize::<DataItem>(&raw)) {
                                    Ok(Ok(item)) => match quiet(|| ind.next_item(&item)) {
                                        Ok(v) => fmt_out(&v),
                                        Err(m) => format!("panic {}", m),
                                    },
                                    Ok(Err(e)) => format!("deerr {}", e),
                                    Err(m) => format!("panic {}", m),
                                }
                            }
                            "r" => match quiet(|| ind.reset()) {
                                Ok(()) => "ok".into(),
                                Err(m) => format!("panic {}", m),
                            },
                            "s" => match quiet(|| {
                                let bytes = ind.ser();
                                ind.de(&bytes)
                            }) {
                                Ok(Some(nb)) => {
                                    *ind = nb;
                                    "ok".into()
                                }
                                Ok(None) => "deerr".into(),
                                Err(m) => format!("panic {}", m),
                            },
                            "d" => match quiet(|| {
                                let dbg = ind.debug();
                                format!(
                                    "d {} | {} | {} | {}",
                                    ind.display(),
                                    ind.period().map(|p| p.to_string()).unwrap_or("-".into()),
                                    ind.multiplier()
                                        .map(|m| format!("{:016x}", canon(m)))
                                        .unwrap_or("-".into()),
                                    dbg.len()
                                )
                            }) {
                                Ok(s) => s,
                                Err(m) => format!("panic {}", m),
                            },
                            "z" => match quiet(|| ind.ser()) {
                                Ok(b) => format!("z {}", hex(&b)),
                                Err(_) => "z panic".into(),
                            },
                            "g" => {
                                let g = gen::Gen::parse(&t[2..]);
                                match quiet(|| gen::feed(ind.as_mut(), &g)) {
                                    Ok(s) => s,
                                    Err(m) => format!("panic {}", m),
                                }
                            }
                            _ => format!("badop {}", t[0]),
                        },
                    }
                }
            }
        };
        out.push(res);
    }
}

fn builder_probe(t: &[&str]) -> String {
    // tokens: pairs (field letter, bits) applied in order
    let mut b = DataItem::builder();
    let mut i = 0;
    while i + 1 < t.len() {
        let v = pf(t[i + 1]);
        b = match t[i] {
            "o" => b.open(v),
            "h" => b.high(v),
            "l" => b.low(v),
            "c" => b.close(v),
            "v" => b.volume(v),
            _ => b,
        };
        i += 2;
    }
    match quiet(|| b.build()) {
        Ok(Ok(it)) => {
            let cl = it.clone();
            let eq = cl == it;
            let ser = bincode::serialize(&it).unwrap();
            let rt = match quiet(|| bincode::deserialize::<DataItem>(&ser)) {
                Ok(Ok(back)) => {
                    back == it
                        && back.open().to_bits() == it.open().to_bits()
                        && back.high().to_bits() == it.high().to_bits()
                        && back.low().to_bits() == it.low().to_bits()
                        && back.close().to_bits() == it.close().to_bits()
                        && back.volume().to_bits() == it.volume().to_bits()
                }
                _ => false,
            };
            format!(
                "ok {:016x} {:016x} {:016x} {:016x} {:016x} clone_eq={} serde_eq={} ser={}",
                canon(it.open()),
                canon(it.high()),
                canon(it.low()),
                canon(it.close()),
                canon(it.volume()),
                eq,
                rt,
                hex(&ser)
            )
        }
        Ok(Err(e)) => format!("err {:?}", e),
        Err(m) => format!("panic {}", m),
    }
}

fn heap_probe(t: &[&str]) -> String {
    let (p1, p2, p3) = (
        t[1].parse::<usize>().unwrap(),
        t[2].parse::<usize>().unwrap(),
        t[3].parse::<usize>().unwrap(),
    );
    let m = pf(t[4]);
    let shape: u64 = t[5].parse().unwrap();
    let warm: u64 = t[6].parse().unwrap();
    let total: u64 = t[7].parse().unwrap();
    let before = LIVE.load(Ordering::Relaxed);
    let mut ind = match construct(t[0], p1, p2, p3, m) {
        NewRes::Ok(b) => b,
        NewRes::Err(e) => return format!("err {}", e),
    };
    let after_new = LIVE.load(Ordering::Relaxed);
    let mut st = 0x9E3779B97F4A7C15u64 ^ shape;
    let mut step = |ind: &mut Box<dyn Dyn>, k: u64| {
        st ^= st << 13;
        st ^= st >> 7;
        st ^= st << 17;
        let r = (st >> 11) as f64 / (1u64 << 53) as f64;
        let x = match shape {
            0 => 100.0 + k as f64 * 0.01,
            1 => {
                if k % 2 == 0 {
                    90.0
                } else {
                    110.0
                }
            }
            2 => 100.0,
            _ => 50.0 + 100.0 * r,
        };
        let b = UBar {
            o: x,
            h: x + 1.0 + r,
            l: x - 1.0 - r,
            c: x + r - 0.5,
            v: 1000.0 * r,
        };
        let _ = ind.next_ubar(&b);
    };
    for k in 0..warm {
        step(&mut ind, k);
    }
    let after_warm = LIVE.load(Ordering::Relaxed);
    let mut peak = after_warm;
    for k in warm..total {
        step(&mut ind, k);
        if k % 1024 == 0 {
            let l = LIVE.load(Ordering::Relaxed);
            if l > peak {
                peak = l;
            }
        }
    }
    let at_end = LIVE.load(Ordering::Relaxed);
    let ser_len = ind.ser().len();
    format!(
        "heap new={} warm={} end={} peak={} ser={}",
        after_new - before,
        after_warm - before,
        at_end - before,
        peak - before,
        ser_len
    )
}

fn main() {
    std::panic::set_hook(Box::new(|_| {}));
    let args: Vec<String> = std::env::args().collect();
    if args.len() < 3 {
        eprintln!("usage: harness run <cases-file> [threads]");
        std::process::exit(2);
    }
    let threads: usize = args.get(3).map(|s| s.parse().unwrap()).unwrap_or(1);
    let f = std::fs::File::open(&args[2]).expect("open cases");
    let mut cases: Vec<(String, Vec<String>)> = Vec::new();
    let mut cur: Option<(String, Vec<String>)> = None;
    for line in std::io::BufReader::new(f).lines() {
        let line = line.unwrap();
        if let Some(id) = line.strip_prefix("CASE ") {
            cur = Some((id.to_string(), Vec::new()));
        } else if line == "END" {
            cases.push(cur.take().unwrap());
        } else if let Some(c) = cur.as_mut() {
            c.1.push(line);
        }
    }
    let stdout = std::io::stdout();
    let mut w = std::io::BufWriter::new(stdout.lock());
    if threads <= 1 {
        for (id, lines) in &cases {
            let mut out = Vec::new();
            run_case(lines, &mut out);
            writeln!(w, "CASE {}", id).unwrap();
            for l in out {
                writeln!(w, "{}", l).unwrap();
            }
        }
    } else {
        // run every case on `threads` OS threads at once (each thread runs all cases, in a
        // thread-specific rotation so different instances interleave), and report per case
        // whether every thread produced exactly the sequential result.
        let cases = std::sync::Arc::new(cases);
        let mut seq: Vec<Vec<String>> = Vec::new();
        for (_, lines) in cases.iter() {
            let mut out = Vec::new();
            run_case(lines, &mut out);
            seq.push(out);
        }
        let seq = std::sync::Arc::new(seq);
        let mut hs = Vec::new();
        for k in 0..threads {
            let cases = cases.clone();
            let seq = seq.clone();
            hs.push(std::thread::spawn(move || {
                let n = cases.len();
                let mut bad: Vec<usize> = Vec::new();
                for j in 0..n {
                    let i = (j + k * 7) % n;
                    let mut out = Vec::new();
                    run_case(&cases[i].1, &mut out);
                    if out != seq[i] {
                        bad.push(i);
                    }
                }
                bad
            }));
        }
        let mut bad_all: Vec<usize> = Vec::new();
        for h in hs {
            bad_all.extend(h.join().unwrap());
        }
        for (i, (id, _)) in cases.iter().enumerate() {
            writeln!(w, "CASE {}", id).unwrap();
            for l in &seq[i] {
                writeln!(w, "{}", l).unwrap();
            }
            writeln!(
                w,
                "threads {} {}",
                threads,
                if bad_all.contains(&i) { "DIFF" } else { "same" }
            )
            .unwrap();
        }
    }
}
