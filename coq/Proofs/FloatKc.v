(* KeltnerChannel (scalar path) and AverageTrueRange on binary64: the ATR is a finite number >= 0 and
   lower <= average <= upper holds exactly on the floats, every band finite, for streams of ANY length, every period below 2^45,
   every finite multiplier in [0, 2^400] and finite inputs of magnitude at most M <= 2^400. *)
From Coq Require Import Reals Lra Lia ZArith List Floats.
From Flocq Require Import Core BinarySingleNaN PrimFloat.
From TA Require Import Base Model FloatInst Proofs.Prims Proofs.WF Proofs.FloatErr Proofs.FloatSma Proofs.FloatEma Proofs.FloatSd Proofs.FloatFast Proofs.FloatMad Proofs.Wiring Proofs.XEma Proofs.FloatAtr Proofs.FloatMacd Proofs.FloatBb.
Import ListNotations.
Open Scope R_scope.
Local Notation O := FOps.
Local Notation float := PrimFloat.float.
Local Notation fexp := (SpecFloat.fexp prec emax).
Local Notation RN := (round radix2 fexp (round_mode mode_NE)).

Lemma RN_one : RN 1 = 1. Proof. apply round_generic; [apply valid_rnd_round_mode|apply fmt_one]. Qed.
Lemma RN_two : RN 2 = 2.
Proof. apply round_generic; [apply valid_rnd_round_mode|]. change 2 with (bpow radix2 1). apply generic_format_bpow. unfold SpecFloat.fexp, SpecFloat.emin. cbn. lia. Qed.

(* the smoothing factor as computed lies in [0, 1] *)
Lemma kf_range p : (0 < p < 9007199254740992)%N -> finF (kf p) /\ 0 <= FR (kf p) <= 1.
Proof.
  intros [Hp0 Hp]. destruct (f_ofN_exact p Hp) as [FP RP]. pose proof BIG_ge as HB.
  assert (H1 : 1 <= IZR (Z.of_N p)) by (apply IZR_le; lia).
  assert (Hu : IZR (Z.of_N p) <= 2 ^ 53) by (replace (2 ^ 53) with (IZR 9007199254740992) by (cbn; lra); apply IZR_le; lia).
  destruct (fadd_exact (f_ofN p) 1%float FP finF_one) as [Fq Eq]; [rewrite RP, FR_one, Rabs_pos_eq; lra|].
  rewrite RP, FR_one in Eq.
  assert (Hq2 : 2 <= FR (f_ofN p + 1)%float) by (rewrite Eq, <- RN_two; apply RN_le; lra).
  unfold kf.
  assert (Hdiv : 0 <= FR 2%float / FR (f_ofN p + 1)%float <= 1).
  { rewrite FR_two. split; [apply Rmult_le_pos; [lra|apply Rlt_le, Rinv_0_lt_compat; lra]|].
    apply Rmult_le_reg_r with (FR (f_ofN p + 1)%float); [lra|]. replace (2 / FR (f_ofN p + 1)%float * FR (f_ofN p + 1)%float) with 2 by (field; lra). lra. }
  destruct (fdiv_exact 2%float (f_ofN p + 1)%float finF_two) as [Fk Ek]; [lra|rewrite Rabs_pos_eq; lra|].
  split; [exact Fk|]. rewrite Ek. split; [apply RN_nonneg; lra|]. apply RN_le_fmt; [apply fmt_one|lra].
Qed.

(* a float EMA step keeps the sign: k in [0,1], x >= 0, c >= 0 of moderate magnitude give an output >= 0 *)
Lemma fema_step_nonneg (k x c : float) B : finF k -> 0 <= FR k <= 1 -> 1 <= B -> B <= BIG / 4 ->
  finF x -> 0 <= FR x <= B -> finF c -> 0 <= FR c <= B -> 0 <= FR (k * x + (1 - k) * c)%float.
Proof.
  intros Fk [Hk0 Hk1] HB1 HB Fx [Hx0 Hx] Fc [Hc0 Hc]. pose proof BIG_ge as HBg.
  pose proof u_pos as Hu0. pose proof u_le as Hu1. pose proof eta_pos as He0. pose proof eta_le_u as Heu.
  assert (HuB : B * u <= B / 1000) by (replace (B / 1000) with (B * / 1000) by field; apply Rmult_le_compat_l; lra).
  assert (Hkx : 0 <= FR k * FR x <= B) by (split; [apply Rmult_le_pos; assumption|]; replace B with (1 * B) by ring; apply Rmult_le_compat; lra).
  destruct (fmul_exact k x Fk Fx) as [F1 E1]; [rewrite Rabs_pos_eq; lra|].
  destruct (fmul_mag k x B Fk Fx) as [_ M1]; [rewrite Rabs_pos_eq; lra|lra|].
  destruct (fsub_exact 1%float k finF_one Fk) as [F2 E2]; [rewrite FR_one, Rabs_pos_eq; lra|]. rewrite FR_one in E2.
  assert (H20 : 0 <= FR (1 - k)%float <= 1) by (rewrite E2; split; [apply RN_nonneg; lra|apply RN_le_fmt; [apply fmt_one|lra]]).
  assert (Hkc : 0 <= FR (1 - k)%float * FR c <= B) by (split; [apply Rmult_le_pos; lra|]; replace B with (1 * B) by ring; apply Rmult_le_compat; lra).
  destruct (fmul_exact (1 - k)%float c F2 Fc) as [F3 E3]; [rewrite Rabs_pos_eq; lra|].
  destruct (fmul_mag (1 - k)%float c B F2 Fc) as [_ M3]; [rewrite Rabs_pos_eq; lra|lra|].
  assert (H1 : 0 <= FR (k * x)%float) by (rewrite E1; apply RN_nonneg; lra).
  assert (H3 : 0 <= FR ((1 - k) * c)%float) by (rewrite E3; apply RN_nonneg; lra).
  rewrite Rabs_pos_eq in M1, M3 by assumption.
  destruct (fadd_exact (k * x)%float ((1 - k) * c)%float F1 F3) as [_ E4]; [rewrite Rabs_pos_eq; lra|].
  rewrite E4. apply RN_nonneg. lra.
Qed.

Lemma fema_nonneg (p : N) (k : float) B : finF k -> 0 <= FR k <= 1 -> 1 <= B -> B <= BIG / 4 ->
  forall xs c, finF c -> 0 <= FR c <= B -> Forall (fun x => finF x /\ 0 <= FR x <= B) xs ->
  Forall (fun o => finF o /\ Rabs (FR o) <= B) (ema_outs O (mkEma p k c false) xs) ->
  Forall (fun o => 0 <= FR o) (ema_outs O (mkEma p k c false) xs).
Proof.
  intros Fk Hk HB1 HB. induction xs as [|x xs IH]; intros c Fc Hc Hxs Houts; [constructor|].
  cbn [ema_outs] in *. unfold ema_next in *. cbn [ema_is_new ema_k ema_current ema_period] in *.
  pose proof (Forall_inv Hxs) as [Fx Hx]. pose proof (Forall_inv_tail Hxs) as Hxs'.
  pose proof (Forall_inv Houts) as [Fo Ho]. pose proof (Forall_inv_tail Houts) as Houts'.
  cbn [add sub mul one O] in *.
  assert (H0 : 0 <= FR (k * x + (1 - k) * c)%float) by (apply (fema_step_nonneg k x c B); assumption).
  constructor; [exact H0|]. apply IH; try assumption. split; [exact H0|]. rewrite Rabs_pos_eq in Ho by exact H0. exact Ho.
Qed.

Lemma tr_outs_nonneg : forall xs (t : @Tr float), Forall (fun o => finF o -> 0 <= FR o) (tr_outs O t xs).
Proof.
  induction xs as [|x xs IH]; intros t; cbn [tr_outs]; [constructor|]. unfold tr_next. constructor; [|apply IH].
  destruct (tr_prev_close t) as [prev|].
  - cbn [abs sub O]. intros Fa. unfold finF, FR in *. rewrite abs_equiv in *. rewrite is_finite_Babs in Fa. rewrite B2R_Babs. apply Rabs_pos.
  - intros _. change (zero O) with 0%float. rewrite FR_zero. lra.
Qed.

Lemma Forall_map2 {A B C} (P : A -> Prop) (Q : B -> Prop) (R : C -> Prop) (f : A -> B -> C) :
  (forall a b, P a -> Q b -> R (f a b)) -> forall l1 l2, Forall P l1 -> Forall Q l2 -> Forall R (map2 f l1 l2).
Proof.
  intros H. induction l1 as [|a l1 IH]; intros [|b l2] H1 H2; cbn [map2]; try constructor.
  - apply H; [exact (Forall_inv H1)|exact (Forall_inv H2)].
  - apply IH; [exact (Forall_inv_tail H1)|exact (Forall_inv_tail H2)].
Qed.

Lemma Forall_nth_all {A} (P : A -> Prop) (l : list A) d : Forall P l -> forall j, (j < length l)%nat -> P (nth j l d).
Proof. intros H j Hj. rewrite Forall_forall in H. apply H, nth_In, Hj. Qed.

(* the float EMA of a bounded stream is bounded by twice the bound (any length) *)
Lemma ema_float_bounded p e xs M : ema_new O p = Ok e -> (p < 35184372088832)%N ->
  1 <= M -> M <= bpow radix2 990 -> Forall (okin M) xs ->
  length (ema_outs O e xs) = length xs /\ Forall (okin (2 * M)) (ema_outs O e xs).
Proof.
  intros He Hp HM1 HMu Hxs.
  assert (HMl : bpow radix2 (-960) <= M) by (apply Rle_trans with 1; [change 1 with (bpow radix2 0); apply bpow_le; lia|exact HM1]).
  destruct (ema_float_uniform p e xs M He ltac:(lia) HMl HMu Hxs) as [L H]. split; [exact L|].
  assert (Hp0 : p <> 0%N) by (unfold ema_new in He; destruct (N.eqb_spec p 0); [discriminate|assumption]).
  pose proof (kreal_range p Hp0) as Kp.
  destruct (ebound_small p M Hp ltac:(lra)) as [_ Hsm]. unfold ebound in Hsm.
  apply (Forall_of_nth _ _ 0%float). intros j Hj. rewrite L in Hj. destruct (H j Hj) as [Fo Eo]. split; [exact Fo|].
  assert (Hr : Rabs (nth j (ema_stream (kreal p) (map FR xs)) 0) <= M).
  { apply ema_stream_abs; [exact Kp| |rewrite map_length; exact Hj]. intros i Hi. rewrite map_length in Hi.
    replace 0 with (FR 0%float) by apply FR_zero. rewrite map_nth. apply (Forall_nth_all _ _ 0%float Hxs i Hi). }
  replace (FR (nth j (ema_outs O e xs) 0%float)) with ((FR (nth j (ema_outs O e xs) 0%float) - nth j (ema_stream (kreal p) (map FR xs)) 0) + nth j (ema_stream (kreal p) (map FR xs)) 0) by ring.
  eapply Rle_trans; [apply Rabs_triang|]. lra.
Qed.

Theorem atr_float_nonneg : forall p a xs M, atr_new O p = Ok a -> (p < 35184372088832)%N ->
  1 <= M -> 8 * M <= bpow radix2 990 -> Forall (okin M) xs ->
  length (atr_outs O a xs) = length xs /\ Forall (fun o => finF o /\ 0 <= FR o <= 6 * M) (atr_outs O a xs).
Proof.
  intros p a xs M H Hp HM1 HM8 Hxs. pose proof BIG_ge as HBg.
  unfold atr_new in H. destruct (ema_new O p) as [e| |] eqn:Ee; cbn in H; try discriminate. injection H as <-.
  rewrite atr_wiring.
  destruct xs as [|x xs]; [split; [reflexivity|constructor]|].
  pose proof (Forall_inv Hxs) as Hx. pose proof (Forall_inv_tail Hxs) as Hxs'.
  assert (HM990 : M <= bpow radix2 990) by lra.
  destruct (ftr_running M HM1 HM990 xs x Hx Hxs') as (L1 & L2 & Hn).
  set (T' := tr_outs O (mkTr (Some x)) xs) in *. set (T := 0%float :: T').
  assert (ET : tr_outs O tr_new (x :: xs) = T) by reflexivity. rewrite ET.
  assert (FT' : Forall (fun o => finF o /\ 0 <= FR o <= 6 * M) T').
  { apply (Forall_of_nth _ T' 0%float). intros j Hj. rewrite L1 in Hj. destruct (Hn j Hj) as (A & B & _). split; [exact A|].
    rewrite <- L1 in Hj. pose proof (Forall_nth_all _ _ 0%float (tr_outs_nonneg xs (mkTr (Some x))) j Hj A) as H0. fold T' in H0.
    rewrite Rabs_pos_eq in B by exact H0. lra. }
  assert (FT : Forall (okin (3 * M)) T).
  { constructor; [split; [exact finF_zero|rewrite FR_zero, Rabs_R0; lra]|].
    apply (Forall_of_nth _ T' 0%float). intros j Hj. rewrite L1 in Hj. destruct (Hn j Hj) as (A & B & _). split; assumption. }
  destruct (ema_float_bounded p e T (3 * M) Ee Hp ltac:(lra) ltac:(lra) FT) as [Lo Bo].
  split; [rewrite Lo; unfold T; cbn [length]; now rewrite L1|].
  assert (Ee' := Ee). unfold ema_new in Ee'. destruct (N.eqb_spec p 0) as [|Hp0]; [discriminate|]. injection Ee' as <-.
  destruct (kf_range p ltac:(lia)) as [Fk Hk]. change (2 / (f_ofN p + 1))%float with (kf p) in *.
  unfold T in *. cbn [ema_outs] in *. unfold ema_next in * |- *. cbn [ema_is_new ema_k ema_current ema_period] in *.
  assert (HB : 6 * M <= BIG / 4).
  { unfold BIG. apply Rle_trans with (bpow radix2 990); [lra|]. apply Rle_trans with (bpow radix2 998); [apply bpow_le; lia|].
    change 1000%Z with (998 + 2)%Z. rewrite bpow_plus. change (bpow radix2 2) with 4. lra. }
  assert (Bo6 : Forall (fun o => finF o /\ Rabs (FR o) <= 6 * M) (ema_outs O (mkEma p (kf p) 0%float false) T')).
  { apply Forall_inv_tail in Bo. eapply Forall_impl; [|exact Bo]. intros o [A B]. split; [exact A|]. replace (6 * M) with (2 * (3 * M)) by ring. exact B. }
  pose proof (fema_nonneg p (kf p) (6 * M) Fk Hk ltac:(lra) HB T' 0%float finF_zero ltac:(rewrite FR_zero; lra) FT' Bo6) as Hnn.
  constructor; [split; [exact finF_zero|rewrite FR_zero; lra]|].
  clear - Bo6 Hnn. induction Bo6 as [|o l [A B] _ IH]; [constructor|]. pose proof (Forall_inv Hnn) as H0. constructor; [|apply IH; exact (Forall_inv_tail Hnn)].
  split; [exact A|]. rewrite Rabs_pos_eq in B by exact H0. lra.
Qed.

Theorem kc_float_ordered : forall p mu k xs M, kc_new O p mu = Ok k -> (p < 35184372088832)%N ->
  finF mu -> 0 <= FR mu <= bpow radix2 400 ->
  1 <= M -> M <= bpow radix2 400 -> Forall (okin M) xs ->
  length (kc_outs O k xs) = length xs /\ Forall bb_ok (kc_outs O k xs).
Proof.
  intros p mu k xs M H Hp Fmu Hmu HM1 HM2 Hxs. unfold kc_new in H.
  destruct (atr_new O p) as [a| |] eqn:Ea; cbn [bind] in H; try discriminate.
  destruct (ema_new O p) as [e| |] eqn:Ee; cbn [bind] in H; try discriminate. injection H as <-.
  rewrite kc_wiring.
  assert (H8 : 8 * M <= bpow radix2 990).
  { apply Rle_trans with (bpow radix2 3 * bpow radix2 400); [change (bpow radix2 3) with 8; lra|]. rewrite <- bpow_plus. apply bpow_le. lia. }
  destruct (atr_float_nonneg p a xs M Ea Hp HM1 H8 Hxs) as [La Ha].
  destruct (ema_float_bounded p e xs M Ee Hp HM1 ltac:(lra) Hxs) as [Le He].
  split; [rewrite map2_length'; [exact Le|rewrite La, Le; reflexivity]|].
  apply (Forall_map2 (okin (2 * M)) (fun o => finF o /\ 0 <= FR o <= 6 * M)); [|exact He|exact Ha].
  intros avg atr [Fa Ba] (Fd & Hd0 & Hd). unfold bands. cbn [add sub mul O].
  assert (H403 : 6 * M <= bpow radix2 403).
  { apply Rle_trans with (bpow radix2 3 * bpow radix2 400); [change (bpow radix2 3) with 8; lra|]. rewrite <- bpow_plus. apply bpow_le. lia. }
  apply bands_ok; try assumption.
  - apply Rle_trans with (bpow radix2 403); [lra|apply bpow_le; lia].
  - split; [exact Hd0|]. apply Rle_trans with (bpow radix2 403); [lra|apply bpow_le; lia].
Qed.
