(* IEEE-754 binary64 (Coq primitive floats, through Flocq): < is a strict total order with +infinity on top on the
   floats that are neither NaN nor -0.0; dually > with -infinity. Hence the Minimum / Maximum theorems hold for the
   float instance bit-for-bit on such inputs. *)
From Coq Require Import Reals Lra ZArith Floats.
From Flocq Require Import Core BinarySingleNaN PrimFloat.
From TA Require Import Base Model FloatInst Proofs.MinMaxProofs.

Definition okB (x : binary_float prec emax) : Prop :=
  match x with B754_nan => False | B754_zero true => False | _ => True end.
Definition okF (x : PrimFloat.float) : Prop := okB (Prim2B x).

Local Notation B := (binary_float prec emax).

Lemma Bltb_fin (x y : B) : is_finite x = true -> is_finite y = true -> Bltb x y = Rlt_bool (B2R x) (B2R y).
Proof. apply Bltb_correct. Qed.

Lemma finite_nonzero (s : bool) m e (H : bounded prec emax m e = true) : B2R (B754_finite s m e H : B) <> 0%R.
Proof.
  cbn. intros E. apply eq_0_F2R in E. cbn in E. destruct s; discriminate.
Qed.

Lemma Rlt_bool_false_inv' a b : Rlt_bool a b = false -> (b <= a)%R.
Proof. destruct (Rlt_bool_spec a b); [discriminate|auto]. Qed.

Lemma B_total (x y : B) : okB x -> okB y -> Bltb x y = false -> Bltb y x = false -> x = y.
Proof.
  intros Hx Hy H1 H2.
  destruct x as [sx|sx| |sx mx ex Bx]; destruct y as [sy|sy| |sy my ey By]; cbn in Hx, Hy; try contradiction.
  - destruct sx, sy; try contradiction; reflexivity.
  - destruct sx, sy; try contradiction; cbn in H1, H2; discriminate.
  - destruct sx; try contradiction. rewrite Bltb_fin in H1, H2 by reflexivity.
    pose proof (finite_nonzero sy my ey By) as N.
    apply Rlt_bool_false_inv' in H1. apply Rlt_bool_false_inv' in H2. exfalso. apply N. cbn [B2R] in *. lra.
  - destruct sx, sy; try contradiction; cbn in H1, H2; discriminate.
  - destruct sx, sy; try reflexivity; cbn in H1, H2; discriminate.
  - destruct sx, sy; cbn in H1, H2; discriminate.
  - destruct sy; try contradiction. rewrite Bltb_fin in H1, H2 by reflexivity.
    pose proof (finite_nonzero sx mx ex Bx) as N.
    apply Rlt_bool_false_inv' in H1. apply Rlt_bool_false_inv' in H2. exfalso. apply N. cbn [B2R] in *. lra.
  - destruct sx, sy; cbn in H1, H2; discriminate.
  - rewrite Bltb_fin in H1, H2 by reflexivity.
    apply Rlt_bool_false_inv' in H1. apply Rlt_bool_false_inv' in H2.
    apply B2R_inj; try reflexivity. lra.
Qed.

Lemma B_irrefl (x : B) : okB x -> Bltb x x = false.
Proof.
  intros Hx. destruct x as [s|s| |s m e Bx]; cbn in Hx; try contradiction.
  - rewrite Bltb_fin by reflexivity. apply Rlt_bool_false. lra.
  - destruct s; reflexivity.
  - rewrite Bltb_fin by reflexivity. apply Rlt_bool_false. lra.
Qed.

Lemma Bltb_inf_l (y : B) : Bltb (B754_infinity false) y = false.
Proof. destruct y as [s|s| |s m e By]; try destruct s; reflexivity. Qed.
Lemma Bltb_ninf_r (x : B) : Bltb x (B754_infinity true) = false.
Proof. destruct x as [s|s| |s m e Bx]; try destruct s; reflexivity. Qed.

Lemma Rlt_bool_true_inv a b : Rlt_bool a b = true -> (a < b)%R.
Proof. destruct (Rlt_bool_spec a b); [auto|discriminate]. Qed.
Lemma B_trans (x y z : B) : okB x -> okB y -> okB z -> Bltb x y = true -> Bltb y z = true -> Bltb x z = true.
Proof.
  intros Hx Hy Hz H1 H2.
  destruct (is_finite x) eqn:Fx; [|destruct x as [sx|[|]| |sx mx ex Bx]; try discriminate; try contradiction].
  - destruct (is_finite z) eqn:Fz; [|destruct z as [sz|[|]| |sz mz ez Bz]; try discriminate; try contradiction].
    + destruct (is_finite y) eqn:Fy; [|destruct y as [sy|[|]| |sy my ey By]; try discriminate; try contradiction].
      * rewrite Bltb_fin in * by assumption. apply Rlt_bool_true_inv in H1. apply Rlt_bool_true_inv in H2.
        apply Rlt_bool_true. lra.
      * rewrite Bltb_ninf_r in H1. discriminate.
      * rewrite Bltb_inf_l in H2. discriminate.
    + rewrite Bltb_ninf_r in H2. discriminate.
    + destruct x as [sx|sx| |sx mx ex Bx]; try discriminate; try destruct sx; reflexivity.
  - (* x = -inf *)
    destruct z as [sz|[|]| |sz mz ez Bz]; try contradiction; try reflexivity; try (destruct sz; reflexivity).
    rewrite Bltb_ninf_r in H2. discriminate.
  - rewrite Bltb_inf_l in H1. discriminate.
Qed.

Theorem B_order : order_on (fun a b : B => Bltb a b) (B754_infinity false) okB.
Proof.
  constructor.
  - exact B_irrefl.
  - exact B_trans.
  - exact B_total.
  - intros a _. apply Bltb_inf_l.
  - exact I.
Qed.

(* transfer to primitive floats *)
Theorem float_order_min : order_on (ltb FOps) (inf FOps) okF.
Proof.
  pose proof B_order as OB. constructor; cbn [ltb inf FOps].
  - intros a Ha. rewrite ltb_equiv. apply (o_irrefl _ _ _ OB). exact Ha.
  - intros a b c Ha Hb Hc. rewrite !ltb_equiv. apply (o_trans _ _ _ OB); assumption.
  - intros a b Ha Hb. rewrite !ltb_equiv. intros H1 H2. apply Prim2B_inj. apply (o_total _ _ _ OB); assumption.
  - intros a Ha. rewrite ltb_equiv. rewrite infinity_equiv, Prim2B_B2Prim. apply Bltb_inf_l.
  - unfold okF. rewrite infinity_equiv, Prim2B_B2Prim. exact I.
Qed.

Theorem B_order_max : order_on (fun a b : B => Bltb b a) (B754_infinity true) okB.
Proof.
  constructor.
  - exact B_irrefl.
  - intros a b c Ha Hb Hc H1 H2. exact (B_trans c b a Hc Hb Ha H2 H1).
  - intros a b Ha Hb H1 H2. exact (B_total a b Ha Hb H2 H1).
  - intros a _. apply Bltb_ninf_r.
  - exact I.
Qed.

Theorem float_order_max : order_on (fun a b => ltb FOps b a) (ninf FOps) okF.
Proof.
  pose proof B_order_max as OB. constructor; cbn [ltb ninf FOps].
  - intros a Ha. rewrite ltb_equiv. apply (o_irrefl _ _ _ OB). exact Ha.
  - intros a b c Ha Hb Hc. rewrite !ltb_equiv. apply (o_trans _ _ _ OB); assumption.
  - intros a b Ha Hb. rewrite !ltb_equiv. intros H1 H2. apply Prim2B_inj. apply (o_total _ _ _ OB); assumption.
  - intros a Ha. rewrite ltb_equiv. rewrite neg_infinity_equiv, Prim2B_B2Prim. apply Bltb_ninf_r.
  - unfold okF. rewrite neg_infinity_equiv, Prim2B_B2Prim. exact I.
Qed.

(* the hypothesis is decidable by computation: a float is admissible iff it is not NaN and not -0.0 *)
Definition okF_b (x : PrimFloat.float) : bool :=
  negb (PrimFloat.is_nan x) && negb (match Prim2SF x with S754_zero true => true | _ => false end).

Example okF_examples : okF 0%float /\ okF 1.5%float /\ okF infinity /\ okF neg_infinity /\ okF (-3)%float /\ okF 0x1p-1074%float.
Proof. unfold okF. repeat split; vm_compute; exact I. Qed.
