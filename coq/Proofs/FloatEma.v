(* ExponentialMovingAverage on binary64: forward error bound against the real recursion with alpha = 2/(n+1), including the
   rounding of the smoothing factor itself, by induction over the stream (rounding model of FloatErr.v, Flocq). *)
From Coq Require Import Reals Lra Lia ZArith List Floats.
From Flocq Require Import Core.
From TA Require Import Base Model FloatInst Proofs.Prims Proofs.WF Proofs.XBase Proofs.FloatErr Proofs.FloatSma.
Import ListNotations.
Open Scope R_scope.
Local Notation O := FOps.
Local Notation float := PrimFloat.float.

Lemma div_le_bound x q c : 0 < q -> Rabs x <= c * q -> Rabs (x / q) <= c.
Proof.
  intros Hq H. unfold Rdiv. rewrite Rabs_mult, (Rabs_pos_eq (/ q)) by (apply Rlt_le, Rinv_0_lt_compat; exact Hq).
  apply Rle_trans with (c * q * / q); [apply Rmult_le_compat_r; [apply Rlt_le, Rinv_0_lt_compat; exact Hq|exact H]|].
  rewrite Rmult_assoc, Rinv_r by lra. lra.
Qed.

Lemma eta_le_u : eta <= u.
Proof. unfold eta, u. apply Rmult_le_compat_l; [lra|]. apply bpow_le. cbn. lia. Qed.

Lemma BIG_ge : 2 ^ 60 <= BIG.
Proof. unfold BIG. apply Rle_trans with (bpow radix2 60); [cbn; lra|apply bpow_le; lia]. Qed.

(* the smoothing factor as computed: 2.0 / (period as f64 + 1.0) *)
Definition kf (p : N) : float := (2 / (f_ofN p + 1))%float.
Definition alpha (p : N) : R := 2 / (IZR (Z.of_N p) + 1).

Lemma kf_close p : (0 < p < 9007199254740992)%N -> finF (kf p) /\ Rabs (FR (kf p) - alpha p) <= 7 * u.
Proof.
  intros [Hp0 Hp]. destruct (f_ofN_exact p Hp) as [FP RP].
  pose proof u_pos as Hu0. pose proof u_le as Hu1. pose proof eta_pos as He0. pose proof eta_le_u as Heu. pose proof BIG_ge as HB.
  set (n := IZR (Z.of_N p) + 1).
  assert (Hn2 : 2 <= n) by (unfold n; assert (1 <= IZR (Z.of_N p)) by (apply IZR_le; lia); lra).
  assert (Hnb : n <= 2 ^ 54) by (unfold n; assert (IZR (Z.of_N p) <= 2 ^ 53) by (replace (2 ^ 53) with (IZR 9007199254740992) by (cbn; lra); apply IZR_le; lia); lra).
  destruct (fadd_err (f_ofN p) 1%float FP finF_one) as (Fq & ea & na & Hea & Hna & Rq).
  { rewrite RP, FR_one. fold n. rewrite Rabs_pos_eq; lra. }
  rewrite RP, FR_one in Rq. fold n in Rq. set (qf := (f_ofN p + 1)%float) in *. set (q := FR qf) in *.
  assert (Hqn : Rabs (q - n) <= 2 * u * n).
  { rewrite Rq. replace (n * (1 + ea) + na - n) with (n * ea + na) by ring.
    eapply Rle_trans; [apply Rabs_triang|]. rewrite Rabs_mult, (Rabs_pos_eq n) by lra.
    assert (n * Rabs ea <= n * u) by (apply Rmult_le_compat_l; lra).
    assert (Rabs na <= u * n) by (apply Rle_trans with u; [lra|]; rewrite <- (Rmult_1_r u) at 1; apply Rmult_le_compat_l; lra).
    lra. }
  assert (Hq99 : 99 / 100 * n <= q).
  { apply Rabs_le_inv in Hqn. assert (2 * u * n <= / 100 * n) by (apply Rmult_le_compat_r; lra). lra. }
  assert (Hq0 : 0 < q) by lra.
  destruct (fdiv_err 2%float qf finF_two) as (Fk & ed & nd & Hed & Hnd & Rk); [fold q; lra| |].
  { rewrite FR_two. fold q. apply Rle_trans with 2; [|lra]. apply div_le_bound; [exact Hq0|]. rewrite Rabs_pos_eq; lra. }
  rewrite FR_two in Rk. fold q in Rk. unfold kf. fold qf. split; [exact Fk|].
  unfold alpha. fold n.
  assert (D1 : Rabs (2 / q - 2 / n) <= 3 * u).
  { replace (2 / q - 2 / n) with ((2 / n) * ((n - q) / q)) by (field; lra).
    rewrite Rabs_mult. assert (Rabs (2 / n) <= 1) by (apply div_le_bound; [lra|rewrite Rabs_pos_eq; lra]).
    assert (Rabs ((n - q) / q) <= 3 * u).
    { apply div_le_bound; [exact Hq0|]. rewrite Rabs_minus_sym. eapply Rle_trans; [exact Hqn|].
      assert (3 * u * (99 / 100 * n) <= 3 * u * q) by (apply Rmult_le_compat_l; lra).
      assert (0 <= u * n) by (apply Rmult_le_pos; lra). lra. }
    replace (3 * u) with (1 * (3 * u)) by ring. apply Rmult_le_compat; try apply Rabs_pos; assumption. }
  assert (D2 : Rabs (2 / q) <= 1 + 3 * u).
  { replace (2 / q) with ((2 / q - 2 / n) + 2 / n) by ring. eapply Rle_trans; [apply Rabs_triang|].
    assert (Rabs (2 / n) <= 1) by (apply div_le_bound; [lra|rewrite Rabs_pos_eq; lra]). lra. }
  rewrite Rk. replace (2 / q * (1 + ed) + nd - 2 / n) with ((2 / q - 2 / n) + (2 / q) * ed + nd) by ring.
  eapply Rle_trans; [apply Rabs_triang|]. eapply Rle_trans; [apply Rplus_le_compat_r, Rabs_triang|].
  rewrite Rabs_mult.
  assert (Rabs (2 / q) * Rabs ed <= (1 + 3 * u) * u) by (apply Rmult_le_compat; try apply Rabs_pos; assumption).
  assert (u * u <= u * / 1000) by (apply Rmult_le_compat_l; lra).
  lra.
Qed.

(* one step of the recursion on floats against one step of the real recursion *)
Lemma fema_step_err (k c x : float) (al E M R0 : R) :
  finF k -> Rabs (FR k - al) <= 7 * u -> 0 < al <= 1 ->
  bpow radix2 (-960) <= M -> M <= bpow radix2 990 ->
  finF c -> Rabs (FR c - E) <= R0 -> 0 <= R0 <= M -> Rabs E <= M -> okin M x ->
  let out := (k * x + (1 - k) * c)%float in
  finF out /\ Rabs (FR out - (al * FR x + (1 - al) * E)) <= (1 - al + 7 * u) * R0 + 31 * u * M.
Proof.
  intros Fk Hk [Ha0 Ha1] HMl HMu Fc Hc [HR0 HRM] HE [Fx Hx] out. pose proof BIG_ge as HB.
  pose proof u_pos as Hu0. pose proof u_le as Hu1. pose proof eta_pos as He0. pose proof eta_le_u as Heu.
  assert (HM0 : 0 < M) by (eapply Rlt_le_trans; [apply bpow_gt_0|exact HMl]).
  assert (HMB : 8 * M <= BIG).
  { unfold BIG. apply Rle_trans with (8 * bpow radix2 990); [lra|]. change 8 with (bpow radix2 3). rewrite <- bpow_plus. apply bpow_le. lia. }
  assert (HeM : eta <= u * M).
  { apply Rle_trans with (u * bpow radix2 (-960)); [|apply Rmult_le_compat_l; lra].
    unfold eta, u. rewrite Rmult_assoc. apply Rmult_le_compat_l; [lra|]. rewrite <- bpow_plus. apply bpow_le. cbn. lia. }
  set (ka := FR k) in *. set (xv := FR x) in *. set (cv := FR c) in *.
  assert (Hka : Rabs ka <= 1 + 7 * u).
  { replace ka with ((ka - al) + al) by ring. eapply Rle_trans; [apply Rabs_triang|]. rewrite (Rabs_pos_eq al) by lra. lra. }
  assert (H1k : Rabs (1 - ka) <= 1 - al + 7 * u).
  { replace (1 - ka) with ((1 - al) + (al - ka)) by ring. eapply Rle_trans; [apply Rabs_triang|].
    rewrite (Rabs_pos_eq (1 - al)) by lra. rewrite Rabs_minus_sym. lra. }
  assert (H1k' : Rabs (1 - ka) <= 1 + 7 * u) by lra.
  assert (Hcv : Rabs cv <= 2 * M).
  { replace cv with ((cv - E) + E) by ring. eapply Rle_trans; [apply Rabs_triang|]. lra. }
  assert (HuM : 0 < u * M) by (apply Rmult_lt_0_compat; assumption).
  assert (HuM1 : u * M <= / 1000 * M) by (apply Rmult_le_compat_r; lra).
  assert (Huu : u * u <= u * / 1000) by (apply Rmult_le_compat_l; lra).
  assert (HuuM : u * u * M <= u * M * / 1000) by (rewrite (Rmult_comm (u * M)), <- Rmult_assoc, (Rmult_comm (/ 1000)); apply Rmult_le_compat_r; lra).
  (* m1 = k * x *)
  assert (Bkx : Rabs (ka * xv) <= (1 + 7 * u) * M) by (rewrite Rabs_mult; apply Rmult_le_compat; try apply Rabs_pos; assumption).
  destruct (fmul_err k x Fk Fx) as (F1 & e1 & n1 & He1 & Hn1 & R1); [fold ka xv; lra|]. fold ka xv in R1.
  set (m1 := (k * x)%float) in *.
  assert (D1 : Rabs (FR m1 - ka * xv) <= 3 * u * M).
  { rewrite R1. replace (ka * xv * (1 + e1) + n1 - ka * xv) with (ka * xv * e1 + n1) by ring.
    eapply Rle_trans; [apply Rabs_triang|]. rewrite Rabs_mult.
    assert (Rabs (ka * xv) * Rabs e1 <= (1 + 7 * u) * M * u) by (apply Rmult_le_compat; try apply Rabs_pos; assumption).
    lra. }
  (* o1 = 1 - k *)
  destruct (fsub_err 1%float k finF_one Fk) as (F2 & e2 & n2 & He2 & Hn2 & R2); [rewrite FR_one; fold ka; lra|].
  rewrite FR_one in R2. fold ka in R2. set (o1 := (1 - k)%float) in *.
  assert (D2 : Rabs (FR o1 - (1 - ka)) <= 3 * u).
  { rewrite R2. replace ((1 - ka) * (1 + e2) + n2 - (1 - ka)) with ((1 - ka) * e2 + n2) by ring.
    eapply Rle_trans; [apply Rabs_triang|]. rewrite Rabs_mult.
    assert (Rabs (1 - ka) * Rabs e2 <= (1 + 7 * u) * u) by (apply Rmult_le_compat; try apply Rabs_pos; assumption).
    lra. }
  assert (Ho1 : Rabs (FR o1) <= 1 + 10 * u).
  { replace (FR o1) with ((FR o1 - (1 - ka)) + (1 - ka)) by ring. eapply Rle_trans; [apply Rabs_triang|]. lra. }
  (* m2 = o1 * c *)
  assert (Boc : Rabs (FR o1 * cv) <= (1 + 10 * u) * (2 * M)) by (rewrite Rabs_mult; apply Rmult_le_compat; try apply Rabs_pos; assumption).
  destruct (fmul_err o1 c F2 Fc) as (F3 & e3 & n3 & He3 & Hn3 & R3); [fold cv; lra|]. fold cv in R3.
  set (m2 := (o1 * c)%float) in *.
  assert (D3 : Rabs (FR m2 - FR o1 * cv) <= 4 * u * M).
  { rewrite R3. replace (FR o1 * cv * (1 + e3) + n3 - FR o1 * cv) with (FR o1 * cv * e3 + n3) by ring.
    eapply Rle_trans; [apply Rabs_triang|]. rewrite Rabs_mult.
    assert (Rabs (FR o1 * cv) * Rabs e3 <= (1 + 10 * u) * (2 * M) * u) by (apply Rmult_le_compat; try apply Rabs_pos; assumption).
    lra. }
  (* o1 * c against (1 - al) * E *)
  assert (D4 : Rabs (FR o1 * cv - (1 - al) * E) <= (1 - al + 7 * u) * R0 + 13 * u * M).
  { replace (FR o1 * cv - (1 - al) * E) with ((FR o1 - (1 - ka)) * cv + (1 - ka) * (cv - E) + (al - ka) * E) by ring.
    eapply Rle_trans; [apply Rabs_triang|]. eapply Rle_trans; [apply Rplus_le_compat_r, Rabs_triang|].
    rewrite !Rabs_mult.
    assert (Rabs (FR o1 - (1 - ka)) * Rabs cv <= 3 * u * (2 * M)) by (apply Rmult_le_compat; try apply Rabs_pos; assumption).
    assert (Rabs (1 - ka) * Rabs (cv - E) <= (1 - al + 7 * u) * R0) by (apply Rmult_le_compat; try apply Rabs_pos; assumption).
    assert (Rabs (al - ka) * Rabs E <= 7 * u * M) by (apply Rmult_le_compat; try apply Rabs_pos; [rewrite Rabs_minus_sym|]; assumption).
    lra. }
  assert (D5 : Rabs (FR m1 - al * xv) <= 10 * u * M).
  { replace (FR m1 - al * xv) with ((FR m1 - ka * xv) + (ka - al) * xv) by ring.
    eapply Rle_trans; [apply Rabs_triang|]. rewrite Rabs_mult.
    assert (Rabs (ka - al) * Rabs xv <= 7 * u * M) by (apply Rmult_le_compat; try apply Rabs_pos; assumption).
    lra. }
  set (E' := al * xv + (1 - al) * E).
  assert (HE' : Rabs E' <= M).
  { unfold E'. eapply Rle_trans; [apply Rabs_triang|]. rewrite !Rabs_mult, (Rabs_pos_eq al), (Rabs_pos_eq (1 - al)) by lra.
    assert (al * Rabs xv <= al * M) by (apply Rmult_le_compat_l; lra).
    assert ((1 - al) * Rabs E <= (1 - al) * M) by (apply Rmult_le_compat_l; lra). lra. }
  assert (HuR : u * R0 <= u * M) by (apply Rmult_le_compat_l; lra).
  assert (HalR : 0 <= al * R0) by (apply Rmult_le_pos; lra).
  assert (D6 : Rabs (FR m1 + FR m2 - E') <= (1 - al + 7 * u) * R0 + 27 * u * M).
  { unfold E'. replace (FR m1 + FR m2 - (al * xv + (1 - al) * E))
      with ((FR m1 - al * xv) + (FR m2 - FR o1 * cv) + (FR o1 * cv - (1 - al) * E)) by ring.
    eapply Rle_trans; [apply Rabs_triang|]. eapply Rle_trans; [apply Rplus_le_compat_r, Rabs_triang|]. lra. }
  assert (B6 : Rabs (FR m1 + FR m2) <= 3 * M).
  { replace (FR m1 + FR m2) with ((FR m1 + FR m2 - E') + E') by ring. eapply Rle_trans; [apply Rabs_triang|]. lra. }
  destruct (fadd_err m1 m2 F1 F3) as (F4 & e4 & n4 & He4 & Hn4 & R4); [lra|].
  split; [exact F4|]. fold E'. unfold out. fold m1 o1 m2. rewrite R4.
  replace ((FR m1 + FR m2) * (1 + e4) + n4 - E') with ((FR m1 + FR m2 - E') + (FR m1 + FR m2) * e4 + n4) by ring.
  eapply Rle_trans; [apply Rabs_triang|]. eapply Rle_trans; [apply Rplus_le_compat_r, Rabs_triang|]. rewrite Rabs_mult.
  assert (Rabs (FR m1 + FR m2) * Rabs e4 <= 3 * M * u) by (apply Rmult_le_compat; try apply Rabs_pos; assumption).
  lra.
Qed.

(* ---- the whole stream ---- *)
From TA Require Import Proofs.Wiring Proofs.XEma.
Open Scope R_scope.

Lemma fema_run (p : N) (al M : R) : finF (kf p) -> Rabs (FR (kf p) - al) <= 7 * u -> 0 < al <= 1 ->
  bpow radix2 (-960) <= M -> M <= bpow radix2 990 ->
  forall xs (c : float) (E R0 : R) (t : nat),
  finF c -> Rabs (FR c - E) <= R0 -> 0 <= R0 <= 32 * INR t * u * M -> Rabs E <= M -> Forall (okin M) xs ->
  INR (t + length xs) * u <= / 256 ->
  let outs := ema_outs O (mkEma p (kf p) c false) xs in
  let reals := ema_real al E (map FR xs) in
  length outs = length xs /\ length reals = length xs /\
  forall j, (j < length xs)%nat ->
    finF (nth j outs 0%float) /\ Rabs (FR (nth j outs 0%float) - nth j reals 0) <= 32 * INR (t + j + 1) * u * M.
Proof.
  intros Fk Hk Hal HMl HMu. pose proof u_pos as Hu0. pose proof u_le as Hu1.
  assert (HM0 : 0 < M) by (eapply Rlt_le_trans; [apply bpow_gt_0|exact HMl]).
  assert (HuM : 0 < u * M) by (apply Rmult_lt_0_compat; assumption).
  induction xs as [|x xs IH]; intros c E R0 t Fc Hc HR0 HE Hxs Htu outs reals.
  - split; [reflexivity|]. split; [reflexivity|]. intros j Hj. cbn in Hj. lia.
  - pose proof (Forall_inv Hxs) as Hx. pose proof (Forall_inv_tail Hxs) as Hxs'.
    assert (Htu1 : INR (S t) * u <= / 256).
    { eapply Rle_trans; [|exact Htu]. apply Rmult_le_compat_r; [lra|]. apply le_INR. cbn [length]. lia. }
    assert (Ht0 : 0 <= INR t) by apply pos_INR.
    assert (HRM : R0 <= M).
    { destruct HR0 as [_ H]. eapply Rle_trans; [exact H|]. rewrite S_INR in Htu1.
      assert (32 * INR t * u <= 1) by nra. replace (32 * INR t * u * M) with ((32 * INR t * u) * M) by ring.
      rewrite <- (Rmult_1_l M) at 2. apply Rmult_le_compat_r; lra. }
    destruct (fema_step_err (kf p) c x al E M R0 Fk Hk Hal HMl HMu Fc Hc (conj (proj1 HR0) HRM) HE Hx) as [Fo Ho0].
    assert (Ho : Rabs (FR (kf p * x + (1 - kf p) * c)%float - (al * FR x + (1 - al) * E)) <= (1 + 7 * u) * R0 + 31 * u * M).
    { eapply Rle_trans; [exact Ho0|]. assert (0 <= al * R0) by (apply Rmult_le_pos; [lra|apply HR0]). lra. }
    clear Ho0.
    set (o := (kf p * x + (1 - kf p) * c)%float) in *. set (E' := al * FR x + (1 - al) * E) in *.
    assert (HE' : Rabs E' <= M).
    { unfold E'. destruct Hx as [_ Hx]. destruct Hal as [Ha0 Ha1]. eapply Rle_trans; [apply Rabs_triang|].
      rewrite !Rabs_mult, (Rabs_pos_eq al), (Rabs_pos_eq (1 - al)) by lra.
      assert (al * Rabs (FR x) <= al * M) by (apply Rmult_le_compat_l; lra).
      assert ((1 - al) * Rabs E <= (1 - al) * M) by (apply Rmult_le_compat_l; lra). lra. }
    assert (HR' : (1 + 7 * u) * R0 + 31 * u * M <= 32 * INR (S t) * u * M).
    { destruct HR0 as [HR00 HR0]. rewrite S_INR in *.
      assert (H1 : (1 + 7 * u) * R0 <= (1 + 7 * u) * (32 * INR t * u * M)) by (apply Rmult_le_compat_l; lra).
      assert (H2 : INR t * u <= / 256) by nra.
      assert (H3 : 7 * u * (32 * INR t * u * M) = 224 * (INR t * u) * (u * M)) by ring.
      assert (H4 : 224 * (INR t * u) * (u * M) <= 224 * / 256 * (u * M)) by (apply Rmult_le_compat_r; lra).
      replace (32 * (INR t + 1) * u * M) with (32 * INR t * u * M + 32 * (u * M)) by ring.
      replace ((1 + 7 * u) * (32 * INR t * u * M)) with (32 * INR t * u * M + 7 * u * (32 * INR t * u * M)) in H1 by ring.
      replace (31 * u * M) with (31 * (u * M)) by ring. lra. }
    assert (HR'0 : 0 <= (1 + 7 * u) * R0 + 31 * u * M).
    { assert (0 <= (1 + 7 * u) * R0) by (apply Rmult_le_pos; lra). replace (31 * u * M) with (31 * (u * M)) by ring. lra. }
    destruct (IH o E' ((1 + 7 * u) * R0 + 31 * u * M) (S t) Fo Ho (conj HR'0 HR') HE' Hxs') as (L1 & L2 & Hn).
    { replace (S t + length xs)%nat with (t + length (x :: xs))%nat by (cbn [length]; lia). exact Htu. }
    unfold outs, reals. cbn [ema_outs map ema_real]. unfold ema_next. cbn [ema_is_new ema_k ema_current ema_period mul add sub one O].
    fold o. fold E'. cbn [length]. split; [now rewrite L1|]. split; [now rewrite L2|].
    intros [|j] Hj; cbn [nth].
    + split; [exact Fo|]. eapply Rle_trans; [exact Ho|]. replace (t + 0 + 1)%nat with (S t) by lia. exact HR'.
    + replace (t + S j + 1)%nat with (S t + j + 1)%nat by lia. apply Hn. cbn [length] in Hj. lia.
Qed.

Lemma ema_bound_tau M T : 0 <= M -> 1 <= T ->
  32 * T * u * M <= (1 / 10 ^ 12 + 1 / 10 ^ 15 * (T * R_sqrt.sqrt T)) * M.
Proof.
  intros HM HT.
  assert (Hu : u <= 12 / 10 ^ 17) by (unfold u; cbn; lra).
  pose proof u_pos as Hu0.
  replace (32 * T * u * M) with ((32 * T * u) * M) by ring. apply Rmult_le_compat_r; [exact HM|].
  assert (H1 : 32 * T * u <= 32 * T * (12 / 10 ^ 17)) by (apply Rmult_le_compat_l; lra).
  destruct (Rle_dec T 256) as [Hs|Hl].
  - assert (0 <= T * R_sqrt.sqrt T) by (apply Rmult_le_pos; [lra|apply sqrt_pos]). lra.
  - assert (Hsq : 16 <= R_sqrt.sqrt T).
    { rewrite <- (sqrt_square 16) by lra. apply sqrt_le_1_alt. lra. }
    assert (16 * T <= T * R_sqrt.sqrt T) by (rewrite (Rmult_comm 16 T); apply Rmult_le_compat_l; lra).
    lra.
Qed.

(* the explicit bound: 32 * t * 2^-53 * M *)
Theorem ema_float_error : forall p s xs M, ema_new O p = Ok s -> (p < 9007199254740992)%N ->
  bpow radix2 (-960) <= M -> M <= bpow radix2 990 -> Forall (okin M) xs -> INR (length xs) * u <= / 256 ->
  let outs := ema_outs O s xs in
  let reals := ema_stream (kreal p) (map FR xs) in
  length outs = length xs /\
  forall j, (j < length xs)%nat ->
    finF (nth j outs 0%float) /\
    Rabs (FR (nth j outs 0%float) - nth j reals 0) <= 32 * INR (j + 1) * u * M.
Proof.
  intros p s xs M H Hp HMl HMu Hxs Htu outs reals.
  assert (HM0 : 0 <= M) by (eapply Rle_trans; [apply bpow_ge_0|exact HMl]).
  unfold ema_new in H. destruct (N.eqb_spec p 0) as [->|Hp0]; [discriminate|]. injection H as <-.
  change (div O (two O) (add O (ofN O p) (one O))) with (kf p) in *.
  destruct (kf_close p ltac:(lia)) as [Fk Hk].
  assert (Hal : 0 < kreal p <= 1) by (apply kreal_range; exact Hp0).
  destruct xs as [|x xs]; [split; [reflexivity|intros j Hj; cbn in Hj; lia]|].
  pose proof (Forall_inv Hxs) as Hx. pose proof (Forall_inv_tail Hxs) as Hxs'.
  unfold outs, reals. cbn [ema_outs map ema_stream]. unfold ema_next at 1. cbn [ema_is_new ema_k ema_current ema_period].
  change (2 / (f_ofN p + 1))%float with (kf p).
  assert (A1 : Rabs (FR x - FR x) <= 0) by (rewrite Rminus_diag_eq by reflexivity; rewrite Rabs_R0; lra).
  assert (A2 : 0 <= 0 <= 32 * INR 1 * u * M).
  { split; [lra|]. pose proof u_pos. cbn. assert (0 <= u * M) by (apply Rmult_le_pos; lra). lra. }
  assert (A3 : INR (1 + length xs) * u <= / 256) by (replace (1 + length xs)%nat with (length (x :: xs)) by reflexivity; exact Htu).
  change (alpha p) with (kreal p) in Hk.
  pose proof (fema_run p (kreal p) M Fk Hk Hal HMl HMu xs x (FR x) 0 1%nat (proj1 Hx) A1 A2 (proj2 Hx) Hxs' A3) as (L1 & L2 & Hn).
  cbn [length]. split; [now rewrite L1|].
  intros [|j] Hj; cbn [nth].
    + split; [apply Hx|]. rewrite Rminus_diag_eq by reflexivity. rewrite Rabs_R0.
      pose proof u_pos. assert (0 <= 32 * INR (0 + 1) * u) by (cbn; lra). apply Rmult_le_pos; assumption.
    + destruct (Hn j ltac:(lia)) as [Fo Ho]. split; [exact Fo|]. eapply Rle_trans; [exact Ho|].
      replace (1 + j + 1)%nat with (S j + 1)%nat by lia. lra.
Qed.

(* binary64 EMA stays within tau(t) * M of the real recursion with alpha = 2/(n+1): every period below 2^53, every stream
   of up to 2^45 finite inputs with magnitudes bounded by M, 2^-960 <= M <= 2^990 *)
Theorem ema_float_within_tau : forall p s xs M, ema_new O p = Ok s -> (p < 9007199254740992)%N ->
  bpow radix2 (-960) <= M -> M <= bpow radix2 990 -> Forall (okin M) xs -> INR (length xs) * u <= / 256 ->
  let outs := ema_outs O s xs in
  let reals := ema_stream (kreal p) (map FR xs) in
  length outs = length xs /\
  forall j, (j < length xs)%nat ->
    finF (nth j outs 0%float) /\
    Rabs (FR (nth j outs 0%float) - nth j reals 0) <=
    (1 / 10 ^ 12 + 1 / 10 ^ 15 * (INR (j + 1) * R_sqrt.sqrt (INR (j + 1)))) * M.
Proof.
  intros p s xs M H Hp HMl HMu Hxs Htu outs reals.
  assert (HM0 : 0 <= M) by (eapply Rle_trans; [apply bpow_ge_0|exact HMl]).
  unfold ema_new in H. destruct (N.eqb_spec p 0) as [->|Hp0]; [discriminate|]. injection H as <-.
  change (div O (two O) (add O (ofN O p) (one O))) with (kf p) in *.
  destruct (kf_close p ltac:(lia)) as [Fk Hk].
  assert (Hal : 0 < kreal p <= 1) by (apply kreal_range; exact Hp0).
  destruct xs as [|x xs]; [split; [reflexivity|intros j Hj; cbn in Hj; lia]|].
  pose proof (Forall_inv Hxs) as Hx. pose proof (Forall_inv_tail Hxs) as Hxs'.
  unfold outs, reals. cbn [ema_outs map ema_stream]. unfold ema_next at 1. cbn [ema_is_new ema_k ema_current ema_period].
  change (2 / (f_ofN p + 1))%float with (kf p).
  assert (A1 : Rabs (FR x - FR x) <= 0) by (rewrite Rminus_diag_eq by reflexivity; rewrite Rabs_R0; lra).
  assert (A2 : 0 <= 0 <= 32 * INR 1 * u * M).
  { split; [lra|]. pose proof u_pos. cbn. assert (0 <= u * M) by (apply Rmult_le_pos; lra). lra. }
  assert (A3 : INR (1 + length xs) * u <= / 256) by (replace (1 + length xs)%nat with (length (x :: xs)) by reflexivity; exact Htu).
  change (alpha p) with (kreal p) in Hk.
  pose proof (fema_run p (kreal p) M Fk Hk Hal HMl HMu xs x (FR x) 0 1%nat (proj1 Hx) A1 A2 (proj2 Hx) Hxs' A3) as (L1 & L2 & Hn).
  cbn [length]. split; [now rewrite L1|].
  intros [|j] Hj; cbn [nth].
    + split; [apply Hx|]. rewrite Rminus_diag_eq by reflexivity. rewrite Rabs_R0.
      apply Rmult_le_pos; [|exact HM0]. assert (0 <= INR (0 + 1) * R_sqrt.sqrt (INR (0 + 1))) by (apply Rmult_le_pos; [apply pos_INR|apply sqrt_pos]). lra.
    + destruct (Hn j ltac:(lia)) as [Fo Ho]. split; [exact Fo|]. eapply Rle_trans; [exact Ho|].
      replace (1 + j + 1)%nat with (S j + 1)%nat by lia. apply ema_bound_tau; [exact HM0|].
      change 1 with (INR 1). apply le_INR. lia.
Qed.

(* ---- streams of ANY length: the recursion contracts, so the error saturates at 34 u M / alpha = 17 (n+1) u M ---- *)
Lemma fema_sat (p : N) (al M S : R) : finF (kf p) -> Rabs (FR (kf p) - al) <= 7 * u -> 0 < al <= 1 -> 91 * u <= al ->
  bpow radix2 (-960) <= M -> M <= bpow radix2 990 -> 0 <= S -> al * S = 34 * u * M ->
  forall xs (c : float) (E R0 : R),
  finF c -> Rabs (FR c - E) <= R0 -> 0 <= R0 <= S -> Rabs E <= M -> Forall (okin M) xs ->
  let outs := ema_outs O (mkEma p (kf p) c false) xs in
  let reals := ema_real al E (map FR xs) in
  length outs = length xs /\ length reals = length xs /\
  forall j, (j < length xs)%nat -> finF (nth j outs 0%float) /\ Rabs (FR (nth j outs 0%float) - nth j reals 0) <= S.
Proof.
  intros Fk Hk Hal Hal91 HMl HMu HS0 HS. pose proof u_pos as Hu0. pose proof u_le as Hu1.
  assert (HM0 : 0 < M) by (eapply Rlt_le_trans; [apply bpow_gt_0|exact HMl]).
  assert (HuM : 0 < u * M) by (apply Rmult_lt_0_compat; assumption).
  assert (HSM : 91 * S <= 34 * M).
  { assert (H1 : 91 * u * S <= al * S) by (apply Rmult_le_compat_r; lra).
    apply Rmult_le_reg_l with u; [exact Hu0|]. lra. }
  assert (HuS : u * S <= u * M) by (apply Rmult_le_compat_l; lra).
  induction xs as [|x xs IH]; intros c E R0 Fc Hc HR0 HE Hxs outs reals.
  - split; [reflexivity|]. split; [reflexivity|]. intros j Hj. cbn in Hj. lia.
  - pose proof (Forall_inv Hxs) as Hx. pose proof (Forall_inv_tail Hxs) as Hxs'.
    assert (HRM : R0 <= M) by lra.
    destruct (fema_step_err (kf p) c x al E M R0 Fk Hk Hal HMl HMu Fc Hc (conj (proj1 HR0) HRM) HE Hx) as [Fo Ho].
    set (o := (kf p * x + (1 - kf p) * c)%float) in *. set (E' := al * FR x + (1 - al) * E) in *.
    assert (HE' : Rabs E' <= M).
    { unfold E'. destruct Hx as [_ Hx]. destruct Hal as [Ha0 Ha1]. eapply Rle_trans; [apply Rabs_triang|].
      rewrite !Rabs_mult, (Rabs_pos_eq al), (Rabs_pos_eq (1 - al)) by lra.
      assert (al * Rabs (FR x) <= al * M) by (apply Rmult_le_compat_l; lra).
      assert ((1 - al) * Rabs E <= (1 - al) * M) by (apply Rmult_le_compat_l; lra). lra. }
    assert (Hfac : 0 <= 1 - al + 7 * u) by lra.
    assert (HR' : (1 - al + 7 * u) * R0 + 31 * u * M <= S).
    { assert (H1 : (1 - al + 7 * u) * R0 <= (1 - al + 7 * u) * S) by (apply Rmult_le_compat_l; lra).
      replace ((1 - al + 7 * u) * S) with (S - al * S + 7 * (u * S)) in H1 by ring. rewrite HS in H1.
      replace (31 * u * M) with (31 * (u * M)) by ring. replace (34 * u * M) with (34 * (u * M)) in H1 by ring.
      assert (7 * (u * S) <= 3 * (u * M)).
      { replace (7 * (u * S)) with (u * (7 * S)) by ring. replace (3 * (u * M)) with (u * (3 * M)) by ring. apply Rmult_le_compat_l; lra. }
      lra. }
    assert (HR'0 : 0 <= (1 - al + 7 * u) * R0 + 31 * u * M).
    { assert (0 <= (1 - al + 7 * u) * R0) by (apply Rmult_le_pos; lra). replace (31 * u * M) with (31 * (u * M)) by ring. lra. }
    destruct (IH o E' ((1 - al + 7 * u) * R0 + 31 * u * M) Fo Ho (conj HR'0 HR') HE' Hxs') as (L1 & L2 & Hn).
    unfold outs, reals. cbn [ema_outs map ema_real]. unfold ema_next. cbn [ema_is_new ema_k ema_current ema_period mul add sub one O].
    fold o. fold E'. cbn [length]. split; [now rewrite L1|]. split; [now rewrite L2|].
    intros [|j] Hj; cbn [nth].
    + split; [exact Fo|]. lra.
    + apply Hn. cbn [length] in Hj. lia.
Qed.

(* binary64 EMA, streams of any length: uniformly within 17 (n+1) 2^-53 M of the real recursion *)
Theorem ema_float_uniform : forall p s xs M, ema_new O p = Ok s -> (p < 140737488355328)%N ->
  bpow radix2 (-960) <= M -> M <= bpow radix2 990 -> Forall (okin M) xs ->
  let outs := ema_outs O s xs in
  let reals := ema_stream (kreal p) (map FR xs) in
  length outs = length xs /\
  forall j, (j < length xs)%nat ->
    finF (nth j outs 0%float) /\ Rabs (FR (nth j outs 0%float) - nth j reals 0) <= 17 * (IZR (Z.of_N p) + 1) * u * M.
Proof.
  intros p s xs M H Hp HMl HMu Hxs outs reals. pose proof u_pos as Hu0.
  assert (HM0 : 0 <= M) by (eapply Rle_trans; [apply bpow_ge_0|exact HMl]).
  unfold ema_new in H. destruct (N.eqb_spec p 0) as [->|Hp0]; [discriminate|]. injection H as <-.
  destruct (kf_close p ltac:(lia)) as [Fk Hk]. change (alpha p) with (kreal p) in Hk.
  assert (Hal : 0 < kreal p <= 1) by (apply kreal_range; exact Hp0).
  set (n1 := IZR (Z.of_N p) + 1).
  assert (Hn1 : 2 <= n1) by (unfold n1; assert (1 <= IZR (Z.of_N p)) by (apply IZR_le; lia); lra).
  assert (Hn1u : n1 <= 2 ^ 47 + 1) by (unfold n1; assert (IZR (Z.of_N p) <= 2 ^ 47) by (replace (2 ^ 47) with (IZR 140737488355328) by (cbn; lra); apply IZR_le; lia); lra).
  assert (Ek : kreal p = 2 / n1) by reflexivity.
  assert (Hal91 : 91 * u <= kreal p).
  { rewrite Ek. apply Rmult_le_reg_r with n1; [lra|]. replace (2 / n1 * n1) with 2 by (field; lra).
    assert (Hu : u <= 12 / 10 ^ 17) by (unfold u; cbn; lra).
    assert (91 * u * n1 <= 91 * (12 / 10 ^ 17) * (2 ^ 47 + 1)) by (apply Rmult_le_compat; try lra; apply Rmult_le_pos; lra). lra. }
  set (S := 17 * n1 * u * M).
  assert (HS0 : 0 <= S) by (unfold S; apply Rmult_le_pos; [apply Rmult_le_pos; [lra|lra]|exact HM0]).
  assert (HSeq : kreal p * S = 34 * u * M) by (rewrite Ek; unfold S; field; lra).
  destruct xs as [|x xs]; [split; [reflexivity|intros j Hj; cbn in Hj; lia]|].
  pose proof (Forall_inv Hxs) as Hx. pose proof (Forall_inv_tail Hxs) as Hxs'.
  unfold outs, reals. cbn [ema_outs map ema_stream]. unfold ema_next at 1. cbn [ema_is_new ema_k ema_current ema_period].
  change (2 / (f_ofN p + 1))%float with (kf p).
  assert (A1 : Rabs (FR x - FR x) <= 0) by (rewrite Rminus_diag_eq by reflexivity; rewrite Rabs_R0; lra).
  pose proof (fema_sat p (kreal p) M S Fk Hk Hal Hal91 HMl HMu HS0 HSeq xs x (FR x) 0 (proj1 Hx) A1 (conj (Rle_refl 0) HS0) (proj2 Hx) Hxs') as (L1 & L2 & Hn).
  cbn [length]. split; [now rewrite L1|].
  intros [|j] Hj; cbn [nth].
  - split; [apply Hx|]. rewrite Rminus_diag_eq by reflexivity. rewrite Rabs_R0. exact HS0.
  - apply Hn. lia.
Qed.
