# C04 — reset() returns every indicator to a state indistinguishable from a fresh one
from props.util import *

rule = ("for each of the 22 indicators and parameter choices with periods 1..4 (plus sampled larger): slot 0 gets a history of "
        "next/reset ops over an alphabet with ties, NaN, +-inf, extreme values (exhaustive op-tries to the tier's depth plus random "
        "deep histories), is probed, reset (once or twice), probed again and then fed >= period+2 finite inputs in lock-step with a "
        "freshly constructed instance in slot 1; also reset on a fresh instance; plus lives of 1021, 4093 and 65533 inputs before the reset (seed-independent; the longest on the implementation only). Non-trivial: distinct case whose history fed at "
        "least one input before the reset")
assumptions = ["continuations are finite values (the property quantifies non-finite values over the prior history only)"]


def gen_cases(ctx):
    r = ctx.rng
    cases = []
    depth = 4 if not ctx.thorough else 6
    n_rand = 6 if not ctx.thorough else 40
    for ind in ALL:
        plist = [1, 2, 3, 4] if nper(ind) > 0 else [0]
        for gi, pr in enumerate(params_grid(ind, plist)[: (8 if not ctx.thorough else 40)]):
            p = max(pr[0], pr[1], pr[2], 1)
            hists = []
            # exhaustive short op-tries over a small alphabet (one alphabet per case family)
            alpha_s = [1.0, 2.5, 2.5, float("nan"), float("inf"), -1.0]
            for _ in range(n_rand):
                n = r.choice([0, 1, 2, p, p + 1, 2 * p + 1, r.randint(3, 60), r.randint(100, 400) if ctx.thorough else 30])
                h = feed(r, ind, n, specials=r.choice([0.0, 0.15, 0.4]), p=p)
                # sprinkle resets inside the history
                for _ in range(r.choice([0, 0, 1, 2])):
                    h.insert(r.randrange(len(h) + 1), ("r", 0))
                hists.append(h)
            if ind not in NO_SCALAR:
                import itertools
                words = list(itertools.product(range(len(alpha_s) + 1), repeat=min(depth, 3 + (1 if p <= 2 else 0))))
                for w in r.sample(words, min(len(words), 10 if not ctx.thorough else 120)):
                    hists.append([("r", 0) if a == len(alpha_s) else ("n", 0, alpha_s[a]) for a in w])
            for hi, h in enumerate(hists):
                cont = feed(r, ind, p + 2 + r.randint(0, 4), bars=None, p=p)
                if hi % 2 == 1:
                    # infinities and extreme (non-NaN) values are legitimate continuation inputs as well
                    ext = [float("inf"), float("-inf"), 1.7976931348623157e308, -1.7976931348623157e308, 5e-324, 0.0, -0.0]
                    for ci_ in range(len(cont)):
                        if r.random() < (0.5 if ci_ == 0 else 0.25):
                            o_ = list(cont[ci_])
                            if o_[0] == "n":
                                o_[2] = r.choice(ext)
                                cont[ci_] = tuple(o_)
                            elif o_[0] == "b":
                                o_[2 + r.randrange(5)] = r.choice(ext)
                                cont[ci_] = tuple(o_)
                ops = [new_op(0, ind, pr)] + h + [("d", 0), ("r", 0)]
                if hi % 3 == 0:
                    ops.append(("r", 0))
                ops += [("d", 0), new_op(1, ind, pr)]
                if hi % 4 == 0:
                    ops.append(("r", 1))    # reset on a fresh one changes nothing
                for o in cont:
                    ops.append(o)
                    ops.append((o[0], 1) + tuple(o[2:]))
                cases.append(Case("%s_g%d_%d_%d_%d_h%d" % (ind, gi, pr[0], pr[1], pr[2], hi), ops, dump=(0, 1),
                                  meta={"ind": ind, "params": pr[:3], "hist_feeds": sum(1 for o in h if o[0] in "nbi")}))
    # seed-independent: histories after which the accumulators coincide with those of a fresh instance (a running sum that cancels
    # exactly, all zeros, a return to zero) while the window does not — a reset() that skips its work "when nothing needs clearing"
    for ind in ALL:
        for hi_, hv in enumerate(([2.0, 1.5, -1.5, -2.0], [3.0, -3.0], [0.0, 0.0, 0.0], [5.0, 0.0, -5.0], [1.0, -1.0, 1.0, -1.0], [7.0, -7.0, 0.0, 0.0], [4.0, 4.0, -8.0])):
            for p_ in (2, 4):
                pr = long_params(ind, p_)
                mk = (lambda s_, x: ("b", s_, x, x, x, x, 1.0)) if ind in NO_SCALAR else (lambda s_, x: ("n", s_, x))
                ops = [new_op(0, ind, pr)] + [mk(0, x) for x in hv] + [("d", 0), ("r", 0), ("d", 0), new_op(1, ind, pr)]
                for x in (3.0, 4.0, 5.0, 1.0, 2.0, 6.0, 0.5):
                    ops += [mk(0, x), mk(1, x)]
                cases.append(Case("%s_cancel%d_p%d" % (ind, hi_, p_), ops, dump=(0, 1), meta={"ind": ind, "params": pr[:3], "hist_feeds": len(hv)}))
    # seed-independent long lives before the reset: 2^10 - 3, 2^12 - 3 and 2^16 - 3 inputs (a maintenance counter that reset() forgets
    # fires during the warm-up of the new life), period 10; the longest on the implementation only
    for ind in ALL:
        for nh in (1021, 4093, 65533):
            if nh > 60000 and ind in ("MAD", "CCI", "ER") and not ctx.thorough:
                pass
            pr = long_params(ind, 10)
            h = long_feed(ind, nh)
            cont = [(o[0], 0) + tuple(v * 0.5 if (o[0] == "n" or i_ < 4) else v for i_, v in enumerate(o[2:])) for o in long_feed(ind, 34)]
            ops = [new_op(0, ind, pr)] + h + [("d", 0), ("r", 0), ("d", 0), new_op(1, ind, pr)]
            for o in cont:
                ops += [o, (o[0], 1) + tuple(o[2:])]
            meta = {"ind": ind, "params": pr[:3], "hist_feeds": nh}
            if nh > 60000:
                meta["harness_only"] = True
            cases.append(Case("%s_longlife_%d" % (ind, nh), ops, dump=(0, 1) if nh < 60000 else (), meta=meta))
    return cases


def nontrivial(c):
    return c.meta["hist_feeds"] >= 1


def search(ctx, t1_bad):
    """The correspondence broke on some cases: turn each into a direct test of the property — everything up to the last
    reset before the first differing op is the history, what follows is the continuation, fed in lock-step to a fresh instance."""
    from common import run_harness
    derived = []
    for c in t1_bad[:40]:
        k = c.t1 if 0 < c.t1 < 1000000 else len(c.ops)
        ops = [o for o in c.ops[:k] if o[0] != "new" or o[1] == 0]
        ops = [o for o in ops if len(o) < 2 or o[1] == 0 or o[0] == "new"]
        rpos = [i for i, o in enumerate(ops) if o[0] == "r"]
        if not rpos:
            continue
        cut = rpos[-1] + 1
        cont = [o for o in ops[cut:] if o[0] in "nbi"]
        newop = c.ops[0]
        d = list(ops[:cut]) + [("new", 1) + tuple(newop[2:])]
        for o in cont:
            d += [o, (o[0], 1) + tuple(o[2:])]
        derived.append(Case(c.cid + "_derived", d, dump=(), meta=dict(c.meta, hist_feeds=1)))
    if not derived:
        return []
    run_harness(ctx.binary, derived, "C04search")
    return check_impl(ctx, derived)


def check_impl(ctx, cases):
    out = []
    nonfinite_hist = 0
    for c in cases:
        probes = [ob for o, ob in zip(c.ops, c.obs) if o[0] == "d"]
        if len(probes) >= 2 and probes[0] != probes[-1]:
            out.append(Violation("%s: parameters / Display changed across reset: %s -> %s" % (c.meta["ind"], probes[0], probes[-1]), case=c))
            continue
        a = outs_of(c, 0)
        b = outs_of(c, 1)
        # the last len(b) feeds of slot 0 are the continuation
        a = a[len(a) - len(b):]
        for (i, oa), (j, ob) in zip(a, b):
            if not same_obs(oa, ob, rel=1e-12):
                out.append(Violation("%s%s: after reset the output at continuation step differs from a fresh instance: op %d -> %s, fresh op %d -> %s"
                                     % (c.meta["ind"], c.meta["params"], i + 1, oa, j + 1, ob), case=c))
                break
        if any(isinstance(v, float) and (v != v or abs(v) == float("inf")) for o in c.ops for v in o[2:] if o[0] in "nb"):
            nonfinite_hist += 1
        if len(out) > 10:
            break
    ctx.stats["cases_with_nonfinite_history"] = nonfinite_hist
    return out
