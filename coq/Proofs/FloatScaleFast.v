(* C14 on binary64, whole streams (scalar path): FastStochastic is UNCHANGED (as values) when every price is multiplied by 2^k: its
   Minimum and Maximum scale (FloatScaleMin / FloatScaleMax, no side conditions), the flat-window test `min == max` does not change, and
   %K = ((x - min) / (max - min)) * 100 is the same value in both runs (fast_formula_pow2_invariant). *)
From Coq Require Import Reals Lra Lia ZArith List Floats.
From Flocq Require Import Core BinarySingleNaN PrimFloat.
From TA Require Import Base Model FloatInst Proofs.Wiring Proofs.FloatErr Proofs.FloatScale Proofs.FloatScaleSma Proofs.FloatScaleWma Proofs.FloatScalePpo
  Proofs.FloatScaleMin Proofs.FloatScaleMax.
Import ListNotations.
Local Notation O := FOps.
Local Notation float := PrimFloat.float.
Open Scope R_scope.

Lemma eqb_scaled k a b a' b' : scaled k a a' -> scaled k b b' -> (a' =? b')%float = (a =? b)%float.
Proof.
  intros (Fa & Fa' & Ea) (Fb & Fb' & Eb). rewrite !eqb_equiv. unfold finF in *. rewrite !Beqb_correct by assumption.
  fold (FR a) (FR b) (FR a') (FR b'). rewrite Ea, Eb. pose proof (bpow_gt_0 radix2 k) as Hb.
  destruct (Req_bool_spec (FR a) (FR b)), (Req_bool_spec (FR a * bpow radix2 k) (FR b * bpow radix2 k)); try reflexivity; exfalso; nra.
Qed.

Definition rel_fast (k : Z) (s s' : @Fast float) : Prop :=
  fast_period s = fast_period s' /\ rel_min k (fast_minimum s) (fast_minimum s') /\ rel_max k (fast_maximum s) (fast_maximum s').

(* side conditions: the window extremes returned at this step are finite, and — unless the window is flat — the two differences are
   zero or normal before and after the scaling, the range does not round to 0 and the quotient does not overflow *)
Definition fast_step_ok (k : Z) (s : @Fast float) (x : float) : Prop :=
  forall mn lo mx hi, min_next O (fast_minimum s) x = Ok (mn, lo) -> max_next O (fast_maximum s) x = Ok (mx, hi) ->
    finF lo /\ finF hi /\
    ((lo =? hi)%float = false ->
       okr k (FR x - FR lo) /\ okr k (FR hi - FR lo) /\ FR (hi - lo)%float <> 0 /\ Rabs (FR (x - lo)%float / FR (hi - lo)%float) <= BIG / 256).

Lemma sinf_fin k a a' : sinf k a a' -> finF a -> scaled k a a'.
Proof. intros [H|[-> _]] F; [exact H|discriminate F]. Qed.
Lemma sninf_fin k a a' : sninf k a a' -> finF a -> scaled k a a'.
Proof. intros [H|[-> _]] F; [exact H|discriminate F]. Qed.

Lemma fast_step_pow2 k s s' x x' s1 o : rel_fast k s s' -> scaled k x x' -> fast_step_ok k s x -> fast_next O s x = Ok (s1, o) ->
  exists s1' o', fast_next O s' x' = Ok (s1', o') /\ rel_fast k s1 s1' /\ scaled 0 o o'.
Proof.
  intros (Ep & Rmn & Rmx) Sx Hok E. unfold fast_next in *. rewrite <- Ep.
  destruct (min_next O (fast_minimum s) x) as [[mn lo]| |] eqn:Emn; cbn [bind] in E; try discriminate.
  destruct (min_step_pow2 k _ _ x x' mn lo Rmn (or_introl Sx) Emn) as (mn' & lo' & Emn' & Rmn' & Slo). rewrite Emn'. cbn [bind].
  destruct (max_next O (fast_maximum s) x) as [[mx hi]| |] eqn:Emx; cbn [bind] in E; try discriminate.
  destruct (max_step_pow2 k _ _ x x' mx hi Rmx (or_introl Sx) Emx) as (mx' & hi' & Emx' & Rmx' & Shi). rewrite Emx'. cbn [bind].
  injection E as <- <-.
  destruct (Hok mn lo mx hi Emn Emx) as (Flo & Fhi & Hf).
  pose proof (sinf_fin k _ _ Slo Flo) as Sl. pose proof (sninf_fin k _ _ Shi Fhi) as Sh.
  cbn [eqb sub div mul c50 c100 O] in *. rewrite (eqb_scaled k lo hi lo' hi' Sl Sh).
  eexists _, _. split; [reflexivity|]. split; [unfold rel_fast; cbn [fast_period fast_minimum fast_maximum]; split; [reflexivity|split; assumption]|].
  destruct (lo =? hi)%float eqn:Eq.
  - apply scaled0; reflexivity.
  - destruct (Hf eq_refl) as ((A1 & A2 & A3) & (B1 & B2 & B3) & Nz & Hq).
    pose proof (fsub_scale k _ _ _ _ Sx Sl A1 A2 A3) as S1. pose proof (fsub_scale k _ _ _ _ Sh Sl B1 B2 B3) as S2.
    destruct (ratio100_invariant k _ _ _ _ S1 S2 Nz Hq) as (F1 & F2 & E). apply scaled0; assumption.
Qed.

Fixpoint fast_run_ok (k : Z) (s : @Fast float) (xs : list float) : Prop :=
  match xs with
  | [] => True
  | x :: xs => fast_step_ok k s x /\ exists s1 o, fast_next O s x = Ok (s1, o) /\ fast_run_ok k s1 xs
  end.

Theorem fast_stream_pow2 k : forall xs xs' s s', rel_fast k s s' -> Forall2 (scaled k) xs xs' -> fast_run_ok k s xs ->
  Forall2 (scaled 0) (fast_outs O s xs) (fast_outs O s' xs').
Proof.
  unfold fast_outs. induction xs as [|x xs IH]; intros xs' s s' Hr Hx Hok; inversion Hx as [|? x' ? xs2 Sx Hx']; subst; cbn [res_outs]; [constructor|].
  destruct Hok as (Hs & s1 & o & E & Hn). rewrite E.
  destruct (fast_step_pow2 k s s' x x' s1 o Hr Sx Hs E) as (s1' & o' & E' & Hr' & So). rewrite E'.
  constructor; [exact So|]. apply IH; [exact Hr'|exact Hx'|exact Hn].
Qed.
