# C18 — State size and heap use depend on the parameters only, never on stream length
from props.util import *
from common import run_harness, CARGO_TARGET
import subprocess

rule = ("serialized size: for each of the 22 indicators and periods 1..16 (quick) / 1..64 and sampled to 512 (thorough), the bincode "
        "bytes are taken after every input of a 40..300-step run of each shape (monotone, alternating, flat, random) via clone-and-dump "
        "checkpoints and compared with the model's byte image and closed size formula; heap: a counting global allocator in the harness "
        "measures live bytes after warm-up, at the peak and at the end of 10^5 (quick) / 10^6 (thorough) inputs of each shape. "
        "Non-trivial: distinct (indicator, parameters, shape)")
assumptions = ["live heap bytes are observed through a counting #[global_allocator] in the harness process; the allocator itself is not modelled"]

SHAPES = ["monotone", "alternating", "flat", "random"]


def shape_stream(r, shape, n):
    xs = []
    for k in range(n):
        u = r.random() if shape == "random" else 0.5
        if shape == "monotone":
            x = 100.0 + 0.5 * k
        elif shape == "alternating":
            x = 90.0 if k % 2 == 0 else 110.0
        elif shape == "flat":
            x = 100.0
        else:
            x = 50.0 + 100.0 * u
        xs.append((x, x + 1.0 + u, x - 1.0 - u, x + u - 0.5, 1000.0 * u))
    return xs


def gen_cases(ctx):
    r = ctx.rng
    cases = []
    periods = [1, 2, 3, 5, 8, 16] if not ctx.thorough else list(range(1, 65, 3)) + [100, 256, 512]
    for ind in ALL:
        plist = periods if nper(ind) > 0 else [0]
        for p in plist:
            for sh in (SHAPES if p <= 16 else SHAPES[3:]):
                pr = (p if nper(ind) >= 1 else 0, r.choice([1, 3, p]) if nper(ind) >= 2 else 0, r.choice([2, p]) if nper(ind) >= 3 else 0,
                      2.0 if ind in HAS_MULT else 0.0)
                n = min(300, 3 * p + 40) if p <= 64 else p + 40
                ops = [new_op(0, ind, pr)]
                dumps = [0]
                st = shape_stream(r, sh, n)
                # checkpoints: clone into slots 1..7 at chosen steps (state dumped at the end of the case)
                cps = sorted(set([0, 1, 2, p, p + 1, 2 * p + 1, n - 1]))[:7]
                slot = 1
                for k, b in enumerate(st):
                    if ind in NO_SCALAR or k % 2 == 0:
                        ops.append(("b", 0) + b)
                    else:
                        ops.append(("n", 0, b[3]))
                    if k in cps and slot <= 7:
                        ops.append(("c", 0, slot))
                        dumps.append(slot)
                        slot += 1
                cases.append(Case("%s_p%d_%s" % (ind, p, sh), ops, dump=tuple(dumps),
                                  meta={"ind": ind, "params": pr[:3], "shape": sh, "n": n}))
    return cases


def nontrivial(c):
    return True


def check_impl(ctx, cases):
    out = []
    sizes = {}
    for c in cases:
        ind = c.meta["ind"]
        bound = 256 + 64 * sum(c.meta["params"][:nper(ind)])
        lens = [len(c.images[s]) // 2 for s in c.dump if s in c.images]
        after_first = lens[1:]   # slot 1.. are checkpoints taken after >= 1 input; slot 0 is the final state
        if any(l > bound for l in lens):
            out.append(Violation("%s%s: serialized size %d exceeds 256 + 64*sum(periods) = %d" % (ind, c.meta["params"], max(lens), bound), case=c))
        if len(set(after_first + [lens[0]])) > 1:
            out.append(Violation("%s%s (%s): serialized size changes with the number of inputs: %s"
                                 % (ind, c.meta["params"], c.meta["shape"], lens), case=c))
        sizes.setdefault(ind, set()).add((c.meta["params"][0], lens[0]))
        if len(out) > 10:
            return out
    ctx.stats["serialized_sizes(period,bytes)"] = {k: sorted(v)[:4] for k, v in sizes.items()}
    # heap probes (implementation only)
    total = 100000 if not ctx.thorough else 1000000
    lines = ["CASE heap"]
    probes = []
    for ind in ALL:
        for p in ([1, 16, 512] if nper(ind) > 0 else [0]):
            for sh in range(4):
                if not ctx.thorough and sh in (1,) and p == 512:
                    continue
                if ind in ("MAD", "CCI", "ER") and p == 512 and not ctx.thorough:
                    tot = 20000
                else:
                    tot = total
                pr = (p if nper(ind) >= 1 else 0, 3 if nper(ind) >= 2 else 0, 2 if nper(ind) >= 3 else 0)
                lines.append("heap %s %d %d %d %s %d %d %d" % (ind, pr[0], pr[1], pr[2], hx(2.0), sh, 3 * max(p, 1) + 10, tot))
                probes.append((ind, pr, sh, tot))
    lines.append("END")
    from common import RUNDIR
    os.makedirs(RUNDIR, exist_ok=True)
    path = os.path.join(RUNDIR, "C18heap.cases")
    open(path, "w").write("\n".join(lines) + "\n")
    binary = ctx.binary_release or ctx.binary
    pr_ = subprocess.run([binary, "run", path], stdout=subprocess.PIPE, text=True, timeout=3000)
    res = [l for l in pr_.stdout.splitlines() if l.startswith("heap ")]
    ctx.stats["heap_probes"] = len(res)
    samples = []
    for (ind, pr, sh, tot), l in zip(probes, res):
        kv = dict(x.split("=") for x in l.split()[1:])
        bound = 256 + 64 * sum(pr[:nper(ind)])
        warm, end, peak = int(kv["warm"]), int(kv["end"]), int(kv["peak"])
        if len(samples) < 6:
            samples.append({"ind": ind, "periods": pr, "shape": sh, "inputs": tot, **kv})
        if end > warm or peak > warm + bound or end > bound + 64:
            from common import Case
            out.append(Violation("%s%s shape %d: live heap grows with the stream: after warm-up %d B, peak %d B, after %d inputs %d B (bound %d)"
                                 % (ind, pr, sh, warm, peak, tot, end, bound),
                                 case=Case("heap", [new_op(0, ind, pr + (2.0,))], dump=()), detail={"probe": l}))
            if len(out) > 5:
                break
    ctx.stats["heap_samples"] = samples
    return out


import os  # noqa
from common import BUILD, hx  # noqa
